(* Proofs about the zero-knowledge model (Model/Zero.v): `know_inv` -- every knowledge flag that is set is true of
   the ghost memory -- is an inductive invariant of the composed state machine for every sound span policy (the
   pinned tree and the FreshSpan variant), for all operation sequences and all oracle answers; a zeroing allocation
   returns a block whose ghost is zero over the whole block (both branches of _mi_page_malloc_zero and the huge
   case); in the pinned tree the page flags are constant false; the seeded change C04c breaks the invariant. *)
From Coq Require Import NArith List Bool Lia Permutation ZifyN ZifyBool.
From MiV Require Import Gen.Consts Model.Arith Model.Page Model.Zero Proofs.Base Proofs.PageProofs.
Import ListNotations. Local Open Scope N_scope.

(* ------------------------------------------------------------------------------------- *)
(* ranges                                                                                  *)
(* ------------------------------------------------------------------------------------- *)
Lemma in_range_spec lo n i : in_range lo n i = true <-> lo <= i < lo + n.
Proof. unfold in_range. rewrite andb_true_iff, N.leb_le, N.ltb_lt. tauto. Qed.

Lemma all_from_spec k f lo : all_from k f lo = true <-> forall i, lo <= i < lo + N.of_nat k -> f i = true.
Proof.
  revert lo. induction k as [|k IH]; intros lo; cbn [all_from].
  - split; [intros _ i Hi; lia|reflexivity].
  - rewrite andb_true_iff, IH. split.
    + intros [H0 H] i Hi. destruct (N.eq_dec i lo) as [->|Hne]; [exact H0|]. apply H. lia.
    + intros H. split; [apply H; lia|]. intros i Hi. apply H. lia.
Qed.

Lemma all_in_spec f lo n : all_in f lo n = true <-> forall i, lo <= i < lo + n -> f i = true.
Proof. unfold all_in. rewrite all_from_spec, N2Nat.id. tauto. Qed.

Lemma any_in_false f lo n : any_in f lo n = false <-> forall i, lo <= i < lo + n -> f i = false.
Proof.
  unfold any_in. rewrite negb_false_iff, all_in_spec. split; intros H i Hi; specialize (H i Hi).
  - apply negb_true_iff in H. exact H.
  - rewrite H. reflexivity.
Qed.

Lemma set_range_in {A} (f : N -> A) lo n v i : lo <= i < lo + n -> set_range f lo n v i = v.
Proof. intros H. unfold set_range. apply in_range_spec in H. rewrite H. reflexivity. Qed.

Lemma set_range_out {A} (f : N -> A) lo n v i : ~ (lo <= i < lo + n) -> set_range f lo n v i = f i.
Proof.
  intros H. unfold set_range. destruct (in_range lo n i) eqn:E; [|reflexivity].
  apply in_range_spec in E. contradiction.
Qed.

Lemma set_range_cases {A} (f : N -> A) lo n v i :
  (lo <= i < lo + n /\ set_range f lo n v i = v) \/ (~ (lo <= i < lo + n) /\ set_range f lo n v i = f i).
Proof.
  destruct (in_range lo n i) eqn:E.
  - left. apply in_range_spec in E. split; [exact E|apply set_range_in; exact E].
  - right. assert (H : ~ (lo <= i < lo + n)) by (intros H; apply in_range_spec in H; congruence).
    split; [exact H|apply set_range_out; exact H].
Qed.

Lemma upd_same {A} (f : N -> A) k v : upd f k v k = v.
Proof. unfold upd. rewrite N.eqb_refl. reflexivity. Qed.

Lemma upd_other {A} (f : N -> A) k v i : i <> k -> upd f k v i = f i.
Proof. intros H. unfold upd. apply N.eqb_neq in H. rewrite H. reflexivity. Qed.

(* ------------------------------------------------------------------------------------- *)
(* association lists                                                                       *)
(* ------------------------------------------------------------------------------------- *)
Definition AllV {A} (P : A -> Prop) (l : list (N * A)) : Prop := forall k v, In (k, v) l -> P v.

Lemma aget_In {A} k (l : list (N * A)) v : aget k l = Some v -> In (k, v) l.
Proof.
  induction l as [|[k' v'] r IH]; cbn [aget]; [discriminate|].
  destruct (k' =? k) eqn:E.
  - intros H; inversion H; subst. apply N.eqb_eq in E; subst. left; reflexivity.
  - intros H. right. apply IH. exact H.
Qed.

Lemma adel_In {A} k (l : list (N * A)) k' v : In (k', v) (adel k l) -> In (k', v) l.
Proof.
  induction l as [|[k0 v0] r IH]; cbn [adel]; [tauto|].
  destruct (k0 =? k).
  - intros H. right. apply IH. exact H.
  - intros [H|H]; [left; exact H|right; apply IH; exact H].
Qed.

Lemma aget_adel_same {A} k (l : list (N * A)) : aget k (adel k l) = None.
Proof.
  induction l as [|[k0 v0] r IH]; cbn [adel aget]; [reflexivity|].
  destruct (k0 =? k) eqn:E; [exact IH|]. cbn [aget]. rewrite E. exact IH.
Qed.

Lemma aget_adel_other {A} k k' (l : list (N * A)) : k' <> k -> aget k' (adel k l) = aget k' l.
Proof.
  intros Hne. induction l as [|[k0 v0] r IH]; cbn [adel aget]; [reflexivity|].
  destruct (k0 =? k) eqn:E.
  - apply N.eqb_eq in E; subst k0. assert (E' : (k =? k') = false) by (apply N.eqb_neq; congruence).
    rewrite E'. exact IH.
  - cbn [aget]. rewrite IH. reflexivity.
Qed.

Lemma aget_aset_same {A} k (v : A) l : aget k (aset k v l) = Some v.
Proof. unfold aset. cbn [aget]. rewrite N.eqb_refl. reflexivity. Qed.

Lemma aget_aset_other {A} k k' (v : A) l : k' <> k -> aget k' (aset k v l) = aget k' l.
Proof.
  intros Hne. unfold aset. cbn [aget].
  assert (E : (k =? k') = false) by (apply N.eqb_neq; congruence). rewrite E.
  apply aget_adel_other. exact Hne.
Qed.

Lemma AllV_nil {A} (P : A -> Prop) : AllV P [].
Proof. intros k v []. Qed.

Lemma AllV_aset {A} (P : A -> Prop) k v l : AllV P l -> P v -> AllV P (aset k v l).
Proof.
  intros H Hv k' v' [E|Hin].
  - inversion E; subst. exact Hv.
  - apply (H k' v'). eapply adel_In. exact Hin.
Qed.

Lemma AllV_adel {A} (P : A -> Prop) k l : AllV P l -> AllV P (adel k l).
Proof. intros H k' v' Hin. apply (H k' v'). eapply adel_In. exact Hin. Qed.

Lemma AllV_get {A} (P : A -> Prop) k l v : AllV P l -> aget k l = Some v -> P v.
Proof. intros H E. apply (H k v). apply aget_In. exact E. Qed.

Lemma lset_In {A} (l : list A) i v x : In x (lset l i v) -> x = v \/ In x l.
Proof.
  revert i. induction l as [|y r IH]; intros i; cbn [lset]; [tauto|].
  destruct i as [|j].
  - intros [H|H]; [left; symmetry; exact H|right; right; exact H].
  - intros [H|H]; [right; left; exact H|]. destruct (IH j H) as [E|E]; [left; exact E|right; right; exact E].
Qed.

Lemma Forall_lset {A} (P : A -> Prop) l i v : Forall P l -> P v -> Forall P (lset l i v).
Proof.
  intros H Hv. apply Forall_forall. intros x Hx. destruct (lset_In _ _ _ _ Hx) as [->|Hin]; [exact Hv|].
  rewrite Forall_forall in H. apply H. exact Hin.
Qed.

Lemma Forall_nth_error {A} (P : A -> Prop) l i x : Forall P l -> nth_error l i = Some x -> P x.
Proof. intros H E. rewrite Forall_forall in H. apply H. eapply nth_error_In. exact E. Qed.

(* ------------------------------------------------------------------------------------- *)
(* the invariant: every knowledge flag that is set is true of the ghost memory              *)
(* ------------------------------------------------------------------------------------- *)

(* blocks_dirty: in an arena that was zero initially, a block whose dirty bit is clear reads as zero *)
Definition arena_know (a : arena) : Prop :=
  ar_zero a = true -> forall i, ar_dirty a i = false -> ar_ghost a i = true.

(* memid.initially_zero of memory handed out by the arena layer, until its holder stores into it *)
Definition raw_know (r : raw) : Prop :=
  m_zero (rw_memid r) = true -> rw_fresh r = true -> rw_ghost r = true.

(* segment->memid.initially_zero: every slice that was never part of a page reads as zero; the header that
   mi_segment_alloc did not clear was zero; no slice entry has is_zero_init set *)
Definition seg_know (s : segment) : Prop :=
  sg_hdr_zero s = true /\
  (forall k, sg_izi s k = false) /\
  (m_zero (sg_memid s) = true -> forall k, sg_fresh s k = true -> sg_ghost s k = true).

(* page->free_is_zero: every block on the free list is zero behind its link word;
   page->is_zero_init: the part of the page area that was never handed to the free list is zero *)
Definition page_know (z : zpage) : Prop :=
  let p := zp_page z in
  page_Inv p /\
  (free_is_zero p = true -> is_zero_init p = true) /\
  (free_is_zero p = true -> forall b, In b (free p) -> g_rest (zp_ghost z b) = true) /\
  (is_zero_init p = true -> forall b, capacity p <= b -> b < reserved p -> zp_ghost z b = bg_zero).

Definition know_inv (st : state) : Prop :=
  Forall arena_know (st_arenas st) /\ AllV raw_know (st_raws st) /\
  AllV seg_know (st_segs st) /\ AllV page_know (st_pages st).

(* what mi_segment_span_allocate may claim about a span: only what the ghost confirms *)
Definition span_sound (v : variant) : Prop :=
  forall s lo cnt, seg_know s -> span_izi v s lo cnt = true -> all_in (sg_ghost s) lo cnt = true.

Lemma span_sound_pinned : span_sound Pinned.
Proof. intros s lo cnt (_ & Hi & _) H. cbn [span_izi] in H. rewrite Hi in H. discriminate. Qed.

Lemma span_sound_fresh : span_sound FreshSpan.
Proof.
  intros s lo cnt (_ & _ & Hz) H. cbn [span_izi] in H. apply andb_prop in H as [Hm Hf].
  apply all_in_spec. intros i Hi. apply (Hz Hm). rewrite all_in_spec in Hf. apply Hf. exact Hi.
Qed.

Lemma know_init : know_inv init.
Proof. unfold know_inv, init; cbn. split; [constructor|]. split; [apply AllV_nil|]. split; apply AllV_nil. Qed.

Lemma know_mk a r s p : Forall arena_know a -> AllV raw_know r -> AllV seg_know s -> AllV page_know p -> know_inv (mkSt a r s p).
Proof. intros. unfold know_inv. cbn. tauto. Qed.
Ltac kmk := unfold with_arenas, with_raws, with_segs, with_pages; apply know_mk; cbn [st_arenas st_raws st_segs st_pages]; try assumption.

(* ------------------------------------------------------------------------------------- *)
(* arena layer                                                                             *)
(* ------------------------------------------------------------------------------------- *)
Lemma arena_new_know nblocks zero pinned committed gz :
  (zero && negb gz) = false -> arena_know (arena_new nblocks zero pinned committed gz).
Proof.
  intros H Hz i _. cbn in *. rewrite Hz in H. cbn in H. apply negb_false_iff in H. exact H.
Qed.

(* the claim: the arena stays consistent and the memid's flag is true of the ghost of the returned memory *)
Lemma arena_alloc_know ai a b0 n commit cok cz m gz a' :
  arena_know a -> arena_try_alloc_at ai a b0 n commit cok cz = Some (m, gz, a') ->
  arena_know a' /\ (m_zero m = true -> gz = true).
Proof.
  intros Hk. unfold arena_try_alloc_at.
  destruct ((n =? 0) || (ar_nblocks a <? b0 + n) || any_in (ar_inuse a) b0 n); [discriminate|].
  set (zero0 := if ar_zero a then negb (any_in (ar_dirty a) b0 n) else false).
  set (gz0 := all_in (ar_ghost a) b0 n).
  assert (H0 : zero0 = true -> gz0 = true).
  { unfold zero0, gz0. destruct (ar_zero a) eqn:Ez; [|discriminate]. intros H.
    apply negb_true_iff in H. rewrite any_in_false in H. apply all_in_spec. intros i Hi.
    apply (Hk Ez). apply H. exact Hi. }
  assert (Hk' : forall cm, arena_know (mkArena (ar_nblocks a) (ar_zero a) (ar_pinned a) (set_range (ar_inuse a) b0 n true)
                    (if ar_zero a then set_range (ar_dirty a) b0 n true else ar_dirty a) cm (set_range (ar_ghost a) b0 n false))).
  { intros cm Hz i Hd. cbn in *. rewrite Hz in Hd.
    destruct (set_range_cases (ar_dirty a) b0 n true i) as [[_ E]|[Hout E]]; rewrite E in Hd; [discriminate|].
    rewrite set_range_out by exact Hout. apply (Hk Hz). exact Hd. }
  destruct (ar_pinned a).
  - intros H; inversion H; subst. split; [apply Hk'|]. cbn. exact H0.
  - destruct commit.
    + destruct (negb (all_in (ar_committed a) b0 n)).
      * destruct cok.
        -- intros H; inversion H; subst. split; [apply Hk'|]. cbn. intros Hz.
           apply orb_prop in Hz as [Hz|Hz]; [rewrite (H0 Hz); reflexivity|rewrite Hz; apply orb_true_r].
        -- intros H; inversion H; subst. split; [apply Hk'|]. cbn. exact H0.
      * intros H; inversion H; subst. split; [apply Hk'|]. cbn. exact H0.
    + intros H; inversion H; subst. split; [apply Hk'|]. cbn. exact H0.
Qed.

Lemma arena_free_know a b0 n allc : arena_know a -> arena_know (arena_free a b0 n allc).
Proof. intros Hk Hz i Hd. cbn in *. apply (Hk Hz). exact Hd. Qed.

Lemma arena_purge_know a b0 n pz dec a' : arena_know a -> arena_purge a b0 n pz dec = Some a' -> arena_know a'.
Proof.
  intros Hk. unfold arena_purge.
  destruct (ar_pinned a || (ar_nblocks a <? b0 + n) || any_in (ar_inuse a) b0 n); [discriminate|].
  intros H; inversion H; subst. intros Hz i Hd. cbn in *. destruct pz; [|apply (Hk Hz); exact Hd].
  destruct (set_range_cases (ar_ghost a) b0 n true i) as [[_ E]|[_ E]]; rewrite E; [reflexivity|apply (Hk Hz); exact Hd].
Qed.

Lemma alloc_src_know st src st1 m gz :
  know_inv st -> alloc_src st src = Some (st1, m, gz) ->
  know_inv st1 /\ (m_zero m = true -> gz = true) /\
  st_raws st1 = st_raws st /\ st_segs st1 = st_segs st /\ st_pages st1 = st_pages st.
Proof.
  intros (HA & HR & HS & HP). destruct src as [a b0 n commit cok cz|commit osz]; cbn [alloc_src].
  - destruct (nth_error (st_arenas st) (N.to_nat a)) as [ar|] eqn:En; [|discriminate].
    destruct (arena_try_alloc_at a ar b0 n commit cok cz) as [[[m0 gz0] ar']|] eqn:Ea; [|discriminate].
    intros H; inversion H; subst.
    destruct (arena_alloc_know _ _ _ _ _ _ _ _ _ _ (Forall_nth_error _ _ _ _ HA En) Ea) as [Hk' Hz].
    split; [|split; [exact Hz|cbn; auto]].
    kmk. apply Forall_lset; assumption.
  - intros H; inversion H; subst. split; [unfold know_inv; tauto|]. split; [cbn; tauto|auto].
Qed.

Lemma free_mem_know st m allc :
  know_inv st -> know_inv (free_mem st m allc) /\
  st_raws (free_mem st m allc) = st_raws st /\ st_segs (free_mem st m allc) = st_segs st /\
  st_pages (free_mem st m allc) = st_pages st.
Proof.
  intros (HA & HR & HS & HP). unfold free_mem. destruct (m_kind m) as [a b0 n|]; [|unfold know_inv; tauto].
  destruct (nth_error (st_arenas st) (N.to_nat a)) as [ar|] eqn:En; [|unfold know_inv; tauto].
  split; [|cbn; tauto]. kmk. apply Forall_lset; [exact HA|]. apply arena_free_know.
  exact (Forall_nth_error _ _ _ _ HA En).
Qed.

(* ------------------------------------------------------------------------------------- *)
(* segment layer                                                                           *)
(* ------------------------------------------------------------------------------------- *)
Lemma seg_init_know m gz huge nslices info junk :
  (m_zero m = true -> gz = true) -> seg_know (seg_init m gz huge nslices info junk).
Proof.
  intros Hz. unfold seg_init.
  assert (Hh : (if m_zero m then gz else true) = true) by (destruct (m_zero m); [apply Hz; reflexivity|reflexivity]).
  rewrite Hh. unfold seg_know. cbn. split; [reflexivity|]. split; [reflexivity|].
  intros Hm k Hf. destruct (set_range_cases all_bits 0 info false k) as [[_ E]|[Hout E]]; rewrite E in Hf; [discriminate|].
  rewrite set_range_out by exact Hout. apply Hz. exact Hm.
Qed.

Lemma seg_page_clear_know s lo : seg_know s -> seg_know (seg_page_clear s lo).
Proof.
  intros (H1 & H2 & H3). repeat split; cbn; try assumption.
  intros k. unfold upd. destruct (k =? lo); [reflexivity|apply H2].
Qed.

Lemma seg_purge_know s lo cnt pz : seg_know s -> seg_know (seg_purge s lo cnt pz).
Proof.
  intros (H1 & H2 & H3). repeat split; cbn; try assumption. intros Hm k Hf. destruct pz; [|apply (H3 Hm); exact Hf].
  destruct (set_range_cases (sg_ghost s) lo cnt true k) as [[_ E]|[_ E]]; rewrite E; [reflexivity|apply (H3 Hm); exact Hf].
Qed.

(* ------------------------------------------------------------------------------------- *)
(* page layer: the invariant for ARBITRARY flag values (also pages whose flags are set)      *)
(* ------------------------------------------------------------------------------------- *)
Lemma live_not_free p b : memN b (page_live p) = true -> b < capacity p /\ ~ In b (free p).
Proof.
  intros H. apply memN_In in H. apply page_live_spec in H. destruct H as (H0 & H1 & _). split; assumption.
Qed.

Lemma zp_extend_know z : page_know z -> page_know (zp_extend z).
Proof.
  intros (HI & K0 & K1 & K3). unfold page_know, zp_extend, zp_set. cbn [zp_page zp_ghost].
  pose proof HI as (Hb & Hcr & Hr & Hnd & Hlt & Hcnt & Htf).
  split; [apply extend_inv; exact HI|].
  destruct (extend_spec (zp_page z) Hr) as [E|(e & Ef & He & Hc & E)]; rewrite E.
  - (* nothing extended: the range [capacity, capacity) is empty *)
    repeat split; try assumption.
    + intros Hz b Hin. replace ((capacity (zp_page z) <=? b) && (b <? capacity (zp_page z))) with false by lia.
      apply K1; assumption.
    + intros Hz b H1 H2. replace ((capacity (zp_page z) <=? b) && (b <? capacity (zp_page z))) with false by lia.
      apply K3; assumption.
  - psimpl. repeat split.
    + exact K0.
    + intros Hz b Hin. apply In_nseq in Hin. rewrite N2Nat.id in Hin.
      replace ((capacity (zp_page z) <=? b) && (b <? capacity (zp_page z) + e)) with true by lia.
      cbn [g_rest]. rewrite (K3 (K0 Hz) b) by lia. reflexivity.
    + intros Hz b H1 H2.
      replace ((capacity (zp_page z) <=? b) && (b <? capacity (zp_page z) + e)) with false by lia.
      apply K3; [exact Hz|lia|exact H2].
Qed.

Lemma zp_malloc_know z zero b z' : page_know z -> zp_malloc z zero = Some (b, z') -> page_know z'.
Proof.
  intros (HI & K0 & K1 & K3). unfold zp_malloc.
  destruct (page_malloc (zp_page z)) as [[b0 p']|] eqn:E; [|discriminate].
  intros H; inversion H; subst b0 z'. clear H.
  pose proof (malloc_inv _ _ _ HI E) as HI'.
  destruct (malloc_spec _ _ _ E) as (rest & Ef & ->).
  pose proof HI as (Hb & Hcr & Hr & Hnd & Hlt & Hcnt & Htf).
  assert (Hbc : b < capacity (zp_page z)) by (apply Hlt; rewrite Ef; left; reflexivity).
  unfold page_know, zp_set. cbn [zp_page zp_ghost]. split; [exact HI'|]. psimpl. repeat split.
  - exact K0.
  - intros Hz b1 Hin. unfold upd. destruct (b1 =? b) eqn:Eb.
    + apply N.eqb_eq in Eb; subst b1. assert (Hr0 : g_rest (zp_ghost z b) = true) by (apply K1; [exact Hz|rewrite Ef; left; reflexivity]).
      destruct zero; [|exact Hr0]. destruct (zp_huge z); [reflexivity|]. rewrite Hz. exact Hr0.
    + apply K1; [exact Hz|rewrite Ef; right; exact Hin].
  - intros Hz b1 H1 H2. rewrite upd_other by lia. apply K3; assumption.
Qed.

Lemma zp_free_local_know z b z' : page_know z -> zp_free_local z b = Some z' -> page_know z'.
Proof.
  intros (HI & K0 & K1 & K3). unfold zp_free_local.
  destruct (memN b (page_live (zp_page z))) eqn:El; [|discriminate]. intros H; inversion H; subst z'. clear H.
  destruct (live_not_free _ _ El) as [Hbc Hnf].
  assert (Hl : is_live (zp_page z) b) by (apply page_live_spec, memN_In; exact El).
  unfold page_know, zp_set. cbn [zp_page zp_ghost]. split; [apply free_local_inv; assumption|].
  unfold page_free_local. psimpl. repeat split.
  - exact K0.
  - intros Hz b1 Hin. rewrite upd_other by (intros ->; contradiction). apply K1; assumption.
  - intros Hz b1 H1 H2. rewrite upd_other by lia. apply K3; assumption.
Qed.

Lemma zp_remote_free_know z b z' : page_know z -> zp_remote_free z b = Some z' -> page_know z'.
Proof.
  intros (HI & K0 & K1 & K3). unfold zp_remote_free.
  destruct (memN b (page_live (zp_page z))) eqn:El; [|discriminate]. intros H; inversion H; subst z'. clear H.
  destruct (live_not_free _ _ El) as [Hbc Hnf].
  assert (Hl : is_live (zp_page z) b) by (apply page_live_spec, memN_In; exact El).
  unfold page_know, zp_set. cbn [zp_page zp_ghost]. split; [apply remote_free_inv; assumption|].
  unfold page_remote_free. psimpl. repeat split.
  - exact K0.
  - intros Hz b1 Hin. rewrite upd_other by (intros ->; contradiction). apply K1; assumption.
  - intros Hz b1 H1 H2. rewrite upd_other by lia. apply K3; assumption.
Qed.

Lemma zp_write_know z b w0 rest z' : page_know z -> zp_write z b w0 rest = Some z' -> page_know z'.
Proof.
  intros (HI & K0 & K1 & K3). unfold zp_write.
  destruct (memN b (page_live (zp_page z))) eqn:El; [|discriminate]. intros H; inversion H; subst z'. clear H.
  destruct (live_not_free _ _ El) as [Hbc Hnf].
  unfold page_know, zp_set. cbn [zp_page zp_ghost]. split; [exact HI|]. repeat split.
  - exact K0.
  - intros Hz b1 Hin. rewrite upd_other by (intros ->; contradiction). apply K1; assumption.
  - intros Hz b1 H1 H2. rewrite upd_other by lia. apply K3; assumption.
Qed.

(* _mi_page_free_collect: either nothing moves to `free`, or free_is_zero is cleared *)
Lemma collect_flags p f :
  let q := fst (page_free_collect p f) in
  is_zero_init q = is_zero_init p /\
  ((free q = free p /\ free_is_zero q = free_is_zero p) \/ free_is_zero q = false).
Proof.
  unfold page_free_collect.
  assert (HT : forall p0, is_zero_init (fst (page_thread_free_collect p0)) = is_zero_init p0 /\
                          free (fst (page_thread_free_collect p0)) = free p0 /\
                          free_is_zero (fst (page_thread_free_collect p0)) = free_is_zero p0).
  { intros p0. unfold page_thread_free_collect. destruct (thread_free p0); [repeat split|].
    destruct (capacity p0 <? _); repeat split. }
  set (r := match thread_free p with [] => (p, false) | _ :: _ => page_thread_free_collect p end).
  assert (Hr : is_zero_init (fst r) = is_zero_init p /\ free (fst r) = free p /\ free_is_zero (fst r) = free_is_zero p).
  { unfold r. destruct (thread_free p) eqn:Et; [repeat split|]. apply HT. }
  destruct r as [p1 err]. cbn [fst] in Hr. destruct Hr as (H1 & H2 & H3).
  destruct (local_free p1) as [|x lf]; cbn [fst].
  - split; [exact H1|left; split; assumption].
  - destruct (free p1) as [|y fr] eqn:Ef.
    + psimpl. split; [exact H1|right; reflexivity].
    + destruct f; psimpl.
      * split; [exact H1|right; reflexivity].
      * split; [exact H1|left; rewrite Ef; split; assumption].
Qed.

Lemma zp_collect_know z f : page_know z -> page_know (zp_collect z f).
Proof.
  intros (HI & K0 & K1 & K3). unfold page_know, zp_collect, zp_set. cbn [zp_page zp_ghost].
  split; [apply collect_inv; exact HI|].
  destruct (collect_flags (zp_page z) f) as (Hi & Hf).
  destruct (page_free_collect (zp_page z) f) as [q e] eqn:E. cbn [fst] in *.
  destruct (collect_spec _ _ _ _ HI E) as (_ & _ & Er & Ec & _).
  pose proof HI as (_ & _ & _ & _ & Hlt & _).
  assert (K3' : is_zero_init (zp_page z) = true -> forall b, capacity (zp_page z) <= b -> b < reserved (zp_page z) ->
                (if memN b (local_free (zp_page z) ++ thread_free (zp_page z)) then mkBg false (g_rest (zp_ghost z b)) else zp_ghost z b) = bg_zero).
  { intros Hz b H1 H2. destruct (memN b (local_free (zp_page z) ++ thread_free (zp_page z))) eqn:Em; [|apply K3; assumption].
    apply memN_In in Em. assert (b < capacity (zp_page z)) by (apply Hlt; apply in_app_iff; right; exact Em). lia. }
  assert (Hrest : forall b, g_rest (if memN b (local_free (zp_page z) ++ thread_free (zp_page z)) then mkBg false (g_rest (zp_ghost z b)) else zp_ghost z b)
                            = g_rest (zp_ghost z b)).
  { intros b. destruct (memN b _); reflexivity. }
  rewrite Hi, Er, Ec. destruct Hf as [[Hf1 Hf2]|Hf].
  - rewrite Hf1, Hf2. split; [exact K0|]. split; [|exact K3']. intros Hz b Hin. rewrite Hrest. apply K1; assumption.
  - rewrite Hf. split; [discriminate|]. split; [discriminate|exact K3'].
Qed.

(* ------------------------------------------------------------------------------------- *)
(* page creation                                                                           *)
(* ------------------------------------------------------------------------------------- *)
Lemma page_alloc_know v sid s lo cnt bsize psize s' z :
  span_sound v -> seg_know s -> page_alloc v sid s lo cnt bsize psize = Some (s', z) ->
  seg_know s' /\ page_know z.
Proof.
  intros Hv Hs. unfold page_alloc.
  destruct ((cnt =? 0) || (lo <? sg_info s) || (sg_slices s <? lo + cnt) || (bsize =? 0) || (psize <? bsize)
            || (cnt * MI_SEGMENT_SLICE_SIZE <? psize) || (65536 <=? psize / bsize)) eqn:G; [discriminate|].
  intros H; inversion H; subst s' z. clear H. split.
  - destruct Hs as (H1 & H2 & H3). repeat split; cbn; try assumption.
    intros Hm k Hf. destruct (set_range_cases (sg_fresh s) lo cnt false k) as [[_ E]|[Hout E]]; rewrite E in Hf; [discriminate|].
    rewrite set_range_out by exact Hout. apply (H3 Hm). exact Hf.
  - apply zp_extend_know. unfold page_know. cbn [zp_page zp_ghost]. psimpl.
    assert (Hbs : 0 < bsize) by lia. assert (Hq : psize / bsize < 65536) by lia.
    split.
    { rewrite wrap16_small by exact Hq. apply Inv_intro; psimpl; cbn [app length]; try lia.
      - constructor.
      - intros i []. }
    repeat split.
    + tauto.
    + intros _ b [].
    + intros Hz b _ _. rewrite (Hv s lo cnt Hs Hz). reflexivity.
Qed.

(* ------------------------------------------------------------------------------------- *)
(* the composed machine                                                                    *)
(* ------------------------------------------------------------------------------------- *)
Lemma on_page_know st pid f st' r :
  know_inv st -> (forall z z' r', page_know z -> f z = Some (z', r') -> page_know z') ->
  on_page st pid f = Some (st', r) -> know_inv st'.
Proof.
  intros (HA & HR & HS & HP) Hf. unfold on_page.
  destruct (aget pid (st_pages st)) as [z|] eqn:Eg; [|discriminate].
  destruct (f z) as [[z' r']|] eqn:Ef; [|discriminate]. intros H; inversion H; subst.
  kmk. apply AllV_aset; [exact HP|].
  eapply Hf; [|exact Ef]. eapply AllV_get; eassumption.
Qed.

Theorem know_step v st o st' r : span_sound v -> know_inv st -> step v st o = Some (st', r) -> know_inv st'.
Proof.
  intros Hv HK. pose proof HK as (HA & HR & HS & HP).
  destruct o as [nblocks zero pinned committed gz|rid src|rid|rid allc|a b0 n pz dec|sid src huge nslices info cok2 junk
                |sid allc|sid lo cnt pz|pid sid lo cnt bsize psize cok|pid|pid zero|pid|pid force|pid b|pid b|pid b w0 rest];
    cbn [step].
  - (* OArenaNew *)
    destruct ((nblocks =? 0) || (zero && negb gz)) eqn:G; [discriminate|]. intros H; inversion H; subst.
    apply orb_false_iff in G as [_ G].
    kmk. apply Forall_app. split; [exact HA|]. constructor; [|constructor].
    apply arena_new_know. exact G.
  - (* ORawAlloc *)
    destruct (aget rid (st_raws st)); [discriminate|].
    destruct (alloc_src st src) as [[[st1 m] gz]|] eqn:Ea; [|discriminate]. intros H; inversion H; subst.
    destruct (alloc_src_know _ _ _ _ _ HK Ea) as ((HA1 & HR1 & HS1 & HP1) & Hz & _).
    kmk. apply AllV_aset; [exact HR1|]. intros Hm _. cbn in *. apply Hz. exact Hm.
  - (* ORawWrite *)
    destruct (aget rid (st_raws st)) as [r0|]; [|discriminate]. intros H; inversion H; subst.
    kmk. apply AllV_aset; [exact HR|]. intros _ Hf. cbn in Hf. discriminate.
  - (* ORawFree *)
    destruct (aget rid (st_raws st)) as [r0|]; [|discriminate]. intros H; inversion H; subst.
    destruct (free_mem_know st (rw_memid r0) allc HK) as ((HA1 & HR1 & HS1 & HP1) & _).
    kmk. apply AllV_adel. exact HR1.
  - (* OArenaPurge *)
    destruct (nth_error (st_arenas st) (N.to_nat a)) as [ar|] eqn:En; [|discriminate].
    destruct (arena_purge ar b0 n pz dec) as [ar'|] eqn:Ep; [|discriminate]. intros H; inversion H; subst.
    kmk. apply Forall_lset; [exact HA|].
    eapply arena_purge_know; [|exact Ep]. exact (Forall_nth_error _ _ _ _ HA En).
  - (* OSegAlloc *)
    destruct (aget sid (st_segs st)); [discriminate|].
    destruct ((info =? 0) || (nslices <? info)); [discriminate|].
    destruct (alloc_src st src) as [[[st1 m] gz]|] eqn:Ea; [|discriminate].
    destruct (alloc_src_know _ _ _ _ _ HK Ea) as (HK1 & Hz & _).
    destruct (negb (m_committed m) && negb cok2).
    + intros H; inversion H; subst. apply free_mem_know. exact HK1.
    + intros H; inversion H; subst. destruct HK1 as (HA1 & HR1 & HS1 & HP1).
      kmk. apply AllV_aset; [exact HS1|]. apply seg_init_know. exact Hz.
  - (* OSegFree *)
    destruct (aget sid (st_segs st)) as [s|]; [|discriminate].
    destruct (seg_no_pages st sid); [|discriminate]. intros H; inversion H; subst.
    destruct (free_mem_know st (sg_memid s) allc HK) as ((HA1 & HR1 & HS1 & HP1) & _).
    kmk. apply AllV_adel. exact HS1.
  - (* OSegPurge *)
    destruct (aget sid (st_segs st)) as [s|] eqn:Eg; [|discriminate].
    destruct (span_unused st sid lo cnt && (sg_info s <=? lo)); [|discriminate]. intros H; inversion H; subst.
    kmk. apply AllV_aset; [exact HS|]. apply seg_purge_know.
    eapply AllV_get; eassumption.
  - (* OPageAlloc *)
    destruct (aget pid (st_pages st)); [discriminate|].
    destruct (aget sid (st_segs st)) as [s|] eqn:Eg; [|discriminate].
    destruct (span_unused st sid lo cnt); [|discriminate].
    destruct (page_alloc v sid s lo cnt bsize psize) as [[s' z]|] eqn:Ep; [|discriminate].
    destruct (page_alloc_know _ _ _ _ _ _ _ _ _ Hv (AllV_get _ _ _ _ HS Eg) Ep) as [Hs' Hz].
    destruct cok; intros H; inversion H; subst; [|exact HK].
    kmk; apply AllV_aset; assumption.
  - (* OPageFree *)
    destruct (aget pid (st_pages st)) as [z|]; [|discriminate].
    destruct (page_all_free (zp_page z)); [|discriminate]. intros H; inversion H; subst.
    kmk; [|apply AllV_adel; exact HP].
    destruct (aget (zp_seg z) (st_segs st)) as [s|] eqn:Eg; [|exact HS].
    apply AllV_aset; [exact HS|]. apply seg_page_clear_know. eapply AllV_get; eassumption.
  - (* OMalloc *)
    intros H. eapply on_page_know; [exact HK| |exact H]. intros z z' r' Hz Hf. cbn beta in Hf.
    destruct (zp_malloc z zero) as [[b z0]|] eqn:E; [|discriminate]. inversion Hf; subst.
    eapply zp_malloc_know; eassumption.
  - (* OExtend *)
    intros H. eapply on_page_know; [exact HK| |exact H]. intros z z' r' Hz Hf. inversion Hf; subst.
    apply zp_extend_know. exact Hz.
  - (* OCollect *)
    intros H. eapply on_page_know; [exact HK| |exact H]. intros z z' r' Hz Hf. inversion Hf; subst.
    apply zp_collect_know. exact Hz.
  - (* OFree *)
    intros H. eapply on_page_know; [exact HK| |exact H]. intros z z' r' Hz Hf. cbn beta in Hf.
    destruct (zp_free_local z b) as [z0|] eqn:E; [|discriminate]. inversion Hf; subst.
    eapply zp_free_local_know; eassumption.
  - (* ORemoteFree *)
    intros H. eapply on_page_know; [exact HK| |exact H]. intros z z' r' Hz Hf. cbn beta in Hf.
    destruct (zp_remote_free z b) as [z0|] eqn:E; [|discriminate]. inversion Hf; subst.
    eapply zp_remote_free_know; eassumption.
  - (* OWrite *)
    intros H. eapply on_page_know; [exact HK| |exact H]. intros z z' r' Hz Hf. cbn beta in Hf.
    destruct (zp_write z b w0 rest) as [z0|] eqn:E; [|discriminate]. inversion Hf; subst.
    eapply zp_write_know; eassumption.
Qed.

Theorem know_run v ops : span_sound v -> forall st st', know_inv st -> run v st ops = Some st' -> know_inv st'.
Proof.
  intros Hv. induction ops as [|o r IH]; intros st st' HK; cbn [run].
  - intros H; inversion H; subst. exact HK.
  - destruct (step v st o) as [[st1 r1]|] eqn:E; [|discriminate]. intros H.
    eapply IH; [|exact H]. eapply know_step; eassumption.
Qed.

Theorem know_reachable v ops st : span_sound v -> run v init ops = Some st -> know_inv st.
Proof. intros Hv H. eapply know_run; [exact Hv|apply know_init|exact H]. Qed.

(* ------------------------------------------------------------------------------------- *)
(* a zeroing allocation returns a block whose ghost is zero over the whole block           *)
(* ------------------------------------------------------------------------------------- *)
(* the branch `block->next = 0` (free_is_zero set, not a huge page): only the link word is stored *)
Lemma zp_malloc_flag_branch z b z' :
  zp_malloc z true = Some (b, z') -> zp_huge z = false -> free_is_zero (zp_page z) = true ->
  In b (free (zp_page z)) /\ zp_ghost z' b = mkBg true (g_rest (zp_ghost z b)).
Proof.
  unfold zp_malloc. destruct (page_malloc (zp_page z)) as [[b0 p']|] eqn:E; [|discriminate].
  intros H Hh Hz; inversion H; subst b0 z'. destruct (malloc_spec _ _ _ E) as (rest & Ef & _).
  split; [rewrite Ef; left; reflexivity|]. unfold zp_set. cbn [zp_ghost]. rewrite upd_same, Hh, Hz. reflexivity.
Qed.

(* the memzero branches (flag clear, or a huge page: _mi_malloc_generic clears afterwards) need no knowledge *)
Lemma zp_malloc_memzero_branch z b z' :
  zp_malloc z true = Some (b, z') -> zp_huge z = true \/ free_is_zero (zp_page z) = false -> zp_ghost z' b = bg_zero.
Proof.
  unfold zp_malloc. destruct (page_malloc (zp_page z)) as [[b0 p']|] eqn:E; [|discriminate].
  intros H Hc; inversion H; subst b0 z'. unfold zp_set. cbn [zp_ghost]. rewrite upd_same.
  destruct (zp_huge z); [reflexivity|]. destruct Hc as [Hc|Hc]; [discriminate|]. rewrite Hc. reflexivity.
Qed.

Theorem zp_zalloc_zero z b z' : page_know z -> zp_malloc z true = Some (b, z') -> zp_ghost z' b = bg_zero.
Proof.
  intros (HI & K0 & K1 & K3) H.
  destruct (zp_huge z) eqn:Eh; [apply (zp_malloc_memzero_branch _ _ _ H); left; exact Eh|].
  destruct (free_is_zero (zp_page z)) eqn:Ez; [|apply (zp_malloc_memzero_branch _ _ _ H); right; exact Ez].
  destruct (zp_malloc_flag_branch _ _ _ H Eh Ez) as [Hin ->]. rewrite (K1 eq_refl b Hin). reflexivity.
Qed.

Theorem zalloc_really_zero v st pid st' b :
  know_inv st -> step v st (OMalloc pid true) = Some (st', OutBlock b) ->
  exists z', aget pid (st_pages st') = Some z' /\ zp_ghost z' b = bg_zero /\ bg_all (zp_ghost z' b) = true.
Proof.
  intros (_ & _ & _ & HP). cbn [step]. unfold on_page.
  destruct (aget pid (st_pages st)) as [z|] eqn:Eg; [|discriminate].
  destruct (zp_malloc z true) as [[b0 z0]|] eqn:Em; [|discriminate]. intros H; inversion H; subst.
  exists z0. cbn. rewrite N.eqb_refl. split; [reflexivity|].
  pose proof (zp_zalloc_zero _ _ _ (AllV_get _ _ _ _ HP Eg) Em) as E. rewrite E. split; reflexivity.
Qed.

(* ------------------------------------------------------------------------------------- *)
(* a freed block is dirty, and is never trusted again                                      *)
(* ------------------------------------------------------------------------------------- *)
Theorem free_marks_dirty z b z' : zp_free_local z b = Some z' ->
  g_w0 (zp_ghost z' b) = false /\ g_rest (zp_ghost z' b) = g_rest (zp_ghost z b) /\ In b (local_free (zp_page z')).
Proof.
  unfold zp_free_local. destruct (memN b (page_live (zp_page z))); [|discriminate].
  intros H; inversion H; subst. unfold zp_set. cbn [zp_ghost zp_page]. rewrite upd_same. cbn.
  repeat split. left; reflexivity.
Qed.

Theorem write_marks_dirty z b w0 rest z' : zp_write z b w0 rest = Some z' ->
  (w0 = true -> g_w0 (zp_ghost z' b) = false) /\ (rest = true -> g_rest (zp_ghost z' b) = false).
Proof.
  unfold zp_write. destruct (memN b (page_live (zp_page z))); [|discriminate].
  intros H; inversion H; subst. unfold zp_set. cbn [zp_ghost]. rewrite upd_same. cbn.
  split; intros ->; apply andb_false_r.
Qed.

(* whenever _mi_page_free_collect moves freed blocks to `free`, the page's knowledge is dropped *)
Theorem collect_moved_clears p f : page_Inv p ->
  local_free p ++ thread_free p <> [] -> (free p = [] \/ f = true) ->
  free_is_zero (fst (page_free_collect p f)) = false.
Proof.
  intros HI Hne Hc. unfold page_free_collect. rewrite collect_first_eq.
  destruct (page_thread_free_collect p) as [p1 err] eqn:E1.
  destruct (tfc_spec p p1 err HI E1) as (_ & _ & _ & _ & Hf & Hl & _).
  destruct (local_free p1) as [|x lf] eqn:El.
  - exfalso. apply Hne. destruct (thread_free p); destruct (local_free p); try discriminate. reflexivity.
  - destruct (free p1) as [|y fr] eqn:Ef; [reflexivity|].
    destruct Hc as [Hc | ->]; [rewrite Hc in Hf; discriminate|reflexivity].
Qed.

(* a block whose ghost is dirty never sits on the free list of a page that claims free_is_zero *)
Theorem dirty_block_not_trusted st pid z b :
  know_inv st -> aget pid (st_pages st) = Some z -> In b (free (zp_page z)) -> g_rest (zp_ghost z b) = false ->
  free_is_zero (zp_page z) = false.
Proof.
  intros (_ & _ & _ & HP) Eg Hin Hd. destruct (AllV_get _ _ _ _ HP Eg) as (_ & _ & K1 & _).
  destruct (free_is_zero (zp_page z)); [|reflexivity]. rewrite (K1 eq_refl b Hin) in Hd. discriminate.
Qed.

(* ------------------------------------------------------------------------------------- *)
(* no operation inside a page sets a flag; in the pinned tree both flags are constant false *)
(* ------------------------------------------------------------------------------------- *)
Definition flags_le (z z' : zpage) : Prop :=
  is_zero_init (zp_page z') = is_zero_init (zp_page z) /\
  (free_is_zero (zp_page z') = true -> free_is_zero (zp_page z) = true).

Lemma extend_flags p : is_zero_init (page_extend p) = is_zero_init p /\ free_is_zero (page_extend p) = free_is_zero p.
Proof.
  unfold page_extend. destruct (free p); [|split; reflexivity].
  destruct (reserved p <=? capacity p); split; reflexivity.
Qed.

Lemma page_op_flags z : forall z',
  (exists zero b, zp_malloc z zero = Some (b, z')) \/ z' = zp_extend z \/ (exists f, z' = zp_collect z f) \/
  (exists b, zp_free_local z b = Some z') \/ (exists b, zp_remote_free z b = Some z') \/
  (exists b w0 rest, zp_write z b w0 rest = Some z') -> flags_le z z'.
Proof.
  intros z' [(zero & b & H)|[->|[(f & ->)|[(b & H)|[(b & H)|(b & w0 & rest & H)]]]]]; unfold flags_le.
  - unfold zp_malloc in H. destruct (page_malloc (zp_page z)) as [[b0 p']|] eqn:E; [|discriminate].
    inversion H; subst. destruct (malloc_spec _ _ _ E) as (rest & _ & ->). cbn. tauto.
  - unfold zp_extend, zp_set. cbn [zp_page]. destruct (extend_flags (zp_page z)) as [-> ->]. tauto.
  - unfold zp_collect, zp_set. cbn [zp_page]. destruct (collect_flags (zp_page z) f) as (-> & [[_ ->] | ->]); [tauto|].
    split; [reflexivity|discriminate].
  - unfold zp_free_local in H. destruct (memN b (page_live (zp_page z))); [|discriminate]. inversion H; subst. cbn. tauto.
  - unfold zp_remote_free in H. destruct (memN b (page_live (zp_page z))); [|discriminate]. inversion H; subst. cbn. tauto.
  - unfold zp_write in H. destruct (memN b (page_live (zp_page z))); [|discriminate]. inversion H; subst. cbn. tauto.
Qed.

Definition page_flags_off (z : zpage) : Prop :=
  is_zero_init (zp_page z) = false /\ free_is_zero (zp_page z) = false.
Definition flags_false (st : state) : Prop := AllV page_flags_off (st_pages st).

Lemma flags_le_off z z' : flags_le z z' -> page_flags_off z -> page_flags_off z'.
Proof.
  intros [H1 H2] [H3 H4]. split; [congruence|]. destruct (free_is_zero (zp_page z')); [|reflexivity].
  rewrite (H2 eq_refl) in H4. discriminate.
Qed.

Lemma on_page_flags st pid f st' r :
  flags_false st -> (forall z z' r', f z = Some (z', r') -> flags_le z z') ->
  on_page st pid f = Some (st', r) -> flags_false st'.
Proof.
  intros HF Hf. unfold on_page. destruct (aget pid (st_pages st)) as [z|] eqn:Eg; [|discriminate].
  destruct (f z) as [[z' r']|] eqn:Ef; [|discriminate]. intros H; inversion H; subst.
  unfold flags_false. cbn. apply AllV_aset; [exact HF|].
  eapply flags_le_off; [eapply Hf; exact Ef|]. eapply AllV_get; eassumption.
Qed.

Theorem pinned_flags_step st o st' r :
  know_inv st -> flags_false st -> step Pinned st o = Some (st', r) -> flags_false st'.
Proof.
  intros HK HF. pose proof HK as (HA & HR & HS & HP).
  destruct o as [nblocks zero pinned committed gz|rid src|rid|rid allc|a b0 n pz dec|sid src huge nslices info cok2 junk
                |sid allc|sid lo cnt pz|pid sid lo cnt bsize psize cok|pid|pid zero|pid|pid force|pid b|pid b|pid b w0 rest];
    cbn [step].
  - destruct ((nblocks =? 0) || (zero && negb gz)); [discriminate|]. intros H; inversion H; subst. exact HF.
  - destruct (aget rid (st_raws st)); [discriminate|].
    destruct (alloc_src st src) as [[[st1 m] gz]|] eqn:Ea; [|discriminate]. intros H; inversion H; subst.
    destruct (alloc_src_know _ _ _ _ _ HK Ea) as (_ & _ & _ & _ & E). unfold flags_false. cbn. rewrite E. exact HF.
  - destruct (aget rid (st_raws st)); [|discriminate]. intros H; inversion H; subst. exact HF.
  - destruct (aget rid (st_raws st)) as [r0|]; [|discriminate]. intros H; inversion H; subst.
    destruct (free_mem_know st (rw_memid r0) allc HK) as (_ & _ & _ & E). unfold flags_false. cbn. rewrite E. exact HF.
  - destruct (nth_error (st_arenas st) (N.to_nat a)); [|discriminate].
    destruct (arena_purge a0 b0 n pz dec); [|discriminate]. intros H; inversion H; subst. exact HF.
  - destruct (aget sid (st_segs st)); [discriminate|].
    destruct ((info =? 0) || (nslices <? info)); [discriminate|].
    destruct (alloc_src st src) as [[[st1 m] gz]|] eqn:Ea; [|discriminate].
    destruct (alloc_src_know _ _ _ _ _ HK Ea) as (HK1 & _ & _ & _ & E).
    destruct (negb (m_committed m) && negb cok2); intros H; inversion H; subst; unfold flags_false.
    + destruct (free_mem_know st1 m false HK1) as (_ & _ & _ & E2). rewrite E2, E. exact HF.
    + cbn. rewrite E. exact HF.
  - destruct (aget sid (st_segs st)) as [s|]; [|discriminate].
    destruct (seg_no_pages st sid); [|discriminate]. intros H; inversion H; subst.
    destruct (free_mem_know st (sg_memid s) allc HK) as (_ & _ & _ & E). unfold flags_false. cbn. rewrite E. exact HF.
  - destruct (aget sid (st_segs st)) as [s|]; [|discriminate].
    destruct (span_unused st sid lo cnt && (sg_info s <=? lo)); [|discriminate]. intros H; inversion H; subst. exact HF.
  - (* OPageAlloc: the new page's is_zero_init is what the slice entry holds, and no slice entry has it set *)
    destruct (aget pid (st_pages st)); [discriminate|].
    destruct (aget sid (st_segs st)) as [s|] eqn:Eg; [|discriminate].
    destruct (span_unused st sid lo cnt); [|discriminate].
    destruct (page_alloc Pinned sid s lo cnt bsize psize) as [[s' z]|] eqn:Ep; [|discriminate].
    destruct cok; intros H; inversion H; subst; [|exact HF].
    unfold flags_false. cbn. apply AllV_aset; [exact HF|].
    destruct (AllV_get _ _ _ _ HS Eg) as (_ & Hi & _).
    unfold page_alloc in Ep.
    destruct ((cnt =? 0) || (lo <? sg_info s) || (sg_slices s <? lo + cnt) || (bsize =? 0) || (psize <? bsize)
              || (cnt * MI_SEGMENT_SLICE_SIZE <? psize) || (65536 <=? psize / bsize)); [discriminate|].
    inversion Ep; subst. unfold page_flags_off, zp_extend, zp_set. cbn [zp_page span_izi].
    destruct (extend_flags (mkPage bsize (wrap16 (psize / bsize)) 0 0 [] [] [] (sg_izi s lo) (sg_izi s lo) false 0)) as [-> ->].
    cbn. rewrite Hi. split; reflexivity.
  - destruct (aget pid (st_pages st)) as [z|]; [|discriminate].
    destruct (page_all_free (zp_page z)); [|discriminate]. intros H; inversion H; subst.
    unfold flags_false. cbn. apply AllV_adel. exact HF.
  - intros H. eapply on_page_flags; [exact HF| |exact H]. intros z z' r' Hf. cbn beta in Hf.
    destruct (zp_malloc z zero) as [[b z0]|] eqn:E; [|discriminate]. inversion Hf; subst.
    apply page_op_flags. left. exists zero, b. exact E.
  - intros H. eapply on_page_flags; [exact HF| |exact H]. intros z z' r' Hf. inversion Hf; subst.
    apply page_op_flags. right; left. reflexivity.
  - intros H. eapply on_page_flags; [exact HF| |exact H]. intros z z' r' Hf. inversion Hf; subst.
    apply page_op_flags. right; right; left. exists force. reflexivity.
  - intros H. eapply on_page_flags; [exact HF| |exact H]. intros z z' r' Hf. cbn beta in Hf.
    destruct (zp_free_local z b) as [z0|] eqn:E; [|discriminate]. inversion Hf; subst.
    apply page_op_flags. right; right; right; left. exists b. exact E.
  - intros H. eapply on_page_flags; [exact HF| |exact H]. intros z z' r' Hf. cbn beta in Hf.
    destruct (zp_remote_free z b) as [z0|] eqn:E; [|discriminate]. inversion Hf; subst.
    apply page_op_flags. right; right; right; right; left. exists b. exact E.
  - intros H. eapply on_page_flags; [exact HF| |exact H]. intros z z' r' Hf. cbn beta in Hf.
    destruct (zp_write z b w0 rest) as [z0|] eqn:E; [|discriminate]. inversion Hf; subst.
    apply page_op_flags. right; right; right; right; right. exists b, w0, rest. exact E.
Qed.

Theorem page_flags_false ops : forall st st',
  know_inv st -> flags_false st -> run Pinned st ops = Some st' -> flags_false st'.
Proof.
  induction ops as [|o r IH]; intros st st' HK HF; cbn [run].
  - intros H; inversion H; subst. exact HF.
  - destruct (step Pinned st o) as [[st1 r1]|] eqn:E; [|discriminate]. intros H.
    eapply IH; [| |exact H].
    + eapply know_step; [apply span_sound_pinned|exact HK|exact E].
    + eapply pinned_flags_step; eassumption.
Qed.

Theorem page_flags_false_reachable ops st : run Pinned init ops = Some st -> flags_false st.
Proof. intros H. eapply page_flags_false; [apply know_init|apply AllV_nil|exact H]. Qed.

(* ------------------------------------------------------------------------------------- *)
(* the boolean form: complete for the invariant (know_b = false refutes know_inv)           *)
(* ------------------------------------------------------------------------------------- *)
Lemma arena_know_b_complete a : arena_know a -> arena_know_b a = true.
Proof.
  intros H. unfold arena_know_b. destruct (ar_zero a) eqn:Ez; [|reflexivity]. cbn.
  apply all_in_spec. intros i _. destruct (ar_dirty a i) eqn:Ed; [reflexivity|]. cbn. apply (H Ez). exact Ed.
Qed.

Lemma raw_know_b_complete r : raw_know r -> raw_know_b r = true.
Proof.
  intros H. unfold raw_know_b. destruct (m_zero (rw_memid r)) eqn:E1; [|reflexivity].
  destruct (rw_fresh r) eqn:E2; [|reflexivity]. cbn. apply H; assumption.
Qed.

Lemma seg_know_b_complete s : seg_know s -> seg_know_b s = true.
Proof.
  intros (H1 & H2 & H3). unfold seg_know_b. rewrite H1. cbn.
  apply andb_true_iff. split.
  - apply all_in_spec. intros k _. rewrite H2. reflexivity.
  - destruct (m_zero (sg_memid s)) eqn:Em; [|reflexivity]. cbn. apply all_in_spec. intros k _.
    destruct (sg_fresh s k) eqn:Ef; [|reflexivity]. cbn. apply (H3 eq_refl). exact Ef.
Qed.

Lemma page_know_b_complete z : page_know z -> page_know_b z = true.
Proof.
  intros (HI & K0 & K1 & K3). unfold page_know_b. cbv zeta.
  destruct HI as (_ & Hcr & _).
  apply andb_true_iff. split; [apply andb_true_iff; split|].
  - destruct (free_is_zero (zp_page z)) eqn:Ez; [|reflexivity]. cbn. apply K0. reflexivity.
  - destruct (free_is_zero (zp_page z)) eqn:Ez; [|reflexivity]. cbn. apply forallb_forall. intros b Hb. apply K1; [reflexivity|exact Hb].
  - destruct (is_zero_init (zp_page z)) eqn:Ei; [|reflexivity]. cbn. apply all_in_spec. intros b Hb.
    rewrite (K3 eq_refl b) by lia. reflexivity.
Qed.

Theorem know_b_complete st : know_inv st -> know_b st = true.
Proof.
  intros (HA & HR & HS & HP). unfold know_b. rewrite !andb_true_iff. repeat split.
  - apply forallb_forall. intros a Ha. apply arena_know_b_complete. rewrite Forall_forall in HA. apply HA. exact Ha.
  - apply forallb_forall. intros [k r] Hin. apply raw_know_b_complete. exact (HR k r Hin).
  - apply forallb_forall. intros [k s] Hin. apply seg_know_b_complete. exact (HS k s Hin).
  - apply forallb_forall. intros [k z] Hin. apply page_know_b_complete. exact (HP k z Hin).
Qed.

(* ------------------------------------------------------------------------------------- *)
(* the seeded change C04c against the invariant                                            *)
(* ------------------------------------------------------------------------------------- *)
(* seeded/C04c/README: a page is freed and its slices are re-used by a new page while the (initially zero) segment
   stays alive, and the old page's blocks were dirtied *)
Definition c04c_ops : list op :=
  [ OArenaNew 2 true false true true;                                   (* an arena over fresh, committed, zero memory *)
    OSegAlloc 100 (SrcArena 0 0 1 true true false) false 512 1 true false;   (* memid.initially_zero = true *)
    OPageAlloc 101 100 1 1 64 65536 true;  OMalloc 101 false;            (* page A with a long-lived block *)
    OPageAlloc 102 100 2 1 128 65536 true; OMalloc 102 false;            (* page B, block 0 *)
    OWrite 102 0 true true;                                              (* the program dirties it *)
    OFree 102 0; OPageFree 102;                                          (* freed; B is released, slice 2 is free again *)
    OPageAlloc 103 100 2 1 128 65536 true ].                             (* page C on the same slice *)

(* (the invariant holds before the zeroing allocation, the block returned by it is zero) *)
Definition outcome (v : variant) (ops : list op) (pid : N) : option (bool * bool) :=
  match run v init ops with
  | None => None
  | Some st => match step v st (OMalloc pid true) with
               | Some (st', OutBlock b) => Some (know_b st, zalloc_ghost_zero st' pid b)
               | _ => None
               end
  end.

Lemma outcome_breaks v ops pid z : outcome v ops pid = Some (false, z) ->
  exists st, run v init ops = Some st /\ ~ know_inv st.
Proof.
  unfold outcome. destruct (run v init ops) as [st|]; [|discriminate]. intros H. exists st. split; [reflexivity|].
  intros HK. apply know_b_complete in HK.
  destruct (step v st (OMalloc pid true)) as [[st' [| |m|b]]|]; try discriminate.
  inversion H. congruence.
Qed.

Lemma outcome_not_zero v ops pid k : outcome v ops pid = Some (k, false) ->
  exists st st' b, run v init ops = Some st /\ step v st (OMalloc pid true) = Some (st', OutBlock b) /\
                   zalloc_ghost_zero st' pid b = false.
Proof.
  unfold outcome. destruct (run v init ops) as [st|]; [|discriminate].
  destruct (step v st (OMalloc pid true)) as [[st' [| |m|b]]|] eqn:E2; try discriminate.
  intros H. exists st, st', b. inversion H. repeat split; assumption.
Qed.

Notation c04c_outcome v := (outcome v c04c_ops 103).

Lemma c04c_outcome_seed : c04c_outcome SeedC04c = Some (false, false).
Proof. vm_compute. reflexivity. Qed.
Lemma c04c_outcome_pinned : c04c_outcome Pinned = Some (true, true).
Proof. vm_compute. reflexivity. Qed.
Lemma c04c_outcome_fresh : c04c_outcome FreshSpan = Some (true, true).
Proof. vm_compute. reflexivity. Qed.

Theorem c04c_breaks_invariant :
  exists ops st, run SeedC04c init ops = Some st /\ ~ know_inv st.
Proof. exists c04c_ops. exact (outcome_breaks SeedC04c c04c_ops 103 false c04c_outcome_seed). Qed.

Theorem c04c_zalloc_not_zero :
  exists ops st st' pid b, run SeedC04c init ops = Some st /\ step SeedC04c st (OMalloc pid true) = Some (st', OutBlock b) /\
                           zalloc_ghost_zero st' pid b = false.
Proof.
  destruct (outcome_not_zero SeedC04c c04c_ops 103 false c04c_outcome_seed) as (st & st' & b & H).
  exists c04c_ops, st, st', 103, b. exact H.
Qed.

(* non-vacuity of the composed invariant: with the FreshSpan policy page A (a never-used span of an initially zero
   segment) gets is_zero_init = free_is_zero = true, the invariant holds, and its zalloc takes the `block->next = 0`
   branch and returns a zero block *)
Definition fresh_ops : list op :=
  [ OArenaNew 2 true false true true;
    OSegAlloc 100 (SrcArena 0 0 1 true true false) false 512 1 true false;
    OPageAlloc 101 100 1 1 64 65536 true ].
Definition fresh_outcome : option (bool * bool * bool * bool) :=
  match run FreshSpan init fresh_ops with
  | None => None
  | Some st =>
    match aget 101 (st_pages st), step FreshSpan st (OMalloc 101 true) with
    | Some z, Some (st', OutBlock b) =>
      Some (is_zero_init (zp_page z), free_is_zero (zp_page z), know_b st, zalloc_ghost_zero st' 101 b)
    | _, _ => None
    end
  end.
Lemma fresh_outcome_val : fresh_outcome = Some (true, true, true, true).
Proof. vm_compute. reflexivity. Qed.

(* a second arena claim of blocks that were used before is not initially zero, a claim of never-used blocks is;
   after a purge that the kernel answered with zero pages the flag is still false (blocks_dirty is never cleared) *)
Definition arena_ops : list op :=
  [ OArenaNew 3 true false false true;
    ORawAlloc 1 (SrcArena 0 0 1 true true false); ORawWrite 1; ORawFree 1 true;
    OArenaPurge 0 0 1 true false ].
Definition arena_outcome : option (bool * bool * bool) :=
  match run Pinned init arena_ops with
  | None => None
  | Some st =>
    match step Pinned st (ORawAlloc 2 (SrcArena 0 0 1 true true false)), step Pinned st (ORawAlloc 3 (SrcArena 0 1 2 true true false)) with
    | Some (_, OutMem m2), Some (_, OutMem m3) => Some (m_zero m2, m_zero m3, know_b st)
    | _, _ => None
    end
  end.
Lemma arena_outcome_val : arena_outcome = Some (false, true, true).
Proof. vm_compute. reflexivity. Qed.

(* ------------------------------------------------------------------------------------- *)
(* consumers of memid.initially_zero                                                       *)
(* ------------------------------------------------------------------------------------- *)
(* mi_segment_alloc skips the memzero of the segment header only over memory that really is zero *)
Theorem segment_header_really_zero v ops st sid s :
  span_sound v -> run v init ops = Some st -> aget sid (st_segs st) = Some s -> sg_hdr_zero s = true.
Proof.
  intros Hv Hr Eg. destruct (know_reachable v ops st Hv Hr) as (_ & _ & HS & _).
  destruct (AllV_get _ _ _ _ HS Eg) as (H & _). exact H.
Qed.

(* memory handed out by the arena layer with initially_zero set is zero until its holder stores into it *)
Theorem raw_zero_until_written v ops st rid r :
  span_sound v -> run v init ops = Some st -> aget rid (st_raws st) = Some r ->
  m_zero (rw_memid r) = true -> rw_fresh r = true -> rw_ghost r = true.
Proof.
  intros Hv Hr Eg. destruct (know_reachable v ops st Hv Hr) as (_ & HR & _).
  exact (AllV_get _ _ _ _ HR Eg).
Qed.

(* the flags of a page are only ever cleared by the operations inside the page *)
Theorem flags_only_cleared v st pid o st' r z z' :
  (match o with OMalloc p _ | OExtend p | OCollect p _ | OFree p _ | ORemoteFree p _ | OWrite p _ _ _ => p = pid | _ => False end) ->
  step v st o = Some (st', r) -> aget pid (st_pages st) = Some z -> aget pid (st_pages st') = Some z' -> flags_le z z'.
Proof.
  intros Ho Hs Eg Eg'.
  assert (HG : forall f, on_page st pid f = Some (st', r) -> exists r', f z = Some (z', r')).
  { intros f. unfold on_page. rewrite Eg. destruct (f z) as [[z0 r0]|] eqn:Ef; [|discriminate].
    intros H; inversion H; subst. cbn in Eg'. rewrite N.eqb_refl in Eg'. inversion Eg'; subst. exists r. reflexivity. }
  destruct o; try contradiction; subst; cbn [step] in Hs; destruct (HG _ Hs) as (r' & Hf); cbn beta in Hf; apply page_op_flags.
  - destruct (zp_malloc z zero) as [[b z0]|] eqn:E; [|discriminate]. inversion Hf; subst. left. exists zero, b. exact E.
  - inversion Hf; subst. right; left. reflexivity.
  - inversion Hf; subst. right; right; left. exists force. reflexivity.
  - destruct (zp_free_local z b) as [z0|] eqn:E; [|discriminate]. inversion Hf; subst. right; right; right; left. exists b. exact E.
  - destruct (zp_remote_free z b) as [z0|] eqn:E; [|discriminate]. inversion Hf; subst. right; right; right; right; left. exists b. exact E.
  - destruct (zp_write z b w0 rest) as [z0|] eqn:E; [|discriminate]. inversion Hf; subst.
    right; right; right; right; right. exists b, w0, rest. exact E.
Qed.

(* ------------------------------------------------------------------------------------- *)
(* the statements of Properties/C04zero.v                                                  *)
(* ------------------------------------------------------------------------------------- *)
Lemma know_reachable_pinned ops st : run Pinned init ops = Some st -> know_inv st.
Proof. apply know_reachable. apply span_sound_pinned. Qed.

Lemma know_reachable_fresh ops st : run FreshSpan init ops = Some st -> know_inv st.
Proof. apply know_reachable. apply span_sound_fresh. Qed.

Lemma page_ops_preserve z :
  page_know z ->
  page_know (zp_extend z) /\ (forall f, page_know (zp_collect z f)) /\
  (forall zero b z', zp_malloc z zero = Some (b, z') -> page_know z') /\
  (forall b z', zp_free_local z b = Some z' -> page_know z') /\
  (forall b z', zp_remote_free z b = Some z' -> page_know z') /\
  (forall b w0 rest z', zp_write z b w0 rest = Some z' -> page_know z').
Proof.
  intros H. split; [apply zp_extend_know; exact H|]. split; [intros f; apply zp_collect_know; exact H|].
  split; [intros zero b z'; apply zp_malloc_know; exact H|]. split; [intros b z'; apply zp_free_local_know; exact H|].
  split; [intros b z'; apply zp_remote_free_know; exact H|]. intros b w0 rest z'. apply zp_write_know. exact H.
Qed.

Lemma segment_header_really_zero_pinned ops st sid s :
  run Pinned init ops = Some st -> aget sid (st_segs st) = Some s -> sg_hdr_zero s = true.
Proof. apply segment_header_really_zero. apply span_sound_pinned. Qed.

Lemma raw_zero_until_written_pinned ops st rid r :
  run Pinned init ops = Some st -> aget rid (st_raws st) = Some r ->
  m_zero (rw_memid r) = true -> rw_fresh r = true -> rw_ghost r = true.
Proof. apply raw_zero_until_written. apply span_sound_pinned. Qed.

Lemma page_flags_constant_false ops st pid z :
  run Pinned init ops = Some st -> aget pid (st_pages st) = Some z ->
  is_zero_init (zp_page z) = false /\ free_is_zero (zp_page z) = false.
Proof. intros H E. exact (AllV_get _ pid _ z (page_flags_false_reachable ops st H) E). Qed.
