(* vm_compute sweeps for the API-level properties (C03): every size class that mi_bin can return
   for a small or medium request is 8 bytes or a multiple of 16 bytes. *)
From Coq Require Import NArith Bool List.
From MiV Require Import Gen.Consts Gen.Bins Model.Arith Proofs.Base.
Local Open Scope N_scope.
Local Open Scope bool_scope.

Definition chk_bin_align (s : N) : bool :=
  let bs := bin_size (mi_bin s) in
  ((s <=? 8) && (bs =? 8)) || ((8 <? s) && (bs mod 16 =? 0) && (0 <? bs)).

Lemma sweep_bin_align : forallN chk_bin_align (MI_MEDIUM_OBJ_SIZE_MAX + 1) = true.
Proof. vm_compute. reflexivity. Qed.

(* the same fact read off the generated table: the list of bins that mi_bin returns for the sizes
   0 .. MI_MEDIUM_OBJ_SIZE_MAX (one pass; mi_bin is monotone so a change of value is a new bin), and
   their block sizes.  The bins that are neither 8 nor a multiple of 16 (24, 40, 56 in this
   configuration) do not occur. *)
Definition reachable_bins : list N :=
  N.recursion nil (fun s acc => let b := mi_bin s in
                     match acc with
                     | cons x _ => if x =? b then acc else cons b acc
                     | nil => cons b nil
                     end) (MI_MEDIUM_OBJ_SIZE_MAX + 1).

Definition chk_bin_table_align (b : N) : bool := let bs := bin_size b in (bs =? 8) || (bs mod 16 =? 0).

Lemma sweep_bin_table_align : forallb chk_bin_table_align reachable_bins = true.
Proof. vm_compute. reflexivity. Qed.

Lemma reachable_bins_nonvacuous :
  existsb (fun b => bin_size b =? 32) reachable_bins = true /\ existsb (fun b => bin_size b =? 24) reachable_bins = false.
Proof. vm_compute. split; reflexivity. Qed.
