(* Property C10, sequential part: theorems about first-class heaps (Model/Heap.v).
   Infrastructure: Proofs/HeapBase.v (invariant, boolean form), Proofs/HeapOps.v (queue and block
   operations), Proofs/HeapDel.v (whole-heap operations, preservation for every operation). *)
From Coq Require Import NArith List Bool Lia Permutation.
From MiV Require Import Gen.Consts Model.Arith Proofs.Base Model.Heap Proofs.HeapBase Proofs.HeapOps Proofs.HeapDel.
Import ListNotations.
Local Open Scope N_scope.
Local Open Scope bool_scope.

Local Opaque MI_BIN_FULL MI_BIN_HUGE.

(* ================================================================================================ *)
(* mi_heap_visit_pages                                                                               *)
(* ================================================================================================ *)
Theorem visit_all_queues_once s h hp : heap_Inv s -> get_heap s h = Some hp ->
  NoDup (heap_visit_pages s h) /\
  (forall p, In p (heap_visit_pages s h) <-> exists pi, get_page s p = Some pi /\ pheap pi = Some h) /\
  (forall i p, In p (qget (queues hp) i) -> In p (heap_visit_pages s h)).
Proof.
  intros I H. rewrite (inv_visit s h hp I H). split; [eapply inv_heap_pages_nodup; eauto|]. split.
  - intros p. apply inv_queued_iff; assumption.
  - intros i p Hin. apply in_heap_pages. exists i. split; [eapply inv_queued_bound; eauto|exact Hin].
Qed.

(* ================================================================================================ *)
(* ownership queries                                                                                 *)
(* ================================================================================================ *)
Lemma live_heap_of_block s b p pi : heap_Inv s -> get_page s p = Some pi -> In b (blocks pi) ->
  heap_of_block s b = pheap pi.
Proof. intros I G Hb. unfold heap_of_block. rewrite (inv_page_of_block s p pi b I G Hb). reflexivity. Qed.

Theorem contains_block_spec s h b : heap_Inv s -> In b (live_blocks s) -> In h (heap_ids s) ->
  (heap_contains_block s h b = true <->
     exists p pi, get_page s p = Some pi /\ In b (blocks pi) /\ pheap pi = Some h) /\
  (heap_contains_block s h b = true <-> find_home (home s) b = Some (Some h)).
Proof.
  intros I L Hh. destruct (inv_live_page s b I L) as [p [pi [G Hb]]].
  destruct (in_ids_get_heap s h Hh) as [hp H].
  unfold heap_contains_block. rewrite H, (live_heap_of_block s b p pi I G Hb), opt_eqb_spec. split.
  - split.
    + intros E. exists p, pi. auto.
    + intros [q [qi [Gq [Hq E]]]]. assert (q = p) by (eapply (inv_block_page_unique s q p); eauto). subst q.
      rewrite G in Gq. inversion Gq; subst. exact E.
  - rewrite (hi_home s I p pi b G Hb). split; congruence.
Qed.

Theorem check_owned_spec s h b : heap_Inv s -> In b (live_blocks s) -> N.land b (MI_INTPTR_SIZE - 1) = 0 ->
  heap_check_owned s h b = heap_contains_block s h b.
Proof.
  intros I L Al. destruct (inv_live_page s b I L) as [p [pi [G Hb]]].
  unfold heap_check_owned, heap_contains_block. destruct (get_heap s h) as [hp|] eqn:H; [|reflexivity].
  rewrite Al. cbn [N.eqb negb]. rewrite (live_heap_of_block s b p pi I G Hb), (inv_visit s h hp I H).
  destruct (hi_page s I _ _ G) as [_ [Cp [Rp _]]]. specialize (Rp _ Hb).
  apply eq_true_iff_eq. rewrite existsb_exists, opt_eqb_spec. split.
  - intros [q [Hq C]]. unfold page_check_owned in C. destruct (get_page s q) as [qi|] eqn:Gq; [|discriminate].
    apply andb_true_iff in C. destruct C as [C1 C2]. apply N.leb_le in C1. apply N.ltb_lt in C2.
    apply (inv_queued_iff s h hp q I H) in Hq. destruct Hq as [qi' [Gq' E]]. rewrite Gq in Gq'. inversion Gq'; subst qi'.
    destruct (N.eq_dec q p) as [X|X]; [subst q; rewrite G in Gq; inversion Gq; subst; exact E|exfalso].
    pose proof (hi_disjoint s I _ _ _ _ Gq G X) as D. destruct (hi_page s I _ _ Gq) as [_ [Cq _]].
    unfold extent_disjoint in D. apply orb_true_iff in D. destruct D as [D|D]; apply N.leb_le in D; lia.
  - intros E. exists p. split; [apply (inv_queued_iff s h hp p I H); eauto|].
    unfold page_check_owned. rewrite G. apply andb_true_iff. split; [apply N.leb_le|apply N.ltb_lt]; lia.
Qed.

(* the walk finds a page of the FULL queue like any other: this is the step that needs i <= MI_BIN_FULL *)
Lemma check_owned_full_queue s h hp p pi b : heap_Inv s -> get_heap s h = Some hp ->
  In p (qget (queues hp) MI_BIN_FULL) -> get_page s p = Some pi -> In b (blocks pi) ->
  N.land b (MI_INTPTR_SIZE - 1) = 0 -> heap_check_owned s h b = true.
Proof.
  intros I H Hin G Hb Al. rewrite check_owned_spec; auto.
  - destruct (hi_queued s I _ _ _ _ H Hin) as [pi' [G' [E _]]]. rewrite G in G'. inversion G'; subst pi'.
    apply (proj1 (contains_block_spec s h b I ltac:(apply live_blocks_in; exists p, pi; split; [apply get_page_in; exact G|exact Hb])
                     (get_heap_in_ids s h hp H))). eauto.
  - apply live_blocks_in. exists p, pi. split; [apply get_page_in; exact G|exact Hb].
Qed.

(* ================================================================================================ *)
(* the exact effect of mi_free                                                                       *)
(* ================================================================================================ *)
Lemma qremove_perm b l : NoDup l -> In b l -> Permutation l (b :: qremove b l).
Proof.
  induction l as [|x r IH]; cbn; [tauto|]. intros ND Hin. inversion ND; subst. unfold qremove. cbn [filter].
  destruct (N.eqb_spec x b) as [E|E]; cbn [negb].
  - subst. fold (qremove b r). rewrite qremove_notin by assumption. reflexivity.
  - destruct Hin as [->|Hin]; [congruence|]. fold (qremove b r). rewrite perm_swap. constructor. apply IH; assumption.
Qed.

Record freed (s s' : state) (b : bid) (p : pid) (pi : pinfo) : Prop := {
  fr_perm : Permutation (live_blocks s) (b :: live_blocks s');
  fr_other : forall q, q <> p -> get_page s' q = get_page s q;
  fr_page : match get_page s' p with
            | Some pi' => blocks pi' = qremove b (blocks pi) /\ pheap pi' = pheap pi
            | None => qremove b (blocks pi) = []
            end;
  fr_hids : heap_ids s' = heap_ids s;
  fr_default : default s' = default s;
  fr_backing : backing s' = backing s;
  fr_descs : descs s' = descs s;
  fr_heaps : forall k, pheap pi <> Some k -> get_heap s' k = get_heap s k;
  fr_heap_fields : forall k hk, get_heap s k = Some hk -> exists hk', get_heap s' k = Some hk' /\
                     no_reclaim hk' = no_reclaim hk /\ tag hk' = tag hk /\ arena_id hk' = arena_id hk;
  fr_queues : forall k hk hk' i q, get_heap s k = Some hk -> get_heap s' k = Some hk' -> q <> p ->
                (In q (qget (queues hk') i) <-> In q (qget (queues hk) i));
  fr_home : forall b', find_home (home s') b' = if b' =? b then None else find_home (home s) b'
}.

Lemma block_removed_facts s p pi b : heap_Inv s -> get_page s p = Some pi -> In b (blocks pi) ->
  let s1 := block_removed s p pi b in
  Permutation (live_blocks s) (b :: live_blocks s1) /\
  (forall q, get_page s1 q = if q =? p then Some (set_blocks (qremove b (blocks pi)) (pcapb pi) pi) else get_page s q) /\
  (forall k, get_heap s1 k = get_heap s k) /\ heap_ids s1 = heap_ids s /\ default s1 = default s /\
  backing s1 = backing s /\ descs s1 = descs s /\
  (forall b', find_home (home s1) b' = if b' =? b then None else find_home (home s) b').
Proof.
  intros I G Hb s1. unfold s1, block_removed, home_del.
  destruct (live_blocks_split s p pi (hi_pnodup s I) G) as [l1 [l2 [LS LU]]].
  assert (NoDup (blocks pi)) as NB.
  { pose proof (hi_bnodup s I) as N. rewrite LS in N. apply NoDup_app_inv in N. destruct N as [_ [N _]].
    apply NoDup_app_inv in N. tauto. }
  split; [|split; [|repeat split; try reflexivity]].
  - hs. rewrite LS, LU. cbn [blocks set_blocks].
    rewrite (Permutation_middle l1 (qremove b (blocks pi) ++ l2) b). apply Permutation_app_head.
    change (b :: qremove b (blocks pi) ++ l2) with ((b :: qremove b (blocks pi)) ++ l2). apply Permutation_app_tail.
    apply qremove_perm; assumption.
  - intros q. hs. destruct (N.eqb_spec q p); [subst; rewrite G|]; reflexivity.
  - intros b'. cbn [home set_home]. hs. etransitivity; [apply find_home_del|]. cbn [inb existsb]. rewrite orb_false_r. reflexivity.
Qed.

Lemma page_free_facts s h pi p :
  let s' := page_free s h pi p in
  (forall q, get_page s' q = if q =? p then None else get_page s q) /\
  (forall k, k <> h -> get_heap s' k = get_heap s k) /\
  (forall hk, get_heap s h = Some hk -> get_heap s' h = Some (hq_remove hk (page_qbin pi) p)) /\
  heap_ids s' = heap_ids s /\ default s' = default s /\ backing s' = backing s /\ descs s' = descs s /\ home s' = home s.
Proof.
  intros s'. unfold s', page_free. split; [|split; [|split]].
  - intros q. hs. rewrite get_page_queue_remove. destruct (q =? p); reflexivity.
  - intros k Hk. hs. rewrite get_heap_queue_remove. apply N.eqb_neq in Hk. rewrite Hk. reflexivity.
  - intros hk Hh. hs. rewrite get_heap_queue_remove, N.eqb_refl, Hh. reflexivity.
  - hs. rewrite heap_ids_queue_remove. repeat split; reflexivity.
Qed.

Lemma enqueue_from_facts s h to from p :
  let s' := enqueue_from s h to from p in
  (forall q, get_page s' q = if q =? p then option_map (set_in_full (to =? MI_BIN_FULL)) (get_page s q) else get_page s q) /\
  (forall k, k <> h -> get_heap s' k = get_heap s k) /\
  heap_ids s' = heap_ids s /\ default s' = default s /\ backing s' = backing s /\ descs s' = descs s /\ home s' = home s /\
  live_blocks s' = live_blocks s.
Proof.
  intros s'. unfold s', enqueue_from. split; [|split].
  - intros q. hs. reflexivity.
  - intros k Hk. hs. apply get_heap_upd_other; [reflexivity|exact Hk].
  - hs. rewrite heap_ids_upd_heap by reflexivity. rewrite live_blocks_upd_page by reflexivity. repeat split; reflexivity.
Qed.

Lemma block_free_spec s b sl s' : heap_Inv s -> block_free s b sl = Some s' ->
  exists p pi, get_page s p = Some pi /\ In b (blocks pi) /\ freed s s' b p pi.
Proof.
  intros I. rewrite block_free_unfold. destruct (page_of_block s b) as [[p pi]|] eqn:P; [|discriminate].
  pose proof (page_of_block_some _ _ _ _ I P) as G.
  destruct (inb b (blocks pi)) eqn:Hb; [|discriminate]. apply inb_spec in Hb. cbn [negb]. cbv zeta.
  intros K. exists p, pi. split; [exact G|]. split; [exact Hb|].
  pose proof (block_removed_inv s p pi b I G Hb) as I1.
  destruct (block_removed_facts s p pi b I G Hb) as [B1 [B2 [B3 [B4 [B5 [B6 [B7 B8]]]]]]].
  set (s1 := block_removed s p pi b) in *. set (pi1 := set_blocks (qremove b (blocks pi)) (pcapb pi) pi) in *.
  assert (get_page s1 p = Some pi1) as G1 by (rewrite B2, N.eqb_refl; reflexivity).
  assert (freed s s1 b p pi) as F1.
  { constructor; auto.
    - intros q Hq. rewrite B2. apply N.eqb_neq in Hq. rewrite Hq. reflexivity.
    - rewrite G1. cbn. auto.
    - intros k hk Hk. exists hk. rewrite B3. auto.
    - intros k hk hk' i q Hk Hk' _. rewrite B3 in Hk'. rewrite Hk in Hk'. inversion Hk'; subst. reflexivity. }
  destruct (pheap pi) as [h|] eqn:E.
  - destruct (is_nil (qremove b (blocks pi))) eqn:N.
    + inversion K; subst s'. clear K. apply is_nil_spec in N. unfold page_retire.
      destruct ((page_qbin pi1 <? MI_BIN_HUGE) && _); [exact F1|].
      destruct (page_free_facts s1 h pi1 p) as [Q1 [Q2 [Q3 [Q4 [Q5 [Q6 [Q7 Q8]]]]]]].
      destruct (inv_page_queue s1 p pi1 h I1 G1 E) as [hk1 [Hk1 Hin1]].
      pose proof (hi_qlen s1 I1 _ _ Hk1) as L1. pose proof (inv_queued_bound _ _ _ _ _ I1 Hk1 Hin1) as Bd1.
      constructor.
      * unfold page_free. rewrite (live_blocks_del_empty _ p (set_in_full false pi1)).
        -- rewrite live_blocks_queue_remove. exact B1.
        -- rewrite get_page_queue_remove, N.eqb_refl, G1. reflexivity.
        -- exact N.
        -- rewrite page_ids_queue_remove. apply (hi_pnodup s1 I1).
      * intros q Hq. rewrite Q1. apply N.eqb_neq in Hq. rewrite Hq. apply N.eqb_neq in Hq. apply (fr_other _ _ _ _ _ F1). exact Hq.
      * rewrite Q1, N.eqb_refl. exact N.
      * congruence.
      * congruence.
      * congruence.
      * congruence.
      * intros k Hk. rewrite Q2 by congruence. apply B3.
      * intros k hk Hk. rewrite <- B3 in Hk. destruct (N.eq_dec k h) as [X|X].
        -- subst k. exists (hq_remove hk (page_qbin pi1) p). split; [apply Q3; exact Hk|]. cbn. auto.
        -- exists hk. rewrite Q2 by exact X. auto.
      * intros k hk hk' i q Hk Hk' Hq. rewrite <- B3 in Hk. destruct (N.eq_dec k h) as [X|X].
        -- subst k. rewrite (Q3 _ Hk) in Hk'. inversion Hk'; subst hk'. rewrite Hk1 in Hk. inversion Hk; subst hk.
           rewrite hq_remove_in by assumption. tauto.
        -- rewrite Q2 in Hk' by exact X. rewrite Hk in Hk'. inversion Hk'; subst. reflexivity.
      * intros b'. rewrite Q8. apply B8.
    + destruct (in_full pi) eqn:F; inversion K; subst s'; [|exact F1]. clear K.
      unfold page_unfull. rewrite G1. cbn [pheap pi1 set_blocks in_full]. rewrite E, F.
      destruct (enqueue_from_facts s1 h (pbin pi) MI_BIN_FULL p) as [Q1 [Q2 [Q4 [Q5 [Q6 [Q7 [Q8 Q9]]]]]]].
      destruct (inv_page_queue s1 p pi1 h I1 G1 E) as [hk1 [Hk1 Hin1]].
      pose proof (hi_qlen s1 I1 _ _ Hk1) as L1.
      assert (page_qbin pi1 = MI_BIN_FULL) as Eq1 by (unfold page_qbin; cbn; rewrite F; reflexivity).
      destruct (hi_page s I _ _ G) as [Pb _].
      constructor.
      * change (pbin pi1) with (pbin pi). rewrite Q9. exact B1.
      * intros q Hq. change (pbin pi1) with (pbin pi). rewrite Q1. apply N.eqb_neq in Hq. rewrite Hq. apply N.eqb_neq in Hq.
        apply (fr_other _ _ _ _ _ F1). exact Hq.
      * change (pbin pi1) with (pbin pi). rewrite Q1, N.eqb_refl, G1. cbn. auto.
      * change (pbin pi1) with (pbin pi). congruence.
      * change (pbin pi1) with (pbin pi). congruence.
      * change (pbin pi1) with (pbin pi). congruence.
      * change (pbin pi1) with (pbin pi). congruence.
      * intros k Hk. change (pbin pi1) with (pbin pi). rewrite Q2 by congruence. apply B3.
      * intros k hk Hk. change (pbin pi1) with (pbin pi). rewrite <- B3 in Hk. destruct (N.eq_dec k h) as [X|X].
        -- subst k. unfold enqueue_from. hs. erewrite get_heap_upd_same; [|reflexivity|exact Hk]. eexists. split; [reflexivity|].
           cbn. auto.
        -- exists hk. rewrite Q2 by exact X. auto.
      * intros k hk hk' i q Hk Hk' Hq. change (pbin pi1) with (pbin pi) in Hk'. rewrite <- B3 in Hk.
        destruct (N.eq_dec k h) as [X|X].
        -- subst k. unfold enqueue_from in Hk'. hs. erewrite get_heap_upd_same in Hk'; [|reflexivity|exact Hk].
           inversion Hk'; subst hk'. rewrite Hk1 in Hk. inversion Hk; subst hk. cbn [queues set_queues].
           rewrite in_qget_qset by (rewrite ?qset_length; try assumption; lia).
           destruct (N.eqb_spec i (pbin pi)) as [Y|Y].
           ++ subst i. rewrite in_app_iff. rewrite qget_qset_other by lia. cbn. intuition congruence.
           ++ rewrite in_qget_qset by (try assumption; lia). destruct (N.eqb_spec i MI_BIN_FULL) as [Z|Z]; [|reflexivity].
              subst i. rewrite qremove_In. tauto.
        -- rewrite Q2 in Hk' by exact X. rewrite Hk in Hk'. inversion Hk'; subst. reflexivity.
      * intros b'. change (pbin pi1) with (pbin pi). rewrite Q8. apply B8.
  - destruct (sl && _); [discriminate|]. inversion K; subst s'. exact F1.
Qed.

Lemma freed_page_rel s s' b p pi q qi' : get_page s p = Some pi -> freed s s' b p pi -> get_page s' q = Some qi' ->
  exists qi, get_page s q = Some qi /\ pheap qi' = pheap qi /\ incl (blocks qi') (blocks qi) /\
             (forall x, In x (blocks qi) -> x <> b -> In x (blocks qi')).
Proof.
  intros G F K. destruct (N.eq_dec q p) as [E|E].
  - subst q. pose proof (fr_page _ _ _ _ _ F) as P. rewrite K in P. destruct P as [P1 P2]. exists pi.
    split; [exact G|]. split; [exact P2|]. rewrite P1. split.
    + intros x Hx. apply qremove_In in Hx. tauto.
    + intros x Hx Hne. apply qremove_In. tauto.
  - rewrite (fr_other _ _ _ _ _ F q E) in K. exists qi'. split; [exact K|]. split; [reflexivity|]. split; [apply incl_refl|auto].
Qed.

Lemma freed_page_keeps s s' b p pi q qi x : heap_Inv s -> get_page s p = Some pi -> In b (blocks pi) -> freed s s' b p pi ->
  get_page s q = Some qi -> In x (blocks qi) -> x <> b ->
  exists qi', get_page s' q = Some qi' /\ pheap qi' = pheap qi /\ In x (blocks qi').
Proof.
  intros I G Hb F Gq Hx Hne. destruct (N.eq_dec q p) as [E|E].
  - subst q. rewrite G in Gq. inversion Gq; subst qi. pose proof (fr_page _ _ _ _ _ F) as P.
    destruct (get_page s' p) as [pi'|].
    + destruct P as [P1 P2]. exists pi'. split; [reflexivity|]. split; [exact P2|]. rewrite P1. apply qremove_In. tauto.
    + exfalso. assert (In x (qremove b (blocks pi))) as K by (apply qremove_In; tauto). rewrite P in K. destruct K.
  - exists qi. rewrite (fr_other _ _ _ _ _ F q E). auto.
Qed.

(* a live block of a page that has a heap can be freed: its page is in the queue mi_page_queue_of computes *)
Definition block_freeable (s : state) (b : bid) : Prop :=
  exists p pi h hp, page_of_block s b = Some (p, pi) /\ In b (blocks pi) /\ pheap pi = Some h /\
                    get_heap s h = Some hp /\ In p (qget (queues hp) (page_qbin pi)).

Lemma live_block_freeable s b : heap_Inv s -> In b (live_blocks s) -> heap_of_block s b <> None -> block_freeable s b.
Proof.
  intros I L Hh. destruct (inv_live_page s b I L) as [p [pi [G Hb]]].
  rewrite (live_heap_of_block s b p pi I G Hb) in Hh. destruct (pheap pi) as [h|] eqn:E; [|congruence].
  destruct (inv_page_queue s p pi h I G E) as [hp [H Hin]].
  exists p, pi, h, hp. split; [apply inv_page_of_block; assumption|]. auto.
Qed.

Lemma freeable_free_ok s b sl : block_freeable s b ->
  free_faults s b sl = false /\ exists s', block_free s b sl = Some s'.
Proof.
  intros [p [pi [h [hp [P [Hb [E _]]]]]]]. split.
  - unfold free_faults. rewrite P, E. reflexivity.
  - rewrite block_free_unfold, P. apply inb_spec in Hb. rewrite Hb. cbn [negb]. cbv zeta. rewrite E.
    destruct (is_nil _); [eauto|]. destruct (in_full pi); eauto.
Qed.

(* ================================================================================================ *)
(* mi_heap_delete of a heap compatible with the backing heap                                         *)
(* ================================================================================================ *)
Lemma heap_free_spec s h hp s' : heap_Inv s -> get_heap s h = Some hp -> h <> backing s ->
  heap_free s h = Some s' ->
  exists d, find_desc (descs s) h = Some d /\ block_free (unlink_heap s h) d true = Some s'.
Proof.
  intros I H Hb. rewrite heap_free_unfold. apply N.eqb_neq in Hb. rewrite Hb, H.
  destruct (find_desc (descs s) h) as [d|] eqn:D; [eauto|].
  exfalso. apply find_desc_none in D. apply D. apply (hi_descs s I). split; [eapply get_heap_in_ids; eauto|apply N.eqb_neq; exact Hb].
Qed.

Theorem delete_preserves_live s h hp bp s' :
  heap_Inv s -> get_heap s h = Some hp -> get_heap s (backing s) = Some bp -> h <> backing s ->
  heaps_compatible bp hp = true -> heap_delete s h = Some s' ->
  exists d, find_desc (descs s) h = Some d /\
    (* the live blocks are unchanged except for h's descriptor *)
    Permutation (live_blocks s) (d :: live_blocks s') /\
    (* blocks of h now belong to the backing heap, all other blocks keep their heap *)
    (forall b, In b (live_blocks s') ->
       heap_of_block s' b = if opt_eqb (heap_of_block s b) (Some h) then Some (backing s) else heap_of_block s b) /\
    (forall b, In b (live_blocks s') ->
       find_home (home s') b =
       option_map (fun oh => if opt_eqb oh (Some h) then Some (backing s) else oh) (find_home (home s) b)) /\
    (* every surviving block of a page with a heap is individually freeable *)
    (forall b, In b (live_blocks s') -> heap_of_block s' b <> None -> block_freeable s' b) /\
    ~ In h (heap_ids s') /\ (forall k, k <> h -> (In k (heap_ids s') <-> In k (heap_ids s))) /\
    backing s' = backing s /\ descs s' = filter (fun kv => negb (fst kv =? h)) (descs s) /\ heap_Inv s'.
Proof.
  intros I H B Hne C K. pose proof (heap_delete_inv s h s' I K) as I'.
  unfold heap_delete in K. rewrite H, B, C in K. apply N.eqb_neq in Hne. rewrite Hne in K. cbn [negb andb] in K.
  apply N.eqb_neq in Hne. assert (backing s <> h) as Hne' by congruence.
  pose proof (heap_absorb_spec s (backing s) h bp hp I Hne' B H) as AB.
  pose proof (absorbed_inv s _ (backing s) h bp hp I Hne' B H AB) as Im.
  set (sa := heap_absorb s (backing s) h) in *. set (sm := home_move sa h (backing s)) in *.
  destruct AB as [[Qb [A1 [A2 A3]]] [Qf [F1 [F2 F3]]] OTH PG [S1 S2 S3 S4 S5 S6 S7]].
  assert (get_heap sm h = Some (set_queues hp Qf 0)) as Hm by exact F1.
  assert (backing sm = backing s) as Bm by exact S5.
  destruct (heap_free_spec sm h _ s' Im Hm ltac:(rewrite Bm; exact Hne) K) as [d [D BF]].
  assert (descs sm = descs s) as Dm by exact S6. rewrite Dm in D.
  destruct (block_free_spec _ _ _ _ (unlink_heap_inv sm h Im ltac:(rewrite Bm; exact Hne) ltac:(
     intros p pi G E; change (get_page sm p) with (get_page sa p) in G; rewrite PG in G;
     destruct (get_page s p) as [pi0|]; [|discriminate]; cbn in G; inversion G; subst pi;
     destruct (opt_eqb (pheap pi0) (Some h)) eqn:X; [cbn in E; congruence|rewrite E, opt_eqb_refl in X; discriminate])) BF)
    as [pd [pid [Gd [Hd FR]]]].
  set (su := unlink_heap sm h) in *.
  destruct (unlink_frames sm h) as [Up [Uh [Ub [Ud Uds]]]].
  assert (forall q, get_page su q = option_map (fun pi => if opt_eqb (pheap pi) (Some h) then set_pheap (Some (backing s)) pi else pi) (get_page s q)) as GPu.
  { intros q. unfold get_page. fold su in Up. rewrite Up. apply PG. }
  assert (live_blocks su = live_blocks s) as Lu.
  { unfold live_blocks. fold su in Up. rewrite Up. exact S3. }
  exists d. split; [exact D|]. split; [|split; [|split; [|split; [|split; [|split; [|split; [|split]]]]]]].
  - rewrite <- Lu. apply (fr_perm _ _ _ _ _ FR).
  - intros b Lb. destruct (inv_live_page s' b I' Lb) as [q [qi' [Gq' Hb']]].
    rewrite (live_heap_of_block s' b q qi' I' Gq' Hb').
    destruct (freed_page_rel su s' d pd pid q qi' Gd FR Gq') as [qu [Gqu [E1 [E2 _]]]].
    rewrite GPu in Gqu. destruct (get_page s q) as [qi|] eqn:Gq; [|discriminate]. cbn in Gqu. inversion Gqu; subst qu. clear Gqu.
    assert (In b (blocks qi)) as Hb.
    { apply E2 in Hb'. destruct (opt_eqb (pheap qi) (Some h)); exact Hb'. }
    rewrite (live_heap_of_block s b q qi I Gq Hb), E1. destruct (opt_eqb (pheap qi) (Some h)); reflexivity.
  - intros b Lb. rewrite (fr_home _ _ _ _ _ FR).
    assert (b <> d) as Hbd.
    { intros ->. pose proof (fr_perm _ _ _ _ _ FR) as P. rewrite Lu in P.
      pose proof (Permutation_NoDup P (hi_bnodup s I)) as N. inversion N; subst. contradiction. }
    apply N.eqb_neq in Hbd. rewrite Hbd. fold su in Uh. rewrite Uh. unfold sm, home_move. cbn [home set_home].
    rewrite find_home_move, S7. reflexivity.
  - intros b Lb Hh. apply live_block_freeable; assumption.
  - rewrite (fr_hids _ _ _ _ _ FR). unfold su. rewrite heap_ids_unlink, filter_In, negb_true_iff, N.eqb_neq. tauto.
  - intros k Hk. rewrite (fr_hids _ _ _ _ _ FR). unfold su. rewrite heap_ids_unlink, filter_In, negb_true_iff, N.eqb_neq.
    change (heap_ids sm) with (heap_ids sa). rewrite S1. tauto.
  - rewrite (fr_backing _ _ _ _ _ FR). fold su in Ub. rewrite Ub. exact Bm.
  - rewrite (fr_descs _ _ _ _ _ FR). fold su in Uds. rewrite Uds, Dm. reflexivity.
  - exact I'.
Qed.

(* ================================================================================================ *)
(* mi_heap_destroy of a no_reclaim heap                                                              *)
(* ================================================================================================ *)
Lemma flat_map_partition_perm {A B} (f : A -> list B) (g : A -> bool) l :
  Permutation (flat_map f l) (flat_map f (filter g l) ++ flat_map f (filter (fun x => negb (g x)) l)).
Proof.
  induction l as [|x r IH]; cbn; [constructor|]. destruct (g x); cbn.
  - rewrite <- app_assoc. apply Permutation_app_head. exact IH.
  - rewrite IH. rewrite !app_assoc. apply Permutation_app_tail. apply Permutation_app_comm.
Qed.

Lemma blocks_of_heap_filter s h :
  blocks_of_heap s h = flat_map (fun kv => blocks (snd kv)) (filter (fun kv => opt_eqb (pheap (snd kv)) (Some h)) (pages s)).
Proof.
  unfold blocks_of_heap. induction (pages s) as [|[k v] r IH]; cbn; [reflexivity|].
  destruct (opt_eqb (pheap v) (Some h)); cbn; rewrite IH; reflexivity.
Qed.

Lemma in_blocks_of_heap s h b : In b (blocks_of_heap s h) <-> exists p pi, In (p, pi) (pages s) /\ pheap pi = Some h /\ In b (blocks pi).
Proof.
  unfold blocks_of_heap. rewrite in_flat_map. split.
  - intros [[p pi] [Hin Hb]]. cbn in Hb. destruct (opt_eqb (pheap pi) (Some h)) eqn:E; [|destruct Hb].
    apply opt_eqb_spec in E. eauto.
  - intros [p [pi [Hin [E Hb]]]]. exists (p, pi). split; [exact Hin|]. cbn. rewrite E, opt_eqb_refl. exact Hb.
Qed.

Theorem destroy_exactly_own s h hp s' :
  heap_Inv s -> get_heap s h = Some hp -> no_reclaim hp = true -> h <> backing s -> heap_destroy s h = Some s' ->
  exists d pd pid, find_desc (descs s) h = Some d /\
    get_page s pd = Some pid /\ In d (blocks pid) /\ pheap pid <> Some h /\
    (* exactly the blocks of h and h's descriptor are released *)
    Permutation (live_blocks s) (d :: blocks_of_heap s h ++ live_blocks s') /\
    (* frame: every page of another heap (or of no heap) is untouched, except that the page pd that
       held the descriptor lost that block (and is freed / unfulled by mi_free) *)
    (forall q qi, get_page s q = Some qi -> pheap qi <> Some h -> q <> pd -> get_page s' q = Some qi) /\
    (forall q qi', get_page s' q = Some qi' ->
       exists qi, get_page s q = Some qi /\ pheap qi <> Some h /\ pheap qi' = pheap qi /\ incl (blocks qi') (blocks qi)) /\
    (forall q qi x, get_page s q = Some qi -> pheap qi <> Some h -> In x (blocks qi) -> x <> d ->
       exists qi', get_page s' q = Some qi' /\ pheap qi' = pheap qi /\ In x (blocks qi')) /\
    (* frame: every other heap is untouched, except the heap of pd (the backing heap) around pd *)
    (forall k, k <> h -> pheap pid <> Some k -> get_heap s' k = get_heap s k) /\
    (forall k hk hk' i q, k <> h -> get_heap s k = Some hk -> get_heap s' k = Some hk' -> q <> pd ->
       (In q (qget (queues hk') i) <-> In q (qget (queues hk) i))) /\
    ~ In h (heap_ids s') /\ (forall k, k <> h -> (In k (heap_ids s') <-> In k (heap_ids s))) /\
    backing s' = backing s /\ descs s' = filter (fun kv => negb (fst kv =? h)) (descs s) /\ heap_Inv s'.
Proof.
  intros I H NR Hne K. pose proof (heap_destroy_inv s h s' I K) as I'.
  unfold heap_destroy in K. rewrite H, NR in K.
  pose proof (heap_destroy_pages_inv s h hp I H) as I1.
  destruct (heap_destroy_pages_spec s h hp I H) as [GP [GH [F1 [F2 [F3 [F4 [FP FH]]]]]]].
  set (s1 := heap_destroy_pages s h) in *.
  assert (get_heap s1 h = Some (set_queues hp (repeat [] NBINS) 0)) as H1 by (rewrite GH, N.eqb_refl; reflexivity).
  destruct (heap_free_spec s1 h _ s' I1 H1 ltac:(rewrite F3; exact Hne) K) as [d [D BF]]. rewrite F4 in D.
  assert (forall p pi, get_page s1 p = Some pi -> pheap pi <> Some h) as NP.
  { intros p pi G E. rewrite GP in G. destruct (get_page s p) as [pi0|]; [|discriminate].
    destruct (opt_eqb (pheap pi0) (Some h)) eqn:X; [discriminate|]. inversion G; subst. rewrite E, opt_eqb_refl in X. discriminate. }
  destruct (block_free_spec _ _ _ _ (unlink_heap_inv s1 h I1 ltac:(rewrite F3; exact Hne) NP) BF) as [pd [pid [Gd [Hd FR]]]].
  set (su := unlink_heap s1 h) in *.
  destruct (unlink_frames s1 h) as [Up [Uh [Ub [Ud Uds]]]]. fold su in Up, Uh, Ub, Ud, Uds.
  assert (forall q, get_page su q = get_page s1 q) as GPu by (intros q; unfold get_page; rewrite Up; reflexivity).
  assert (get_page s pd = Some pid /\ pheap pid <> Some h) as [Gd0 Ed0].
  { rewrite GPu, GP in Gd. destruct (get_page s pd) as [pi0|]; [|discriminate].
    destruct (opt_eqb (pheap pi0) (Some h)) eqn:X; [discriminate|]. inversion Gd; subst. split; [reflexivity|].
    intros E. rewrite E, opt_eqb_refl in X. discriminate. }
  exists d, pd, pid. split; [exact D|]. split; [exact Gd0|]. split; [exact Hd|]. split; [exact Ed0|].
  split; [|split; [|split; [|split; [|split; [|split; [|split; [|split; [|split; [|split]]]]]]]]].
  - assert (Permutation (live_blocks s) (blocks_of_heap s h ++ live_blocks s1)) as P1.
    { unfold live_blocks at 2. rewrite FP, blocks_of_heap_filter. unfold live_blocks.
      rewrite (flat_map_partition_perm _ (fun kv => opt_eqb (pheap (snd kv)) (Some h)) (pages s)).
      apply Permutation_app_head.
      assert (filter (fun x => negb (opt_eqb (pheap (snd x)) (Some h))) (pages s) =
              filter (fun kv => negb (inb (fst kv) (heap_pages hp))) (pages s)) as ->; [|reflexivity].
      apply filter_ext_in. intros [q qi] Hin. cbn [fst snd]. f_equal.
      pose proof (inv_get_page_in s q qi I Hin) as Gq.
      apply eq_true_iff_eq. rewrite opt_eqb_spec, inb_spec, (inv_queued_iff s h hp q I H). split.
      - intros E. eauto.
      - intros [qi0 [G0 E0]]. rewrite Gq in G0. inversion G0; subst. exact E0. }
    rewrite P1. assert (live_blocks su = live_blocks s1) as Lu by (unfold live_blocks; rewrite Up; reflexivity).
    rewrite <- Lu. rewrite (fr_perm _ _ _ _ _ FR). symmetry. apply Permutation_middle.
  - intros q qi Gq Eq Hq. rewrite (fr_other _ _ _ _ _ FR q Hq), GPu, GP, Gq.
    destruct (opt_eqb (pheap qi) (Some h)) eqn:X; [apply opt_eqb_spec in X; contradiction|reflexivity].
  - intros q qi' Gq'. destruct (freed_page_rel su s' d pd pid q qi' Gd FR Gq') as [qu [Gqu [E1 [E2 _]]]].
    rewrite GPu, GP in Gqu. destruct (get_page s q) as [qi|] eqn:Gq; [|discriminate].
    destruct (opt_eqb (pheap qi) (Some h)) eqn:X; [discriminate|]. inversion Gqu; subst qu. exists qi.
    split; [reflexivity|]. split; [intros E; rewrite E, opt_eqb_refl in X; discriminate|]. auto.
  - intros q qi x Gq Eq Hx Hxd.
    assert (get_page su q = Some qi) as Gqu.
    { rewrite GPu, GP, Gq. destruct (opt_eqb (pheap qi) (Some h)) eqn:X; [apply opt_eqb_spec in X; contradiction|reflexivity]. }
    apply (freed_page_keeps su s' d pd pid q qi x (unlink_heap_inv s1 h I1 ltac:(rewrite F3; exact Hne) NP) Gd Hd FR Gqu Hx Hxd).
  - intros k Hk Hpk. rewrite (fr_heaps _ _ _ _ _ FR k Hpk). unfold su. rewrite get_heap_unlink, GH.
    apply N.eqb_neq in Hk. rewrite Hk. reflexivity.
  - intros k hk hk' i q Hk Gk Gk' Hq. apply (fr_queues _ _ _ _ _ FR k hk hk' i q); [|exact Gk'|exact Hq].
    unfold su. rewrite get_heap_unlink, GH. apply N.eqb_neq in Hk. rewrite Hk. exact Gk.
  - rewrite (fr_hids _ _ _ _ _ FR). unfold su. rewrite heap_ids_unlink, filter_In, negb_true_iff, N.eqb_neq. tauto.
  - intros k Hk. rewrite (fr_hids _ _ _ _ _ FR). unfold su. rewrite heap_ids_unlink, filter_In, negb_true_iff, N.eqb_neq, F1. tauto.
  - rewrite (fr_backing _ _ _ _ _ FR), Ub. exact F3.
  - rewrite (fr_descs _ _ _ _ _ FR), Uds, F4. reflexivity.
  - exact I'.
Qed.

(* ================================================================================================ *)
(* the default heap                                                                                  *)
(* ================================================================================================ *)
Lemma block_free_default s b sl s' : block_free s b sl = Some s' -> default s' = default s /\ backing s' = backing s.
Proof.
  rewrite block_free_unfold. destruct (page_of_block s b) as [[p pi]|]; [|discriminate].
  destruct (negb (inb b (blocks pi))); [discriminate|]. cbv zeta.
  destruct (pheap pi) as [h|].
  - destruct (is_nil _).
    + intros K. inversion K; subst s'. unfold page_retire. destruct (_ && _); split; reflexivity.
    + destruct (in_full pi); intros K; inversion K; subst s'; [|split; reflexivity].
      unfold page_unfull. destruct (get_page _ p) as [pi1|]; [|split; reflexivity].
      destruct (pheap pi1); [|split; reflexivity]. destruct (in_full pi1); split; reflexivity.
  - destruct (sl && _); [discriminate|]. intros K. inversion K; subst s'. split; reflexivity.
Qed.

Lemma heap_free_default s h s' : In h (heap_ids s) -> heap_free s h = Some s' ->
  default s' = (if (default s =? h) && negb (h =? backing s) then backing s else default s) /\ backing s' = backing s.
Proof.
  intros Hin. rewrite heap_free_unfold. destruct (h =? backing s) eqn:E.
  - intros K. inversion K; subst. rewrite andb_false_r. split; reflexivity.
  - rewrite andb_true_r. destruct (in_ids_get_heap s h Hin) as [hp H]. rewrite H.
    destruct (unlink_frames s h) as [_ [_ [Ub [Ud _]]]].
    destruct (find_desc (descs s) h).
    + intros K. destruct (block_free_default _ _ _ _ K) as [A B]. rewrite A, B, Ub, Ud. split; reflexivity.
    + intros K. inversion K; subst s'. destruct (default s =? h); split; reflexivity.
Qed.

Lemma collect_abandon_default s h : default (heap_collect_abandon s h) = default s.
Proof.
  unfold heap_collect_abandon. generalize (heap_visit_pages s h) as l. intros l. revert s.
  induction l as [|p r IH]; intros s; cbn; [reflexivity|]. rewrite IH.
  rewrite page_collect_abandon_unfold. destruct (get_page s p) as [pi|]; [|reflexivity].
  destruct (pheap pi); [|reflexivity]. destruct (is_nil (blocks pi)); reflexivity.
Qed.

Lemma collect_abandon_ids s h : heap_ids (heap_collect_abandon s h) = heap_ids s.
Proof.
  unfold heap_collect_abandon. generalize (heap_visit_pages s h) as l. intros l. revert s.
  induction l as [|p r IH]; intros s; cbn; [reflexivity|]. rewrite IH.
  rewrite page_collect_abandon_unfold. destruct (get_page s p) as [pi|]; [|reflexivity].
  destruct (pheap pi); [|reflexivity]. destruct (is_nil (blocks pi)).
  - unfold page_free. hs. apply heap_ids_queue_remove.
  - unfold abandon_page, home_set. hs. apply heap_ids_queue_remove.
Qed.

Lemma heap_delete_default s h s' : heap_Inv s -> In h (heap_ids s) -> heap_delete s h = Some s' ->
  default s' = (if default s =? h then backing s else default s) /\ backing s' = backing s.
Proof.
  intros I Hin. unfold heap_delete. destruct (in_ids_get_heap s h Hin) as [hp H]. rewrite H.
  destruct (in_ids_get_heap s _ (hi_backing s I)) as [bp B]. rewrite B.
  destruct (negb (h =? backing s) && heaps_compatible bp hp) eqn:C.
  - apply andb_true_iff in C. destruct C as [C _]. apply negb_true_iff in C. pose proof C as C2. apply N.eqb_neq in C2.
    assert (backing s <> h) as C' by congruence.
    destruct (heap_absorb_spec s (backing s) h bp hp I C' B H) as [_ _ _ _ [S1 S2 S3 S4 S5 S6 S7]].
    intros K. apply heap_free_default in K.
    + unfold home_move in K. cbn [default backing set_home] in K. rewrite S4, S5, C in K. rewrite andb_true_r in K. exact K.
    + unfold home_move. hs. rewrite S1. exact Hin.
  - intros K. apply heap_free_default in K; [|rewrite collect_abandon_ids; exact Hin].
    rewrite collect_abandon_default, collect_abandon_backing in K. destruct K as [K1 K2]. split; [|exact K2].
    rewrite K1. destruct (default s =? h) eqn:E; [|reflexivity]. destruct (h =? backing s) eqn:E2; [|reflexivity].
    cbn. apply N.eqb_eq in E, E2. congruence.
Qed.

Theorem default_falls_back s h s' : heap_Inv s -> In h (heap_ids s) ->
  (heap_delete s h = Some s' \/ heap_destroy s h = Some s') ->
  default s' = (if default s =? h then backing s else default s) /\ backing s' = backing s.
Proof.
  intros I Hin [K|K]; [eapply heap_delete_default; eauto|].
  unfold heap_destroy in K. destruct (in_ids_get_heap s h Hin) as [hp H]. rewrite H in K.
  destruct (no_reclaim hp); [|eapply heap_delete_default; eauto].
  destruct (heap_destroy_pages_spec s h hp I H) as [_ [_ [F1 [F2 [F3 _]]]]].
  apply heap_free_default in K; [|rewrite F1; exact Hin]. rewrite F2, F3 in K. destruct K as [K1 K2]. split; [|exact K2].
  rewrite K1. destruct (default s =? h) eqn:E; [|reflexivity]. destruct (h =? backing s) eqn:E2; [|reflexivity].
  cbn. apply N.eqb_eq in E, E2. congruence.
Qed.

(* every other operation leaves the default heap alone (mi_heap_set_default sets it) *)
Lemma block_malloc_default s h bin b c s' : block_malloc s h bin b c = Some s' -> default s' = default s /\ backing s' = backing s.
Proof.
  unfold block_malloc. destruct (get_heap s h) as [hp|] eqn:H; [|discriminate]. destruct (negb _); [discriminate|].
  destruct (inb b _); [discriminate|]. destruct c as [p capb|p start size capb].
  - destruct (get_page s p); [|discriminate]. destruct (_ && _); [|discriminate]. intros K. inversion K; subst s'.
    unfold home_add. hs. unfold move_to_front. rewrite H. destruct (qget (queues hp) bin) as [|q r]; [split; reflexivity|].
    destruct (q =? p); split; reflexivity.
  - destruct (get_page s p); [discriminate|]. destruct (_ && _); [|discriminate]. intros K. inversion K; subst s'. split; reflexivity.
Qed.

Theorem default_unchanged s o s' : heap_step s o = Some s' ->
  match o with OpDelete _ | OpDestroy _ | OpSetDefault _ => True | _ => default s' = default s /\ backing s' = backing s end.
Proof.
  destruct o; cbn [heap_step]; try exact (fun _ => I).
  - unfold heap_new. destruct (inb k _); [discriminate|]. destruct (block_malloc _ _ _ _ _) as [s1|] eqn:M; [|discriminate].
    intros K. inversion K; subst s'. apply block_malloc_default in M. exact M.
  - apply block_malloc_default.
  - apply block_free_default.
  - unfold to_full_op. destruct (get_page s p) as [pi|] eqn:G; [|discriminate]. destruct (pheap pi) eqn:E; [|discriminate].
    destruct (in_full pi) eqn:F; [discriminate|]. intros K. inversion K; subst s'. unfold page_to_full. rewrite G, E, F. split; reflexivity.
  - unfold empty_page_free. destruct (get_page s p) as [pi|]; [|discriminate]. destruct (pheap pi); [|discriminate].
    destruct (is_nil _); [|discriminate]. intros K. inversion K; subst s'. split; reflexivity.
Qed.

(* ================================================================================================ *)
(* mi_heap_delete of a heap that is NOT compatible with the backing heap (or of the backing heap):   *)
(* _mi_heap_collect_abandon on a live thread                                                         *)
(* ================================================================================================ *)
Theorem delete_incompatible_abandons s h hp bp s' :
  heap_Inv s -> get_heap s h = Some hp -> get_heap s (backing s) = Some bp -> h <> backing s ->
  heaps_compatible bp hp = false -> heap_delete s h = Some s' ->
  (* a page of h with live blocks keeps them, but has no heap any more and is in no queue of any heap *)
  (forall p pi, get_page s p = Some pi -> pheap pi = Some h -> blocks pi <> [] ->
     (forall d, find_desc (descs s) h = Some d -> ~ In d (blocks pi)) ->
     get_page s' p = Some (set_pheap None (set_in_full false pi)) /\
     (forall k hk i, get_heap s' k = Some hk -> ~ In p (qget (queues hk) i)) /\
     (forall b, In b (blocks pi) -> In b (live_blocks s') /\ heap_of_block s' b = None)) /\
  (forall p pi, get_page s p = Some pi -> pheap pi = Some h -> blocks pi = [] -> get_page s' p = None) /\
  ~ In h (heap_ids s') /\ heap_Inv s'.
Proof.
  intros I H B Hne C K. pose proof (heap_delete_inv s h s' I K) as I'.
  unfold heap_delete in K. rewrite H, B, C in K. rewrite andb_false_r in K.
  pose proof (heap_collect_abandon_inv s h I) as I1.
  assert (forall p, In p (heap_pages hp) -> exists pi, get_page s p = Some pi /\ pheap pi = Some h) as HP.
  { intros p Hp. apply (inv_queued_iff s h hp p I H). exact Hp. }
  destruct (collect_abandon_fold_spec h (heap_pages hp) s I (inv_heap_pages_nodup s h hp I H) HP)
    as [T1 [T2 [T3 [T4 [T5 [T6 [T7 T8]]]]]]].
  unfold heap_collect_abandon in K, I1. rewrite (inv_visit s h hp I H) in K, I1.
  set (s1 := fold_left page_collect_abandon (heap_pages hp) s) in *.
  assert (exists hp1, get_heap s1 h = Some hp1) as [hp1 H1].
  { apply in_ids_get_heap. rewrite T4. eapply get_heap_in_ids; eauto. }
  destruct (heap_free_spec s1 h hp1 s' I1 H1 ltac:(rewrite T7; exact Hne) K) as [d [D BF]]. rewrite T8 in D.
  assert (forall p pi, get_page s1 p = Some pi -> pheap pi <> Some h) as NP.
  { intros p pi G. pose proof (collect_abandon_no_pages s h hp I H p pi) as X. unfold heap_collect_abandon in X.
    rewrite (inv_visit s h hp I H) in X. apply X. exact G. }
  pose proof (unlink_heap_inv s1 h I1 ltac:(rewrite T7; exact Hne) NP) as Iu.
  destruct (block_free_spec _ _ _ _ Iu BF) as [pd [pid [Gd [Hd FR]]]].
  set (su := unlink_heap s1 h) in *.
  destruct (unlink_frames s1 h) as [Up _]. fold su in Up.
  assert (forall q, get_page su q = get_page s1 q) as GPu by (intros q; unfold get_page; rewrite Up; reflexivity).
  split; [|split; [|split]].
  - intros p pi G E NE ND.
    assert (In p (heap_pages hp)) as Hp by (apply (inv_queued_iff s h hp p I H); eauto).
    assert (get_page s1 p = Some (set_pheap None (set_in_full false pi))) as G1.
    { rewrite (T2 p pi Hp G). destruct (blocks pi); [congruence|reflexivity]. }
    assert (p <> pd) as Hpd.
    { intros ->. rewrite GPu, G1 in Gd. inversion Gd; subst pid. cbn in Hd. apply (ND d D). exact Hd. }
    assert (get_page s' p = Some (set_pheap None (set_in_full false pi))) as G'.
    { rewrite (fr_other _ _ _ _ _ FR p Hpd), GPu. exact G1. }
    split; [exact G'|]. split.
    + intros k hk i Hk. apply (heapless_page_not_queued s' p _ k hk i I' G' eq_refl Hk).
    + intros b Hb. split.
      * apply live_blocks_in. eexists. eexists. split; [apply get_page_in; exact G'|exact Hb].
      * rewrite (live_heap_of_block s' b p _ I' G' Hb). reflexivity.
  - intros p pi G E NE.
    assert (In p (heap_pages hp)) as Hp by (apply (inv_queued_iff s h hp p I H); eauto).
    assert (get_page s1 p = None) as G1 by (rewrite (T2 p pi Hp G), NE; reflexivity).
    destruct (N.eq_dec p pd) as [X|X]; [subst; rewrite GPu in Gd; congruence|].
    rewrite (fr_other _ _ _ _ _ FR p X), GPu. exact G1.
  - rewrite (fr_hids _ _ _ _ _ FR). unfold su. rewrite heap_ids_unlink, filter_In, negb_true_iff, N.eqb_neq. tauto.
  - exact I'.
Qed.

(* The model shows the recorded finding impl:heap-delete-incompatible: thread-local heaps 0 (backing)
   and 1 (bound to arena 7, hence not compatible); heap 1 allocates one block; mi_heap_delete(1)
   abandons its page; the state satisfies the invariant, the block is live, and its local free
   (segment still owned by this thread) dereferences the NULL heap of the page. *)
Definition refute_ops : list heap_op :=
  [ OpNew 1 false 0 7 5000 (MFresh 11 5000 10000 4000);
    OpMalloc 1 5 20000 (MFresh 12 20000 1000 100);
    OpDelete 1 ].

Theorem delete_incompatible_refuted :
  exists ops s b, heap_run (heap_init 0 0 0) ops = Some s /\ heap_inv_b s = true /\ desc_inv_b s = true /\
                  inb b (live_blocks s) = true /\ heap_of_block s b = None /\
                  free_faults s b true = true /\ heap_step s (OpFree b true) = None.
Proof.
  exists refute_ops. eexists. exists 20000. split; [vm_compute; reflexivity|]. vm_compute. repeat split.
Qed.

(* ================================================================================================ *)
(* heap descriptors are live blocks of the backing heap                                              *)
(* ================================================================================================ *)
Definition descs_Inv (s : state) : Prop := desc_Inv s /\ NoDup (map snd (descs s)).

(* operations that do not abandon pages on a live thread and do not free a descriptor behind the
   allocator's back: delete/destroy only of non-backing heaps that are compatible with the backing
   heap (destroy: or created with mi_heap_new), free only of blocks the program allocated *)
Definition op_safe (s : state) (o : heap_op) : bool :=
  match o with
  | OpFree b _ => negb (inb b (map snd (descs s)))
  | OpDelete h =>
    match get_heap s h, get_heap s (backing s) with
    | Some hp, Some bp => negb (h =? backing s) && heaps_compatible bp hp
    | _, _ => true
    end
  | OpDestroy h =>
    match get_heap s h, get_heap s (backing s) with
    | Some hp, Some bp => negb (h =? backing s) && (no_reclaim hp || heaps_compatible bp hp)
    | _, _ => true
    end
  | _ => true
  end.

Fixpoint heap_run_safe (s : state) (ops : list heap_op) : option state :=
  match ops with
  | [] => Some s
  | o :: r => if op_safe s o then match heap_step s o with Some s' => heap_run_safe s' r | None => None end else None
  end.

Lemma block_malloc_spec s h bin b c s' : heap_Inv s -> block_malloc s h bin b c = Some s' ->
  (forall q qi, get_page s q = Some qi ->
     exists qi', get_page s' q = Some qi' /\ pheap qi' = pheap qi /\ incl (blocks qi) (blocks qi')) /\
  (exists p pi', get_page s' p = Some pi' /\ In b (blocks pi') /\ pheap pi' = Some h) /\
  descs s' = descs s /\ backing s' = backing s /\ heap_ids s' = heap_ids s /\ ~ In b (live_blocks s).
Proof.
  intros I. unfold block_malloc. destruct (get_heap s h) as [hp|] eqn:H; [|discriminate].
  destruct (bin <? MI_BIN_FULL) eqn:Hbin; [|discriminate]. apply N.ltb_lt in Hbin. cbn [negb].
  destruct (inb b (live_blocks s)) eqn:Hb; [discriminate|]. apply inb_false in Hb.
  destruct c as [p capb|p start size capb].
  - destruct (get_page s p) as [pi|] eqn:G; [|discriminate].
    destruct (inb p (qget (queues hp) bin) && _ && _ && _ && _) eqn:C; [|discriminate].
    intros K. inversion K; subst s'. clear K.
    apply andb_true_iff in C; destruct C as [C _]. apply andb_true_iff in C; destruct C as [C _].
    apply andb_true_iff in C; destruct C as [C _]. apply andb_true_iff in C; destruct C as [C _].
    apply inb_spec in C.
    destruct (hi_queued s I _ _ _ _ H C) as [pi0 [G0 [E [F Pb]]]]. rewrite G in G0. inversion G0; subst pi0.
    assert (bin <> MI_BIN_FULL) as Hne by lia. specialize (Pb Hne).
    assert (page_qbin pi = bin) as Eq. { unfold page_qbin. rewrite F. apply N.eqb_neq in Hne. rewrite Hne. exact Pb. }
    rewrite <- Eq.
    destruct (move_to_front_facts s h pi p I G E) as [[pi1 [G1 [A1 [A2 [A3 [A4 [A5 [A6 A7]]]]]]]] [OTHER [B1 [B2 [B3 [B4 [B5 [B6 [B7 _]]]]]]]]].
    set (s1 := move_to_front s h (page_qbin pi) p) in *.
    unfold home_add. split; [|split; [|repeat split; hs; auto]].
    + intros q qi Gq. hs. destruct (N.eqb_spec q p) as [X|X].
      * subst q. rewrite G in Gq. inversion Gq; subst qi. rewrite G1. cbn. eexists. split; [reflexivity|]. cbn.
        split; [exact A1|]. intros x Hx. right. exact Hx.
      * rewrite OTHER by exact X. exists qi. split; [exact Gq|]. split; [reflexivity|apply incl_refl].
    + exists p. hs. rewrite N.eqb_refl, G1. cbn. eexists. split; [reflexivity|]. cbn. split; [left; reflexivity|congruence].
  - destruct (get_page s p) as [pi|] eqn:G; [discriminate|].
    destruct (_ && _); [|discriminate]. intros K. inversion K; subst s'. clear K.
    unfold home_add. split; [|split; [|repeat split; hs; auto]].
    + intros q qi Gq. hs. rewrite get_page_queue_push. hs. assert (q <> p) as X by (intros ->; congruence).
      apply N.eqb_neq in X. rewrite X. rewrite N.eqb_sym, X. exists qi. split; [exact Gq|]. split; [reflexivity|apply incl_refl].
    + exists p. hs. rewrite get_page_queue_push. hs. rewrite !N.eqb_refl. cbn. eexists. split; [reflexivity|].
      cbn. split; [left; reflexivity|reflexivity].
    + rewrite heap_ids_queue_push. reflexivity.
Qed.

Lemma nodup_snd_inj {A B} (l : list (A * B)) a1 a2 b : NoDup (map snd l) -> In (a1, b) l -> In (a2, b) l -> a1 = a2.
Proof.
  induction l as [|[x y] r IH]; cbn; [tauto|]. intros ND H1 H2. apply NoDup_cons_iff in ND. destruct ND as [N1 N2].
  destruct H1 as [E1|H1]; destruct H2 as [E2|H2].
  - congruence.
  - inversion E1; subst. exfalso. apply N1. apply in_map_iff. exists (a2, b). auto.
  - inversion E2; subst. exfalso. apply N1. apply in_map_iff. exists (a1, b). auto.
  - apply IH; assumption.
Qed.

Lemma NoDup_map_snd_filter {A B} (f : A * B -> bool) (l : list (A * B)) : NoDup (map snd l) -> NoDup (map snd (filter f l)).
Proof.
  induction l as [|x r IH]; cbn; intros H; [constructor|]. apply NoDup_cons_iff in H. destruct H as [H2 H3].
  destruct (f x); cbn; [|apply IH; assumption].
  constructor; [|apply IH; assumption]. intros K. apply H2. apply in_map_iff in K. destruct K as [y [E Hy]].
  apply in_map_iff. exists y. split; [exact E|]. apply filter_In in Hy. tauto.
Qed.

Lemma desc_inv_preserved s o s' : heap_Inv s -> descs_Inv s -> op_safe s o = true -> heap_step s o = Some s' -> descs_Inv s'.
Proof.
  intros I [DI DN] SAFE ST. pose proof (heap_inv_preserved s o s' I ST) as I'.
  assert (forall s1, heap_Inv s1 -> descs s1 = descs s -> backing s1 = backing s ->
            (forall q qi x, get_page s q = Some qi -> In x (blocks qi) -> In x (map snd (descs s)) ->
               exists qi', get_page s1 q = Some qi' /\ pheap qi' = pheap qi /\ In x (blocks qi')) -> descs_Inv s1) as KEEP.
  { intros s1 _ E1 E2 HK. split; [|rewrite E1; exact DN]. intros k dk Hin. rewrite E1 in Hin.
    destruct (DI k dk Hin) as [p [pi [G [Hb E]]]].
    destruct (HK p pi dk G Hb ltac:(apply in_map_iff; exists (k, dk); auto)) as [pi' [G' [E' Hb']]].
    exists p, pi'. rewrite E2. split; [exact G'|]. split; [exact Hb'|congruence]. }
  destruct o; cbn [heap_step op_safe] in *.
  - (* new *)
    unfold heap_new in ST. destruct (inb k (heap_ids s)) eqn:Hk; [discriminate|].
    destruct (block_malloc s (backing s) desc_bin d c) as [s1|] eqn:M; [|discriminate]. inversion ST; subst s'. clear ST.
    destruct (block_malloc_spec _ _ _ _ _ _ I M) as [PK [[p [pi' [Gp [Hd Ep]]]] [E1 [E2 [E3 ND]]]]].
    split.
    + intros k' dk [X|Hin].
      * inversion X; subst. exists p, pi'. cbn. rewrite E2. auto.
      * cbn in Hin. rewrite E1 in Hin. destruct (DI k' dk Hin) as [q [qi [G [Hb E]]]].
        destruct (PK q qi G) as [qi' [G' [E' Inc]]]. exists q, qi'. cbn. rewrite E2. split; [exact G'|]. split; [apply Inc; exact Hb|congruence].
    + cbn. rewrite E1. constructor; [|exact DN]. intros X. apply in_map_iff in X. destruct X as [[k' dk] [Y Hin]]. cbn in Y. subst dk.
      destruct (DI k' d Hin) as [q [qi [G [Hb _]]]]. apply ND. apply live_blocks_in. exists q, qi. split; [apply get_page_in; exact G|exact Hb].
  - (* malloc *)
    destruct (block_malloc_spec _ _ _ _ _ _ I ST) as [PK [_ [E1 [E2 _]]]]. apply KEEP; auto.
    intros q qi x G Hx _. destruct (PK q qi G) as [qi' [G' [E' Inc]]]. exists qi'. auto.
  - (* free *)
    apply negb_true_iff, inb_false in SAFE. destruct (block_free_spec _ _ _ _ I ST) as [p [pi [G [Hb FR]]]].
    apply KEEP; [exact I'|apply (fr_descs _ _ _ _ _ FR)|apply (fr_backing _ _ _ _ _ FR)|].
    intros q qi x Gq Hx Hd. apply (freed_page_keeps s s' b p pi q qi x I G Hb FR Gq Hx). intros ->. contradiction.
  - (* to_full *)
    unfold to_full_op in ST. destruct (get_page s p) as [pi|] eqn:G; [|discriminate]. destruct (pheap pi) as [h|] eqn:E; [|discriminate].
    destruct (in_full pi) eqn:F; [discriminate|]. inversion ST; subst s'. apply KEEP; auto; try (unfold page_to_full; rewrite G, E, F; reflexivity).
    intros q qi x Gq Hx _. unfold page_to_full. rewrite G, E, F.
    destruct (enqueue_from_facts s h MI_BIN_FULL (pbin pi) p) as [Q1 _]. rewrite Q1.
    destruct (N.eqb_spec q p); [subst; rewrite Gq; cbn; eexists; split; [reflexivity|auto]|eauto].
  - (* empty page freed *)
    unfold empty_page_free in ST. destruct (get_page s p) as [pi|] eqn:G; [|discriminate]. destruct (pheap pi) as [h|] eqn:E; [|discriminate].
    destruct (is_nil (blocks pi)) eqn:N; [|discriminate]. inversion ST; subst s'. apply is_nil_spec in N.
    apply KEEP; auto. intros q qi x Gq Hx _. destruct (page_free_facts s h pi p) as [Q1 _]. rewrite Q1.
    destruct (N.eqb_spec q p) as [X|X]; [subst; rewrite G in Gq; inversion Gq; subst; rewrite N in Hx; destruct Hx|eauto].
  - (* delete *)
    destruct (get_heap s h) as [hp|] eqn:H.
    2: { unfold heap_delete in ST. rewrite H in ST. inversion ST; subst. split; assumption. }
    destruct (in_ids_get_heap s _ (hi_backing s I)) as [bp B]. rewrite B in SAFE.
    apply andb_true_iff in SAFE. destruct SAFE as [S1 S2]. apply negb_true_iff, N.eqb_neq in S1.
    destruct (delete_preserves_live s h hp bp s' I H B S1 S2 ST) as [d [D [P [HB [_ [_ [_ [_ [EB [ED _]]]]]]]]]].
    split; [|rewrite ED; apply NoDup_map_snd_filter; exact DN].
    intros k dk Hin. rewrite ED in Hin. apply filter_In in Hin. destruct Hin as [Hin Hk]. cbn in Hk. apply negb_true_iff, N.eqb_neq in Hk.
    destruct (DI k dk Hin) as [q [qi [G [Hb E]]]].
    assert (dk <> d) as Hd. { intros ->. apply Hk. eapply nodup_snd_inj; eauto. apply find_desc_some. exact D. }
    assert (In dk (live_blocks s')) as L'.
    { assert (In dk (live_blocks s)) as L by (apply live_blocks_in; exists q, qi; split; [apply get_page_in; exact G|exact Hb]).
      apply (Permutation_in _ P) in L. destruct L as [X|X]; [congruence|exact X]. }
    destruct (inv_live_page s' dk I' L') as [q' [qi' [G' Hb']]]. exists q', qi'. split; [exact G'|]. split; [exact Hb'|].
    rewrite <- (live_heap_of_block s' dk q' qi' I' G' Hb'), (HB dk L'), (live_heap_of_block s dk q qi I G Hb), E, EB.
    assert (opt_eqb (Some (backing s)) (Some h) = false) as -> by (cbn; apply N.eqb_neq; congruence). reflexivity.
  - (* destroy *)
    destruct (get_heap s h) as [hp|] eqn:H.
    2: { unfold heap_destroy in ST. rewrite H in ST. inversion ST; subst. split; assumption. }
    destruct (in_ids_get_heap s _ (hi_backing s I)) as [bp B]. rewrite B in SAFE.
    apply andb_true_iff in SAFE. destruct SAFE as [S1 S2]. apply negb_true_iff, N.eqb_neq in S1.
    destruct (no_reclaim hp) eqn:NR.
    + destruct (destroy_exactly_own s h hp s' I H NR S1 ST) as [d [pd [pid [D [_ [_ [_ [_ [_ [_ [KP [_ [_ [_ [_ [EB [ED _]]]]]]]]]]]]]]]]].
      split; [|rewrite ED; apply NoDup_map_snd_filter; exact DN].
      intros k dk Hin. rewrite ED in Hin. apply filter_In in Hin. destruct Hin as [Hin Hk]. cbn in Hk. apply negb_true_iff, N.eqb_neq in Hk.
      destruct (DI k dk Hin) as [q [qi [G [Hb E]]]].
      assert (dk <> d) as Hd. { intros ->. apply Hk. eapply nodup_snd_inj; eauto. apply find_desc_some. exact D. }
      destruct (KP q qi dk G ltac:(rewrite E; congruence) Hb Hd) as [qi' [G' [E' Hb']]].
      exists q, qi'. rewrite EB. split; [exact G'|]. split; [exact Hb'|congruence].
    + cbn [orb] in S2. unfold heap_destroy in ST. rewrite H, NR in ST.
      destruct (delete_preserves_live s h hp bp s' I H B S1 S2 ST) as [d [D [P [HB [_ [_ [_ [_ [EB [ED _]]]]]]]]]].
      split; [|rewrite ED; apply NoDup_map_snd_filter; exact DN].
      intros k dk Hin. rewrite ED in Hin. apply filter_In in Hin. destruct Hin as [Hin Hk]. cbn in Hk. apply negb_true_iff, N.eqb_neq in Hk.
      destruct (DI k dk Hin) as [q [qi [G [Hb E]]]].
      assert (dk <> d) as Hd. { intros ->. apply Hk. eapply nodup_snd_inj; eauto. apply find_desc_some. exact D. }
      assert (In dk (live_blocks s')) as L'.
      { assert (In dk (live_blocks s)) as L by (apply live_blocks_in; exists q, qi; split; [apply get_page_in; exact G|exact Hb]).
        apply (Permutation_in _ P) in L. destruct L as [X|X]; [congruence|exact X]. }
      destruct (inv_live_page s' dk I' L') as [q' [qi' [G' Hb']]]. exists q', qi'. split; [exact G'|]. split; [exact Hb'|].
      rewrite <- (live_heap_of_block s' dk q' qi' I' G' Hb'), (HB dk L'), (live_heap_of_block s dk q qi I G Hb), E, EB.
      assert (opt_eqb (Some (backing s)) (Some h) = false) as -> by (cbn; apply N.eqb_neq; congruence). reflexivity.
  - (* set default *)
    inversion ST; subst s'. unfold heap_set_default. destruct (get_heap s h); split; assumption.
Qed.

Theorem heap_struct_is_backing_block k tg ar ops s :
  heap_run_safe (heap_init k tg ar) ops = Some s ->
  heap_Inv s /\
  forall h, In h (heap_ids s) -> h <> backing s ->
    exists d p pi, find_desc (descs s) h = Some d /\ get_page s p = Some pi /\ In d (blocks pi) /\
                   pheap pi = Some (backing s) /\ In d (live_blocks s) /\ heap_contains_block s (backing s) d = true.
Proof.
  assert (forall l s0 s1, heap_Inv s0 -> descs_Inv s0 -> heap_run_safe s0 l = Some s1 -> heap_Inv s1 /\ descs_Inv s1) as RUN.
  { induction l as [|o r IH]; intros s0 s1 I D; cbn [heap_run_safe].
    - intros K. inversion K; subst. auto.
    - destruct (op_safe s0 o) eqn:SF; [|discriminate]. destruct (heap_step s0 o) as [s2|] eqn:ST; [|discriminate].
      apply IH; [eapply heap_inv_preserved; eauto|eapply desc_inv_preserved; eauto]. }
  intros R. destruct (RUN ops _ s (heap_inv_init k tg ar) ltac:(split; [intros h d []|constructor]) R) as [I [DI _]].
  split; [exact I|]. intros h Hin Hne.
  assert (In h (map fst (descs s))) as Hd by (apply (hi_descs s I); auto).
  destruct (find_desc (descs s) h) as [d|] eqn:D; [|apply find_desc_none in D; contradiction].
  destruct (DI h d (find_desc_some _ _ _ D)) as [p [pi [G [Hb E]]]].
  assert (In d (live_blocks s)) as L by (apply live_blocks_in; exists p, pi; split; [apply get_page_in; exact G|exact Hb]).
  exists d, p, pi. repeat split; auto.
  apply (proj1 (contains_block_spec s (backing s) d I L (hi_backing s I))). eauto.
Qed.

(* non-vacuity of delete_preserves_live / destroy_exactly_own: under the invariants the operations succeed *)
Theorem delete_succeeds s h hp bp : heap_Inv s -> descs_Inv s -> get_heap s h = Some hp ->
  get_heap s (backing s) = Some bp -> h <> backing s -> heaps_compatible bp hp = true ->
  exists s', heap_delete s h = Some s'.
Proof.
  intros I [DI _] H B Hne C. unfold heap_delete. rewrite H, B, C. apply N.eqb_neq in Hne. rewrite Hne. cbn [negb andb].
  apply N.eqb_neq in Hne. assert (backing s <> h) as Hne' by congruence.
  pose proof (heap_absorb_spec s (backing s) h bp hp I Hne' B H) as AB.
  pose proof (absorbed_inv s _ (backing s) h bp hp I Hne' B H AB) as Im.
  set (sm := home_move (heap_absorb s (backing s) h) h (backing s)) in *.
  destruct AB as [_ [Qf [F1 _]] _ PG [S1 S2 S3 S4 S5 S6 S7]].
  rewrite heap_free_unfold. change (backing sm) with (backing (heap_absorb s (backing s) h)). rewrite S5.
  apply N.eqb_neq in Hne. rewrite Hne. apply N.eqb_neq in Hne.
  change (get_heap sm h) with (get_heap (heap_absorb s (backing s) h) h). rewrite F1.
  change (descs sm) with (descs (heap_absorb s (backing s) h)). rewrite S6.
  assert (In h (map fst (descs s))) as Hd by (apply (hi_descs s I); split; [eapply get_heap_in_ids; eauto|exact Hne]).
  destruct (find_desc (descs s) h) as [d|] eqn:D; [|apply find_desc_none in D; contradiction].
  destruct (DI h d (find_desc_some _ _ _ D)) as [p [pi [G [Hb E]]]].
  assert (forall q qi, get_page sm q = Some qi -> pheap qi <> Some h) as NP.
  { intros q qi Gq Eq. change (get_page sm q) with (get_page (heap_absorb s (backing s) h) q) in Gq. rewrite PG in Gq.
    destruct (get_page s q) as [q0|]; [|discriminate]. cbn in Gq. inversion Gq; subst qi.
    destruct (opt_eqb (pheap q0) (Some h)) eqn:X; [cbn in Eq; congruence|rewrite Eq, opt_eqb_refl in X; discriminate]. }
  pose proof (unlink_heap_inv sm h Im ltac:(change (backing sm) with (backing (heap_absorb s (backing s) h)); rewrite S5; exact Hne) NP) as Iu.
  apply (freeable_free_ok (unlink_heap sm h) d true).
  assert (get_page (unlink_heap sm h) p = Some pi) as Gu.
  { destruct (unlink_frames sm h) as [Up _]. unfold get_page. rewrite Up.
    change (find_page (pages sm) p) with (get_page (heap_absorb s (backing s) h) p). rewrite PG, G. cbn. rewrite E.
    assert (opt_eqb (Some (backing s)) (Some h) = false) as -> by (cbn; apply N.eqb_neq; congruence). reflexivity. }
  apply live_block_freeable; [exact Iu| |].
  - apply live_blocks_in. exists p, pi. split; [apply get_page_in; exact Gu|exact Hb].
  - rewrite (live_heap_of_block _ d p pi Iu Gu Hb), E. discriminate.
Qed.

(* the ghost home heap is set by the allocation itself (not read back from the page) *)
Lemma malloc_sets_home s h bin b c s' : block_malloc s h bin b c = Some s' ->
  find_home (home s') b = Some (Some h) /\ (forall b', b' <> b -> find_home (home s') b' = find_home (home s) b').
Proof.
  unfold block_malloc. destruct (get_heap s h) as [hp|] eqn:H; [|discriminate]. destruct (negb _); [discriminate|].
  destruct (inb b _); [discriminate|]. destruct c as [p capb|p start size capb].
  - destruct (get_page s p); [|discriminate]. destruct (_ && _); [|discriminate]. intros K. inversion K; subst s'.
    unfold home_add. cbn [home set_home find_home fst snd]. rewrite N.eqb_refl. split; [reflexivity|].
    intros b' Hb. apply N.eqb_neq in Hb. rewrite N.eqb_sym, Hb. hs.
    unfold move_to_front. rewrite H. destruct (qget (queues hp) bin) as [|q r]; [reflexivity|]. destruct (q =? p); reflexivity.
  - destruct (get_page s p); [discriminate|]. destruct (_ && _); [|discriminate]. intros K. inversion K; subst s'.
    unfold home_add. cbn [home set_home find_home fst snd]. rewrite N.eqb_refl. split; [reflexivity|].
    intros b' Hb. apply N.eqb_neq in Hb. rewrite N.eqb_sym, Hb. reflexivity.
Qed.
