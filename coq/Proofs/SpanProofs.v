(* Segment / span layer: the invariant (translation of mi_segment_is_valid) holds initially and is
   preserved by span allocate / split / free+coalesce / find_and_allocate / page_clear; used spans are
   disjoint; coalescing is complete; pointer -> segment -> page lookup; huge alignment. *)
From Coq Require Import NArith ZArith Lia Bool List.
From Coq Require Import ZifyN ZifyBool.
From MiV Require Import Gen.Consts Gen.Bins Model.Arith Model.Span Proofs.Base Proofs.ArithProofs Proofs.BitsProofs
  Proofs.SpanBase Proofs.SpanInv Proofs.SpanOps Proofs.SpanRaw.
Import ListNotations.
Local Open Scope N_scope.

(* ------------------------------------------------------------------------------------- *)
(* small facts                                                                             *)
(* ------------------------------------------------------------------------------------- *)

Lemma inv_with_set_used U sg qs u sps m :
  span_Inv_with U (set_used sg u, qs) sps m <-> span_Inv_with U (sg, qs) sps m.
Proof. unfold span_Inv_with. cbn [fst snd]. reflexivity. Qed.

Lemma slice_first_follower x k : k <= x -> slice_first x (k * sizeof_mi_slice_t) = x - k.
Proof.
  intros H. unfold slice_first. rewrite N.div_mul by (unfold sizeof_mi_slice_t; lia). reflexivity.
Qed.

(* the back-offset in the last entry of a span of a valid normal segment leads to its first entry *)
Lemma prev_lookup sg qs j cj :
  kind sg = SegNormal -> first_ok (entries sg) (slice_entries sg) (j, cj) -> span_ok sg qs (j, cj) -> 0 < cj ->
  slice_first (j + cj - 1) (slice_offset (get (entries sg) (j + cj - 1))) = j.
Proof.
  intros Hk (Hjn & Hcnt & Hoff) (K1 & K2 & K3 & K4) Hc. cbn [fst snd] in *. specialize (K2 Hk).
  destruct (N.eq_dec cj 1) as [->|Hc1].
  - replace (j + 1 - 1) with j by lia. rewrite Hoff. unfold slice_first. rewrite N.div_0_l by (unfold sizeof_mi_slice_t; lia). lia.
  - destruct (N.eq_dec (bsz (get (entries sg) j)) 0) as [Hb|Hb].
    + destruct (K4 Hb) as (V1 & _). cbv zeta in V1. rewrite N.min_l in V1 by lia.
      rewrite V1 by (left; assumption). rewrite slice_first_follower by lia. lia.
    + assert (Hb' : 0 < bsz (get (entries sg) j)) by lia.
      destruct (K3 Hb') as (_ & U2 & _). cbv zeta in U2. rewrite N.min_l in U2 by lia.
      rewrite U2 by lia. cbn [follower slice_offset]. rewrite slice_first_follower by lia. lia.
Qed.

(* ------------------------------------------------------------------------------------- *)
(* mi_segment_span_allocate                                                                *)
(* ------------------------------------------------------------------------------------- *)

Theorem span_allocate_inv sg qs a w l1 l2 m :
  raw_inv (used sg) (sg, qs) a w l1 l2 m ->
  exists st', span_allocate (sg, qs) a w true = Some st' /\
              span_Inv_with (used (fst st')) st' (l1 ++ (a, w) :: l2) m /\ used (fst st') = used sg + 1.
Proof.
  intros H. rewrite span_allocate_unfold. eexists. split; [reflexivity|].
  split; [|reflexivity]. cbn [fst used set_used]. apply raw_fill_used. assumption.
Qed.

(* ------------------------------------------------------------------------------------- *)
(* mi_segment_slice_split                                                                  *)
(* ------------------------------------------------------------------------------------- *)

Theorem slice_split_raw U sg qs a w l1 l2 m k :
  raw_inv U (sg, qs) a w l1 l2 m -> slice_count (get (entries sg) a) = w -> 0 < k -> k < w ->
  let st' := slice_split (sg, qs) a k in
  raw_inv U st' a k l1 ((a + k, w - k) :: l2) m /\ slice_count (get (entries (fst st')) a) = k /\
  used (fst st') = used sg.
Proof.
  intros H Hcnt Hk0 Hkw. cbv zeta. unfold slice_split. cbn [fst]. rewrite Hcnt.
  assert (E : (w <=? k) = false) by (apply N.leb_gt; assumption). rewrite E.
  destruct (raw_shrink_right U sg qs a w l1 l2 m k H Hk0 Hkw) as (Hraw & Hfr & Hget).
  cbv zeta in Hraw, Hfr, Hget.
  assert (Hu : used (fst (span_free (sg, qs) (a + k) (w - k))) = used sg) by (rewrite span_free_unfold; reflexivity).
  destruct (span_free (sg, qs) (a + k) (w - k)) as [sg1 qs1]. cbn [fst snd] in *.
  assert (Hlen : a < len (entries sg1)).
  { destruct Hraw as (_ & _ & _ & _ & _ & Haw & _ & _ & _ & _ & _ & Hl & _). cbn [fst snd] in *. lia. }
  assert (Hk32 : wrap32 k = k).
  { apply wrap32_small. destruct Hraw as (_ & _ & _ & _ & _ & Haw & _ & _ & _ & _ & _ & _ & Hn & _).
    cbn [fst snd] in *. unfold MI_SLICES_PER_SEGMENT in Hn. lia. }
  rewrite Hk32.
  split; [|split].
  - apply (raw_inv_frame U sg1 qs1).
    + assumption.
    + apply frame_set_entries. apply set_count_length.
    + intros j Hj. cbn [entries set_entries]. apply get_set_count_other. lia.
  - cbn [fst entries set_entries]. rewrite get_set_count_same by assumption. reflexivity.
  - cbn [fst used set_entries]. assumption.
Qed.

(* ------------------------------------------------------------------------------------- *)
(* mi_segment_span_free_coalesce                                                           *)
(* ------------------------------------------------------------------------------------- *)

Definition fc_next (st : state) (idx : N) : state * N :=
  let sg := fst st in let es := entries sg in
  let count := slice_count (get es idx) in
  let next := idx + count in
  if (next <? slice_entries sg) && (bsz (get es next) =? 0)
  then ((if negb (owned sg) then st else span_remove_from_queue st next), count + slice_count (get es next))
  else (st, count).

Definition fc_prev (ab : bool) (st1 : state) (count1 idx : N) : state * N * N :=
  let es1 := entries (fst st1) in
  if 0 <? idx then
    let prev := slice_first (idx - 1) (slice_offset (get es1 (idx - 1))) in
    if bsz (get es1 prev) =? 0 then
      let c2 := count1 + slice_count (get es1 prev) in
      let es2 := set es1 idx (mkSlice 0 (wrap32 ((idx - prev) * sizeof_mi_slice_t)) (bsz (get es1 idx))) in
      let st' := (set_entries (fst st1) es2, snd st1) in
      ((if ab then st' else span_remove_from_queue st' prev), c2, prev)
    else (st1, count1, idx)
  else (st1, count1, idx).

Lemma span_free_coalesce_normal sg qs idx :
  kind sg = SegNormal ->
  span_free_coalesce (sg, qs) idx =
  (let '(st1, count1) := fc_next (sg, qs) idx in
   let '(st2, count2, idx2) := fc_prev (negb (owned sg)) st1 count1 idx in
   (span_free st2 idx2 count2, idx2)).
Proof. intros Hk. unfold span_free_coalesce, fc_next, fc_prev. rewrite Hk. cbn [fst snd]. reflexivity. Qed.

Lemma owned_if (A : Type) (b : bool) (x y : A) : (if negb b then x else y) = (if b then y else x).
Proof. destruct b; reflexivity. Qed.

Theorem span_free_coalesce_raw U sg qs a w l1 l2 m :
  raw_inv U (sg, qs) a w l1 l2 m -> slice_count (get (entries sg) a) = w ->
  exists l1' l2' a' w',
    let st' := fst (span_free_coalesce (sg, qs) a) in
    snd (span_free_coalesce (sg, qs) a) = a' /\
    span_Inv_with U st' (l1' ++ (a', w') :: l2') m /\ used (fst st') = used sg /\
    a' <= a /\ a + w <= a' + w' /\
    (* which neighbours were merged *)
    ((l2' = l2 /\ a' + w' = a + w /\ (a + w < slice_entries sg -> 0 < bsz (get (entries sg) (a + w)))) \/
     (exists c2, l2 = (a + w, c2) :: l2' /\ a' + w' = a + w + c2 /\ bsz (get (entries sg) (a + w)) = 0)) /\
    ((l1' = l1 /\ a' = a /\ (forall j cj r, l1 = r ++ [(j, cj)] -> 0 < bsz (get (entries sg) j))) \/
     (exists cj, l1 = l1' ++ [(a', cj)] /\ a' + cj = a /\ bsz (get (entries sg) a') = 0)) /\
    (* frame: entries outside the merged region are untouched *)
    (forall j, j < a' \/ a' + w' <= j -> get (entries (fst st')) j = get (entries sg) j) /\
    bsz (get (entries (fst st')) a') = 0.
Proof.
  intros H Hcnt.
  pose proof H as (Hk & _). cbn [fst] in Hk.
  rewrite (span_free_coalesce_normal sg qs a Hk).
  (* ---- next ---- *)
  assert (Hnext : exists st1 count1 l2',
             fc_next (sg, qs) a = (st1, count1) /\ raw_inv U st1 a count1 l1 l2' m /\ w <= count1 /\
             frame_seg sg (fst st1) /\ used (fst st1) = used sg /\
             (forall j, j < a + w \/ a + count1 <= j -> get (entries (fst st1)) j = get (entries sg) j) /\
             bsz (get (entries (fst st1)) a) = bsz (get (entries sg) a) /\
             ((l2' = l2 /\ count1 = w /\ (a + w < slice_entries sg -> 0 < bsz (get (entries sg) (a + w)))) \/
              (exists c2, l2 = (a + w, c2) :: l2' /\ count1 = w + c2 /\ bsz (get (entries sg) (a + w)) = 0))).
  { unfold fc_next. cbn [fst snd]. rewrite Hcnt.
    destruct ((a + w <? slice_entries sg) && (bsz (get (entries sg) (a + w)) =? 0)) eqn:E.
    - apply andb_prop in E as [E1 E2]. apply N.ltb_lt in E1. apply N.eqb_eq in E2.
      pose proof H as H'. apply raw_inv_flat in H' as (T1 & Hw & T2 & Hm & Haw & _ & _ & Hflat).
      destruct (tiles_head _ _ _ T2) as (c2 & l2' & -> & Hc2 & T2'); [lia|].
      assert (Hc2' : slice_count (get (entries sg) (a + w)) = c2).
      { destruct Hflat as (_ & Hf & _). apply Forall_app_inv in Hf as [_ Hx]. destruct Hx as (_ & Hx & _). exact Hx. }
      pose proof (raw_absorb_right U sg qs a w l1 c2 l2' m H E2) as Hr.
      rewrite owned_if. unfold span_remove_from_queue. cbn [fst]. rewrite Hc2'.
      eexists _, _, l2'. split; [reflexivity|]. split; [exact Hr|]. split; [lia|].
      unfold span_queue_delete.
      destruct (owned sg); cbn [fst snd].
      + split; [apply frame_set_entries; apply set_bsz_length|]. split; [reflexivity|].
        split; [intros j Hj; cbn; apply get_set_bsz_other; lia|].
        split; [cbn; apply f_equal; apply get_set_bsz_other; lia|].
        right. exists c2. auto.
      + split; [apply frame_seg_refl|]. split; [reflexivity|]. split; [reflexivity|]. split; [reflexivity|].
        right. exists c2. auto.
    - exists (sg, qs), w, l2. split; [reflexivity|]. split; [assumption|]. split; [lia|].
      split; [apply frame_seg_refl|]. split; [reflexivity|]. split; [reflexivity|]. split; [reflexivity|].
      left. split; [reflexivity|]. split; [reflexivity|]. intros Hlt.
      apply andb_false_iff in E as [E|E]; [apply N.ltb_ge in E; lia|apply N.eqb_neq in E; lia]. }
  destruct Hnext as (st1 & count1 & l2' & E1 & Hraw1 & Hwc & Hfr1 & Hu1 & Hget1 & Hba & Hcase2).
  rewrite E1. clear E1. destruct st1 as [sg1 qs1]. cbn [fst snd] in *.
  (* ---- prev ---- *)
  pose proof (raw_a_pos _ _ _ _ _ _ _ Hraw1) as Ha0.
  pose proof Hraw1 as H1'. apply raw_inv_flat in H1' as (T1 & Hw1 & T2' & Hm & Haw1 & (r & Hr) & Hb0 & Hflat1).
  destruct (tiles_last _ _ _ T1 Ha0) as (l1' & j & cj & El1 & T1' & Hjcj & Hcj).
  assert (Hown : owned sg1 = owned sg) by (destruct Hfr1 as (_ & F2 & _); assumption).
  assert (Hprev : slice_first (a - 1) (slice_offset (get (entries sg1) (a - 1))) = j).
  { destruct Hflat1 as (Hk1 & Hf & Hok & _).
    assert (Hin : In (j, cj) (l1 ++ l2')) by (rewrite El1; apply in_or_app; left; apply in_or_app; right; left; reflexivity).
    rewrite Forall_forall in Hf, Hok.
    replace (a - 1) with (j + cj - 1) by lia.
    apply (prev_lookup sg1 qs1 j cj Hk1 (Hf _ Hin) (Hok _ Hin) Hcj). }
  assert (Hj_es : get (entries sg1) j = get (entries sg) j) by (apply Hget1; lia).
  unfold fc_prev. cbn [fst snd].
  assert (Ea : (0 <? a) = true) by (apply N.ltb_lt; assumption). rewrite Ea. rewrite Hprev.
  destruct (bsz (get (entries sg1) j) =? 0) eqn:Ej.
  - (* merge with the previous span *)
    apply N.eqb_eq in Ej.
    set (es2 := set (entries sg1) a (mkSlice 0 (wrap32 ((a - j) * sizeof_mi_slice_t)) (bsz (get (entries sg1) a)))).
    assert (Hraw2 : raw_inv U (set_entries sg1 es2, qs1) a count1 (l1' ++ [(j, cj)]) l2' m).
    { rewrite <- El1. apply (raw_inv_frame U sg1 qs1); [assumption| |].
      - apply frame_set_entries. apply set_length.
      - intros x Hx. cbn. apply get_set_other. lia. }
    assert (Hj2 : get es2 j = get (entries sg1) j) by (apply get_set_other; lia).
    destruct (raw_absorb_left U (set_entries sg1 es2) qs1 a count1 l1' j cj l2' m Hraw2) as (_ & Hraw3).
    { cbn. rewrite Hj2. assumption. }
    assert (Hcj' : slice_count (get (entries sg1) j) = cj).
    { destruct Hflat1 as (_ & Hf & _). rewrite El1 in Hf. rewrite <- app_assoc in Hf. cbn [app] in Hf.
      apply Forall_app_inv in Hf as [_ Hx]. destruct Hx as (_ & Hx & _). exact Hx. }
    rewrite owned_if. unfold span_remove_from_queue. cbn [fst entries set_entries]. rewrite Hj2, Hcj'.
    change (owned (set_entries sg1 es2)) with (owned sg1) in Hraw3. rewrite <- Hown.
    set (st2 := if owned sg1 then span_queue_delete (set_entries sg1 es2, qs1) (slice_bin cj) j else (set_entries sg1 es2, qs1)) in *.
    assert (Hst2 : frame_seg sg (fst st2) /\ used (fst st2) = used sg /\
                   (forall x, x < j \/ a + count1 <= x -> get (entries (fst st2)) x = get (entries sg) x)).
    { unfold st2, span_queue_delete. destruct (owned sg1); cbn [fst snd].
      - split; [|split].
        + eapply frame_seg_trans; [exact Hfr1|]. apply frame_set_entries. cbn. rewrite set_bsz_length. apply set_length.
        + cbn. assumption.
        + intros x Hx. cbn. rewrite get_set_bsz_other by lia. unfold es2. rewrite get_set_other by lia. apply Hget1. lia.
      - split; [|split].
        + eapply frame_seg_trans; [exact Hfr1|]. apply frame_set_entries. apply set_length.
        + cbn. assumption.
        + intros x Hx. cbn. unfold es2. rewrite get_set_other by lia. apply Hget1. lia. }
    destruct st2 as [sg2 qs2]. cbn [fst snd] in *. destruct Hst2 as (Hfr2 & Hu2 & Hget2).
    pose proof (raw_fill_free U sg2 qs2 j (cj + count1) l1' l2' m Hraw3) as Hfin.
    replace (count1 + cj) with (cj + count1) by lia.
    exists l1', l2', j, (cj + count1). cbv zeta. cbn [fst snd].
    split; [reflexivity|]. split; [exact Hfin|].
    assert (Hfree : used (fst (span_free (sg2, qs2) j (cj + count1))) = used sg /\
                    (forall x, x < j \/ j + (cj + count1) <= x -> get (entries (fst (span_free (sg2, qs2) j (cj + count1)))) x = get (entries sg) x) /\
                    bsz (get (entries (fst (span_free (sg2, qs2) j (cj + count1)))) j) = 0).
    { rewrite span_free_unfold. cbn [fst entries set_entries used].
      destruct Hraw3 as (_ & _ & Hw3 & _ & _ & Haw3 & _ & _ & _ & _ & _ & Hl3 & Hn3 & _). cbn [fst snd] in *.
      destruct (sf_entries_spec sg2 j (cj + count1) Hw3 Haw3 Hn3 Hl3) as (S1 & S2 & S3 & S4).
      split; [assumption|]. split; [|rewrite S2; reflexivity].
      intros x Hx. rewrite S4 by lia. apply Hget2. lia. }
    destruct Hfree as (Hf1 & Hf2 & Hf3).
    split; [assumption|]. split; [lia|]. split; [lia|].
    split.
    { destruct Hcase2 as [(-> & -> & Hb)|(c2 & -> & -> & Hb)].
      - left. split; [reflexivity|]. split; [lia|assumption].
      - right. exists c2. split; [reflexivity|]. split; [lia|assumption]. }
    split.
    { right. exists cj. split; [assumption|]. split; [assumption|]. rewrite <- Hj_es. assumption. }
    split; [assumption|assumption].
  - (* no merge with the previous span *)
    apply N.eqb_neq in Ej.
    pose proof (raw_fill_free U sg1 qs1 a count1 l1 l2' m Hraw1) as Hfin.
    exists l1, l2', a, count1. cbv zeta. cbn [fst snd].
    split; [reflexivity|]. split; [exact Hfin|].
    assert (Hfree : used (fst (span_free (sg1, qs1) a count1)) = used sg /\
                    (forall x, x < a \/ a + count1 <= x -> get (entries (fst (span_free (sg1, qs1) a count1))) x = get (entries sg) x) /\
                    bsz (get (entries (fst (span_free (sg1, qs1) a count1))) a) = 0).
    { rewrite span_free_unfold. cbn [fst entries set_entries used].
      destruct Hraw1 as (_ & _ & Hw3 & _ & _ & Haw3 & _ & _ & _ & _ & _ & Hl3 & Hn3 & _). cbn [fst snd] in *.
      destruct (sf_entries_spec sg1 a count1 Hw3 Haw3 Hn3 Hl3) as (S1 & S2 & S3 & S4).
      split; [assumption|]. split; [|rewrite S2; reflexivity].
      intros x Hx. rewrite S4 by lia. apply Hget1. lia. }
    destruct Hfree as (Hf1 & Hf2 & Hf3).
    split; [assumption|]. split; [lia|]. split; [lia|].
    split.
    { destruct Hcase2 as [(-> & -> & Hb)|(c2 & -> & -> & Hb)].
      - left. split; [reflexivity|]. split; [lia|assumption].
      - right. exists c2. split; [reflexivity|]. split; [lia|assumption]. }
    split.
    { left. split; [reflexivity|]. split; [reflexivity|].
      intros j' cj' r' Er'. rewrite El1 in Er'. apply app_inj_tail in Er' as [_ Ex]. inversion Ex; subst.
      rewrite <- Hj_es. lia. }
    split; [assumption|assumption].
Qed.
