(* Segment / span layer: the invariant (translation of mi_segment_is_valid) holds initially and is
   preserved by span allocate / split / free+coalesce / find_and_allocate / page_clear; used spans are
   disjoint; coalescing is complete; pointer -> segment -> page lookup; huge alignment. *)
From Coq Require Import NArith ZArith Lia Bool List Permutation.
From Coq Require Import ZifyN ZifyBool.
From MiV Require Import Gen.Consts Gen.Bins Model.Arith Model.Page Model.Span Proofs.Base Proofs.ArithProofs Proofs.BitsProofs Proofs.PageProofs
  Proofs.SpanBase Proofs.SpanInv Proofs.SpanOps Proofs.SpanRaw.
Import ListNotations.
Local Open Scope N_scope.

(* ------------------------------------------------------------------------------------- *)
(* small facts                                                                             *)
(* ------------------------------------------------------------------------------------- *)

Lemma inv_with_set_used U sg qs u sps m :
  span_Inv_with U (set_used sg u, qs) sps m <-> span_Inv_with U (sg, qs) sps m.
Proof. unfold span_Inv_with. cbn [fst snd]. reflexivity. Qed.

Lemma slice_first_follower x k : k <= x -> slice_first x (k * sizeof_mi_slice_t) = x - k.
Proof.
  intros H. unfold slice_first. rewrite N.div_mul by (unfold sizeof_mi_slice_t; lia). reflexivity.
Qed.

(* the back-offset in the last entry of a span of a valid normal segment leads to its first entry *)
Lemma prev_lookup sg qs j cj :
  kind sg = SegNormal -> first_ok (entries sg) (slice_entries sg) (j, cj) -> span_ok sg qs (j, cj) -> 0 < cj ->
  slice_first (j + cj - 1) (slice_offset (get (entries sg) (j + cj - 1))) = j.
Proof.
  intros Hk (Hjn & Hcnt & Hoff) (K1 & K2 & K3 & K4) Hc. cbn [fst snd] in *. specialize (K2 Hk).
  destruct (N.eq_dec cj 1) as [->|Hc1].
  - replace (j + 1 - 1) with j by lia. rewrite Hoff. unfold slice_first. rewrite N.div_0_l by (unfold sizeof_mi_slice_t; lia). lia.
  - destruct (N.eq_dec (bsz (get (entries sg) j)) 0) as [Hb|Hb].
    + destruct (K4 Hb) as (V1 & _). cbv zeta in V1. rewrite N.min_l in V1 by lia.
      rewrite V1 by (left; assumption). rewrite slice_first_follower by lia. lia.
    + assert (Hb' : 0 < bsz (get (entries sg) j)) by lia.
      destruct (K3 Hb') as (_ & U2 & _). cbv zeta in U2. rewrite N.min_l in U2 by lia.
      rewrite U2 by lia. cbn [follower slice_offset]. rewrite slice_first_follower by lia. lia.
Qed.

(* ------------------------------------------------------------------------------------- *)
(* mi_segment_span_allocate                                                                *)
(* ------------------------------------------------------------------------------------- *)

Theorem span_allocate_inv sg qs a w l1 l2 m :
  raw_inv (used sg) (sg, qs) a w l1 l2 m ->
  exists st', span_allocate (sg, qs) a w true = Some st' /\
              span_Inv_with (used (fst st')) st' (l1 ++ (a, w) :: l2) m /\ used (fst st') = used sg + 1.
Proof.
  intros H. rewrite span_allocate_unfold. eexists. split; [reflexivity|].
  split; [|reflexivity]. cbn [fst used set_used]. apply raw_fill_used. assumption.
Qed.

(* ------------------------------------------------------------------------------------- *)
(* mi_segment_slice_split                                                                  *)
(* ------------------------------------------------------------------------------------- *)

Theorem slice_split_raw U sg qs a w l1 l2 m k :
  raw_inv U (sg, qs) a w l1 l2 m -> slice_count (get (entries sg) a) = w -> 0 < k -> k < w ->
  let st' := slice_split (sg, qs) a k in
  raw_inv U st' a k l1 ((a + k, w - k) :: l2) m /\ slice_count (get (entries (fst st')) a) = k /\
  used (fst st') = used sg.
Proof.
  intros H Hcnt Hk0 Hkw. cbv zeta. unfold slice_split. cbn [fst]. rewrite Hcnt.
  assert (E : (w <=? k) = false) by (apply N.leb_gt; assumption). rewrite E.
  destruct (raw_shrink_right U sg qs a w l1 l2 m k H Hk0 Hkw) as (Hraw & Hfr & Hget).
  cbv zeta in Hraw, Hfr, Hget.
  assert (Hu : used (fst (span_free (sg, qs) (a + k) (w - k))) = used sg) by (rewrite span_free_unfold; reflexivity).
  destruct (span_free (sg, qs) (a + k) (w - k)) as [sg1 qs1]. cbn [fst snd] in *.
  assert (Hlen : a < len (entries sg1)).
  { destruct Hraw as (_ & _ & _ & _ & _ & Haw & _ & _ & _ & _ & _ & Hl & _). cbn [fst snd] in *. lia. }
  assert (Hk32 : wrap32 k = k).
  { apply wrap32_small. destruct Hraw as (_ & _ & _ & _ & _ & Haw & _ & _ & _ & _ & _ & _ & Hn & _).
    cbn [fst snd] in *. unfold MI_SLICES_PER_SEGMENT in Hn. lia. }
  rewrite Hk32.
  split; [|split].
  - apply (raw_inv_frame U sg1 qs1).
    + assumption.
    + apply frame_set_entries. apply set_count_length.
    + intros j Hj. cbn [entries set_entries]. apply get_set_count_other. lia.
  - cbn [fst entries set_entries]. rewrite get_set_count_same by assumption. reflexivity.
  - cbn [fst used set_entries]. assumption.
Qed.

(* ------------------------------------------------------------------------------------- *)
(* mi_segment_span_free_coalesce                                                           *)
(* ------------------------------------------------------------------------------------- *)

Definition fc_next (st : state) (idx : N) : state * N :=
  let sg := fst st in let es := entries sg in
  let count := slice_count (get es idx) in
  let next := idx + count in
  if (next <? slice_entries sg) && (bsz (get es next) =? 0)
  then ((if negb (owned sg) then st else span_remove_from_queue st next), count + slice_count (get es next))
  else (st, count).

Definition fc_prev (ab : bool) (st1 : state) (count1 idx : N) : state * N * N :=
  let es1 := entries (fst st1) in
  if 0 <? idx then
    let prev := slice_first (idx - 1) (slice_offset (get es1 (idx - 1))) in
    if bsz (get es1 prev) =? 0 then
      let c2 := count1 + slice_count (get es1 prev) in
      let es2 := set es1 idx (mkSlice 0 (wrap32 ((idx - prev) * sizeof_mi_slice_t)) (bsz (get es1 idx))) in
      let st' := (set_entries (fst st1) es2, snd st1) in
      ((if ab then st' else span_remove_from_queue st' prev), c2, prev)
    else (st1, count1, idx)
  else (st1, count1, idx).

Lemma span_free_coalesce_normal sg qs idx :
  kind sg = SegNormal ->
  span_free_coalesce (sg, qs) idx =
  (let '(st1, count1) := fc_next (sg, qs) idx in
   let '(st2, count2, idx2) := fc_prev (negb (owned sg)) st1 count1 idx in
   (span_free st2 idx2 count2, idx2)).
Proof. intros Hk. unfold span_free_coalesce, fc_next, fc_prev. rewrite Hk. cbn [fst snd]. reflexivity. Qed.

Lemma frame_seg_set_entries2 sg sg1 es : frame_seg sg sg1 -> len es = len (entries sg1) -> frame_seg sg (set_entries sg1 es).
Proof. intros (F1 & F2 & F3 & F4 & F5) H. repeat split; cbn; congruence. Qed.

Lemma owned_if (A : Type) (b : bool) (x y : A) : (if negb b then x else y) = (if b then y else x).
Proof. destruct b; reflexivity. Qed.

Theorem span_free_coalesce_raw U sg qs a w l1 l2 m :
  raw_inv U (sg, qs) a w l1 l2 m -> slice_count (get (entries sg) a) = w ->
  exists l1' l2' a' w',
    let st' := fst (span_free_coalesce (sg, qs) a) in
    snd (span_free_coalesce (sg, qs) a) = a' /\
    span_Inv_with U st' (l1' ++ (a', w') :: l2') m /\ used (fst st') = used sg /\
    a' <= a /\ a + w <= a' + w' /\
    (* which neighbours were merged *)
    ((l2' = l2 /\ a' + w' = a + w /\ (a + w < slice_entries sg -> 0 < bsz (get (entries sg) (a + w)))) \/
     (exists c2, l2 = (a + w, c2) :: l2' /\ a' + w' = a + w + c2 /\ bsz (get (entries sg) (a + w)) = 0)) /\
    ((l1' = l1 /\ a' = a /\ (forall j cj r, l1 = r ++ [(j, cj)] -> 0 < bsz (get (entries sg) j))) \/
     (exists cj, l1 = l1' ++ [(a', cj)] /\ a' + cj = a /\ bsz (get (entries sg) a') = 0)) /\
    (* frame: entries outside the merged region are untouched *)
    (forall j, j < a' \/ a' + w' <= j -> get (entries (fst st')) j = get (entries sg) j) /\
    bsz (get (entries (fst st')) a') = 0 /\ frame_seg sg (fst st').
Proof.
  intros H Hcnt.
  pose proof H as (Hk & _). cbn [fst] in Hk.
  rewrite (span_free_coalesce_normal sg qs a Hk).
  (* ---- next ---- *)
  assert (Hnext : exists st1 count1 l2',
             fc_next (sg, qs) a = (st1, count1) /\ raw_inv U st1 a count1 l1 l2' m /\ w <= count1 /\
             frame_seg sg (fst st1) /\ used (fst st1) = used sg /\
             (forall j, j < a + w \/ a + count1 <= j -> get (entries (fst st1)) j = get (entries sg) j) /\
             bsz (get (entries (fst st1)) a) = bsz (get (entries sg) a) /\
             ((l2' = l2 /\ count1 = w /\ (a + w < slice_entries sg -> 0 < bsz (get (entries sg) (a + w)))) \/
              (exists c2, l2 = (a + w, c2) :: l2' /\ count1 = w + c2 /\ bsz (get (entries sg) (a + w)) = 0))).
  { unfold fc_next. cbn [fst snd]. rewrite Hcnt.
    destruct ((a + w <? slice_entries sg) && (bsz (get (entries sg) (a + w)) =? 0)) eqn:E.
    - apply andb_prop in E as [E1 E2]. apply N.ltb_lt in E1. apply N.eqb_eq in E2.
      pose proof H as H'. apply raw_inv_flat in H' as (T1 & Hw & T2 & Hm & Haw & _ & _ & Hflat).
      destruct (tiles_head _ _ _ T2) as (c2 & l2' & -> & Hc2 & T2'); [lia|].
      assert (Hc2' : slice_count (get (entries sg) (a + w)) = c2).
      { destruct Hflat as (_ & Hf & _). apply Forall_app_inv in Hf as [_ Hx]. destruct Hx as (_ & Hx & _). exact Hx. }
      pose proof (raw_absorb_right U sg qs a w l1 c2 l2' m H E2) as Hr.
      rewrite owned_if. unfold span_remove_from_queue. cbn [fst]. rewrite Hc2'.
      eexists _, _, l2'. split; [reflexivity|]. split; [exact Hr|]. split; [lia|].
      unfold span_queue_delete.
      destruct (owned sg); cbn [fst snd].
      + split; [apply frame_set_entries; apply set_bsz_length|]. split; [reflexivity|].
        split; [intros j Hj; cbn; apply get_set_bsz_other; lia|].
        split; [cbn; apply f_equal; apply get_set_bsz_other; lia|].
        right. exists c2. auto.
      + split; [apply frame_seg_refl|]. split; [reflexivity|]. split; [reflexivity|]. split; [reflexivity|].
        right. exists c2. auto.
    - exists (sg, qs), w, l2. split; [reflexivity|]. split; [assumption|]. split; [lia|].
      split; [apply frame_seg_refl|]. split; [reflexivity|]. split; [reflexivity|]. split; [reflexivity|].
      left. split; [reflexivity|]. split; [reflexivity|]. intros Hlt.
      apply andb_false_iff in E as [E|E]; [apply N.ltb_ge in E; lia|apply N.eqb_neq in E; lia]. }
  destruct Hnext as (st1 & count1 & l2' & E1 & Hraw1 & Hwc & Hfr1 & Hu1 & Hget1 & Hba & Hcase2).
  rewrite E1. clear E1. destruct st1 as [sg1 qs1]. cbn [fst snd] in *.
  (* ---- prev ---- *)
  pose proof (raw_a_pos _ _ _ _ _ _ _ Hraw1) as Ha0.
  pose proof Hraw1 as H1'. apply raw_inv_flat in H1' as (T1 & Hw1 & T2' & Hm & Haw1 & (r & Hr) & Hb0 & Hflat1).
  destruct (tiles_last _ _ _ T1 Ha0) as (l1' & j & cj & El1 & T1' & Hjcj & Hcj).
  assert (Hown : owned sg1 = owned sg) by (destruct Hfr1 as (_ & F2 & _); assumption).
  assert (Hprev : slice_first (a - 1) (slice_offset (get (entries sg1) (a - 1))) = j).
  { destruct Hflat1 as (Hk1 & Hf & Hok & _).
    assert (Hin : In (j, cj) (l1 ++ l2')) by (rewrite El1; apply in_or_app; left; apply in_or_app; right; left; reflexivity).
    rewrite Forall_forall in Hf, Hok.
    replace (a - 1) with (j + cj - 1) by lia.
    apply (prev_lookup sg1 qs1 j cj Hk1 (Hf _ Hin) (Hok _ Hin) Hcj). }
  assert (Hj_es : get (entries sg1) j = get (entries sg) j) by (apply Hget1; lia).
  unfold fc_prev. cbn [fst snd].
  assert (Ea : (0 <? a) = true) by (apply N.ltb_lt; assumption). rewrite Ea. rewrite Hprev.
  destruct (bsz (get (entries sg1) j) =? 0) eqn:Ej.
  - (* merge with the previous span *)
    apply N.eqb_eq in Ej.
    set (es2 := set (entries sg1) a (mkSlice 0 (wrap32 ((a - j) * sizeof_mi_slice_t)) (bsz (get (entries sg1) a)))).
    assert (Hraw2 : raw_inv U (set_entries sg1 es2, qs1) a count1 (l1' ++ [(j, cj)]) l2' m).
    { rewrite <- El1. apply (raw_inv_frame U sg1 qs1); [assumption| |].
      - apply frame_set_entries. apply set_length.
      - intros x Hx. cbn. apply get_set_other. lia. }
    assert (Hj2 : get es2 j = get (entries sg1) j) by (apply get_set_other; lia).
    assert (Hbj2 : bsz (get (entries (set_entries sg1 es2)) j) = 0) by (cbn [entries set_entries]; rewrite Hj2; assumption).
    destruct (raw_absorb_left U (set_entries sg1 es2) qs1 a count1 l1' j cj l2' m Hraw2 Hbj2) as (_ & Hraw3).
    assert (Hcj' : slice_count (get (entries sg1) j) = cj).
    { destruct Hflat1 as (_ & Hf & _). rewrite El1 in Hf. rewrite <- app_assoc in Hf. cbn [app] in Hf.
      apply Forall_app_inv in Hf as [_ Hx]. destruct Hx as (_ & Hx & _). exact Hx. }
    rewrite owned_if. unfold span_remove_from_queue. cbn [fst entries set_entries]. rewrite Hj2, Hcj'.
    change (owned (set_entries sg1 es2)) with (owned sg1) in Hraw3. rewrite <- Hown.
    assert (Hst2 : let st2 := (if owned sg1 then span_queue_delete (set_entries sg1 es2, qs1) (slice_bin cj) j else (set_entries sg1 es2, qs1)) in
                   frame_seg sg (fst st2) /\ used (fst st2) = used sg /\
                   (forall x, x < j \/ a + count1 <= x -> get (entries (fst st2)) x = get (entries sg) x)).
    { assert (Hfr_e : frame_seg sg (set_entries sg1 es2)).
      { apply frame_seg_set_entries2; [assumption|]. apply set_length. }
      cbv zeta. unfold span_queue_delete. destruct (owned sg1); cbn [fst snd].
      - split; [|split].
        + apply (frame_seg_set_entries2 sg (set_entries sg1 es2)); [assumption|]. apply set_bsz_length.
        + cbn [used set_entries]. assumption.
        + intros x Hx. cbn [entries set_entries]. rewrite get_set_bsz_other by lia. unfold es2. rewrite get_set_other by lia. apply Hget1. lia.
      - split; [|split].
        + assumption.
        + cbn [used set_entries]. assumption.
        + intros x Hx. cbn [entries set_entries]. unfold es2. rewrite get_set_other by lia. apply Hget1. lia. }
    match goal with |- context [span_free ?X j _] => set (st2 := X) end.
    change (raw_inv U st2 j (cj + count1) l1' l2' m) in Hraw3.
    change (frame_seg sg (fst st2) /\ used (fst st2) = used sg /\
            (forall x, x < j \/ a + count1 <= x -> get (entries (fst st2)) x = get (entries sg) x)) in Hst2.
    clearbody st2. destruct st2 as [sg2 qs2]. cbn [fst snd] in *. destruct Hst2 as (Hfr2 & Hu2 & Hget2).
    pose proof (raw_fill_free U sg2 qs2 j (cj + count1) l1' l2' m Hraw3) as Hfin.
    replace (count1 + cj) with (cj + count1) by lia.
    exists l1', l2', j, (cj + count1). cbv zeta. cbn [fst snd].
    split; [reflexivity|]. split; [exact Hfin|].
    assert (Hfree : used (fst (span_free (sg2, qs2) j (cj + count1))) = used sg /\
                    (forall x, x < j \/ j + (cj + count1) <= x -> get (entries (fst (span_free (sg2, qs2) j (cj + count1)))) x = get (entries sg) x) /\
                    bsz (get (entries (fst (span_free (sg2, qs2) j (cj + count1)))) j) = 0 /\
                    frame_seg sg (fst (span_free (sg2, qs2) j (cj + count1)))).
    { rewrite span_free_unfold. cbn [fst entries set_entries used].
      destruct Hraw3 as (_ & _ & Hw3 & _ & _ & Haw3 & _ & _ & _ & _ & _ & Hl3 & Hn3 & _). cbn [fst snd] in *.
      destruct (sf_entries_spec sg2 j (cj + count1) Hw3 Haw3 Hn3 Hl3) as (S1 & S2 & S3 & S4).
      split; [assumption|]. split; [|split; [rewrite S2; reflexivity|apply frame_seg_set_entries2; assumption]].
      intros x Hx. rewrite S4 by lia. apply Hget2. lia. }
    destruct Hfree as (Hf1 & Hf2 & Hf3 & Hf4).
    split; [assumption|]. split; [lia|]. split; [lia|].
    split.
    { destruct Hcase2 as [(-> & -> & Hb)|(c2 & -> & -> & Hb)].
      - left. split; [reflexivity|]. split; [lia|assumption].
      - right. exists c2. split; [reflexivity|]. split; [lia|assumption]. }
    split.
    { right. exists cj. split; [assumption|]. split; [assumption|]. rewrite <- Hj_es. assumption. }
    split; [assumption|]. split; assumption.
  - (* no merge with the previous span *)
    apply N.eqb_neq in Ej.
    pose proof (raw_fill_free U sg1 qs1 a count1 l1 l2' m Hraw1) as Hfin.
    exists l1, l2', a, count1. cbv zeta. cbn [fst snd].
    split; [reflexivity|]. split; [exact Hfin|].
    assert (Hfree : used (fst (span_free (sg1, qs1) a count1)) = used sg /\
                    (forall x, x < a \/ a + count1 <= x -> get (entries (fst (span_free (sg1, qs1) a count1))) x = get (entries sg) x) /\
                    bsz (get (entries (fst (span_free (sg1, qs1) a count1))) a) = 0 /\
                    frame_seg sg (fst (span_free (sg1, qs1) a count1))).
    { rewrite span_free_unfold. cbn [fst entries set_entries used].
      destruct Hraw1 as (_ & _ & Hw3 & _ & _ & Haw3 & _ & _ & _ & _ & _ & Hl3 & Hn3 & _). cbn [fst snd] in *.
      destruct (sf_entries_spec sg1 a count1 Hw3 Haw3 Hn3 Hl3) as (S1 & S2 & S3 & S4).
      split; [assumption|]. split; [|split; [rewrite S2; reflexivity|apply frame_seg_set_entries2; assumption]].
      intros x Hx. rewrite S4 by lia. apply Hget1. lia. }
    destruct Hfree as (Hf1 & Hf2 & Hf3 & Hf4).
    split; [assumption|]. split; [lia|]. split; [lia|].
    split.
    { destruct Hcase2 as [(-> & -> & Hb)|(c2 & -> & -> & Hb)].
      - left. split; [reflexivity|]. split; [lia|assumption].
      - right. exists c2. split; [reflexivity|]. split; [lia|assumption]. }
    split.
    { left. split; [reflexivity|]. split; [reflexivity|].
      intros j' cj' r' Er'. rewrite El1 in Er'. apply app_inj_tail in Er' as [_ Ex]. inversion Ex; subst.
      rewrite <- Hj_es. lia. }
    split; [assumption|]. split; assumption.
Qed.

(* ------------------------------------------------------------------------------------- *)
(* the search of mi_segments_page_find_and_allocate                                        *)
(* ------------------------------------------------------------------------------------- *)

Lemma find_in_queue_spec es count suit q i : find_in_queue es count suit q = Some i ->
  In i q /\ count <= slice_count (get es i) /\ suit i = true.
Proof.
  induction q as [|x r IH]; cbn [find_in_queue]; [discriminate|].
  destruct ((count <=? slice_count (get es x)) && suit x) eqn:E.
  - intros H. inversion H; subst. apply andb_prop in E as [E1 E2]. apply N.leb_le in E1.
    split; [left; reflexivity|]. split; assumption.
  - intros H. destruct (IH H) as (H1 & H2 & H3). split; [right; assumption|]. split; assumption.
Qed.

Lemma find_bins_spec es count suit l : forall b0 b i, find_bins es count suit l b0 = Some (b, i) ->
  exists k, b = b0 + N.of_nat k /\ In i (nth k l []) /\ count <= slice_count (get es i) /\ suit i = true.
Proof.
  induction l as [|q r IH]; intros b0 b i; cbn [find_bins]; [discriminate|].
  destruct (find_in_queue es count suit q) as [x|] eqn:E.
  - intros H. inversion H; subst. destruct (find_in_queue_spec _ _ _ _ _ E) as (H1 & H2 & H3).
    exists 0%nat. cbn. split; [lia|]. split; [assumption|]. split; assumption.
  - intros H. destruct (IH _ _ _ H) as (k & H1 & H2 & H3 & H4). exists (S k). cbn [nth].
    split; [lia|]. split; [assumption|]. split; assumption.
Qed.

Lemma nth_skipn_add {A} (l : list A) d : forall s k, nth k (skipn s l) d = nth (s + k) l d.
Proof.
  induction l as [|x r IH]; intros s k.
  - rewrite skipn_nil. destruct k; destruct (s + _)%nat; reflexivity.
  - destruct s as [|s]; [reflexivity|]. cbn [skipn]. rewrite IH. reflexivity.
Qed.

Lemma In_nth_firstn {A} (x : A) (l : list (list A)) : forall t k, In x (nth k (firstn t l) []) -> In x (nth k l []).
Proof.
  induction l as [|q r IH]; intros t k H.
  - rewrite firstn_nil in H. destruct k; destruct H.
  - destruct t as [|t]; [cbn in H; destruct k; destruct H|].
    cbn [firstn] in H. destruct k as [|k]; [exact H|]. cbn [nth] in *. apply (IH t k H).
Qed.

Lemma find_span_spec sg qs count suit b i : find_span (sg, qs) count suit = Some (b, i) ->
  In i (q_get qs b) /\ (if count =? 0 then 1 else count) <= slice_count (get (entries sg) i) /\ suit i = true.
Proof.
  unfold find_span. intros H. apply find_bins_spec in H as (k & -> & H1 & H2 & H3).
  split; [|split; assumption].
  rewrite nth_skipn_add in H1. apply In_nth_firstn in H1. unfold q_get.
  replace (N.to_nat (slice_bin count + N.of_nat k)) with (N.to_nat (slice_bin count) + k)%nat by lia. exact H1.
Qed.

(* ------------------------------------------------------------------------------------- *)
(* mi_segments_page_find_and_allocate                                                      *)
(* ------------------------------------------------------------------------------------- *)

(* the spans after allocating `k` slices at the front of the free span (idx, c) *)
Definition split_tail (l2 : list (N * N)) (idx c k : N) : list (N * N) :=
  if k <? c then (idx + k, c - k) :: l2 else l2.
Definition alloc_spans (l1 l2 : list (N * N)) (idx c k : N) : list (N * N) :=
  l1 ++ (idx, k) :: split_tail l2 idx c k.

(* the first half of mi_segments_page_find_and_allocate: search, mi_span_queue_delete, split *)
Lemma find_prepare sg qs count suit sps m b idx :
  span_Inv_with (used sg) (sg, qs) sps m -> find_span (sg, qs) count suit = Some (b, idx) ->
  let k := if count =? 0 then 1 else count in
  exists l1 l2 c sg2 qs2,
    sps = l1 ++ (idx, c) :: l2 /\ bsz (get (entries sg) idx) = 0 /\ k <= c /\ suit idx = true /\
    kind sg = SegNormal /\ In idx (q_get qs b) /\ b = slice_bin c /\
    (forall commit_ok, page_find_and_allocate (sg, qs) count suit commit_ok =
       match span_allocate (sg2, qs2) idx k commit_ok with
       | Some st3 => (Some idx, st3)
       | None => (None, fst (span_free_coalesce (sg2, qs2) idx))
       end) /\
    raw_inv (used sg) (sg2, qs2) idx k l1 (split_tail l2 idx c k) m /\
    slice_count (get (entries sg2) idx) = k /\ used sg2 = used sg /\
    (forall j, j < idx \/ idx + c <= j -> get (entries sg2) j = get (entries sg) j) /\
    (k < c -> bsz (get (entries sg2) (idx + k)) = 0) /\ frame_seg sg sg2.
Proof.
  intros Hinv Ef k.
  destruct (find_span_spec _ _ _ _ _ _ Ef) as (Hq & Hle & Hsuit). fold k in Hle.
  pose proof Hinv as (Ht & Hm & Hf & Hok & _ & _ & _ & _ & Hl & Hn & (Q1 & Q2 & Q3 & Q4)). cbn [fst snd] in *.
  destruct (Q3 b idx Hq) as (Hb0 & Hin & Hbin).
  set (c := slice_count (get (entries sg) idx)) in *.
  assert (Hqd : queued sg = true).
  { destruct (queued sg) eqn:E; [reflexivity|]. rewrite (Q4 eq_refl b) in Hq. destruct Hq. }
  assert (Hk : kind sg = SegNormal /\ owned sg = true).
  { unfold queued in Hqd. destruct (kind sg); [split; [reflexivity|assumption]|discriminate]. }
  destruct Hk as (Hk & Hown).
  destruct (raw_open_free (used sg) sg qs sps m idx c Hinv Hk Hin Hb0) as (l1 & l2 & Esps & Hraw).
  rewrite Hown in Hraw. rewrite Hbin in Hraw.
  (* the state after mi_span_queue_delete *)
  assert (H1 : exists sg1 qs1, span_queue_delete (sg, qs) b idx = (sg1, qs1) /\ used sg1 = used sg /\
               slice_count (get (entries sg1) idx) = c /\
               (forall j, j <> idx -> get (entries sg1) j = get (entries sg) j) /\ frame_seg sg sg1).
  { unfold span_queue_delete. eexists _, _. split; [reflexivity|]. split; [reflexivity|].
    assert (Hidx : idx < len (entries sg)).
    { rewrite Forall_forall in Hf. destruct (Hf _ Hin) as (Hx & _). cbn in Hx. lia. }
    split; [cbn [entries set_entries]; rewrite get_set_bsz_same by assumption; reflexivity|].
    split; [|apply frame_set_entries; apply set_bsz_length].
    intros j Hj. cbn [entries set_entries]. apply get_set_bsz_other. assumption. }
  destruct H1 as (sg1 & qs1 & E1 & Hu1 & Hc1 & Hget1 & Hfr1). rewrite E1 in Hraw.
  assert (Hk0 : 0 < k) by (unfold k; destruct (count =? 0) eqn:E0; [lia|apply N.eqb_neq in E0; lia]).
  (* the state after the optional split *)
  assert (H2 : exists sg2 qs2, (if k <? c then slice_split (sg1, qs1) idx k else (sg1, qs1)) = (sg2, qs2) /\
               raw_inv (used sg) (sg2, qs2) idx k l1 (split_tail l2 idx c k) m /\
               slice_count (get (entries sg2) idx) = k /\ used sg2 = used sg /\
               (forall j, j < idx \/ idx + c <= j -> get (entries sg2) j = get (entries sg) j) /\
               (k < c -> bsz (get (entries sg2) (idx + k)) = 0) /\ frame_seg sg sg2).
  { unfold split_tail. destruct (k <? c) eqn:Ekc.
    - apply N.ltb_lt in Ekc.
      destruct (slice_split_raw (used sg) sg1 qs1 idx c l1 l2 m k Hraw Hc1 Hk0 Ekc) as (R1 & R2 & R3).
      cbv zeta in R1, R2, R3.
      assert (Hsp : (forall j, j < idx \/ idx + c <= j -> get (entries (fst (slice_split (sg1, qs1) idx k))) j = get (entries sg) j) /\
                    bsz (get (entries (fst (slice_split (sg1, qs1) idx k))) (idx + k)) = 0 /\
                    frame_seg sg (fst (slice_split (sg1, qs1) idx k))).
      { unfold slice_split. cbn [fst]. rewrite Hc1.
        assert (E : (c <=? k) = false) by (apply N.leb_gt; assumption). rewrite E.
        rewrite span_free_unfold. cbn [fst snd entries set_entries].
        destruct Hraw as (_ & _ & _ & _ & _ & Haw1 & _ & _ & _ & _ & _ & Hl1 & Hn1 & _). cbn [fst snd] in *.
        assert (Hwk : 0 < c - k) by lia. assert (Hle' : idx + k + (c - k) <= slice_entries sg1) by lia.
        destruct (sf_entries_spec sg1 (idx + k) (c - k) Hwk Hle' Hn1 Hl1) as (S1 & S2 & _ & S4).
        split; [|split].
        - intros j Hj. rewrite get_set_count_other by lia. rewrite S4 by lia. apply Hget1. lia.
        - rewrite get_set_count_other by lia. rewrite S2. reflexivity.
        - apply (frame_seg_set_entries2 sg (set_entries sg1 (sf_entries sg1 (idx + k) (c - k)))).
          + apply frame_seg_set_entries2; assumption.
          + apply set_count_length. }
      destruct Hsp as (Hsp1 & Hsp2 & Hsp3).
      destruct (slice_split (sg1, qs1) idx k) as [sg2 qs2]. cbn [fst snd] in *.
      exists sg2, qs2. split; [reflexivity|]. split; [assumption|]. split; [assumption|]. split; [congruence|].
      split; [assumption|]. split; [intros _; assumption|assumption].
    - apply N.ltb_ge in Ekc. assert (c = k) by lia.
      exists sg1, qs1. split; [reflexivity|]. split; [rewrite <- H; assumption|]. split; [congruence|]. split; [assumption|].
      split; [intros j Hj; apply Hget1; lia|]. split; [intros; lia|assumption]. }
  destruct H2 as (sg2 & qs2 & E2 & Hraw2 & Hc2 & Hu2 & Hget2 & Hbz2 & Hfr2).
  exists l1, l2, c, sg2, qs2.
  split; [assumption|]. split; [assumption|]. split; [assumption|]. split; [assumption|].
  split; [assumption|]. split; [assumption|]. split; [symmetry; assumption|].
  split.
  { intros commit_ok. unfold page_find_and_allocate. rewrite Ef. fold k. rewrite E1. cbn [fst snd]. rewrite Hc1.
    rewrite E2. cbn [fst snd]. rewrite Hc2. reflexivity. }
  split; [assumption|]. split; [assumption|]. split; [assumption|]. split; [assumption|]. split; assumption.
Qed.

(* commit succeeds: the page (idx, k) is in use, the rest of the span is a free span again *)
Theorem find_and_allocate_ok sg qs count suit sps m b idx :
  span_Inv_with (used sg) (sg, qs) sps m -> find_span (sg, qs) count suit = Some (b, idx) ->
  let k := if count =? 0 then 1 else count in
  exists l1 l2 c st',
    sps = l1 ++ (idx, c) :: l2 /\ bsz (get (entries sg) idx) = 0 /\ k <= c /\ suit idx = true /\
    page_find_and_allocate (sg, qs) count suit true = (Some idx, st') /\
    span_Inv_with (used (fst st')) st' (alloc_spans l1 l2 idx c k) m /\
    used (fst st') = used sg + 1 /\ 0 < bsz (get (entries (fst st')) idx) /\
    (k < c -> bsz (get (entries (fst st')) (idx + k)) = 0) /\
    (forall j, j < idx \/ idx + c <= j -> get (entries (fst st')) j = get (entries sg) j).
Proof.
  intros Hinv Ef k.
  destruct (find_prepare sg qs count suit sps m b idx Hinv Ef)
    as (l1 & l2 & c & sg2 & qs2 & Es & Hb0 & Hkc & Hsuit & Hk & Hq & Hb & Hpf & Hraw2 & Hc2 & Hu2 & Hget2 & Hbz2 & Hfr2).
  fold k in Hkc, Hpf, Hraw2, Hc2, Hget2, Hbz2.
  rewrite <- Hu2 in Hraw2.
  destruct (span_allocate_inv sg2 qs2 idx k l1 _ m Hraw2) as (st' & Ea & Hinv' & Hu').
  exists l1, l2, c, st'. split; [assumption|]. split; [assumption|]. split; [assumption|]. split; [assumption|].
  split; [rewrite Hpf, Ea; reflexivity|]. split; [exact Hinv'|]. split; [lia|].
  rewrite span_allocate_unfold in Ea. inversion Ea; subst st'. cbn [fst entries set_entries set_used].
  destruct Hraw2 as (_ & _ & Hw2 & _ & _ & Haw2 & _ & _ & _ & _ & _ & Hl2 & Hn2 & _). cbn [fst snd] in *.
  assert (Hidx2 : idx < slice_entries sg2) by lia.
  destruct (sa_entries_spec sg2 idx k Hw2 Hidx2 Hn2 Hl2) as (_ & S2 & _ & _ & S5).
  destruct (sa_normal (slice_entries sg2) idx k Hw2 Haw2) as (EE & EL). rewrite EE, EL in S5.
  split.
  { rewrite S2. cbn [bsz]. rewrite wmul_small; unfold MI_SEGMENT_SLICE_SIZE, MI_SLICES_PER_SEGMENT in *; [lia|rewrite W64_val; lia]. }
  split.
  { intros Hkc'. rewrite S5 by lia. apply Hbz2. assumption. }
  intros j Hj. rewrite S5 by lia. apply Hget2. assumption.
Qed.

(* commit fails: the span is freed and coalesced again; the segment is valid, `used` is unchanged *)
Theorem find_and_allocate_fail sg qs count suit sps m b idx :
  span_Inv_with (used sg) (sg, qs) sps m -> find_span (sg, qs) count suit = Some (b, idx) ->
  exists st' sps', page_find_and_allocate (sg, qs) count suit false = (None, st') /\
    span_Inv_with (used (fst st')) st' sps' m /\ used (fst st') = used sg.
Proof.
  intros Hinv Ef.
  destruct (find_prepare sg qs count suit sps m b idx Hinv Ef)
    as (l1 & l2 & c & sg2 & qs2 & Es & Hb0 & Hkc & Hsuit & Hk & Hq & Hb & Hpf & Hraw2 & Hc2 & Hu2 & Hget2 & Hbz2 & Hfr2).
  destruct (span_free_coalesce_raw (used sg) sg2 qs2 idx _ l1 _ m Hraw2 Hc2)
    as (l1' & l2' & a' & w' & Hres). cbv zeta in Hres.
  destruct Hres as (R0 & R1 & R2 & _).
  exists (fst (span_free_coalesce (sg2, qs2) idx)), (l1' ++ (a', w') :: l2').
  split; [rewrite Hpf; reflexivity|]. rewrite R2, Hu2. split; [assumption|reflexivity].
Qed.

(* ------------------------------------------------------------------------------------- *)
(* transfer of the per-span clauses, any segment kind                                      *)
(* ------------------------------------------------------------------------------------- *)

Lemma used_ok_ext sg sg' i c :
  frame_seg sg sg' -> 0 < c -> i < slice_entries sg ->
  (forall j, j <> i -> (i <= j /\ j < i + c) \/ j = slice_entries sg -> get (entries sg') j = get (entries sg) j) ->
  used_ok sg i c -> used_ok sg' i c.
Proof.
  intros (F1 & F2 & F3 & F4 & F5) Hc Hi Hget (U1 & U2 & U3). unfold used_ok. rewrite F1, F3. cbv zeta.
  split; [|split].
  - intros k Hk1 Hk2 Hk3. rewrite Hget by lia. apply U1; assumption.
  - intros Hlt. rewrite Hget by lia. apply U2. assumption.
  - intros Hh Hn Hi'. rewrite Hget by lia. apply U3; assumption.
Qed.

Lemma free_ok_ext sg qs sg' qs' i c :
  frame_seg sg sg' -> 0 < c -> i < slice_entries sg ->
  (forall j, i <= j -> j < i + c -> get (entries sg') j = get (entries sg) j) ->
  (queued sg = true -> In i (q_get qs (slice_bin c)) -> In i (q_get qs' (slice_bin c))) ->
  free_ok sg qs i c -> free_ok sg' qs' i c.
Proof.
  intros Hfr Hc Hi Hget Hq (V1 & V2 & V3 & V4).
  pose proof (frame_seg_queued _ _ Hfr) as Hqd. destruct Hfr as (F1 & F2 & F3 & F4 & F5).
  unfold free_ok. rewrite F1, F3, F4, Hqd. cbv zeta. cbv zeta in V1, V2, V3.
  rewrite Hget by lia.
  split; [assumption|]. split; [assumption|]. split; [assumption|].
  intros Hq'. apply Hq; [assumption|]. apply V4. assumption.
Qed.

Lemma span_ok_transfer_gen sg qs sg' qs' i c :
  frame_seg sg sg' -> 0 < c -> i < slice_entries sg ->
  (forall j, (i <= j /\ j < i + c) \/ j = slice_entries sg -> get (entries sg') j = get (entries sg) j) ->
  (queued sg = true -> In i (q_get qs (slice_bin c)) -> In i (q_get qs' (slice_bin c))) ->
  span_ok sg qs (i, c) -> span_ok sg' qs' (i, c).
Proof.
  intros Hfr Hc Hi Hget Hq (H1 & H2 & H3 & H4). cbn [fst snd] in *.
  pose proof Hfr as (F1 & F2 & F3 & F4 & F5).
  unfold span_ok. cbn [fst snd]. rewrite F1, F3. rewrite (Hget i) by lia.
  split; [assumption|]. split; [assumption|]. split.
  - intros Hb. apply (used_ok_ext sg); auto.
  - intros Hb. apply (free_ok_ext sg qs); auto.
Qed.

Lemma count_used_ext_pos es es' l :
  (forall i c, In (i, c) l -> (0 <? bsz (get es' i)) = (0 <? bsz (get es i))) -> count_used es' l = count_used es l.
Proof.
  intros H. unfold count_used. f_equal. f_equal. apply filter_ext_in. intros [i c] Hin. cbn [fst].
  apply (H i c Hin).
Qed.

(* two different spans of a valid segment do not share a first-entry / interior index *)
Lemma inv_spans_apart U st sps m i c j cj :
  span_Inv_with U st sps m -> In (i, c) sps -> In (j, cj) sps -> j <> i ->
  ~ (j <= i /\ i < j + cj).
Proof.
  intros (Ht & _) H1 H2 Hne.
  destruct (tiles_disjoint _ _ _ _ _ _ _ Ht H1 H2) as [[E _]|[E|E]]; [congruence| |];
  destruct (tiles_In _ _ _ _ _ Ht H1) as (_ & _ & Hc); destruct (tiles_In _ _ _ _ _ Ht H2) as (_ & _ & Hcj); lia.
Qed.

(* ------------------------------------------------------------------------------------- *)
(* mi_page_init / huge page: storing the block size of a page in use                       *)
(* ------------------------------------------------------------------------------------- *)

Theorem set_block_size_inv U sg qs sps m i c bs :
  span_Inv_with U (sg, qs) sps m -> In (i, c) sps -> 0 < bsz (get (entries sg) i) -> 0 < bs ->
  span_Inv_with U (set_block_size (sg, qs) i bs) sps m.
Proof.
  intros Hinv Hin Hbi Hbs.
  pose proof Hinv as (Ht & Hm & Hf & Hok & (r & Hr) & Hhs & Hb0 & Hu & Hl & Hn & (Q1 & Q2 & Q3 & Q4)). cbn [fst snd] in *.
  unfold set_block_size.
  set (es' := set_bsz (entries sg) i bs). set (sg' := set_entries sg es').
  assert (Hi : i < slice_entries sg).
  { rewrite Forall_forall in Hf. destruct (Hf _ Hin) as (Hx & _). exact Hx. }
  assert (Hfr : frame_seg sg sg') by (apply frame_set_entries; apply set_bsz_length).
  assert (Hgo : forall j, j <> i -> get es' j = get (entries sg) j) by (intros j Hj; apply get_set_bsz_other; assumption).
  assert (Hgi : get es' i = mkSlice (slice_count (get (entries sg) i)) (slice_offset (get (entries sg) i)) bs)
    by (apply get_set_bsz_same; lia).
  unfold span_Inv_with. cbn [fst snd]. fold sg'. change (entries sg') with es'.
  change (slice_entries sg') with (slice_entries sg). change (info_slices sg') with (info_slices sg).
  split; [assumption|]. split; [assumption|].
  split.
  { apply Forall_forall. intros [j cj] Hj. rewrite Forall_forall in Hf. specialize (Hf _ Hj).
    unfold first_ok in *. cbn [fst snd] in *. destruct (N.eq_dec j i) as [->|Hne].
    - rewrite Hgi. cbn. assumption.
    - rewrite Hgo by assumption. assumption. }
  split.
  { apply Forall_forall. intros [j cj] Hj. rewrite Forall_forall in Hok, Hf. pose proof (Hok _ Hj) as Hs.
    destruct (Hf _ Hj) as (Hjn & _). cbn [fst] in Hjn.
    destruct (tiles_In _ _ _ _ _ Ht Hj) as (_ & _ & Hcj).
    destruct (N.eq_dec j i) as [->|Hne].
    - destruct Hs as (K1 & K2 & K3 & K4). cbn [fst snd] in *.
      unfold span_ok. cbn [fst snd]. change (entries sg') with es'. change (kind sg') with (kind sg).
      change (slice_entries sg') with (slice_entries sg). rewrite Hgi. cbn [bsz].
      split; [assumption|]. split; [assumption|]. split; [|intros; lia].
      intros _. apply (used_ok_ext sg); auto.
    - apply (span_ok_transfer_gen sg qs); auto.
      intros x Hx. apply Hgo. intros ->.
      destruct Hx as [Hx|Hx]; [|lia]. apply (inv_spans_apart _ _ _ _ _ _ _ _ Hinv Hin Hj Hne). assumption. }
  split; [exists r; assumption|].
  split; [exact Hhs|].
  split. { destruct (N.eq_dec i 0) as [->|Hne]; [rewrite Hgi; cbn; assumption|rewrite Hgo by lia; assumption]. }
  split.
  { rewrite (count_used_ext_pos (entries sg)); [assumption|]. intros j cj Hj.
    destruct (N.eq_dec j i) as [->|Hne]; [|rewrite Hgo by assumption; reflexivity].
    rewrite Hgi. cbn [bsz]. apply N.ltb_lt in Hbi, Hbs. congruence. }
  split; [unfold es'; rewrite set_bsz_length; assumption|]. split; [assumption|].
  unfold queues_ok. change (entries sg') with es'. change (queued sg') with (queued sg).
  split; [assumption|]. split; [assumption|]. split; [|assumption].
  intros b j Hj. destruct (Q3 b j Hj) as (A1 & A2 & A3).
  assert (Hne : j <> i) by (intros ->; lia).
  rewrite Hgo by assumption. auto.
Qed.

(* ------------------------------------------------------------------------------------- *)
(* mi_segment_page_clear                                                                   *)
(* ------------------------------------------------------------------------------------- *)

Lemma wsub_1 u : 1 <= u -> wsub u 1 = u - 1.
Proof. intros H. apply wsub_small. assumption. Qed.

(* normal segment: the page's span is freed and coalesced with its free neighbours *)
Theorem page_clear_normal U sg qs sps m i c :
  span_Inv_with U (sg, qs) sps m -> used sg = U -> kind sg = SegNormal -> In (i, c) sps -> i <> 0 ->
  0 < bsz (get (entries sg) i) ->
  exists l1 l2 l1' l2' a' w',
    sps = l1 ++ (i, c) :: l2 /\
    let st' := fst (page_clear (sg, qs) i) in
    snd (page_clear (sg, qs) i) = a' /\
    span_Inv_with (used (fst st')) st' (l1' ++ (a', w') :: l2') m /\ used (fst st') = U - 1 /\ 1 <= U /\
    a' <= i /\ i + c <= a' + w' /\
    ((l2' = l2 /\ a' + w' = i + c /\ (i + c < slice_entries sg -> 0 < bsz (get (entries sg) (i + c)))) \/
     (exists c2, l2 = (i + c, c2) :: l2' /\ a' + w' = i + c + c2 /\ bsz (get (entries sg) (i + c)) = 0)) /\
    ((l1' = l1 /\ a' = i /\ (forall j cj r, l1 = r ++ [(j, cj)] -> 0 < bsz (get (entries sg) j))) \/
     (exists cj, l1 = l1' ++ [(a', cj)] /\ a' + cj = i /\ bsz (get (entries sg) a') = 0)) /\
    (forall j, j < a' \/ a' + w' <= j -> get (entries (fst st')) j = get (entries sg) j) /\
    bsz (get (entries (fst st')) a') = 0 /\ frame_seg sg (fst st').
Proof.
  intros Hinv HU Hk Hin Hi0 Hbi.
  destruct (raw_open_used U sg qs sps m i c Hinv Hk Hin Hi0 Hbi) as (l1 & l2 & Es & HU1 & Hraw).
  pose proof Hinv as (_ & _ & Hf & _ & _ & _ & _ & _ & Hl & _). cbn [fst snd] in *.
  assert (Hfi : i < slice_entries sg /\ slice_count (get (entries sg) i) = c).
  { rewrite Forall_forall in Hf. destruct (Hf _ Hin) as (Hx & Hy & _). split; assumption. }
  destruct Hfi as (Hi & Hci).
  assert (Hcpos : 0 < c) by (destruct Hraw as (_ & _ & Hw & _); exact Hw).
  set (sg1 := set_entries sg (set_bsz (entries sg) i 1)).
  assert (Hraw1 : raw_inv (U - 1) (sg1, qs) i c l1 l2 m).
  { apply (raw_inv_frame (U - 1) sg qs); [assumption|apply frame_set_entries; apply set_bsz_length|].
    intros j Hj. cbn [entries set_entries sg1]. apply get_set_bsz_other.
    destruct Hraw as (_ & _ & Hw & _). lia. }
  assert (Hc1 : slice_count (get (entries sg1) i) = c).
  { cbn [entries set_entries sg1]. rewrite get_set_bsz_same by lia. cbn. assumption. }
  destruct (span_free_coalesce_raw (U - 1) sg1 qs i c l1 l2 m Hraw1 Hc1) as (l1' & l2' & a' & w' & Hres).
  cbv zeta in Hres. destruct Hres as (R0 & R1 & R2 & R3 & R4 & R5 & R6 & R7 & R8 & R9).
  assert (Hg1 : forall j, j <> i -> get (entries sg1) j = get (entries sg) j).
  { intros j Hj. cbn [entries set_entries sg1]. apply get_set_bsz_other. assumption. }
  exists l1, l2, l1', l2', a', w'. split; [assumption|]. cbv zeta.
  unfold page_clear. fold sg1.
  destruct (span_free_coalesce (sg1, qs) i) as [[sg2 qs2] f]. cbn [fst snd] in *. subst f.
  change (used sg1) with (used sg) in R2.
  split; [reflexivity|].
  split. { rewrite R2, HU. rewrite wsub_1 by assumption. apply inv_with_set_used. assumption. }
  split. { rewrite R2, HU. apply wsub_1. assumption. }
  split; [assumption|]. split; [assumption|]. split; [assumption|].
  split.
  { destruct R5 as [(E1 & E2 & E3)|(c2 & E1 & E2 & E3)].
    - left. split; [assumption|]. split; [assumption|]. intros Hlt. rewrite <- Hg1 by lia. apply E3. assumption.
    - right. exists c2. split; [assumption|]. split; [assumption|]. rewrite <- Hg1 by lia. assumption. }
  split.
  { destruct R6 as [(E1 & E2 & E3)|(cj & E1 & E2 & E3)].
    - left. split; [assumption|]. split; [assumption|]. intros j cj r Er. specialize (E3 j cj r Er).
      rewrite Hg1 in E3; [assumption|].
      destruct Hraw as (_ & T1 & _). rewrite Er in T1. apply tiles_app in T1 as (k & _ & T1). cbn in T1. lia.
    - right. exists cj. split; [assumption|]. split; [assumption|]. rewrite <- Hg1; [assumption|].
      destruct Hraw as (_ & T1 & _). rewrite E1 in T1. apply tiles_app in T1 as (k & _ & T1). cbn in T1. lia. }
  split.
  { intros j Hj. rewrite R7 by assumption. apply Hg1. lia. }
  split; [assumption|].
  destruct R9 as (F1 & F2 & F3 & F4 & F5). repeat split; cbn [kind owned slice_entries info_slices entries set_used]; try assumption.
  rewrite F5. cbn [entries set_entries sg1]. apply set_bsz_length.
Qed.

(* huge segment: the page is only marked free (the segment is freed right afterwards) *)
Theorem page_clear_huge U sg qs sps m i c :
  span_Inv_with U (sg, qs) sps m -> used sg = U -> kind sg = SegHuge -> In (i, c) sps -> i <> 0 ->
  0 < bsz (get (entries sg) i) ->
  let st' := fst (page_clear (sg, qs) i) in
  span_Inv_with (used (fst st')) st' sps m /\ used (fst st') = U - 1 /\ 1 <= U /\
  (forall j, j <> i -> get (entries (fst st')) j = get (entries sg) j) /\ bsz (get (entries (fst st')) i) = 0.
Proof.
  intros Hinv HU Hk Hin Hi0 Hbi. cbv zeta.
  pose proof Hinv as (Ht & Hm & Hf & Hok & (r & Hr) & Hhs & Hb0 & Hu & Hl & Hn & (Q1 & Q2 & Q3 & Q4)). cbn [fst snd] in *.
  unfold page_clear, span_free_coalesce. cbn [kind set_entries]. rewrite Hk. cbn [fst snd entries set_entries used set_used].
  set (es' := set_bsz (set_bsz (entries sg) i 1) i 0).
  assert (Hfi : i < slice_entries sg /\ slice_count (get (entries sg) i) = c /\ slice_offset (get (entries sg) i) = 0).
  { rewrite Forall_forall in Hf. apply (Hf _ Hin). }
  destruct Hfi as (Hi & Hci & Hoi).
  assert (Hgo : forall j, j <> i -> get es' j = get (entries sg) j).
  { intros j Hj. unfold es'. rewrite !get_set_bsz_other by assumption. reflexivity. }
  assert (Hgi : get es' i = mkSlice c 0 0).
  { unfold es'. rewrite get_set_bsz_same by (rewrite set_bsz_length; lia). rewrite get_set_bsz_same by lia. cbn. congruence. }
  assert (Hlen : len es' = len (entries sg)) by (unfold es'; rewrite !set_bsz_length; reflexivity).
  destruct (tiles_split _ _ _ _ _ Ht Hin) as (l1 & l2 & Es & T1 & T2).
  destruct (tiles_In _ _ _ _ _ Ht Hin) as (_ & _ & Hc).
  assert (Hl1 : exists r1, l1 = (0, info_slices sg) :: r1).
  { destruct l1 as [|x r1]; [cbn in Es; rewrite Hr in Es; inversion Es; congruence|].
    cbn in Es. rewrite Hr in Es. inversion Es; subst. exists r1. reflexivity. }
  assert (Hinfo : info_slices sg <= i).
  { destruct Hl1 as (r1 & ->). cbn in T1. destruct T1 as (_ & _ & T1). apply tiles_le in T1. lia. }
  assert (Hii : i = info_slices sg).
  { unfold huge_shape in Hhs. rewrite Hk in Hhs. destruct Hhs as (c0 & Es0). rewrite Es0 in Hin.
    destruct Hin as [E|[E|[]]]; inversion E; [congruence|reflexivity]. }
  assert (Hcnt : count_used (entries sg) sps = count_used es' sps + 1 /\ 1 <= count_used es' sps).
  { rewrite Es. rewrite !count_used_app, !count_used_cons. rewrite Hgi. cbn [bsz].
    assert (Eb : (0 <? bsz (get (entries sg) i)) = true) by (apply N.ltb_lt; assumption). rewrite Eb.
    cbn [N.ltb N.compare].
    rewrite (count_used_ext (entries sg) es' l1), (count_used_ext (entries sg) es' l2).
    - split; [lia|]. destruct Hl1 as (r1 & ->). rewrite count_used_cons.
      assert (E0 : (0 <? bsz (get (entries sg) 0)) = true) by (apply N.ltb_lt; assumption). rewrite E0. lia.
    - intros j cj Hj. rewrite Hgo; [reflexivity|]. destruct (raw_right _ _ _ _ _ T2 Hj). lia.
    - intros j cj Hj. rewrite Hgo; [reflexivity|]. destruct (raw_left _ _ _ _ T1 Hj). lia. }
  destruct Hcnt as (Hcnt & Hcnt1).
  assert (HU1 : 1 <= U) by lia.
  set (sg' := set_used (set_entries (set_entries sg (set_bsz (entries sg) i 1)) es') (wsub (used sg) 1)).
  assert (Hfr : frame_seg sg sg') by (repeat split; assumption).
  split; [|split; [cbn [used sg' set_used]; rewrite HU; apply wsub_1; assumption|split; [assumption|split; [exact Hgo|rewrite Hgi; reflexivity]]]].
  unfold span_Inv_with. cbn [fst snd]. change (entries sg') with es'.
  change (slice_entries sg') with (slice_entries sg). change (info_slices sg') with (info_slices sg).
  split; [assumption|]. split; [assumption|].
  split.
  { apply Forall_forall. intros [j cj] Hj. rewrite Forall_forall in Hf. specialize (Hf _ Hj).
    unfold first_ok in *. cbn [fst snd] in *. destruct (N.eq_dec j i) as [->|Hne].
    - rewrite Hgi. cbn. destruct Hf as (A & B & C). split; [assumption|]. split; [congruence|reflexivity].
    - rewrite Hgo by assumption. assumption. }
  split.
  { apply Forall_forall. intros [j cj] Hj. rewrite Forall_forall in Hok, Hf. pose proof (Hok _ Hj) as Hs.
    destruct (Hf _ Hj) as (Hjn & Hjc & _). cbn [fst snd] in Hjn, Hjc.
    destruct (tiles_In _ _ _ _ _ Ht Hj) as (_ & _ & Hcj).
    destruct (N.eq_dec j i) as [->|Hne].
    - assert (Ecj : cj = c) by congruence. clear Hjc. rewrite Ecj in Hs, Hj, Hcj |- *. clear Ecj.
      destruct Hs as (K1 & K2 & K3 & _). cbn [fst snd] in *. destruct (K3 Hbi) as (U1 & U2 & U3). cbv zeta in U1, U2, U3.
      unfold span_ok. cbn [fst snd]. change (entries sg') with es'. change (kind sg') with (kind sg).
      change (slice_entries sg') with (slice_entries sg). rewrite Hgi. cbn [bsz].
      split; [assumption|]. split; [assumption|]. split; [intros; lia|].
      intros _. unfold free_ok. change (entries sg') with es'. change (kind sg') with (kind sg).
      change (slice_entries sg') with (slice_entries sg). change (info_slices sg') with (info_slices sg).
      change (queued sg') with (queued sg). cbv zeta.
      assert (Hq : queued sg = false) by (unfold queued; rewrite Hk; reflexivity).
      destruct (N.le_gt_cases (i + c) (slice_entries sg)) as [Hle|Hgt].
      + rewrite N.min_l by assumption.
        destruct (N.eq_dec c 1) as [->|Hc1].
        * replace (i + 1 - 1) with i by lia. rewrite Hgi. cbn.
          split; [intros; lia|]. split; [left; reflexivity|]. split; [left; reflexivity|]. intros; congruence.
        * rewrite Hgo by lia. rewrite N.min_l in U2 by lia. rewrite U2 by lia. cbn.
          split; [intros; lia|]. split; [right; reflexivity|]. split; [right; split; [assumption|reflexivity]|]. intros; congruence.
      + rewrite N.min_r by lia.
        split; [intros [Hx|Hx]; [congruence|lia]|].
        destruct (N.eq_dec i (slice_entries sg - 1)) as [Ei|Ei].
        * rewrite <- Ei. rewrite Hgi. cbn. split; [left; reflexivity|]. split; [left; reflexivity|]. intros; congruence.
        * rewrite Hgo by lia. destruct (U3 Hk Hgt) as (V1 & V2); [lia|].
          split; [right; assumption|]. split; [|intros; congruence].
          destruct (N.eq_dec (bsz (get (entries sg) (slice_entries sg - 1))) 0); [left; assumption|right; split; [assumption|lia]].
    - apply (span_ok_transfer_gen sg qs); auto.
      intros x Hx. apply Hgo. intros ->.
      destruct Hx as [Hx|Hx]; [|lia]. apply (inv_spans_apart _ _ _ _ _ _ _ _ Hinv Hin Hj Hne). assumption. }
  split; [exists r; assumption|].
  split; [exact Hhs|].
  split; [rewrite Hgo by lia; assumption|].
  split. { cbn [used sg' set_used]. rewrite HU. rewrite wsub_1 by assumption. lia. }
  split; [rewrite Hlen; assumption|]. split; [assumption|].
  unfold queues_ok. change (entries sg') with es'. change (queued sg') with (queued sg).
  assert (Hq : queued sg = false) by (unfold queued; rewrite Hk; reflexivity).
  split; [assumption|]. split; [assumption|]. split; [|assumption].
  intros b j Hj. rewrite (Q4 Hq b) in Hj. destruct Hj.
Qed.

(* ------------------------------------------------------------------------------------- *)
(* mi_segment_alloc: the fresh segment                                                     *)
(* ------------------------------------------------------------------------------------- *)

Definition dummy_state : state := (mkSeg SegNormal true 0 0 [] 0, []).
Definition init_normal : state :=
  match segment_init 0 0 empty_queues with Some st => st | None => dummy_state end.

Lemma segment_init_normal : segment_init 0 0 empty_queues = Some init_normal.
Proof. vm_compute. reflexivity. Qed.

Theorem span_inv_init_normal : span_Inv init_normal /\ kind (fst init_normal) = SegNormal /\
  coalesced_b (fst init_normal) = true /\ used (fst init_normal) = 0.
Proof.
  split; [apply span_inv_b_spec; vm_compute; reflexivity|].
  split; [vm_compute; reflexivity|]. split; vm_compute; reflexivity.
Qed.

Lemma q_get_empty b : q_get empty_queues b = [].
Proof.
  unfold q_get, empty_queues. generalize (N.to_nat (MI_SEGMENT_BIN_MAX + 1)). intros k.
  generalize (N.to_nat b). clear b. induction k as [|k IH]; intros [|j]; cbn; auto.
Qed.

(* the slice array of a fresh huge segment of `ss` slices *)
Definition huge_init (ss : N) : option state :=
  let n := if MI_SLICES_PER_SEGMENT <? ss then MI_SLICES_PER_SEGMENT else ss in
  let sg0 := mkSeg SegHuge true n 1 (repeat slice0 (N.to_nat (n + 1))) 0 in
  match span_allocate (sg0, empty_queues) 0 1 true with
  | None => None
  | Some (sg1, qs1) => span_allocate (set_used sg1 0, qs1) 1 (ss - 1) true
  end.

Lemma segment_init_huge required al ss a' off :
  required <> 0 -> segment_request required al = (ss, 1, a', off) ->
  segment_init required al empty_queues = huge_init ss.
Proof.
  intros Hr H. unfold segment_init, huge_init. rewrite H.
  assert (E : (required =? 0) = false) by (apply N.eqb_neq; assumption). rewrite E. reflexivity.
Qed.

Theorem huge_init_inv ss : 2 <= ss -> ss < 4294967296 ->
  exists st, huge_init ss = Some st /\
    span_Inv_with 1 st [(0, 1); (1, ss - 1)] ss /\ used (fst st) = 1 /\ kind (fst st) = SegHuge /\
    info_slices (fst st) = 1 /\
    slice_entries (fst st) = N.min ss MI_SLICES_PER_SEGMENT /\
    get (entries (fst st)) 1 = mkSlice (ss - 1) 0 ((ss - 1) * MI_SEGMENT_SLICE_SIZE) /\
    (1 < N.min (ss - 1) (slice_entries (fst st)) ->
     get (entries (fst st)) (N.min (ss - 1) (slice_entries (fst st))) = follower (N.min (ss - 1) (slice_entries (fst st)) - 1)).
Proof.
  intros H2 H32. unfold huge_init.
  set (n := if MI_SLICES_PER_SEGMENT <? ss then MI_SLICES_PER_SEGMENT else ss).
  assert (Hn : n = N.min ss MI_SLICES_PER_SEGMENT).
  { unfold n. destruct (MI_SLICES_PER_SEGMENT <? ss) eqn:E; lia. }
  assert (Hn2 : 2 <= n /\ n <= MI_SLICES_PER_SEGMENT /\ n <= ss) by (unfold MI_SLICES_PER_SEGMENT in *; lia).
  destruct Hn2 as (Hn2 & Hn512 & Hnss).
  cbv zeta.
  set (sg0 := mkSeg SegHuge true n 1 (repeat slice0 (N.to_nat (n + 1))) 0).
  rewrite span_allocate_unfold.
  set (sg1 := set_used (set_used (set_entries sg0 (sa_entries sg0 0 1)) (used sg0 + 1)) 0).
  rewrite span_allocate_unfold.
  set (es2 := sa_entries sg1 1 (ss - 1)).
  eexists. split; [reflexivity|]. cbn [fst snd used set_used kind set_entries info_slices slice_entries entries].
  (* first allocation: the info span *)
  assert (Hl0 : len (entries sg0) = slice_entries sg0 + 1).
  { cbn [entries slice_entries sg0]. unfold len. rewrite repeat_length. lia. }
  assert (H01 : 0 < 1) by lia. assert (H0n : 0 < slice_entries sg0) by (cbn; lia).
  destruct (sa_entries_spec sg0 0 1 H01 H0n Hn512 Hl0) as (A1 & A2 & _ & _ & A5).
  assert (EE0 : sa_extra n 0 1 = 0).
  { unfold sa_extra. cbv zeta. replace (1 - 1) with 0 by lia.
    assert (X : (MI_MAX_SLICE_OFFSET_COUNT <? 0) = false) by (apply N.ltb_ge; lia). rewrite X.
    assert (Y : (n <=? 0 + 0) = false) by (apply N.leb_gt; lia). rewrite Y. reflexivity. }
  assert (EL0 : sa_last n 0 1 = 0).
  { unfold sa_last. cbv zeta. replace (0 + 1 - 1) with 0 by lia.
    assert (X : (n <? 0) = false) by (apply N.ltb_ge; lia). rewrite X. reflexivity. }
  cbn [slice_entries sg0] in A5. rewrite EE0, EL0 in A5.
  set (es1 := sa_entries sg0 0 1) in *.
  assert (G1 : forall j, j <> 0 -> get es1 j = slice0).
  { intros j Hj. rewrite A5 by lia. cbn [entries sg0]. apply get_repeat. }
  assert (G10 : get es1 0 = mkSlice 1 0 MI_SEGMENT_SLICE_SIZE).
  { rewrite A2. reflexivity. }
  (* second allocation: the huge page *)
  assert (Hl1 : len (entries sg1) = slice_entries sg1 + 1).
  { cbn [entries slice_entries sg1 set_used set_entries sg0]. rewrite A1. exact Hl0. }
  assert (Hc2 : 0 < ss - 1) by lia. assert (H1n : 1 < slice_entries sg1) by (cbn; lia).
  destruct (sa_entries_spec sg1 1 (ss - 1) Hc2 H1n Hn512 Hl1) as (B1 & B2 & B3 & B4 & B5).
  cbn [slice_entries sg1 set_used set_entries sg0] in B3, B4, B5. fold es2 in B1, B2, B3, B4, B5.
  change (entries sg1) with es1 in B5.
  set (E := sa_extra n 1 (ss - 1)) in *. set (L := sa_last n 1 (ss - 1)) in *.
  assert (HL : L = N.min (ss - 1) n).
  { unfold L, sa_last. cbv zeta. destruct (n <? 1 + (ss - 1) - 1) eqn:X; lia. }
  assert (HE : forall k, 1 <= k -> k <= MI_MAX_SLICE_OFFSET_COUNT -> 1 + k <= n - 1 -> k <= E).
  { intros k Hk1 Hk2 Hk3. unfold E, sa_extra. cbv zeta.
    destruct (MI_MAX_SLICE_OFFSET_COUNT <? ss - 1 - 1) eqn:X.
    - destruct (n <=? 1 + MI_MAX_SLICE_OFFSET_COUNT) eqn:Y; lia.
    - destruct (n <=? 1 + (ss - 1 - 1)) eqn:Y; lia. }
  assert (Hw32 : wrap32 (ss - 1) = ss - 1) by (apply wrap32_small; lia).
  assert (Hbs : wmul (ss - 1) MI_SEGMENT_SLICE_SIZE = (ss - 1) * MI_SEGMENT_SLICE_SIZE).
  { apply wmul_small. unfold MI_SEGMENT_SLICE_SIZE. rewrite W64_val. lia. }
  assert (G20 : get es2 0 = mkSlice 1 0 MI_SEGMENT_SLICE_SIZE).
  { rewrite B5; [assumption|lia|lia|]. rewrite HL. lia. }
  assert (Gtail : forall x, 1 < x -> slice_count (get es2 x) = 0 /\ bsz (get es2 x) <= 1).
  { intros x Hx. destruct (N.eq_dec x L) as [->|HxL].
    - rewrite B4 by lia. cbn. lia.
    - destruct (N.le_gt_cases x (1 + E)) as [Hle|Hgt].
      + replace x with (1 + (x - 1)) by lia. rewrite B3 by lia. cbn. lia.
      + rewrite B5 by lia. rewrite G1 by lia. cbn. lia. }
  set (sg2 := set_used (set_entries sg1 es2) (used sg1 + 1)).
  split; [|split; [reflexivity|split; [reflexivity|split; [reflexivity|split; [exact Hn|split;
           [rewrite B2, Hw32, Hbs; reflexivity|change (slice_entries sg1) with n; rewrite <- HL; intros HlL; apply B4; assumption]]]]]].
  unfold span_Inv_with. cbn [fst snd]. change (entries sg2) with es2. change (slice_entries sg2) with n.
  change (info_slices sg2) with 1.
  split. { cbn [tiles]. repeat split; lia. }
  split; [lia|].
  split.
  { constructor; [|constructor; [|constructor]]; unfold first_ok; cbn [fst snd].
    - rewrite G20. cbn. repeat split; lia.
    - rewrite B2. cbn. repeat split; lia. }
  split.
  { constructor; [|constructor; [|constructor]]; unfold span_ok; cbn [fst snd]; change (entries sg2) with es2;
      change (kind sg2) with SegHuge; change (slice_entries sg2) with n.
    - rewrite G20. cbn [bsz]. split; [lia|]. split; [intros; congruence|]. split; [|unfold MI_SEGMENT_SLICE_SIZE; intros; lia].
      intros _. unfold used_ok. change (entries sg2) with es2. change (slice_entries sg2) with n. cbv zeta.
      split; [intros k Hk1 Hk2 Hk3; lia|]. split; [intros; lia|intros; lia].
    - rewrite B2. cbn [bsz]. split; [lia|]. split; [intros; congruence|]. split; [|rewrite Hbs; unfold MI_SEGMENT_SLICE_SIZE; intros; lia].
      intros _. unfold used_ok. change (entries sg2) with es2. change (slice_entries sg2) with n.
      change (kind sg2) with SegHuge. cbv zeta.
      replace (1 + (ss - 1)) with ss by lia. rewrite (N.min_r ss n) by lia.
      split; [|split].
      + intros k Hk1 Hk2 Hk3. apply B3; [assumption|]. apply HE; assumption.
      + replace (ss - 1) with (ss - 1) by lia. rewrite <- HL. intros HlL. apply B4. assumption.
      + intros _ Hns H1n'. apply Gtail. lia. }
  split; [exists [(1, ss - 1)]; reflexivity|].
  split; [exists (ss - 1); reflexivity|].
  split; [rewrite G20; cbn; unfold MI_SEGMENT_SLICE_SIZE; lia|].
  split.
  { unfold count_used. cbn [filter fst]. rewrite G20, B2. cbn [bsz]. rewrite Hbs.
    assert (X1 : (0 <? MI_SEGMENT_SLICE_SIZE) = true) by reflexivity.
    assert (X2 : (0 <? (ss - 1) * MI_SEGMENT_SLICE_SIZE) = true) by (apply N.ltb_lt; unfold MI_SEGMENT_SLICE_SIZE; lia).
    rewrite X1, X2. reflexivity. }
  split; [rewrite B1; exact Hl1|]. split; [assumption|].
  unfold queues_ok. split; [reflexivity|]. split; [intros b; rewrite q_get_empty; constructor|].
  split; [intros b i Hi; rewrite q_get_empty in Hi; destruct Hi|]. intros _ b. apply q_get_empty.
Qed.

(* ------------------------------------------------------------------------------------- *)
(* the invariant is preserved by every step, hence holds in every reachable state          *)
(* ------------------------------------------------------------------------------------- *)

Lemma inv_spans_of U st sps m : span_Inv_with U st sps m -> spans_of (fst st) = Some sps.
Proof.
  intros (Ht & Hm & Hf & _ & _ & _ & _ & _ & Hl & _). apply (spans_of_complete _ _ m); assumption.
Qed.

Lemma used_spans_inv U st sps m : span_Inv_with U st sps m ->
  used_spans (fst st) = filter (fun sp => 0 <? bsz (get (entries (fst st)) (fst sp))) sps.
Proof. intros H. unfold used_spans. rewrite (inv_spans_of _ _ _ _ H). reflexivity. Qed.

Lemma In_used_spans U st sps m i c : span_Inv_with U st sps m ->
  (In (i, c) (used_spans (fst st)) <-> In (i, c) sps /\ 0 < bsz (get (entries (fst st)) i)).
Proof.
  intros H. rewrite (used_spans_inv _ _ _ _ H), filter_In. cbn [fst]. rewrite N.ltb_lt. reflexivity.
Qed.

Lemma memNb_map_fst i (l : list (N * N)) : memNb i (map fst l) = true -> exists c, In (i, c) l.
Proof.
  intros H. apply memNb_In in H. apply in_map_iff in H as ([j c] & E & Hin). cbn in E. subst. exists c. assumption.
Qed.

Theorem span_inv_step st o st' : span_Inv st -> span_step st o = Some st' -> span_Inv st'.
Proof.
  destruct st as [sg qs]. intros (sps & m & Hinv) Hs. cbn [fst] in Hinv.
  destruct o as [count suit commit_ok|idx bs|idx]; cbn [span_step] in Hs.
  - destruct (count <=? MI_SLICES_PER_SEGMENT); [|discriminate]. inversion Hs; subst st'. clear Hs.
    destruct (find_span (sg, qs) count (fun _ => suit)) as [[b idx]|] eqn:Ef.
    + destruct commit_ok.
      * destruct (find_and_allocate_ok sg qs count _ sps m b idx Hinv Ef) as (l1 & l2 & c & st' & _ & _ & _ & _ & Ep & Hinv' & _).
        rewrite Ep. cbn [snd]. eexists _, _. exact Hinv'.
      * destruct (find_and_allocate_fail sg qs count _ sps m b idx Hinv Ef) as (st' & sps' & Ep & Hinv' & _).
        rewrite Ep. cbn [snd]. eexists _, _. exact Hinv'.
    + unfold page_find_and_allocate. rewrite Ef. cbn [snd]. exists sps, m. exact Hinv.
  - destruct ((1 <? bs) && (0 <? idx) && memNb idx (map fst (used_spans (fst (sg, qs))))) eqn:E; [|discriminate].
    inversion Hs; subst st'. clear Hs.
    apply andb_prop in E as [E E3]. apply andb_prop in E as [E1 E2]. apply N.ltb_lt in E1.
    apply memNb_map_fst in E3 as (c & Hin). apply (In_used_spans _ _ _ _ _ _ Hinv) in Hin as (Hin & Hb). cbn [fst] in Hb.
    exists sps, m. apply (set_block_size_inv _ _ _ _ _ _ c); auto; lia.
  - destruct ((0 <? idx) && memNb idx (map fst (used_spans (fst (sg, qs))))) eqn:E; [|discriminate].
    inversion Hs; subst st'. clear Hs.
    apply andb_prop in E as [E2 E3]. apply N.ltb_lt in E2.
    apply memNb_map_fst in E3 as (c & Hin). apply (In_used_spans _ _ _ _ _ _ Hinv) in Hin as (Hin & Hb). cbn [fst] in Hb.
    assert (Hkk : kind sg = SegNormal \/ kind sg = SegHuge) by (destruct (kind sg); auto).
    destruct Hkk as [Ek|Ek].
    + destruct (page_clear_normal (used sg) sg qs sps m idx c Hinv eq_refl Ek Hin ltac:(lia) Hb)
        as (l1 & l2 & l1' & l2' & a' & w' & _ & Hres). cbv zeta in Hres. destruct Hres as (_ & Hinv' & _).
      eexists _, _. exact Hinv'.
    + destruct (page_clear_huge (used sg) sg qs sps m idx c Hinv eq_refl Ek Hin ltac:(lia) Hb) as (Hinv' & _).
      eexists _, _. exact Hinv'.
Qed.

Theorem span_inv_run st ops st' : span_Inv st -> span_run st ops = Some st' -> span_Inv st'.
Proof.
  revert st. induction ops as [|o r IH]; intros st Hinv Hr; cbn [span_run] in Hr.
  - inversion Hr; subst. assumption.
  - destruct (span_step st o) as [st1|] eqn:Es; [|discriminate].
    apply (IH st1); [apply (span_inv_step st o); assumption|assumption].
Qed.

(* states reachable from a fresh normal segment, or from a fresh huge segment of ss slices *)
Definition span_reachable (st : state) : Prop :=
  (exists ops, span_run init_normal ops = Some st) \/
  (exists ss st0 ops, 2 <= ss /\ ss < 4294967296 /\ huge_init ss = Some st0 /\ span_run st0 ops = Some st).

Theorem span_inv_reachable st : span_reachable st -> span_Inv st.
Proof.
  intros [(ops & Hr)|(ss & st0 & ops & H2 & H32 & Hi & Hr)].
  - apply (span_inv_run init_normal ops); [apply span_inv_init_normal|assumption].
  - destruct (huge_init_inv ss H2 H32) as (st0' & Hi' & Hinv & Hu & _). rewrite Hi in Hi'. inversion Hi'; subst st0'.
    apply (span_inv_run st0 ops); [|assumption]. exists [(0, 1); (1, ss - 1)], ss. rewrite Hu. exact Hinv.
Qed.

(* ------------------------------------------------------------------------------------- *)
(* used spans are pairwise disjoint and lie inside the segment                             *)
(* ------------------------------------------------------------------------------------- *)

Theorem used_spans_disjoint st : span_Inv st ->
  (forall i1 c1 i2 c2, In (i1, c1) (used_spans (fst st)) -> In (i2, c2) (used_spans (fst st)) ->
     (i1 = i2 /\ c1 = c2) \/ i1 + c1 <= i2 \/ i2 + c2 <= i1) /\
  (forall i c, In (i, c) (used_spans (fst st)) ->
     0 < c /\ i < slice_entries (fst st) /\ (i = 0 /\ c = info_slices (fst st) \/ info_slices (fst st) <= i) /\
     (kind (fst st) = SegNormal -> i + c <= slice_entries (fst st))).
Proof.
  intros (sps & m & Hinv). pose proof Hinv as (Ht & Hm & Hf & Hok & (r & Hr) & _).
  split.
  - intros i1 c1 i2 c2 H1 H2. apply (In_used_spans _ _ _ _ _ _ Hinv) in H1 as (H1 & _).
    apply (In_used_spans _ _ _ _ _ _ Hinv) in H2 as (H2 & _).
    apply (tiles_disjoint _ _ _ _ _ _ _ Ht H1 H2).
  - intros i c H. apply (In_used_spans _ _ _ _ _ _ Hinv) in H as (H & _).
    rewrite Forall_forall in Hf, Hok. destruct (Hf _ H) as (Hi & _). destruct (Hok _ H) as (_ & Hk & _).
    cbn [fst snd] in *. destruct (tiles_In _ _ _ _ _ Ht H) as (_ & _ & Hc).
    split; [assumption|]. split; [assumption|]. split; [|assumption].
    rewrite Hr in H, Ht. destruct H as [E|H]; [inversion E; left; split; reflexivity|].
    cbn [tiles] in Ht. destruct Ht as (_ & _ & Ht). destruct (tiles_In _ _ _ _ _ Ht H) as (Hlo & _). right. lia.
Qed.

(* ------------------------------------------------------------------------------------- *)
(* page areas                                                                              *)
(* ------------------------------------------------------------------------------------- *)

(* BitsProofs.page_start_eq for spans that may be longer than a segment (huge pages) *)
Lemma page_start_eq_gen seg idx cnt bs :
  seg mod MI_SEGMENT_SIZE = 0 -> seg + MI_SEGMENT_SIZE < 2^63 -> 0 < cnt -> cnt < 4294967296 ->
  idx <= MI_SLICES_PER_SEGMENT ->
  let pstart := seg + idx * MI_SEGMENT_SLICE_SIZE in
  let psize := cnt * MI_SEGMENT_SLICE_SIZE in
  let off1 := pstart_off1 bs (pstart_off0 pstart psize bs) in
  let so := (off1 + 15) / 16 * 16 in
  page_start_from_slice seg idx cnt bs = (pstart + so, psize - so) /\
  so <= MI_SEGMENT_SLICE_SIZE /\ off1 <= so.
Proof.
  intros Hal Hw Hc Hc32 Hic pstart psize off1 so.
  pose proof (pstart_off0_bound pstart psize bs) as Hb0.
  pose proof (pstart_off1_bound bs _ Hb0) as Hb1. fold off1 in Hb1.
  assert (Hso : so <= 65536 /\ off1 <= so) by (unfold so; lia).
  split; [|unfold MI_SEGMENT_SLICE_SIZE; exact Hso].
  unfold page_start_from_slice.
  assert (E63 : 2 ^ 63 = 9223372036854775808) by reflexivity. rewrite E63 in Hw.
  unfold MI_SEGMENT_SIZE, MI_SLICES_PER_SEGMENT in *.
  assert (E1 : wmul cnt MI_SEGMENT_SLICE_SIZE = psize).
  { apply wmul_small. unfold MI_SEGMENT_SLICE_SIZE. rewrite W64_val. lia. }
  assert (E2 : wadd seg (wmul idx MI_SEGMENT_SLICE_SIZE) = pstart).
  { unfold pstart. rewrite wmul_small by (unfold MI_SEGMENT_SLICE_SIZE; rewrite W64_val; lia).
    apply wadd_small. unfold MI_SEGMENT_SLICE_SIZE. rewrite W64_val. lia. }
  rewrite E1, E2. cbv zeta.
  assert (E3 : (if (0 <? bs) && (bs <=? MI_MAX_ALIGN_GUARANTEE)
                then if (bs - pstart mod bs <? bs) && (wadd bs (bs - pstart mod bs) <=? psize)
                     then bs - pstart mod bs else 0
                else 0) = pstart_off0 pstart psize bs).
  { unfold pstart_off0. destruct ((0 <? bs) && (bs <=? MI_MAX_ALIGN_GUARANTEE)) eqn:E; [|reflexivity].
    apply andb_prop in E as [_ E]. apply N.leb_le in E. unfold MI_MAX_ALIGN_GUARANTEE in E.
    cbv zeta. rewrite wadd_small by (rewrite W64_val; lia). reflexivity. }
  rewrite E3. clear E3.
  set (off0 := pstart_off0 pstart psize bs) in *.
  assert (E4 : (if MI_INTPTR_SIZE <=? bs
                then if bs <=? 64 then wadd off0 (wmul 3 bs)
                     else if bs <=? 512 then wadd off0 bs else off0
                else off0) = off1).
  { unfold off1, pstart_off1. unfold MI_MAX_ALIGN_GUARANTEE in Hb0.
    destruct (MI_INTPTR_SIZE <=? bs); [|reflexivity].
    destruct (bs <=? 64) eqn:E64.
    - apply N.leb_le in E64. rewrite wmul_small by (rewrite W64_val; lia).
      apply wadd_small. rewrite W64_val; lia.
    - destruct (bs <=? 512) eqn:E512; [|reflexivity].
      apply N.leb_le in E512. apply wadd_small. rewrite W64_val; lia. }
  rewrite E4. clear E4.
  assert (E5 : align_up off1 MI_MAX_ALIGN_SIZE = so).
  { unfold MI_MAX_ALIGN_SIZE. rewrite align_up_spec by (rewrite ?W64_val; lia).
    unfold so. f_equal. f_equal. lia. }
  rewrite E5.
  rewrite wadd_small by (unfold pstart, MI_SEGMENT_SLICE_SIZE; rewrite W64_val; lia).
  rewrite wsub_small by (unfold psize, MI_SEGMENT_SLICE_SIZE; lia).
  reflexivity.
Qed.

(* the page area of the span (idx, cnt) lies inside the span and ends where the span ends *)
Lemma page_area_in_span seg idx cnt bs :
  seg mod MI_SEGMENT_SIZE = 0 -> seg + MI_SEGMENT_SIZE < 2^63 -> 0 < cnt -> cnt < 4294967296 ->
  idx <= MI_SLICES_PER_SEGMENT ->
  let ps := page_start_from_slice seg idx cnt bs in
  seg + idx * MI_SEGMENT_SLICE_SIZE <= fst ps /\
  fst ps <= seg + idx * MI_SEGMENT_SLICE_SIZE + MI_SEGMENT_SLICE_SIZE /\
  fst ps + snd ps = seg + (idx + cnt) * MI_SEGMENT_SLICE_SIZE.
Proof.
  intros Hal Hw Hc Hc32 Hic. cbv zeta.
  destruct (page_start_eq_gen seg idx cnt bs Hal Hw Hc Hc32 Hic) as (E & Hso & _).
  rewrite E. clear E. cbn [fst snd].
  set (so := (pstart_off1 bs _ + 15) / 16 * 16) in *. clearbody so.
  unfold MI_SEGMENT_SIZE, MI_SEGMENT_SLICE_SIZE, MI_SLICES_PER_SEGMENT in *. lia.
Qed.

(* ------------------------------------------------------------------------------------- *)
(* pointer -> segment -> page                                                              *)
(* ------------------------------------------------------------------------------------- *)

Theorem page_of_correct base st i c p :
  span_Inv st ->
  base mod MI_SEGMENT_SIZE = 0 -> 0 < base -> base + MI_SEGMENT_SIZE < 2^63 ->
  In (i, c) (used_spans (fst st)) -> i <> 0 ->
  fst (page_start base (fst st) i) <= p -> p < fst (page_start base (fst st) i) + snd (page_start base (fst st) i) ->
  p <= base + MI_SEGMENT_SIZE ->
  (kind (fst st) = SegHuge -> slice_index_of base p <= slice_entries (fst st)) ->
  (slice_index_of base p - i <= MI_MAX_SLICE_OFFSET_COUNT \/
   slice_index_of base p = N.min (i + c - 1) (slice_entries (fst st))) ->
  ptr_segment p = base /\ segment_page_of base (fst st) p = i.
Proof.
  intros (sps & m & Hinv) Hal Hb0 Hb63 Hin Hi0 Hlo Hhi Hseg Hhuge Hwhere.
  destruct st as [sg qs]. cbn [fst] in *.
  apply (In_used_spans _ _ _ _ _ _ Hinv) in Hin as (Hin & Hbz). cbn [fst] in Hbz.
  pose proof Hinv as (Ht & Hm & Hf & Hok & _ & _ & _ & _ & Hl & Hn & _). cbn [fst snd] in *.
  rewrite Forall_forall in Hf, Hok.
  destruct (Hf _ Hin) as (Hi & Hcnt & Hoff). destruct (Hok _ Hin) as (K1 & K2 & K3 & _). cbn [fst snd] in *.
  destruct (K3 Hbz) as (U1 & U2 & _). cbv zeta in U1, U2.
  destruct (tiles_In _ _ _ _ _ Ht Hin) as (_ & _ & Hc).
  unfold page_start in Hlo, Hhi. rewrite Hcnt in Hlo, Hhi.
  assert (Hi512 : i <= MI_SLICES_PER_SEGMENT) by lia.
  destruct (page_area_in_span base i c (bsz (get (entries sg) i)) Hal Hb63 Hc K1 Hi512) as (A1 & A2 & A3).
  cbv zeta in A1, A2, A3.
  set (ps := page_start_from_slice base i c (bsz (get (entries sg) i))) in *.
  assert (E63 : 2 ^ 63 = 9223372036854775808) by reflexivity. rewrite E63 in Hb63.
  split.
  - apply ptr_segment_spec; auto; try (rewrite E63; assumption).
    unfold MI_SEGMENT_SLICE_SIZE in *. lia.
  - unfold segment_page_of.
    set (sidx := slice_index_of base p) in *.
    assert (Hs : sidx = (p - base) / MI_SEGMENT_SLICE_SIZE).
    { unfold sidx, slice_index_of. rewrite wsub_small by (unfold MI_SEGMENT_SLICE_SIZE in *; lia).
      rewrite N.shiftr_div_pow2. reflexivity. }
    assert (Hr : i <= sidx /\ sidx < i + c).
    { rewrite Hs. unfold MI_SEGMENT_SLICE_SIZE in *. split.
      - apply N.div_le_lower_bound; lia.
      - apply N.div_lt_upper_bound; lia. }
    destruct Hr as (Hr1 & Hr2).
    assert (Hsn : sidx <= slice_entries sg).
    { destruct (kind sg) eqn:Ek; [specialize (K2 eq_refl); lia|apply Hhuge; reflexivity]. }
    destruct (N.eq_dec sidx i) as [Ei|Ei].
    + rewrite Ei, Hoff. unfold slice_first. rewrite N.div_0_l by (unfold sizeof_mi_slice_t; lia). lia.
    + destruct (N.eq_dec sidx (N.min (i + c - 1) (slice_entries sg))) as [El|El].
      * rewrite El. rewrite U2 by lia. cbn [follower slice_offset]. rewrite slice_first_follower by lia. lia.
      * destruct Hwhere as [Hk|Hk]; [|contradiction].
        replace sidx with (i + (sidx - i)) by lia.
        rewrite U1 by lia. cbn [follower slice_offset]. rewrite slice_first_follower by lia. lia.
Qed.

(* ... and the start of the block (interior pointers): BitsProofs.unalign_correct *)
Theorem ptr_roundtrip base st i c b off :
  span_Inv st ->
  base mod MI_SEGMENT_SIZE = 0 -> 0 < base -> base + MI_SEGMENT_SIZE < 2^63 ->
  In (i, c) (used_spans (fst st)) -> i <> 0 ->
  let start := fst (page_start base (fst st) i) in let psize := snd (page_start base (fst st) i) in
  let bs := bsz (get (entries (fst st)) i) in
  let p := start + b * bs + off in
  off < bs -> bs < W64 -> p < start + psize -> p <= base + MI_SEGMENT_SIZE ->
  (kind (fst st) = SegHuge -> slice_index_of base p <= slice_entries (fst st)) ->
  (slice_index_of base p - i <= MI_MAX_SLICE_OFFSET_COUNT \/
   slice_index_of base p = N.min (i + c - 1) (slice_entries (fst st))) ->
  ptr_segment p = base /\ segment_page_of base (fst st) p = i /\ ptr_unalign start bs p = start + b * bs.
Proof.
  intros Hinv Hal Hb0 Hb63 Hin Hi0 start psize bs p Hoff Hbs64 Hhi Hseg Hhuge Hwhere.
  destruct (page_of_correct base st i c p Hinv Hal Hb0 Hb63 Hin Hi0) as (H1 & H2); auto.
  { unfold p. fold start. lia. }
  split; [assumption|]. split; [assumption|].
  assert (E63 : 2 ^ 63 = 9223372036854775808) by reflexivity. rewrite E63 in Hb63.
  apply unalign_correct; try lia.
  rewrite W64_val. unfold MI_SEGMENT_SIZE in *. fold p. lia.
Qed.

(* ------------------------------------------------------------------------------------- *)
(* C03: huge alignment (mi_segment_os_alloc / mi_segment_huge_page_alloc)                  *)
(* ------------------------------------------------------------------------------------- *)

Lemma calculate_slices_huge r : r <> 0 -> r + 131071 < W64 ->
  calculate_slices r = ((r + 131071) / 65536, 1).
Proof.
  intros Hr Hw. unfold calculate_slices.
  assert (Ei : align_up (align_up sizeof_mi_segment_t os_page_size_default) MI_SEGMENT_SLICE_SIZE = 65536)
    by (vm_compute; reflexivity).
  rewrite Ei. cbv zeta.
  assert (E0 : (r =? 0) = false) by (apply N.eqb_neq; assumption). rewrite E0.
  unfold MI_SEGMENT_SLICE_SIZE. rewrite wadd_small by lia.
  rewrite align_up_spec by (rewrite ?W64_val in *; lia).
  rewrite N.div_mul by lia. f_equal. f_equal. lia.
Qed.

Lemma segment_request_huge size a : 0 < size -> size < 2^47 -> 0 < a ->
  segment_request size a = ((size + 33619967) / 65536, 1, a, 33554432).
Proof.
  intros Hs Hs47 Ha. unfold segment_request.
  assert (E47 : 2 ^ 47 = 140737488355328) by reflexivity. rewrite E47 in Hs47.
  rewrite calculate_slices_huge by (rewrite ?W64_val; lia).
  assert (Ea : (0 <? a) = true) by (apply N.ltb_lt; assumption). rewrite Ea.
  assert (E1 : wmul 1 MI_SEGMENT_SLICE_SIZE = 65536) by reflexivity. rewrite E1.
  assert (E2 : align_up 65536 MI_SEGMENT_SIZE = 33554432) by (vm_compute; reflexivity). rewrite E2.
  assert (E3 : wsub 33554432 65536 = 33488896) by reflexivity. rewrite E3.
  rewrite wadd_small by (rewrite W64_val; lia).
  rewrite calculate_slices_huge by (rewrite ?W64_val; lia).
  f_equal. f_equal. f_equal. f_equal. lia.
Qed.

Lemma mod_of_multiple x a s : 0 < s -> a mod s = 0 -> x mod a = 0 -> 0 < a -> x mod s = 0.
Proof.
  intros Hs Has Hxa Ha.
  apply N.mod_divide in Has; [|lia]. apply N.mod_divide in Hxa; [|lia]. apply N.mod_divide; [lia|].
  eapply N.divide_trans; eassumption.
Qed.

Theorem huge_aligned size k base ss info al off :
  25 <= k -> k < 47 -> 0 < size -> size < 2^47 ->
  segment_request size (2^k) = (ss, info, al, off) ->
  (base + off) mod (2^k) = 0 ->               (* what _mi_os_alloc_aligned_at_offset guarantees *)
  0 < base -> base + ss * MI_SEGMENT_SLICE_SIZE < 2^63 ->
  exists st, segment_init size (2^k) empty_queues = Some st /\ span_Inv st /\ kind (fst st) = SegHuge /\
    al = 2^k /\ info = info_slices (fst st) /\
    let p := huge_aligned_ptr base (fst st) (2^k) in
    p mod (2^k) = 0 /\ ptr_segment p = base /\ segment_page_of base (fst st) p = info_slices (fst st) /\
    fst (page_start base (fst st) (info_slices (fst st))) <= p /\
    p + size <= base + ss * MI_SEGMENT_SLICE_SIZE.
Proof.
  intros Hk25 Hk47 Hs Hs47 Hreq Hmod Hb0 Hb63.
  set (a := 2 ^ k) in *.
  assert (Ha : 33554432 <= a).
  { unfold a. change 33554432 with (2 ^ 25). apply N.pow_le_mono_r; lia. }
  assert (Ha47 : a < 2 ^ 47) by (unfold a; apply N.pow_lt_mono_r; lia).
  assert (E47 : 2 ^ 47 = 140737488355328) by reflexivity. rewrite E47 in Hs47, Ha47.
  assert (E63 : 2 ^ 63 = 9223372036854775808) by reflexivity. rewrite E63 in Hb63.
  assert (Haseg : a mod MI_SEGMENT_SIZE = 0).
  { unfold a, MI_SEGMENT_SIZE. change 33554432 with (2 ^ 25).
    replace k with (k - 25 + 25) by lia. rewrite N.pow_add_r. apply N.mod_mul. apply N.pow_nonzero. lia. }
  rewrite segment_request_huge in Hreq by (rewrite ?E47; lia). inversion Hreq. subst info al off. clear Hreq.
  set (ss' := (size + 33619967) / 65536) in *.
  assert (Hss : 513 <= ss' /\ ss' < 4294967296 /\ size + 33554432 <= ss' * 65536).
  { unfold ss'. split; [apply N.div_le_lower_bound; lia|]. split; [apply N.div_lt_upper_bound; lia|].
    pose proof (N.div_mod (size + 33619967) 65536 ltac:(lia)). pose proof (N.mod_lt (size + 33619967) 65536 ltac:(lia)). lia. }
  destruct Hss as (Hss1 & Hss2 & Hss3). subst ss.
  destruct (huge_init_inv ss' ltac:(lia) Hss2) as (st & Hi & Hinv & Hu & Hkind & Hinfo & Hne & G1 & GL).
  exists st. rewrite (segment_init_huge size a ss' a 33554432); [|lia|apply segment_request_huge; rewrite ?E47; lia].
  split; [assumption|]. split; [exists [(0, 1); (1, ss' - 1)], ss'; rewrite Hu; exact Hinv|].
  split; [assumption|]. split; [reflexivity|]. split; [symmetry; assumption|].
  cbv zeta. rewrite Hinfo.
  assert (Hn512 : slice_entries (fst st) = 512) by (rewrite Hne; unfold MI_SLICES_PER_SEGMENT; lia).
  (* the segment is aligned *)
  assert (Hbal : base mod MI_SEGMENT_SIZE = 0).
  { assert (H1 : (base + 33554432) mod MI_SEGMENT_SIZE = 0) by (apply (mod_of_multiple _ a); unfold MI_SEGMENT_SIZE in *; lia).
    unfold MI_SEGMENT_SIZE in *. lia. }
  (* the page start *)
  assert (Hps : page_start base (fst st) 1 = (base + 65536, (ss' - 1) * 65536)).
  { unfold page_start. rewrite G1. cbn [slice_count bsz].
    assert (Hw63 : base + MI_SEGMENT_SIZE < 2 ^ 63) by (rewrite E63; unfold MI_SEGMENT_SIZE, MI_SEGMENT_SLICE_SIZE in *; lia).
    destruct (page_start_eq_gen base 1 (ss' - 1) ((ss' - 1) * MI_SEGMENT_SLICE_SIZE) Hbal Hw63) as (E & _); try lia; try (unfold MI_SLICES_PER_SEGMENT; lia).
    rewrite E. clear E.
    assert (E0 : pstart_off0 (base + 1 * MI_SEGMENT_SLICE_SIZE) ((ss' - 1) * MI_SEGMENT_SLICE_SIZE) ((ss' - 1) * MI_SEGMENT_SLICE_SIZE) = 0).
    { unfold pstart_off0. assert (X : ((ss' - 1) * MI_SEGMENT_SLICE_SIZE <=? MI_MAX_ALIGN_GUARANTEE) = false).
      { apply N.leb_gt. unfold MI_SEGMENT_SLICE_SIZE, MI_MAX_ALIGN_GUARANTEE. lia. }
      rewrite X. rewrite andb_false_r. reflexivity. }
    rewrite E0.
    assert (E1 : pstart_off1 ((ss' - 1) * MI_SEGMENT_SLICE_SIZE) 0 = 0).
    { unfold pstart_off1. unfold MI_SEGMENT_SLICE_SIZE, MI_INTPTR_SIZE.
      destruct (8 <=? (ss' - 1) * 65536) eqn:X1; [|reflexivity].
      destruct ((ss' - 1) * 65536 <=? 64) eqn:X2; [apply N.leb_le in X2; lia|].
      destruct ((ss' - 1) * 65536 <=? 512) eqn:X3; [apply N.leb_le in X3; lia|]. reflexivity. }
    rewrite E1. unfold MI_SEGMENT_SLICE_SIZE. f_equal; lia. }
  unfold huge_aligned_ptr. rewrite Hinfo, Hps. cbn [fst snd].
  (* the aligned pointer is base + MI_SEGMENT_SIZE *)
  assert (Hq : exists q, base + 33554432 = q * a /\ 1 <= q).
  { exists ((base + 33554432) / a). pose proof (N.div_mod (base + 33554432) a ltac:(lia)) as Hd.
    rewrite Hmod in Hd. split; [lia|].
    destruct (N.eq_dec ((base + 33554432) / a) 0) as [E0|E0]; [rewrite E0 in Hd; lia|lia]. }
  destruct Hq as (q & Hq & Hq1).
  assert (Hp : align_up (base + 65536) a = base + 33554432).
  { rewrite align_up_spec by (rewrite ?W64_val; unfold MI_SEGMENT_SLICE_SIZE in *; lia).
    replace (base + 65536 + a - 1) with (q * a + (a - 33488897)) by lia.
    rewrite N.div_add_l by lia. rewrite (N.div_small (a - 33488897) a) by lia. lia. }
  rewrite Hp.
  split; [exact Hmod|].
  split.
  { apply ptr_segment_spec; auto; unfold MI_SEGMENT_SIZE, MI_SEGMENT_SLICE_SIZE in *; rewrite ?E63; lia. }
  split.
  { unfold segment_page_of.
    assert (Hsi : slice_index_of base (base + 33554432) = 512).
    { replace (base + 33554432) with (base + 512 * MI_SEGMENT_SLICE_SIZE + 0) by (unfold MI_SEGMENT_SLICE_SIZE; lia).
      apply slice_index_of_spec; unfold MI_SEGMENT_SLICE_SIZE in *; rewrite ?W64_val; lia. }
    rewrite Hsi. rewrite Hn512 in GL. rewrite N.min_r in GL by lia. rewrite GL by lia.
    cbn [follower slice_offset]. rewrite slice_first_follower by lia. reflexivity. }
  split; [lia|]. unfold MI_SEGMENT_SLICE_SIZE. lia.
Qed.

(* ------------------------------------------------------------------------------------- *)
(* composition with the page layer: live blocks occupy disjoint byte ranges                *)
(* ------------------------------------------------------------------------------------- *)

(* a block: segment base address, segment state, span (i, c), block index b; its byte range is
   [start + b * bs, start + b * bs + bs) with (start, psize) the page area and bs the block size *)
Definition block_lo (base : N) (st : state) (i b : N) : N :=
  fst (page_start base (fst st) i) + b * bsz (get (entries (fst st)) i).
Definition block_hi (base : N) (st : state) (i b : N) : N :=
  block_lo base st i b + bsz (get (entries (fst st)) i).

(* what the page layer guarantees for a block of a page (PageProofs.block_inside_area) *)
Definition block_in_page (base : N) (st : state) (i b : N) : Prop :=
  fst (page_start base (fst st) i) <= block_lo base st i b /\
  block_hi base st i b <= fst (page_start base (fst st) i) + snd (page_start base (fst st) i).

Theorem blocks_disjoint_across_pages base1 st1 i1 c1 b1 base2 st2 i2 c2 b2 e1 e2 :
  span_Inv st1 -> span_Inv st2 ->
  base1 mod MI_SEGMENT_SIZE = 0 -> base1 + MI_SEGMENT_SIZE < 2^63 ->
  base2 mod MI_SEGMENT_SIZE = 0 -> base2 + MI_SEGMENT_SIZE < 2^63 ->
  In (i1, c1) (used_spans (fst st1)) -> In (i2, c2) (used_spans (fst st2)) ->
  block_in_page base1 st1 i1 b1 -> block_in_page base2 st2 i2 b2 ->
  (* segments are disjoint address ranges [base, base + e) that contain their spans *)
  (i1 + c1) * MI_SEGMENT_SLICE_SIZE <= e1 -> (i2 + c2) * MI_SEGMENT_SLICE_SIZE <= e2 ->
  (base1 = base2 -> st1 = st2) -> (base1 <> base2 -> base1 + e1 <= base2 \/ base2 + e2 <= base1) ->
  (* two different blocks *)
  (base1, i1, b1) <> (base2, i2, b2) ->
  block_hi base1 st1 i1 b1 <= block_lo base2 st2 i2 b2 \/ block_hi base2 st2 i2 b2 <= block_lo base1 st1 i1 b1.
Proof.
  intros Hinv1 Hinv2 Hal1 Hw1 Hal2 Hw2 Hin1 Hin2 (L1 & H1) (L2 & H2) He1 He2 Hsame Hdiff Hne.
  destruct (used_spans_disjoint st1 Hinv1) as (D1 & R1). destruct (used_spans_disjoint st2 Hinv2) as (D2 & R2).
  (* page areas lie in their spans *)
  assert (A : forall base st i c, span_Inv st -> base mod MI_SEGMENT_SIZE = 0 -> base + MI_SEGMENT_SIZE < 2^63 ->
              In (i, c) (used_spans (fst st)) ->
              base + i * MI_SEGMENT_SLICE_SIZE <= fst (page_start base (fst st) i) /\
              fst (page_start base (fst st) i) + snd (page_start base (fst st) i) = base + (i + c) * MI_SEGMENT_SLICE_SIZE).
  { intros base st i c (sps & m & Hinv) Hal Hw Hin. destruct st as [sg qs]. cbn [fst] in *.
    apply (In_used_spans _ _ _ _ _ _ Hinv) in Hin as (Hin & Hbz).
    pose proof Hinv as (Ht & _ & Hf & Hok & _). cbn [fst snd] in *. rewrite Forall_forall in Hf, Hok.
    destruct (Hf _ Hin) as (Hi & Hcnt & _). destruct (Hok _ Hin) as (K1 & _). cbn [fst snd] in *.
    destruct (tiles_In _ _ _ _ _ Ht Hin) as (_ & _ & Hc).
    destruct Hinv as (_ & _ & _ & _ & _ & _ & _ & _ & _ & Hn & _). cbn [fst snd] in Hn.
    unfold page_start. rewrite Hcnt.
    destruct (page_area_in_span base i c (bsz (get (entries sg) i)) Hal Hw Hc K1 ltac:(lia)) as (X1 & _ & X3).
    split; assumption. }
  destruct (A base1 st1 i1 c1 Hinv1 Hal1 Hw1 Hin1) as (S1 & E1).
  destruct (A base2 st2 i2 c2 Hinv2 Hal2 Hw2 Hin2) as (S2 & E2).
  destruct (N.eq_dec base1 base2) as [Eb|Eb].
  - specialize (Hsame Eb). subst st2 base2.
    destruct (D1 i1 c1 i2 c2 Hin1 Hin2) as [[Ei Ec]|[Hd|Hd]].
    + (* the same page: PageProofs.block_ranges_disjoint *)
      subst i2 c2. assert (Hb : b1 <> b2) by (intros ->; apply Hne; reflexivity).
      unfold block_hi, block_lo in *.
      set (bs := bsz (get (entries (fst st1)) i1)) in *.
      assert (Hbs : 0 < bs).
      { destruct Hinv1 as (sps & m & Hinv). apply (In_used_spans _ _ _ _ _ _ Hinv) in Hin1 as (_ & Hbz). exact Hbz. }
      destruct (PageProofs.block_ranges_disjoint (fst (page_start base1 (fst st1) i1)) bs b1 b2 Hbs Hb); [left|right]; lia.
    + left. unfold MI_SEGMENT_SLICE_SIZE in *. nia.
    + right. unfold MI_SEGMENT_SLICE_SIZE in *. nia.
  - destruct (Hdiff Eb) as [Hd|Hd]; [left|right]; unfold MI_SEGMENT_SLICE_SIZE in *; nia.
Qed.

(* ------------------------------------------------------------------------------------- *)
(* allocation hands out a free span; freeing removes exactly one used span (frames)        *)
(* ------------------------------------------------------------------------------------- *)

Theorem allocate_fresh sg qs count suit idx st' :
  span_Inv (sg, qs) -> page_find_and_allocate (sg, qs) count suit true = (Some idx, st') ->
  let k := if count =? 0 then 1 else count in
  exists sps c, spans_of sg = Some sps /\ In (idx, c) sps /\ bsz (get (entries sg) idx) = 0 /\ k <= c /\
    (* the new page lies inside a span that was free: it overlaps no span that was in use *)
    (forall i' c', In (i', c') (used_spans sg) -> i' + c' <= idx \/ idx + c <= i') /\
    (* frame: the used spans afterwards are the old ones plus the new page *)
    (forall sp, In sp (used_spans (fst st')) <-> sp = (idx, k) \/ In sp (used_spans sg)) /\
    (forall j, j < idx \/ idx + c <= j -> get (entries (fst st')) j = get (entries sg) j) /\
    used (fst st') = used sg + 1 /\ span_Inv st'.
Proof.
  intros (sps & m & Hinv) Hp k. cbn [fst] in Hinv.
  destruct (find_span (sg, qs) count suit) as [[b idx0]|] eqn:Ef.
  2:{ unfold page_find_and_allocate in Hp. rewrite Ef in Hp. discriminate. }
  destruct (find_and_allocate_ok sg qs count suit sps m b idx0 Hinv Ef)
    as (l1 & l2 & c & st0 & Es & Hb0 & Hkc & _ & Ep & Hinv' & Hu' & Hbi & Hbt & Hfr).
  fold k in Hkc, Hinv', Hbt. rewrite Ep in Hp. inversion Hp; subst idx0 st0. clear Hp.
  pose proof Hinv as (Ht & _).
  assert (Hin : In (idx, c) sps) by (rewrite Es; apply in_or_app; right; left; reflexivity).
  exists sps, c. split; [apply (inv_spans_of _ _ _ _ Hinv)|]. split; [assumption|]. split; [assumption|]. split; [assumption|].
  assert (Hpos1 : forall j cj, In (j, cj) l1 -> j + cj <= idx /\ 0 < cj).
  { intros j cj Hj. rewrite Es in Ht. apply tiles_app in Ht as (x & T1 & T2). cbn [tiles] in T2. destruct T2 as (-> & _).
    apply (raw_left _ _ _ _ T1 Hj). }
  assert (Hpos2 : forall j cj, In (j, cj) l2 -> idx + c <= j /\ 0 < cj).
  { intros j cj Hj. rewrite Es in Ht. apply tiles_app in Ht as (x & T1 & T2). cbn [tiles] in T2. destruct T2 as (-> & _ & T2).
    apply (raw_right _ _ _ _ _ T2 Hj). }
  split.
  { intros i' c' Hu. apply (In_used_spans _ _ _ _ _ _ Hinv) in Hu as (Hu & Hbz). cbn [fst] in Hbz.
    rewrite Es in Hu. apply In_app_mid in Hu as [E|Hu]; [inversion E; subst; lia|].
    apply in_app_or in Hu as [Hu|Hu]; [left; apply (Hpos1 _ _ Hu)|right; apply (Hpos2 _ _ Hu)]. }
  split.
  { intros [j cj]. rewrite (In_used_spans _ _ _ _ _ _ Hinv'), (In_used_spans _ _ _ _ _ _ Hinv). cbn [fst].
    unfold alloc_spans, split_tail. rewrite Es. split.
    - intros (Hj & Hbz). apply In_app_mid in Hj as [E|Hj]; [left; assumption|]. right.
      apply in_app_or in Hj as [Hj|Hj].
      + destruct (Hpos1 _ _ Hj). rewrite Hfr in Hbz by lia. split; [apply in_or_app; left; assumption|assumption].
      + assert (Hj2 : In (j, cj) l2).
        { destruct (k <? c) eqn:Ekc; [|assumption]. destruct Hj as [E|Hj]; [|assumption].
          inversion E; subst. apply N.ltb_lt in Ekc. rewrite (Hbt Ekc) in Hbz. lia. }
        destruct (Hpos2 _ _ Hj2). rewrite Hfr in Hbz by lia.
        split; [apply in_or_app; right; right; assumption|assumption].
    - intros [E|(Hj & Hbz)].
      + inversion E; subst. split; [apply in_or_app; right; left; reflexivity|assumption].
      + apply In_app_mid in Hj as [E|Hj]; [inversion E; subst; lia|].
        apply in_app_or in Hj as [Hj|Hj].
        * destruct (Hpos1 _ _ Hj). rewrite Hfr by lia. split; [apply in_or_app; left; assumption|assumption].
        * destruct (Hpos2 _ _ Hj). rewrite Hfr by lia. split; [|assumption].
          apply in_or_app. right. right. destruct (k <? c); [right; assumption|assumption]. }
  split; [assumption|]. split; [assumption|]. eexists _, _. exact Hinv'.
Qed.

Theorem free_frame sg qs idx c :
  span_Inv (sg, qs) -> In (idx, c) (used_spans sg) -> idx <> 0 ->
  let st' := fst (page_clear (sg, qs) idx) in
  (forall sp, In sp (used_spans (fst st')) <-> sp <> (idx, c) /\ In sp (used_spans sg)) /\
  used (fst st') = used sg - 1 /\ 1 <= used sg /\ span_Inv st'.
Proof.
  intros (sps & m & Hinv) Hin Hi0. cbv zeta. cbn [fst] in Hinv.
  apply (In_used_spans _ _ _ _ _ _ Hinv) in Hin as (Hin & Hb). cbn [fst] in Hb.
  pose proof Hinv as (Ht & _).
  assert (Hkk : kind sg = SegNormal \/ kind sg = SegHuge) by (destruct (kind sg); auto).
  destruct Hkk as [Ek|Ek].
  - destruct (page_clear_normal (used sg) sg qs sps m idx c Hinv eq_refl Ek Hin Hi0 Hb)
      as (l1 & l2 & l1' & l2' & a' & w' & Es & Hres). cbv zeta in Hres.
    destruct Hres as (_ & Hinv' & Hu' & HU1 & Ha1 & Ha2 & R5 & R6 & Hfr & Hbz' & _).
    set (st' := fst (page_clear (sg, qs) idx)) in *.
    split; [|split; [assumption|split; [assumption|eexists _, _; exact Hinv']]].
    pose proof Hinv' as (Ht' & _).
    assert (T : tiles 0 idx l1 /\ tiles (idx + c) m l2 /\ 0 < c).
    { rewrite Es in Ht. apply tiles_app in Ht as (x & T1 & T2). cbn [tiles] in T2. destruct T2 as (-> & Hc & T2). auto. }
    destruct T as (T1 & T2 & Hc).
    assert (T' : tiles 0 a' l1' /\ tiles (a' + w') m l2').
    { apply tiles_app in Ht' as (x & T1' & T2'). cbn [tiles] in T2'. destruct T2' as (-> & _ & T2'). auto. }
    destruct T' as (T1' & T2').
    assert (Hl1 : forall sp, In sp l1' -> In sp l1).
    { destruct R6 as [(-> & _)|(cj & -> & _)]; [auto|]. intros sp Hsp. apply in_or_app. left. assumption. }
    assert (Hl2 : forall sp, In sp l2' -> In sp l2).
    { destruct R5 as [(-> & _)|(c2 & -> & _)]; [auto|]. intros sp Hsp. right. assumption. }
    assert (Hl1' : forall j cj, In (j, cj) l1 -> 0 < bsz (get (entries sg) j) -> In (j, cj) l1').
    { destruct R6 as [(-> & _)|(cj0 & -> & _ & Hz)]; [auto|]. intros j cj Hj Hbz.
      apply in_app_or in Hj as [Hj|[E|[]]]; [assumption|]. inversion E; subst. lia. }
    assert (Hl2' : forall j cj, In (j, cj) l2 -> 0 < bsz (get (entries sg) j) -> In (j, cj) l2').
    { destruct R5 as [(-> & _)|(c2 & -> & _ & Hz)]; [auto|]. intros j cj Hj Hbz.
      destruct Hj as [E|Hj]; [|assumption]. inversion E; subst. lia. }
    intros [j cj]. rewrite (In_used_spans _ _ _ _ _ _ Hinv'), (In_used_spans _ _ _ _ _ _ Hinv). cbn [fst]. split.
    + intros (Hj & Hbz). apply In_app_mid in Hj as [E|Hj]; [inversion E; subst; lia|].
      apply in_app_or in Hj as [Hj|Hj].
      * destruct (raw_left _ _ _ _ T1' Hj). rewrite Hfr in Hbz by lia.
        split; [intros E; inversion E; lia|]. split; [|assumption]. rewrite Es. apply in_or_app. left. apply Hl1. assumption.
      * destruct (raw_right _ _ _ _ _ T2' Hj). rewrite Hfr in Hbz by lia.
        split; [intros E; inversion E; lia|]. split; [|assumption]. rewrite Es. apply in_or_app. right. right. apply Hl2. assumption.
    + intros (Hne & Hj & Hbz). rewrite Es in Hj. apply In_app_mid in Hj as [E|Hj]; [congruence|].
      apply in_app_or in Hj as [Hj|Hj].
      * pose proof (Hl1' _ _ Hj Hbz) as Hj'. destruct (raw_left _ _ _ _ T1' Hj'). rewrite Hfr by lia.
        split; [apply in_or_app; left; assumption|assumption].
      * pose proof (Hl2' _ _ Hj Hbz) as Hj'. destruct (raw_right _ _ _ _ _ T2' Hj'). rewrite Hfr by lia.
        split; [apply in_or_app; right; right; assumption|assumption].
  - destruct (page_clear_huge (used sg) sg qs sps m idx c Hinv eq_refl Ek Hin Hi0 Hb) as (Hinv' & Hu' & HU1 & Hfr & Hbz').
    set (st' := fst (page_clear (sg, qs) idx)) in *.
    split; [|split; [assumption|split; [assumption|eexists _, _; exact Hinv']]].
    intros [j cj]. rewrite (In_used_spans _ _ _ _ _ _ Hinv'), (In_used_spans _ _ _ _ _ _ Hinv). cbn [fst]. split.
    + intros (Hj & Hbz). destruct (N.eq_dec j idx) as [->|Hne]; [lia|]. rewrite Hfr in Hbz by assumption.
      split; [intros E; inversion E; congruence|]. split; assumption.
    + intros (Hne & Hj & Hbz). destruct (N.eq_dec j idx) as [->|Hne'].
      * exfalso. apply Hne. f_equal. apply (tiles_first_unique _ _ _ _ _ _ Ht Hj Hin).
      * rewrite Hfr by assumption. split; assumption.
Qed.

(* ------------------------------------------------------------------------------------- *)
(* coalescing is complete: a free span is never followed by a free span                    *)
(* ------------------------------------------------------------------------------------- *)

Definition CCpos (es : list slice) (sps : list (N * N)) : Prop :=
  forall i c c2, In (i, c) sps -> In (i + c, c2) sps -> bsz (get es i) = 0 -> 0 < bsz (get es (i + c)).

Definition coalesced (sg : segment) : Prop :=
  exists sps, spans_of sg = Some sps /\ CCpos (entries sg) sps.

(* the boolean no_adjacent_free of the model decides it on a tiling *)
Lemma no_adjacent_free_CCpos es : forall sps a m, tiles a m sps ->
  (no_adjacent_free es sps = true <-> CCpos es sps).
Proof.
  induction sps as [|[i c] r IH]; intros a m Ht.
  - cbn. split; [intros _ i c c2 []|reflexivity].
  - destruct r as [|[j c'] r'].
    + cbn [no_adjacent_free]. split; [|reflexivity]. intros _ i0 c0 c2 H1 H2 _.
      destruct H1 as [E1|[]], H2 as [E2|[]]. inversion E1; inversion E2; subst.
      cbn [tiles] in Ht. lia.
    + pose proof Ht as Ht0. cbn [tiles] in Ht. destruct Ht as (-> & Hc & Ej & Hc' & Ht').
      assert (Htl : tiles (a + c) m ((j, c') :: r')) by (cbn [tiles]; auto).
      cbn [no_adjacent_free fst]. rewrite andb_true_iff, (IH _ _ Htl), negb_true_iff, andb_false_iff, !N.eqb_neq.
      split.
      * intros (Hh & Hcc) i0 c0 c2 H1 H2 Hz.
        destruct H1 as [E1|H1].
        -- inversion E1; subst i0 c0. destruct H2 as [E2|H2]; [inversion E2; lia|].
           assert (c2 = c') by (apply (tiles_first_unique _ _ _ _ _ _ Htl H2); left; f_equal; lia). subst c2.
           rewrite <- Ej. destruct Hh as [Hh|Hh]; [congruence|lia].
        -- destruct H2 as [E2|H2].
           ++ inversion E2. destruct (tiles_In _ _ _ _ _ Htl H1). lia.
           ++ apply (Hcc i0 c0 c2); assumption.
      * intros Hcc. split.
        -- destruct (N.eq_dec (bsz (get es a)) 0) as [Hz|Hz]; [|left; assumption]. right.
           specialize (Hcc a c c' (or_introl eq_refl)). rewrite Ej. 
           assert (H2 : In (a + c, c') ((a, c) :: (j, c') :: r')) by (right; left; f_equal; lia).
           specialize (Hcc H2 Hz). lia.
        -- intros i0 c0 c2 H1 H2 Hz. apply (Hcc i0 c0 c2); [right; assumption|right; assumption|assumption].
Qed.

Lemma coalesced_b_spec U st sps m : span_Inv_with U st sps m ->
  (coalesced_b (fst st) = true <-> CCpos (entries (fst st)) sps).
Proof.
  intros Hinv. unfold coalesced_b. rewrite (inv_spans_of _ _ _ _ Hinv).
  destruct Hinv as (Ht & _). apply (no_adjacent_free_CCpos _ _ 0 m Ht).
Qed.

(* a huge segment is trivially coalesced: its first span is the info span *)
Lemma CCpos_huge U sg qs sps m : span_Inv_with U (sg, qs) sps m -> kind sg = SegHuge -> CCpos (entries sg) sps.
Proof.
  intros (Ht & _ & _ & _ & _ & Hhs & Hb0 & _) Hk. cbn [fst snd] in *. unfold huge_shape in Hhs. rewrite Hk in Hhs.
  destruct Hhs as (c0 & ->). intros i c c2 H1 H2 Hz. cbn [tiles] in Ht.
  destruct H1 as [E|[E|[]]]; inversion E; subst; [lia|].
  destruct H2 as [E2|[E2|[]]]; inversion E2; lia.
Qed.


(* merging a freed region [a, a+w) with its free neighbours keeps "no two adjacent free spans" *)
Lemma merge_CC es es' n l1 l2 a w l1' l2' a' w' m :
  tiles 0 a l1 -> tiles (a + w) m l2 -> 0 < w ->
  tiles 0 m (l1' ++ (a', w') :: l2') ->
  (forall j cj, In (j, cj) l2' -> j < n) ->
  CCpos es (l1 ++ l2) ->
  a' <= a -> a + w <= a' + w' ->
  ((l2' = l2 /\ a' + w' = a + w /\ (a + w < n -> 0 < bsz (get es (a + w)))) \/
   (exists c2, l2 = (a + w, c2) :: l2' /\ a' + w' = a + w + c2 /\ bsz (get es (a + w)) = 0)) ->
  ((l1' = l1 /\ a' = a /\ (forall j cj r, l1 = r ++ [(j, cj)] -> 0 < bsz (get es j))) \/
   (exists cj, l1 = l1' ++ [(a', cj)] /\ a' + cj = a /\ bsz (get es a') = 0)) ->
  (forall j, j < a' \/ a' + w' <= j -> get es' j = get es j) ->
  CCpos es' (l1' ++ (a', w') :: l2').
Proof.
  intros T1 T2 Hw Ht' Hlt Hcc Ha1 Ha2 R5 R6 Hfr.
  assert (T' : tiles 0 a' l1' /\ tiles (a' + w') m l2' /\ 0 < w').
  { apply tiles_app in Ht' as (x & T1' & T2'). cbn [tiles] in T2'. destruct T2' as (-> & Hw' & T2'). auto. }
  destruct T' as (T1' & T2' & Hw').
  assert (Hl1 : forall sp, In sp l1' -> In sp l1).
  { destruct R6 as [(-> & _)|(cj & -> & _)]; [auto|]. intros sp Hsp. apply in_or_app. left. assumption. }
  assert (Hl2 : forall sp, In sp l2' -> In sp l2).
  { destruct R5 as [(-> & _)|(c2 & -> & _)]; [auto|]. intros sp Hsp. right. assumption. }
  intros i c c2 H1 H2 Hz.
  apply In_app_mid in H1 as [E1|H1].
  - (* the merged free span: what follows it is in use *)
    inversion E1; subst i c. clear E1.
    assert (H2' : In (a' + w', c2) l2').
    { apply In_app_mid in H2 as [E2|H2]; [inversion E2; lia|]. apply in_app_or in H2 as [H2|H2]; [|assumption].
      destruct (raw_left _ _ _ _ T1' H2). lia. }
    rewrite Hfr by lia.
    destruct R5 as [(-> & E & Hb)|(c2' & -> & E & Hb)].
    + rewrite E. apply Hb. rewrite <- E. apply (Hlt _ _ H2').
    + rewrite E. apply (Hcc (a + w) c2' c2).
      * apply in_or_app. right. left. reflexivity.
      * apply in_or_app. right. right. replace (a + w + c2') with (a' + w') by lia. assumption.
      * assumption.
  - apply in_app_or in H1 as [H1|H1].
    + (* a free span in front of the merged one *)
      destruct (raw_left _ _ _ _ T1' H1) as (Hle & Hc).
      rewrite Hfr in Hz by lia.
      destruct (N.eq_dec (i + c) a') as [Ea|Ea].
      * exfalso. destruct R6 as [(-> & -> & Hlast)|(cj & -> & Ecj & Hbz)].
        -- destruct (tiles_last _ _ _ T1 ltac:(lia)) as (r & j & cj & Er & _ & Ej & Hcj0).
           assert (Hin_last : In (j, cj) l1) by (rewrite Er; apply in_or_app; right; left; reflexivity).
           destruct (tiles_disjoint _ _ _ _ _ _ _ T1 H1 Hin_last) as [[E1 E2]|[Hd|Hd]]; try lia.
           subst j cj. specialize (Hlast _ _ _ Er). lia.
        -- assert (Hpos : 0 < bsz (get es (i + c))).
           { apply (Hcc i c cj); [apply in_or_app; left; apply in_or_app; left; assumption| |assumption].
             apply in_or_app. left. apply in_or_app. right. left. f_equal. lia. }
           rewrite Ea in Hpos. lia.
      * assert (H2' : In (i + c, c2) l1').
        { apply In_app_mid in H2 as [E2|H2]; [inversion E2; lia|]. apply in_app_or in H2 as [H2|H2]; [assumption|].
          destruct (raw_right _ _ _ _ _ T2' H2). lia. }
        destruct (raw_left _ _ _ _ T1' H2'). rewrite Hfr by lia.
        apply (Hcc i c c2); [apply in_or_app; left; apply Hl1; assumption|apply in_or_app; left; apply Hl1; assumption|assumption].
    + (* a free span behind the merged one *)
      destruct (raw_right _ _ _ _ _ T2' H1) as (Hge & Hc).
      rewrite Hfr in Hz by lia.
      assert (H2' : In (i + c, c2) l2').
      { apply In_app_mid in H2 as [E2|H2]; [inversion E2; lia|]. apply in_app_or in H2 as [H2|H2]; [|assumption].
        destruct (raw_left _ _ _ _ T1' H2). lia. }
      rewrite Hfr by lia.
      apply (Hcc i c c2); [apply in_or_app; right; apply Hl2; assumption|apply in_or_app; right; apply Hl2; assumption|assumption].
Qed.

Lemma CCpos_sub es l1 x l2 : CCpos es (l1 ++ x :: l2) -> CCpos es (l1 ++ l2).
Proof.
  intros H i c c2 H1 H2 Hz. apply (H i c c2); [apply In_app_mid; right; assumption|apply In_app_mid; right; assumption|assumption].
Qed.

(* mi_segment_page_clear keeps a normal segment coalesced *)
Theorem page_clear_CC sg qs sps m i c :
  span_Inv_with (used sg) (sg, qs) sps m -> kind sg = SegNormal -> In (i, c) sps -> i <> 0 ->
  0 < bsz (get (entries sg) i) -> CCpos (entries sg) sps ->
  coalesced (fst (fst (page_clear (sg, qs) i))).
Proof.
  intros Hinv Hk Hin Hi0 Hb Hcc.
  destruct (page_clear_normal (used sg) sg qs sps m i c Hinv eq_refl Hk Hin Hi0 Hb)
    as (l1 & l2 & l1' & l2' & a' & w' & Es & Hres). cbv zeta in Hres.
  destruct Hres as (_ & Hinv' & _ & _ & Ha1 & Ha2 & R5 & R6 & Hfr & _ & Hfrs).
  exists (l1' ++ (a', w') :: l2'). split; [apply (inv_spans_of _ _ _ _ Hinv')|].
  pose proof Hinv as (Ht & _). pose proof Hinv' as (Ht' & _ & Hf' & _).
  rewrite Es in Ht, Hcc. apply tiles_app in Ht as (x & T1 & T2). cbn [tiles] in T2. destruct T2 as (Ex & Hc & T2). subst x.
  apply (merge_CC (entries sg) _ (slice_entries sg) l1 l2 i c l1' l2' a' w' m); auto.
  - intros j cj Hj. rewrite Forall_forall in Hf'. destruct (Hf' (j, cj)) as (Hx & _); [apply in_or_app; right; right; assumption|].
    cbn [fst] in Hx. destruct Hfrs as (_ & _ & F3 & _). rewrite F3 in Hx. assumption.
  - apply (CCpos_sub _ _ _ _ Hcc).
Qed.

(* storing a block size keeps the segment coalesced *)
Lemma set_block_size_CC sg qs sps i bs :
  0 < bsz (get (entries sg) i) -> 0 < bs -> CCpos (entries sg) sps ->
  CCpos (entries (fst (set_block_size (sg, qs) i bs))) sps.
Proof.
  intros Hb Hbs Hcc j c c2 H1 H2 Hz. unfold set_block_size in *. cbn [fst entries set_entries] in *.
  assert (Hg : forall x, (bsz (get (set_bsz (entries sg) i bs) x) = 0 <-> bsz (get (entries sg) x) = 0)).
  { intros x. destruct (N.eq_dec x i) as [->|Hne]; [|rewrite get_set_bsz_other by assumption; reflexivity].
    destruct (N.lt_ge_cases i (len (entries sg))) as [Hl|Hl].
    - rewrite get_set_bsz_same by assumption. cbn. lia.
    - unfold set_bsz, set, get. assert (Hn : forall (l : list slice) k s, (length l <= k)%nat -> set_nat l k s = l).
      { induction l as [|y r IH]; intros [|k] s Hk; cbn in *; try lia; auto. f_equal. apply IH. lia. }
      rewrite Hn by (unfold len in Hl; lia). reflexivity. }
  apply Hg in Hz. specialize (Hcc j c c2 H1 H2 Hz).
  destruct (N.eq_dec (bsz (get (set_bsz (entries sg) i bs) (j + c))) 0) as [E|E]; [apply Hg in E; lia|lia].
Qed.

(* a successful allocation keeps the segment coalesced *)
Theorem find_and_allocate_ok_CC sg qs count suit sps m b idx :
  span_Inv_with (used sg) (sg, qs) sps m -> find_span (sg, qs) count suit = Some (b, idx) ->
  CCpos (entries sg) sps ->
  coalesced (fst (snd (page_find_and_allocate (sg, qs) count suit true))).
Proof.
  intros Hinv Ef Hcc.
  destruct (find_and_allocate_ok sg qs count suit sps m b idx Hinv Ef)
    as (l1 & l2 & c & st' & Es & Hb0 & Hkc & _ & Ep & Hinv' & _ & Hbi & Hbt & Hfr).
  set (k := if count =? 0 then 1 else count) in *.
  rewrite Ep. cbn [snd]. exists (alloc_spans l1 l2 idx c k). split; [apply (inv_spans_of _ _ _ _ Hinv')|].
  pose proof Hinv as (Ht & _). rewrite Es in Ht, Hcc.
  apply tiles_app in Ht as (x & T1 & T2). cbn [tiles] in T2. destruct T2 as (Ex & Hc & T2). subst x.
  assert (Hk0 : 0 < k) by (unfold k; destruct (count =? 0) eqn:E0; [lia|apply N.eqb_neq in E0; lia]).
  unfold alloc_spans, split_tail.
  intros i ci c2 H1 H2 Hz.
  (* where the successor of a span of l1 / l2 lies *)
  apply In_app_mid in H1 as [E1|H1]; [inversion E1; subst; lia|].
  apply in_app_or in H1 as [H1|H1].
  - destruct (raw_left _ _ _ _ T1 H1) as (Hle & Hci). rewrite Hfr in Hz by lia.
    apply In_app_mid in H2 as [E2|H2]; [inversion E2 as [[E3 E4]]; rewrite E3; assumption|].
    apply in_app_or in H2 as [H2|H2].
    + destruct (raw_left _ _ _ _ T1 H2). rewrite Hfr by lia.
      apply (Hcc i ci c2); [apply in_or_app; left; assumption|apply in_or_app; left; assumption|assumption].
    + exfalso. destruct (k <? c) eqn:Ekc.
      * destruct H2 as [E2|H2]; [inversion E2; lia|]. destruct (raw_right _ _ _ _ _ T2 H2). lia.
      * destruct (raw_right _ _ _ _ _ T2 H2). lia.
  - (* in the tail: the split remainder or a span of l2 *)
    assert (Hsucc : forall j cj, In (j, cj) l2 -> bsz (get (entries sg) j) = 0 -> In (j + cj, c2) l2 -> 0 < bsz (get (entries sg) (j + cj))).
    { intros j cj Hj Hzj Hs. apply (Hcc j cj c2); [apply in_or_app; right; right; assumption|apply in_or_app; right; right; assumption|assumption]. }
    assert (Hin2 : forall j cj, idx + c <= j -> In (j, cj) (l1 ++ (idx, k) :: (if k <? c then (idx + k, c - k) :: l2 else l2)) -> In (j, cj) l2).
    { intros j cj Hj Hin. apply In_app_mid in Hin as [E|Hin]; [inversion E; lia|].
      apply in_app_or in Hin as [Hin|Hin]; [destruct (raw_left _ _ _ _ T1 Hin); lia|].
      destruct (k <? c) eqn:Ekc; [|assumption]. destruct Hin as [E|Hin]; [inversion E; apply N.ltb_lt in Ekc; lia|assumption]. }
    destruct (k <? c) eqn:Ekc.
    + apply N.ltb_lt in Ekc. destruct H1 as [E1|H1].
      * inversion E1; subst i ci. replace (idx + k + (c - k)) with (idx + c) in * by lia.
        assert (Hge : idx + c <= idx + c) by lia. pose proof (Hin2 _ _ Hge H2) as H2'. rewrite Hfr by lia.
        apply (Hcc idx c c2); [apply in_or_app; right; left; reflexivity|apply in_or_app; right; right; assumption|assumption].
      * destruct (raw_right _ _ _ _ _ T2 H1). rewrite Hfr in Hz by lia. rewrite Hfr by lia.
        apply (Hsucc i ci H1 Hz). apply Hin2; [lia|assumption].
    + destruct (raw_right _ _ _ _ _ T2 H1). rewrite Hfr in Hz by lia. rewrite Hfr by lia.
      apply (Hsucc i ci H1 Hz). apply Hin2; [lia|]. assumption.
Qed.

(* a failed commit (the span is freed and coalesced again) keeps the segment coalesced *)
Theorem find_and_allocate_fail_CC sg qs count suit sps m b idx :
  span_Inv_with (used sg) (sg, qs) sps m -> find_span (sg, qs) count suit = Some (b, idx) ->
  CCpos (entries sg) sps ->
  coalesced (fst (snd (page_find_and_allocate (sg, qs) count suit false))).
Proof.
  intros Hinv Ef Hcc.
  destruct (find_prepare sg qs count suit sps m b idx Hinv Ef)
    as (l1 & l2 & c & sg2 & qs2 & Es & Hb0 & Hkc & Hsuit & Hk & Hq & Hb & Hpf & Hraw2 & Hc2 & Hu2 & Hget2 & Hbz2 & Hfr2).
  set (k := if count =? 0 then 1 else count) in *.
  destruct (span_free_coalesce_raw (used sg) sg2 qs2 idx k l1 _ m Hraw2 Hc2)
    as (l1' & l2' & a' & w' & Hres). cbv zeta in Hres.
  destruct Hres as (R0 & R1 & R2 & R3 & R4 & R5 & R6 & R7 & R8 & R9).
  rewrite Hpf. cbn [span_allocate negb snd].
  exists (l1' ++ (a', w') :: l2'). split; [apply (inv_spans_of _ _ _ _ R1)|].
  pose proof Hinv as (Ht & _). rewrite Es in Ht, Hcc.
  apply tiles_app in Ht as (x & T1 & T2). cbn [tiles] in T2. destruct T2 as (Ex & Hc & T2). subst x.
  pose proof Hraw2 as (_ & _ & Hk0 & T2s & _). cbn [fst snd] in *.
  pose proof R1 as (Ht' & _ & Hf' & _).
  apply (merge_CC (entries sg2) _ (slice_entries sg2) l1 (split_tail l2 idx c k) idx k l1' l2' a' w' m); auto.
  - intros j cj Hj. rewrite Forall_forall in Hf'. destruct (Hf' (j, cj)) as (Hx & _); [apply in_or_app; right; right; assumption|].
    cbn [fst] in Hx. destruct R9 as (_ & _ & F3 & _). rewrite F3 in Hx. assumption.
  - (* the state before the coalesce is coalesced outside the raw region *)
    unfold split_tail in *.
    assert (Hin2 : forall j cj, idx + c <= j -> In (j, cj) (l1 ++ (if k <? c then (idx + k, c - k) :: l2 else l2)) -> In (j, cj) l2).
    { intros j cj Hj Hin. apply in_app_or in Hin as [Hin|Hin]; [destruct (raw_left _ _ _ _ T1 Hin); lia|].
      destruct (k <? c) eqn:Ekc; [|assumption]. destruct Hin as [E|Hin]; [inversion E; apply N.ltb_lt in Ekc; lia|assumption]. }
    intros i ci c2 H1 H2 Hz.
    apply in_app_or in H1 as [H1|H1].
    + destruct (raw_left _ _ _ _ T1 H1) as (Hle & Hci). rewrite Hget2 in Hz by lia.
      apply in_app_or in H2 as [H2|H2].
      * destruct (raw_left _ _ _ _ T1 H2). rewrite Hget2 by lia.
        apply (Hcc i ci c2); [apply in_or_app; left; assumption|apply in_or_app; left; assumption|assumption].
      * exfalso. destruct (k <? c) eqn:Ekc.
        -- destruct H2 as [E2|H2]; [inversion E2; lia|]. destruct (raw_right _ _ _ _ _ T2 H2). lia.
        -- destruct (raw_right _ _ _ _ _ T2 H2). lia.
    + assert (Hsucc : forall j cj, In (j, cj) l2 -> bsz (get (entries sg) j) = 0 -> In (j + cj, c2) l2 -> 0 < bsz (get (entries sg) (j + cj))).
      { intros j cj Hj Hzj Hs. apply (Hcc j cj c2); [apply in_or_app; right; right; assumption|apply in_or_app; right; right; assumption|assumption]. }
      destruct (k <? c) eqn:Ekc.
      * apply N.ltb_lt in Ekc. destruct H1 as [E1|H1].
        -- inversion E1; subst i ci. replace (idx + k + (c - k)) with (idx + c) in * by lia.
           assert (Hge : idx + c <= idx + c) by lia. pose proof (Hin2 _ _ Hge H2) as H2'. rewrite Hget2 by lia.
           apply (Hcc idx c c2); [apply in_or_app; right; left; reflexivity|apply in_or_app; right; right; assumption|assumption].
        -- destruct (raw_right _ _ _ _ _ T2 H1). rewrite Hget2 in Hz by lia. rewrite Hget2 by lia.
           apply (Hsucc i ci H1 Hz). apply Hin2; [lia|assumption].
      * destruct (raw_right _ _ _ _ _ T2 H1). rewrite Hget2 in Hz by lia. rewrite Hget2 by lia.
        apply (Hsucc i ci H1 Hz). apply Hin2; [lia|]. assumption.
Qed.

(* ---- the segment kind never changes ---- *)
Lemma kind_span_free st a w : kind (fst (span_free st a w)) = kind (fst st).
Proof. destruct st as [sg qs]. rewrite span_free_unfold. reflexivity. Qed.

Lemma kind_queue_delete st b i : kind (fst (span_queue_delete st b i)) = kind (fst st).
Proof. destruct st as [sg qs]. reflexivity. Qed.

Lemma kind_slice_split st i k : kind (fst (slice_split st i k)) = kind (fst st).
Proof.
  unfold slice_split. destruct (slice_count (get (entries (fst st)) i) <=? k); [reflexivity|].
  pose proof (kind_span_free st (i + k) (slice_count (get (entries (fst st)) i) - k)) as H.
  destruct (span_free st (i + k) (slice_count (get (entries (fst st)) i) - k)) as [sg1 qs1]. cbn [fst] in *. exact H.
Qed.

Lemma kind_span_allocate st i c b st' : span_allocate st i c b = Some st' -> kind (fst st') = kind (fst st).
Proof.
  destruct st as [sg qs]. destruct b; [|discriminate]. rewrite span_allocate_unfold. intros H. inversion H. reflexivity.
Qed.

Lemma kind_free_coalesce st i : kind (fst (fst (span_free_coalesce st i))) = kind (fst st).
Proof.
  destruct st as [sg qs]. cbn [fst].
  assert (Hkk : kind sg = SegNormal \/ kind sg = SegHuge) by (destruct (kind sg); auto).
  destruct Hkk as [Ek|Ek].
  - rewrite (span_free_coalesce_normal sg qs i Ek).
    assert (H1 : kind (fst (fst (fc_next (sg, qs) i))) = kind sg).
    { unfold fc_next. cbn [fst snd].
      destruct ((i + slice_count (get (entries sg) i) <? slice_entries sg) && (bsz (get (entries sg) (i + slice_count (get (entries sg) i))) =? 0));
        [|reflexivity]. destruct (negb (owned sg)); reflexivity. }
    destruct (fc_next (sg, qs) i) as [st1 c1]. cbn [fst] in H1.
    assert (H2 : kind (fst (fst (fst (fc_prev (negb (owned sg)) st1 c1 i)))) = kind (fst st1)).
    { unfold fc_prev. destruct (0 <? i); [|reflexivity].
      destruct (bsz (get (entries (fst st1)) (slice_first (i - 1) (slice_offset (get (entries (fst st1)) (i - 1))))) =? 0); [|reflexivity].
      destruct (negb (owned sg)); reflexivity. }
    destruct (fc_prev (negb (owned sg)) st1 c1 i) as [[st2 c2] i2]. cbn [fst] in *.
    rewrite kind_span_free. congruence.
  - unfold span_free_coalesce. rewrite Ek. cbn [fst kind set_entries]. exact Ek.
Qed.

Lemma kind_find_and_allocate st count suit b :
  kind (fst (snd (page_find_and_allocate st count suit b))) = kind (fst st).
Proof.
  unfold page_find_and_allocate. destruct (find_span st count suit) as [[bb idx]|]; [|reflexivity].
  set (k := if count =? 0 then 1 else count).
  set (st1 := span_queue_delete st bb idx).
  assert (H1 : kind (fst st1) = kind (fst st)) by apply kind_queue_delete.
  set (st2 := if k <? slice_count (get (entries (fst st1)) idx) then slice_split st1 idx k else st1).
  assert (H2 : kind (fst st2) = kind (fst st)).
  { unfold st2. destruct (k <? slice_count (get (entries (fst st1)) idx)); [rewrite kind_slice_split|]; assumption. }
  destruct (span_allocate st2 idx (slice_count (get (entries (fst st2)) idx)) b) as [st3|] eqn:Ea.
  - cbn [snd]. rewrite (kind_span_allocate _ _ _ _ _ Ea). assumption.
  - cbn [snd]. rewrite kind_free_coalesce. assumption.
Qed.

Lemma kind_page_clear st i : kind (fst (fst (page_clear st i))) = kind (fst st).
Proof.
  destruct st as [sg qs]. unfold page_clear.
  pose proof (kind_free_coalesce (set_entries sg (set_bsz (entries sg) i 1), qs) i) as H.
  destruct (span_free_coalesce (set_entries sg (set_bsz (entries sg) i 1), qs) i) as [[sg2 qs2] f]. cbn [fst] in *. exact H.
Qed.

Lemma kind_step st o st' : span_step st o = Some st' -> kind (fst st') = kind (fst st).
Proof.
  destruct o as [count suit b|idx bs|idx]; cbn [span_step].
  - destruct (count <=? MI_SLICES_PER_SEGMENT); [|discriminate]. intros H. inversion H. apply kind_find_and_allocate.
  - destruct ((1 <? bs) && (0 <? idx) && memNb idx (map fst (used_spans (fst st)))); [|discriminate].
    intros H. inversion H. destruct st as [sg qs]. reflexivity.
  - destruct ((0 <? idx) && memNb idx (map fst (used_spans (fst st)))); [|discriminate].
    intros H. inversion H. apply kind_page_clear.
Qed.

(* ---- every step keeps the segment coalesced ---- *)
Theorem span_step_coalesced st o st' :
  span_Inv st -> coalesced (fst st) -> span_step st o = Some st' -> coalesced (fst st').
Proof.
  intros Hinv Hco Hs.
  assert (Hkk : kind (fst st) = SegNormal \/ kind (fst st) = SegHuge) by (destruct (kind (fst st)); auto).
  destruct Hkk as [Ek|Ek].
  2:{ (* huge: trivially coalesced *)
    pose proof (span_inv_step st o st' Hinv Hs) as (sps' & m' & Hinv').
    pose proof (kind_step _ _ _ Hs) as Hk'. rewrite Ek in Hk'.
    destruct st' as [sg' qs']. exists sps'. split; [apply (inv_spans_of _ _ _ _ Hinv')|].
    apply (CCpos_huge _ _ _ _ _ Hinv' Hk'). }
  destruct st as [sg qs]. destruct Hinv as (sps & m & Hinv). cbn [fst] in *.
  destruct Hco as (sps0 & Hsp0 & Hcc). pose proof (inv_spans_of _ _ _ _ Hinv) as Hsp1. cbn [fst] in Hsp1.
  rewrite Hsp1 in Hsp0. inversion Hsp0; subst sps0. clear Hsp0 Hsp1.
  destruct o as [count suit commit_ok|idx bs|idx]; cbn [span_step] in Hs.
  - destruct (count <=? MI_SLICES_PER_SEGMENT); [|discriminate]. inversion Hs; subst st'. clear Hs.
    destruct (find_span (sg, qs) count (fun _ => suit)) as [[b idx]|] eqn:Ef.
    + destruct commit_ok.
      * apply (find_and_allocate_ok_CC sg qs count _ sps m b idx); assumption.
      * apply (find_and_allocate_fail_CC sg qs count _ sps m b idx); assumption.
    + unfold page_find_and_allocate. rewrite Ef. cbn [snd fst]. exists sps. split; [apply (inv_spans_of _ _ _ _ Hinv)|assumption].
  - destruct ((1 <? bs) && (0 <? idx) && memNb idx (map fst (used_spans (fst (sg, qs))))) eqn:E; [|discriminate].
    inversion Hs; subst st'. clear Hs.
    apply andb_prop in E as [E E3]. apply andb_prop in E as [E1 E2]. apply N.ltb_lt in E1.
    apply memNb_map_fst in E3 as (c & Hin). apply (In_used_spans _ _ _ _ _ _ Hinv) in Hin as (Hin & Hb). cbn [fst] in Hb.
    exists sps. split.
    + apply (inv_spans_of (used sg) _ _ m). apply (set_block_size_inv _ _ _ _ _ _ c); auto; lia.
    + apply set_block_size_CC; auto; lia.
  - destruct ((0 <? idx) && memNb idx (map fst (used_spans (fst (sg, qs))))) eqn:E; [|discriminate].
    inversion Hs; subst st'. clear Hs.
    apply andb_prop in E as [E2 E3]. apply N.ltb_lt in E2.
    apply memNb_map_fst in E3 as (c & Hin). apply (In_used_spans _ _ _ _ _ _ Hinv) in Hin as (Hin & Hb). cbn [fst] in Hb.
    apply (page_clear_CC sg qs sps m idx c); auto; lia.
Qed.

Theorem span_run_coalesced st ops st' :
  span_Inv st -> coalesced (fst st) -> span_run st ops = Some st' -> coalesced (fst st').
Proof.
  revert st. induction ops as [|o r IH]; intros st Hinv Hco Hr; cbn [span_run] in Hr.
  - inversion Hr; subst. assumption.
  - destruct (span_step st o) as [st1|] eqn:Es; [|discriminate].
    apply (IH st1); [apply (span_inv_step st o); assumption|apply (span_step_coalesced st o); assumption|assumption].
Qed.

(* no two adjacent free spans in any reachable state *)
Theorem coalesce_complete st : span_reachable st -> coalesced (fst st).
Proof.
  intros [(ops & Hr)|(ss & st0 & ops & H2 & H32 & Hi & Hr)].
  - destruct span_inv_init_normal as (Hinv & _ & Hcb & _).
    apply (span_run_coalesced init_normal ops); [assumption| |assumption].
    destruct Hinv as (sps & m & Hinv). exists sps. split; [apply (inv_spans_of _ _ _ _ Hinv)|].
    apply (coalesced_b_spec _ _ _ _ Hinv). assumption.
  - destruct (huge_init_inv ss H2 H32) as (st0' & Hi' & Hinv & Hu & Hk & _). rewrite Hi in Hi'. inversion Hi'; subst st0'.
    apply (span_run_coalesced st0 ops); [exists [(0, 1); (1, ss - 1)], ss; rewrite Hu; exact Hinv| |assumption].
    exists [(0, 1); (1, ss - 1)]. split; [apply (inv_spans_of _ _ _ _ Hinv)|].
    destruct st0 as [sg0 qs0]. apply (CCpos_huge _ _ _ _ _ Hinv Hk).
Qed.

(* ------------------------------------------------------------------------------------- *)
(* commit failure in mi_segments_page_find_and_allocate restores the segment               *)
(* ------------------------------------------------------------------------------------- *)

Lemma slice_eta (e : slice) a b c : slice_count e = a -> slice_offset e = b -> bsz e = c -> e = mkSlice a b c.
Proof. destruct e; cbn; intros; subst; reflexivity. Qed.

(* a free span of a valid normal segment: its first and last entry are determined *)
Lemma free_span_entries U sg qs sps m i c :
  span_Inv_with U (sg, qs) sps m -> kind sg = SegNormal -> In (i, c) sps -> bsz (get (entries sg) i) = 0 ->
  get (entries sg) i = mkSlice c 0 0 /\
  (1 < c -> get (entries sg) (i + c - 1) = mkSlice 0 ((c - 1) * sizeof_mi_slice_t) 0).
Proof.
  intros (_ & _ & Hf & Hok & _) Hk Hin Hb. cbn [fst snd] in *. rewrite Forall_forall in Hf, Hok.
  destruct (Hf _ Hin) as (_ & Hc & Ho). destruct (Hok _ Hin) as (_ & K2 & _ & K4). cbn [fst snd] in *.
  specialize (K2 Hk). destruct (K4 Hb) as (V1 & V2 & V3 & _). cbv zeta in V1, V2, V3.
  rewrite N.min_l in V1, V2, V3 by lia.
  split; [apply slice_eta; assumption|]. intros Hc1. apply slice_eta.
  - destruct V2 as [V2|V2]; [lia|assumption].
  - rewrite V1 by (left; assumption). f_equal. lia.
  - destruct V3 as [V3|(V3 & _)]; [assumption|congruence].
Qed.

Theorem find_and_allocate_fail_restores sg qs count suit sps m b idx :
  span_Inv_with (used sg) (sg, qs) sps m -> CCpos (entries sg) sps ->
  find_span (sg, qs) count suit = Some (b, idx) ->
  exists st' c, page_find_and_allocate (sg, qs) count suit false = (None, st') /\ In (idx, c) sps /\
    (* the same spans, the same `used` *)
    span_Inv_with (used sg) st' sps m /\ used (fst st') = used sg /\
    (* every entry except the interior ones of the span that was tried *)
    (forall j, j <= idx \/ idx + c - 1 <= j -> get (entries (fst st')) j = get (entries sg) j) /\
    (* the queues hold the same spans (the tried span moved to the front of its queue) *)
    (forall bb, Permutation (q_get (snd st') bb) (q_get qs bb)).
Proof.
  intros Hinv Hcc Ef.
  destruct (find_prepare sg qs count suit sps m b idx Hinv Ef)
    as (l1 & l2 & c & sg2 & qs2 & Es & Hb0 & Hkc & Hsuit & Hk & Hq & Hb & Hpf & Hraw2 & Hc2 & Hu2 & Hget2 & Hbz2 & Hfr2).
  set (k := if count =? 0 then 1 else count) in *.
  destruct (span_free_coalesce_raw (used sg) sg2 qs2 idx k l1 _ m Hraw2 Hc2)
    as (l1' & l2' & a' & w' & Hres). cbv zeta in Hres.
  destruct Hres as (R0 & R1 & R2 & R3 & R4 & R5 & R6 & R7 & R8 & R9).
  set (st' := fst (span_free_coalesce (sg2, qs2) idx)) in *.
  assert (Hin : In (idx, c) sps) by (rewrite Es; apply in_or_app; right; left; reflexivity).
  exists st', c. split; [rewrite Hpf; reflexivity|]. split; [assumption|].
  pose proof Hinv as (Ht & _ & Hf & Hok & _ & _ & _ & _ & _ & Hn & (Q1 & Q2 & Q3 & Q4)). cbn [fst snd] in *.
  pose proof Ht as Ht0. rewrite Es in Ht0.
  apply tiles_app in Ht0 as (x & T1 & T2). cbn [tiles] in T2. destruct T2 as (Ex & Hc & T2). subst x.
  assert (Hidxn : idx + c <= slice_entries sg).
  { rewrite Forall_forall in Hok. destruct (Hok _ Hin) as (_ & Hx & _). apply Hx. assumption. }
  assert (Hse2 : slice_entries sg2 = slice_entries sg) by (destruct Hfr2 as (_ & _ & F3 & _); assumption).
  (* nothing beyond the tried span is merged *)
  assert (E2 : l2' = l2 /\ a' + w' = idx + c).
  { unfold split_tail in R5. destruct (k <? c) eqn:Ekc.
    - apply N.ltb_lt in Ekc. destruct R5 as [(_ & _ & Hb5)|(c2 & E5 & E5' & _)].
      + rewrite Hbz2 in Hb5 by assumption. rewrite Hse2 in Hb5. lia.
      + inversion E5; subst. split; [reflexivity|lia].
    - apply N.ltb_ge in Ekc. assert (k = c) by lia.
      destruct R5 as [(E5 & E5' & _)|(c2 & E5 & _ & Hb5)]; [split; [assumption|lia]|].
      exfalso. rewrite Hget2 in Hb5 by lia.
      assert (Hpos : 0 < bsz (get (entries sg) (idx + c))).
      { apply (Hcc idx c c2); [assumption| |assumption]. rewrite Es. apply in_or_app. right. right. rewrite E5. left. f_equal. lia. }
      replace (idx + k) with (idx + c) in Hb5 by lia. lia. }
  destruct E2 as (El2 & Eaw).
  assert (E1 : l1' = l1 /\ a' = idx).
  { destruct R6 as [(E6 & E6' & _)|(cj & E6 & E6' & Hb6)]; [split; assumption|].
    exfalso.
    assert (Hcj : 0 < cj). { rewrite E6 in T1. apply tiles_app in T1 as (x & _ & T1). cbn [tiles] in T1. lia. }
    rewrite Hget2 in Hb6 by lia.
    assert (Hpos : 0 < bsz (get (entries sg) (a' + cj))).
    { apply (Hcc a' cj c); [|rewrite E6'; assumption|assumption].
      rewrite Es, E6. apply in_or_app. left. apply in_or_app. right. left. reflexivity. }
    rewrite E6' in Hpos. lia. }
  destruct E1 as (El1 & Ea). clear R0. subst l1' l2' a'. assert (w' = c) by lia. subst w'. rewrite <- Es in R1.
  split; [assumption|]. split; [congruence|].
  assert (Hk' : kind (fst st') = SegNormal).
  { destruct R9 as (F1 & _). destruct Hfr2 as (G1 & _). congruence. }
  assert (Hent : forall j, j <= idx \/ idx + c - 1 <= j -> get (entries (fst st')) j = get (entries sg) j).
  { intros j Hj.
    destruct (free_span_entries _ _ _ _ _ _ _ Hinv Hk Hin Hb0) as (A1 & A2).
    assert (Hinv'' : span_Inv_with (used sg) (fst st', snd st') sps m) by (destruct st'; exact R1).
    destruct (free_span_entries _ _ _ _ _ _ _ Hinv'' Hk' Hin R8) as (B1 & B2).
    destruct (N.eq_dec j idx) as [->|Hne]; [congruence|].
    destruct (N.eq_dec j (idx + c - 1)) as [->|Hne2]; [rewrite A2, B2 by lia; reflexivity|].
    rewrite R7 by lia. apply Hget2. lia. }
  split; [assumption|].
  (* the queues *)
  pose proof R1 as (_ & _ & Hf' & Hok' & _ & _ & _ & _ & _ & _ & (Q1' & Q2' & Q3' & Q4')).
  assert (Hqd : queued sg = true).
  { destruct (queued sg) eqn:E; [reflexivity|]. rewrite (Q4 eq_refl b) in Hq. destruct Hq. }
  assert (Hqd' : queued (fst st') = true).
  { rewrite (frame_seg_queued _ _ R9). rewrite (frame_seg_queued _ _ Hfr2). assumption. }
  assert (Hbsz : forall i ci, In (i, ci) sps -> bsz (get (entries (fst st')) i) = bsz (get (entries sg) i)).
  { intros i ci Hi. destruct (N.eq_dec i idx) as [->|Hne]; [rewrite R8, Hb0; reflexivity|].
    rewrite Hent; [reflexivity|].
    destruct (tiles_disjoint _ _ _ _ _ _ _ Ht Hi Hin) as [[E _]|[Hd|Hd]]; [congruence| |];
      destruct (tiles_In _ _ _ _ _ Ht Hi) as (_ & _ & Hci); lia. }
  intros bb. apply NoDup_Permutation; [apply Q2'|apply Q2|]. intros i. split.
  - intros Hi. destruct (Q3' bb i Hi) as (A1 & A2 & A3).
    set (ci := slice_count (get (entries (fst st')) i)) in *.
    rewrite (Hbsz _ _ A2) in A1.
    rewrite Forall_forall in Hok. destruct (Hok _ A2) as (_ & _ & _ & K4). cbn [fst snd] in K4.
    destruct (K4 A1) as (_ & _ & _ & V4). rewrite <- A3. apply V4. assumption.
  - intros Hi. destruct (Q3 bb i Hi) as (A1 & A2 & A3).
    set (ci := slice_count (get (entries sg) i)) in *.
    rewrite <- (Hbsz _ _ A2) in A1.
    rewrite Forall_forall in Hok'. destruct (Hok' _ A2) as (_ & _ & _ & K4). cbn [fst snd] in K4.
    destruct (K4 A1) as (_ & _ & _ & V4). rewrite <- A3. apply V4. assumption.
Qed.

(* ------------------------------------------------------------------------------------- *)
(* the search over the queues of several segments, seen from the segment it picks          *)
(* ------------------------------------------------------------------------------------- *)

Lemma t_find_in_queue_proj segs count suit sid sg q :
  seg_lookup segs sid = Some sg ->
  (forall idx, t_find_in_queue segs count suit q = Some (sid, idx) ->
     find_in_queue (entries sg) count (fun _ => suit sid) (proj_queue sid q) = Some idx) /\
  (t_find_in_queue segs count suit q = None ->
     find_in_queue (entries sg) count (fun _ => suit sid) (proj_queue sid q) = None).
Proof.
  intros Hl. induction q as [|[s i] r [IH1 IH2]]; cbn [t_find_in_queue].
  - split; [discriminate|reflexivity].
  - unfold proj_queue in *. cbn [filter fst]. destruct (s =? sid) eqn:Es.
    + apply N.eqb_eq in Es. subst s. rewrite Hl. cbn [map snd find_in_queue].
      destruct ((count <=? slice_count (get (entries sg) i)) && suit sid) eqn:Et.
      * split; [intros idx H; inversion H; reflexivity|discriminate].
      * split; assumption.
    + apply N.eqb_neq in Es. destruct (seg_lookup segs s) as [sg'|].
      * destruct ((count <=? slice_count (get (entries sg') i)) && suit s).
        -- split; [intros idx H; inversion H; congruence|discriminate].
        -- split; assumption.
      * split; assumption.
Qed.

Lemma t_find_bins_proj segs count suit sid sg idx :
  seg_lookup segs sid = Some sg ->
  forall tqs b0, t_find_bins segs count suit tqs = Some (sid, idx) ->
  exists b, find_bins (entries sg) count (fun _ => suit sid) (proj_queues sid tqs) b0 = Some (b, idx).
Proof.
  intros Hl. induction tqs as [|q r IH]; intros b0; cbn [t_find_bins]; [discriminate|].
  destruct (t_find_in_queue_proj segs count suit sid sg q Hl) as (P1 & P2).
  unfold proj_queues. cbn [map find_bins].
  destruct (t_find_in_queue segs count suit q) as [x|] eqn:E.
  - intros H. inversion H; subst x. rewrite (P1 idx eq_refl). exists b0. reflexivity.
  - intros H. rewrite (P2 eq_refl). apply (IH (b0 + 1) H).
Qed.

(* the (segment, slice) found by the search over all queues is the slice the search finds in that
   segment's own queues *)
Theorem t_find_proj segs tqs count suit sid idx sg :
  t_find segs tqs count suit = Some (sid, idx) -> seg_lookup segs sid = Some sg ->
  exists b, find_span (sg, proj_queues sid tqs) count (fun _ => suit sid) = Some (b, idx).
Proof.
  unfold t_find, find_span. intros H Hl.
  unfold proj_queues. rewrite firstn_map. rewrite skipn_map.
  apply (t_find_bins_proj segs _ suit sid sg idx Hl _ _ H).
Qed.
