(* Composition layer (C01): the abstraction abs : mem -> Api.state, the composition theorems
     compose_answer_ok        the block returned by malloc satisfies the API layer's contract answer_ok
     compose_refines          every operation commutes with abs
     compose_reachable_inv    mem_inv in every reachable state
   and the instantiation of ApiOpen.answer_contract_stmt. *)
From Coq Require Import NArith ZArith Lia Bool List.
From Coq Require Import ZifyN ZifyBool.
From MiV Require Import Gen.Consts Gen.Bins Model.Arith Model.Page Model.Span Model.Compose
  Proofs.Base Proofs.PageProofs Proofs.SpanBase Proofs.SpanInv Proofs.SpanProofs
  Proofs.ComposeBase Proofs.ComposeInv Proofs.ComposeSpan Proofs.ComposeOps Proofs.ComposeSeg Proofs.ComposeResolve.
From MiV Require Model.Api Proofs.ApiProofs Proofs.ApiOpen.
Import ListNotations.
Local Open Scope N_scope.

(* ------------------------------------------------------------------------------------- *)
(* the abstraction                                                                         *)
(* ------------------------------------------------------------------------------------- *)

(* a live block (address, usable, requested) as a binding of the API-level map: contents unknown
   (`dirty`), heap 0, not of the zero family, no interior pointer *)
Definition blk (u r : N) : Api.block := Api.mkBlock u (ApiProofs.dirty u) 0 r false 0.
Definition binding (x : N * N * N) : N * Api.block := (fst (fst x), blk (snd (fst x)) (snd x)).
Definition abs (m : mem) : Api.state := map binding (live_blocks m).

Lemma lookup_alookup st p : Api.lookup st p = alookup st p.
Proof. induction st as [|[q b] r IH]; cbn [Api.lookup alookup]; [reflexivity|]. rewrite IH. reflexivity. Qed.

Lemma blen_dirty u : Api.blen (ApiProofs.dirty u) = u.
Proof.
  unfold ApiProofs.dirty. induction u using N.peano_ind; [reflexivity|].
  rewrite N.recursion_succ; [|reflexivity|intros ? ? -> ? ? ->; reflexivity].
  cbn [Api.blen]. rewrite IHu. reflexivity.
Qed.

Lemma blk_inj u1 r1 u2 r2 : blk u1 r1 = blk u2 r2 -> u1 = u2 /\ r1 = r2.
Proof. unfold blk. intros H. inversion H. auto. Qed.

Lemma In_abs m q b : In (q, b) (abs m) <-> exists u r, In (q, u, r) (live_blocks m) /\ b = blk u r.
Proof.
  unfold abs. rewrite in_map_iff. split.
  - intros ([[q' u] r] & E & Hin). unfold binding in E. cbn [fst snd] in E. inversion E; subst. exists u, r. auto.
  - intros (u & r & Hin & ->). exists (q, u, r). auto.
Qed.

(* the address determines the live block *)
Lemma live_blocks_functional m q u1 r1 u2 r2 : mem_inv m ->
  In (q, u1, r1) (live_blocks m) -> In (q, u2, r2) (live_blocks m) -> u1 = u2 /\ r1 = r2.
Proof.
  intros Hm H1 H2.
  apply In_live_blocks in H1 as (cs1 & cp1 & b1 & q1 & L1 & E1).
  apply In_live_blocks in H2 as (cs2 & cp2 & b2 & q2 & L2 & E2).
  inversion E1; subst. inversion E2; subst.
  destruct (live_same_addr m cs1 cp1 b1 q1 cs2 cp2 b2 q2 Hm L1 L2) as (-> & -> & -> & ->); [congruence|]. auto.
Qed.

Lemma abs_functional m : mem_inv m -> functional (abs m).
Proof.
  intros Hm q b1 b2 H1 H2. apply In_abs in H1 as (u1 & r1 & H1 & ->). apply In_abs in H2 as (u2 & r2 & H2 & ->).
  destruct (live_blocks_functional m q u1 r1 u2 r2 Hm H1 H2) as (-> & ->). reflexivity.
Qed.

Theorem abs_lookup m q b : mem_inv m ->
  (Api.lookup (abs m) q = Some b <-> exists u r, In (q, u, r) (live_blocks m) /\ b = blk u r).
Proof.
  intros Hm. rewrite lookup_alookup, (functional_lookup _ _ _ (abs_functional m Hm)). apply In_abs.
Qed.

(* a live block of the list: its geometry *)
Lemma live_block_geometry m q u r : mem_inv m -> In (q, u, r) (live_blocks m) ->
  0 < q /\ q + u < 2^63 /\ 0 < u /\ r <= u.
Proof.
  intros Hm H. apply In_live_blocks in H as (cs & cp & b & r' & L & E). inversion E; subst.
  destruct (live_inside _ _ _ _ _ Hm L) as (c & _ & Hi0 & Hbs & Hreq & _ & G1 & G2 & G3 & _ & G5 & G6 & G7).
  destruct L as (Hcs & _). pose proof (seg_ok_In _ _ Hm Hcs) as (_ & Hb0 & _).
  unfold MI_SEGMENT_SLICE_SIZE in *. repeat split; try assumption; lia.
Qed.

(* the abstract state of a valid concrete state is well formed in the sense of the API layer *)
Theorem abs_wf m : mem_inv m -> ApiProofs.wf (abs m).
Proof.
  intros Hm q b Hl. apply (abs_lookup m q b Hm) in Hl as (u & r & Hin & ->).
  destruct (live_block_geometry m q u r Hm Hin) as (H1 & H2 & H3 & H4).
  unfold ApiProofs.block_ok, blk. cbn [Api.b_bytes Api.b_usable Api.b_req Api.b_adjust].
  rewrite blen_dirty. assert (E63 : 2 ^ 63 = 9223372036854775808) by reflexivity. rewrite W64_val.
  repeat split; try assumption; lia.
Qed.

(* ------------------------------------------------------------------------------------- *)
(* how a change of the set of live blocks shows in the abstract map                        *)
(* ------------------------------------------------------------------------------------- *)

Lemma option_ext {A} (o1 o2 : option A) : (forall x, o1 = Some x <-> o2 = Some x) -> o1 = o2.
Proof.
  intros H. destruct o1 as [a|]; [symmetry; apply H; reflexivity|].
  destruct o2 as [b|]; [apply H; reflexivity|reflexivity].
Qed.

Lemma abs_same m m' : mem_inv m -> mem_inv m' -> (forall x, In x (live_blocks m') <-> In x (live_blocks m)) ->
  ApiProofs.st_eq (abs m') (abs m).
Proof.
  intros Hm Hm' H q. apply option_ext. intros b. rewrite (abs_lookup m' q b Hm'), (abs_lookup m q b Hm).
  split; intros (u & r & Hin & ->); exists u, r; (split; [apply H; assumption|reflexivity]).
Qed.

Lemma abs_add m m' p u r : mem_inv m -> mem_inv m' ->
  (forall x, In x (live_blocks m') <-> x = (p, u, r) \/ In x (live_blocks m)) ->
  ApiProofs.st_eq (abs m') (Api.add (abs m) p (blk u r)).
Proof.
  intros Hm Hm' H q. rewrite ApiProofs.lookup_add. destruct (p =? q) eqn:E.
  - apply N.eqb_eq in E. subst q. apply (abs_lookup m' p _ Hm'). exists u, r. split; [apply H; left; reflexivity|reflexivity].
  - apply N.eqb_neq in E. apply option_ext. intros b. rewrite (abs_lookup m' q b Hm'), (abs_lookup m q b Hm).
    split; intros (u' & r' & Hin & ->); exists u', r'; (split; [|reflexivity]).
    + apply H in Hin as [Ex|Hin]; [inversion Ex; congruence|assumption].
    + apply H. right. assumption.
Qed.

Lemma abs_remove m m' p : mem_inv m -> mem_inv m' ->
  (forall x, In x (live_blocks m') <-> In x (live_blocks m) /\ fst (fst x) <> p) ->
  ApiProofs.st_eq (abs m') (Api.remove (abs m) p).
Proof.
  intros Hm Hm' H q. rewrite ApiProofs.lookup_remove. destruct (p =? q) eqn:E.
  - apply N.eqb_eq in E. subst q. destruct (Api.lookup (abs m') p) as [b|] eqn:El; [|reflexivity]. exfalso.
    apply (abs_lookup m' p b Hm') in El as (u & r & Hin & _). apply H in Hin as (_ & Hne). apply Hne. reflexivity.
  - apply N.eqb_neq in E. apply option_ext. intros b. rewrite (abs_lookup m' q b Hm'), (abs_lookup m q b Hm).
    split; intros (u' & r' & Hin & ->); exists u', r'; (split; [|reflexivity]).
    + apply H in Hin as (Hin & _). assumption.
    + apply H. split; [assumption|]. cbn [fst]. congruence.
Qed.

(* ------------------------------------------------------------------------------------- *)
(* malloc                                                                                  *)
(* ------------------------------------------------------------------------------------- *)

(* what a successful malloc of `size` bytes in state m establishes: a valid state, a block [p, p+u) with
   u >= size that is disjoint from every block that is live in m, and exactly that block is added *)
Definition malloc_post (m : mem) (size : N) (m' : mem) (p : N) : Prop :=
  mem_inv m' /\ exists u, size <= u /\ 0 < u /\ 0 < p /\ p + u < 2^63 /\
    (forall q u2 r2, In (q, u2, r2) (live_blocks m) -> p + u <= q \/ q + u2 <= p) /\
    (forall x, In x (live_blocks m') <-> x = (p, u, size) \/ In x (live_blocks m)).

Lemma malloc_post_ext m0 m1 size m' p : (forall x, In x (live_blocks m1) <-> In x (live_blocks m0)) ->
  malloc_post m1 size m' p -> malloc_post m0 size m' p.
Proof.
  intros H (Hm' & u & A1 & A2 & A3 & A4 & A5 & A6). split; [assumption|]. exists u.
  repeat split; try assumption.
  - intros q u2 r2 Hin. apply (A5 q u2 r2). apply H. assumption.
  - intros Hx. apply A6 in Hx as [Hx|Hx]; [left; assumption|right; apply H; assumption].
  - intros [Hx|Hx]; apply A6; [left; assumption|right; apply H; assumption].
Qed.

Theorem pop_block_post m base idx size m' p : mem_inv m -> pop_block m base idx size = Some (m', p) ->
  malloc_post m size m' p.
Proof.
  intros Hm Hp.
  destruct (pop_block_spec m base idx size m' p Hm Hp) as (cs & cp & b & Hcs & Eb & Hcp & Ei & Ep & Hsz & Hnl & Hcap & Hm' & Hx).
  assert (B : block_at m cs cp b) by (repeat split; assumption).
  destruct (block_inside _ _ _ _ Hm B) as (c & _ & Hi0 & Hbs & G1 & G2 & G3 & _ & G5 & G6 & G7). cbv zeta in *.
  pose proof (seg_ok_In _ _ Hm Hcs) as (_ & Hb0 & _).
  split; [assumption|]. exists (bsize (cp_page cp)). rewrite <- Ep in *.
  split; [assumption|]. split; [assumption|]. split; [unfold MI_SEGMENT_SLICE_SIZE in *; lia|].
  split; [unfold MI_SEGMENT_SLICE_SIZE in *; lia|]. split; [|assumption].
  intros q u2 r2 Hin. apply In_live_blocks in Hin as (cs2 & cp2 & b2 & r' & L2 & E). inversion E; subst q u2 r2.
  pose proof (live_block_at _ _ _ _ _ Hm L2) as B2. rewrite Ep.
  apply (blocks_disjoint m cs cp b cs2 cp2 b2 Hm B B2).
  intros T. inversion T as [[Ea Ebi Ec]]. subst b2.
  destruct L2 as (Hcs2 & Hcp2 & Hg2). pose proof Hm as (Hnd & _).
  pose proof (key_inj cs_base m cs cs2 Hnd Hcs Hcs2 Ea) as <-.
  pose proof (seg_ok_In _ _ Hm Hcs) as Hs. pose proof Hs as (_ & _ & _ & _ & _ & Hndp & _).
  pose proof (key_inj cp_idx _ cp cp2 Hndp Hcp Hcp2 Ebi) as <-.
  destruct (page_ok_In _ _ Hs Hcp) as (_ & _ & _ & Hgo). apply Hnl. apply (ghost_live _ _ _ Hgo Hg2).
Qed.

Theorem mmalloc_post m size ch m' p : mem_inv m -> mmalloc m size ch = Some (m', p) -> malloc_post m size m' p.
Proof.
  intros Hm. destruct ch as [base idx|base idx force|base idx|base|base|base al]; cbn [mmalloc].
  - destruct (class_ok m base idx size); [|discriminate]. apply (pop_block_post m base idx). assumption.
  - destruct (class_ok m base idx size); [|discriminate].
    destruct (collect_page m base idx force) as [m1|] eqn:E1; [|discriminate].
    destruct (collect_page_spec _ _ _ _ _ Hm E1) as (Hm1 & Hl1). intros Hp.
    apply (malloc_post_ext m m1 _ _ _ Hl1). apply (pop_block_post m1 base idx); assumption.
  - destruct (class_ok m base idx size); [|discriminate].
    destruct (extend_page m base idx) as [m1|] eqn:E1; [|discriminate].
    destruct (extend_page_spec _ _ _ _ Hm E1) as (Hm1 & Hl1). intros Hp.
    apply (malloc_post_ext m m1 _ _ _ Hl1). apply (pop_block_post m1 base idx); assumption.
  - destruct (fresh_page m base (block_size_of size)) as [[m1 idx]|] eqn:E1; [|discriminate].
    destruct (fresh_page_spec _ _ _ _ _ Hm E1) as (Hm1 & Hl1 & _). intros Hp.
    apply (malloc_post_ext m m1 _ _ _ Hl1). apply (pop_block_post m1 base idx); assumption.
  - destruct (fresh_seg m base) as [m0|] eqn:E0; [|discriminate].
    destruct (fresh_seg_spec _ _ _ Hm E0) as (Hm0 & Hl0).
    destruct (fresh_page m0 base (block_size_of size)) as [[m1 idx]|] eqn:E1; [|discriminate].
    destruct (fresh_page_spec _ _ _ _ _ Hm0 E1) as (Hm1 & Hl1 & _). intros Hp.
    apply (malloc_post_ext m m1 _ _ _ (fun x => iff_trans (Hl1 x) (Hl0 x))). apply (pop_block_post m1 base idx); assumption.
  - destruct ((MI_LARGE_OBJ_SIZE_MAX <? block_size_of size) || (0 <? al)); [|discriminate].
    destruct (huge_seg m base (block_size_of size) al) as [[m1 idx]|] eqn:E1; [|discriminate].
    destruct (huge_seg_spec _ _ _ _ _ _ Hm E1) as (Hm1 & Hl1 & _). intros Hp.
    apply (malloc_post_ext m m1 _ _ _ Hl1). apply (pop_block_post m1 base idx); assumption.
Qed.

(* the usable size of the live block at address p *)
Definition usable_at (m : mem) (p : N) : N :=
  match find (fun x => fst (fst x) =? p) (live_blocks m) with Some x => snd (fst x) | None => 0 end.

Lemma usable_at_spec m p u r : mem_inv m -> In (p, u, r) (live_blocks m) -> usable_at m p = u.
Proof.
  intros Hm Hin. unfold usable_at.
  destruct (find (fun x => fst (fst x) =? p) (live_blocks m)) as [[[q u'] r']|] eqn:Ef.
  - apply find_some in Ef as (Hin' & E). cbn [fst] in E. apply N.eqb_eq in E. subst q. cbn [fst snd].
    destruct (live_blocks_functional m p u r u' r' Hm Hin Hin') as (-> & _). reflexivity.
  - exfalso. pose proof (find_none _ _ Ef _ Hin) as E. cbn [fst] in E. rewrite N.eqb_refl in E. discriminate.
Qed.

(* C01_compose_answer_ok: the block handed out by the composite page/span/segment layer satisfies the
   contract that the API layer assumes of its oracle, in the abstraction of the state before the call;
   and the state afterwards is the API-level map with that block added (the malloc case of C01_refines_map) *)
Theorem compose_answer_ok m size ch m' p : mem_inv m -> mmalloc m size ch = Some (m', p) ->
  let u := usable_at m' p in
  ApiProofs.answer_ok (abs m) size (Some (p, u, ApiProofs.dirty u)) /\
  ApiProofs.st_eq (abs m') (Api.add (abs m) p (blk u size)) /\ mem_inv m'.
Proof.
  intros Hm Hp. destruct (mmalloc_post m size ch m' p Hm Hp) as (Hm' & u & A1 & A2 & A3 & A4 & A5 & A6).
  assert (Eu : usable_at m' p = u) by (apply (usable_at_spec m' p u size Hm'); apply A6; left; reflexivity).
  cbv zeta. rewrite Eu.
  split; [|split; [apply abs_add; assumption|assumption]].
  unfold ApiProofs.answer_ok. assert (E63 : 2 ^ 63 = 9223372036854775808) by reflexivity.
  split; [assumption|]. split; [rewrite W64_val; lia|]. split; [apply blen_dirty|]. split; [assumption|].
  split; [assumption|].
  intros q b Hl. apply (abs_lookup m q b Hm) in Hl as (u2 & r2 & Hin & ->).
  unfold Api.block_start, Api.block_usable, blk. cbn [Api.b_adjust Api.b_usable].
  rewrite N.sub_0_r, N.add_0_r. apply (A5 q u2 r2 Hin).
Qed.

(* the answer of the composite layer as a function of the concrete state *)
Definition compose_answer (ch : choice) (m : mem) (size : N) : Api.answer :=
  match mmalloc m size ch with
  | Some (m', p) => Some (p, usable_at m' p, ApiProofs.dirty (usable_at m' p))
  | None => None
  end.

(* ApiOpen.answer_contract_for_stmt, proved for this layer, for every choice *)
Theorem compose_answer_contract ch : ApiOpen.answer_contract_for_stmt mem_inv abs (compose_answer ch).
Proof.
  intros m size Hm _. unfold compose_answer.
  destruct (mmalloc m size ch) as [[m' p]|] eqn:E; [|exact I].
  apply (compose_answer_ok m size ch m' p Hm E).
Qed.

(* ApiOpen.answer_contract_stmt itself, for every answer function on ABSTRACT states all of whose answers
   are the answer of this layer in some valid concrete state that abstracts to the abstract state *)
Theorem compose_discharges_answer_contract (f : Api.state -> N -> Api.answer) :
  (forall st size, ApiProofs.wf st -> f st size = None \/
     exists m ch, mem_inv m /\ ApiProofs.st_eq (abs m) st /\ f st size = compose_answer ch m size) ->
  ApiOpen.answer_contract_stmt f.
Proof.
  intros H st size Hwf Hsz. destruct (H st size Hwf) as [->|(m & ch & Hm & He & ->)]; [exact I|].
  apply (ApiProofs.answer_ok_st_eq (abs m) st size _ He). apply (compose_answer_contract ch m size Hm Hsz).
Qed.

(* ------------------------------------------------------------------------------------- *)
(* free                                                                                    *)
(* ------------------------------------------------------------------------------------- *)

(* a live binding of the abstract map is a live block of a page *)
Lemma abs_live_at m q b : mem_inv m -> Api.lookup (abs m) q = Some b ->
  exists cs cp i r, live_at m cs cp i r /\ q = block_addr cs cp i /\ b = blk (bsize (cp_page cp)) r.
Proof.
  intros Hm Hl. apply (abs_lookup m q b Hm) in Hl as (u & r & Hin & ->).
  apply In_live_blocks in Hin as (cs & cp & i & r' & L & E). inversion E; subst. exists cs, cp, i, r'. auto.
Qed.

(* free removes the block the address resolves to (the free case of C01_refines_map) *)
Theorem compose_free_refines m p remote m' : mem_inv m -> free_block m p remote = Some m' ->
  exists q b, Api.lookup (abs m) q = Some b /\ mem_inv m' /\
              ApiProofs.st_eq (abs m') (Api.free (abs m) q).
Proof.
  intros Hm Hf. destruct (free_block_spec m p remote m' Hm Hf) as (cs & cp & b & r & L & _ & Hm' & Hx).
  exists (block_addr cs cp b), (blk (bsize (cp_page cp)) r).
  assert (Hin : In (block_addr cs cp b, bsize (cp_page cp), r) (live_blocks m)).
  { apply In_live_blocks. exists cs, cp, b, r. auto. }
  split; [apply (abs_lookup m _ _ Hm); exists (bsize (cp_page cp)), r; auto|]. split; [assumption|].
  destruct (live_block_geometry m _ _ _ Hm Hin) as (Hq & _).
  unfold Api.free, Api.NULL. assert (E : (block_addr cs cp b =? 0) = false) by (apply N.eqb_neq; lia). rewrite E.
  apply abs_remove; assumption.
Qed.

(* the commuting square of free for the address of a live block: mi_free(p) succeeds and the abstract state
   afterwards is Api.free of the abstract state before (uses compose_free_resolves) *)
Theorem compose_free_commutes m p b remote : mem_inv m -> Api.lookup (abs m) p = Some b ->
  exists m', free_block m p remote = Some m' /\ mem_inv m' /\ ApiProofs.st_eq (abs m') (Api.free (abs m) p).
Proof.
  intros Hm Hl. destruct (abs_live_at m p b Hm Hl) as (cs & cp & i & r & L & -> & _).
  destruct (live_inside _ _ _ _ _ Hm L) as (_ & _ & _ & Hbs & _).
  destruct (free_resolves m cs cp i r (block_addr cs cp i) remote Hm L) as (_ & m' & Hf & Hm' & Hx);
    [lia|lia|right; reflexivity|apply (resolvable_start m cs cp i r Hm L)|].
  exists m'. split; [assumption|]. split; [assumption|].
  assert (Hin : In (block_addr cs cp i, bsize (cp_page cp), r) (live_blocks m)).
  { apply In_live_blocks. exists cs, cp, i, r. auto. }
  destruct (live_block_geometry m _ _ _ Hm Hin) as (Hq & _).
  unfold Api.free, Api.NULL. assert (E : (block_addr cs cp i =? 0) = false) by (apply N.eqb_neq; lia). rewrite E.
  apply abs_remove; assumption.
Qed.

(* ------------------------------------------------------------------------------------- *)
(* C01_refines_map: every operation commutes with abs; mem_inv in all reachable states     *)
(* ------------------------------------------------------------------------------------- *)

(* the abstract effect of an operation *)
Definition refines (m : mem) (o : mop) (m' : mem) : Prop :=
  match o with
  | MMalloc size _ =>
      exists p u, size <= u /\ Api.lookup (abs m) p = None /\
                  ApiProofs.st_eq (abs m') (Api.add (abs m) p (blk u size))
  | MFree _ | MRemoteFree _ =>
      exists q b, Api.lookup (abs m) q = Some b /\ ApiProofs.st_eq (abs m') (Api.free (abs m) q)
  | MCollect _ _ _ | MExtend _ _ | MFreshPage _ _ | MRetire _ _ => ApiProofs.st_eq (abs m') (abs m)
  end.

Theorem compose_refines m o m' : mem_inv m -> mstep m o = Some m' -> mem_inv m' /\ refines m o m'.
Proof.
  intros Hm. destruct o as [size ch|p|p|base idx force|base idx|base bs|base idx]; cbn [mstep refines].
  - destruct (mmalloc m size ch) as [[m1 p]|] eqn:E; [|discriminate]. intros H; inversion H; subst m1.
    destruct (mmalloc_post m size ch m' p Hm E) as (Hm' & u & A1 & A2 & A3 & A4 & A5 & A6).
    split; [assumption|]. exists p, u. split; [assumption|]. split; [|apply abs_add; assumption].
    destruct (Api.lookup (abs m) p) as [b|] eqn:El; [|reflexivity]. exfalso.
    apply (abs_lookup m p b Hm) in El as (u2 & r2 & Hin & _). destruct (live_block_geometry m _ _ _ Hm Hin) as (_ & _ & Hu2 & _).
    destruct (A5 p u2 r2 Hin); lia.
  - intros Hf. destruct (compose_free_refines m p false m' Hm Hf) as (q & b & H1 & H2 & H3). split; [assumption|]. exists q, b. auto.
  - intros Hf. destruct (compose_free_refines m p true m' Hm Hf) as (q & b & H1 & H2 & H3). split; [assumption|]. exists q, b. auto.
  - intros H. destruct (collect_page_spec _ _ _ _ _ Hm H) as (Hm' & Hl). split; [assumption|apply abs_same; assumption].
  - intros H. destruct (extend_page_spec _ _ _ _ Hm H) as (Hm' & Hl). split; [assumption|apply abs_same; assumption].
  - destruct (fresh_page m base bs) as [[m1 idx]|] eqn:E; [|discriminate]. intros H; inversion H; subst m1.
    destruct (fresh_page_spec _ _ _ _ _ Hm E) as (Hm' & Hl & _). split; [assumption|apply abs_same; assumption].
  - intros H. destruct (retire_page_spec _ _ _ _ Hm H) as (Hm' & Hl). split; [assumption|apply abs_same; assumption].
Qed.

Theorem mem_inv_run m ops m' : mem_inv m -> mrun m ops = Some m' -> mem_inv m'.
Proof.
  revert m. induction ops as [|o r IH]; intros m Hm; cbn [mrun].
  - intros H; inversion H; subst. assumption.
  - destruct (mstep m o) as [m1|] eqn:E; [|discriminate]. apply IH. apply (compose_refines m o m1 Hm E).
Qed.

(* states reachable from the empty memory *)
Definition reachable (m : mem) : Prop := exists ops, mrun [] ops = Some m.

Theorem compose_reachable_inv m : reachable m -> mem_inv m.
Proof. intros (ops & H). apply (mem_inv_run [] ops m mem_inv_nil H). Qed.

(* the whole history refines a history of the abstract map *)
Fixpoint refines_run (m : mem) (ops : list mop) (m' : mem) : Prop :=
  match ops with
  | [] => m' = m
  | o :: r => exists m1, mstep m o = Some m1 /\ refines m o m1 /\ refines_run m1 r m'
  end.

Theorem compose_refines_run m ops m' : mem_inv m -> mrun m ops = Some m' -> refines_run m ops m'.
Proof.
  revert m. induction ops as [|o r IH]; intros m Hm; cbn [mrun refines_run].
  - intros H; inversion H; reflexivity.
  - destruct (mstep m o) as [m1|] eqn:E; [|discriminate]. intros H.
    destruct (compose_refines m o m1 Hm E) as (Hm1 & Hr). exists m1. split; [reflexivity|]. split; [assumption|]. apply IH; assumption.
Qed.

(* ------------------------------------------------------------------------------------- *)
(* C01_compose_live_disjoint, in terms of the abstract map                                 *)
(* ------------------------------------------------------------------------------------- *)

Theorem compose_live_disjoint m q1 b1 q2 b2 : mem_inv m ->
  Api.lookup (abs m) q1 = Some b1 -> Api.lookup (abs m) q2 = Some b2 -> q1 <> q2 ->
  q1 + Api.b_usable b1 <= q2 \/ q2 + Api.b_usable b2 <= q1.
Proof.
  intros Hm H1 H2 Hne.
  destruct (abs_live_at m q1 b1 Hm H1) as (cs1 & cp1 & i1 & r1 & L1 & -> & ->).
  destruct (abs_live_at m q2 b2 Hm H2) as (cs2 & cp2 & i2 & r2 & L2 & -> & ->).
  unfold blk. cbn [Api.b_usable].
  apply (live_disjoint m cs1 cp1 i1 r1 cs2 cp2 i2 r2 Hm L1 L2).
  intros T. inversion T as [[Ea Eb Ec]]. apply Hne.
  destruct L1 as (Hcs1 & Hcp1 & _). destruct L2 as (Hcs2 & Hcp2 & _). pose proof Hm as (Hnd & _).
  pose proof (key_inj cs_base m cs1 cs2 Hnd Hcs1 Hcs2 Ea) as ->.
  pose proof (seg_ok_In _ _ Hm Hcs1) as (_ & _ & _ & _ & _ & Hndp & _).
  pose proof (key_inj cp_idx _ cp1 cp2 Hndp Hcp1 Hcp2 Eb) as ->. subst i2. reflexivity.
Qed.

(* every live block of the abstract map lies inside its page area, inside its span, inside its segment *)
Theorem compose_live_inside m q b : mem_inv m -> Api.lookup (abs m) q = Some b ->
  exists cs cp c,
    In cs m /\ In cp (cs_pages cs) /\ In (cp_idx cp, c) (used_spans (fst (cs_st cs))) /\
    let start := fst (page_area cs (cp_idx cp)) in let psize := snd (page_area cs (cp_idx cp)) in
    let span_lo := cs_base cs + cp_idx cp * MI_SEGMENT_SLICE_SIZE in
    let span_hi := cs_base cs + (cp_idx cp + c) * MI_SEGMENT_SLICE_SIZE in
    start <= q /\ q + Api.b_usable b <= start + psize /\
    span_lo <= start /\ start + psize = span_hi /\
    cs_base cs < span_lo /\ span_hi <= cs_base cs + seg_size cs /\
    Api.b_req b <= Api.b_usable b /\ Api.b_usable b = bsize (cp_page cp).
Proof.
  intros Hm Hl. destruct (abs_live_at m q b Hm Hl) as (cs & cp & i & r & L & -> & ->).
  destruct (live_inside _ _ _ _ _ Hm L) as (c & Hsp & Hi0 & Hbs & Hreq & _ & G1 & G2 & G3 & _ & G5 & G6 & _).
  destruct L as (Hcs & Hcp & _). exists cs, cp, c. split; [assumption|]. split; [assumption|]. split; [assumption|].
  cbv zeta. unfold blk. cbn [Api.b_usable Api.b_req]. unfold MI_SEGMENT_SLICE_SIZE in *.
  repeat split; try assumption; lia.
Qed.

(* ... in every state reachable from the empty memory by any sequence of operations *)
Theorem compose_live_disjoint_reachable m q1 b1 q2 b2 : reachable m ->
  Api.lookup (abs m) q1 = Some b1 -> Api.lookup (abs m) q2 = Some b2 -> q1 <> q2 ->
  q1 + Api.b_usable b1 <= q2 \/ q2 + Api.b_usable b2 <= q1.
Proof. intros H. apply compose_live_disjoint. apply compose_reachable_inv. assumption. Qed.

Theorem compose_live_inside_reachable m q b : reachable m -> Api.lookup (abs m) q = Some b ->
  exists cs cp c,
    In cs m /\ In cp (cs_pages cs) /\ In (cp_idx cp, c) (used_spans (fst (cs_st cs))) /\
    let start := fst (page_area cs (cp_idx cp)) in let psize := snd (page_area cs (cp_idx cp)) in
    let span_lo := cs_base cs + cp_idx cp * MI_SEGMENT_SLICE_SIZE in
    let span_hi := cs_base cs + (cp_idx cp + c) * MI_SEGMENT_SLICE_SIZE in
    start <= q /\ q + Api.b_usable b <= start + psize /\
    span_lo <= start /\ start + psize = span_hi /\
    cs_base cs < span_lo /\ span_hi <= cs_base cs + seg_size cs /\
    Api.b_req b <= Api.b_usable b /\ Api.b_usable b = bsize (cp_page cp).
Proof. intros H. apply compose_live_inside. apply compose_reachable_inv. assumption. Qed.
