(* Preservation of the heap invariant (Proofs/HeapBase.v) by the queue and heap operations of
   Model/Heap.v, and the exact effect of each operation on heaps, pages and the ghost home map. *)
From Coq Require Import NArith List Bool Lia Permutation.
From MiV Require Import Gen.Consts Model.Arith Proofs.Base Model.Heap Proofs.HeapBase.
Import ListNotations.
Local Open Scope N_scope.
Local Open Scope bool_scope.

Local Opaque MI_BIN_FULL MI_BIN_HUGE.

(* ---- frame lemmas: an update of one component leaves the projections of the others alone ---- *)
Lemma fr_get_page_upd_heap s h f q : get_page (upd_heap s h f) q = get_page s q.
Proof. reflexivity. Qed.
Lemma fr_page_ids_upd_heap s h f : page_ids (upd_heap s h f) = page_ids s.
Proof. reflexivity. Qed.
Lemma fr_pages_upd_heap s h f : pages (upd_heap s h f) = pages s.
Proof. reflexivity. Qed.
Lemma fr_live_blocks_upd_heap s h f : live_blocks (upd_heap s h f) = live_blocks s.
Proof. reflexivity. Qed.
Lemma fr_default_upd_heap s h f : default (upd_heap s h f) = default s.
Proof. reflexivity. Qed.
Lemma fr_backing_upd_heap s h f : backing (upd_heap s h f) = backing s.
Proof. reflexivity. Qed.
Lemma fr_descs_upd_heap s h f : descs (upd_heap s h f) = descs s.
Proof. reflexivity. Qed.
Lemma fr_home_upd_heap s h f : home (upd_heap s h f) = home s.
Proof. reflexivity. Qed.
Lemma fr_page_of_block_upd_heap s h f b0 : page_of_block (upd_heap s h f) b0 = page_of_block s b0.
Proof. reflexivity. Qed.
Lemma fr_heap_of_block_upd_heap s h f b0 : heap_of_block (upd_heap s h f) b0 = heap_of_block s b0.
Proof. reflexivity. Qed.
Lemma fr_get_heap_upd_page s p f k : get_heap (upd_page s p f) k = get_heap s k.
Proof. reflexivity. Qed.
Lemma fr_heap_ids_upd_page s p f : heap_ids (upd_page s p f) = heap_ids s.
Proof. reflexivity. Qed.
Lemma fr_heaps_upd_page s p f : heaps (upd_page s p f) = heaps s.
Proof. reflexivity. Qed.
Lemma fr_default_upd_page s p f : default (upd_page s p f) = default s.
Proof. reflexivity. Qed.
Lemma fr_backing_upd_page s p f : backing (upd_page s p f) = backing s.
Proof. reflexivity. Qed.
Lemma fr_descs_upd_page s p f : descs (upd_page s p f) = descs s.
Proof. reflexivity. Qed.
Lemma fr_home_upd_page s p f : home (upd_page s p f) = home s.
Proof. reflexivity. Qed.
Lemma fr_get_heap_del_page s p k : get_heap (del_page s p) k = get_heap s k.
Proof. reflexivity. Qed.
Lemma fr_heap_ids_del_page s p : heap_ids (del_page s p) = heap_ids s.
Proof. reflexivity. Qed.
Lemma fr_heaps_del_page s p : heaps (del_page s p) = heaps s.
Proof. reflexivity. Qed.
Lemma fr_default_del_page s p : default (del_page s p) = default s.
Proof. reflexivity. Qed.
Lemma fr_backing_del_page s p : backing (del_page s p) = backing s.
Proof. reflexivity. Qed.
Lemma fr_descs_del_page s p : descs (del_page s p) = descs s.
Proof. reflexivity. Qed.
Lemma fr_home_del_page s p : home (del_page s p) = home s.
Proof. reflexivity. Qed.
Lemma fr_get_heap_add_page s p pi k : get_heap (add_page s p pi) k = get_heap s k.
Proof. reflexivity. Qed.
Lemma fr_heap_ids_add_page s p pi : heap_ids (add_page s p pi) = heap_ids s.
Proof. reflexivity. Qed.
Lemma fr_heaps_add_page s p pi : heaps (add_page s p pi) = heaps s.
Proof. reflexivity. Qed.
Lemma fr_default_add_page s p pi : default (add_page s p pi) = default s.
Proof. reflexivity. Qed.
Lemma fr_backing_add_page s p pi : backing (add_page s p pi) = backing s.
Proof. reflexivity. Qed.
Lemma fr_descs_add_page s p pi : descs (add_page s p pi) = descs s.
Proof. reflexivity. Qed.
Lemma fr_home_add_page s p pi : home (add_page s p pi) = home s.
Proof. reflexivity. Qed.
Lemma fr_get_heap_set_default s h k : get_heap (set_default s h) k = get_heap s k.
Proof. reflexivity. Qed.
Lemma fr_heap_ids_set_default s h : heap_ids (set_default s h) = heap_ids s.
Proof. reflexivity. Qed.
Lemma fr_heaps_set_default s h : heaps (set_default s h) = heaps s.
Proof. reflexivity. Qed.
Lemma fr_get_page_set_default s h q : get_page (set_default s h) q = get_page s q.
Proof. reflexivity. Qed.
Lemma fr_page_ids_set_default s h : page_ids (set_default s h) = page_ids s.
Proof. reflexivity. Qed.
Lemma fr_pages_set_default s h : pages (set_default s h) = pages s.
Proof. reflexivity. Qed.
Lemma fr_live_blocks_set_default s h : live_blocks (set_default s h) = live_blocks s.
Proof. reflexivity. Qed.
Lemma fr_backing_set_default s h : backing (set_default s h) = backing s.
Proof. reflexivity. Qed.
Lemma fr_descs_set_default s h : descs (set_default s h) = descs s.
Proof. reflexivity. Qed.
Lemma fr_home_set_default s h : home (set_default s h) = home s.
Proof. reflexivity. Qed.
Lemma fr_page_of_block_set_default s h b0 : page_of_block (set_default s h) b0 = page_of_block s b0.
Proof. reflexivity. Qed.
Lemma fr_heap_of_block_set_default s h b0 : heap_of_block (set_default s h) b0 = heap_of_block s b0.
Proof. reflexivity. Qed.
Lemma fr_get_heap_set_descs s ds k : get_heap (set_descs s ds) k = get_heap s k.
Proof. reflexivity. Qed.
Lemma fr_heap_ids_set_descs s ds : heap_ids (set_descs s ds) = heap_ids s.
Proof. reflexivity. Qed.
Lemma fr_heaps_set_descs s ds : heaps (set_descs s ds) = heaps s.
Proof. reflexivity. Qed.
Lemma fr_get_page_set_descs s ds q : get_page (set_descs s ds) q = get_page s q.
Proof. reflexivity. Qed.
Lemma fr_page_ids_set_descs s ds : page_ids (set_descs s ds) = page_ids s.
Proof. reflexivity. Qed.
Lemma fr_pages_set_descs s ds : pages (set_descs s ds) = pages s.
Proof. reflexivity. Qed.
Lemma fr_live_blocks_set_descs s ds : live_blocks (set_descs s ds) = live_blocks s.
Proof. reflexivity. Qed.
Lemma fr_default_set_descs s ds : default (set_descs s ds) = default s.
Proof. reflexivity. Qed.
Lemma fr_backing_set_descs s ds : backing (set_descs s ds) = backing s.
Proof. reflexivity. Qed.
Lemma fr_home_set_descs s ds : home (set_descs s ds) = home s.
Proof. reflexivity. Qed.
Lemma fr_page_of_block_set_descs s ds b0 : page_of_block (set_descs s ds) b0 = page_of_block s b0.
Proof. reflexivity. Qed.
Lemma fr_heap_of_block_set_descs s ds b0 : heap_of_block (set_descs s ds) b0 = heap_of_block s b0.
Proof. reflexivity. Qed.
Lemma fr_get_page_set_heaps s hs q : get_page (set_heaps s hs) q = get_page s q.
Proof. reflexivity. Qed.
Lemma fr_page_ids_set_heaps s hs : page_ids (set_heaps s hs) = page_ids s.
Proof. reflexivity. Qed.
Lemma fr_pages_set_heaps s hs : pages (set_heaps s hs) = pages s.
Proof. reflexivity. Qed.
Lemma fr_live_blocks_set_heaps s hs : live_blocks (set_heaps s hs) = live_blocks s.
Proof. reflexivity. Qed.
Lemma fr_default_set_heaps s hs : default (set_heaps s hs) = default s.
Proof. reflexivity. Qed.
Lemma fr_backing_set_heaps s hs : backing (set_heaps s hs) = backing s.
Proof. reflexivity. Qed.
Lemma fr_descs_set_heaps s hs : descs (set_heaps s hs) = descs s.
Proof. reflexivity. Qed.
Lemma fr_home_set_heaps s hs : home (set_heaps s hs) = home s.
Proof. reflexivity. Qed.
Lemma fr_page_of_block_set_heaps s hs b0 : page_of_block (set_heaps s hs) b0 = page_of_block s b0.
Proof. reflexivity. Qed.
Lemma fr_heap_of_block_set_heaps s hs b0 : heap_of_block (set_heaps s hs) b0 = heap_of_block s b0.
Proof. reflexivity. Qed.
Lemma fr_get_heap_set_home s hm k : get_heap (set_home s hm) k = get_heap s k.
Proof. reflexivity. Qed.
Lemma fr_heap_ids_set_home s hm : heap_ids (set_home s hm) = heap_ids s.
Proof. reflexivity. Qed.
Lemma fr_heaps_set_home s hm : heaps (set_home s hm) = heaps s.
Proof. reflexivity. Qed.
Lemma fr_get_page_set_home s hm q : get_page (set_home s hm) q = get_page s q.
Proof. reflexivity. Qed.
Lemma fr_page_ids_set_home s hm : page_ids (set_home s hm) = page_ids s.
Proof. reflexivity. Qed.
Lemma fr_pages_set_home s hm : pages (set_home s hm) = pages s.
Proof. reflexivity. Qed.
Lemma fr_live_blocks_set_home s hm : live_blocks (set_home s hm) = live_blocks s.
Proof. reflexivity. Qed.
Lemma fr_default_set_home s hm : default (set_home s hm) = default s.
Proof. reflexivity. Qed.
Lemma fr_backing_set_home s hm : backing (set_home s hm) = backing s.
Proof. reflexivity. Qed.
Lemma fr_descs_set_home s hm : descs (set_home s hm) = descs s.
Proof. reflexivity. Qed.
Lemma fr_page_of_block_set_home s hm b0 : page_of_block (set_home s hm) b0 = page_of_block s b0.
Proof. reflexivity. Qed.
Lemma fr_heap_of_block_set_home s hm b0 : heap_of_block (set_home s hm) b0 = heap_of_block s b0.
Proof. reflexivity. Qed.
Lemma fr_get_heap_home_add s b oh k : get_heap (home_add s b oh) k = get_heap s k.
Proof. reflexivity. Qed.
Lemma fr_heap_ids_home_add s b oh : heap_ids (home_add s b oh) = heap_ids s.
Proof. reflexivity. Qed.
Lemma fr_heaps_home_add s b oh : heaps (home_add s b oh) = heaps s.
Proof. reflexivity. Qed.
Lemma fr_get_page_home_add s b oh q : get_page (home_add s b oh) q = get_page s q.
Proof. reflexivity. Qed.
Lemma fr_page_ids_home_add s b oh : page_ids (home_add s b oh) = page_ids s.
Proof. reflexivity. Qed.
Lemma fr_pages_home_add s b oh : pages (home_add s b oh) = pages s.
Proof. reflexivity. Qed.
Lemma fr_live_blocks_home_add s b oh : live_blocks (home_add s b oh) = live_blocks s.
Proof. reflexivity. Qed.
Lemma fr_default_home_add s b oh : default (home_add s b oh) = default s.
Proof. reflexivity. Qed.
Lemma fr_backing_home_add s b oh : backing (home_add s b oh) = backing s.
Proof. reflexivity. Qed.
Lemma fr_descs_home_add s b oh : descs (home_add s b oh) = descs s.
Proof. reflexivity. Qed.
Lemma fr_page_of_block_home_add s b oh b0 : page_of_block (home_add s b oh) b0 = page_of_block s b0.
Proof. reflexivity. Qed.
Lemma fr_heap_of_block_home_add s b oh b0 : heap_of_block (home_add s b oh) b0 = heap_of_block s b0.
Proof. reflexivity. Qed.
Lemma fr_get_heap_home_del s bl k : get_heap (home_del s bl) k = get_heap s k.
Proof. reflexivity. Qed.
Lemma fr_heap_ids_home_del s bl : heap_ids (home_del s bl) = heap_ids s.
Proof. reflexivity. Qed.
Lemma fr_heaps_home_del s bl : heaps (home_del s bl) = heaps s.
Proof. reflexivity. Qed.
Lemma fr_get_page_home_del s bl q : get_page (home_del s bl) q = get_page s q.
Proof. reflexivity. Qed.
Lemma fr_page_ids_home_del s bl : page_ids (home_del s bl) = page_ids s.
Proof. reflexivity. Qed.
Lemma fr_pages_home_del s bl : pages (home_del s bl) = pages s.
Proof. reflexivity. Qed.
Lemma fr_live_blocks_home_del s bl : live_blocks (home_del s bl) = live_blocks s.
Proof. reflexivity. Qed.
Lemma fr_default_home_del s bl : default (home_del s bl) = default s.
Proof. reflexivity. Qed.
Lemma fr_backing_home_del s bl : backing (home_del s bl) = backing s.
Proof. reflexivity. Qed.
Lemma fr_descs_home_del s bl : descs (home_del s bl) = descs s.
Proof. reflexivity. Qed.
Lemma fr_page_of_block_home_del s bl b0 : page_of_block (home_del s bl) b0 = page_of_block s b0.
Proof. reflexivity. Qed.
Lemma fr_heap_of_block_home_del s bl b0 : heap_of_block (home_del s bl) b0 = heap_of_block s b0.
Proof. reflexivity. Qed.
Lemma fr_get_heap_home_set s bl oh k : get_heap (home_set s bl oh) k = get_heap s k.
Proof. reflexivity. Qed.
Lemma fr_heap_ids_home_set s bl oh : heap_ids (home_set s bl oh) = heap_ids s.
Proof. reflexivity. Qed.
Lemma fr_heaps_home_set s bl oh : heaps (home_set s bl oh) = heaps s.
Proof. reflexivity. Qed.
Lemma fr_get_page_home_set s bl oh q : get_page (home_set s bl oh) q = get_page s q.
Proof. reflexivity. Qed.
Lemma fr_page_ids_home_set s bl oh : page_ids (home_set s bl oh) = page_ids s.
Proof. reflexivity. Qed.
Lemma fr_pages_home_set s bl oh : pages (home_set s bl oh) = pages s.
Proof. reflexivity. Qed.
Lemma fr_live_blocks_home_set s bl oh : live_blocks (home_set s bl oh) = live_blocks s.
Proof. reflexivity. Qed.
Lemma fr_default_home_set s bl oh : default (home_set s bl oh) = default s.
Proof. reflexivity. Qed.
Lemma fr_backing_home_set s bl oh : backing (home_set s bl oh) = backing s.
Proof. reflexivity. Qed.
Lemma fr_descs_home_set s bl oh : descs (home_set s bl oh) = descs s.
Proof. reflexivity. Qed.
Lemma fr_page_of_block_home_set s bl oh b0 : page_of_block (home_set s bl oh) b0 = page_of_block s b0.
Proof. reflexivity. Qed.
Lemma fr_heap_of_block_home_set s bl oh b0 : heap_of_block (home_set s bl oh) b0 = heap_of_block s b0.
Proof. reflexivity. Qed.
Lemma fr_get_heap_home_move s a b k : get_heap (home_move s a b) k = get_heap s k.
Proof. reflexivity. Qed.
Lemma fr_heap_ids_home_move s a b : heap_ids (home_move s a b) = heap_ids s.
Proof. reflexivity. Qed.
Lemma fr_heaps_home_move s a b : heaps (home_move s a b) = heaps s.
Proof. reflexivity. Qed.
Lemma fr_get_page_home_move s a b q : get_page (home_move s a b) q = get_page s q.
Proof. reflexivity. Qed.
Lemma fr_page_ids_home_move s a b : page_ids (home_move s a b) = page_ids s.
Proof. reflexivity. Qed.
Lemma fr_pages_home_move s a b : pages (home_move s a b) = pages s.
Proof. reflexivity. Qed.
Lemma fr_live_blocks_home_move s a b : live_blocks (home_move s a b) = live_blocks s.
Proof. reflexivity. Qed.
Lemma fr_default_home_move s a b : default (home_move s a b) = default s.
Proof. reflexivity. Qed.
Lemma fr_backing_home_move s a b : backing (home_move s a b) = backing s.
Proof. reflexivity. Qed.
Lemma fr_descs_home_move s a b : descs (home_move s a b) = descs s.
Proof. reflexivity. Qed.
Lemma fr_page_of_block_home_move s a b b0 : page_of_block (home_move s a b) b0 = page_of_block s b0.
Proof. reflexivity. Qed.
Lemma fr_heap_of_block_home_move s a b b0 : heap_of_block (home_move s a b) b0 = heap_of_block s b0.
Proof. reflexivity. Qed.
#[export] Hint Rewrite
  fr_get_page_upd_heap fr_page_ids_upd_heap fr_pages_upd_heap fr_live_blocks_upd_heap fr_default_upd_heap fr_backing_upd_heap
  fr_descs_upd_heap fr_home_upd_heap fr_page_of_block_upd_heap fr_heap_of_block_upd_heap fr_get_heap_upd_page fr_heap_ids_upd_page
  fr_heaps_upd_page fr_default_upd_page fr_backing_upd_page fr_descs_upd_page fr_home_upd_page fr_get_heap_del_page
  fr_heap_ids_del_page fr_heaps_del_page fr_default_del_page fr_backing_del_page fr_descs_del_page fr_home_del_page
  fr_get_heap_add_page fr_heap_ids_add_page fr_heaps_add_page fr_default_add_page fr_backing_add_page fr_descs_add_page
  fr_home_add_page fr_get_heap_set_default fr_heap_ids_set_default fr_heaps_set_default fr_get_page_set_default fr_page_ids_set_default
  fr_pages_set_default fr_live_blocks_set_default fr_backing_set_default fr_descs_set_default fr_home_set_default fr_page_of_block_set_default
  fr_heap_of_block_set_default fr_get_heap_set_descs fr_heap_ids_set_descs fr_heaps_set_descs fr_get_page_set_descs fr_page_ids_set_descs
  fr_pages_set_descs fr_live_blocks_set_descs fr_default_set_descs fr_backing_set_descs fr_home_set_descs fr_page_of_block_set_descs
  fr_heap_of_block_set_descs fr_get_page_set_heaps fr_page_ids_set_heaps fr_pages_set_heaps fr_live_blocks_set_heaps fr_default_set_heaps
  fr_backing_set_heaps fr_descs_set_heaps fr_home_set_heaps fr_page_of_block_set_heaps fr_heap_of_block_set_heaps fr_get_heap_set_home
  fr_heap_ids_set_home fr_heaps_set_home fr_get_page_set_home fr_page_ids_set_home fr_pages_set_home fr_live_blocks_set_home
  fr_default_set_home fr_backing_set_home fr_descs_set_home fr_page_of_block_set_home fr_heap_of_block_set_home fr_get_heap_home_add
  fr_heap_ids_home_add fr_heaps_home_add fr_get_page_home_add fr_page_ids_home_add fr_pages_home_add fr_live_blocks_home_add
  fr_default_home_add fr_backing_home_add fr_descs_home_add fr_page_of_block_home_add fr_heap_of_block_home_add fr_get_heap_home_del
  fr_heap_ids_home_del fr_heaps_home_del fr_get_page_home_del fr_page_ids_home_del fr_pages_home_del fr_live_blocks_home_del
  fr_default_home_del fr_backing_home_del fr_descs_home_del fr_page_of_block_home_del fr_heap_of_block_home_del fr_get_heap_home_set
  fr_heap_ids_home_set fr_heaps_home_set fr_get_page_home_set fr_page_ids_home_set fr_pages_home_set fr_live_blocks_home_set
  fr_default_home_set fr_backing_home_set fr_descs_home_set fr_page_of_block_home_set fr_heap_of_block_home_set fr_get_heap_home_move
  fr_heap_ids_home_move fr_heaps_home_move fr_get_page_home_move fr_page_ids_home_move fr_pages_home_move fr_live_blocks_home_move
  fr_default_home_move fr_backing_home_move fr_descs_home_move fr_page_of_block_home_move fr_heap_of_block_home_move : hs.

#[export] Hint Rewrite get_page_upd_page page_ids_upd_page get_page_del_page get_page_add_page : hs.

Ltac hs := autorewrite with hs in *.

Lemma get_heap_upd_cases s h f k hk : (forall hp, h_id (f hp) = h_id hp) ->
  get_heap (upd_heap s h f) k = Some hk ->
  (k = h /\ exists x, get_heap s h = Some x /\ hk = f x) \/ (k <> h /\ get_heap s k = Some hk).
Proof.
  intros Hid H. rewrite get_heap_upd_heap in H by exact Hid. destruct (N.eqb_spec k h) as [E|E].
  - subst. left. split; [reflexivity|]. destruct (get_heap s h) as [x|]; [|discriminate]. cbn in H. inversion H. eauto.
  - right. auto.
Qed.

Lemma get_heap_upd_same s h f x : (forall hp, h_id (f hp) = h_id hp) ->
  get_heap s h = Some x -> get_heap (upd_heap s h f) h = Some (f x).
Proof. intros Hid H. rewrite get_heap_upd_heap by exact Hid. rewrite N.eqb_refl, H. reflexivity. Qed.

Lemma get_heap_upd_other s h f k : (forall hp, h_id (f hp) = h_id hp) -> k <> h ->
  get_heap (upd_heap s h f) k = get_heap s k.
Proof. intros Hid H. rewrite get_heap_upd_heap by exact Hid. apply N.eqb_neq in H. rewrite H. reflexivity. Qed.

Lemma get_page_upd_cases s p f q qi :
  get_page (upd_page s p f) q = Some qi ->
  (q = p /\ exists x, get_page s p = Some x /\ qi = f x) \/ (q <> p /\ get_page s q = Some qi).
Proof.
  intros H. rewrite get_page_upd_page in H. destruct (N.eqb_spec q p) as [E|E].
  - subst. left. split; [reflexivity|]. destruct (get_page s p) as [x|]; [|discriminate]. cbn in H. inversion H. eauto.
  - right. auto.
Qed.

Lemma page_ids_del_page s p : page_ids (del_page s p) = filter (fun k => negb (k =? p)) (page_ids s).
Proof.
  unfold page_ids, del_page. cbn. induction (pages s) as [|[k v] r IH]; cbn; [reflexivity|].
  destruct (k =? p); cbn; rewrite IH; reflexivity.
Qed.

Lemma filter_key_notin (ps : list (pid * pinfo)) p : ~ In p (map fst ps) ->
  filter (fun kv => negb (fst kv =? p)) ps = ps.
Proof.
  induction ps as [|[k v] r IH]; cbn; [reflexivity|]. intros H.
  destruct (k =? p) eqn:E; cbn.
  - apply N.eqb_eq in E. subst. exfalso. apply H. left. reflexivity.
  - f_equal. apply IH. intros K. apply H. right. exact K.
Qed.

Lemma live_blocks_del_empty s p pi : get_page s p = Some pi -> blocks pi = [] -> NoDup (page_ids s) ->
  live_blocks (del_page s p) = live_blocks s.
Proof.
  unfold live_blocks, del_page, get_page, page_ids. cbn. induction (pages s) as [|[k v] r IH]; cbn; [reflexivity|].
  intros G B ND. inversion ND; subst. destruct (k =? p) eqn:E; cbn.
  - inversion G; subst. rewrite B. cbn. apply N.eqb_eq in E. subst.
    rewrite filter_key_notin by assumption. reflexivity.
  - f_equal. apply IH; assumption.
Qed.

Lemma live_blocks_del_sub s p b : In b (live_blocks (del_page s p)) -> In b (live_blocks s).
Proof.
  rewrite !live_blocks_in. intros [q [qi [A B]]]. exists q, qi. split; [|exact B].
  unfold del_page in A. cbn in A. apply filter_In in A. tauto.
Qed.

(* the number of queued pages after replacing one queue *)
Definition qtotal (qs : list (list pid)) : nat := length (flat_map (qget qs) all_bins).

Lemma qtotal_concat qs : length qs = NBINS -> qtotal qs = length (concat qs).
Proof.
  intros L. unfold qtotal. change (flat_map (qget qs) all_bins) with (heap_pages (mkHeap 0 qs 0 false 0 0)).
  rewrite heap_pages_concat by exact L. reflexivity.
Qed.

Lemma qtotal_qset qs i l : length qs = NBINS -> i <= MI_BIN_FULL ->
  (qtotal (qset qs i l) + length (qget qs i) = qtotal qs + length l)%nat.
Proof.
  intros L B. rewrite !qtotal_concat by (rewrite ?qset_length; exact L).
  apply concat_set_nth_length. rewrite L. unfold NBINS. lia.
Qed.

Lemma heap_pages_set_queues hp qs c : length (heap_pages (set_queues hp qs c)) = qtotal qs.
Proof. reflexivity. Qed.

Lemma heap_pages_qtotal hp : length (heap_pages hp) = qtotal (queues hp).
Proof. reflexivity. Qed.

Lemma in_qget_qset qs i l j q : length qs = NBINS -> i <= MI_BIN_FULL ->
  (In q (qget (qset qs i l) j) <-> if j =? i then In q l else In q (qget qs j)).
Proof.
  intros L B. destruct (N.eqb_spec j i) as [E|E].
  - subst. rewrite qget_qset_same by assumption. reflexivity.
  - rewrite qget_qset_other by congruence. reflexivity.
Qed.

(* ================================================================================================ *)
(* enqueue_from: a page moves from one queue of its heap to the end of another                       *)
(* ================================================================================================ *)
Lemma enqueue_from_inv s h to from p pi :
  heap_Inv s -> get_page s p = Some pi -> pheap pi = Some h -> from = page_qbin pi ->
  to <> from -> to <= MI_BIN_FULL -> (to = MI_BIN_FULL \/ (to = pbin pi)) ->
  heap_Inv (enqueue_from s h to from p).
Proof.
  intros I G Eh Ef Hne Hto Hbin.
  destruct (inv_page_queue _ _ _ _ I G Eh) as [hp [H Hin]]. rewrite <- Ef in Hin.
  pose proof (inv_queued_bound _ _ _ _ _ I H Hin) as Hfrom.
  pose proof (hi_qlen s I _ _ H) as L.
  assert (~ In p (qget (queues hp) to)) as Hnotto.
  { intros K. destruct (inv_queue_unique _ _ _ _ _ _ _ _ I H K H Hin) as [_ E]. contradiction. }
  unfold enqueue_from.
  set (F := fun hp0 : heap =>
              set_queues hp0 (qset (qset (queues hp0) from (qremove p (qget (queues hp0) from))) to
                (qget (qset (queues hp0) from (qremove p (qget (queues hp0) from))) to ++ [p])) (page_count hp0)).
  assert (forall x, h_id (F x) = h_id x) as Hid by reflexivity.
  assert (forall x, length (queues x) = NBINS -> length (queues (F x)) = NBINS) as FL.
  { intros x Lx. unfold F. cbn. rewrite !qset_length. exact Lx. }
  assert (forall i q, In q (qget (queues (F hp)) i) <->
            (if i =? to then In q (qget (queues hp) to) \/ q = p
             else if i =? from then In q (qget (queues hp) from) /\ q <> p else In q (qget (queues hp) i))) as FQ.
  { intros i q. unfold F. cbn [queues set_queues].
    rewrite in_qget_qset by (rewrite ?qset_length; assumption).
    destruct (N.eqb_spec i to) as [E|E].
    - rewrite in_app_iff. rewrite qget_qset_other by congruence. cbn. intuition.
    - rewrite in_qget_qset by assumption. destruct (N.eqb_spec i from); [apply qremove_In|reflexivity]. }
  constructor; hs.
  - rewrite heap_ids_upd_heap by exact Hid. apply (hi_hnodup s I).
  - apply (hi_pnodup s I).
  - rewrite heap_ids_upd_heap by exact Hid. apply (hi_backing s I).
  - rewrite heap_ids_upd_heap by exact Hid. apply (hi_default s I).
  - intros k hk K. apply get_heap_upd_cases in K; [|exact Hid]. destruct K as [[-> [x [Hx ->]]]|[Hk K]].
    + apply FL. eapply hi_qlen; eauto.
    + eapply hi_qlen; eauto.
  - intros k hk i K. apply get_heap_upd_cases in K; [|exact Hid]. destruct K as [[-> [x [Hx ->]]]|[Hk K]].
    + rewrite H in Hx. inversion Hx; subst x. unfold F. cbn [queues set_queues].
      destruct (N.eq_dec i to) as [E|E].
      * subst i. rewrite qget_qset_same by (rewrite ?qset_length; assumption).
        rewrite qget_qset_other by congruence.
        apply NoDup_app_intro; [eapply hi_qnodup; eauto|constructor; [intros []|constructor]|].
        intros q A [B|[]]. subst. contradiction.
      * rewrite qget_qset_other by congruence. destruct (N.eq_dec i from) as [E2|E2].
        -- subst i. rewrite qget_qset_same by assumption. apply qremove_NoDup. eapply hi_qnodup; eauto.
        -- rewrite qget_qset_other by congruence. eapply hi_qnodup; eauto.
    + eapply hi_qnodup; eauto.
  - intros k hk K. apply get_heap_upd_cases in K; [|exact Hid]. destruct K as [[-> [x [Hx ->]]]|[Hk K]].
    + rewrite H in Hx. inversion Hx; subst x. unfold F. rewrite heap_pages_set_queues. cbn [page_count set_queues].
      rewrite (hi_count s I _ _ H), heap_pages_qtotal. f_equal.
      pose proof (qtotal_qset (queues hp) from (qremove p (qget (queues hp) from)) L Hfrom) as T1.
      pose proof (qtotal_qset (qset (queues hp) from (qremove p (qget (queues hp) from))) to
                    (qget (qset (queues hp) from (qremove p (qget (queues hp) from))) to ++ [p])
                    ltac:(rewrite qset_length; exact L) Hto) as T2.
      rewrite app_length in T2. cbn [length] in T2.
      pose proof (qremove_length p _ (hi_qnodup s I _ _ from H) Hin) as T3. unfold pid in *. lia.
    + eapply hi_count; eauto.
  - intros k hk i q K Hq. apply get_heap_upd_cases in K; [|exact Hid]. destruct K as [[-> [x [Hx ->]]]|[Hk K]].
    + rewrite H in Hx. inversion Hx; subst x. apply FQ in Hq.
      destruct (N.eqb_spec i to) as [E|E].
      * subst i. destruct Hq as [Hq| ->].
        -- destruct (hi_queued s I _ _ _ _ H Hq) as [qi [Gq R]]. exists qi.
           assert (q <> p) by (intros ->; contradiction). hs. apply N.eqb_neq in H0. rewrite H0. auto.
        -- hs. rewrite N.eqb_refl, G. cbn. exists (set_in_full (to =? MI_BIN_FULL) pi). split; [reflexivity|].
           cbn. split; [exact Eh|]. split; [reflexivity|]. intros X. destruct Hbin; congruence.
      * assert (In q (qget (queues hp) i) /\ q <> p) as [Hq' Hqp].
        { destruct (N.eqb_spec i from) as [E2|E2]; [subst i; exact Hq|]. split; [exact Hq|]. intros ->.
          destruct (inv_queue_unique _ _ _ _ _ _ _ _ I H Hq H Hin) as [_ X]. contradiction. }
        destruct (hi_queued s I _ _ _ _ H Hq') as [qi [Gq R]]. exists qi.
        hs. apply N.eqb_neq in Hqp. rewrite Hqp. auto.
    + destruct (hi_queued s I _ _ _ _ K Hq) as [qi [Gq [R1 R]]]. exists qi.
      assert (q <> p) as Hqp. { intros ->. rewrite G in Gq. inversion Gq; subst. congruence. }
      hs. apply N.eqb_neq in Hqp. rewrite Hqp. auto.
  - intros q qi K. apply get_page_upd_cases in K. destruct K as [[-> [x [Hx ->]]]|[Hq K]]; hs.
    + rewrite G in Hx. inversion Hx; subst x. destruct (hi_page s I _ _ G) as [P1 [P2 [P3 _]]].
      cbn. split; [exact P1|]. split; [exact P2|]. split; [exact P3|]. rewrite Eh. exists (F hp).
      split; [apply get_heap_upd_same; assumption|]. apply FQ.
      assert (page_qbin (set_in_full (to =? MI_BIN_FULL) pi) = to) as ->.
      { unfold page_qbin. cbn. destruct (N.eqb_spec to MI_BIN_FULL); [congruence|]. destruct Hbin; congruence. }
      rewrite N.eqb_refl. right. reflexivity.
    + destruct (hi_page s I _ _ K) as [P1 [P2 [P3 P4]]]. split; [exact P1|]. split; [exact P2|]. split; [exact P3|].
      destruct (pheap qi) as [k|] eqn:Ek; [|exact P4]. destruct P4 as [hk [Hk Hq']]. hs.
      destruct (N.eq_dec k h) as [E|E].
      * subst k. rewrite H in Hk. inversion Hk; subst hk. exists (F hp). split; [apply get_heap_upd_same; assumption|].
        apply FQ. destruct (N.eqb_spec (page_qbin qi) to); [left; congruence|].
        destruct (N.eqb_spec (page_qbin qi) from); [split; [congruence|exact Hq]|exact Hq'].
      * exists hk. split; [rewrite get_heap_upd_other; assumption|exact Hq'].
  - intros a b ai bi Ka Kb Hab.
    assert (forall q qi, get_page (upd_page s p (set_in_full (to =? MI_BIN_FULL))) q = Some qi ->
              exists qi0, get_page s q = Some qi0 /\ pstart qi = pstart qi0 /\ psize qi = psize qi0) as X.
    { intros q qi K. apply get_page_upd_cases in K. destruct K as [[-> [x [Hx ->]]]|[Hq K]]; hs; eauto. }
    destruct (X _ _ Ka) as [a0 [Ga [A1 A2]]]. destruct (X _ _ Kb) as [b0 [Gb [B1 B2]]].
    pose proof (hi_disjoint s I _ _ _ _ Ga Gb Hab) as D. unfold extent_disjoint in *. rewrite A1, A2, B1, B2. exact D.
  - rewrite live_blocks_upd_page by reflexivity. apply (hi_bnodup s I).
  - apply (hi_dnodup s I).
  - intros k. rewrite heap_ids_upd_heap by exact Hid. apply (hi_descs s I).
  - apply (hi_hmnodup s I).
  - rewrite live_blocks_upd_page by reflexivity. apply (hi_home_live s I).
  - intros q qi b K Hb. apply get_page_upd_cases in K. destruct K as [[-> [x [Hx ->]]]|[Hq K]]; hs.
    + cbn in *. eapply (hi_home s I); eauto.
    + eapply (hi_home s I); eauto.
Qed.

(* ================================================================================================ *)
(* the general single-heap / single-page change: s' differs from s in heap h and page p only         *)
(* ================================================================================================ *)
Definition geom_ok (pi : pinfo) : Prop :=
  pbin pi < MI_BIN_FULL /\ pcapb pi <= psize pi /\
  (forall b, In b (blocks pi) -> pstart pi <= b < pstart pi + pcapb pi).

Lemma change_inv s s' h hp hp' p op' :
  heap_Inv s -> get_heap s h = Some hp ->
  (forall k, get_heap s' k = if k =? h then Some hp' else get_heap s k) ->
  (forall q, get_page s' q = if q =? p then op' else get_page s q) ->
  heap_ids s' = heap_ids s -> NoDup (page_ids s') ->
  default s' = default s -> backing s' = backing s -> descs s' = descs s ->
  NoDup (live_blocks s') ->
  length (queues hp') = NBINS -> (forall i, NoDup (qget (queues hp') i)) ->
  page_count hp' = N.of_nat (length (heap_pages hp')) ->
  (forall i q, q <> p -> (In q (qget (queues hp') i) <-> In q (qget (queues hp) i))) ->
  (forall k hk i, k <> h -> get_heap s k = Some hk -> ~ In p (qget (queues hk) i)) ->
  match op' with
  | Some pi' =>
      geom_ok pi' /\
      (forall q qi, q <> p -> get_page s q = Some qi -> extent_disjoint pi' qi = true /\ extent_disjoint qi pi' = true) /\
      match pheap pi' with
      | Some k => k = h /\ In p (qget (queues hp') (page_qbin pi')) /\
                  (forall i, In p (qget (queues hp') i) -> i = page_qbin pi')
      | None => in_full pi' = false /\ forall i, ~ In p (qget (queues hp') i)
      end
  | None => forall i, ~ In p (qget (queues hp') i)
  end ->
  NoDup (map fst (home s')) ->
  (forall b, In b (map fst (home s')) -> In b (live_blocks s')) ->
  (forall q qi b, get_page s' q = Some qi -> In b (blocks qi) -> find_home (home s') b = Some (pheap qi)) ->
  heap_Inv s'.
Proof.
  intros I H GH GP Hids Hpn Hdef Hback Hdescs Hbn L QN CNT QM OTH OP HM1 HM2 HM3.
  assert (forall k hk, get_heap s' k = Some hk -> (k = h /\ hk = hp') \/ (k <> h /\ get_heap s k = Some hk)) as HC.
  { intros k hk K. rewrite GH in K. destruct (N.eqb_spec k h); [left; split; congruence|right; auto]. }
  assert (forall q qi, get_page s' q = Some qi -> (q = p /\ op' = Some qi) \/ (q <> p /\ get_page s q = Some qi)) as PC.
  { intros q qi K. rewrite GP in K. destruct (N.eqb_spec q p); [left; split; congruence|right; auto]. }
  constructor.
  - rewrite Hids. apply (hi_hnodup s I).
  - exact Hpn.
  - rewrite Hids, Hback. apply (hi_backing s I).
  - rewrite Hids, Hdef. apply (hi_default s I).
  - intros k hk K. destruct (HC _ _ K) as [[-> ->]|[Hk K']]; [exact L|eapply hi_qlen; eauto].
  - intros k hk i K. destruct (HC _ _ K) as [[-> ->]|[Hk K']]; [apply QN|eapply hi_qnodup; eauto].
  - intros k hk K. destruct (HC _ _ K) as [[-> ->]|[Hk K']]; [exact CNT|eapply hi_count; eauto].
  - intros k hk i q K Hq. destruct (HC _ _ K) as [[-> ->]|[Hk K']].
    + destruct (N.eq_dec q p) as [E|E].
      * subst q. rewrite GP, N.eqb_refl. destruct op' as [pi'|]; [|exfalso; eapply OP; eauto].
        destruct OP as [[Hb _] [_ OP]]. destruct (pheap pi') as [k|] eqn:Ek; [|exfalso; eapply (proj2 OP); eauto].
        destruct OP as [-> [O1 O2]]. exists pi'. split; [reflexivity|]. split; [exact Ek|].
        rewrite (O2 _ Hq). unfold page_qbin. destruct (in_full pi') eqn:Ef.
        -- rewrite N.eqb_refl. split; [reflexivity|congruence].
        -- split; [|reflexivity]. symmetry. apply N.eqb_neq. lia.
      * apply QM in Hq; [|exact E]. destruct (hi_queued s I _ _ _ _ H Hq) as [qi [Gq R]]. exists qi.
        rewrite GP. apply N.eqb_neq in E. rewrite E. auto.
    + destruct (hi_queued s I _ _ _ _ K' Hq) as [qi [Gq R]]. exists qi. split; [|exact R].
      rewrite GP. destruct (N.eqb_spec q p) as [E|E]; [|exact Gq]. subst q. exfalso. eapply OTH; eauto.
  - intros q qi K. destruct (PC _ _ K) as [[-> E]|[Hq K']].
    + subst op'. destruct OP as [[G1 [G2 G3]] [_ OP]]. split; [exact G1|]. split; [exact G2|]. split; [exact G3|].
      destruct (pheap qi) as [k|]; [|exact (proj1 OP)]. destruct OP as [-> [O1 _]]. exists hp'.
      split; [rewrite GH, N.eqb_refl; reflexivity|exact O1].
    + destruct (hi_page s I _ _ K') as [P1 [P2 [P3 P4]]]. split; [exact P1|]. split; [exact P2|]. split; [exact P3|].
      destruct (pheap qi) as [k|] eqn:Ek; [|exact P4]. destruct P4 as [hk [Hk Hq']].
      destruct (N.eq_dec k h) as [E|E].
      * subst k. rewrite H in Hk. inversion Hk; subst hk. exists hp'. split; [rewrite GH, N.eqb_refl; reflexivity|].
        apply QM; assumption.
      * exists hk. split; [|exact Hq']. rewrite GH. apply N.eqb_neq in E. rewrite E. exact Hk.
  - intros a b ai bi Ka Kb Hab. destruct (PC _ _ Ka) as [[-> Ea]|[Ha Ka']]; destruct (PC _ _ Kb) as [[-> Eb]|[Hb Kb']].
    + congruence.
    + subst op'. destruct OP as [_ [OP _]]. apply (OP b bi); assumption.
    + subst op'. destruct OP as [_ [OP _]]. apply (OP a ai); assumption.
    + eapply (hi_disjoint s I a b); eauto.
  - exact Hbn.
  - rewrite Hdescs. apply (hi_dnodup s I).
  - intros k. rewrite Hdescs, Hids, Hback. apply (hi_descs s I).
  - exact HM1.
  - exact HM2.
  - exact HM3.
Qed.

(* ================================================================================================ *)
(* queue surgery on one heap record                                                                  *)
(* ================================================================================================ *)
Definition heap_wf (hp : heap) : Prop :=
  length (queues hp) = NBINS /\ (forall i, NoDup (qget (queues hp) i)) /\
  page_count hp = N.of_nat (length (heap_pages hp)).

Lemma inv_heap_wf s h hp : heap_Inv s -> get_heap s h = Some hp -> heap_wf hp.
Proof.
  intros I H. split; [eapply hi_qlen; eauto|]. split; [intros i; eapply hi_qnodup; eauto|eapply hi_count; eauto].
Qed.

Definition hq_remove (hp : heap) (bin : N) (p : pid) : heap :=
  set_queues hp (qset (queues hp) bin (qremove p (qget (queues hp) bin))) (wsub (page_count hp) 1).
Definition hq_push (hp : heap) (bin : N) (p : pid) : heap :=
  set_queues hp (qset (queues hp) bin (p :: qget (queues hp) bin)) (page_count hp + 1).

Lemma hq_remove_in hp bin p i q : length (queues hp) = NBINS -> bin <= MI_BIN_FULL ->
  (In q (qget (queues (hq_remove hp bin p)) i) <-> In q (qget (queues hp) i) /\ ~ (i = bin /\ q = p)).
Proof.
  intros L B. unfold hq_remove. cbn [queues set_queues]. rewrite in_qget_qset by assumption.
  destruct (N.eqb_spec i bin) as [E|E].
  - subst. rewrite qremove_In. tauto.
  - tauto.
Qed.

Lemma hq_remove_wf hp bin p : heap_wf hp -> bin <= MI_BIN_FULL -> In p (qget (queues hp) bin) ->
  heap_wf (hq_remove hp bin p).
Proof.
  intros [L [ND C]] B Hin. split; [|split].
  - unfold hq_remove. cbn. rewrite qset_length. exact L.
  - intros i. unfold hq_remove. cbn [queues set_queues]. destruct (N.eq_dec i bin) as [E|E].
    + subst. rewrite qget_qset_same by assumption. apply qremove_NoDup. apply ND.
    + rewrite qget_qset_other by congruence. apply ND.
  - unfold hq_remove. rewrite heap_pages_set_queues. cbn [page_count set_queues]. rewrite C, heap_pages_qtotal.
    pose proof (qtotal_qset (queues hp) bin (qremove p (qget (queues hp) bin)) L B) as T.
    pose proof (qremove_length p _ (ND bin) Hin) as T3. unfold pid in *.
    rewrite wsub_small by lia. lia.
Qed.

Lemma hq_push_in hp bin p i q : length (queues hp) = NBINS -> bin <= MI_BIN_FULL ->
  (In q (qget (queues (hq_push hp bin p)) i) <-> In q (qget (queues hp) i) \/ (i = bin /\ q = p)).
Proof.
  intros L B. unfold hq_push. cbn [queues set_queues]. rewrite in_qget_qset by assumption.
  destruct (N.eqb_spec i bin) as [E|E].
  - subst. cbn. intuition.
  - tauto.
Qed.

Lemma hq_push_wf hp bin p : heap_wf hp -> bin <= MI_BIN_FULL -> ~ In p (qget (queues hp) bin) ->
  heap_wf (hq_push hp bin p).
Proof.
  intros [L [ND C]] B Hin. split; [|split].
  - unfold hq_push. cbn. rewrite qset_length. exact L.
  - intros i. unfold hq_push. cbn [queues set_queues]. destruct (N.eq_dec i bin) as [E|E].
    + subst. rewrite qget_qset_same by assumption. constructor; [exact Hin|apply ND].
    + rewrite qget_qset_other by congruence. apply ND.
  - unfold hq_push. rewrite heap_pages_set_queues. cbn [page_count set_queues]. rewrite C, heap_pages_qtotal.
    pose proof (qtotal_qset (queues hp) bin (p :: qget (queues hp) bin) L B) as T. cbn [length] in T. lia.
Qed.

(* ---- the ghost home map ---- *)
Lemma find_home_set hm bl oh b :
  find_home (map (fun kv : bid * option hid => if inb (fst kv) bl then (fst kv, oh) else kv) hm) b =
  if inb b bl then option_map (fun _ => oh) (find_home hm b) else find_home hm b.
Proof.
  induction hm as [|[k v] r IH]; cbn; [destruct (inb b bl); reflexivity|].
  destruct (inb k bl) eqn:E; cbn.
  - destruct (k =? b) eqn:E2.
    + apply N.eqb_eq in E2. subst. rewrite E. reflexivity.
    + exact IH.
  - destruct (k =? b) eqn:E2.
    + apply N.eqb_eq in E2. subst. rewrite E. reflexivity.
    + exact IH.
Qed.

Lemma map_fst_home_set (hm : list (bid * option hid)) bl oh :
  map fst (map (fun kv : bid * option hid => if inb (fst kv) bl then (fst kv, oh) else kv) hm) = map fst hm.
Proof. rewrite map_map. apply map_ext. intros [k v]. cbn. destruct (inb k bl); reflexivity. Qed.

Lemma find_home_del hm bl b :
  find_home (filter (fun kv : bid * option hid => negb (inb (fst kv) bl)) hm) b =
  if inb b bl then None else find_home hm b.
Proof.
  induction hm as [|[k v] r IH]; cbn; [destruct (inb b bl); reflexivity|].
  destruct (inb k bl) eqn:E; cbn.
  - rewrite IH. destruct (k =? b) eqn:E2; [|reflexivity]. apply N.eqb_eq in E2. subst. rewrite E. reflexivity.
  - destruct (k =? b) eqn:E2.
    + apply N.eqb_eq in E2. subst. rewrite E. reflexivity.
    + exact IH.
Qed.

Lemma map_fst_home_del (hm : list (bid * option hid)) bl :
  map fst (filter (fun kv : bid * option hid => negb (inb (fst kv) bl)) hm) = filter (fun k => negb (inb k bl)) (map fst hm).
Proof. induction hm as [|[k v] r IH]; cbn; [reflexivity|]. destruct (inb k bl); cbn; rewrite IH; reflexivity. Qed.

Lemma find_home_in_keys hm b oh : find_home hm b = Some oh -> In b (map fst hm).
Proof. intros H. apply find_home_some in H. apply (in_map fst) in H. exact H. Qed.

(* the live blocks as a list, around one page *)
Lemma live_blocks_split s p pi : NoDup (page_ids s) -> get_page s p = Some pi ->
  exists l1 l2, live_blocks s = l1 ++ blocks pi ++ l2 /\
    forall f, live_blocks (upd_page s p f) = l1 ++ blocks (f pi) ++ l2.
Proof.
  unfold live_blocks, upd_page, get_page, page_ids. cbn. induction (pages s) as [|[k v] r IH]; cbn; [discriminate|].
  intros ND G. inversion ND; subst. destruct (k =? p) eqn:E.
  - inversion G; subst. apply N.eqb_eq in E. subst. exists [], (flat_map (fun kv => blocks (snd kv)) r).
    split; [reflexivity|]. intros f. cbn. f_equal.
    assert (map (fun kv : N * pinfo => if fst kv =? p then (fst kv, f (snd kv)) else kv) r = r) as ->; [|reflexivity].
    clear -H1. induction r as [|[k2 v2] r2 IH2]; cbn; [reflexivity|]. destruct (k2 =? p) eqn:E2.
    + apply N.eqb_eq in E2. subst. exfalso. apply H1. left. reflexivity.
    + f_equal. apply IH2. intros K. apply H1. right. exact K.
  - destruct (IH H2 G) as [l1 [l2 [A B]]]. exists (blocks v ++ l1), l2. split.
    + rewrite A, app_assoc. reflexivity.
    + intros f. cbn. rewrite B, app_assoc. reflexivity.
Qed.

(* ---- lookups after queue_remove / queue_push ---- *)
Lemma queue_remove_eq s h bin p :
  queue_remove s h bin p = upd_page (upd_heap s h (fun hp => hq_remove hp bin p)) p (set_in_full false).
Proof. reflexivity. Qed.
Lemma queue_push_eq s h bin p :
  queue_push s h bin p = upd_heap (upd_page s p (set_in_full (bin =? MI_BIN_FULL))) h (fun hp => hq_push hp bin p).
Proof. reflexivity. Qed.

Lemma get_heap_queue_remove s h bin p k :
  get_heap (queue_remove s h bin p) k = if k =? h then option_map (fun hp => hq_remove hp bin p) (get_heap s k) else get_heap s k.
Proof. rewrite queue_remove_eq. hs. apply get_heap_upd_heap. reflexivity. Qed.
Lemma get_page_queue_remove s h bin p q :
  get_page (queue_remove s h bin p) q = if q =? p then option_map (set_in_full false) (get_page s q) else get_page s q.
Proof. rewrite queue_remove_eq. hs. reflexivity. Qed.
Lemma heap_ids_queue_remove s h bin p : heap_ids (queue_remove s h bin p) = heap_ids s.
Proof. rewrite queue_remove_eq. hs. apply heap_ids_upd_heap. reflexivity. Qed.
Lemma page_ids_queue_remove s h bin p : page_ids (queue_remove s h bin p) = page_ids s.
Proof. rewrite queue_remove_eq. hs. reflexivity. Qed.
Lemma live_blocks_queue_remove s h bin p : live_blocks (queue_remove s h bin p) = live_blocks s.
Proof. rewrite queue_remove_eq. rewrite live_blocks_upd_page by reflexivity. reflexivity. Qed.

Lemma get_heap_queue_push s h bin p k :
  get_heap (queue_push s h bin p) k = if k =? h then option_map (fun hp => hq_push hp bin p) (get_heap s k) else get_heap s k.
Proof. rewrite queue_push_eq. rewrite get_heap_upd_heap by reflexivity. hs. reflexivity. Qed.
Lemma get_page_queue_push s h bin p q :
  get_page (queue_push s h bin p) q = if q =? p then option_map (set_in_full (bin =? MI_BIN_FULL)) (get_page s q) else get_page s q.
Proof. rewrite queue_push_eq. hs. reflexivity. Qed.
Lemma heap_ids_queue_push s h bin p : heap_ids (queue_push s h bin p) = heap_ids s.
Proof. rewrite queue_push_eq. rewrite heap_ids_upd_heap by reflexivity. reflexivity. Qed.
Lemma page_ids_queue_push s h bin p : page_ids (queue_push s h bin p) = page_ids s.
Proof. rewrite queue_push_eq. hs. reflexivity. Qed.
Lemma live_blocks_queue_push s h bin p : live_blocks (queue_push s h bin p) = live_blocks s.
Proof. rewrite queue_push_eq. hs. rewrite live_blocks_upd_page by reflexivity. reflexivity. Qed.

Lemma other_heap_not_queued s h pi p k hk i : heap_Inv s -> get_page s p = Some pi -> pheap pi = Some h ->
  k <> h -> get_heap s k = Some hk -> ~ In p (qget (queues hk) i).
Proof.
  intros I G E Hk K Hin. destruct (hi_queued s I _ _ _ _ K Hin) as [qi [Gq [A _]]]. rewrite G in Gq. inversion Gq; subst. congruence.
Qed.

Lemma missing_page_not_queued s p k hk i : heap_Inv s -> get_page s p = None ->
  get_heap s k = Some hk -> ~ In p (qget (queues hk) i).
Proof. intros I G K Hin. destruct (hi_queued s I _ _ _ _ K Hin) as [qi [Gq _]]. congruence. Qed.

Lemma heapless_page_not_queued s p pi k hk i : heap_Inv s -> get_page s p = Some pi -> pheap pi = None ->
  get_heap s k = Some hk -> ~ In p (qget (queues hk) i).
Proof. intros I G E K Hin. destruct (hi_queued s I _ _ _ _ K Hin) as [qi [Gq [A _]]]. congruence. Qed.

Lemma only_queue s h hp pi p i : heap_Inv s -> get_page s p = Some pi -> pheap pi = Some h ->
  get_heap s h = Some hp -> In p (qget (queues hp) i) -> i = page_qbin pi.
Proof.
  intros I G E H Hin. destruct (inv_page_queue _ _ _ _ I G E) as [hp' [H' K]]. rewrite H in H'. inversion H'; subst hp'.
  destruct (inv_queue_unique _ _ _ _ _ _ _ _ I H Hin H K) as [_ X]. exact X.
Qed.

Lemma inv_disjoint_sym s p q pi qi : heap_Inv s -> get_page s p = Some pi -> get_page s q = Some qi -> q <> p ->
  extent_disjoint pi qi = true /\ extent_disjoint qi pi = true.
Proof.
  intros I Gp Gq Hne. split; [eapply (hi_disjoint s I p q); eauto|eapply (hi_disjoint s I q p); eauto].
Qed.

(* ================================================================================================ *)
(* _mi_page_free of an empty page                                                                    *)
(* ================================================================================================ *)
Lemma page_free_inv s h pi p : heap_Inv s -> get_page s p = Some pi -> pheap pi = Some h -> blocks pi = [] ->
  heap_Inv (page_free s h pi p).
Proof.
  intros I G E B. destruct (inv_page_queue _ _ _ _ I G E) as [hp [H Hin]].
  pose proof (inv_queued_bound _ _ _ _ _ I H Hin) as Hb.
  pose proof (inv_heap_wf _ _ _ I H) as W. destruct (hq_remove_wf hp (page_qbin pi) p W Hb Hin) as [L' [ND' C']].
  unfold page_free.
  apply (change_inv s _ h hp (hq_remove hp (page_qbin pi) p) p None I H).
  - intros k. hs. rewrite get_heap_queue_remove. destruct (N.eqb_spec k h); [subst; rewrite H|]; reflexivity.
  - intros q. hs. rewrite get_page_queue_remove. destruct (q =? p); reflexivity.
  - hs. apply heap_ids_queue_remove.
  - rewrite page_ids_del_page, page_ids_queue_remove. apply NoDup_filter. apply (hi_pnodup s I).
  - reflexivity.
  - reflexivity.
  - reflexivity.
  - rewrite (live_blocks_del_empty _ p (set_in_full false pi)).
    + rewrite live_blocks_queue_remove. apply (hi_bnodup s I).
    + rewrite get_page_queue_remove, N.eqb_refl, G. reflexivity.
    + exact B.
    + rewrite page_ids_queue_remove. apply (hi_pnodup s I).
  - exact L'.
  - exact ND'.
  - exact C'.
  - intros i q Hq. rewrite hq_remove_in by (try apply W; assumption). intuition.
  - intros k hk i. eapply other_heap_not_queued; eauto.
  - intros i. rewrite hq_remove_in by (try apply W; assumption). intros [A N]. apply N. split; [|reflexivity].
    eapply only_queue; eauto.
  - apply (hi_hmnodup s I).
  - intros b Hb'. rewrite (live_blocks_del_empty _ p (set_in_full false pi)).
    + rewrite live_blocks_queue_remove. apply (hi_home_live s I). exact Hb'.
    + rewrite get_page_queue_remove, N.eqb_refl, G. reflexivity.
    + exact B.
    + rewrite page_ids_queue_remove. apply (hi_pnodup s I).
  - intros q qi b K Hq. hs. rewrite get_page_queue_remove in K. destruct (q =? p); [discriminate|].
    change (home (del_page (queue_remove s h (page_qbin pi) p) p)) with (home s). eapply (hi_home s I); eauto.
Qed.

(* ================================================================================================ *)
(* _mi_page_abandon (queue part): the page leaves its queue and loses its heap                      *)
(* ================================================================================================ *)
Definition abandon_page (s : state) (h : hid) (pi : pinfo) (p : pid) : state :=
  home_set (upd_page (queue_remove s h (page_qbin pi) p) p (set_pheap None)) (blocks pi) None.

Lemma abandon_page_inv s h pi p : heap_Inv s -> get_page s p = Some pi -> pheap pi = Some h ->
  heap_Inv (abandon_page s h pi p).
Proof.
  intros I G E. destruct (inv_page_queue _ _ _ _ I G E) as [hp [H Hin]].
  pose proof (inv_queued_bound _ _ _ _ _ I H Hin) as Hb.
  pose proof (inv_heap_wf _ _ _ I H) as W. destruct (hq_remove_wf hp (page_qbin pi) p W Hb Hin) as [L' [ND' C']].
  destruct (hi_page s I _ _ G) as [P1 [P2 [P3 _]]].
  unfold abandon_page.
  apply (change_inv s _ h hp (hq_remove hp (page_qbin pi) p) p (Some (set_pheap None (set_in_full false pi))) I H).
  - intros k. hs. rewrite get_heap_queue_remove. destruct (N.eqb_spec k h); [subst; rewrite H|]; reflexivity.
  - intros q. hs. rewrite get_page_queue_remove. destruct (q =? p) eqn:Eq; [|reflexivity].
    apply N.eqb_eq in Eq. subst. rewrite G. reflexivity.
  - hs. apply heap_ids_queue_remove.
  - hs. rewrite page_ids_queue_remove. apply (hi_pnodup s I).
  - reflexivity.
  - reflexivity.
  - reflexivity.
  - hs. rewrite live_blocks_upd_page by reflexivity. rewrite live_blocks_queue_remove. apply (hi_bnodup s I).
  - exact L'.
  - exact ND'.
  - exact C'.
  - intros i q Hq. rewrite hq_remove_in by (try apply W; assumption). intuition.
  - intros k hk i. eapply other_heap_not_queued; eauto.
  - split; [split; [exact P1|split; [exact P2|exact P3]]|]. split.
    + intros q qi Hq Gq. destruct (inv_disjoint_sym _ _ _ _ _ I G Gq Hq) as [D1 D2]. split; [exact D1|exact D2].
    + cbn [pheap set_pheap in_full set_in_full]. split; [reflexivity|]. intros i.
      rewrite hq_remove_in by (try apply W; assumption). intros [A N]. apply N.
      split; [|reflexivity]. eapply only_queue; eauto.
  - unfold home_set. cbn. rewrite map_fst_home_set. apply (hi_hmnodup s I).
  - intros b. unfold home_set at 1. cbn [home set_home]. rewrite map_fst_home_set. hs.
    rewrite live_blocks_upd_page by reflexivity. rewrite live_blocks_queue_remove. apply (hi_home_live s I).
  - intros q qi b K Hq. hs. rewrite get_page_queue_remove in K. unfold home_set. cbn [home set_home].
    rewrite find_home_set. destruct (N.eqb_spec q p) as [Eq|Eq].
    + subst q. rewrite G in K. cbn in K. inversion K; subst qi. cbn in Hq |- *.
      apply inb_spec in Hq. rewrite Hq. rewrite (hi_home s I _ _ _ G) by (apply inb_spec; exact Hq). reflexivity.
    + destruct (inb b (blocks pi)) eqn:Eb.
      * apply inb_spec in Eb. exfalso. apply Eq. eapply (inv_block_page_unique s q p); eauto.
      * eapply (hi_home s I); eauto.
Qed.

(* ================================================================================================ *)
(* a fresh page is pushed at the front of a size-class queue and serves its first block              *)
(* ================================================================================================ *)
Lemma fresh_page_inv s h hp bin p b start size capb :
  heap_Inv s -> get_heap s h = Some hp -> bin < MI_BIN_FULL -> get_page s p = None ->
  ~ In b (live_blocks s) -> capb <= size -> start <= b < start + capb ->
  (forall q qi, get_page s q = Some qi -> extent_disjoint (mkPinfo (Some h) bin false [b] start capb size) qi = true) ->
  heap_Inv (home_add (queue_push (add_page s p (mkPinfo (Some h) bin false [b] start capb size)) h bin p) b (Some h)).
Proof.
  intros I H Hbin G Hb Hcap Hrange Hdis.
  set (pi0 := mkPinfo (Some h) bin false [b] start capb size).
  pose proof (inv_heap_wf _ _ _ I H) as W.
  assert (bin <= MI_BIN_FULL) as Hb' by lia.
  assert (~ In p (qget (queues hp) bin)) as Hnot by (eapply missing_page_not_queued; eauto).
  destruct (hq_push_wf hp bin p W Hb' Hnot) as [L' [ND' C']].
  assert ((bin =? MI_BIN_FULL) = false) as Ebin by (apply N.eqb_neq; lia).
  apply (change_inv s _ h hp (hq_push hp bin p) p (Some pi0) I H).
  - intros k. hs. rewrite get_heap_queue_push. hs. destruct (N.eqb_spec k h); [subst; rewrite H|]; reflexivity.
  - intros q. hs. rewrite get_page_queue_push. hs. destruct (N.eqb_spec q p) as [Eq|Eq].
    + subst q. rewrite N.eqb_refl. cbn. rewrite Ebin. reflexivity.
    + apply N.eqb_neq in Eq. rewrite N.eqb_sym, Eq. reflexivity.
  - hs. rewrite heap_ids_queue_push. reflexivity.
  - hs. rewrite page_ids_queue_push. unfold page_ids, add_page. cbn. constructor; [|apply (hi_pnodup s I)].
    apply find_page_none. exact G.
  - reflexivity.
  - reflexivity.
  - reflexivity.
  - hs. rewrite live_blocks_queue_push. unfold live_blocks, add_page. cbn. constructor; [exact Hb|apply (hi_bnodup s I)].
  - exact L'.
  - exact ND'.
  - exact C'.
  - intros i q Hq. rewrite hq_push_in by (try apply W; assumption). intuition.
  - intros k hk i _ K. eapply missing_page_not_queued; eauto.
  - split; [|split].
    + split; [exact Hbin|]. split; [exact Hcap|]. intros b' [<-|[]]. exact Hrange.
    + intros q qi Hq Gq. split; [apply Hdis with q; exact Gq|].
      pose proof (Hdis q qi Gq) as D. unfold extent_disjoint in *. rewrite orb_comm. exact D.
    + cbn [pheap pi0]. split; [reflexivity|]. unfold page_qbin. cbn [in_full pbin pi0]. split.
      * apply hq_push_in; try apply W; auto.
      * intros i Hi. apply hq_push_in in Hi; try apply W; auto. destruct Hi as [Hi|[Hi _]]; [|exact Hi].
        exfalso. eapply missing_page_not_queued; eauto.
  - unfold home_add. cbn. constructor; [|apply (hi_hmnodup s I)]. intros K. apply Hb. apply (hi_home_live s I). exact K.
  - intros b'. unfold home_add at 1. cbn [home set_home map fst]. hs. rewrite live_blocks_queue_push.
    unfold live_blocks, add_page. cbn. intros [<-|K]; [left; reflexivity|right; apply (hi_home_live s I); exact K].
  - intros q qi b' K Hq. hs. rewrite get_page_queue_push in K. hs. unfold home_add. cbn [home set_home find_home fst snd].
    destruct (N.eqb_spec q p) as [Eq|Eq].
    + subst q. rewrite N.eqb_refl in K. cbn in K. inversion K; subst qi. cbn in Hq |- *. destruct Hq as [<-|[]].
      rewrite N.eqb_refl. reflexivity.
    + apply N.eqb_neq in Eq. rewrite N.eqb_sym, Eq in K.
      destruct (N.eqb_spec b b') as [Eb|Eb].
      * subst b'. exfalso. apply Hb. apply live_blocks_in. exists q, qi. split; [apply get_page_in; exact K|exact Hq].
      * eapply (hi_home s I); eauto.
Qed.

(* ================================================================================================ *)
(* move_to_front, to_full, unfull                                                                    *)
(* ================================================================================================ *)
Lemma remove_push_inv s h pi p : heap_Inv s -> get_page s p = Some pi -> pheap pi = Some h ->
  heap_Inv (queue_push (queue_remove s h (page_qbin pi) p) h (page_qbin pi) p).
Proof.
  intros I G E. destruct (inv_page_queue _ _ _ _ I G E) as [hp [H Hin]].
  set (bin := page_qbin pi) in *.
  pose proof (inv_queued_bound _ _ _ _ _ I H Hin) as Hb.
  pose proof (inv_heap_wf _ _ _ I H) as W. pose proof (hq_remove_wf hp bin p W Hb Hin) as W1.
  assert (~ In p (qget (queues (hq_remove hp bin p)) bin)) as Hnot.
  { rewrite hq_remove_in by (try apply W; assumption). intros [_ N]. apply N. auto. }
  destruct (hq_push_wf _ bin p W1 Hb Hnot) as [L' [ND' C']].
  destruct (hi_page s I _ _ G) as [P1 [P2 [P3 _]]].
  set (pi' := set_in_full (bin =? MI_BIN_FULL) (set_in_full false pi)).
  assert (page_qbin pi' = bin) as Eq'.
  { unfold pi', page_qbin, bin. cbn. unfold page_qbin. destruct (in_full pi) eqn:Ef.
    - rewrite N.eqb_refl. reflexivity.
    - assert ((pbin pi =? MI_BIN_FULL) = false) as -> by (apply N.eqb_neq; lia). reflexivity. }
  apply (change_inv s _ h hp (hq_push (hq_remove hp bin p) bin p) p (Some pi') I H).
  - intros k. rewrite get_heap_queue_push, get_heap_queue_remove. destruct (N.eqb_spec k h); [subst; rewrite H|]; reflexivity.
  - intros q. rewrite get_page_queue_push, get_page_queue_remove. destruct (N.eqb_spec q p); [subst; rewrite G|]; reflexivity.
  - rewrite heap_ids_queue_push, heap_ids_queue_remove. reflexivity.
  - rewrite page_ids_queue_push, page_ids_queue_remove. apply (hi_pnodup s I).
  - reflexivity.
  - reflexivity.
  - reflexivity.
  - rewrite live_blocks_queue_push, live_blocks_queue_remove. apply (hi_bnodup s I).
  - exact L'.
  - exact ND'.
  - exact C'.
  - intros i q Hq. rewrite hq_push_in by (try apply W1; assumption). rewrite hq_remove_in by (try apply W; assumption). intuition.
  - intros k hk i. eapply other_heap_not_queued; eauto.
  - split; [split; [exact P1|split; [exact P2|exact P3]]|]. split.
    + intros q qi Hq Gq. destruct (inv_disjoint_sym _ _ _ _ _ I G Gq Hq) as [D1 D2]. split; [exact D1|exact D2].
    + change (pheap pi') with (pheap pi). rewrite E. split; [reflexivity|]. rewrite Eq'. split.
      * apply hq_push_in; try apply W1; auto.
      * intros i Hi. apply hq_push_in in Hi; try apply W1; auto. destruct Hi as [Hi|[Hi _]]; [|exact Hi].
        apply hq_remove_in in Hi; try apply W; auto. destruct Hi as [Hi _]. eapply only_queue; eauto.
  - apply (hi_hmnodup s I).
  - rewrite live_blocks_queue_push, live_blocks_queue_remove. apply (hi_home_live s I).
  - intros q qi b K Hq. rewrite get_page_queue_push, get_page_queue_remove in K.
    change (home (queue_push (queue_remove s h bin p) h bin p)) with (home s).
    destruct (N.eqb_spec q p) as [Eq|Eq].
    + subst q. rewrite G in K. cbn in K. inversion K; subst qi. cbn in *. eapply (hi_home s I); eauto.
    + eapply (hi_home s I); eauto.
Qed.

Lemma move_to_front_inv s h pi p : heap_Inv s -> get_page s p = Some pi -> pheap pi = Some h ->
  heap_Inv (move_to_front s h (page_qbin pi) p).
Proof.
  intros I G E. unfold move_to_front. destruct (get_heap s h) as [hp|]; [|exact I].
  destruct (qget (queues hp) (page_qbin pi)) as [|q r]; [apply remove_push_inv; assumption|].
  destruct (q =? p); [exact I|apply remove_push_inv; assumption].
Qed.

Lemma page_to_full_inv s p : heap_Inv s -> heap_Inv (page_to_full s p).
Proof.
  intros I. unfold page_to_full. destruct (get_page s p) as [pi|] eqn:G; [|exact I].
  destruct (pheap pi) as [h|] eqn:E; [|exact I]. destruct (in_full pi) eqn:F; [exact I|].
  destruct (hi_page s I _ _ G) as [P1 _].
  apply (enqueue_from_inv s h MI_BIN_FULL (pbin pi) p pi I G E).
  - unfold page_qbin. rewrite F. reflexivity.
  - lia.
  - lia.
  - left. reflexivity.
Qed.

Lemma page_unfull_inv s p : heap_Inv s -> heap_Inv (page_unfull s p).
Proof.
  intros I. unfold page_unfull. destruct (get_page s p) as [pi|] eqn:G; [|exact I].
  destruct (pheap pi) as [h|] eqn:E; [|exact I]. destruct (in_full pi) eqn:F; [|exact I].
  destruct (hi_page s I _ _ G) as [P1 _].
  apply (enqueue_from_inv s h (pbin pi) MI_BIN_FULL p pi I G E).
  - unfold page_qbin. rewrite F. reflexivity.
  - lia.
  - lia.
  - right. reflexivity.
Qed.

Lemma page_retire_inv s h pi p : heap_Inv s -> get_page s p = Some pi -> pheap pi = Some h -> blocks pi = [] ->
  heap_Inv (page_retire s h pi p).
Proof.
  intros I G E B. unfold page_retire.
  destruct ((page_qbin pi <? MI_BIN_HUGE) && _); [exact I|apply page_free_inv; assumption].
Qed.

(* ================================================================================================ *)
(* a page changes its blocks (allocation from the page, free of a block)                             *)
(* ================================================================================================ *)
Lemma page_blocks_change_inv s s' p pi pi' :
  heap_Inv s -> get_page s p = Some pi ->
  (forall k, get_heap s' k = get_heap s k) ->
  (forall q, get_page s' q = if q =? p then Some pi' else get_page s q) ->
  heap_ids s' = heap_ids s -> page_ids s' = page_ids s ->
  default s' = default s -> backing s' = backing s -> descs s' = descs s ->
  pheap pi' = pheap pi -> pbin pi' = pbin pi -> in_full pi' = in_full pi ->
  pstart pi' = pstart pi -> psize pi' = psize pi -> pcapb pi' <= psize pi' ->
  (forall b, In b (blocks pi') -> pstart pi' <= b < pstart pi' + pcapb pi') ->
  NoDup (live_blocks s') ->
  NoDup (map fst (home s')) ->
  (forall b, In b (map fst (home s')) -> In b (live_blocks s')) ->
  (forall q qi b, get_page s' q = Some qi -> In b (blocks qi) -> find_home (home s') b = Some (pheap qi)) ->
  heap_Inv s'.
Proof.
  intros I G GH GP Hids Hpids Hdef Hback Hdescs Eh Eb Ef Es Ez Hcap Hrange Hbn HM1 HM2 HM3.
  destruct (hi_page s I _ _ G) as [P1 [P2 [P3 P4]]].
  assert (geom_ok pi') as GEO. { split; [rewrite Eb; exact P1|]. split; [exact Hcap|exact Hrange]. }
  assert (forall q qi, q <> p -> get_page s q = Some qi -> extent_disjoint pi' qi = true /\ extent_disjoint qi pi' = true) as DIS.
  { intros q qi Hq Gq. destruct (inv_disjoint_sym _ _ _ _ _ I G Gq Hq) as [D1 D2].
    unfold extent_disjoint in *. rewrite Es, Ez. auto. }
  assert (page_qbin pi' = page_qbin pi) as EQ by (unfold page_qbin; rewrite Ef, Eb; reflexivity).
  destruct (pheap pi) as [h|] eqn:E.
  - destruct P4 as [hp [H Hin]].
    apply (change_inv s s' h hp hp p (Some pi') I H); try assumption.
    + intros k. rewrite GH. destruct (N.eqb_spec k h); [subst; exact H|reflexivity].
    + rewrite Hpids. apply (hi_pnodup s I).
    + eapply hi_qlen; eauto.
    + intros i. eapply hi_qnodup; eauto.
    + eapply hi_count; eauto.
    + intros; reflexivity.
    + intros k hk i. eapply other_heap_not_queued; eauto.
    + split; [exact GEO|]. split; [exact DIS|]. rewrite Eh. split; [reflexivity|]. rewrite EQ. split; [exact Hin|].
      intros i Hi. eapply only_queue; eauto.
  - destruct (in_ids_get_heap _ _ (hi_backing s I)) as [hp H].
    apply (change_inv s s' (backing s) hp hp p (Some pi') I H); try assumption.
    + intros k. rewrite GH. destruct (N.eqb_spec k (backing s)); [subst; exact H|reflexivity].
    + rewrite Hpids. apply (hi_pnodup s I).
    + eapply hi_qlen; eauto.
    + intros i. eapply hi_qnodup; eauto.
    + eapply hi_count; eauto.
    + intros; reflexivity.
    + intros k hk i _ K. eapply heapless_page_not_queued; eauto.
    + split; [exact GEO|]. split; [exact DIS|]. rewrite Eh. split; [congruence|].
      intros i. eapply heapless_page_not_queued; eauto.
Qed.

Lemma NoDup_mid_sub {A} (l1 m m' l2 : list A) :
  NoDup (l1 ++ m ++ l2) -> NoDup m' -> (forall x, In x m' -> In x m) -> NoDup (l1 ++ m' ++ l2).
Proof.
  intros H Nm Sub. apply NoDup_app_inv in H. destruct H as [N1 [N2 D1]].
  apply NoDup_app_inv in N2. destruct N2 as [N2 [N3 D2]].
  apply NoDup_app_intro; [exact N1| |].
  - apply NoDup_app_intro; [exact Nm|exact N3|]. intros x Hx Hy. apply (D2 x); auto.
  - intros x Hx Hy. apply (D1 x Hx). rewrite in_app_iff in *. destruct Hy as [Hy|Hy]; auto.
Qed.

(* lookups after move_to_front *)
Lemma move_to_front_facts s h pi p : heap_Inv s -> get_page s p = Some pi -> pheap pi = Some h ->
  let s1 := move_to_front s h (page_qbin pi) p in
  (exists pi1, get_page s1 p = Some pi1 /\ pheap pi1 = pheap pi /\ pbin pi1 = pbin pi /\ in_full pi1 = in_full pi /\
               blocks pi1 = blocks pi /\ pstart pi1 = pstart pi /\ pcapb pi1 = pcapb pi /\ psize pi1 = psize pi) /\
  (forall q, q <> p -> get_page s1 q = get_page s q) /\
  heap_ids s1 = heap_ids s /\ page_ids s1 = page_ids s /\ live_blocks s1 = live_blocks s /\ home s1 = home s /\
  default s1 = default s /\ backing s1 = backing s /\ descs s1 = descs s /\
  (forall k, k <> h -> get_heap s1 k = get_heap s k) /\
  (exists hp1, get_heap s1 h = Some hp1 /\ exists r, qget (queues hp1) (page_qbin pi) = p :: r).
Proof.
  intros I G E s1. destruct (inv_page_queue _ _ _ _ I G E) as [hp [H Hin]].
  pose proof (inv_queued_bound _ _ _ _ _ I H Hin) as Hb.
  pose proof (inv_heap_wf _ _ _ I H) as W.
  assert (let s2 := queue_push (queue_remove s h (page_qbin pi) p) h (page_qbin pi) p in
          (exists pi1, get_page s2 p = Some pi1 /\ pheap pi1 = pheap pi /\ pbin pi1 = pbin pi /\ in_full pi1 = in_full pi /\
               blocks pi1 = blocks pi /\ pstart pi1 = pstart pi /\ pcapb pi1 = pcapb pi /\ psize pi1 = psize pi) /\
          (forall q, q <> p -> get_page s2 q = get_page s q) /\
          heap_ids s2 = heap_ids s /\ page_ids s2 = page_ids s /\ live_blocks s2 = live_blocks s /\ home s2 = home s /\
          default s2 = default s /\ backing s2 = backing s /\ descs s2 = descs s /\
          (forall k, k <> h -> get_heap s2 k = get_heap s k) /\
          (exists hp1, get_heap s2 h = Some hp1 /\ exists r, qget (queues hp1) (page_qbin pi) = p :: r)) as X.
  { intros s2. split; [|split].
    - exists (set_in_full (page_qbin pi =? MI_BIN_FULL) (set_in_full false pi)). split.
      + unfold s2. rewrite get_page_queue_push, get_page_queue_remove, N.eqb_refl, G. reflexivity.
      + cbn. repeat split; try reflexivity. unfold page_qbin. destruct (in_full pi) eqn:F; [apply N.eqb_refl|].
        destruct (hi_page s I _ _ G) as [P1 _]. apply N.eqb_neq. lia.
    - intros q Hq. unfold s2. rewrite get_page_queue_push, get_page_queue_remove. apply N.eqb_neq in Hq. rewrite Hq. reflexivity.
    - unfold s2. rewrite heap_ids_queue_push, heap_ids_queue_remove, page_ids_queue_push, page_ids_queue_remove,
        live_blocks_queue_push, live_blocks_queue_remove. repeat split; try reflexivity.
      + intros k Hk. rewrite get_heap_queue_push, get_heap_queue_remove. apply N.eqb_neq in Hk. rewrite Hk. reflexivity.
      + exists (hq_push (hq_remove hp (page_qbin pi) p) (page_qbin pi) p). split.
        * rewrite get_heap_queue_push, get_heap_queue_remove, N.eqb_refl, H. reflexivity.
        * eexists. unfold hq_push. cbn [queues set_queues]. rewrite qget_qset_same; [reflexivity| |exact Hb].
          unfold hq_remove. cbn. rewrite qset_length. apply W. }
  unfold s1, move_to_front. rewrite H. destruct (qget (queues hp) (page_qbin pi)) as [|q r] eqn:Eq; [exact X|].
  destruct (N.eqb_spec q p) as [Eqp|Eqp]; [|exact X]. subst q.
  split; [exists pi; repeat split; auto|]. repeat split; auto. exists hp. split; [exact H|]. exists r. exact Eq.
Qed.

(* ================================================================================================ *)
(* allocation of one block                                                                           *)
(* ================================================================================================ *)
Lemma block_malloc_inv s h bin b c s' : heap_Inv s -> block_malloc s h bin b c = Some s' -> heap_Inv s'.
Proof.
  intros I. unfold block_malloc. destruct (get_heap s h) as [hp|] eqn:H; [|discriminate].
  destruct (bin <? MI_BIN_FULL) eqn:Hbin; [|discriminate]. apply N.ltb_lt in Hbin. cbn [negb].
  destruct (inb b (live_blocks s)) eqn:Hb; [discriminate|]. apply inb_false in Hb.
  destruct c as [p capb|p start size capb].
  - destruct (get_page s p) as [pi|] eqn:G; [|discriminate].
    destruct (inb p (qget (queues hp) bin) && (pcapb pi <=? capb) && (capb <=? psize pi) && (pstart pi <=? b) && (b <? pstart pi + capb)) eqn:C; [|discriminate].
    intros K. inversion K; subst s'. clear K.
    apply andb_true_iff in C; destruct C as [C H3]. apply andb_true_iff in C; destruct C as [C H2].
    apply andb_true_iff in C; destruct C as [C H1]. apply andb_true_iff in C; destruct C as [C H0].
    apply inb_spec in C. apply N.leb_le in H0, H1, H2. apply N.ltb_lt in H3.
    destruct (hi_queued s I _ _ _ _ H C) as [pi0 [G0 [E [F Pb]]]]. rewrite G in G0. inversion G0; subst pi0.
    assert (bin <> MI_BIN_FULL) as Hne by lia. specialize (Pb Hne).
    assert (page_qbin pi = bin) as Eq. { unfold page_qbin. rewrite F. apply N.eqb_neq in Hne. rewrite Hne. exact Pb. }
    rewrite <- Eq.
    pose proof (move_to_front_inv s h pi p I G E) as I1.
    destruct (move_to_front_facts s h pi p I G E) as [[pi1 [G1 [A1 [A2 [A3 [A4 [A5 [A6 A7]]]]]]]] [OTHER [B1 [B2 [B3 [B4 [B5 [B6 [B7 _]]]]]]]]].
    set (s1 := move_to_front s h (page_qbin pi) p) in *.
    destruct (live_blocks_split s1 p pi1 (hi_pnodup s1 I1) G1) as [l1 [l2 [LS LU]]].
    assert (~ In b (l1 ++ blocks pi1 ++ l2)) as Hb1 by (rewrite <- LS, B3; exact Hb).
    apply (page_blocks_change_inv s1 _ p pi1 (set_blocks (b :: blocks pi) capb pi1) I1 G1).
    + intros k. reflexivity.
    + intros q. hs. destruct (q =? p) eqn:Eqp; [|reflexivity]. apply N.eqb_eq in Eqp. subst. rewrite G1. reflexivity.
    + reflexivity.
    + hs. reflexivity.
    + reflexivity.
    + reflexivity.
    + reflexivity.
    + reflexivity.
    + reflexivity.
    + reflexivity.
    + reflexivity.
    + reflexivity.
    + cbn. rewrite A7. exact H1.
    + cbn. rewrite A5. intros b' [<-|Hb']; [lia|]. destruct (hi_page s I _ _ G) as [_ [_ [R _]]]. specialize (R _ Hb'). lia.
    + hs. rewrite LU. cbn [blocks set_blocks]. rewrite <- A4.
      apply (Permutation_NoDup (l := b :: l1 ++ blocks pi1 ++ l2)); [apply Permutation_middle|].
      constructor; [exact Hb1|]. rewrite <- LS. apply (hi_bnodup s1 I1).
    + unfold home_add. cbn. rewrite B4. constructor; [|apply (hi_hmnodup s I)]. intros K. apply Hb. apply (hi_home_live s I). exact K.
    + intros b'. unfold home_add at 1. cbn [home set_home map fst]. hs. rewrite LU. cbn [blocks set_blocks]. rewrite <- A4, B4.
      intros [<-|K]; [rewrite in_app_iff; right; left; reflexivity|].
      apply (hi_home_live s I) in K. rewrite <- B3, LS in K. rewrite !in_app_iff in *. cbn. tauto.
    + intros q qi b' K Hq. unfold home_add in *. cbn [home set_home find_home fst snd]. hs. rewrite B4.
      destruct (N.eqb_spec q p) as [Eqp|Eqp].
      * subst q. rewrite G1 in K. cbn in K. inversion K; subst qi. cbn in Hq |- *. rewrite A1. destruct Hq as [<-|Hq].
        -- rewrite N.eqb_refl, E. reflexivity.
        -- destruct (N.eqb_spec b b') as [Eb|Eb]; [subst b'; exfalso; apply Hb; apply live_blocks_in; exists p, pi; split; [apply get_page_in; exact G|exact Hq]|].
           eapply (hi_home s I); eauto.
      * rewrite OTHER in K by exact Eqp.
        destruct (N.eqb_spec b b') as [Eb|Eb]; [subst b'; exfalso; apply Hb; apply live_blocks_in; exists q, qi; split; [apply get_page_in; exact K|exact Hq]|].
        eapply (hi_home s I); eauto.
  - destruct (get_page s p) as [pi|] eqn:G; [discriminate|].
    destruct ((capb <=? size) && (start <=? b) && (b <? start + capb) && forallb _ (pages s)) eqn:C; [|discriminate].
    intros K. inversion K; subst s'. clear K.
    apply andb_true_iff in C; destruct C as [C H2]. apply andb_true_iff in C; destruct C as [C H1].
    apply andb_true_iff in C; destruct C as [C H0].
    apply N.leb_le in C, H0. apply N.ltb_lt in H1. rewrite forallb_forall in H2.
    apply fresh_page_inv with (hp := hp); auto; try lia.
    intros q qi Gq. apply (H2 (q, qi)). apply get_page_in. exact Gq.
Qed.

(* ================================================================================================ *)
(* free of one block                                                                                 *)
(* ================================================================================================ *)
Lemma page_of_block_some s b p pi : heap_Inv s -> page_of_block s b = Some (p, pi) -> get_page s p = Some pi.
Proof.
  intros I H. unfold page_of_block in H. apply find_some in H. destruct H as [H _]. apply inv_get_page_in; assumption.
Qed.

(* the state after the block left its page, before retire / unfull *)
Definition block_removed (s : state) (p : pid) (pi : pinfo) (b : bid) : state :=
  home_del (upd_page s p (set_blocks (qremove b (blocks pi)) (pcapb pi))) [b].

Lemma block_removed_inv s p pi b : heap_Inv s -> get_page s p = Some pi -> In b (blocks pi) ->
  heap_Inv (block_removed s p pi b).
Proof.
  intros I G Hb. unfold block_removed.
  destruct (live_blocks_split s p pi (hi_pnodup s I) G) as [l1 [l2 [LS LU]]].
  destruct (hi_page s I _ _ G) as [P1 [P2 [P3 P4]]].
  assert (NoDup (blocks pi)) as NB.
  { pose proof (hi_bnodup s I) as N. rewrite LS in N. apply NoDup_app_inv in N. destruct N as [_ [N _]].
    apply NoDup_app_inv in N. tauto. }
  apply (page_blocks_change_inv s _ p pi (set_blocks (qremove b (blocks pi)) (pcapb pi) pi) I G).
  - intros k. reflexivity.
  - intros q. hs. destruct (q =? p) eqn:Eqp; [|reflexivity]. apply N.eqb_eq in Eqp. subst. rewrite G. reflexivity.
  - reflexivity.
  - hs. reflexivity.
  - reflexivity.
  - reflexivity.
  - reflexivity.
  - reflexivity.
  - reflexivity.
  - reflexivity.
  - reflexivity.
  - reflexivity.
  - exact P2.
  - cbn. intros b' Hb'. apply qremove_In in Hb'. apply P3. tauto.
  - hs. rewrite LU. cbn [blocks set_blocks]. apply (NoDup_mid_sub l1 (blocks pi)).
    + rewrite <- LS. apply (hi_bnodup s I).
    + apply qremove_NoDup. exact NB.
    + intros x Hx. apply qremove_In in Hx. tauto.
  - unfold home_del. cbn [home set_home]. hs. rewrite map_fst_home_del. apply NoDup_filter. apply (hi_hmnodup s I).
  - intros b'. unfold home_del at 1. cbn [home set_home]. hs. rewrite map_fst_home_del. rewrite LU. cbn [blocks set_blocks].
    intros K. apply filter_In in K. destruct K as [K1 K2]. apply negb_true_iff, inb_false in K2.
    apply (hi_home_live s I) in K1. rewrite LS in K1. rewrite !in_app_iff in *. rewrite qremove_In.
    assert (b' <> b) by (intros ->; apply K2; left; reflexivity). tauto.
  - intros q qi b' K Hq. unfold home_del in *. cbn [home set_home]. hs. rewrite find_home_del.
    assert (b' <> b) as Hne.
    { destruct (N.eqb_spec q p) as [Eqp|Eqp].
      - subst q. rewrite G in K. cbn in K. inversion K; subst qi. cbn in Hq. apply qremove_In in Hq. tauto.
      - intros ->. apply Eqp. eapply (inv_block_page_unique s q p); eauto. }
    assert (inb b' [b] = false) as -> by (apply inb_false; intros [X|[]]; congruence).
    destruct (N.eqb_spec q p) as [Eqp|Eqp].
    + subst q. rewrite G in K. cbn in K. inversion K; subst qi. cbn in Hq |- *. apply qremove_In in Hq.
      eapply (hi_home s I); [exact G|tauto].
    + eapply (hi_home s I); eauto.
Qed.

Lemma block_removed_page s p pi b :
  get_page (block_removed s p pi b) p = option_map (set_blocks (qremove b (blocks pi)) (pcapb pi)) (get_page s p).
Proof. unfold block_removed, home_del. hs. rewrite N.eqb_refl. reflexivity. Qed.

Lemma block_free_unfold s b sl :
  block_free s b sl =
  match page_of_block s b with
  | None => None
  | Some (p, pi) =>
    if negb (inb b (blocks pi)) then None
    else
      let rest := qremove b (blocks pi) in
      let pi1 := set_blocks rest (pcapb pi) pi in
      let s1 := block_removed s p pi b in
      match pheap pi with
      | Some h =>
        if is_nil rest then Some (page_retire s1 h pi1 p)
        else if in_full pi then Some (page_unfull s1 p) else Some s1
      | None => if sl && (is_nil rest || in_full pi) then None else Some s1
      end
  end.
Proof. reflexivity. Qed.

Lemma block_free_inv s b sl s' : heap_Inv s -> block_free s b sl = Some s' -> heap_Inv s'.
Proof.
  intros I. rewrite block_free_unfold. destruct (page_of_block s b) as [[p pi]|] eqn:P; [|discriminate].
  pose proof (page_of_block_some _ _ _ _ I P) as G.
  destruct (inb b (blocks pi)) eqn:Hb; [|discriminate]. apply inb_spec in Hb. cbn [negb].
  pose proof (block_removed_inv s p pi b I G Hb) as I1.
  pose proof (block_removed_page s p pi b) as G1. rewrite G in G1. cbn [option_map] in G1.
  cbv zeta. destruct (pheap pi) as [h|] eqn:E.
  - destruct (is_nil (qremove b (blocks pi))) eqn:N.
    + intros K. inversion K; subst s'. apply is_nil_spec in N. apply page_retire_inv; [exact I1|exact G1|exact E|exact N].
    + destruct (in_full pi); intros K; inversion K; subst s'; [apply page_unfull_inv; exact I1|exact I1].
  - destruct (sl && _); [discriminate|]. intros K. inversion K; subst s'. exact I1.
Qed.

Lemma empty_page_free_inv s p s' : heap_Inv s -> empty_page_free s p = Some s' -> heap_Inv s'.
Proof.
  intros I. unfold empty_page_free. destruct (get_page s p) as [pi|] eqn:G; [|discriminate].
  destruct (pheap pi) as [h|] eqn:E; [|discriminate]. destruct (is_nil (blocks pi)) eqn:N; [|discriminate].
  intros K. inversion K; subst s'. apply page_free_inv; auto. apply is_nil_spec. exact N.
Qed.

Lemma to_full_op_inv s p s' : heap_Inv s -> to_full_op s p = Some s' -> heap_Inv s'.
Proof.
  intros I. unfold to_full_op. destruct (get_page s p) as [pi|]; [|discriminate].
  destruct (pheap pi); [|discriminate]. destruct (in_full pi); [discriminate|].
  intros K. inversion K; subst s'. apply page_to_full_inv. exact I.
Qed.

Lemma heap_set_default_inv s h : heap_Inv s -> heap_Inv (heap_set_default s h).
Proof.
  intros I. unfold heap_set_default. destruct (get_heap s h) as [hp|] eqn:H; [|exact I].
  destruct I. constructor; try assumption. cbn. eapply get_heap_in_ids; eauto.
Qed.
