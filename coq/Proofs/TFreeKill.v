(* _mi_page_free: clearing a page that has no used block and that no frame refers to. *)
From Coq Require Import NArith List Bool Lia Arith.
From MiV Require Import Model.TFree Proofs.TFreeBase Proofs.TFreeInv Proofs.TFreeGen Proofs.TFreeTop Proofs.TFreeStep.
Import ListNotations.
Local Open Scope N_scope.

Definition fr_touch (p : N) (f : frame) : bool :=
  existsb (N.eqb p) (fr_page f) || existsb (onp p) (fr_blocks f)
  || match f with HD3 _ _ ps => memN p ps | _ => false end.

Lemma del_ok_setp_irrel c p pg' h b : fst b <> p -> del_ok (setp c p pg') h b = del_ok c h b.
Proof.
  intros H. unfold del_ok. rewrite geth_setp, getp_setp, gett_setp. apply N.eqb_neq in H. rewrite H. reflexivity.
Qed.
Lemma forallb_ext_in {A} (f g : A -> bool) l : (forall x, In x l -> f x = g x) -> forallb f l = forallb g l.
Proof.
  induction l as [|x r IH]; [reflexivity|]. intros H. cbn. rewrite H by (left; reflexivity).
  rewrite IH; [reflexivity|]. intros; apply H; right; assumption.
Qed.
Lemma existsb_false_In {A} (f : A -> bool) l x : existsb f l = false -> In x l -> f x = false.
Proof.
  induction l as [|y r IH]; [intros _ []|]. cbn. intros H. apply orb_false_iff in H as [H1 H2].
  intros [->|Hin]; auto.
Qed.

Lemma fr_ok_setp_irrel c p pg' t th f : fr_touch p f = false ->
  fr_ok (setp c p pg') t th f = fr_ok c t th f.
Proof.
  unfold fr_touch. intros H. apply orb_false_iff in H as [H H3]. apply orb_false_iff in H as [H1 H2].
  assert (Hb : forall b, In b (fr_blocks f) -> fst b <> p).
  { intros b Hin. pose proof (existsb_false_In _ _ _ H2 Hin) as E. unfold onp in E. apply N.eqb_neq in E. exact E. }
  assert (Hq : forall q, In q (fr_page f) -> getp (setp c p pg') q = getp c q).
  { intros q Hin. pose proof (existsb_false_In _ _ _ H1 Hin) as E. rewrite getp_setp, N.eqb_sym, E. reflexivity. }
  assert (Hd : forall h l, (forall b, In b l -> fst b <> p) -> forallb (del_ok (setp c p pg') h) l = forallb (del_ok c h) l).
  { intros h l Hl. apply forallb_ext_in. intros x Hx. apply del_ok_setp_irrel. auto. }
  destruct f; cbn [fr_ok]; rewrite ?geth_setp, ?gett_setp; cbn [fr_page fr_blocks] in *;
    try rewrite (Hq p0) by (left; reflexivity); try reflexivity.
  - (* RF4 *) rewrite getp_setp. assert (E : (fst b =? p) = false) by (apply N.eqb_neq, Hb; left; reflexivity).
    rewrite E. reflexivity.
  - rewrite getp_setp. assert (E : (fst b =? p) = false) by (apply N.eqb_neq, Hb; left; reflexivity).
    rewrite E. reflexivity.
  - rewrite Hd by assumption. reflexivity.
  - rewrite Hd by assumption. reflexivity.
  - rewrite Hd by assumption. reflexivity.
  - rewrite Hd by assumption. reflexivity.
  - (* HD3 *) f_equal. apply forallb_ext_in. intros q Hin. rewrite getp_setp.
    assert (E : (q =? p) = false).
    { apply N.eqb_neq. intros ->. unfold memN in H3. pose proof (existsb_false_In _ _ _ H3 Hin) as E.
      rewrite N.eqb_refl in E. discriminate. }
    rewrite E. reflexivity.
Qed.

Definition fr_touch_pg (p : N) (f : frame) : bool :=
  existsb (N.eqb p) (fr_page f) || match f with HD3 _ _ ps => memN p ps | _ => false end.

Lemma kill_page c p t0 :
  Inv c -> own (getp c p) t0 = true -> pg_used (getp c p) = 0 ->
  (forall f, In f (th_stk (gett c t0)) -> fr_touch_pg p f = false) ->
  pg_flag (getp c p) <> Freeing /\ pg_tf (getp c p) = [] /\ Inv (setp c p pg0).
Proof.
  intros I Hown Hu Hnt. pose proof (i_wf _ I) as Hwf.
  destruct (own_true _ _ Hown) as [Hal Htid].
  destruct (a_count _ (i_A _ I) p) as (C1 & C2 & C3 & C4).
  assert (W0 : mW c (onp p) = 0%nat) by lia.
  (* no block of p is in a non-free place *)
  assert (Hnb : forall t f b, In f (th_stk (gett c t)) -> In b (fr_blocks f) -> fst b <> p).
  { intros t f b Hf Hb Ep. pose proof (mW_ge_th c t (onp p)) as G. unfold th_W in G.
    assert (1 <= cnt (onp p) (stk_blocks (th_stk (gett c t))))%nat; [|lia].
    apply (cnt_In_onp _ b); [|unfold onp; apply N.eqb_eq; assumption].
    unfold stk_blocks. apply in_flat_map. exists f. auto. }
  assert (Htf : pg_tf (getp c p) = []).
  { pose proof (mW_ge_tf c p (onp p)) as G. rewrite (cnt_all _ _ (tf_local c p I)) in G.
    destruct (pg_tf (getp c p)); [reflexivity|cbn in G; lia]. }
  assert (Hdel : forall h b, In b (hp_del (geth c h)) -> fst b <> p).
  { intros h b Hb Ep. pose proof (mW_ge_del c h (onp p)) as G.
    assert (1 <= cnt (onp p) (hp_del (geth c h)))%nat; [|lia].
    apply (cnt_In_onp _ b); [assumption|unfold onp; apply N.eqb_eq; assumption]. }
  assert (Hfl : pg_flag (getp c p) <> Freeing).
  { intros F. pose proof (b_win _ (i_B _ I) p) as W. rewrite F in W. cbn in W.
    destruct (mWin_pos_ex c Hwf p) as [t Ht]; [lia|].
    destruct (sum_fr_pos_ex _ _ Ht) as [f [Hf1 Hf2]].
    destruct f; cbn in Hf2; try lia;
      try (destruct (fst b =? p) eqn:Eb; [apply N.eqb_eq in Eb|lia];
           apply (Hnb t _ b Hf1); [left; reflexivity|assumption]).
    - (* RF6 *) destruct (p0 =? p) eqn:Eq; [apply N.eqb_eq in Eq; subst p0|lia].
      assert (1 <= mD c (onp p))%nat.
      { apply (b_nd _ (i_B _ I)). right. pose proof (mPw_ge c t p) as G.
        pose proof (sum_fr_In (pw_fr p) _ _ Hf1) as G'. cbn in G'. rewrite N.eqb_refl in G'. lia. }
      pose proof (mD_le_mW c (onp p)). lia.
    - destruct (p0 =? p) eqn:Eq; [apply N.eqb_eq in Eq; subst p0|lia].
      assert (1 <= mD c (onp p))%nat.
      { apply (b_nd _ (i_B _ I)). right. pose proof (mPw_ge c t p) as G.
        pose proof (sum_fr_In (pw_fr p) _ _ Hf1) as G'. cbn in G'. rewrite N.eqb_refl in G'. lia. }
      pose proof (mD_le_mW c (onp p)). lia. }
  split; [assumption|]. split; [assumption|].
  (* no frame of any thread refers to p *)
  assert (Hall : forall t f, In f (th_stk (gett c t)) -> fr_touch p f = false).
  { intros t f Hf.
    assert (Hb : existsb (onp p) (fr_blocks f) = false).
    { destruct (existsb (onp p) (fr_blocks f)) eqn:Ex; [|reflexivity]. apply existsb_exists in Ex as [b [Hb1 Hb2]].
      unfold onp in Hb2. apply N.eqb_eq in Hb2. exfalso. apply (Hnb t f b Hf Hb1 Hb2). }
    destruct (N.eq_dec t t0) as [->|Hne].
    { specialize (Hnt f Hf). unfold fr_touch, fr_touch_pg in *. apply orb_false_iff in Hnt as [H1 H2].
      rewrite H1, Hb, H2. reflexivity. }
    pose proof (s_frames _ (i_S _ I) t) as F. rewrite forallb_forall in F. specialize (F f Hf).
    assert (Hq : forall q, own (getp c q) t = true -> (p =? q) = false).
    { intros q Ho. apply N.eqb_neq. intros <-. apply own_true in Ho as [_ Ho]. congruence. }
    unfold fr_touch. rewrite Hb. rewrite orb_false_r.
    destruct f; cbn [fr_page existsb fr_ok] in *; rewrite ?orb_false_r; try reflexivity;
      rewrite ?andb_true_iff in F; repeat match goal with H : _ /\ _ |- _ => destruct H end;
      try (apply Hq; assumption).
    - (* RF6 *) destruct (p =? p0) eqn:Eq; [|reflexivity]. apply N.eqb_eq in Eq. subst p0. exfalso. apply Hfl.
      apply (in_window_flag c t p I). pose proof (sum_fr_In (win_fr p) _ _ Hf) as G. cbn in G. rewrite N.eqb_refl in G. lia.
    - destruct (p =? p0) eqn:Eq; [|reflexivity]. apply N.eqb_eq in Eq. subst p0. exfalso. apply Hfl.
      apply (in_window_flag c t p I). pose proof (sum_fr_In (win_fr p) _ _ Hf) as G. cbn in G. rewrite N.eqb_refl in G. lia.
    - (* HD3 *) unfold memN. destruct (existsb (N.eqb p) ps) eqn:Ex; [|reflexivity].
      apply existsb_exists in Ex as [q [Hq1 Hq2]]. apply N.eqb_eq in Hq2. subst q.
      match goal with H : forallb _ ps = true |- _ => pose proof (forallb_In _ _ H p Hq1) as Ho end.
      cbn beta in Ho. apply andb_prop in Ho as [Ho _]. apply own_true in Ho as [_ Ho]. congruence. }
  set (c' := setp c p pg0).
  assert (Gp : forall q, getp c' q = if q =? p then pg0 else getp c q) by (intros; apply getp_setp).
  assert (EW : forall P, mW c' P = mW c P).
  { intros P. pose proof (mW_setp c Hwf p pg0 P) as E. rewrite Htf in E. cbn [pg_tf pg0] in E. unfold c'. lia. }
  assert (EF : forall P, (mF c' P + (cnt P (pg_free (getp c p)) + cnt P (pg_lfree (getp c p))) = mF c P)%nat).
  { intros P. pose proof (mF_setp c Hwf p pg0 P) as E. cbn [pg_free pg_lfree pg0] in E. rewrite cnt_nil in E. unfold c'. lia. }
  assert (Lc' : forall q, forallb (onp q) (pg_blocks (getp c' q)) = true).
  { intros q. rewrite Gp. destruct (q =? p); [reflexivity|apply (a_local _ (i_A _ I))]. }
  assert (F0 : mF c' (onp p) = 0%nat).
  { rewrite (mF_local c' p (wf_setp _ _ _ Hwf) Lc'), Gp, N.eqb_refl. reflexivity. }
  assert (Lp : forall q, q <> p -> (cnt (onp q) (pg_free (getp c p)) + cnt (onp q) (pg_lfree (getp c p)) = 0)%nat).
  { intros q Hq. pose proof (a_local _ (i_A _ I) p) as L. unfold pg_blocks in L. rewrite !forallb_app in L.
    apply andb_prop in L as [_ L]. apply andb_prop in L as [L1 L2].
    rewrite !cnt_none; [reflexivity| |]; intros x Hx.
    - pose proof (forallb_In _ _ L2 x Hx) as Hp. unfold onp in *. apply N.eqb_eq in Hp. rewrite Hp. apply N.eqb_neq. congruence.
    - pose proof (forallb_In _ _ L1 x Hx) as Hp. unfold onp in *. apply N.eqb_eq in Hp. rewrite Hp. apply N.eqb_neq. congruence. }
  constructor.
  - apply wf_setp. assumption.
  - constructor.
    + intros b. rewrite EW. pose proof (a_uniq _ (i_A _ I) b). pose proof (EF (bid_eqb b)). lia.
    + intros b Hb. rewrite Gp. destruct (fst b =? p) eqn:Eb.
      * exfalso. apply N.eqb_eq in Eb. pose proof (cnt_eqb_le_onp b) as G.
        assert (mW c' (bid_eqb b) <= mW c' (onp p))%nat.
        { rewrite <- Eb. unfold mW. repeat apply Nat.add_le_mono; apply ftot_le; intros v; unfold th_W;
            try apply Nat.add_le_mono; apply cnt_eqb_le_onp. }
        assert (mF c' (bid_eqb b) <= mF c' (onp p))%nat.
        { rewrite <- Eb. unfold mF. apply ftot_le; intros v; apply Nat.add_le_mono; apply cnt_eqb_le_onp. }
        pose proof (EW (onp p)). lia.
      * apply (a_range _ (i_A _ I)). rewrite EW in Hb. pose proof (EF (bid_eqb b)). lia.
    + intros q. rewrite Gp, EW. destruct (q =? p) eqn:Eq.
      * apply N.eqb_eq in Eq. subst q. rewrite W0, F0. cbn. repeat split; lia.
      * apply N.eqb_neq in Eq. pose proof (EF (onp q)) as E. rewrite (Lp q Eq) in E. rewrite Nat.add_0_r in E. rewrite E.
        apply (a_count _ (i_A _ I)).
    + assumption.
  - constructor.
    + intros q. change (mWin c' q) with (mWin c q). rewrite Gp. destruct (q =? p) eqn:Eq; [|apply (b_win _ (i_B _ I))].
      apply N.eqb_eq in Eq. subst q. pose proof (b_win _ (i_B _ I) p) as W.
      destruct (flag_eqb (pg_flag (getp c p)) Freeing) eqn:F; [apply flag_eqb_eq in F; contradiction|exact W].
    + intros q. change (mPw c' q) with (mPw c q). change (mD c' (onp q)) with (mD c (onp q)). rewrite Gp.
      destruct (q =? p) eqn:Eq; [|apply (b_nd _ (i_B _ I))].
      apply N.eqb_eq in Eq. subst q. cbn [pg_flag pg0]. intros [H|H]; [discriminate|].
      apply (b_nd _ (i_B _ I)). right. assumption.
  - destruct (i_S _ I) as [S1 S2 S3 S4 S5 S6 S7 S8 S9]. constructor.
    + intros q. rewrite Gp. destruct (q =? p); [reflexivity|apply S1].
    + intros q. rewrite Gp. destruct (q =? p); [discriminate|apply S2].
    + exact S3.
    + exact S4.
    + exact S5.
    + intros h. change (geth c' h) with (geth c h). rewrite <- (S6 h). apply forallb_ext_in.
      intros b Hb. apply del_ok_setp_irrel. apply (Hdel h). assumption.
    + exact S7.
    + intros t. change (gett c' t) with (gett c t). rewrite <- (S8 t). apply forallb_ext_in.
      intros f Hf. apply fr_ok_setp_irrel. apply (Hall t). assumption.
    + intros t f Hf. change (gett c' t) with (gett c t) in *. specialize (S9 t f Hf).
      destruct f; cbn [hd_fr_okP] in *; auto.
      * intros q. rewrite Gp. destruct (q =? p); [discriminate|apply S9].
      * destruct S9 as [H1 H2]. split; [|exact H2]. intros q. rewrite Gp. destruct (q =? p); [discriminate|apply H1].
Qed.

