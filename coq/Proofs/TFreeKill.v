(* _mi_page_free: clearing a page that has no used block and that no frame refers to. *)
From Coq Require Import NArith List Bool Lia Arith.
From MiV Require Import Model.TFree Proofs.TFreeBase Proofs.TFreeInv Proofs.TFreeGen Proofs.TFreeTop Proofs.TFreeStep.
Import ListNotations.
Local Open Scope N_scope.

Definition fr_touch (p : N) (f : frame) : bool :=
  existsb (N.eqb p) (fr_page f) || existsb (onp p) (fr_blocks f)
  || match f with HD3 _ _ ps => memN p ps | _ => false end.

Lemma del_ok_setp_irrel c p pg' h b : fst b <> p -> del_ok (setp c p pg') h b = del_ok c h b.
Proof.
  intros H. unfold del_ok. rewrite geth_setp, getp_setp, gett_setp. apply N.eqb_neq in H. rewrite H. reflexivity.
Qed.
Lemma forallb_ext_in {A} (f g : A -> bool) l : (forall x, In x l -> f x = g x) -> forallb f l = forallb g l.
Proof.
  induction l as [|x r IH]; [reflexivity|]. intros H. cbn. rewrite H by (left; reflexivity).
  rewrite IH; [reflexivity|]. intros; apply H; right; assumption.
Qed.
Lemma existsb_false_In {A} (f : A -> bool) l x : existsb f l = false -> In x l -> f x = false.
Proof.
  induction l as [|y r IH]; [intros _ []|]. cbn. intros H. apply orb_false_iff in H as [H1 H2].
  intros [->|Hin]; auto.
Qed.

Lemma fr_ok_setp_irrel c p pg' t th f : fr_touch p f = false ->
  fr_ok (setp c p pg') t th f = fr_ok c t th f.
Proof.
  unfold fr_touch. intros H. apply orb_false_iff in H as [H H3]. apply orb_false_iff in H as [H1 H2].
  assert (Hb : forall b, In b (fr_blocks f) -> fst b <> p).
  { intros b Hin. pose proof (existsb_false_In _ _ _ H2 Hin) as E. unfold onp in E. apply N.eqb_neq in E. exact E. }
  assert (Hq : forall q, In q (fr_page f) -> getp (setp c p pg') q = getp c q).
  { intros q Hin. pose proof (existsb_false_In _ _ _ H1 Hin) as E. rewrite getp_setp, N.eqb_sym, E. reflexivity. }
  assert (Hd : forall h l, (forall b, In b l -> fst b <> p) -> forallb (del_ok (setp c p pg') h) l = forallb (del_ok c h) l).
  { intros h l Hl. apply forallb_ext_in. intros x Hx. apply del_ok_setp_irrel. auto. }
  destruct f; cbn [fr_ok]; rewrite ?geth_setp, ?gett_setp; cbn [fr_page fr_blocks] in *;
    try rewrite (Hq p0) by (left; reflexivity); try reflexivity.
  - (* RF4 *) rewrite getp_setp. assert (E : (fst b =? p) = false) by (apply N.eqb_neq, Hb; left; reflexivity).
    rewrite E. reflexivity.
  - rewrite getp_setp. assert (E : (fst b =? p) = false) by (apply N.eqb_neq, Hb; left; reflexivity).
    rewrite E. reflexivity.
  - rewrite Hd by assumption. reflexivity.
  - rewrite Hd by assumption. reflexivity.
  - rewrite Hd by assumption. reflexivity.
  - rewrite Hd by assumption. reflexivity.
  - (* HD3 *) f_equal. apply forallb_ext_in. intros q Hin. rewrite getp_setp.
    assert (E : (q =? p) = false).
    { apply N.eqb_neq. intros ->. unfold memN in H3. pose proof (existsb_false_In _ _ _ H3 Hin) as E.
      rewrite N.eqb_refl in E. discriminate. }
    rewrite E. reflexivity.
Qed.
