(* C08, the full-queue protocol: a page with remotely freed blocks is noticed by its owner and is un-fulled by the
   owner's next drain of the delayed-free list (the structural reason why a producer/consumer workload with a bounded
   number of live blocks stays bounded: no page is stranded in the full queue). *)
From Coq Require Import NArith List Bool Lia Arith.
From MiV Require Import Model.TFree Proofs.TFreeBase Proofs.TFreeInv Proofs.TFreeGen Proofs.TFreeTop Proofs.TFreeStep
  Proofs.TFreeStep2 Proofs.TFreeStep3 Proofs.TFreeKill Proofs.TFreeStep4 Proofs.TFreeStep5 Proofs.TFreeProofs Proofs.TFreeSolo
  Proofs.TFreeT.
Import ListNotations.
Local Open Scope N_scope.

(* at quiescence nothing is pending in a frame *)
Lemma quiescent_mD c p : Inv c -> quiescentP c -> (1 <= mD c (onp p))%nat ->
  exists h b, fst b = p /\ In b (hp_del (geth c h)) /\ hp_alive (geth c h) = true.
Proof.
  intros I Hq H. destruct (mD_pos_ex c p I H) as (b & Hb & [(h & Hin & Hal)|(t & Hin)]).
  - exists h, b. auto.
  - rewrite Hq in Hin. destruct Hin.
Qed.

(* a delayed block of a page of heap h sits on h's own list when nobody is inside mi_heap_delete *)
Lemma quiescent_del_heap c h' b : Inv c -> quiescentP c -> In b (hp_del (geth c h')) -> pg_heap (getp c (fst b)) = Some h'.
Proof.
  intros I Hq Hin. pose proof (s_del _ (i_S _ I) h') as D. pose proof (forallb_In _ _ D b Hin) as Db.
  unfold del_ok in Db. apply andb_prop in Db as [_ Db]. rewrite Hq in Db. cbn in Db. rewrite orb_false_r in Db.
  apply oN_eqb_eq in Db. exact Db.
Qed.

(* (1) noticed: whenever all threads are between calls, a page with a non-empty thread-free list (that is not being
   abandoned) has one of its blocks on the delayed-free list of ITS heap: the owner's next drain of that heap meets it *)
Lemma noticed c p h : Inv c -> InvT c -> quiescentP c ->
  pg_heap (getp c p) = Some h -> pg_tf (getp c p) <> [] -> pg_flag (getp c p) <> NeverD ->
  exists b, fst b = p /\ In b (hp_del (geth c h)).
Proof.
  intros I IT Hq Hh Htf Hnv.
  assert (HD : (1 <= mD c (onp p))%nat).
  { destruct (pg_flag (getp c p)) eqn:Ef.
    - (* UseD: tflist_nonempty_flag, and no thread is in the phase between flag reset and collect *)
      pose proof (IT p Htf Ef) as H.
      assert (Z : mPh c p = 0%nat).
      { unfold mPh. apply (ftot_zero th0); [apply (wf_parts c (i_wf _ I))|reflexivity|].
        intros u. fold (gett c u). rewrite Hq. reflexivity. }
      lia.
    - exfalso. apply (quiescent_noF c I Hq p Ef).
    - apply (b_nd _ (i_B _ I)). left. exact Ef.
    - contradiction. }
  destruct (quiescent_mD c p I Hq HD) as (h' & b & Hb & Hin & _).
  pose proof (quiescent_del_heap c h' b I Hq Hin) as Hh'. rewrite Hb, Hh in Hh'. inversion Hh'; subst h'.
  exists b. auto.
Qed.

Theorem remote_free_noticed_P : forall s, reachable s -> exists c, s = Ok c /\
  (quiescent c = true -> forall p h, pg_heap (getp c p) = Some h -> pg_tf (getp c p) <> [] -> pg_flag (getp c p) <> NeverD ->
   exists b, fst b = p /\ In b (hp_del (geth c h)) /\ hp_alive (geth c h) = true).
Proof.
  intros s Hr. destruct (reachable_InvT s Hr) as (c & -> & I & IT). exists c. split; [reflexivity|].
  intros Hq p h Hh Htf Hnv. apply quiescent_spec in Hq.
  destruct (noticed c p h I IT Hq Hh Htf Hnv) as (b & Hb & Hin). exists b. split; [exact Hb|]. split; [exact Hin|].
  destruct (hp_alive (geth c h)) eqn:Ea; [reflexivity|]. rewrite (s_hdead _ (i_S _ I) h Ea) in Hin. destruct Hin.
Qed.

(* (2) un-fulled: from any reachable state in which all threads are between calls, the owner's next
   _mi_heap_delayed_free_all(h), run alone, terminates and leaves every page of h that had a remotely freed block (on its
   thread-free list or on h's delayed list) OUT of the full queue (back in its size queue, or freed because it became
   empty), with its thread-free list collected; h's delayed list is empty afterwards *)
Theorem full_page_unfulled_by_drain_P : forall s, reachable s -> exists c, s = Ok c /\
  (quiescent c = true -> forall t h p, hown (geth c h) t = true ->
   pg_heap (getp c p) = Some h -> pg_flag (getp c p) <> NeverD ->
   (pg_tf (getp c p) <> [] \/ exists b, fst b = p /\ In b (hp_del (geth c h))) ->
   exists c1 n c', cstep c t (COp (OpDelayedAll h)) = ROk c1 None /\ solo n c1 t = Some c'
                   /\ reachable (Ok c') /\ quiescent c' = true
                   /\ pg_full (getp c' p) = false /\ pg_tf (getp c' p) = [] /\ hp_del (geth c' h) = []).
Proof.
  intros s Hr. destruct (reachable_InvT s Hr) as (c & -> & I & IT). exists c. split; [reflexivity|].
  intros Hq t h p Ho Hh Hnv Hrem. apply quiescent_spec in Hq.
  pose proof (quiescent_noF c I Hq) as HnF.
  assert (Hb : exists b, fst b = p /\ In b (hp_del (geth c h))).
  { destruct Hrem as [Htf|Hb]; [apply (noticed c p h I IT Hq Hh Htf Hnv)|exact Hb]. }
  destruct Hb as (b & Hbp & Hbin).
  assert (C0 : cstep c t (COp (OpDelayedAll h)) = ok_s c t (gett c t) [DP1 h; DA h] None).
  { unfold cstep. rewrite Hq. cbn [start]. rewrite Ho. reflexivity. }
  unfold ok_s, ok_t in C0.
  set (c1 := sett c t (th_set (gett c t) [DP1 h; DA h] (th_ret (gett c t)))) in *.
  assert (I1 : Inv c1) by (pose proof (cstep_good c t (COp (OpDelayedAll h)) I) as G; rewrite C0 in G; exact G).
  assert (E1 : th_stk (gett c1 t) = [DP1 h; DA h]) by (unfold c1; rewrite gett_sett, N.eqb_refl; reflexivity).
  destruct (run_DA t c1 h [] I1 (fun q => HnF q) E1) as (c2 & R2 & E2 & (K2 & H2 & D2) & F2).
  assert (I2 : Inv c2) by (apply (sreach_Inv t c1); assumption).
  assert (Hq2 : quiescentP c2).
  { intros u. destruct (N.eq_dec u t) as [->|Hne]; [exact E2|]. rewrite (k_oth _ _ _ K2 u Hne). unfold c1. rewrite gett_sett.
    apply N.eqb_neq in Hne. rewrite Hne. apply Hq. }
  destruct (sreach_solo t c1 c2 R2 E2) as [n Hn].
  destruct (F2 b Hbin) as [Ff Ft]. rewrite Hbp in Ff, Ft.
  exists c1, n, c2. split; [exact C0|]. split; [exact Hn|]. split.
  - apply (sreach_reachable t c1 c2 R2). apply (reach_step (Ok c) t (COp (OpDelayedAll h))); [exact Hr|]. cbn. rewrite C0. reflexivity.
  - split; [apply quiescent_spec_rev; [exact Hq2|apply (i_wf _ I2)]|]. auto.
Qed.
