(* Proofs for property C15 over Model/Bind.v. *)
From Coq Require Import NArith ZArith List Bool Lia.
From MiV Require Import Gen.Consts Gen.OsConsts Model.Arith Proofs.Base Proofs.BitsProofs Model.Bind.
Import ListNotations.
Local Open Scope N_scope.
Local Open Scope bool_scope.

(* ---------------------------------------------------------------------------------------------- *)
(* suitability                                                                                      *)
(* ---------------------------------------------------------------------------------------------- *)

Lemma suitable_spec aid ex req :
  arena_id_is_suitable aid ex req = true <-> (ex = false /\ req = 0%Z) \/ aid = req.
Proof.
  unfold arena_id_is_suitable, arena_id_none. rewrite orb_true_iff, andb_true_iff, negb_true_iff, !Z.eqb_eq.
  tauto.
Qed.

(* an exclusive arena only serves requests for exactly that arena *)
Lemma suitable_exclusive id req : memid_is_suitable (MemArena id true) req = true -> req = id.
Proof. unfold memid_is_suitable. rewrite suitable_spec. intros [[H _]|H]; [discriminate|auto]. Qed.

(* a request for a specific arena is only served by memory of that arena *)
Lemma suitable_bound m req : req <> 0%Z -> memid_is_suitable m req = true -> exists ex, m = MemArena req ex.
Proof.
  intros Hr. destruct m as [|id ex]; unfold memid_is_suitable; rewrite suitable_spec; unfold arena_id_none.
  - intros [[_ H]|H]; congruence.
  - intros [[_ H]|H]; [congruence|]. subst. eauto.
Qed.

Lemma suitable_unbound_other : memid_is_suitable MemOther 0%Z = true.
Proof. reflexivity. Qed.

(* ---------------------------------------------------------------------------------------------- *)
(* lists indexed by N                                                                               *)
(* ---------------------------------------------------------------------------------------------- *)

Lemma nthN_In {A} (l : list A) i x : nthN l i = Some x -> In x l.
Proof.
  revert i. induction l as [|y t IH]; cbn; intros i H; [discriminate|].
  destruct (i =? 0); [inversion H; auto|right; eauto].
Qed.

Lemma nthN_app_l {A} (l l' : list A) i x : nthN l i = Some x -> nthN (l ++ l') i = Some x.
Proof.
  revert i. induction l as [|y t IH]; cbn; intros i H; [discriminate|].
  destruct (i =? 0); [assumption|eauto].
Qed.

Lemma nthN_lt {A} (l : list A) i x : nthN l i = Some x -> i < lengthN l.
Proof.
  unfold lengthN. revert i. induction l as [|y t IH]; cbn [nthN length]; intros i H; [discriminate|].
  destruct (i =? 0) eqn:E; [apply N.eqb_eq in E; lia|].
  apply N.eqb_neq in E. apply IH in H. lia.
Qed.

Lemma nthN_length {A} (l : list A) x : nthN (l ++ [x]) (lengthN l) = Some x.
Proof.
  unfold lengthN. induction l as [|y t IH]; [reflexivity|].
  cbn [app length nthN]. destruct (N.of_nat (S (length t)) =? 0) eqn:E; [apply N.eqb_eq in E; lia|].
  replace (N.of_nat (S (length t)) - 1) with (N.of_nat (length t)) by lia. exact IH.
Qed.

Lemma nthN_app_r {A} (l : list A) x i y : nthN (l ++ [x]) i = Some y -> nthN l i = Some y \/ (i = lengthN l /\ y = x).
Proof.
  unfold lengthN. revert i. induction l as [|z t IH]; cbn [app nthN length]; intros i H.
  - destruct (i =? 0) eqn:E; [|discriminate]. apply N.eqb_eq in E. inversion H. right. split; [exact E|reflexivity].
  - destruct (i =? 0) eqn:E; [left; assumption|].
    apply N.eqb_neq in E. apply IH in H as [H|[H1 H2]]; [left; assumption|right; split; [lia|assumption]].
Qed.

(* ---------------------------------------------------------------------------------------------- *)
(* mi_manage_os_memory_ex2                                                                          *)
(* ---------------------------------------------------------------------------------------------- *)

Lemma consts_align : MI_SEGMENT_ALIGN = 33554432 /\ MI_ARENA_BLOCK_SIZE = 33554432 /\ MI_BITMAP_FIELD_BITS = 64.
Proof. repeat split; reflexivity. Qed.

Lemma divide_up_64 b : b + 64 < W64 -> divide_up b 64 = (b + 63) / 64.
Proof.
  intros H. unfold divide_up. change (64 =? 0) with false. cbv iota.
  rewrite wadd_small by (rewrite W64_val in *; lia). rewrite wsub_small by lia.
  f_equal. lia.
Qed.

Lemma size_le_blocks size : size + MI_ARENA_BLOCK_SIZE < W64 ->
  size <= block_count_of_size size * MI_ARENA_BLOCK_SIZE.
Proof.
  destruct consts_align as (_ & HB & _). rewrite HB. intros H.
  unfold block_count_of_size, divide_up. rewrite HB. change (33554432 =? 0) with false. cbv iota.
  rewrite wadd_small by (rewrite W64_val in *; lia). rewrite wsub_small by lia.
  pose proof (div_mul_gt (size + 33554432 - 1) 33554432 ltac:(lia)). lia.
Qed.

(* the adjusted region: what the first half of mi_manage_os_memory_ex2 computes *)
Lemma manage_adjust start size m :
  start + size <= W64 -> manage_os_memory start size = Some m ->
  exists size',
    start <= m_start m /\ m_start m + size' <= start + size /\ MI_ARENA_BLOCK_SIZE <= size' /\
    m_start m mod MI_SEGMENT_ALIGN = 0 /\
    m_bcount m = size' / MI_ARENA_BLOCK_SIZE /\
    m_fields m = divide_up (m_bcount m) MI_BITMAP_FIELD_BITS /\
    m_post m = m_fields m * MI_BITMAP_FIELD_BITS - m_bcount m /\
    m_postidx m = (m_fields m - 1) * MI_BITMAP_FIELD_BITS + (MI_BITMAP_FIELD_BITS - m_post m).
Proof.
  intros Hreg. unfold manage_os_memory.
  destruct (size <? MI_ARENA_BLOCK_SIZE) eqn:Es; [discriminate|]. apply N.ltb_ge in Es.
  destruct consts_align as (HA & HB & HF).
  destruct (is_aligned start MI_SEGMENT_ALIGN) eqn:Ea.
  - intros H. inversion H; subst m; clear H. cbn [m_start m_bcount m_fields m_post m_postidx].
    exists size. unfold is_aligned in Ea. apply N.eqb_eq in Ea.
    repeat split; try reflexivity; try lia; try exact Ea.
  - assert (Hal : start + MI_SEGMENT_ALIGN - 1 < W64) by (rewrite HA; rewrite HB in Es; lia).
    pose proof (align_up_props start MI_SEGMENT_ALIGN ltac:(rewrite HA; lia) Hal ltac:(rewrite HA, W64_val; lia)) as (H1 & H2 & H3).
    set (al := align_up start MI_SEGMENT_ALIGN) in *.
    rewrite (wsub_small al start H1).
    destruct ((size <=? al - start) || (size - (al - start) <? MI_ARENA_BLOCK_SIZE)) eqn:Ed; [discriminate|].
    apply orb_false_iff in Ed as [Ed1 Ed2]. apply N.leb_gt in Ed1. apply N.ltb_ge in Ed2.
    intros H. inversion H; subst m; clear H. cbn [m_start m_bcount m_fields m_post m_postidx].
    exists (size - (al - start)). repeat split; try reflexivity; try lia; try exact H3.
Qed.

Lemma bit_mask_testbit post j : 0 < post -> post < 64 -> j < 64 ->
  N.testbit (bit_mask post (64 - post)) j = (64 - post <=? j).
Proof.
  intros H0 H1 Hj. unfold bit_mask. destruct (post =? 0) eqn:E; [apply N.eqb_eq in E; lia|].
  rewrite wrap_small.
  2:{ rewrite N.shiftl_mul_pow2, N.ones_equiv, W64_pow.
      assert (Hp : 2 ^ 64 = 2 ^ post * 2 ^ (64 - post)) by (rewrite <- N.pow_add_r; f_equal; lia).
      rewrite Hp.
      assert (0 < 2 ^ post) by (apply N.neq_0_lt_0, N.pow_nonzero; lia).
      assert (0 < 2 ^ (64 - post)) by (apply N.neq_0_lt_0, N.pow_nonzero; lia). nia. }
  destruct (64 - post <=? j) eqn:El.
  - apply N.leb_le in El. rewrite N.shiftl_spec_high' by exact El. apply N.ones_spec_low. lia.
  - apply N.leb_gt in El. apply N.shiftl_spec_low. exact El.
Qed.

(* the bits from block_count up to the end of the last field are pre-claimed *)
Lemma inuse_init_post m bit :
  m_bcount m + 64 < W64 ->
  m_fields m = divide_up (m_bcount m) MI_BITMAP_FIELD_BITS ->
  m_post m = m_fields m * MI_BITMAP_FIELD_BITS - m_bcount m ->
  m_postidx m = (m_fields m - 1) * MI_BITMAP_FIELD_BITS + (MI_BITMAP_FIELD_BITS - m_post m) ->
  m_bcount m <= bit < m_fields m * MI_BITMAP_FIELD_BITS -> inuse_init m bit = true.
Proof.
  destruct consts_align as (_ & _ & HF). rewrite !HF. intros Hw Hf Hp Hi Hb.
  rewrite divide_up_64 in Hf by exact Hw.
  set (b := m_bcount m) in *. set (f := m_fields m) in *.
  pose proof (div_mul_le (b + 63) 64 ltac:(lia)). pose proof (div_mul_gt (b + 63) 64 ltac:(lia)).
  rewrite <- Hf in *.
  assert (Hpost : 0 < m_post m < 64) by lia.
  assert (Hf1 : 1 <= f) by lia.
  unfold inuse_init, inuse_init_word. rewrite HF.
  destruct (0 <? m_post m) eqn:E0; [|apply N.ltb_ge in E0; lia]. cbn [andb].
  assert (Hq : m_postidx m / 64 = f - 1).
  { rewrite Hi. rewrite N.add_comm, N.div_add by lia. rewrite N.div_small by lia. lia. }
  assert (Hr : m_postidx m mod 64 = 64 - m_post m).
  { rewrite Hi. rewrite N.add_comm, N.mod_add by lia. apply N.mod_small. lia. }
  rewrite Hq, Hr.
  assert (Hbq : bit / 64 = f - 1).
  { symmetry. apply (N.div_unique bit 64 (f - 1) (bit - (f - 1) * 64)); lia. }
  assert (Hbr : bit mod 64 = bit - (f - 1) * 64).
  { symmetry. apply (N.mod_unique bit 64 (f - 1) (bit - (f - 1) * 64)); lia. }
  rewrite Hbq, N.eqb_refl.
  rewrite bit_mask_testbit by lia. apply N.leb_le. lia.
Qed.

Lemma claimable_from_spec m n : forall bi, claimable_from m bi n = true ->
  forall i, bi <= i < bi + N.of_nat n -> i < m_fields m * MI_BITMAP_FIELD_BITS /\ inuse_init m i = false.
Proof.
  induction n as [|k IH]; intros bi H i Hi; [lia|].
  cbn [claimable_from] in H. apply andb_prop in H as [H H3]. apply andb_prop in H as [H1 H2].
  apply N.ltb_lt in H1. apply negb_true_iff in H2.
  destruct (N.eq_dec i bi) as [->|Hne]; [auto|].
  apply (IH (bi + 1) H3). lia.
Qed.

(* managed_region_bounds: for every start and size of a region that exists in the address space *)
Theorem managed_region_bounds_lemma : forall start size m,
  start + size <= W64 -> manage_os_memory start size = Some m ->
  (* aligned start is not below the given start, and aligned *)
  start <= m_start m /\ m_start m mod MI_SEGMENT_ALIGN = 0 /\
  (* at least one block; all blocks end inside the given region *)
  1 <= m_bcount m /\ m_start m + m_bcount m * MI_ARENA_BLOCK_SIZE <= start + size /\
  (* every block of the arena lies inside the given region *)
  (forall i, i < m_bcount m ->
     start <= m_start m + i * MI_ARENA_BLOCK_SIZE /\
     m_start m + (i + 1) * MI_ARENA_BLOCK_SIZE <= start + size) /\
  (* the left-over bits of the last field are pre-claimed in blocks_inuse ... *)
  (forall bit, m_bcount m <= bit < m_fields m * MI_BITMAP_FIELD_BITS -> inuse_init m bit = true) /\
  (* ... so a claim (zero bits inside the fields) never reaches a block outside the region *)
  (forall bi n, n <> O -> claimable_from m bi n = true ->
     bi + N.of_nat n <= m_bcount m /\
     start <= m_start m + bi * MI_ARENA_BLOCK_SIZE /\
     m_start m + (bi + N.of_nat n) * MI_ARENA_BLOCK_SIZE <= start + size).
Proof.
  intros start size m Hreg Hm.
  destruct (manage_adjust start size m Hreg Hm) as (size' & H1 & H2 & H3 & H4 & H5 & H6 & H7 & H8).
  destruct consts_align as (HA & HB & HF).
  assert (Hbc : m_bcount m * MI_ARENA_BLOCK_SIZE <= size').
  { rewrite H5. apply div_mul_le. rewrite HB; lia. }
  assert (Hb1 : 1 <= m_bcount m).
  { rewrite H5. rewrite HB in *. apply N.div_le_lower_bound; lia. }
  assert (Hw : m_bcount m + 64 < W64).
  { rewrite HB in *. rewrite W64_val in *. nia. }
  assert (Hblocks : forall i, i < m_bcount m ->
     start <= m_start m + i * MI_ARENA_BLOCK_SIZE /\ m_start m + (i + 1) * MI_ARENA_BLOCK_SIZE <= start + size).
  { intros i Hi. split; [lia|]. rewrite HB in *. nia. }
  assert (Hpost : forall bit, m_bcount m <= bit < m_fields m * MI_BITMAP_FIELD_BITS -> inuse_init m bit = true).
  { intros bit Hb. apply inuse_init_post; assumption. }
  split; [lia|]. split; [exact H4|]. split; [exact Hb1|]. split; [lia|]. split; [exact Hblocks|]. split; [exact Hpost|].
  intros bi n Hn Hc. pose proof (claimable_from_spec m n bi Hc) as Hs.
  assert (Hlast : bi + N.of_nat n <= m_bcount m).
  { destruct (N.le_gt_cases (bi + N.of_nat n) (m_bcount m)) as [Hle|Hgt]; [exact Hle|exfalso].
    set (i := N.max bi (m_bcount m)).
    assert (Hi : bi <= i < bi + N.of_nat n) by (unfold i; lia).
    destruct (Hs i Hi) as [Hf Hz]. rewrite Hpost in Hz; [discriminate|]. unfold i; lia. }
  split; [exact Hlast|]. split; [lia|]. rewrite HB in *. nia.
Qed.

(* ---------------------------------------------------------------------------------------------- *)
(* _mi_arena_alloc_aligned                                                                          *)
(* ---------------------------------------------------------------------------------------------- *)

(* arena i has id i+1 *)
Definition arenas_wf (arenas : list arena) : Prop :=
  forall i a, nthN arenas i = Some a -> a_id a = arena_id_create i.

Lemma index_create i : arena_id_index (arena_id_create i) = i.
Proof.
  unfold arena_id_index, arena_id_create. destruct (Z.of_N i + 1 <=? 0)%Z eqn:E; [apply Z.leb_le in E; lia|].
  lia.
Qed.

Lemma arenas_wf_nil : arenas_wf [].
Proof. intros i a H. discriminate. Qed.

Lemma arena_add_wf arenas m ex lg numa ars a :
  arenas_wf arenas -> arena_add arenas m ex lg numa = Some (ars, a) ->
  arenas_wf ars /\ ars = arenas ++ [a] /\ a_start a = m_start m /\ a_blocks a = m_bcount m /\ a_excl a = ex.
Proof.
  intros Hwf. unfold arena_add. destruct (MI_MAX_ARENAS <=? lengthN arenas); [discriminate|].
  intros H. inversion H; subst; clear H. split; [|repeat split].
  intros i b Hb. apply nthN_app_r in Hb as [Hb|[-> ->]]; [apply Hwf; exact Hb|reflexivity].
Qed.

Lemma manage_wf arenas start size ex lg numa ars a :
  arenas_wf arenas -> manage arenas start size ex lg numa = Some (ars, a) ->
  arenas_wf ars /\ ars = arenas ++ [a].
Proof.
  intros Hwf. unfold manage. destruct (manage_os_memory start size) as [m|]; [|discriminate].
  intros H. destruct (arena_add_wf _ _ _ _ _ _ _ Hwf H) as (H1 & H2 & _). auto.
Qed.

(* what a successful mi_arena_try_alloc_at_id guarantees *)
Lemma try_alloc_at_id_spec arenas aid mn numa size al req room a bi :
  try_alloc_at_id arenas aid mn numa size al req room = RArena a bi ->
  nthN arenas (arena_id_index aid) = Some a /\
  arena_id_is_suitable (a_id a) (a_excl a) req = true /\
  room (arena_id_index aid) = Some bi /\
  bi + block_count_of_size size <= a_blocks a.
Proof.
  unfold try_alloc_at_id. destruct (nthN arenas (arena_id_index aid)) as [b|]; [|discriminate].
  destruct (negb al && a_large b); [discriminate|].
  destruct (arena_id_is_suitable (a_id b) (a_excl b) req) eqn:Es; [|discriminate]. cbn [negb].
  destruct ((req =? arena_id_none)%Z && negb (eqb mn (numa_suitable numa (a_numa b)))); [discriminate|].
  destruct (room (arena_id_index aid)) as [x|]; [|discriminate].
  destruct (x + block_count_of_size size <=? a_blocks b) eqn:El; [|discriminate].
  intros H. inversion H; subst. apply N.leb_le in El. auto.
Qed.

Lemma try_alloc_at_id_never_os arenas aid mn numa size al req room p :
  try_alloc_at_id arenas aid mn numa size al req room <> ROs p.
Proof.
  unfold try_alloc_at_id. destruct (nthN arenas (arena_id_index aid)) as [b|]; [|discriminate].
  destruct (negb al && a_large b); [discriminate|].
  destruct (negb (arena_id_is_suitable (a_id b) (a_excl b) req)); [discriminate|].
  destruct ((req =? arena_id_none)%Z && negb (eqb mn (numa_suitable numa (a_numa b)))); [discriminate|].
  destruct (room (arena_id_index aid)) as [x|]; [|discriminate].
  destruct (x + block_count_of_size size <=? a_blocks b); discriminate.
Qed.

Lemma try_loop_spec {A} (rest : list A) f : forall i r, try_loop rest i f = r -> r <> RNull -> exists j, f j = r.
Proof.
  induction rest as [|x t IH]; cbn; intros i r H Hn; [congruence|].
  destruct (f i) eqn:E; [eauto|exists i; congruence|exists i; congruence].
Qed.

(* the result of mi_arena_try_alloc: NULL or an arena of the table that is suitable for the request *)
Lemma try_alloc_spec arenas numa size al req room r :
  try_alloc arenas numa size al req room = r -> r <> RNull ->
  exists a bi aid, r = RArena a bi /\ nthN arenas (arena_id_index aid) = Some a /\
    arena_id_is_suitable (a_id a) (a_excl a) req = true /\ bi + block_count_of_size size <= a_blocks a /\
    room (arena_id_index aid) = Some bi /\ (req <> 0%Z -> aid = req).
Proof.
  unfold try_alloc. intros H Hn.
  assert (Hat : forall aid mn, try_alloc_at_id arenas aid mn numa size al req room = r ->
            exists a bi aid', r = RArena a bi /\ nthN arenas (arena_id_index aid') = Some a /\
              arena_id_is_suitable (a_id a) (a_excl a) req = true /\ bi + block_count_of_size size <= a_blocks a /\
              room (arena_id_index aid') = Some bi /\ aid' = aid).
  { intros aid mn Hr. destruct r as [|p|a bi]; [congruence|exfalso; eapply try_alloc_at_id_never_os; eauto|].
    destruct (try_alloc_at_id_spec _ _ _ _ _ _ _ _ _ _ Hr) as (H1 & H2 & H3 & H4).
    exists a, bi, aid. auto 10. }
  destruct (lengthN arenas =? 0); [congruence|].
  destruct (req =? arena_id_none)%Z eqn:Er; cbn [negb] in H.
  - apply Z.eqb_eq in Er. unfold arena_id_none in Er.
    match type of H with (match ?L with _ => _ end) = _ => destruct L eqn:E1 end.
    + destruct (0 <=? numa)%Z; [|congruence].
      destruct (try_loop_spec _ _ _ _ H Hn) as (j & Hj).
      destruct (Hat _ _ Hj) as (a & bi & aid & Ha & Hb & Hc & Hd & He & _). exists a, bi, aid. repeat split; auto. congruence.
    + subst r. destruct (try_loop_spec _ _ _ _ E1 ltac:(discriminate)) as (j & Hj).
      exfalso. eapply try_alloc_at_id_never_os; eauto.
    + subst r. destruct (try_loop_spec _ _ _ _ E1 ltac:(discriminate)) as (j & Hj).
      destruct (Hat _ _ Hj) as (a' & bi' & aid & Ha & Hb & Hc & Hd & He & _). exists a', bi', aid. repeat split; auto. congruence.
  - destruct (arena_id_index req <? lengthN arenas); [|congruence].
    destruct (Hat _ _ H) as (a & bi & aid & Ha & Hb & Hc & Hd & He & Hf). exists a, bi, aid. repeat split; auto.
Qed.

(* arenas are only ever appended *)
Definition arenas_extend (old new : list arena) : Prop := exists l, new = old ++ l.

Lemma arenas_extend_refl l : arenas_extend l l.
Proof. exists []. symmetry; apply app_nil_r. Qed.

Lemma arenas_extend_nth old new i a : arenas_extend old new -> nthN old i = Some a -> nthN new i = Some a.
Proof. intros [l ->]. apply nthN_app_l. Qed.

(* the central fact about _mi_arena_alloc_aligned *)
Theorem arena_alloc_spec arenas opts size alignment offs al req o ars r :
  arenas_wf arenas ->
  arena_alloc arenas opts size alignment offs al req o = (ars, r) ->
  arenas_wf ars /\ arenas_extend arenas ars /\
  match r with
  | RNull => True
  | ROs p => req = 0%Z /\ opt_disallow_os_alloc opts = false /\ o_os o = Some p
  | RArena a bi =>
      nthN ars (arena_id_index (a_id a)) = Some a /\
      arena_id_is_suitable (a_id a) (a_excl a) req = true /\
      bi + block_count_of_size size <= a_blocks a /\
      opt_disallow_arena_alloc opts = false /\
      (req <> 0%Z -> ars = arenas /\ a_id a = req /\ o_room o (arena_id_index req) = Some bi)
  end.
Proof.
  intros Hwf. unfold arena_alloc.
  set (os_part := fun ars0 : list arena => if opt_disallow_os_alloc opts || negb (req =? arena_id_none)%Z then (ars0, RNull)
                  else match o_os o with Some p => (ars0, ROs p) | None => (ars0, RNull) end).
  assert (Hos : forall ars0, arenas_wf ars0 -> arenas_extend arenas ars0 -> os_part ars0 = (ars, r) ->
            arenas_wf ars /\ arenas_extend arenas ars /\
            match r with RNull => True | ROs p => req = 0%Z /\ opt_disallow_os_alloc opts = false /\ o_os o = Some p
                       | RArena _ _ => False end).
  { intros ars0 Hw0 He0. unfold os_part.
    destruct (opt_disallow_os_alloc opts) eqn:Ed; cbn [orb].
    - intros H; inversion H; subst; auto.
    - destruct (req =? arena_id_none)%Z eqn:Er; cbn [negb].
      + apply Z.eqb_eq in Er. destruct (o_os o) as [p|] eqn:Eo; intros H; inversion H; subst; auto.
      + intros H; inversion H; subst; auto. }
  assert (Hos' : forall ars0, arenas_wf ars0 -> arenas_extend arenas ars0 -> os_part ars0 = (ars, r) ->
            arenas_wf ars /\ arenas_extend arenas ars /\
            match r with RNull => True | ROs p => req = 0%Z /\ opt_disallow_os_alloc opts = false /\ o_os o = Some p
            | RArena a bi => nthN ars (arena_id_index (a_id a)) = Some a /\
                arena_id_is_suitable (a_id a) (a_excl a) req = true /\ bi + block_count_of_size size <= a_blocks a /\
                opt_disallow_arena_alloc opts = false /\
                (req <> 0%Z -> ars = arenas /\ a_id a = req /\ o_room o (arena_id_index req) = Some bi) end).
  { intros ars0 Hw0 He0 H. destruct (Hos ars0 Hw0 He0 H) as (H1 & H2 & H3). split; [exact H1|]. split; [exact H2|].
    destruct r; tauto. }
  destruct (opt_disallow_arena_alloc opts) eqn:Eda; cbn [negb andb].
  { apply Hos'; [assumption|apply arenas_extend_refl]. }
  destruct ((MI_ARENA_MIN_OBJ_SIZE <=? size) && (alignment <=? MI_SEGMENT_ALIGN) && (offs =? 0)); cbn [andb].
  2:{ apply Hos'; [assumption|apply arenas_extend_refl]. }
  destruct (try_alloc arenas (o_numa o) size al req (o_room o)) as [|p|a bi] eqn:Et.
  - destruct (req =? arena_id_none)%Z eqn:Er.
    2:{ apply Hos'; [assumption|apply arenas_extend_refl]. }
    apply Z.eqb_eq in Er. unfold arena_id_none in Er.
    destruct (o_reserve o) as [[[rs rz] rl]|].
    2:{ apply Hos'; [assumption|apply arenas_extend_refl]. }
    destruct (manage arenas rs rz false rl (-1)%Z) as [[ars1 a1]|] eqn:Em.
    2:{ apply Hos'; [assumption|apply arenas_extend_refl]. }
    destruct (manage_wf _ _ _ _ _ _ _ _ Hwf Em) as (Hw1 & He1).
    assert (Hx1 : arenas_extend arenas ars1) by (exists [a1]; exact He1).
    destruct (try_alloc_at_id ars1 (a_id a1) true (o_numa o) size al req (o_room o)) as [|p|a bi] eqn:Et1.
    + apply Hos'; assumption.
    + exfalso. eapply try_alloc_at_id_never_os; eauto.
    + intros H; inversion H; subst ars r; clear H.
      destruct (try_alloc_at_id_spec _ _ _ _ _ _ _ _ _ _ Et1) as (H1 & H2 & H3 & H4).
      split; [exact Hw1|]. split; [exact Hx1|].
      pose proof (Hw1 _ _ H1) as Hid.
      assert (Hix : arena_id_index (a_id a) = arena_id_index (a_id a1)) by (rewrite Hid; apply index_create).
      rewrite Hix. split; [exact H1|]. split; [exact H2|]. split; [exact H4|]. split; [reflexivity|].
      intros Hr; congruence.
  - exfalso. destruct (try_alloc_spec _ _ _ _ _ _ _ Et ltac:(discriminate)) as (a & bi & aid & Ha & _). discriminate.
  - intros H; inversion H; subst ars r; clear H.
    destruct (try_alloc_spec _ _ _ _ _ _ _ Et ltac:(discriminate)) as (a' & bi' & aid & Ha & Hb & Hc & Hd & He & Hf).
    inversion Ha; subst a' bi'; clear Ha.
    split; [exact Hwf|]. split; [apply arenas_extend_refl|].
    pose proof (Hwf _ _ Hb) as Hid.
    split; [rewrite Hid, index_create; exact Hb|]. repeat split; try assumption.
    + specialize (Hf H). subst aid. apply suitable_spec in Hc as [[_ Hc]|Hc]; [congruence|exact Hc].
    + specialize (Hf H). subst aid. exact He.
Qed.

(* no_os_fallback_for_bound_heap: a request for a specific arena is served by that arena or not at
   all; never by the OS, never by another arena, no arena is reserved for it; NULL when the arena
   has no room (or the request is too small / over-aligned for arena allocation). *)
Theorem no_os_fallback_lemma : forall arenas opts size alignment offs al req o,
  arenas_wf arenas -> req <> 0%Z ->
  let '(ars, r) := arena_alloc arenas opts size alignment offs al req o in
  ars = arenas /\
  (forall p, r <> ROs p) /\
  (forall a bi, r = RArena a bi ->
     a_id a = req /\ nthN arenas (arena_id_index req) = Some a /\
     result_memid r = MemArena req (a_excl a) /\
     inside_arena a (result_addr r) (result_addr r + block_count_of_size size * MI_ARENA_BLOCK_SIZE) = true) /\
  (o_room o (arena_id_index req) = None -> r = RNull).
Proof.
  intros arenas opts size alignment offs al req o Hwf Hr.
  destruct (arena_alloc arenas opts size alignment offs al req o) as [ars r] eqn:E.
  destruct (arena_alloc_spec _ _ _ _ _ _ _ _ _ _ Hwf E) as (Hw & Hx & Hres).
  assert (Hars : ars = arenas).
  { destruct r as [|p|a bi]; [| |destruct Hres as (_ & _ & _ & _ & H); apply H; exact Hr].
    - (* RNull: the table is unchanged because no reserve happens for a specific request *)
      revert E. unfold arena_alloc.
      assert (Hn : (req =? arena_id_none)%Z = false) by (apply Z.eqb_neq; exact Hr).
      rewrite Hn. cbn [negb]. rewrite orb_true_r.
      destruct (negb (opt_disallow_arena_alloc opts) && (MI_ARENA_MIN_OBJ_SIZE <=? size) && (alignment <=? MI_SEGMENT_ALIGN) && (offs =? 0)).
      + destruct (try_alloc arenas (o_numa o) size al req (o_room o)); intros H; inversion H; reflexivity.
      + intros H; inversion H; reflexivity.
    - destruct Hres as (H & _). contradiction. }
  subst ars. split; [reflexivity|]. split; [|split].
  - intros p ->. destruct Hres as (H & _). contradiction.
  - intros a bi ->. destruct Hres as (H1 & H2 & H3 & H4 & H5). destruct (H5 Hr) as (_ & H6 & H7).
    rewrite H6 in H1. repeat split; try assumption.
    + cbn. rewrite H6. reflexivity.
    + cbn [result_addr]. unfold inside_arena, arena_block_start, arena_size.
      apply andb_true_iff. split; apply N.leb_le; nia.
  - intros Hroom. destruct r as [|p|a bi]; [reflexivity|destruct Hres as (H & _); contradiction|].
    destruct Hres as (_ & _ & _ & _ & H5). destruct (H5 Hr) as (_ & _ & H7). congruence.
Qed.

(* ---------------------------------------------------------------------------------------------- *)
(* the invariants                                                                                   *)
(* ---------------------------------------------------------------------------------------------- *)

(* bound_Inv: every page that belongs to a heap h (the memory h hands out) lies in a segment whose
   memid is suitable for h.arena_id *)
Definition page_okP (m : memid) (p : page) : Prop :=
  forall h, p_heap p = Some h -> memid_is_suitable m (h_arena h) = true.
Definition seg_okP (s : segment) : Prop := Forall (page_okP (s_memid s)) (s_pages s).
Definition bound_Inv (st : state) : Prop := Forall seg_okP (st_segs st).

(* placed_Inv: a segment with an arena memid lies inside the area of that arena *)
Definition placed_Inv (st : state) : Prop := Forall (fun s => seg_placed (st_arenas st) s = true) (st_segs st).

Definition seg_good (ars : list arena) (s : segment) : Prop := seg_okP s /\ seg_placed ars s = true.
Definition Inv (st : state) : Prop :=
  arenas_wf (st_arenas st) /\ Forall (seg_good (st_arenas st)) (st_segs st).

Lemma Inv_split st : Inv st <-> arenas_wf (st_arenas st) /\ bound_Inv st /\ placed_Inv st.
Proof.
  unfold Inv, bound_Inv, placed_Inv, seg_good. rewrite !Forall_forall. split.
  - intros (H1 & H2). repeat split; auto; intros s Hs; apply (H2 s Hs).
  - intros (H1 & H2 & H3). split; auto.
Qed.

Lemma page_ok_spec s p : page_ok s p = true <-> page_okP (s_memid s) p.
Proof.
  unfold page_ok, page_okP. destruct (p_heap p) as [h|]; split; intros H.
  - intros h' E. inversion E; subst; exact H.
  - apply H; reflexivity.
  - intros h' E; discriminate.
  - reflexivity.
Qed.

Lemma bound_inv_b_spec st : bound_inv_b st = true <-> bound_Inv st.
Proof.
  unfold bound_inv_b, bound_Inv, seg_okP. rewrite forallb_forall, Forall_forall.
  split; intros H s Hs; specialize (H s Hs).
  - rewrite forallb_forall in H. apply Forall_forall. intros p Hp. apply page_ok_spec, H, Hp.
  - rewrite Forall_forall in H. apply forallb_forall. intros p Hp. apply page_ok_spec, H, Hp.
Qed.

Lemma placed_inv_b_spec st : placed_inv_b st = true <-> placed_Inv st.
Proof. unfold placed_inv_b, placed_Inv. rewrite forallb_forall, Forall_forall. tauto. Qed.

Lemma page_ok_none m tag u n : page_okP m (mkPage None tag u n).
Proof. intros h H; discriminate. Qed.

Lemma seg_placed_extend old new s : arenas_extend old new -> seg_placed old s = true -> seg_placed new s = true.
Proof.
  intros Hx. unfold seg_placed. destruct (s_memid s) as [|id ex]; [auto|].
  destruct (nthN old (arena_id_index id)) as [a|] eqn:E; [|discriminate].
  rewrite (arenas_extend_nth _ _ _ _ Hx E). auto.
Qed.

(* closure of seg_good under the setters *)
Lemma good_set_owner ars s o v : seg_good ars s -> seg_good ars (set_owner s o v).
Proof. intros H; exact H. Qed.

Lemma good_set_pages ars s pages free :
  seg_good ars s -> Forall (page_okP (s_memid s)) pages -> seg_good ars (set_pages s pages free).
Proof. intros [H1 H2] Hp. split; [exact Hp|exact H2]. Qed.

Lemma good_settle ars s s' : seg_good ars s -> settle s = Some s' -> seg_good ars s'.
Proof.
  unfold settle. intros Hg. destruct (s_pages s); [discriminate|].
  destruct (negb (s_owner s =? 0) && forallb page_abandoned (p :: l)); intros H; inversion H; subst; auto.
Qed.

Lemma good_pages ars s : seg_good ars s -> Forall (page_okP (s_memid s)) (s_pages s).
Proof. intros [H _]; exact H. Qed.

(* page-list transformers that never give a page to a heap *)
Lemma Forall_map_nth {A} (P : A -> Prop) (l : list A) k f :
  Forall P l -> (forall x, P x -> P (f x)) -> Forall P (map_nth l k f).
Proof.
  intros H Hf. revert k. induction H as [|x t Hx Ht IH]; intros k; cbn; [constructor|].
  destruct (k =? 0); constructor; auto.
Qed.

Lemma Forall_remove_nth {A} (P : A -> Prop) (l : list A) k : Forall P l -> Forall P (remove_nth l k).
Proof.
  intros H. revert k. induction H as [|x t Hx Ht IH]; intros k; cbn; [constructor|].
  destruct (k =? 0); [assumption|constructor; auto].
Qed.

Lemma Forall_filter_incl {A} (P : A -> Prop) (f : A -> bool) l : Forall P l -> Forall P (filter f l).
Proof. rewrite !Forall_forall. intros H x Hx. apply filter_In in Hx as [Hx _]. auto. Qed.

(* find / update *)
Lemma find_seg_id st sid s : find_seg st sid = Some s -> s_id s = sid.
Proof. unfold find_seg. intros H. apply find_some in H as [_ H]. apply N.eqb_eq; exact H. Qed.

Lemma find_seg_In st sid s : find_seg st sid = Some s -> In s (st_segs st).
Proof. unfold find_seg. intros H. apply find_some in H as [H _]. exact H. Qed.

Lemma update_segs_Forall (P : segment -> Prop) segs sid f :
  Forall P segs ->
  (forall s s', find (fun s => s_id s =? sid) segs = Some s -> P s -> f s = Some s' -> P s') ->
  Forall P (update_segs segs sid f).
Proof.
  induction segs as [|a t IH]; intros HF Hf; [constructor|].
  inversion HF as [|? ? Ha Ht]; subst. cbn [update_segs].
  destruct (s_id a =? sid) eqn:E.
  - destruct (f a) as [s'|] eqn:Ef; [|exact Ht].
    constructor; [|exact Ht]. apply (Hf a s'); auto. cbn [find]. rewrite E. reflexivity.
  - constructor; [exact Ha|]. apply IH; [exact Ht|].
    intros s s' Hs. apply Hf. cbn [find]. rewrite E. exact Hs.
Qed.

Lemma find_update_some segs sid s0 s :
  find (fun x => s_id x =? sid) segs = Some s0 -> s_id s = sid ->
  find (fun x => s_id x =? sid) (update_segs segs sid (fun _ => Some s)) = Some s.
Proof.
  induction segs as [|a t IH]; cbn [find update_segs]; intros H Hid; [discriminate|].
  destruct (s_id a =? sid) eqn:E.
  - cbn [find]. rewrite Hid, N.eqb_refl. reflexivity.
  - cbn [find]. rewrite E. apply IH; assumption.
Qed.

(* a step that only rewrites the segment list, the arena table being the same *)
Lemma Inv_update st sid f :
  Inv st ->
  (forall s s', find_seg st sid = Some s -> seg_good (st_arenas st) s -> f s = Some s' -> seg_good (st_arenas st) s') ->
  Inv (update_seg st sid f).
Proof.
  intros [Hw Hg] Hf. split; [exact Hw|]. cbn. apply update_segs_Forall; assumption.
Qed.

(* ---------------------------------------------------------------------------------------------- *)
(* span reuse                                                                                       *)
(* ---------------------------------------------------------------------------------------------- *)

Lemma span_test_spec st h need sid k s n :
  span_test st h need sid k = Some (s, n) ->
  find_seg st sid = Some s /\ s_owner s = h_thread h /\ s_huge s = false /\
  nthN (s_free s) k = Some n /\ need <= n /\ memid_is_suitable (s_memid s) (h_arena h) = true.
Proof.
  unfold span_test. destruct (find_seg st sid) as [s0|]; [|discriminate].
  destruct ((s_owner s0 =? h_thread h) && negb (s_huge s0)) eqn:E1; [|discriminate].
  destruct (nthN (s_free s0) k) as [n0|] eqn:E2; [|discriminate].
  destruct ((need <=? n0) && memid_is_suitable (s_memid s0) (h_arena h)) eqn:E3; [|discriminate].
  intros H; inversion H; subst. apply andb_prop in E1 as [Ea Eb]. apply andb_prop in E3 as [Ec Ed].
  apply N.eqb_eq in Ea. apply negb_true_iff in Eb. apply N.leb_le in Ec. auto 10.
Qed.

(* span_reuse_checks_suitable: a cached free span is handed to a heap only when its segment's memid
   is suitable for the heap's arena; otherwise nothing happens *)
Theorem span_reuse_checks_suitable_lemma : forall st h need sid k,
  (forall s, find_seg st sid = Some s -> memid_is_suitable (s_memid s) (h_arena h) = false ->
     span_reuse st h need sid k = st) /\
  (span_reuse st h need sid k <> st ->
     exists s, find_seg st sid = Some s /\ s_owner s = h_thread h /\
               memid_is_suitable (s_memid s) (h_arena h) = true).
Proof.
  intros st h need sid k. split.
  - intros s Hs Hn. unfold span_reuse. destruct (span_test st h need sid k) as [[s' n]|] eqn:E; [|reflexivity].
    apply span_test_spec in E as (E1 & _ & _ & _ & _ & E6). congruence.
  - unfold span_reuse. destruct (span_test st h need sid k) as [[s' n]|] eqn:E; [|congruence].
    intros _. apply span_test_spec in E as (E1 & E2 & _ & _ & _ & E6). eauto.
Qed.

Lemma span_reuse_Inv st h need sid k : Inv st -> Inv (span_reuse st h need sid k).
Proof.
  intros HI. unfold span_reuse. destruct (span_test st h need sid k) as [[s n]|] eqn:E; [|exact HI].
  apply span_test_spec in E as (E1 & _ & _ & _ & _ & E6).
  apply Inv_update; [exact HI|]. intros s0 s' Hs Hg Hf. inversion Hf; subst; clear Hf.
  rewrite E1 in Hs. inversion Hs; subst s0.
  apply good_set_pages; [exact Hg|]. apply Forall_app. split; [apply good_pages with (1 := Hg)|].
  constructor; [|constructor]. intros h' Hh. cbn in Hh. inversion Hh; subst. exact E6.
Qed.

(* ---------------------------------------------------------------------------------------------- *)
(* fresh segments                                                                                   *)
(* ---------------------------------------------------------------------------------------------- *)

Lemma Forall_good_extend old new segs :
  arenas_extend old new -> Forall (seg_good old) segs -> Forall (seg_good new) segs.
Proof.
  intros Hx. apply Forall_impl. intros s [H1 H2]. split; [exact H1|eapply seg_placed_extend; eauto].
Qed.

Lemma segment_alloc_Inv st opts h huge size alignment offs slices al o :
  Inv st -> Inv (fst (segment_alloc st opts h huge size alignment offs slices al o)).
Proof.
  intros [Hw Hg]. unfold segment_alloc.
  destruct (arena_alloc (st_arenas st) opts size alignment offs al (h_arena h) o) as [ars r] eqn:E.
  destruct (arena_alloc_spec _ _ _ _ _ _ _ _ _ _ Hw E) as (Hw' & Hx & Hr).
  pose proof (Forall_good_extend _ _ _ Hx Hg) as Hg'.
  destruct r as [|p|a bi]; cbn [fst]; (split; [exact Hw'|]); cbn [st_arenas st_segs]; [exact Hg'| |].
  - destruct Hr as (Hr & _). constructor; [|exact Hg']. split; [|reflexivity].
    unfold seg_okP. cbn [s_pages s_memid result_memid]. destruct huge; constructor; [|constructor].
    intros h' Hh; cbn in Hh; inversion Hh; subst. rewrite Hr. reflexivity.
  - destruct Hr as (H1 & H2 & H3 & _). constructor; [|exact Hg']. split.
    + unfold seg_okP. cbn [s_pages s_memid result_memid]. destruct huge; constructor; [|constructor].
      intros h' Hh; cbn in Hh; inversion Hh; subst. exact H2.
    + unfold seg_placed. cbn [s_memid result_memid s_addr s_size result_addr]. rewrite H1.
      rewrite Z.eqb_refl, eqb_reflx. cbn [andb]. unfold inside_arena, arena_block_start, arena_size.
      apply andb_true_iff. split; apply N.leb_le; [lia|].
      pose proof (Hw' _ _ H1). nia.
Qed.

(* ---------------------------------------------------------------------------------------------- *)
(* pages leaving heaps: free, abandon, thread exit, heap delete                                     *)
(* ---------------------------------------------------------------------------------------------- *)

Lemma heap_eqb_eq c h : heap_eqb c h = true -> c = h.
Proof.
  destruct c, h. unfold heap_eqb. cbn. rewrite !andb_true_iff.
  intros ((((H1 & H2) & H3) & H4) & H5).
  apply N.eqb_eq in H1, H2, H4. apply Z.eqb_eq in H3. apply eqb_prop in H5. congruence.
Qed.

Lemma page_free_Inv st sid k : Inv st -> Inv (page_free st sid k).
Proof.
  intros HI. apply Inv_update; [exact HI|]. intros s s' _ Hg.
  destruct (s_owner s =? 0); [intros H; inversion H; subst; exact Hg|].
  destruct (nthN (s_pages s) k); [|intros H; inversion H; subst; exact Hg].
  apply good_settle. apply good_set_pages; [exact Hg|]. apply Forall_remove_nth, good_pages with (1 := Hg).
Qed.

Lemma coalesce_Inv st sid i j : Inv st -> Inv (coalesce st sid i j).
Proof.
  intros HI. apply Inv_update; [exact HI|]. intros s s' _ Hg.
  destruct (nthN (s_free s) i); [|intros H; inversion H; subst; exact Hg].
  destruct (nthN (s_free s) j); [|intros H; inversion H; subst; exact Hg].
  destruct (i =? j); intros H; inversion H; subst; [exact Hg|].
  apply good_set_pages; [exact Hg|]. apply good_pages with (1 := Hg).
Qed.

Lemma page_abandon_Inv st sid k : Inv st -> Inv (page_abandon st sid k).
Proof.
  intros HI. apply Inv_update; [exact HI|]. intros s s' _ Hg.
  destruct (s_owner s =? 0); [intros H; inversion H; subst; exact Hg|].
  apply good_settle. apply good_set_pages; [exact Hg|].
  apply Forall_map_nth; [apply good_pages with (1 := Hg)|]. intros x _. apply page_ok_none.
Qed.

Lemma Forall_drop_or_abandon m (keep : page -> bool) pages :
  Forall (page_okP m) pages ->
  Forall (page_okP m) (flat_map (fun p => if keep p then [p] else (if p_used p then [mkPage None (p_tag p) true (p_slices p)] else [])) pages).
Proof.
  intros H. apply Forall_flat_map. revert H. apply Forall_impl. intros p Hp.
  destruct (keep p); [constructor; [exact Hp|constructor]|].
  destruct (p_used p); [constructor; [apply page_ok_none|constructor]|constructor].
Qed.

Lemma abandon_Inv st sid : Inv st -> Inv (abandon st sid).
Proof.
  intros HI. apply Inv_update; [exact HI|]. intros s s' _ Hg.
  destruct (s_owner s =? 0); [intros H; inversion H; subst; exact Hg|].
  apply good_settle. apply good_set_pages; [exact Hg|].
  apply (Forall_drop_or_abandon (s_memid s) (fun _ => false)), good_pages with (1 := Hg).
Qed.

Lemma block_free_Inv st sid k : Inv st -> Inv (block_free st sid k).
Proof.
  intros HI. apply Inv_update; [exact HI|]. intros s s' _ Hg H. inversion H; subst; clear H.
  apply good_set_pages; [exact Hg|]. apply Forall_map_nth; [apply good_pages with (1 := Hg)|].
  intros x Hx h Hh. apply Hx. exact Hh.
Qed.

Lemma block_alloc_Inv st h sid k : Inv st -> Inv (block_alloc st h sid k).
Proof.
  intros HI. apply Inv_update; [exact HI|]. intros s s' _ Hg H. inversion H; subst; clear H.
  apply good_set_pages; [exact Hg|]. apply Forall_map_nth; [apply good_pages with (1 := Hg)|].
  intros x Hx. destruct (page_of_heap h x); [|exact Hx]. intros h' Hh. apply Hx. exact Hh.
Qed.

Lemma thread_done_Inv st tid : Inv st -> Inv (thread_done st tid).
Proof.
  intros [Hw Hg]. split; [exact Hw|]. cbn [st_arenas st_segs thread_done].
  apply Forall_flat_map. revert Hg. apply Forall_impl. intros s Hs.
  destruct (s_owner s =? tid); [|constructor; [exact Hs|constructor]].
  match goal with |- Forall _ (match settle ?X with _ => _ end) => destruct (settle X) as [s'|] eqn:E end; [|constructor].
  constructor; [|constructor]. eapply good_settle; [|exact E].
  apply good_set_pages; [exact Hs|].
  pose proof (Forall_drop_or_abandon (s_memid s)
    (fun p => negb (match p_heap p with Some c => h_thread c =? tid | None => false end)) (s_pages s) (good_pages _ _ Hs)) as H.
  erewrite flat_map_ext; [exact H|]. intros p. cbn. destruct (match p_heap p with Some c => h_thread c =? tid | None => false end); reflexivity.
Qed.

Lemma heap_abandon_pages_Inv st h : Inv st -> Inv (heap_abandon_pages st h).
Proof.
  intros [Hw Hg]. split; [exact Hw|]. cbn [st_arenas st_segs heap_abandon_pages set_segs].
  apply Forall_flat_map. revert Hg. apply Forall_impl. intros s Hs.
  destruct (existsb (page_of_heap h) (s_pages s)); [|constructor; [exact Hs|constructor]].
  match goal with |- Forall _ (match settle ?X with _ => _ end) => destruct (settle X) as [s'|] eqn:E end; [|constructor].
  constructor; [|constructor]. eapply good_settle; [|exact E].
  apply good_set_pages; [exact Hs|].
  pose proof (Forall_drop_or_abandon (s_memid s) (fun p => negb (page_of_heap h p)) (s_pages s) (good_pages _ _ Hs)) as H.
  erewrite flat_map_ext; [exact H|]. intros p. cbn. destruct (page_of_heap h p); reflexivity.
Qed.

Lemma heap_delete_Inv st h : Inv st -> Inv (heap_delete st h).
Proof.
  intros HI. unfold heap_delete.
  set (st1 := match heap_backing st (h_thread h) with
              | Some b => if negb (heap_eqb b h) && heaps_are_compatible b h then _ else heap_abandon_pages st h
              | None => heap_abandon_pages st h end).
  assert (H1 : Inv st1).
  { unfold st1. destruct (heap_backing st (h_thread h)) as [b|]; [|apply heap_abandon_pages_Inv, HI].
    destruct (negb (heap_eqb b h) && heaps_are_compatible b h) eqn:E; [|apply heap_abandon_pages_Inv, HI].
    apply andb_prop in E as [_ E]. unfold heaps_are_compatible in E. apply andb_prop in E as [_ E]. apply Z.eqb_eq in E.
    destruct HI as [Hw Hg]. split; [exact Hw|]. cbn [st_arenas st_segs set_segs].
    apply Forall_map. revert Hg. apply Forall_impl. intros s Hs.
    apply good_set_pages; [exact Hs|]. apply Forall_map. pose proof (good_pages _ _ Hs) as Hp. revert Hp.
    apply Forall_impl. intros p Hp. destruct (page_of_heap h p) eqn:Eo; [|exact Hp].
    intros h' Hh. cbn in Hh. inversion Hh; subst h'. rewrite E. apply Hp.
    unfold page_of_heap in Eo. destruct (p_heap p) as [c|]; [|discriminate]. apply heap_eqb_eq in Eo. congruence. }
  destruct (h_backing h); [exact H1|]. destruct H1 as [Hw Hg]. split; assumption.
Qed.

(* ---------------------------------------------------------------------------------------------- *)
(* adoption                                                                                         *)
(* ---------------------------------------------------------------------------------------------- *)

(* the heaps _mi_heap_by_tag can return for `h` have h's arena: the complement of the known finding
   impl:reclaim-by-tag-exclusive (mi_segment_reclaim does not test the target heap) *)
Definition tag_safe (heaps : list heap) (h : heap) : Prop :=
  forall tag t, heap_by_tag heaps h tag = Some t -> h_arena t = h_arena h.

(* what thread init, mi_heap_new and mi_heap_new_in_arena produce: every heap has tag 0 *)
Definition tags_uniform (st : state) : Prop := Forall (fun c => h_tag c = 0) (st_heaps st).

Lemma tags_uniform_b_spec st : tags_uniform_b st = true -> tags_uniform st.
Proof.
  unfold tags_uniform_b, tags_uniform. intros H. apply andb_prop in H as [H _].
  rewrite forallb_forall in H. apply Forall_forall. intros c Hc. apply N.eqb_eq, H, Hc.
Qed.

Lemma tags_uniform_safe heaps h : Forall (fun c => h_tag c = 0) heaps -> h_tag h = 0 -> tag_safe heaps h.
Proof.
  intros Hall Hh tag t. unfold heap_by_tag. destruct (h_tag h =? tag) eqn:E; [intros H; inversion H; reflexivity|].
  intros H. apply find_some in H as [Hin Ht]. apply andb_prop in Ht as [_ Ht]. apply N.eqb_eq in Ht.
  rewrite Forall_forall in Hall. rewrite (Hall _ Hin) in Ht. apply N.eqb_neq in E. congruence.
Qed.

Lemma reclaim_seg_good ars heaps h s s' :
  seg_good ars s ->
  s_pages s = [] \/ (memid_is_suitable (s_memid s) (h_arena h) = true /\ tag_safe heaps h) ->
  reclaim_seg heaps h s = Some s' -> seg_good ars s'.
Proof.
  intros Hg Hc. unfold reclaim_seg.
  destruct (flat_map (reclaim_page heaps h) (s_pages s)) as [|p l] eqn:E; [discriminate|].
  intros H; inversion H; subst; clear H. apply good_set_owner. apply good_set_pages; [exact Hg|].
  rewrite <- E. destruct Hc as [Hc|[Hs Hsafe]]; [rewrite Hc in E; discriminate|].
  apply Forall_flat_map. apply Forall_forall. intros q _. unfold reclaim_page.
  destruct (p_used q); [|constructor]. constructor; [|constructor].
  intros h' Hh. cbn in Hh. inversion Hh; subst h'; clear Hh.
  destruct (heap_by_tag heaps h (p_tag q)) as [t|] eqn:Et; [|exact Hs].
  rewrite (Hsafe _ _ Et). exact Hs.
Qed.

Lemma reclaim_Inv st h sid :
  Inv st ->
  (forall s, find_seg st sid = Some s ->
     s_pages s = [] \/ (memid_is_suitable (s_memid s) (h_arena h) = true /\ tag_safe (st_heaps st) h)) ->
  Inv (reclaim st h sid).
Proof.
  intros HI Hc. apply Inv_update; [exact HI|]. intros s s' Hs Hg. apply reclaim_seg_good; auto.
Qed.

(* reclaim-on-free *)
Lemma attempt_reclaim_Inv st h sid heur won :
  tag_safe (st_heaps st) h -> Inv st -> Inv (attempt_reclaim st h sid heur won).
Proof.
  intros Hsafe HI. unfold attempt_reclaim. destruct (find_seg st sid) as [s|] eqn:E; [|exact HI].
  destruct (negb (s_owner s =? 0)); [exact HI|].
  destruct (heap_memid_is_suitable h (s_memid s)) eqn:Es; cbn [negb]; [|exact HI].
  destruct heur; cbn [negb]; [|exact HI]. destruct won; cbn [negb]; [|exact HI].
  apply reclaim_Inv; [exact HI|]. intros s0 Hs0. rewrite E in Hs0. inversion Hs0; subst s0. right. auto.
Qed.

Lemma find_seg_update_same st sid s0 s :
  find_seg st sid = Some s0 -> s_id s = sid -> find_seg (update_seg st sid (fun _ => Some s)) sid = Some s.
Proof. unfold find_seg, update_seg. cbn. apply find_update_some. Qed.

(* mi_segment_try_reclaim *)
Lemma try_reclaim_Inv h visits : forall st,
  tag_safe (st_heaps st) h -> Inv st -> Inv (try_reclaim st h visits).
Proof.
  induction visits as [|[sid has_page] rest IH]; intros st Hsafe HI; [exact HI|].
  cbn [try_reclaim]. destruct (find_seg st sid) as [s0|] eqn:E; [|apply IH; assumption].
  destruct (cursor_yields st h s0); cbn [negb]; [|apply IH; assumption].
  set (s := check_free_seg (set_owner s0 0 (s_visits s0 + 1))).
  set (st1 := update_seg st sid (fun _ => Some s)).
  assert (H1 : Inv st1).
  { apply Inv_update; [exact HI|]. intros x x' Hx Hg Hf. inversion Hf; subst x'; clear Hf.
    rewrite E in Hx. inversion Hx; subst x. unfold s, check_free_seg.
    apply good_set_pages; [apply good_set_owner, Hg|]. apply Forall_filter_incl. apply good_pages with (1 := Hg). }
  assert (Hf1 : find_seg st1 sid = Some s).
  { apply (find_seg_update_same st sid s0 s E). unfold s, check_free_seg. cbn. apply (find_seg_id _ _ _ E). }
  assert (Hr : s_pages s = [] \/ heap_memid_is_suitable h (s_memid s) = true -> Inv (reclaim st1 h sid)).
  { intros Hc. apply reclaim_Inv; [exact H1|]. intros x Hx. rewrite Hf1 in Hx. inversion Hx; subst x.
    destruct Hc as [Hc|Hc]; [left; exact Hc|right; split; [exact Hc|exact Hsafe]]. }
  destruct (s_pages s) as [|p l] eqn:Ep.
  - apply IH; [exact Hsafe|apply Hr; left; reflexivity].
  - destruct (has_page && heap_memid_is_suitable h (s_memid s)) eqn:E1.
    + apply andb_prop in E1 as [_ E1]. apply Hr; right; exact E1.
    + destruct ((3 <? s_visits s) && heap_memid_is_suitable h (s_memid s)) eqn:E2.
      * apply andb_prop in E2 as [_ E2]. apply IH; [exact Hsafe|apply Hr; right; exact E2].
      * apply IH; [exact Hsafe|exact H1].
Qed.

(* _mi_abandoned_reclaim_all (repaired) *)
Lemma reclaim_all_fold_Inv h ids : forall st,
  tag_safe (st_heaps st) h -> Inv st ->
  Inv (fold_left (fun acc sid =>
         match find_seg acc sid with
         | Some s => if cursor_yields acc h s && heap_memid_is_suitable h (s_memid s) then reclaim acc h sid else acc
         | None => acc
         end) ids st).
Proof.
  induction ids as [|sid t IH]; intros st Hsafe HI; [exact HI|]. cbn [fold_left].
  destruct (find_seg st sid) as [s|] eqn:E; [|apply IH; assumption].
  destruct (cursor_yields st h s && heap_memid_is_suitable h (s_memid s)) eqn:Ec; [|apply IH; assumption].
  apply andb_prop in Ec as [_ Ec]. apply IH; [exact Hsafe|].
  apply reclaim_Inv; [exact HI|]. intros s0 Hs0. rewrite E in Hs0. inversion Hs0; subst s0. right; auto.
Qed.

Lemma reclaim_all_Inv st h : tag_safe (st_heaps st) h -> Inv st -> Inv (reclaim_all st h).
Proof. intros. unfold reclaim_all. apply reclaim_all_fold_Inv; assumption. Qed.

(* _mi_abandoned_collect: only fully free segments are taken (and freed); no condition on tags *)
Lemma abandoned_collect_Inv h visits : forall st, Inv st -> Inv (abandoned_collect st h visits).
Proof.
  induction visits as [|sid rest IH]; intros st HI; [exact HI|].
  cbn [abandoned_collect]. destruct (find_seg st sid) as [s0|] eqn:E; [|apply IH; assumption].
  destruct (cursor_yields st h s0); cbn [negb]; [|apply IH; assumption].
  set (s := check_free_seg s0).
  set (st1 := update_seg st sid (fun _ => Some s)).
  assert (H1 : Inv st1).
  { apply Inv_update; [exact HI|]. intros x x' Hx Hg Hf. inversion Hf; subst x'; clear Hf.
    rewrite E in Hx. inversion Hx; subst x. unfold s, check_free_seg.
    apply good_set_pages; [exact Hg|]. apply Forall_filter_incl. apply good_pages with (1 := Hg). }
  assert (Hf1 : find_seg st1 sid = Some s).
  { apply (find_seg_update_same st sid s0 s E). unfold s, check_free_seg. cbn. apply (find_seg_id _ _ _ E). }
  destruct (s_pages s) as [|p l] eqn:Ep; [|apply IH; exact H1].
  apply IH. apply reclaim_Inv; [exact H1|]. intros x Hx. rewrite Hf1 in Hx. inversion Hx; subst x. left; exact Ep.
Qed.

(* ---------------------------------------------------------------------------------------------- *)
(* every operation; all histories                                                                   *)
(* ---------------------------------------------------------------------------------------------- *)

Lemma find_heap_In st hid h : find_heap st hid = Some h -> In h (st_heaps st).
Proof. unfold find_heap. intros H. apply find_some in H as [H _]. exact H. Qed.

Lemma manage_Inv st start size ex lg numa ars a :
  Inv st -> manage (st_arenas st) start size ex lg numa = Some (ars, a) ->
  Inv (mkState ars (st_heaps st) (st_segs st) (st_next st)).
Proof.
  intros [Hw Hg] Hm. destruct (manage_wf _ _ _ _ _ _ _ _ Hw Hm) as (Hw' & He).
  split; [exact Hw'|]. cbn. eapply Forall_good_extend; [|exact Hg]. exists [a]; exact He.
Qed.

Lemma heap_new_Inv st tid aid tag : Inv st -> Inv (fst (heap_new st tid aid tag)).
Proof. intros [Hw Hg]. unfold heap_new. cbn. split; assumption. Qed.

(* the heap on whose behalf an operation adopts abandoned segments (mi_segment_reclaim is reached only
   through these three operations) *)
Definition op_adopter (o : op) : option N :=
  match o with
  | OAttemptReclaim hid _ _ _ => Some hid
  | OTryReclaim hid _ => Some hid
  | OReclaimAll hid => Some hid
  | _ => None
  end.

(* bound_inv_preserved, every operation, every heap tag: the only hypothesis is tag_safe of the
   adopting heap of an adoption step (nothing for the other 13 operations) *)
Theorem step_Inv_adopter : forall st o,
  (forall hid h, op_adopter o = Some hid -> find_heap st hid = Some h -> tag_safe (st_heaps st) h) ->
  Inv st -> Inv (step st o).
Proof.
  intros st o Hsafe HI.
  destruct o; cbn [step]; unfold with_heap; cbn [op_adopter] in Hsafe.
  - destruct (manage (st_arenas st) start size excl large numa) as [[ars a]|] eqn:E; [|exact HI].
    eapply manage_Inv; eauto.
  - destruct (tid =? 0); [exact HI|apply heap_new_Inv, HI].
  - destruct (find_heap st hid); [|exact HI]. destruct (heap_absorbs st h); [apply heap_delete_Inv, HI|apply abandoned_collect_Inv, heap_delete_Inv, HI].
  - destruct (find_heap st hid); [apply span_reuse_Inv, HI|exact HI].
  - destruct (find_heap st hid); [apply segment_alloc_Inv, HI|exact HI].
  - apply page_free_Inv, HI.
  - apply page_abandon_Inv, HI.
  - apply abandon_Inv, HI.
  - apply block_free_Inv, HI.
  - destruct (heap_backing st tid); [apply abandoned_collect_Inv|]; apply thread_done_Inv, HI.
  - destruct (find_heap st hid) eqn:E; [apply attempt_reclaim_Inv; eauto|exact HI].
  - destruct (find_heap st hid) eqn:E; [apply try_reclaim_Inv; eauto|exact HI].
  - destruct (find_heap st hid) eqn:E; [apply reclaim_all_Inv; eauto|exact HI].
  - destruct (find_heap st hid) eqn:E; [apply abandoned_collect_Inv; eauto|exact HI].
  - apply coalesce_Inv, HI.
  - destruct (find_heap st hid); [apply block_alloc_Inv, HI|exact HI].
Qed.

(* ... in particular every operation that is not an adoption preserves Inv unconditionally *)
Theorem step_Inv_non_adopting : forall st o, op_adopter o = None -> Inv st -> Inv (step st o).
Proof. intros st o Ho. apply step_Inv_adopter. intros hid h E. rewrite Ho in E. discriminate. Qed.

(* every live heap is tag_safe: a state in which the known finding cannot strike *)
Definition heaps_tag_safe (st : state) : Prop := forall h, In h (st_heaps st) -> tag_safe (st_heaps st) h.

Theorem step_Inv_tag_safe : forall st o, heaps_tag_safe st -> Inv st -> Inv (step st o).
Proof.
  intros st o Hs. apply step_Inv_adopter. intros hid h _ Hh. apply Hs. eapply find_heap_In; eauto.
Qed.

Lemma tags_uniform_heaps_tag_safe st : tags_uniform st -> heaps_tag_safe st.
Proof.
  intros Ht h Hh. apply tags_uniform_safe; [exact Ht|].
  unfold tags_uniform in Ht. rewrite Forall_forall in Ht. apply Ht, Hh.
Qed.

Theorem step_Inv_partial : forall st o,
  tags_uniform st -> Inv st -> Inv (step st o).
Proof. intros st o Ht. apply step_Inv_tag_safe, tags_uniform_heaps_tag_safe, Ht. Qed.

(* tag_safe is not only sufficient but necessary: whenever _mi_heap_by_tag can hand a page of the
   adopted segment to a heap t of another arena, there is a state (one abandoned segment suitable
   for h, one live page with that tag) in which reclaim-on-free by h breaks bound_Inv.  So the gap
   between the `_partial` theorems and the full statement is exactly the known finding
   impl:reclaim-by-tag-exclusive. *)
Definition unsafe_memid (h : heap) : memid :=
  if (h_arena h =? 0)%Z then MemOther else MemArena (h_arena h) true.
Definition unsafe_state (heaps : list heap) (h : heap) (tag : N) : state :=
  mkState [] heaps [mkSeg 1 (unsafe_memid h) 0 0 0 1 false [mkPage None tag true 1] []] 2.

Theorem tag_unsafe_breaks : forall heaps h tag t,
  heap_by_tag heaps h tag = Some t -> h_arena t <> h_arena h ->
  heap_memid_is_suitable h (unsafe_memid h) = true /\ bound_Inv (unsafe_state heaps h tag) /\
  ~ bound_Inv (attempt_reclaim (unsafe_state heaps h tag) h 1 true true).
Proof.
  intros heaps h tag t Ht Hne.
  assert (Hs : heap_memid_is_suitable h (unsafe_memid h) = true).
  { unfold heap_memid_is_suitable, unsafe_memid. destruct (h_arena h =? 0)%Z eqn:E.
    - apply Z.eqb_eq in E. rewrite E. reflexivity.
    - cbn. unfold arena_id_is_suitable. rewrite Z.eqb_refl. try rewrite orb_true_r. reflexivity. }
  split; [exact Hs|]. split.
  - constructor; [|constructor]. constructor; [|constructor]. intros h' H; discriminate.
  - unfold attempt_reclaim, unsafe_state, find_seg. cbn [st_segs find s_id N.eqb Pos.eqb s_owner negb s_memid].
    rewrite Hs. cbn [negb]. unfold reclaim, update_seg, set_segs. cbn [st_segs st_heaps update_segs s_id N.eqb Pos.eqb].
    unfold reclaim_seg. cbn [s_pages flat_map reclaim_page p_used p_tag app]. rewrite Ht.
    intros HB. inversion HB as [|? ? Hseg _]; subst. unfold seg_okP in Hseg.
    cbn [s_pages s_memid set_owner set_pages] in Hseg. inversion Hseg as [|? ? Hp _]; subst.
    specialize (Hp t eq_refl). unfold unsafe_memid in Hp. destruct (h_arena h =? 0)%Z eqn:E.
    + apply Z.eqb_eq in E. cbn in Hp. unfold arena_id_is_suitable, arena_id_none in Hp. cbn in Hp.
      rewrite E in Hne. destruct (h_arena t) eqn:Et; [congruence|cbn in Hp; discriminate|cbn in Hp; discriminate].
    + cbn in Hp. unfold arena_id_is_suitable in Hp. cbn in Hp. apply Z.eqb_eq in Hp. congruence.
Qed.

Lemma tag_safe_b_sound heaps h : tag_safe_b heaps h = true -> tag_safe heaps h.
Proof.
  unfold tag_safe_b, tag_safe. rewrite forallb_forall. intros H tag t Ht.
  pose proof Ht as Ht0. unfold heap_by_tag in Ht. destruct (h_tag h =? tag) eqn:E; [inversion Ht; reflexivity|].
  apply find_some in Ht as [Hin Hc]. apply andb_prop in Hc as [Hc1 Hc2]. apply N.eqb_eq in Hc2.
  specialize (H t Hin). rewrite Hc1 in H. cbn [negb orb] in H.
  destruct (h_arena t =? h_arena h)%Z eqn:Ea; [apply Z.eqb_eq in Ea; exact Ea|]. cbn [orb] in H.
  rewrite Hc2, Ht0 in H. rewrite Ea in H. discriminate.
Qed.

(* the heap table: only heap_new / heap_delete / thread_done change it *)
Lemma try_reclaim_heaps h visits : forall st, st_heaps (try_reclaim st h visits) = st_heaps st.
Proof.
  induction visits as [|[sid hp] rest IH]; intros st; [reflexivity|]. cbn [try_reclaim].
  destruct (find_seg st sid) as [s0|]; [|apply IH]. destruct (negb (cursor_yields st h s0)); [apply IH|].
  match goal with |- context [match s_pages ?S with _ => _ end] => destruct (s_pages S) end; [rewrite IH; reflexivity|].
  match goal with |- context [if ?C then _ else _] => destruct C end; [reflexivity|].
  match goal with |- context [if ?C then _ else _] => destruct C end; rewrite IH; reflexivity.
Qed.

Lemma abandoned_collect_heaps h visits : forall st, st_heaps (abandoned_collect st h visits) = st_heaps st.
Proof.
  induction visits as [|sid rest IH]; intros st; [reflexivity|]. cbn [abandoned_collect].
  destruct (find_seg st sid) as [s0|]; [|apply IH]. destruct (negb (cursor_yields st h s0)); [apply IH|].
  match goal with |- context [match s_pages ?S with _ => _ end] => destruct (s_pages S) end; rewrite IH; reflexivity.
Qed.

Lemma reclaim_all_heaps st h : st_heaps (reclaim_all st h) = st_heaps st.
Proof.
  unfold reclaim_all. generalize (map s_id (st_segs st)). intros ids. revert st.
  induction ids as [|sid t IH]; intros st; [reflexivity|]. cbn [fold_left]. rewrite IH.
  destruct (find_seg st sid) as [s|]; [|reflexivity].
  destruct (cursor_yields st h s && heap_memid_is_suitable h (s_memid s)); reflexivity.
Qed.

Lemma Forall_filter_tags (f : heap -> bool) l : Forall (fun c => h_tag c = 0) l -> Forall (fun c => h_tag c = 0) (filter f l).
Proof. apply Forall_filter_incl. Qed.

Lemma step_tags st o : op_untagged o = true -> tags_uniform st -> tags_uniform (step st o).
Proof.
  unfold tags_uniform. intros Ho Ht. destruct o; cbn [step]; unfold with_heap.
  - destruct (manage (st_arenas st) start size excl large numa) as [[ars a]|]; exact Ht.
  - destruct (tid =? 0); [exact Ht|]. unfold heap_new. cbn [fst st_heaps]. constructor; [|exact Ht].
    cbn in Ho. apply N.eqb_eq in Ho. destruct (thread_heaps st tid); cbn; [reflexivity|exact Ho].
  - destruct (find_heap st hid) as [h|]; [|exact Ht].
    assert (H0 : Forall (fun c => h_tag c = 0) (st_heaps (heap_delete st h)));
      [|destruct (heap_absorbs st h); [exact H0|rewrite abandoned_collect_heaps; exact H0]].
    unfold heap_delete.
    assert (H1 : forall X, st_heaps X = st_heaps st -> Forall (fun c => h_tag c = 0) (st_heaps (if h_backing h then X else
               mkState (st_arenas X) (filter (fun c => negb (heap_eqb c h)) (st_heaps X)) (st_segs X) (st_next X)))).
    { intros X HX. destruct (h_backing h); [rewrite HX; exact Ht|]. cbn. rewrite HX. apply Forall_filter_tags, Ht. }
    apply H1. destruct (heap_backing st (h_thread h)) as [b|]; [|reflexivity].
    destruct (negb (heap_eqb b h) && heaps_are_compatible b h); reflexivity.
  - destruct (find_heap st hid) as [h|]; [|exact Ht]. unfold span_reuse.
    destruct (span_test st h need sid k) as [[s n]|]; exact Ht.
  - destruct (find_heap st hid) as [h|]; [|exact Ht]. unfold segment_alloc.
    destruct (arena_alloc (st_arenas st) opts size alignment align_offset allow_large (h_arena h) o) as [ars r].
    destruct r; exact Ht.
  - exact Ht.
  - exact Ht.
  - exact Ht.
  - exact Ht.
  - destruct (heap_backing st tid); [rewrite abandoned_collect_heaps|]; cbn; apply Forall_filter_tags, Ht.
  - destruct (find_heap st hid) as [h|]; [|exact Ht]. unfold attempt_reclaim.
    destruct (find_seg st sid) as [s|]; [|exact Ht]. destruct (negb (s_owner s =? 0)); [exact Ht|].
    destruct (negb (heap_memid_is_suitable h (s_memid s))); [exact Ht|]. destruct (negb heur); [exact Ht|].
    destruct (negb won); exact Ht.
  - destruct (find_heap st hid) as [h|]; [|exact Ht]. rewrite try_reclaim_heaps. exact Ht.
  - destruct (find_heap st hid) as [h|]; [|exact Ht]. rewrite reclaim_all_heaps. exact Ht.
  - destruct (find_heap st hid) as [h|]; [|exact Ht]. rewrite abandoned_collect_heaps. exact Ht.
  - exact Ht.
  - destruct (find_heap st hid) as [h|]; exact Ht.
Qed.

Lemma Inv_init : Inv init_state.
Proof. split; [apply arenas_wf_nil|constructor]. Qed.

Lemma tags_init : tags_uniform init_state.
Proof. constructor. Qed.

Lemma run_Inv_partial : forall ops st,
  forallb op_untagged ops = true -> tags_uniform st -> Inv st ->
  Inv (run st ops) /\ tags_uniform (run st ops).
Proof.
  induction ops as [|o t IH]; intros st Ho Ht HI; [split; assumption|].
  cbn in Ho. apply andb_prop in Ho as [Ho1 Ho2]. unfold run. cbn [fold_left].
  apply IH; [exact Ho2|apply step_tags; assumption|apply step_Inv_partial; assumption].
Qed.

(* histories with arbitrary heap tags: every adoption step is made by a heap that is tag_safe at that moment *)
Fixpoint adopters_safe (st : state) (ops : list op) : Prop :=
  match ops with
  | [] => True
  | o :: t =>
    (forall hid h, op_adopter o = Some hid -> find_heap st hid = Some h -> tag_safe (st_heaps st) h) /\
    adopters_safe (step st o) t
  end.

Theorem run_Inv_adopter : forall ops st, adopters_safe st ops -> Inv st -> Inv (run st ops).
Proof.
  induction ops as [|o t IH]; intros st Hs HI; [exact HI|].
  destruct Hs as [H1 H2]. unfold run. cbn [fold_left]. apply IH; [exact H2|apply step_Inv_adopter; assumption].
Qed.

Theorem reachable_Inv_adopter : forall ops, adopters_safe init_state ops ->
  arenas_wf (st_arenas (run init_state ops)) /\ bound_Inv (run init_state ops) /\ placed_Inv (run init_state ops).
Proof. intros ops Hs. apply Inv_split. apply run_Inv_adopter; [exact Hs|apply Inv_init]. Qed.

Lemma untagged_adopters_safe : forall ops st, forallb op_untagged ops = true -> tags_uniform st -> adopters_safe st ops.
Proof.
  induction ops as [|o t IH]; intros st Ho Ht; [exact I|].
  cbn in Ho. apply andb_prop in Ho as [Ho1 Ho2]. split.
  - intros hid h _ Hh. apply (tags_uniform_heaps_tag_safe st Ht). eapply find_heap_In; eauto.
  - apply IH; [exact Ho2|apply step_tags; assumption].
Qed.

(* for all histories of operations from the empty state (heaps created with tag 0) *)
Theorem reachable_Inv_partial : forall ops,
  forallb op_untagged ops = true ->
  arenas_wf (st_arenas (run init_state ops)) /\ bound_Inv (run init_state ops) /\ placed_Inv (run init_state ops).
Proof.
  intros ops Ho. apply Inv_split. apply (run_Inv_partial ops init_state Ho tags_init Inv_init).
Qed.

(* ---------------------------------------------------------------------------------------------- *)
(* corollaries                                                                                      *)
(* ---------------------------------------------------------------------------------------------- *)

(* bound_heap_inside_arena: every page of a heap bound to arena A lies in a segment taken from A,
   and the blocks of that segment lie inside A's area (= mi_arena_area(A)) *)
Theorem bound_heap_inside_arena_lemma : forall st s p h,
  Inv st -> In s (st_segs st) -> In p (s_pages s) -> p_heap p = Some h -> h_arena h <> 0%Z ->
  exists a ex,
    s_memid s = MemArena (h_arena h) ex /\
    nthN (st_arenas st) (arena_id_index (h_arena h)) = Some a /\ a_id a = h_arena h /\ a_excl a = ex /\
    a_start a <= s_addr s /\
    s_addr s + block_count_of_size (s_size s) * MI_ARENA_BLOCK_SIZE <= a_start a + a_blocks a * MI_ARENA_BLOCK_SIZE /\
    (arena_id_index (h_arena h) < MI_MAX_ARENAS ->
       arena_area (st_arenas st) (h_arena h) = (a_start a, a_blocks a * MI_ARENA_BLOCK_SIZE)).
Proof.
  intros st s p h [Hw Hg] Hs Hp Hh Hb. rewrite Forall_forall in Hg. destruct (Hg s Hs) as [Hok Hpl].
  unfold seg_okP in Hok. rewrite Forall_forall in Hok. pose proof (Hok p Hp h Hh) as Hsu.
  destruct (suitable_bound _ _ Hb Hsu) as [ex Hm]. unfold seg_placed in Hpl. rewrite Hm in Hpl.
  destruct (nthN (st_arenas st) (arena_id_index (h_arena h))) as [a|] eqn:Ea; [|discriminate].
  apply andb_prop in Hpl as [Hpl H3]. apply andb_prop in Hpl as [H1 H2].
  apply Z.eqb_eq in H1. apply eqb_prop in H2. unfold inside_arena, arena_size in H3.
  apply andb_prop in H3 as [H3 H4]. apply N.leb_le in H3, H4.
  exists a, ex. repeat split; auto.
  intros Hlt. unfold arena_area. apply N.leb_gt in Hlt. rewrite Hlt, Ea. reflexivity.
Qed.

(* the area of an arena created by mi_manage_os_memory_ex lies inside the region given *)
Theorem manage_inside_region : forall arenas start size ex lg numa ars a,
  start + size <= W64 -> manage arenas start size ex lg numa = Some (ars, a) ->
  start <= a_start a /\ a_start a + a_blocks a * MI_ARENA_BLOCK_SIZE <= start + size /\
  a_excl a = ex /\ a_id a = arena_id_create (lengthN arenas) /\ ars = arenas ++ [a].
Proof.
  intros arenas start size ex lg numa ars a Hreg. unfold manage.
  destruct (manage_os_memory start size) as [m|] eqn:Em; [|discriminate].
  destruct (managed_region_bounds_lemma _ _ _ Hreg Em) as (H1 & _ & _ & H4 & _).
  unfold arena_add. destruct (MI_MAX_ARENAS <=? lengthN arenas); [discriminate|].
  intros H; inversion H; subst; clear H. cbn. auto.
Qed.

(* exclusive_stays_private: memory of an exclusive arena is only in the hands of heaps bound to it *)
Theorem exclusive_stays_private_lemma : forall st s p h A,
  bound_Inv st -> In s (st_segs st) -> s_memid s = MemArena A true -> In p (s_pages s) ->
  p_heap p = Some h -> h_arena h = A.
Proof.
  intros st s p h A Hb Hs Hm Hp Hh. unfold bound_Inv in Hb. rewrite Forall_forall in Hb.
  pose proof (Hb s Hs) as Hok. unfold seg_okP in Hok. rewrite Forall_forall in Hok.
  pose proof (Hok p Hp h Hh) as Hsu. rewrite Hm in Hsu. apply suitable_exclusive in Hsu. exact Hsu.
Qed.

Lemma exclusive_no_leak st A : bound_Inv st -> exclusive_leak_b st A = false.
Proof.
  intros Hb. unfold exclusive_leak_b. apply not_true_is_false. intros H.
  apply existsb_exists in H as (s & Hs & H). destruct (s_memid s) as [|id ex] eqn:Em; [discriminate|].
  destruct ex; [|discriminate]. apply andb_prop in H as [H1 H2]. apply Z.eqb_eq in H1. subst id.
  apply existsb_exists in H2 as (p & Hp & H2). destruct (p_heap p) as [h|] eqn:Eh; [|discriminate].
  apply negb_true_iff, Z.eqb_neq in H2. apply H2.
  eapply exclusive_stays_private_lemma; eauto.
Qed.

(* ... in every history (through span reuse, reclaim-on-free, try_reclaim, reclaim_all, collect,
   thread exit, heap delete), heaps created with tag 0 *)
Theorem exclusive_stays_private_history_adopter : forall ops A,
  adopters_safe init_state ops -> exclusive_leak_b (run init_state ops) A = false.
Proof. intros ops A Hs. apply exclusive_no_leak. apply (reachable_Inv_adopter ops Hs). Qed.

Theorem exclusive_stays_private_history : forall ops A,
  forallb op_untagged ops = true -> exclusive_leak_b (run init_state ops) A = false.
Proof. intros ops A Ho. apply exclusive_no_leak. apply (reachable_Inv_partial ops Ho). Qed.

(* reclaim_checks_suitable, reclaim-on-free: an unsuitable segment is left alone *)
Theorem attempt_reclaim_checks_suitable : forall st h sid s heur won,
  find_seg st sid = Some s -> heap_memid_is_suitable h (s_memid s) = false ->
  attempt_reclaim st h sid heur won = st.
Proof.
  intros st h sid s heur won Hs Hn. unfold attempt_reclaim. rewrite Hs.
  destruct (negb (s_owner s =? 0)); [reflexivity|]. rewrite Hn. reflexivity.
Qed.

(* reclaim_checks_suitable, cursor paths: after try_reclaim / reclaim_all / collect by heap h every
   segment owned by h's thread was either there before, unchanged, or its memid is suitable for h *)
Section Frame.
  Variable h : heap.
  Variable orig : list segment.
  Hypothesis Hthread : h_thread h <> 0.

  Definition framed (s' : segment) : Prop :=
    s_owner s' = h_thread h -> In s' orig \/ heap_memid_is_suitable h (s_memid s') = true.

  Lemma framed_abandoned s : s_owner s = 0 -> framed s.
  Proof. intros H Ho. rewrite H in Ho. congruence. Qed.

  Lemma framed_reclaim st sid :
    Forall framed (st_segs st) ->
    (forall s, find_seg st sid = Some s -> s_pages s = [] \/ heap_memid_is_suitable h (s_memid s) = true) ->
    Forall framed (st_segs (reclaim st h sid)).
  Proof.
    intros HF Hc. cbn. apply update_segs_Forall; [exact HF|]. intros s s' Hs _. unfold reclaim_seg.
    destruct (flat_map (reclaim_page (st_heaps st) h) (s_pages s)) as [|p l] eqn:E; [discriminate|].
    intros H; inversion H; subst; clear H. intros _. right. cbn.
    destruct (Hc s Hs) as [Hc'|Hc']; [rewrite Hc' in E; discriminate|exact Hc'].
  Qed.

  Lemma framed_mark st sid s :
    Forall framed (st_segs st) -> s_owner s = 0 ->
    Forall framed (st_segs (update_seg st sid (fun _ => Some s))).
  Proof.
    intros HF Ho. cbn. apply update_segs_Forall; [exact HF|]. intros x x' _ _ H. inversion H; subst.
    apply framed_abandoned, Ho.
  Qed.

  Lemma try_reclaim_framed visits : forall st,
    Forall framed (st_segs st) -> Forall framed (st_segs (try_reclaim st h visits)).
  Proof.
    induction visits as [|[sid has_page] rest IH]; intros st HF; [exact HF|].
    cbn [try_reclaim]. destruct (find_seg st sid) as [s0|] eqn:E; [|apply IH; assumption].
    destruct (cursor_yields st h s0); cbn [negb]; [|apply IH; assumption].
    set (s := check_free_seg (set_owner s0 0 (s_visits s0 + 1))).
    set (st1 := update_seg st sid (fun _ => Some s)).
    assert (H1 : Forall framed (st_segs st1)) by (apply framed_mark; [exact HF|reflexivity]).
    assert (Hf1 : find_seg st1 sid = Some s).
    { apply (find_seg_update_same st sid s0 s E). unfold s, check_free_seg. cbn. apply (find_seg_id _ _ _ E). }
    assert (Hr : s_pages s = [] \/ heap_memid_is_suitable h (s_memid s) = true -> Forall framed (st_segs (reclaim st1 h sid))).
    { intros Hc. apply framed_reclaim; [exact H1|]. intros x Hx. rewrite Hf1 in Hx. inversion Hx; subst x. exact Hc. }
    destruct (s_pages s) as [|p l] eqn:Ep.
    - apply IH. apply Hr. left; reflexivity.
    - destruct (has_page && heap_memid_is_suitable h (s_memid s)) eqn:E1.
      + apply andb_prop in E1 as [_ E1]. apply Hr; right; exact E1.
      + destruct ((3 <? s_visits s) && heap_memid_is_suitable h (s_memid s)) eqn:E2.
        * apply andb_prop in E2 as [_ E2]. apply IH. apply Hr; right; exact E2.
        * apply IH. exact H1.
  Qed.

  Lemma reclaim_all_framed ids : forall st,
    Forall framed (st_segs st) ->
    Forall framed (st_segs (fold_left (fun acc sid =>
         match find_seg acc sid with
         | Some s => if cursor_yields acc h s && heap_memid_is_suitable h (s_memid s) then reclaim acc h sid else acc
         | None => acc
         end) ids st)).
  Proof.
    induction ids as [|sid t IH]; intros st HF; [exact HF|]. cbn [fold_left].
    destruct (find_seg st sid) as [s|] eqn:E; [|apply IH; assumption].
    destruct (cursor_yields st h s && heap_memid_is_suitable h (s_memid s)) eqn:Ec; [|apply IH; assumption].
    apply andb_prop in Ec as [_ Ec]. apply IH. apply framed_reclaim; [exact HF|].
    intros s0 Hs0. rewrite E in Hs0. inversion Hs0; subst s0. right; exact Ec.
  Qed.

  Lemma abandoned_collect_framed visits : forall st,
    Forall framed (st_segs st) -> Forall framed (st_segs (abandoned_collect st h visits)).
  Proof.
    induction visits as [|sid rest IH]; intros st HF; [exact HF|].
    cbn [abandoned_collect]. destruct (find_seg st sid) as [s0|] eqn:E; [|apply IH; assumption].
    destruct (cursor_yields st h s0) eqn:Ecy; cbn [negb]; [|apply IH; assumption].
    set (s := check_free_seg s0).
    set (st1 := update_seg st sid (fun _ => Some s)).
    assert (Ho : s_owner s = 0).
    { unfold cursor_yields in Ecy. apply andb_prop in Ecy as [Ecy _]. apply N.eqb_eq in Ecy. exact Ecy. }
    assert (H1 : Forall framed (st_segs st1)) by (apply framed_mark; [exact HF|exact Ho]).
    assert (Hf1 : find_seg st1 sid = Some s).
    { apply (find_seg_update_same st sid s0 s E). unfold s, check_free_seg. cbn. apply (find_seg_id _ _ _ E). }
    destruct (s_pages s) as [|p l] eqn:Ep; [|apply IH; exact H1].
    apply IH. apply framed_reclaim; [exact H1|]. intros x Hx. rewrite Hf1 in Hx. inversion Hx; subst x. left; exact Ep.
  Qed.
End Frame.

Lemma framed_orig h st : Forall (framed h (st_segs st)) (st_segs st).
Proof. apply Forall_forall. intros s Hs _. left; exact Hs. Qed.

Theorem reclaim_checks_suitable_lemma : forall st h, h_thread h <> 0 ->
  (forall visits, Forall (framed h (st_segs st)) (st_segs (try_reclaim st h visits))) /\
  Forall (framed h (st_segs st)) (st_segs (reclaim_all st h)) /\
  (forall visits, Forall (framed h (st_segs st)) (st_segs (abandoned_collect st h visits))) /\
  (forall sid s heur won, find_seg st sid = Some s -> heap_memid_is_suitable h (s_memid s) = false ->
     attempt_reclaim st h sid heur won = st).
Proof.
  intros st h Hh. refine (conj _ (conj _ (conj _ _))).
  - intros visits. apply try_reclaim_framed; [exact Hh|apply framed_orig].
  - unfold reclaim_all. apply reclaim_all_framed, framed_orig.
  - intros visits. apply abandoned_collect_framed; [exact Hh|apply framed_orig].
  - intros. eapply attempt_reclaim_checks_suitable; eauto.
Qed.

(* ---------------------------------------------------------------------------------------------- *)
(* examples, and the two defects                                                                    *)
(* ---------------------------------------------------------------------------------------------- *)

Definition MiB32 : N := 33554432.
Definition no_oracle (room : N -> option N) : alloc_oracle := mkOracle room None (Some 1099511627776) (-1)%Z.
Definition default_opts : alloc_opts := mkOpts false false.

(* arena 1: exclusive, 4 blocks, given as a misaligned region; arena 2: non-exclusive, 2 blocks.
   thread 1 = main (heap 1 backing), thread 2: backing heap 2, heap 3 bound to the exclusive arena 1 *)
Definition ex_setup : list op :=
  [ OManage (MiB32 * 100 + 4096) (MiB32 * 5 + 12288) true false (-1)%Z;
    OManage (MiB32 * 200) (MiB32 * 2 + 5) false false (-1)%Z;
    OHeapNew 1 0%Z 0;                      (* heap 1: main backing *)
    OHeapNew 2 0%Z 0;                      (* heap 2: backing heap of thread 2 *)
    OHeapNew 2 1%Z 0;                      (* heap 3: mi_heap_new_in_arena(1) in thread 2 *)
    OSegmentAlloc default_opts 3 false MiB32 MiB32 0 511 false (no_oracle (fun i => Some 0));   (* segment 4 in arena 1 *)
    OSpanReuse 3 1 4 0;                    (* a page for heap 3 *)
    OSpanReuse 2 1 4 0;                    (* the unbound heap of the same thread: refused *)
    OSegmentAlloc default_opts 2 false MiB32 MiB32 0 511 false (no_oracle (fun i => if i =? 0 then Some 1 else Some 0));  (* segment 5: arena 2 *)
    OSpanReuse 2 1 5 0;
    OThreadDone 2 [] ].

Definition ex_state : state := run init_state ex_setup.

(* non-vacuity: the history builds arenas, an abandoned segment of the exclusive arena with a live
   page, an abandoned segment of the shared arena; the invariants hold on it *)
Example ex_state_nontrivial :
  lengthN (st_arenas ex_state) = 2 /\ lengthN (st_segs ex_state) = 2 /\
  map s_owner (st_segs ex_state) = [0; 0] /\
  map s_memid (st_segs ex_state) = [MemArena 2 false; MemArena 1 true] /\
  map (fun s => lengthN (s_pages s)) (st_segs ex_state) = [1; 1] /\
  bound_inv_b ex_state = true /\ placed_inv_b ex_state = true /\ tags_uniform_b ex_state = true /\
  forallb op_untagged ex_setup = true.
Proof. vm_compute. repeat split; reflexivity. Qed.

Example ex_managed_misaligned :
  manage_os_memory (MiB32 * 100 + 4096) (MiB32 * 5 + 12288) = Some (mkManaged (MiB32 * 101) 4 1 60 4) /\
  manage_os_memory (MiB32 * 100 + 4096) (MiB32 * 2 - 4097) = None /\
  manage_os_memory 4096 (MiB32 - 1) = None.
Proof. vm_compute. repeat split; reflexivity. Qed.

(* a bound heap gets NULL when its arena is full, the unbound heap falls back to the OS *)
Example ex_bound_full_null :
  snd (arena_alloc (st_arenas ex_state) default_opts MiB32 MiB32 0 false 1%Z (no_oracle (fun _ => None))) = RNull /\
  snd (arena_alloc (st_arenas ex_state) default_opts MiB32 MiB32 0 false 0%Z (no_oracle (fun _ => None))) = ROs 1099511627776 /\
  snd (arena_alloc (st_arenas ex_state) default_opts MiB32 MiB32 0 false 0%Z (no_oracle (fun _ => Some 0))) =
    RArena (mkArena 2 false (MiB32 * 200) 2 false (-1)%Z) 0.
Proof. vm_compute. repeat split; reflexivity. Qed.

(* the repaired reclaim_all on the main backing heap (heap 1) adopts the shared segment only *)
Example ex_reclaim_all_repaired :
  let st := step ex_state (OReclaimAll 1) in
  map s_owner (st_segs st) = [1; 0] /\ exclusive_leak_b st 1%Z = false /\ bound_inv_b st = true.
Proof. vm_compute. repeat split; reflexivity. Qed.

(* the OLD _mi_abandoned_reclaim_all (before 027d323): no suitability test *)
Definition reclaim_all_old (st : state) (h : heap) : state :=
  fold_left (fun acc sid =>
    match find_seg acc sid with
    | Some s => if cursor_yields acc h s then reclaim acc h sid else acc
    | None => acc
    end) (map s_id (st_segs st)) st.

Example reclaim_all_old_breaks_exclusive :
  let h1 := mkHeap 1 1 0%Z 0 true in
  find_heap ex_state 1 = Some h1 /\ bound_inv_b ex_state = true /\
  let st := reclaim_all_old ex_state h1 in
  map s_owner (st_segs st) = [1; 1] /\ exclusive_leak_b st 1%Z = true /\ bound_inv_b st = false.
Proof. vm_compute. repeat split; reflexivity. Qed.

(* the known finding impl:reclaim-by-tag-exclusive: mi_segment_reclaim gives the pages to
   _mi_heap_by_tag(heap, page->heap_tag) and never tests that heap's arena.  Main thread: heap 6 =
   mi_heap_new_ex(7, false, arena 1); an allocation from it adopts segment 4 (exclusive arena 1,
   suitable for heap 6); its page has tag 0, so it lands in the unbound backing heap 1. *)
Definition ex_tag_ops : list op := ex_setup ++ [OHeapNew 1 1%Z 7].
Definition ex_tag_step : op := OTryReclaim 6 [(4, true)].

Theorem reclaim_tag_unsuitable_refuted_lemma :
  exists ops o,
    bound_inv_b (run init_state ops) = true /\ placed_inv_b (run init_state ops) = true /\
    bound_inv_b (step (run init_state ops) o) = false /\
    exclusive_leak_b (step (run init_state ops) o) 1%Z = true.
Proof. exists ex_tag_ops, ex_tag_step. vm_compute. repeat split; reflexivity. Qed.

(* non-vacuity of the adopter-based theorems: a history WITH a tagged heap.  Heap 6 = mi_heap_new_ex(7, false, none) of
   the main thread adopts segment 5 (shared arena 2, one live tag-0 page): heap 6 is tag_safe (the tag-0 heap that
   _mi_heap_by_tag finds is the unbound backing heap), the page moves to heap 1 and the invariants hold. *)
Definition ex_safe_ops : list op := ex_setup ++ [OHeapNew 1 0%Z 7].
Definition ex_safe_step : op := OTryReclaim 6 [(5, true)].
Example ex_tagged_adopter_safe :
  let st := run init_state ex_safe_ops in
  let h6 := mkHeap 6 1 0%Z 7 false in
  find_heap st 6 = Some h6 /\ tag_safe_b (st_heaps st) h6 = true /\ tags_uniform_b st = false /\
  map s_owner (st_segs (step st ex_safe_step)) = [1; 0] /\
  map (fun s => map (fun p => match p_heap p with Some h => h_id h | None => 0 end) (s_pages s)) (st_segs (step st ex_safe_step)) = [[1]; [0]] /\
  bound_inv_b (step st ex_safe_step) = true /\ exclusive_leak_b (step st ex_safe_step) 1%Z = false.
Proof. vm_compute. repeat split; reflexivity. Qed.

Lemma ex_safe_adopters : adopters_safe init_state (ex_safe_ops ++ [ex_safe_step]).
Proof.
  unfold ex_safe_ops, ex_setup. cbn [app adopters_safe op_adopter].
  repeat (split; [intros hid h E; discriminate E|]).
  split; [|exact I]. intros hid h E Hh. inversion E; subst hid. apply tag_safe_b_sound.
  vm_compute in Hh. inversion Hh; subst h. vm_compute. reflexivity.
Qed.

(* the full (unconditional) preservation statement, and its refutation by that witness *)
Definition bound_inv_preserved_full : Prop := forall st o, Inv st -> Inv (step st o).

Theorem bound_inv_preserved_full_refuted : ~ bound_inv_preserved_full.
Proof.
  intros H.
  assert (HI : Inv (run init_state ex_tag_ops)).
  { unfold run. generalize Inv_init. generalize init_state. induction ex_tag_ops as [|o t IH]; intros st Hs; [exact Hs|].
    cbn [fold_left]. apply IH, H, Hs. }
  pose proof (H _ ex_tag_step HI) as H2. apply Inv_split in H2 as (_ & H2 & _).
  apply bound_inv_b_spec in H2. revert H2. vm_compute. discriminate.
Qed.
