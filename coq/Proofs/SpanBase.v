(* Infrastructure for the segment/span proofs: the slice array as a finite map (get/set), the span
   queues, tilings of an index range by spans and the walk of mi_segment_is_valid. *)
From Coq Require Import NArith ZArith Lia Bool List.
From Coq Require Import ZifyN ZifyBool.
From MiV Require Import Gen.Consts Gen.Bins Model.Arith Model.Span Proofs.Base.
Import ListNotations.
Local Open Scope N_scope.

Definition len {A} (l : list A) : N := N.of_nat (length l).

(* ------------------------------------------------------------------------------------- *)
(* get / set                                                                               *)
(* ------------------------------------------------------------------------------------- *)

Lemma set_nat_length es i s : length (set_nat es i s) = length es.
Proof. revert i; induction es as [|e r IH]; intros [|i]; cbn; auto. Qed.

Lemma set_length es i s : len (set es i s) = len es.
Proof. unfold len, set. rewrite set_nat_length. reflexivity. Qed.

Lemma nth_set_nat_same es i s d : (i < length es)%nat -> nth i (set_nat es i s) d = s.
Proof.
  revert i; induction es as [|e r IH]; intros i H; destruct i as [|i]; cbn in *; try lia.
  - reflexivity.
  - apply IH. lia.
Qed.

Lemma nth_set_nat_other es i j s d : i <> j -> nth j (set_nat es i s) d = nth j es d.
Proof.
  revert i j; induction es as [|e r IH]; intros [|i] [|j] H; cbn; auto; try congruence; try (apply IH; congruence).
Qed.

Lemma get_set_same es i s : i < len es -> get (set es i s) i = s.
Proof. intros H. unfold get, set. apply nth_set_nat_same. unfold len in H. lia. Qed.

Lemma get_set_other es i j s : j <> i -> get (set es i s) j = get es j.
Proof. intros H. unfold get, set. apply nth_set_nat_other. lia. Qed.

Lemma get_set_bsz_other es i b j : j <> i -> get (set_bsz es i b) j = get es j.
Proof. intros H. unfold set_bsz. apply get_set_other; assumption. Qed.

Lemma get_set_bsz_same es i b : i < len es ->
  get (set_bsz es i b) i = mkSlice (slice_count (get es i)) (slice_offset (get es i)) b.
Proof. intros H. unfold set_bsz. apply get_set_same; assumption. Qed.

Lemma set_bsz_length es i b : len (set_bsz es i b) = len es.
Proof. unfold set_bsz. apply set_length. Qed.

Lemma get_set_count_other es i c j : j <> i -> get (set_count es i c) j = get es j.
Proof. intros H. unfold set_count. apply get_set_other; assumption. Qed.

Lemma get_set_count_same es i c : i < len es ->
  get (set_count es i c) i = mkSlice c (slice_offset (get es i)) (bsz (get es i)).
Proof. intros H. unfold set_count. apply get_set_same; assumption. Qed.

Lemma set_count_length es i c : len (set_count es i c) = len es.
Proof. unfold set_count. apply set_length. Qed.

Lemma get_repeat k i : get (repeat slice0 k) i = slice0.
Proof.
  unfold get. generalize (N.to_nat i). clear i. induction k as [|k IH]; intros [|j]; cbn; auto.
Qed.

Lemma wrap32_small x : x < 4294967296 -> wrap32 x = x.
Proof. intros H. unfold wrap32. apply N.mod_small. exact H. Qed.

(* ------------------------------------------------------------------------------------- *)
(* queues                                                                                  *)
(* ------------------------------------------------------------------------------------- *)

Lemma q_upd_nat_length qs b f : length (q_upd_nat qs b f) = length qs.
Proof. revert b; induction qs as [|q r IH]; intros [|b]; cbn; auto. Qed.

Lemma q_upd_length qs b f : len (q_upd qs b f) = len qs.
Proof. unfold len, q_upd. rewrite q_upd_nat_length. reflexivity. Qed.

Lemma nth_q_upd_nat_same qs b f : (b < length qs)%nat -> nth b (q_upd_nat qs b f) [] = f (nth b qs []).
Proof.
  revert b; induction qs as [|q r IH]; intros b H; destruct b as [|b]; cbn in *; try lia.
  - reflexivity.
  - apply IH. lia.
Qed.

Lemma nth_q_upd_nat_other qs b b' f : b <> b' -> nth b' (q_upd_nat qs b f) [] = nth b' qs [].
Proof.
  revert b b'; induction qs as [|q r IH]; intros [|b] [|b'] H; cbn; auto; try congruence; try (apply IH; congruence).
Qed.

Lemma q_get_upd_same qs b f : b < len qs -> q_get (q_upd qs b f) b = f (q_get qs b).
Proof. intros H. unfold q_get, q_upd. apply nth_q_upd_nat_same. unfold len in H. lia. Qed.

Lemma q_get_upd_other qs b b' f : b' <> b -> q_get (q_upd qs b f) b' = q_get qs b'.
Proof. intros H. unfold q_get, q_upd. apply nth_q_upd_nat_other. lia. Qed.

Lemma In_removeN x y l : In y (removeN x l) <-> In y l /\ y <> x.
Proof.
  unfold removeN. rewrite filter_In. split; intros [H1 H2]; split; auto.
  - intros ->. rewrite N.eqb_refl in H2. discriminate.
  - apply negb_true_iff. apply N.eqb_neq. assumption.
Qed.

Lemma NoDup_removeN x l : NoDup l -> NoDup (removeN x l).
Proof. intros H. unfold removeN. apply NoDup_filter. assumption. Qed.

Lemma removeN_notin x l : ~ In x l -> removeN x l = l.
Proof.
  intros H. unfold removeN. induction l as [|y r IH]; cbn; auto.
  destruct (y =? x) eqn:E.
  - apply N.eqb_eq in E. subst. exfalso. apply H. left; reflexivity.
  - cbn. f_equal. apply IH. intros Hin. apply H. right; assumption.
Qed.

Lemma memNb_In x l : memNb x l = true <-> In x l.
Proof.
  unfold memNb. rewrite existsb_exists. split.
  - intros (y & Hy & E). apply N.eqb_eq in E. subst. assumption.
  - intros H. exists x. split; [assumption|apply N.eqb_refl].
Qed.

Lemma nodupNb_spec l : nodupNb l = true <-> NoDup l.
Proof.
  induction l as [|x r IH]; cbn.
  - split; [constructor|reflexivity].
  - rewrite andb_true_iff, negb_true_iff, IH. split.
    + intros [H1 H2]. constructor; [|assumption]. intros Hin. apply memNb_In in Hin. congruence.
    + intros H. inversion H; subst. split; [|assumption].
      destruct (memNb x r) eqn:E; [|reflexivity]. apply memNb_In in E. contradiction.
Qed.

(* a statement about every bin, as a recursion over the list of queues *)
Lemma q_get_cons q r b : q_get (q :: r) b = if b =? 0 then q else q_get r (b - 1).
Proof.
  unfold q_get. destruct b as [|p]; [reflexivity|].
  replace (N.to_nat (N.pos p)) with (S (N.to_nat (N.pos p - 1))) by lia. reflexivity.
Qed.

Lemma q_get_nil b : q_get [] b = [].
Proof. unfold q_get. destruct (N.to_nat b); reflexivity. Qed.

(* ------------------------------------------------------------------------------------- *)
(* tilings                                                                                 *)
(* ------------------------------------------------------------------------------------- *)

(* the spans (first index, count) tile [i, m) in order *)
Fixpoint tiles (i m : N) (sps : list (N * N)) : Prop :=
  match sps with
  | [] => i = m
  | (j, c) :: r => j = i /\ 0 < c /\ tiles (i + c) m r
  end.

Lemma tiles_le i m sps : tiles i m sps -> i <= m.
Proof.
  revert i; induction sps as [|[j c] r IH]; intros i H; cbn in H.
  - lia.
  - destruct H as (_ & Hc & H). apply IH in H. lia.
Qed.

Lemma tiles_app i m l1 l2 : tiles i m (l1 ++ l2) <-> exists k, tiles i k l1 /\ tiles k m l2.
Proof.
  revert i; induction l1 as [|[j c] r IH]; intros i; cbn.
  - split.
    + intros H. exists i. split; [reflexivity|assumption].
    + intros (k & -> & H). assumption.
  - rewrite IH. split.
    + intros (Hj & Hc & k & H1 & H2). exists k. repeat split; assumption.
    + intros (k & (Hj & Hc & H1) & H2). repeat split; try assumption. exists k; split; assumption.
Qed.

Lemma tiles_In i m sps j c : tiles i m sps -> In (j, c) sps -> i <= j /\ j + c <= m /\ 0 < c.
Proof.
  revert i; induction sps as [|[j' c'] r IH]; intros i H Hin; cbn in *; [contradiction|].
  destruct H as (-> & Hc & H). destruct Hin as [E|Hin].
  - inversion E; subst. apply tiles_le in H. lia.
  - destruct (IH _ H Hin) as (H1 & H2 & H3). lia.
Qed.

(* two spans of a tiling are equal or disjoint *)
Lemma tiles_disjoint i m sps j1 c1 j2 c2 :
  tiles i m sps -> In (j1, c1) sps -> In (j2, c2) sps ->
  (j1 = j2 /\ c1 = c2) \/ j1 + c1 <= j2 \/ j2 + c2 <= j1.
Proof.
  revert i; induction sps as [|[j c] r IH]; intros i H H1 H2; cbn in *; [contradiction|].
  destruct H as (-> & Hc & H).
  destruct H1 as [E1|H1], H2 as [E2|H2].
  - inversion E1; inversion E2; subst. left; split; reflexivity.
  - inversion E1; subst. destruct (tiles_In _ _ _ _ _ H H2). right; left; lia.
  - inversion E2; subst. destruct (tiles_In _ _ _ _ _ H H1). right; right; lia.
  - apply (IH _ H H1 H2).
Qed.

Lemma tiles_first_unique i m sps j c1 c2 :
  tiles i m sps -> In (j, c1) sps -> In (j, c2) sps -> c1 = c2.
Proof.
  intros H H1 H2. destruct (tiles_disjoint _ _ _ _ _ _ _ H H1 H2) as [[_ E]|[E|E]]; [assumption| |].
  - destruct (tiles_In _ _ _ _ _ H H1). lia.
  - destruct (tiles_In _ _ _ _ _ H H2). lia.
Qed.

(* split a tiling at a member *)
Lemma tiles_split i m sps j c :
  tiles i m sps -> In (j, c) sps ->
  exists l1 l2, sps = l1 ++ (j, c) :: l2 /\ tiles i j l1 /\ tiles (j + c) m l2.
Proof.
  intros H Hin. apply in_split in Hin as (l1 & l2 & ->).
  apply tiles_app in H as (k & H1 & H2). cbn in H2. destruct H2 as (-> & Hc & H2).
  exists l1, l2. repeat split; assumption.
Qed.

(* the last span of a non-empty tiling *)
Lemma tiles_last i m sps : tiles i m sps -> i < m ->
  exists l j c, sps = l ++ [(j, c)] /\ tiles i j l /\ j + c = m /\ 0 < c.
Proof.
  revert i; induction sps as [|[j c] r IH]; intros i H Hlt; cbn in H; [lia|].
  destruct H as (-> & Hc & H).
  destruct (N.eq_dec (i + c) m) as [E|E].
  - destruct r as [|[j' c'] r'].
    + exists [], i, c. cbn. repeat split; auto.
    + cbn in H. destruct H as (-> & Hc' & H). apply tiles_le in H. lia.
  - assert (Hlt' : i + c < m) by (apply tiles_le in H; lia).
    destruct (IH _ H Hlt') as (l & j' & c' & -> & H1 & H2 & H3).
    exists ((i, c) :: l), j', c'. cbn. repeat split; auto.
Qed.

(* the head of a non-empty tiling *)
Lemma tiles_head i m sps : tiles i m sps -> i < m ->
  exists c r, sps = (i, c) :: r /\ 0 < c /\ tiles (i + c) m r.
Proof.
  destruct sps as [|[j c] r]; cbn; intros H Hlt; [lia|].
  destruct H as (-> & Hc & H). exists c, r. repeat split; auto.
Qed.

Lemma tiles_NoDup_fst i m sps : tiles i m sps -> NoDup (map fst sps).
Proof.
  revert i; induction sps as [|[j c] r IH]; intros i H; cbn in *; [constructor|].
  destruct H as (-> & Hc & H). constructor; [|apply (IH _ H)].
  intros Hin. apply in_map_iff in Hin as ([j' c'] & E & Hin). cbn in E. subst.
  destruct (tiles_In _ _ _ _ _ H Hin). lia.
Qed.

(* ------------------------------------------------------------------------------------- *)
(* the walk of mi_segment_is_valid                                                         *)
(* ------------------------------------------------------------------------------------- *)

Definition first_ok (es : list slice) (n : N) (sp : N * N) : Prop :=
  fst sp < n /\ slice_count (get es (fst sp)) = snd sp /\ slice_offset (get es (fst sp)) = 0.

Lemma walk_end fuel es n : walk fuel es n n = Some [].
Proof. destruct fuel; cbn; rewrite N.leb_refl, N.eqb_refl; reflexivity. Qed.

Lemma walk_sound fuel es n : forall i sps, i <= n -> walk fuel es n i = Some sps ->
  exists m, tiles i m sps /\ n <= m /\ Forall (first_ok es n) sps.
Proof.
  induction fuel as [|f IH]; intros i sps Hi H; cbn in H.
  - destruct (n <=? i) eqn:E; [|discriminate]. destruct (i =? n) eqn:E2; [|discriminate].
    inversion H; subst. apply N.eqb_eq in E2. exists n. cbn. repeat split; auto. lia.
  - destruct (n <=? i) eqn:E.
    + destruct (i =? n) eqn:E2; [|discriminate]. inversion H; subst. apply N.eqb_eq in E2.
      exists n. cbn. repeat split; auto. lia.
    + apply N.leb_gt in E.
      destruct ((0 <? slice_count (get es i)) && (slice_offset (get es i) =? 0)) eqn:E1; [|discriminate].
      apply andb_prop in E1 as [Ec Eo]. apply N.ltb_lt in Ec. apply N.eqb_eq in Eo.
      destruct (walk f es n (N.min (i + slice_count (get es i)) n)) as [r|] eqn:Er; [|discriminate].
      inversion H; subst. clear H.
      destruct (N.le_gt_cases (i + slice_count (get es i)) n) as [Hle|Hgt].
      * rewrite N.min_l in Er by assumption.
        destruct (IH _ _ Hle Er) as (m & Ht & Hm & Hf).
        exists m. cbn. repeat split; auto. constructor; [|assumption]. repeat split; cbn; auto.
      * rewrite N.min_r in Er by lia. rewrite walk_end in Er. inversion Er; subst.
        exists (i + slice_count (get es i)). cbn. repeat split; auto; try lia.
        constructor; [|constructor]. repeat split; cbn; auto.
Qed.

Lemma walk_complete es n m : forall sps i fuel,
  tiles i m sps -> n <= m -> i <= n -> Forall (first_ok es n) sps -> (N.to_nat (n - i) <= fuel)%nat ->
  walk fuel es n i = Some sps.
Proof.
  induction sps as [|[j c] r IH]; intros i fuel Ht Hm Hi Hf Hfuel; cbn in Ht.
  - assert (Hin : i = n) by lia. rewrite Hin. apply walk_end.
  - destruct Ht as (-> & Hc & Ht). inversion Hf as [|? ? Hf1 Hf2]; subst.
    destruct Hf1 as (Hlt & Hcnt & Hoff). cbn in Hlt, Hcnt, Hoff.
    destruct fuel as [|f]; [lia|]. cbn.
    assert (E : (n <=? i) = false) by (apply N.leb_gt; assumption). rewrite E.
    rewrite Hcnt, Hoff. assert (Ec : (0 <? c) = true) by (apply N.ltb_lt; assumption). rewrite Ec. cbn.
    destruct (N.le_gt_cases (i + c) n) as [Hle|Hgt].
    + rewrite N.min_l by assumption. rewrite (IH (i + c) f); auto. lia.
    + rewrite N.min_r by lia.
      assert (r = []).
      { destruct r as [|[j' c'] r']; [reflexivity|]. cbn in Ht. destruct Ht as (-> & _).
        inversion Hf2 as [|? ? Hx _]; subst. destruct Hx as (Hx & _). cbn in Hx. lia. }
      subst. rewrite walk_end. reflexivity.
Qed.
