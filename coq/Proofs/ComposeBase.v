(* Composition layer (C01): generic facts about keyed lists (Model/Compose.v: kfind/kset/kdel) and about
   association lists whose keys determine the value. *)
From Coq Require Import NArith Lia Bool List.
From MiV Require Import Model.Compose.
Import ListNotations.
Local Open Scope N_scope.

Section Keyed.
Context {A : Type} (key : A -> N).

Lemma kfind_some l k x : kfind key l k = Some x -> In x l /\ key x = k.
Proof.
  induction l as [|y r IH]; cbn [kfind]; [discriminate|].
  destruct (key y =? k) eqn:E.
  - intros H. inversion H; subst. apply N.eqb_eq in E. split; [left; reflexivity|assumption].
  - intros H. destruct (IH H). split; [right; assumption|assumption].
Qed.

Lemma kfind_none l k : kfind key l k = None <-> ~ In k (map key l).
Proof.
  induction l as [|y r IH]; cbn [kfind map In]; [tauto|].
  destruct (key y =? k) eqn:E.
  - apply N.eqb_eq in E. split; [discriminate|]. intros H. exfalso. apply H. left. assumption.
  - apply N.eqb_neq in E. rewrite IH. tauto.
Qed.

Lemma kfind_In l x : NoDup (map key l) -> In x l -> kfind key l (key x) = Some x.
Proof.
  induction l as [|y r IH]; cbn [kfind map In]; [tauto|].
  intros Hnd [->|Hin].
  - rewrite N.eqb_refl. reflexivity.
  - inversion Hnd; subst. destruct (key y =? key x) eqn:E; [|apply IH; assumption].
    apply N.eqb_eq in E. exfalso. apply H1. rewrite E. apply in_map. assumption.
Qed.

Lemma kfind_iff l k x : NoDup (map key l) -> (kfind key l k = Some x <-> In x l /\ key x = k).
Proof.
  intros Hnd. split; [apply kfind_some|]. intros (Hin & <-). apply kfind_In; assumption.
Qed.

Lemma kfind_key_In l k x : kfind key l k = Some x -> In k (map key l).
Proof. intros H. destruct (kfind_some _ _ _ H) as (Hin & <-). apply in_map. assumption. Qed.

Lemma map_key_kset l x : map key (kset key l x) = map key l.
Proof.
  induction l as [|y r IH]; cbn [kset map]; [reflexivity|].
  destruct (key y =? key x) eqn:E; cbn [map]; [apply N.eqb_eq in E; rewrite E; reflexivity|rewrite IH; reflexivity].
Qed.

Lemma In_kset l x y : NoDup (map key l) -> In (key x) (map key l) ->
  (In y (kset key l x) <-> y = x \/ (In y l /\ key y <> key x)).
Proof.
  induction l as [|z r IH]; cbn [kset map In]; [tauto|].
  intros Hnd Hin. inversion Hnd; subst.
  destruct (key z =? key x) eqn:E.
  - apply N.eqb_eq in E. cbn [In]. split.
    + intros [<-|Hy]; [left; reflexivity|]. right. split; [right; assumption|].
      intros Ek. apply H1. rewrite E, <- Ek. apply in_map. assumption.
    + intros [->|([->|Hy] & Hk)]; [left; reflexivity|congruence|right; assumption].
  - apply N.eqb_neq in E. cbn [In]. destruct Hin as [Hin|Hin]; [congruence|].
    rewrite (IH H2 Hin). split.
    + intros [<-|[->|(Hy & Hk)]]; [right; split; [left; reflexivity|assumption]|left; reflexivity|right; split; [right; assumption|assumption]].
    + intros [->|([<-|Hy] & Hk)]; [right; left; reflexivity|left; reflexivity|right; right; split; assumption].
Qed.

Lemma kfind_kset l x k : In (key x) (map key l) ->
  kfind key (kset key l x) k = if key x =? k then Some x else kfind key l k.
Proof.
  induction l as [|z r IH]; cbn [kset map In kfind]; [tauto|].
  intros Hin. destruct (key z =? key x) eqn:E.
  - apply N.eqb_eq in E. cbn [kfind]. rewrite E. destruct (key x =? k); reflexivity.
  - apply N.eqb_neq in E. destruct Hin as [Hin|Hin]; [congruence|]. cbn [kfind].
    destruct (key z =? k) eqn:Ez.
    + apply N.eqb_eq in Ez. destruct (key x =? k) eqn:Ex; [apply N.eqb_eq in Ex; congruence|reflexivity].
    + apply IH. assumption.
Qed.

Lemma In_kdel l k y : In y (kdel key l k) <-> In y l /\ key y <> k.
Proof.
  unfold kdel. rewrite filter_In, negb_true_iff, N.eqb_neq. reflexivity.
Qed.

Lemma map_key_kdel l k : map key (kdel key l k) = filter (fun j => negb (j =? k)) (map key l).
Proof.
  unfold kdel. induction l as [|y r IH]; cbn [filter map]; [reflexivity|].
  destruct (negb (key y =? k)); cbn [map]; rewrite IH; reflexivity.
Qed.

Lemma NoDup_filter {B} (f : B -> bool) l : NoDup l -> NoDup (filter f l).
Proof.
  induction 1 as [|x l Hx Hnd IH]; cbn [filter]; [constructor|].
  destruct (f x); [constructor; [rewrite filter_In; tauto|assumption]|assumption].
Qed.

Lemma NoDup_kdel l k : NoDup (map key l) -> NoDup (map key (kdel key l k)).
Proof. intros H. rewrite map_key_kdel. apply NoDup_filter. assumption. Qed.

Lemma In_map_key_kdel l k j : In j (map key (kdel key l k)) <-> In j (map key l) /\ j <> k.
Proof. rewrite map_key_kdel, filter_In, negb_true_iff, N.eqb_neq. reflexivity. Qed.

(* two elements with the same key are the same element *)
Lemma key_inj l x y : NoDup (map key l) -> In x l -> In y l -> key x = key y -> x = y.
Proof.
  intros Hnd Hx Hy E. pose proof (kfind_In l x Hnd Hx) as H1. pose proof (kfind_In l y Hnd Hy) as H2.
  rewrite E in H1. rewrite H1 in H2. inversion H2. reflexivity.
Qed.
End Keyed.

(* ---- flat_map ---- *)
Lemma In_flat_map_iff {A B} (f : A -> list B) l y : In y (flat_map f l) <-> exists x, In x l /\ In y (f x).
Proof. apply in_flat_map. Qed.

(* ---- association lists in which a key determines its value ---- *)
Section Assoc.
Context {B : Type}.
Fixpoint alookup (l : list (N * B)) (k : N) : option B :=
  match l with [] => None | (q, b) :: r => if q =? k then Some b else alookup r k end.

Definition functional (l : list (N * B)) : Prop := forall k b1 b2, In (k, b1) l -> In (k, b2) l -> b1 = b2.

Lemma alookup_In l k b : alookup l k = Some b -> In (k, b) l.
Proof.
  induction l as [|[q c] r IH]; cbn [alookup]; [discriminate|].
  destruct (q =? k) eqn:E.
  - apply N.eqb_eq in E. intros H. inversion H; subst. left. reflexivity.
  - intros H. right. apply IH. assumption.
Qed.

Lemma alookup_none l k : alookup l k = None <-> forall b, ~ In (k, b) l.
Proof.
  induction l as [|[q c] r IH]; cbn [alookup In]; [split; [intros _ b []|reflexivity]|].
  destruct (q =? k) eqn:E.
  - apply N.eqb_eq in E. subst q. split; [discriminate|]. intros H. exfalso. apply (H c). left. reflexivity.
  - apply N.eqb_neq in E. rewrite IH. split.
    + intros H b [Hb|Hb]; [inversion Hb; congruence|apply (H b Hb)].
    + intros H b Hb. apply (H b). right. assumption.
Qed.

Lemma functional_lookup l k b : functional l -> (alookup l k = Some b <-> In (k, b) l).
Proof.
  intros F. split; [apply alookup_In|]. intros Hin.
  destruct (alookup l k) as [b'|] eqn:E.
  - f_equal. apply (F k); [apply alookup_In|]; assumption.
  - exfalso. apply (proj1 (alookup_none l k) E b). assumption.
Qed.

Lemma functional_ext l1 l2 : functional l1 -> functional l2 -> (forall e, In e l1 <-> In e l2) ->
  forall k, alookup l1 k = alookup l2 k.
Proof.
  intros F1 F2 H k. destruct (alookup l1 k) as [b|] eqn:E1.
  - symmetry. apply (functional_lookup _ _ _ F2). apply H. apply alookup_In. assumption.
  - destruct (alookup l2 k) as [b|] eqn:E2; [|reflexivity]. exfalso.
    apply (proj1 (alookup_none l1 k) E1 b). apply H. apply alookup_In. assumption.
Qed.
End Assoc.
