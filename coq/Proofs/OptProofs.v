(* Lemmas about Model/Opt.v (property C20): bounded string helpers, environment lookup, option
   parsing, option table, _mi_vsnprintf, delayed / line / JSON output buffers. *)
From Coq Require Import NArith ZArith List Bool Lia.
From MiV Require Import Gen.Consts Gen.Options Model.Arith Model.Opt Proofs.Base.
Import ListNotations.
Local Open Scope N_scope.
Local Open Scope bool_scope.

(* ------------------------------------------------------------------------------------------ *)
(* lists indexed by N                                                                          *)
(* ------------------------------------------------------------------------------------------ *)
Lemma lenN_updN l : forall i c, lenN (updN l i c) = lenN l.
Proof. induction l as [|x r IH]; intros i c; cbn; [reflexivity|]. destruct (i =? 0); cbn; [reflexivity|]. now rewrite IH. Qed.

Lemma nthN_updN_eq l : forall i c, i < lenN l -> nthN (updN l i c) i = c.
Proof.
  induction l as [|x r IH]; intros i c H; cbn in *; [lia|].
  destruct (i =? 0) eqn:E; cbn; rewrite E; [reflexivity|].
  apply N.eqb_neq in E. apply IH. lia.
Qed.

Lemma nthN_updN_ne l : forall i j c, i <> j -> nthN (updN l i c) j = nthN l j.
Proof.
  induction l as [|x r IH]; intros i j c H; cbn; [reflexivity|].
  destruct (i =? 0) eqn:E; cbn.
  - apply N.eqb_eq in E. destruct (j =? 0) eqn:F; [apply N.eqb_eq in F; lia|reflexivity].
  - apply N.eqb_neq in E. destruct (j =? 0) eqn:F; [reflexivity|]. apply N.eqb_neq in F. apply IH. lia.
Qed.

Lemma lenN_app a b : lenN (a ++ b) = lenN a + lenN b.
Proof. induction a as [|x r IH]; cbn; [reflexivity|]. rewrite IH. lia. Qed.

Lemma lenN_repeatN c n : lenN (repeatN c n) = N.of_nat n.
Proof. induction n as [|n IH]; [reflexivity|]. cbn [repeatN lenN]. rewrite IH. lia. Qed.

Lemma nthN_app_l a b : forall i, i < lenN a -> nthN (a ++ b) i = nthN a i.
Proof.
  induction a as [|x r IH]; intros i H; cbn in *; [lia|].
  destruct (i =? 0) eqn:E; [reflexivity|]. apply N.eqb_neq in E. apply IH. lia.
Qed.

Lemma lenN_length l : lenN l = N.of_nat (length l).
Proof. induction l as [|x r IH]; [reflexivity|]. cbn [lenN length]. rewrite IH. lia. Qed.

(* ------------------------------------------------------------------------------------------ *)
(* buffers                                                                                     *)
(* ------------------------------------------------------------------------------------------ *)
Lemma blen_bput b i c : blen (bput b i c) = blen b.
Proof. unfold bput, blen. destruct (i <? lenN (bdata b)); cbn; [apply lenN_updN|reflexivity]. Qed.

Lemma fault_bput b i c : i < blen b -> fault (bput b i c) = fault b.
Proof. intros H. unfold bput. apply N.ltb_lt in H. rewrite H. reflexivity. Qed.

Lemma bget_bput_eq b i c : i < blen b -> bget (bput b i c) i = c.
Proof. intros H. unfold bput, bget. pose proof H as H'. apply N.ltb_lt in H'. rewrite H'. cbn. apply nthN_updN_eq. exact H. Qed.

Lemma bget_bput_ne b i j c : i <> j -> bget (bput b i c) j = bget b j.
Proof. intros H. unfold bput, bget. destruct (i <? blen b); cbn; [apply nthN_updN_ne; exact H|reflexivity]. Qed.

Lemma bread_in b i : i < blen b -> bread b i = (bget b i, b).
Proof. intros H. unfold bread. apply N.ltb_lt in H. rewrite H. reflexivity. Qed.

(* "the buffer is intact": no fault so far, and its size *)
Definition okb (b : buf) (n : N) : Prop := fault b = false /\ blen b = n.

Lemma okb_bput b n i c : okb b n -> i < n -> okb (bput b i c) n.
Proof. intros [F L] H. split; [rewrite fault_bput; [exact F|lia]|rewrite blen_bput; exact L]. Qed.

(* ------------------------------------------------------------------------------------------ *)
(* strings                                                                                     *)
(* ------------------------------------------------------------------------------------------ *)
Lemma strlen_nil : strlen [] = 0.
Proof. reflexivity. Qed.

Lemma strlen_cons_nz c r : c <> 0 -> strlen (c :: r) = N.succ (strlen r).
Proof. intros H. unfold strlen. cbn. apply N.eqb_neq in H. rewrite H. reflexivity. Qed.

Lemma strlen_cons_z r : strlen (0 :: r) = 0.
Proof. reflexivity. Qed.

(* _mi_strlcpy: the loop.  n = min(strlen src, size-1) bytes are copied, then the terminator;
   nothing else changes *)
Lemma strlcpy_loop_spec src : forall b d size,
  1 <= size -> d + size <= blen b -> fault b = false ->
  let r := strlcpy_loop b d src size in
  let n := N.min (strlen src) (size - 1) in
  fault r = false /\ blen r = blen b /\
  (forall i, i < n -> bget r (d + i) = nthN src i) /\
  bget r (d + n) = 0 /\
  (forall j, j < d \/ d + n < j -> bget r j = bget b j).
Proof.
  induction src as [|c s IH]; intros b d size Hs Hd Hf; cbn zeta.
  - cbn [strlcpy_loop]. rewrite strlen_nil. rewrite N.min_0_l.
    repeat split.
    + rewrite fault_bput; [exact Hf|lia].
    + apply blen_bput.
    + intros i Hi. lia.
    + rewrite N.add_0_r. apply bget_bput_eq. lia.
    + intros j Hj. apply bget_bput_ne. lia.
  - cbn [strlcpy_loop].
    destruct (c =? 0) eqn:Ec.
    + apply N.eqb_eq in Ec. subst c. cbn [negb andb]. rewrite strlen_cons_z, N.min_0_l.
      repeat split.
      * rewrite fault_bput; [exact Hf|lia].
      * apply blen_bput.
      * intros i Hi. lia.
      * rewrite N.add_0_r. apply bget_bput_eq. lia.
      * intros j Hj. apply bget_bput_ne. lia.
    + apply N.eqb_neq in Ec. cbn [negb andb].
      destruct (1 <? size) eqn:E1.
      * apply N.ltb_lt in E1.
        assert (Hb : blen (bput b d c) = blen b) by apply blen_bput.
        specialize (IH (bput b d c) (d + 1) (size - 1)).
        destruct IH as (F & L & P & Z & O); [lia|rewrite Hb; lia|rewrite fault_bput; [exact Hf|lia]|].
        rewrite (strlen_cons_nz c s Ec).
        replace (N.min (N.succ (strlen s)) (size - 1)) with (N.succ (N.min (strlen s) (size - 1 - 1))) by lia.
        set (n' := N.min (strlen s) (size - 1 - 1)) in *.
        repeat split.
        -- exact F.
        -- rewrite L. exact Hb.
        -- intros i Hi. destruct (N.eq_dec i 0) as [->|Hne].
           ++ rewrite N.add_0_r. rewrite O by lia. cbn. apply bget_bput_eq. lia.
           ++ replace (d + i) with (d + 1 + (i - 1)) by lia. rewrite P by lia.
              cbn [nthN]. apply N.eqb_neq in Hne. rewrite Hne. reflexivity.
        -- replace (d + N.succ n') with (d + 1 + n') by lia. exact Z.
        -- intros j Hj. rewrite O by lia. apply bget_bput_ne. lia.
      * apply N.ltb_ge in E1. assert (size = 1) by lia. subst size.
        replace (N.min (strlen (c :: s)) (1 - 1)) with 0 by lia.
        repeat split.
        -- rewrite fault_bput; [exact Hf|lia].
        -- apply blen_bput.
        -- intros i Hi. lia.
        -- rewrite N.add_0_r. apply bget_bput_eq. lia.
        -- intros j Hj. apply bget_bput_ne. lia.
Qed.

Lemma strlcpy_spec b d src size :
  0 < size -> d + size <= blen b -> fault b = false ->
  let r := strlcpy b d src size in
  let n := N.min (strlen src) (size - 1) in
  fault r = false /\ blen r = blen b /\ n < size /\
  (forall i, i < n -> bget r (d + i) = nthN src i) /\
  bget r (d + n) = 0 /\
  (forall j, j < d \/ d + n < j -> bget r j = bget b j).
Proof.
  intros Hs Hd Hf. cbn zeta. unfold strlcpy.
  destruct (size =? 0) eqn:E; [apply N.eqb_eq in E; lia|].
  destruct (strlcpy_loop_spec src b d size) as (F & L & P & Z & O); try lia; try assumption.
  repeat split; try assumption. lia.
Qed.

(* size 0: nothing is touched *)
Lemma strlcpy_size0 b d src : strlcpy b d src 0 = b.
Proof. reflexivity. Qed.

(* _mi_strlcat *)
Lemma strlen_dropN_cons l : forall d, d < lenN l -> nthN l d <> 0 ->
  strlen (dropN l d) = N.succ (strlen (dropN l (d + 1))).
Proof.
  induction l as [|x r IH]; intros d H Hn; cbn in H; [lia|].
  cbn [dropN]. destruct (d =? 0) eqn:E.
  - apply N.eqb_eq in E. subst d. cbn in Hn. rewrite strlen_cons_nz by exact Hn.
    cbn [N.add]. cbn [dropN]. replace (1 =? 0) with false by reflexivity.
    destruct r; reflexivity.
  - apply N.eqb_neq in E. cbn [nthN] in Hn. pose proof E as E'. apply N.eqb_neq in E'. rewrite E' in Hn.
    replace (d + 1 =? 0) with false by (symmetry; apply N.eqb_neq; lia).
    replace (d + 1 - 1) with (d - 1 + 1) by lia. apply IH; [lia|exact Hn].
Qed.

Lemma dropN_nth l : forall d, d < lenN l -> dropN l d = nthN l d :: dropN l (d + 1).
Proof.
  induction l as [|x r IH]; intros d H; cbn in H; [lia|].
  cbn [dropN nthN]. destruct (d =? 0) eqn:E.
  - apply N.eqb_eq in E. subst d. cbn. destruct r; reflexivity.
  - apply N.eqb_neq in E. replace (d + 1 =? 0) with false by (symmetry; apply N.eqb_neq; lia).
    replace (d + 1 - 1) with (d - 1 + 1) by lia. apply IH. lia.
Qed.

Lemma strlcat_scan_spec : forall k l d size,
  N.of_nat k = size -> 1 <= size -> d + size <= lenN l ->
  let n := N.min (strlen (dropN l d)) (size - 1) in
  strlcat_scan (dropN l d) d size = (d + n, size - n, false).
Proof.
  induction k as [|k IH]; intros l d size Hk Hs Hd; [lia|]. cbn zeta.
  rewrite dropN_nth by lia. cbn [strlcat_scan].
  destruct (nthN l d =? 0) eqn:Ec.
  - apply N.eqb_eq in Ec. rewrite Ec. cbn [negb andb]. rewrite strlen_cons_z, N.min_0_l.
    now rewrite N.add_0_r, N.sub_0_r.
  - apply N.eqb_neq in Ec. cbn [negb andb]. destruct (1 <? size) eqn:E1.
    + apply N.ltb_lt in E1. rewrite (IH l (d + 1) (size - 1)) by lia.
      rewrite strlen_cons_nz by exact Ec.
      f_equal. f_equal; lia.
    + apply N.ltb_ge in E1. replace (size - 1) with 0 by lia.
      rewrite N.min_0_r. now rewrite N.add_0_r, N.sub_0_r.
Qed.

Lemma strlcat_spec b d src size :
  0 < size -> d + size <= blen b -> fault b = false ->
  let r := strlcat b d src size in
  let k := N.min (strlen (dropN (bdata b) d)) (size - 1) in
  let n := N.min (strlen src) (size - k - 1) in
  fault r = false /\ blen r = blen b /\ k + n < size /\
  (forall i, i < n -> bget r (d + k + i) = nthN src i) /\
  bget r (d + k + n) = 0 /\
  (forall j, j < d + k \/ d + k + n < j -> bget r j = bget b j).
Proof.
  intros Hs Hd Hf. cbn zeta. unfold strlcat.
  destruct (size =? 0) eqn:E; [apply N.eqb_eq in E; lia|].
  rewrite (strlcat_scan_spec (N.to_nat size) (bdata b) d size) by (unfold blen in Hd; lia).
  set (k := N.min (strlen (dropN (bdata b) d)) (size - 1)).
  destruct (strlcpy_spec b (d + k) src (size - k)) as (F & L & Hn & P & Z & O); try lia; try assumption.
  replace (size - k - 1) with (size - k - 1) in * by reflexivity.
  repeat split; try assumption. lia.
Qed.

(* ------------------------------------------------------------------------------------------ *)
(* _mi_prim_getenv / _mi_getenv                                                                *)
(* ------------------------------------------------------------------------------------------ *)
(* entry s defines the variable `name` (case-insensitive, followed by '=') *)
Definition env_match (name s : bytes) : bool :=
  (strnicmp name s (strlen name) =? 0)%Z && (hd0 (sdrop s (strlen name)) =? 61).
(* its value *)
Definition env_value (name s : bytes) : bytes := sdrop s (strlen name + 1).

Lemma getenv_loop_spec env : forall i name res size,
  let '(found, r) := getenv_loop env i name (strlen name) res size in
  (found = false /\ r = res /\ (i + N.of_nat (length env) <= 10000 -> forall s, In s env -> env_match name s = false)) \/
  (found = true /\ exists s, In s env /\ env_match name s = true /\ r = strlcpy res 0 (env_value name s) size).
Proof.
  induction env as [|s env IH]; intros i name res size; cbn [getenv_loop].
  - left. repeat split. intros _ s [].
  - destruct (10000 <=? i) eqn:Ei.
    + left. repeat split. apply N.leb_le in Ei. cbn [length]. intros H. lia.
    + fold (env_match name s). destruct (env_match name s) eqn:Em.
      * right. split; [reflexivity|]. exists s. repeat split; [now left|exact Em].
      * specialize (IH (i + 1) name res size).
        destruct (getenv_loop env (i + 1) name (strlen name) res size) as [found r].
        destruct IH as [(F & R & A)|(F & s' & I & M & R)].
        -- left. repeat split; try assumption. cbn [length]. intros H s0 [<-|Hin]; [exact Em|]. apply A; [lia|exact Hin].
        -- right. split; [exact F|]. exists s'. repeat split; [now right|exact M|exact R].
Qed.

Lemma mi_getenv_spec env name res size :
  let '(found, r) := mi_getenv env name res size in
  (found = false /\ r = res) \/
  (found = true /\ 64 <= size /\ exists s, In s env /\ env_match name s = true /\ r = strlcpy res 0 (env_value name s) size).
Proof.
  unfold mi_getenv. destruct (size <? 64) eqn:E; [left; split; reflexivity|]. apply N.ltb_ge in E.
  unfold prim_getenv. destruct (strlen name =? 0); [left; split; reflexivity|].
  pose proof (getenv_loop_spec env 0 name res size) as H.
  destruct (getenv_loop env 0 name (strlen name) res size) as [found r].
  destruct H as [(F & R & _)|(F & s & I & M & R)]; [left; split; assumption|].
  right. repeat split; try assumption. exists s. repeat split; assumption.
Qed.

(* no entry is missed when the environment has at most 10000 entries *)
Lemma mi_getenv_notfound env name res size r :
  64 <= size -> strlen name <> 0 -> N.of_nat (length env) <= 10000 ->
  mi_getenv env name res size = (false, r) -> forall s, In s env -> env_match name s = false.
Proof.
  intros Hs Hn Hl. unfold mi_getenv. apply N.ltb_ge in Hs. rewrite Hs.
  unfold prim_getenv. apply N.eqb_neq in Hn. rewrite Hn.
  pose proof (getenv_loop_spec env 0 name res size) as H.
  destruct (getenv_loop env 0 name (strlen name) res size) as [found r'].
  intros Heq. inversion Heq; subst.
  destruct H as [(F & R & A)|(F & _)]; [apply A; lia|discriminate].
Qed.

Lemma getenv_bounded_lemma env name res size :
  size <= blen res -> fault res = false ->
  let '(found, r) := mi_getenv env name res size in
  fault r = false /\ blen r = blen res /\
  (found = false -> r = res) /\
  (found = true -> 64 <= size /\ exists s, In s env /\ env_match name s = true /\
      let n := N.min (strlen (env_value name s)) (size - 1) in
      n < size /\ (forall i, i < n -> bget r i = nthN (env_value name s) i) /\ bget r n = 0 /\
      (forall j, n < j -> bget r j = bget res j)).
Proof.
  intros Hs Hf. pose proof (mi_getenv_spec env name res size) as H.
  destruct (mi_getenv env name res size) as [found r].
  destruct H as [(F & R)|(F & S64 & s & I & M & R)].
  - subst. split; [exact Hf|]. split; [reflexivity|]. split; [reflexivity|]. intros; discriminate.
  - destruct (strlcpy_spec res 0 (env_value name s) size) as (Ff & L & Hn & P & Z & O); try lia; try assumption.
    rewrite <- R in *. split; [exact Ff|]. split; [exact L|]. split; [intros; congruence|].
    intros _. split; [exact S64|]. exists s. split; [exact I|]. split; [exact M|]. cbn zeta.
    split; [exact Hn|]. split; [|split].
    + intros i Hi. specialize (P i Hi). now rewrite N.add_0_l in P.
    + now rewrite N.add_0_l in Z.
    + intros j Hj. apply O. right. lia.
Qed.

(* ------------------------------------------------------------------------------------------ *)
(* vocabulary of the parsing theorems                                                          *)
(* ------------------------------------------------------------------------------------------ *)
Definition nonul (s : bytes) : bool := forallb (fun c => negb (c =? 0)) s.
Definition isbytes (s : bytes) : bool := forallb (fun c => c <? 256) s.

(* value of a digit string *)
Definition decval (ds : bytes) : Z := fold_left (fun a c => (a * 10 + Z.of_N (c - 48))%Z) ds 0%Z.

(* the upper-cased words (as byte lists) *)
Definition w_1 : bytes := [49].
Definition w_TRUE : bytes := [84; 82; 85; 69].
Definition w_YES : bytes := [89; 69; 83].
Definition w_ON : bytes := [79; 78].
Definition w_0 : bytes := [48].
Definition w_FALSE : bytes := [70; 65; 76; 83; 69].
Definition w_NO : bytes := [78; 79].
Definition w_OFF : bytes := [79; 70; 70].
Definition true_words : list bytes := [w_1; w_TRUE; w_YES; w_ON].
Definition false_words : list bytes := [w_0; w_FALSE; w_NO; w_OFF].

(* the grammar of a number:  [whitespace] [sign] digits [suffix]  *)
Definition is_sign (sg : bytes) : Prop := sg = [] \/ sg = [43] \/ sg = [45].
Definition is_unit (u : bytes) : Prop := u = [] \/ u = [75] \/ u = [77] \/ u = [71] \/ u = [84].   (* K M G T *)
Definition is_tail (t : bytes) : Prop := t = [] \/ t = [66] \/ t = [73; 66].                        (* B IB *)
Definition is_suffix (kib : bool) (suf : bytes) : Prop :=
  suf = [] \/ (kib = true /\ exists u t, suf = u ++ t /\ is_unit u /\ is_tail t).
Definition Grammar (kib : bool) (u : bytes) : Prop :=
  exists ws sg ds suf, u = ws ++ sg ++ ds ++ suf /\ forallb isspace ws = true /\ is_sign sg /\
                       ds <> [] /\ forallb isdigit ds = true /\ is_suffix kib suf.
Definition sign_apply (sg : bytes) (v : Z) : Z := if hd0 sg =? 45 then (- v)%Z else v.

(* ------------------------------------------------------------------------------------------ *)
(* _mi_strnicmp and mi_option_is_word                                                          *)
(* ------------------------------------------------------------------------------------------ *)
Fixpoint takeN (n : N) (l : bytes) : bytes :=
  match l with [] => [] | x :: r => if n =? 0 then [] else x :: takeN (n - 1) r end.

Lemma schar_inj a b : a < 256 -> b < 256 -> schar a = schar b -> a = b.
Proof.
  unfold schar. intros Ha Hb. destruct (a <? 128) eqn:Ea; destruct (b <? 128) eqn:Eb;
  try apply N.ltb_lt in Ea; try apply N.ltb_lt in Eb; try apply N.ltb_ge in Ea; try apply N.ltb_ge in Eb; lia.
Qed.

Lemma strlen_pos_inv s n : strlen s = n -> 0 < n ->
  exists c s', s = c :: s' /\ c <> 0 /\ cstr s = c :: cstr s' /\ strlen s' = n - 1.
Proof.
  intros H Hn. destruct s as [|c s']; [cbn in H; lia|].
  destruct (N.eq_dec c 0) as [->|Hc]; [rewrite strlen_cons_z in H; lia|].
  exists c, s'. repeat split; try assumption.
  - cbn. apply N.eqb_neq in Hc. now rewrite Hc.
  - rewrite strlen_cons_nz in H by exact Hc. lia.
Qed.

Lemma strlen0_cstr s : strlen s = 0 -> cstr s = [].
Proof. unfold strlen. destruct (cstr s); [reflexivity|cbn; lia]. Qed.

Lemma strnicmp_zero_iff w : forall s n,
  isbytes w = true -> isbytes s = true -> strlen s = n -> n <= strlen w ->
  (strnicmp w s n = 0%Z <-> map toupper (takeN n w) = map toupper (cstr s)).
Proof.
  induction w as [|cw w' IH]; intros s n Bw Bs Hs Hn.
  - rewrite strlen_nil in Hn. assert (Hn0 : n = 0) by lia. rewrite Hn0 in *.
    rewrite (strlen0_cstr s Hs). cbn. destruct s; cbn; tauto.
  - destruct (N.eq_dec n 0) as [->|Hn0].
    + rewrite (strlen0_cstr s Hs). cbn. tauto.
    + destruct (strlen_pos_inv s n Hs) as (cs & s' & -> & Hcs & Hc & Hs'); [lia|].
      assert (Hcw : cw <> 0). { intros ->. rewrite strlen_cons_z in Hn. lia. }
      rewrite strlen_cons_nz in Hn by exact Hcw.
      cbn [strnicmp takeN hd0 tl0]. apply N.eqb_neq in Hn0. rewrite Hn0.
      pose proof Hcw as Hcw'. apply N.eqb_neq in Hcw'. rewrite Hcw'.
      pose proof Hcs as Hcs'. apply N.eqb_neq in Hcs'. rewrite Hcs'. cbn [orb].
      rewrite Hc. cbn [map].
      cbn [isbytes forallb] in Bw, Bs. apply andb_prop in Bw as [Bw1 Bw2]. apply andb_prop in Bs as [Bs1 Bs2].
      destruct (toupper cw =? toupper cs) eqn:Et.
      * apply N.eqb_eq in Et. rewrite (IH s' (n - 1) Bw2 Bs2 Hs') by lia. rewrite Et.
        split; [intros ->; reflexivity|intros H; now inversion H].
      * apply N.eqb_neq in Et. split.
        -- intros H. exfalso. apply Et. f_equal. apply schar_inj; [now apply N.ltb_lt|now apply N.ltb_lt|lia].
        -- intros H. inversion H. contradiction.
Qed.

(* is_word_from with the comparison abstracted: evaluates completely on the constant word lists *)
Fixpoint iwf (P : bytes -> bool) (w : bytes) (at_start : bool) : bool :=
  match w with
  | [] => false
  | c :: r => if c =? 0 then false else if at_start && P w then true else iwf P r (c =? 59)
  end.
Lemma is_word_from_iwf s len w : forall a,
  is_word_from s len w a = iwf (fun w => (wordlen w =? len) && (strnicmp w s len =? 0)%Z) w a.
Proof.
  induction w as [|c r IH]; intros a; cbn [is_word_from iwf]; [reflexivity|].
  destruct (c =? 0); [reflexivity|]. rewrite andb_assoc. destruct (_ && _ && _); [reflexivity|apply IH].
Qed.

Definition W1 : bytes := words_true.
Definition W2 : bytes := Eval vm_compute in dropN words_true 2.
Definition W3 : bytes := Eval vm_compute in dropN words_true 7.
Definition W4 : bytes := Eval vm_compute in dropN words_true 11.
Definition V1 : bytes := words_false.
Definition V2 : bytes := Eval vm_compute in dropN words_false 2.
Definition V3 : bytes := Eval vm_compute in dropN words_false 8.
Definition V4 : bytes := Eval vm_compute in dropN words_false 11.

Lemma iwf_true P : iwf P words_true true = P W1 || P W2 || P W3 || P W4.
Proof. vm_compute. destruct (P _); [reflexivity|]. destruct (P _); [reflexivity|]. destruct (P _); [reflexivity|]. destruct (P _); reflexivity. Qed.
Lemma iwf_false P : iwf P words_false true = P V1 || P V2 || P V3 || P V4.
Proof. vm_compute. destruct (P _); [reflexivity|]. destruct (P _); [reflexivity|]. destruct (P _); [reflexivity|]. destruct (P _); reflexivity. Qed.

Lemma map_toupper_len a b : map toupper a = map toupper b -> lenN a = lenN b.
Proof. intros H. rewrite !lenN_length. f_equal. rewrite <- (map_length toupper a), <- (map_length toupper b). now rewrite H. Qed.

(* one word start: W = the word list from a word start on, wd = that word *)
Lemma word_check W wd s :
  isbytes W = true -> isbytes s = true -> wordlen W = lenN wd -> lenN wd <= strlen W ->
  takeN (lenN wd) W = wd -> map toupper wd = wd ->
  ((wordlen W =? strlen s) && (strnicmp W s (strlen s) =? 0)%Z = true <-> map toupper (cstr s) = wd).
Proof.
  intros BW Bs Hwl Hle Htk Hup. split.
  - intros H. apply andb_prop in H as [H1 H2]. apply N.eqb_eq in H1. apply Z.eqb_eq in H2.
    rewrite Hwl in H1. rewrite <- H1 in H2.
    apply (strnicmp_zero_iff W s (lenN wd) BW Bs) in H2; [|now symmetry|exact Hle].
    rewrite Htk, Hup in H2. now symmetry.
  - intros H. assert (Hl : strlen s = lenN wd).
    { unfold strlen. apply map_toupper_len. now rewrite Hup. }
    rewrite Hwl, Hl, N.eqb_refl. cbn [andb]. apply Z.eqb_eq.
    apply (strnicmp_zero_iff W s (lenN wd) BW Bs Hl Hle). now rewrite Htk, Hup.
Qed.

Lemma is_word_true_iff s : isbytes s = true ->
  (is_word s words_true = true <-> In (map toupper (cstr s)) true_words).
Proof.
  intros Bs. unfold is_word. destruct (strlen s =? 0) eqn:E0.
  - apply N.eqb_eq in E0. rewrite (strlen0_cstr s E0). cbn. split; [discriminate|].
    intros [H|[H|[H|[H|[]]]]]; discriminate.
  - rewrite is_word_from_iwf, iwf_true. rewrite !orb_true_iff.
    rewrite (word_check W1 w_1 s), (word_check W2 w_TRUE s), (word_check W3 w_YES s), (word_check W4 w_ON s);
      try exact Bs; try reflexivity; try (vm_compute; discriminate).
    cbn [true_words In]. intuition congruence.
Qed.

Lemma is_word_false_iff s : isbytes s = true ->
  (is_word s words_false = true <-> In (map toupper (cstr s)) false_words).
Proof.
  intros Bs. unfold is_word. destruct (strlen s =? 0) eqn:E0.
  - apply N.eqb_eq in E0. rewrite (strlen0_cstr s E0). cbn. split; [discriminate|].
    intros [H|[H|[H|[H|[]]]]]; discriminate.
  - rewrite is_word_from_iwf, iwf_false. rewrite !orb_true_iff.
    rewrite (word_check V1 w_0 s), (word_check V2 w_FALSE s), (word_check V3 w_NO s), (word_check V4 w_OFF s);
      try exact Bs; try reflexivity; try (vm_compute; discriminate).
    cbn [false_words In]. intuition congruence.
Qed.

(* ------------------------------------------------------------------------------------------ *)
(* strtol: closed form                                                                         *)
(* ------------------------------------------------------------------------------------------ *)
Fixpoint drop_while (p : N -> bool) (s : bytes) : bytes :=
  match s with c :: r => if p c then drop_while p r else s | [] => [] end.
Fixpoint take_while (p : N -> bool) (s : bytes) : bytes :=
  match s with c :: r => if p c then c :: take_while p r else [] | [] => [] end.

Lemma take_drop_while p s : s = take_while p s ++ drop_while p s.
Proof. induction s as [|c r IH]; cbn; [reflexivity|]. destruct (p c); cbn; [now rewrite <- IH|reflexivity]. Qed.
Lemma take_while_all p s : forallb p (take_while p s) = true.
Proof. induction s as [|c r IH]; cbn; [reflexivity|]. destruct (p c) eqn:E; cbn; [now rewrite E|reflexivity]. Qed.
Lemma drop_while_hd p s : p 0 = false -> p (hd0 (drop_while p s)) = false.
Proof. intros H0. induction s as [|c r IH]; cbn; [exact H0|]. destruct (p c) eqn:E; [exact IH|cbn; exact E]. Qed.
Lemma drop_while_app p a b : forallb p a = true -> p (hd0 b) = false -> drop_while p (a ++ b) = b.
Proof.
  intros Ha Hb. induction a as [|c r IH]; cbn in *.
  - destruct b as [|x y]; cbn in *; [reflexivity|now rewrite Hb].
  - apply andb_prop in Ha as [H1 H2]. rewrite H1. now apply IH.
Qed.
Lemma take_while_app p a b : forallb p a = true -> p (hd0 b) = false -> take_while p (a ++ b) = a.
Proof.
  intros Ha Hb. induction a as [|c r IH]; cbn in *.
  - destruct b as [|x y]; cbn in *; [reflexivity|now rewrite Hb].
  - apply andb_prop in Ha as [H1 H2]. rewrite H1. f_equal. now apply IH.
Qed.

Lemma skip_ws_eq s : skip_ws s = drop_while isspace s.
Proof. induction s as [|c r IH]; cbn; [reflexivity|]. destruct (isspace c); [exact IH|reflexivity]. Qed.

Lemma digits_val_eq s : forall acc,
  digits_val acc s = (fold_left (fun a c => (a * 10 + Z.of_N (c - 48))%Z) (take_while isdigit s) acc, drop_while isdigit s).
Proof. induction s as [|c r IH]; intros acc; cbn; [reflexivity|]. destruct (isdigit c); cbn; [apply IH|reflexivity]. Qed.

Definition strip_sign (s : bytes) : bytes := if (hd0 s =? 45) || (hd0 s =? 43) then tl0 s else s.

Lemma strtol10_eq u :
  strtol10 u =
  let s1 := drop_while isspace u in
  let s2 := strip_sign s1 in
  if isdigit (hd0 s2)
  then (clamp_long (if hd0 s1 =? 45 then (- decval (take_while isdigit s2))%Z else decval (take_while isdigit s2)),
        drop_while isdigit s2, true)
  else (0%Z, u, false).
Proof.
  unfold strtol10, strip_sign. rewrite skip_ws_eq. cbn zeta.
  destruct (drop_while isspace u) as [|c r]; [reflexivity|]. cbn [hd0 tl0].
  destruct (c =? 45) eqn:E1; cbn [orb].
  - destruct (isdigit (hd0 r)); [|reflexivity]. rewrite digits_val_eq. reflexivity.
  - destruct (c =? 43) eqn:E2.
    + destruct (isdigit (hd0 r)); [|reflexivity]. rewrite digits_val_eq. reflexivity.
    + cbn [hd0]. destruct (isdigit c); [|reflexivity]. rewrite digits_val_eq. reflexivity.
Qed.

(* ------------------------------------------------------------------------------------------ *)
(* the size suffix                                                                             *)
(* ------------------------------------------------------------------------------------------ *)
Definition is_unit_char (c : N) : bool := (c =? 75) || (c =? 77) || (c =? 71) || (c =? 84).
Definition strip_unit (e : bytes) : bytes := if is_unit_char (hd0 e) then tl0 e else e.
Definition strip_tail (e : bytes) : bytes :=
  if (hd0 e =? 73) && (hd0 (tl0 e) =? 66) then tl0 (tl0 e) else if hd0 e =? 66 then tl0 e else e.

(* the multiplier (in KiB) selected by the unit character; 0 = no unit: the value is in bytes *)
Definition unit_mult (c : N) : N :=
  if c =? 75 then 1 else if c =? 77 then MI_KiB_ else if c =? 71 then MI_MiB_ else if c =? 84 then MI_GiB_ else 0.

(* the documented value of a size option in KiB, saturated *)
Definition kib_value (v : Z) (unitc : N) : Z :=
  let size := Z.to_N (Z.max 0 v) in
  let raw := if unit_mult unitc =? 0 then (size + 1023) / 1024 else size * unit_mult unitc in
  Z.of_N (if MI_MAX_ALLOC_SIZE <? raw then MI_MAX_ALLOC_SIZE / 1024 else raw).

Definition sat_kib (raw : N) : N := if MI_MAX_ALLOC_SIZE <? raw then MI_MAX_ALLOC_SIZE / MI_KiB_ else raw.

Lemma sat_final_small raw : raw < W64 ->
  (let s := if false || (MI_MAX_ALLOC_SIZE <? raw) then MI_MAX_ALLOC_SIZE / MI_KiB_ else raw in
   if (LONG_MAX_ <? Z.of_N s)%Z then LONG_MAX_ else Z.of_N s) = Z.of_N (sat_kib raw).
Proof.
  intros Hr. cbn zeta. cbn [orb]. unfold sat_kib.
  destruct (MI_MAX_ALLOC_SIZE <? raw) eqn:Em.
  - vm_compute. reflexivity.
  - apply N.ltb_ge in Em. destruct (LONG_MAX_ <? Z.of_N raw)%Z eqn:El; [|reflexivity].
    apply Z.ltb_lt in El. exfalso. revert Em El. vm_compute (MI_MAX_ALLOC_SIZE). vm_compute (LONG_MAX_). lia.
Qed.

Lemma sat_final_mul size m : 0 < m ->
  (let '(o, w) := mul_overflow size m in
   let s := if o || (MI_MAX_ALLOC_SIZE <? w) then MI_MAX_ALLOC_SIZE / MI_KiB_ else w in
   if (LONG_MAX_ <? Z.of_N s)%Z then LONG_MAX_ else Z.of_N s) = Z.of_N (sat_kib (size * m)).
Proof.
  intros Hm. unfold mul_overflow. rewrite wrap_mod.
  destruct (W64 <=? size * m) eqn:Eo.
  - apply N.leb_le in Eo. cbn [orb]. unfold sat_kib.
    replace (MI_MAX_ALLOC_SIZE <? size * m) with true.
    + vm_compute. reflexivity.
    + symmetry. apply N.ltb_lt. revert Eo. rewrite W64_val. vm_compute (MI_MAX_ALLOC_SIZE). lia.
  - apply N.leb_gt in Eo. rewrite N.mod_small by exact Eo. apply sat_final_small. exact Eo.
Qed.

Lemma parse_size_suffix_eq v e : (LONG_MIN_ <= v <= LONG_MAX_)%Z ->
  parse_size_suffix v e = (kib_value v (hd0 e), strip_tail (strip_unit e)).
Proof.
  intros Hv. unfold parse_size_suffix, kib_value, strip_unit, unit_mult, is_unit_char.
  assert (Hsz : (if (v <? 0)%Z then 0 else Z.to_N v) = Z.to_N (Z.max 0 v)).
  { destruct (v <? 0)%Z eqn:E; [apply Z.ltb_lt in E|apply Z.ltb_ge in E]; [rewrite Z.max_l by lia; reflexivity|rewrite Z.max_r by lia; reflexivity]. }
  rewrite Hsz. set (size := Z.to_N (Z.max 0 v)).
  assert (Hb : size < 2 ^ 63).
  { unfold size. revert Hv. vm_compute (LONG_MAX_). vm_compute (LONG_MIN_). lia. }
  fold (sat_kib (if (if hd0 e =? 75 then 1 else if hd0 e =? 77 then MI_KiB_ else if hd0 e =? 71 then MI_MiB_ else if hd0 e =? 84 then MI_GiB_ else 0) =? 0
                 then (size + 1023) / 1024
                 else size * (if hd0 e =? 75 then 1 else if hd0 e =? 77 then MI_KiB_ else if hd0 e =? 71 then MI_MiB_ else if hd0 e =? 84 then MI_GiB_ else 0))).
  destruct (hd0 e =? 75) eqn:EK; cbn [orb].
  { cbn match. f_equal. change (1 =? 0) with false. cbn match. rewrite N.mul_1_r.
    apply sat_final_small. rewrite W64_val. lia. }
  destruct (hd0 e =? 77) eqn:EM; cbn [orb].
  { pose proof (sat_final_mul size MI_KiB_) as H. destruct (mul_overflow size MI_KiB_) as [o w].
    cbn match. f_equal. change (MI_KiB_ =? 0) with false. cbn match. apply H. reflexivity. }
  destruct (hd0 e =? 71) eqn:EG; cbn [orb].
  { pose proof (sat_final_mul size MI_MiB_) as H. destruct (mul_overflow size MI_MiB_) as [o w].
    cbn match. f_equal. change (MI_MiB_ =? 0) with false. cbn match. apply H. reflexivity. }
  destruct (hd0 e =? 84) eqn:ET; cbn [orb].
  { pose proof (sat_final_mul size MI_GiB_) as H. destruct (mul_overflow size MI_GiB_) as [o w].
    cbn match. f_equal. change (MI_GiB_ =? 0) with false. cbn match. apply H. reflexivity. }
  cbn match. f_equal. change (0 =? 0) with true. cbn match.
  assert (Hw : wsub (wadd size MI_KiB_) 1 / MI_KiB_ = (size + 1023) / 1024).
  { change MI_KiB_ with 1024. unfold wadd, wsub. rewrite wrap_mod, W64_val. rewrite N.mod_small by lia.
    replace (1 <=? size + 1024) with true by (symmetry; apply N.leb_le; lia).
    f_equal. lia. }
  rewrite Hw. apply sat_final_small.
  assert ((size + 1023) / 1024 <= size + 1023) by (apply N.div_le_upper_bound; lia).
  rewrite W64_val. lia.
Qed.

Lemma clamp_long_range v : (LONG_MIN_ <= clamp_long v <= LONG_MAX_)%Z.
Proof.
  unfold clamp_long. change LONG_MAX_ with 9223372036854775807%Z. change LONG_MIN_ with (-9223372036854775808)%Z.
  destruct (9223372036854775807 <? v)%Z eqn:E1; [lia|]. apply Z.ltb_ge in E1.
  destruct (v <? -9223372036854775808)%Z eqn:E2; [lia|]. apply Z.ltb_ge in E2. lia.
Qed.

(* ------------------------------------------------------------------------------------------ *)
(* the decision of mi_option_init on a value                                                   *)
(* ------------------------------------------------------------------------------------------ *)
Definition isnil (s : bytes) : bool := match s with [] => true | _ => false end.

Lemma nonul_hd0 e : nonul e = true -> (hd0 e =? 0) = isnil e.
Proof. destruct e as [|c r]; cbn; [reflexivity|]. intros H. apply andb_prop in H as [H _]. now destruct (c =? 0). Qed.
Lemma nonul_tl0 e : nonul e = true -> nonul (tl0 e) = true.
Proof. destruct e as [|c r]; cbn; [reflexivity|]. intros H. now apply andb_prop in H as [_ H]. Qed.
Lemma nonul_drop_while p s : nonul s = true -> nonul (drop_while p s) = true.
Proof. induction s as [|c r IH]; cbn; [reflexivity|]. intros H. destruct (p c); [apply IH; now apply andb_prop in H as [_ H]|exact H]. Qed.
Lemma nonul_strip_sign s : nonul s = true -> nonul (strip_sign s) = true.
Proof. intros H. unfold strip_sign. destruct (_ || _); [now apply nonul_tl0|exact H]. Qed.
Lemma nonul_strip_unit s : nonul s = true -> nonul (strip_unit s) = true.
Proof. intros H. unfold strip_unit. destruct (is_unit_char _); [now apply nonul_tl0|exact H]. Qed.
Lemma nonul_strip_tail s : nonul s = true -> nonul (strip_tail s) = true.
Proof. intros H. unfold strip_tail. destruct (_ && _); [now apply nonul_tl0, nonul_tl0|]. destruct (_ =? 66); [now apply nonul_tl0|exact H]. Qed.
Lemma cstr_nonul s : nonul s = true -> cstr s = s.
Proof. induction s as [|c r IH]; cbn; [reflexivity|]. intros H. apply andb_prop in H as [H1 H2]. destruct (c =? 0); [discriminate|]. now rewrite IH. Qed.

Definition scan_value (s1 s2 : bytes) : Z :=
  clamp_long (if hd0 s1 =? 45 then (- decval (take_while isdigit s2))%Z else decval (take_while isdigit s2)).

Lemma parse_value_num kib u :
  hd0 u <> 0 -> is_word u words_true = false -> is_word u words_false = false ->
  parse_value kib u =
  let s1 := drop_while isspace u in
  let s2 := strip_sign s1 in
  let e := drop_while isdigit s2 in
  if isdigit (hd0 s2) then
    if kib then (if hd0 (strip_tail (strip_unit e)) =? 0 then PNum (kib_value (scan_value s1 s2) (hd0 e)) else PInvalid)
    else (if hd0 e =? 0 then PNum (scan_value s1 s2) else PInvalid)
  else PInvalid.
Proof.
  intros H0 Ht Hf. unfold parse_value. apply N.eqb_neq in H0. rewrite H0, Ht, Hf. cbn [orb].
  rewrite strtol10_eq. cbn zeta. fold (scan_value (drop_while isspace u) (strip_sign (drop_while isspace u))).
  destruct (isdigit (hd0 (strip_sign (drop_while isspace u)))).
  - destruct kib; cbn [andb].
    + rewrite parse_size_suffix_eq by apply clamp_long_range. reflexivity.
    + reflexivity.
  - cbn [andb]. rewrite H0. reflexivity.
Qed.

(* boolean form of the grammar and of "malformed" *)
Definition suffix_b (kib : bool) (e : bytes) : bool := if kib then isnil (strip_tail (strip_unit e)) else isnil e.
Definition grammar_b (kib : bool) (u : bytes) : bool :=
  let s2 := strip_sign (drop_while isspace u) in
  isdigit (hd0 s2) && suffix_b kib (drop_while isdigit s2).
Fixpoint bytes_eqb (a b : bytes) : bool :=
  match a, b with
  | [], [] => true
  | x :: a', y :: b' => (x =? y) && bytes_eqb a' b'
  | _, _ => false
  end.
Definition all_words : list bytes := true_words ++ false_words.
Definition word_b (u : bytes) : bool := existsb (bytes_eqb (map toupper u)) all_words.
(* malformed: not empty, not one of the eight words (in any letter case), not a number of the grammar *)
Definition malformed_b (kib : bool) (u : bytes) : bool :=
  negb (isnil u) && negb (word_b u) && negb (grammar_b kib u).

Lemma bytes_eqb_eq a : forall b, bytes_eqb a b = true <-> a = b.
Proof.
  induction a as [|x a' IH]; intros [|y b']; cbn; try (split; [discriminate|discriminate]); [tauto|].
  rewrite andb_true_iff, N.eqb_eq, IH. split; [intros [-> ->]; reflexivity|intros H; inversion H; auto].
Qed.
Lemma word_b_iff u : word_b u = true <-> In (map toupper u) all_words.
Proof.
  unfold word_b. rewrite existsb_exists. split.
  - intros (w & Hin & He). apply bytes_eqb_eq in He. now subst.
  - intros H. exists (map toupper u). split; [exact H|]. now apply bytes_eqb_eq.
Qed.

Lemma words_disjoint x : In x true_words -> In x false_words -> False.
Proof.
  cbn. intros [<-|[<-|[<-|[<-|[]]]]] [H|[H|[H|[H|[]]]]]; discriminate.
Qed.

Theorem parse_invalid_iff kib u : nonul u = true -> isbytes u = true ->
  (parse_value kib u = PInvalid <-> malformed_b kib u = true).
Proof.
  intros Hn Hb. unfold malformed_b.
  destruct u as [|c0 r0] eqn:Eu; [cbn; split; discriminate|]. rewrite <- Eu in *. replace (isnil u) with false by (now subst u).
  cbn [negb andb].
  assert (H0 : hd0 u <> 0). { pose proof (nonul_hd0 u Hn) as H. subst u. cbn in *. now apply N.eqb_neq. }
  pose proof (is_word_true_iff u Hb) as Ht. pose proof (is_word_false_iff u Hb) as Hf.
  rewrite (cstr_nonul u Hn) in Ht, Hf.
  destruct (is_word u words_true) eqn:Et.
  - replace (word_b u) with true.
    + unfold parse_value. rewrite Et, orb_true_r. cbn. split; discriminate.
    + symmetry. apply word_b_iff. unfold all_words. apply in_or_app. left. now apply Ht.
  - destruct (is_word u words_false) eqn:Ef.
    + replace (word_b u) with true.
      * unfold parse_value. rewrite Et, Ef. apply N.eqb_neq in H0. rewrite H0. cbn. split; discriminate.
      * symmetry. apply word_b_iff. unfold all_words. apply in_or_app. right. now apply Hf.
    + replace (word_b u) with false.
      2:{ symmetry. destruct (word_b u) eqn:Ew; [|reflexivity]. apply word_b_iff in Ew. unfold all_words in Ew.
          apply in_app_or in Ew as [Ew|Ew]; [apply Ht in Ew|apply Hf in Ew]; discriminate. }
      cbn [negb andb]. rewrite (parse_value_num kib u H0 Et Ef). cbn zeta. unfold grammar_b, suffix_b.
      set (s2 := strip_sign (drop_while isspace u)).
      assert (Hn2 : nonul s2 = true) by (apply nonul_strip_sign, nonul_drop_while; exact Hn).
      destruct (isdigit (hd0 s2)); cbn [andb negb]; [|tauto].
      destruct kib.
      * rewrite (nonul_hd0 _ (nonul_strip_tail _ (nonul_strip_unit _ (nonul_drop_while isdigit s2 Hn2)))).
        destruct (isnil _); cbn; split; congruence.
      * rewrite (nonul_hd0 _ (nonul_drop_while isdigit s2 Hn2)).
        destruct (isnil _); cbn; split; congruence.
Qed.

(* the boolean grammar is the declarative one *)
Lemma digit_not_space c : isdigit c = true -> isspace c = false.
Proof.
  unfold isdigit, isspace. intros H. apply andb_prop in H as [H1 H2]. apply N.leb_le in H1, H2.
  replace (c =? 32) with false by (symmetry; apply N.eqb_neq; lia).
  replace (c <=? 13) with false by (symmetry; apply N.leb_gt; lia). now rewrite andb_false_r.
Qed.
Lemma digit_props c : isdigit c = true -> (c =? 45) = false /\ (c =? 43) = false /\ c <> 0.
Proof.
  unfold isdigit. intros H. apply andb_prop in H as [H1 H2]. apply N.leb_le in H1, H2.
  repeat split; try (apply N.eqb_neq); lia.
Qed.

Lemma hd0_app_ne a b : a <> [] -> hd0 (a ++ b) = hd0 a.
Proof. destruct a; [congruence|reflexivity]. Qed.
Lemma forallb_hd p a : a <> [] -> forallb p a = true -> p (hd0 a) = true.
Proof. destruct a; [congruence|]. cbn. intros _ H. now apply andb_prop in H as [H _]. Qed.

Lemma suffix_cases kib suf : is_suffix kib suf ->
  isdigit (hd0 suf) = false /\ suffix_b kib suf = true.
Proof.
  intros [->|(-> & un & tl & -> & Hu & Ht)]; [destruct kib; split; reflexivity|].
  destruct Hu as [->|[->|[->|[->| ->]]]]; destruct Ht as [->|[->| ->]]; split; reflexivity.
Qed.

Lemma grammar_scan ws sg ds suf :
  forallb isspace ws = true -> is_sign sg -> ds <> [] -> forallb isdigit ds = true -> isdigit (hd0 suf) = false ->
  let u := ws ++ sg ++ ds ++ suf in
  drop_while isspace u = sg ++ ds ++ suf /\
  strip_sign (drop_while isspace u) = ds ++ suf /\
  hd0 (drop_while isspace u) = hd0 (sg ++ ds) /\
  take_while isdigit (ds ++ suf) = ds /\ drop_while isdigit (ds ++ suf) = suf /\
  isdigit (hd0 (ds ++ suf)) = true.
Proof.
  intros Hws Hsg Hne Hds Hsuf. cbn zeta.
  pose proof (forallb_hd isdigit ds Hne Hds) as Hd0.
  destruct (digit_props _ Hd0) as (D45 & D43 & _).
  assert (Hsp : isspace (hd0 (sg ++ ds ++ suf)) = false).
  { destruct Hsg as [->|[->| ->]]; [|reflexivity|reflexivity]. cbn [app]. rewrite hd0_app_ne by exact Hne. now apply digit_not_space. }
  rewrite (drop_while_app isspace ws _ Hws Hsp).
  split; [reflexivity|]. split; [|split; [|split; [|split]]].
  - unfold strip_sign. destruct Hsg as [->|[->| ->]]; [|reflexivity|reflexivity].
    cbn [app]. rewrite hd0_app_ne by exact Hne. now rewrite D45, D43.
  - destruct Hsg as [->|[->| ->]]; [|reflexivity|reflexivity]. cbn [app]. now rewrite !hd0_app_ne by exact Hne.
  - now apply take_while_app.
  - now apply drop_while_app.
  - now rewrite hd0_app_ne by exact Hne.
Qed.

Lemma grammar_b_iff kib u : grammar_b kib u = true <-> Grammar kib u.
Proof.
  split.
  - unfold grammar_b. cbn zeta. intros H. apply andb_prop in H as [Hd Hs].
    set (s1 := drop_while isspace u) in *. set (s2 := strip_sign s1) in *.
    exists (take_while isspace u),
           (if (hd0 s1 =? 45) || (hd0 s1 =? 43) then [hd0 s1] else []),
           (take_while isdigit s2), (drop_while isdigit s2).
    split; [|split; [|split; [|split; [|split]]]].
    + rewrite <- (take_drop_while isdigit s2). unfold s2, strip_sign.
      rewrite (take_drop_while isspace u) at 1. fold s1. f_equal.
      destruct s1 as [|c r]; [reflexivity|]. cbn [hd0 tl0]. destruct (_ || _); reflexivity.
    + apply take_while_all.
    + destruct (hd0 s1 =? 45) eqn:E1; [apply N.eqb_eq in E1; rewrite E1; right; right; reflexivity|].
      destruct (hd0 s1 =? 43) eqn:E2; [apply N.eqb_eq in E2; rewrite E2; right; left; reflexivity|]. now left.
    + destruct s2 as [|c r]; [discriminate|]. cbn [hd0] in Hd. cbn. rewrite Hd. discriminate.
    + apply take_while_all.
    + unfold suffix_b in Hs. destruct kib.
      * right. split; [reflexivity|]. set (e := drop_while isdigit s2) in *.
        unfold strip_unit, is_unit_char in Hs.
        assert (Ht : forall e1, isnil (strip_tail e1) = true -> is_tail e1).
        { intros e1. unfold strip_tail. destruct e1 as [|a [|b r]]; cbn; [now left|..].
          - destruct (a =? 66) eqn:E; [apply N.eqb_eq in E; subst; intros _; right; left; reflexivity|].
            rewrite andb_false_r. discriminate.
          - destruct ((a =? 73) && (b =? 66)) eqn:E.
            + apply andb_prop in E as [Ea Eb]. apply N.eqb_eq in Ea, Eb. subst. destruct r; [|discriminate]. intros _. right; right; reflexivity.
            + destruct (a =? 66); discriminate. }
        destruct e as [|c r]; [exists [], []; repeat split; now left|]. cbn [hd0 tl0] in Hs.
        destruct (c =? 75) eqn:E1; [apply N.eqb_eq in E1; subst; exists [75], r; cbn; repeat split; [right; left; reflexivity|now apply Ht]|].
        destruct (c =? 77) eqn:E2; [apply N.eqb_eq in E2; subst; exists [77], r; cbn; repeat split; [right; right; left; reflexivity|now apply Ht]|].
        destruct (c =? 71) eqn:E3; [apply N.eqb_eq in E3; subst; exists [71], r; cbn; repeat split; [right; right; right; left; reflexivity|now apply Ht]|].
        destruct (c =? 84) eqn:E4; [apply N.eqb_eq in E4; subst; exists [84], r; cbn; repeat split; [right; right; right; right; reflexivity|now apply Ht]|].
        cbn [orb] in Hs. exists [], (c :: r). repeat split; [now left|now apply Ht].
      * left. destruct (drop_while isdigit s2); [reflexivity|discriminate].
  - intros (ws & sg & ds & suf & -> & Hws & Hsg & Hne & Hds & Hsuf).
    destruct (suffix_cases kib suf Hsuf) as [Hd Hsb].
    destruct (grammar_scan ws sg ds suf Hws Hsg Hne Hds Hd) as (E1 & E2 & _ & _ & E4 & E5).
    unfold grammar_b. cbn zeta. rewrite E2, E5, E4, Hsb. reflexivity.
Qed.

(* the documented values *)
Lemma numeric_not_word u : isbytes u = true -> nonul u = true ->
  (isdigit (hd0 u) || isspace (hd0 u) || (hd0 u =? 43) || (hd0 u =? 45)) = true ->
  u <> w_1 -> u <> w_0 ->
  is_word u words_true = false /\ is_word u words_false = false.
Proof.
  intros Hb Hn Hc H1 H0.
  assert (Hup : toupper (hd0 u) = hd0 u).
  { unfold toupper. destruct ((97 <=? hd0 u) && (hd0 u <=? 122)) eqn:E; [|reflexivity]. exfalso.
    apply andb_prop in E as [Ea Eb]. apply N.leb_le in Ea, Eb.
    unfold isdigit, isspace in Hc. rewrite !orb_true_iff, !andb_true_iff, !N.eqb_eq, !N.leb_le in Hc. lia. }
  assert (Hnl : forall w, map toupper u = w -> hd0 w = hd0 u).
  { intros w <-. destruct u; [reflexivity|]. cbn in *. exact Hup. }
  assert (Hlet : forall w, In w [w_TRUE; w_YES; w_ON; w_FALSE; w_NO; w_OFF] -> map toupper u <> w).
  { intros w Hin Heq. apply Hnl in Heq. rewrite <- Heq in Hc.
    cbn in Hin. destruct Hin as [<-|[<-|[<-|[<-|[<-|[<-|[]]]]]]]; discriminate. }
  assert (Hone : forall d, map toupper u = [d] -> u = [d]).
  { intros d Heq. destruct u as [|c [|? ?]]; try discriminate. cbn in Heq, Hup. congruence. }
  pose proof (is_word_true_iff u Hb) as Ht. pose proof (is_word_false_iff u Hb) as Hf.
  rewrite (cstr_nonul u Hn) in Ht, Hf. split.
  - destruct (is_word u words_true); [|reflexivity]. exfalso.
    destruct Ht as [Ht _]. specialize (Ht eq_refl). cbn in Ht.
    destruct Ht as [E|[E|[E|[E|[]]]]]; symmetry in E;
      [apply H1; now apply Hone|apply (Hlet w_TRUE)|apply (Hlet w_YES)|apply (Hlet w_ON)]; cbn; auto 10.
  - destruct (is_word u words_false); [|reflexivity]. exfalso.
    destruct Hf as [Hf _]. specialize (Hf eq_refl). cbn in Hf.
    destruct Hf as [E|[E|[E|[E|[]]]]]; symmetry in E;
      [apply H0; now apply Hone|apply (Hlet w_FALSE)|apply (Hlet w_NO)|apply (Hlet w_OFF)]; cbn; auto 10.
Qed.

Lemma grammar_first_char ws sg ds suf :
  forallb isspace ws = true -> is_sign sg -> ds <> [] -> forallb isdigit ds = true ->
  let c := hd0 (ws ++ sg ++ ds ++ suf) in
  (isdigit c || isspace c || (c =? 43) || (c =? 45)) = true /\ c <> 0.
Proof.
  intros Hws Hsg Hne Hds. cbn zeta.
  pose proof (forallb_hd isdigit ds Hne Hds) as Hd0.
  destruct ws as [|w ws'].
  - cbn [app]. destruct Hsg as [->|[->| ->]]; [|split; [reflexivity|discriminate]|split; [reflexivity|discriminate]].
    cbn [app]. rewrite hd0_app_ne by exact Hne. rewrite Hd0. split; [reflexivity|]. now apply digit_props.
  - cbn in *. apply andb_prop in Hws as [Hw _]. rewrite Hw, orb_true_r. split; [reflexivity|].
    intros ->. discriminate.
Qed.

Theorem parse_number_value kib ws sg ds suf :
  forallb isspace ws = true -> is_sign sg -> ds <> [] -> forallb isdigit ds = true -> is_suffix kib suf ->
  let u := ws ++ sg ++ ds ++ suf in
  isbytes u = true -> nonul u = true -> u <> w_1 -> u <> w_0 ->
  parse_value kib u =
    PNum (if kib then kib_value (clamp_long (sign_apply sg (decval ds))) (hd0 suf)
          else clamp_long (sign_apply sg (decval ds))).
Proof.
  intros Hws Hsg Hne Hds Hsuf u Hb Hn H1 H0.
  destruct (grammar_first_char ws sg ds suf Hws Hsg Hne Hds) as [Hc Hc0]. fold u in Hc, Hc0.
  destruct (numeric_not_word u Hb Hn Hc H1 H0) as [Et Ef].
  rewrite (parse_value_num kib u Hc0 Et Ef). cbn zeta.
  destruct (suffix_cases kib suf Hsuf) as [Hd Hsb].
  destruct (grammar_scan ws sg ds suf Hws Hsg Hne Hds Hd) as (E1 & E2 & E3 & E4 & E5 & E6). fold u in E1, E2, E3.
  rewrite E2, E6, E5. unfold scan_value. rewrite E2, E3, E4.
  assert (Hsv : (if hd0 (sg ++ ds) =? 45 then (- decval ds)%Z else decval ds) = sign_apply sg (decval ds)).
  { unfold sign_apply. destruct Hsg as [->|[->| ->]]; [|reflexivity|reflexivity].
    cbn [app hd0]. pose proof (forallb_hd isdigit ds Hne Hds) as Hd0. destruct (digit_props _ Hd0) as (D45 & _). now rewrite D45. }
  rewrite Hsv. unfold suffix_b in Hsb. destruct kib.
  - rewrite (nonul_hd0 _ (nonul_strip_tail _ (nonul_strip_unit suf _))), Hsb; [reflexivity|].
    unfold u in Hn. unfold nonul in *. rewrite !forallb_app in Hn. now repeat (apply andb_prop in Hn as [_ Hn]).
  - destruct suf; [reflexivity|discriminate].
Qed.

Lemma forallb_weaken (p q : N -> bool) l : (forall c, p c = true -> q c = true) -> forallb p l = true -> forallb q l = true.
Proof. intros H. induction l as [|c r IH]; cbn; [reflexivity|]. intros Hp. apply andb_prop in Hp as [H1 H2]. rewrite (H c H1). now apply IH. Qed.

Lemma grammar_bytes kib ws sg ds suf :
  forallb isspace ws = true -> is_sign sg -> forallb isdigit ds = true -> is_suffix kib suf ->
  isbytes (ws ++ sg ++ ds ++ suf) = true /\ nonul (ws ++ sg ++ ds ++ suf) = true.
Proof.
  intros Hws Hsg Hds Hsuf. unfold isbytes, nonul. rewrite !forallb_app.
  assert (A1 : forallb (fun c => c <? 256) ws = true /\ forallb (fun c => negb (c =? 0)) ws = true).
  { split; apply (forallb_weaken isspace); try exact Hws; intros c Hc; unfold isspace in Hc;
    rewrite orb_true_iff, andb_true_iff, N.eqb_eq, !N.leb_le in Hc;
    [apply N.ltb_lt; lia|apply negb_true_iff, N.eqb_neq; lia]. }
  assert (A2 : forallb (fun c => c <? 256) ds = true /\ forallb (fun c => negb (c =? 0)) ds = true).
  { split; apply (forallb_weaken isdigit); try exact Hds; intros c Hc; unfold isdigit in Hc;
    rewrite andb_true_iff, !N.leb_le in Hc; [apply N.ltb_lt; lia|apply negb_true_iff, N.eqb_neq; lia]. }
  assert (A3 : forallb (fun c => c <? 256) sg = true /\ forallb (fun c => negb (c =? 0)) sg = true).
  { destruct Hsg as [->|[->| ->]]; split; reflexivity. }
  assert (A4 : forallb (fun c => c <? 256) suf = true /\ forallb (fun c => negb (c =? 0)) suf = true).
  { destruct Hsuf as [->|(_ & un & tl & -> & Hu & Ht)]; [split; reflexivity|].
    destruct Hu as [->|[->|[->|[->| ->]]]]; destruct Ht as [->|[->| ->]]; split; reflexivity. }
  destruct A1 as [-> ->], A2 as [-> ->], A3 as [-> ->], A4 as [-> ->]. split; reflexivity.
Qed.

(* ------------------------------------------------------------------------------------------ *)
(* option table: mi_option_set / mi_option_get / mi_option_set_default                         *)
(* ------------------------------------------------------------------------------------------ *)
Lemma length_tset t : forall i o, length (tset t i o) = length t.
Proof. induction t as [|x r IH]; intros [|i] o; cbn; try reflexivity. now rewrite IH. Qed.
Lemma tget_tset_eq t : forall i o, (i < length t)%nat -> tget (tset t i o) i = o.
Proof. unfold tget. induction t as [|x r IH]; intros [|i] o H; cbn in *; try lia; [reflexivity|]. apply IH. lia. Qed.
Lemma tget_tset_ne t : forall i j o, i <> j -> tget (tset t i o) j = tget t j.
Proof. unfold tget. induction t as [|x r IH]; intros [|i] [|j] o H; cbn; try reflexivity; try congruence. apply IH. congruence. Qed.
Lemma in_range_tset t i j o : in_range (tset t i o) j = in_range t j.
Proof. unfold in_range. now rewrite length_tset. Qed.
Lemma in_range_lt t i : in_range t i = true <-> (i < length t)%nat.
Proof. unfold in_range. apply Nat.ltb_lt. Qed.

Definition set1 (t : table) (i : nat) (v : Z) : table :=
  tset t i (mkopt v INITIALIZED (o_name (tget t i)) (o_legacy (tget t i))).

Lemma guarded_distinct : Nat.eqb opt_guarded_min opt_guarded_max = false.
Proof. reflexivity. Qed.

Lemma option_set_spec t i v : in_range t i = true ->
  exists t', option_set t i v = Some t' /\ length t' = length t /\
             o_value (tget t' i) = v /\ o_init (tget t' i) = INITIALIZED /\
             (forall j, j <> i -> j <> opt_guarded_min -> j <> opt_guarded_max -> tget t' j = tget t j).
Proof.
  intros Hr. pose proof Hr as Hlt. apply in_range_lt in Hlt.
  pose proof guarded_distinct as Hgd. apply Nat.eqb_neq in Hgd.
  unfold option_set. cbn [option_set_fuel]. rewrite Hr. cbn [negb]. fold (set1 t i v).
  assert (Hi : tget (set1 t i v) i = mkopt v INITIALIZED (o_name (tget t i)) (o_legacy (tget t i))) by (apply tget_tset_eq; exact Hlt).
  assert (Hl1 : length (set1 t i v) = length t) by apply length_tset.
  assert (Ho1 : forall j, j <> i -> tget (set1 t i v) j = tget t j) by (intros j Hj; apply tget_tset_ne; congruence).
  destruct (Nat.eqb i opt_guarded_min && (o_value (tget (set1 t i v) opt_guarded_max) <? v)%Z) eqn:C1.
  - apply andb_prop in C1 as [Ei _]. apply Nat.eqb_eq in Ei.
    unfold in_range at 1. rewrite Hl1.
    destruct (Nat.ltb opt_guarded_max (length t)) eqn:Rm; cbn [negb].
    + fold (set1 (set1 t i v) opt_guarded_max v).
      assert (Hm : tget (set1 (set1 t i v) opt_guarded_max v) i = tget (set1 t i v) i) by (apply tget_tset_ne; congruence).
      replace (Nat.eqb opt_guarded_max opt_guarded_min) with false by (symmetry; apply Nat.eqb_neq; congruence).
      rewrite Nat.eqb_refl. cbn [andb]. rewrite <- Ei at 2. rewrite Hm, Hi. cbn [o_value]. rewrite Z.ltb_irrefl.
      exists (set1 (set1 t i v) opt_guarded_max v). repeat split.
      * unfold set1 at 1. now rewrite length_tset.
      * now rewrite Hm, Hi.
      * now rewrite Hm, Hi.
      * intros j J1 J2 J3. unfold set1 at 1. rewrite tget_tset_ne by congruence. now apply Ho1.
    + exists (set1 t i v). repeat split; try assumption; try (now rewrite Hi). intros j J1 _ _. now apply Ho1.
  - destruct (Nat.eqb i opt_guarded_max && (v <? o_value (tget (set1 t i v) opt_guarded_min))%Z) eqn:C2.
    + apply andb_prop in C2 as [Ei _]. apply Nat.eqb_eq in Ei.
      unfold in_range at 1. rewrite Hl1.
      destruct (Nat.ltb opt_guarded_min (length t)) eqn:Rm; cbn [negb].
      * fold (set1 (set1 t i v) opt_guarded_min v).
        assert (Hm : tget (set1 (set1 t i v) opt_guarded_min v) i = tget (set1 t i v) i) by (apply tget_tset_ne; congruence).
        rewrite Nat.eqb_refl. cbn [andb]. rewrite <- Ei at 2. rewrite Hm, Hi. cbn [o_value]. rewrite Z.ltb_irrefl.
        replace (Nat.eqb opt_guarded_min opt_guarded_max) with false by (symmetry; apply Nat.eqb_neq; congruence).
        cbn [andb].
        exists (set1 (set1 t i v) opt_guarded_min v). repeat split.
        -- unfold set1 at 1. now rewrite length_tset.
        -- now rewrite Hm, Hi.
        -- now rewrite Hm, Hi.
        -- intros j J1 J2 J3. unfold set1 at 1. rewrite tget_tset_ne by congruence. now apply Ho1.
      * exists (set1 t i v). repeat split; try assumption; try (now rewrite Hi). intros j J1 _ _. now apply Ho1.
    + exists (set1 t i v). repeat split; try assumption; try (now rewrite Hi). intros j J1 _ _. now apply Ho1.
Qed.

Lemma set_get_roundtrip_lemma t i v env pre s0 b0 : in_range t i = true ->
  exists t', option_set t i v = Some t' /\ option_get t' i env pre s0 b0 = Some (v, t', false) /\
             o_init (tget t' i) = INITIALIZED.
Proof.
  intros Hr. destruct (option_set_spec t i v Hr) as (t' & Hs & Hl & Hv & Hi & _).
  exists t'. split; [exact Hs|]. split; [|exact Hi].
  unfold option_get. unfold in_range in *. rewrite Hl, Hr. cbn [negb]. rewrite Hi. cbn. now rewrite Hv.
Qed.

Lemma set_default_lemma t i v : in_range t i = true ->
  let t' := option_set_default t i v in
  o_init (tget t' i) = o_init (tget t i) /\
  o_value (tget t' i) = (if o_init (tget t i) =? INITIALIZED then o_value (tget t i) else v) /\
  (forall j, j <> i -> tget t' j = tget t j).
Proof.
  intros Hr. cbn zeta. unfold option_set_default. rewrite Hr. cbn [negb]. apply in_range_lt in Hr.
  destruct (o_init (tget t i) =? INITIALIZED); cbn [negb].
  - repeat split.
  - rewrite tget_tset_eq by exact Hr. repeat split. intros j Hj. apply tget_tset_ne. congruence.
Qed.

(* an option that is out of range is ignored by all three *)
Lemma out_of_range_lemma t i v env pre s0 b0 : in_range t i = false ->
  option_set t i v = Some t /\ option_set_default t i v = t /\ option_get t i env pre s0 b0 = Some (0%Z, t, false).
Proof. intros Hr. unfold option_set, option_set_default, option_get. cbn [option_set_fuel]. rewrite Hr. repeat split. Qed.

(* ------------------------------------------------------------------------------------------ *)
(* mi_option_init after `found`: only the first 64 bytes of the value are looked at            *)
(* ------------------------------------------------------------------------------------------ *)
Lemma nthN_cstr l : forall i, i < lenN (cstr l) -> nthN (cstr l) i = nthN l i.
Proof.
  induction l as [|c r IH]; intros i H; cbn in *; [lia|].
  destruct (c =? 0); cbn in *; [lia|]. destruct (i =? 0) eqn:E; [reflexivity|]. apply N.eqb_neq in E. apply IH. lia.
Qed.
Lemma lenN_cstr_le l : lenN (cstr l) <= lenN l.
Proof. induction l as [|c r IH]; cbn; [lia|]. destruct (c =? 0); cbn; lia. Qed.
Lemma nonul_cstr l : nonul (cstr l) = true.
Proof. induction l as [|c r IH]; cbn; [reflexivity|]. destruct (c =? 0) eqn:E; cbn; [reflexivity|]. now rewrite E. Qed.

Lemma strnlen_nonul s : forall m, nonul s = true -> strnlen s m = N.min (lenN s) m.
Proof.
  induction s as [|c r IH]; intros m H; cbn in *; [lia|]. apply andb_prop in H as [H1 H2]. rewrite H1. cbn [andb].
  destruct (0 <? m) eqn:E; [apply N.ltb_lt in E; rewrite IH by exact H2; lia|apply N.ltb_ge in E; lia].
Qed.

Lemma lenN_takeN l : forall n, lenN (takeN n l) = N.min n (lenN l).
Proof. induction l as [|x r IH]; intros n; cbn; [lia|]. destruct (n =? 0) eqn:E; [apply N.eqb_eq in E; subst; cbn; lia|]. apply N.eqb_neq in E. cbn. rewrite IH. lia. Qed.
Lemma nthN_takeN l : forall n i, i < n -> nthN (takeN n l) i = nthN l i.
Proof.
  induction l as [|x r IH]; intros n i H; cbn; [reflexivity|]. destruct (n =? 0) eqn:E; [apply N.eqb_eq in E; lia|].
  cbn. destruct (i =? 0) eqn:F; [reflexivity|]. apply N.eqb_neq in F. apply IH. lia.
Qed.
Lemma takeN_all l : forall n, lenN l <= n -> takeN n l = l.
Proof. induction l as [|x r IH]; intros n H; cbn in *; [reflexivity|]. destruct (n =? 0) eqn:E; [apply N.eqb_eq in E; lia|]. f_equal. apply IH. lia. Qed.
Lemma nthN_map_toupper l : forall i, i < lenN l -> nthN (map toupper l) i = toupper (nthN l i).
Proof. induction l as [|x r IH]; intros i H; cbn in *; [lia|]. destruct (i =? 0) eqn:E; [reflexivity|]. apply N.eqb_neq in E. apply IH. lia. Qed.
Lemma lenN_map (f : N -> N) l : lenN (map f l) = lenN l.
Proof. induction l as [|x r IH]; cbn; [reflexivity|]. now rewrite IH. Qed.

Lemma toupper_nz c : c <> 0 -> toupper c <> 0.
Proof. unfold toupper. destruct ((97 <=? c) && (c <=? 122)) eqn:E; [|tauto]. apply andb_prop in E as [E1 E2]. apply N.leb_le in E1, E2. lia. Qed.
Lemma toupper_byte c : c < 256 -> toupper c < 256.
Proof. unfold toupper. destruct ((97 <=? c) && (c <=? 122)); lia. Qed.
Lemma nonul_map_toupper l : nonul l = true -> nonul (map toupper l) = true.
Proof.
  induction l as [|c r IH]; cbn; [reflexivity|]. intros H. apply andb_prop in H as [H1 H2]. rewrite IH by exact H2.
  apply negb_true_iff, N.eqb_neq in H1. apply toupper_nz in H1. apply N.eqb_neq in H1. now rewrite H1.
Qed.
Lemma isbytes_map_toupper l : isbytes l = true -> isbytes (map toupper l) = true.
Proof.
  induction l as [|c r IH]; cbn; [reflexivity|]. intros H. apply andb_prop in H as [H1 H2]. rewrite IH by exact H2.
  apply N.ltb_lt in H1. apply toupper_byte in H1. apply N.ltb_lt in H1. now rewrite H1.
Qed.
Lemma nonul_takeN l : forall n, nonul l = true -> nonul (takeN n l) = true.
Proof. induction l as [|c r IH]; intros n H; cbn in *; [reflexivity|]. destruct (n =? 0); [reflexivity|]. cbn. apply andb_prop in H as [H1 H2]. now rewrite H1, IH. Qed.
Lemma nonul_nth l : forall i, nonul l = true -> i < lenN l -> nthN l i <> 0.
Proof.
  induction l as [|c r IH]; intros i H Hi; cbn in *; [lia|]. apply andb_prop in H as [H1 H2].
  destruct (i =? 0) eqn:E; [now apply negb_true_iff, N.eqb_neq in H1|]. apply N.eqb_neq in E. apply IH; [exact H2|lia].
Qed.

(* a list that starts with the non-zero bytes p followed by a 0 holds the C string p *)
Lemma cstr_prefix p : forall l, nonul p = true -> lenN p < lenN l ->
  (forall i, i < lenN p -> nthN l i = nthN p i) -> nthN l (lenN p) = 0 -> cstr l = p.
Proof.
  induction p as [|c r IH]; intros l Hn Hl Hp Hz.
  - destruct l as [|x y]; [reflexivity|]. cbn in Hz. subst x. reflexivity.
  - destruct l as [|x y]; [cbn in Hl; lia|]. cbn in Hn. apply andb_prop in Hn as [Hc Hn].
    pose proof (Hp 0) as H0. cbn in H0. rewrite H0 by lia. cbn [cstr].
    apply negb_true_iff in Hc. rewrite Hc. f_equal. apply IH.
    + exact Hn.
    + cbn in Hl. lia.
    + intros i Hi. specialize (Hp (i + 1)). cbn in Hp.
      replace (i + 1 =? 0) with false in Hp by (symmetry; apply N.eqb_neq; lia).
      replace (i + 1 - 1) with i in Hp by lia. apply Hp. lia.
    + cbn in Hz. replace (N.succ (lenN r) =? 0) with false in Hz by (symmetry; apply N.eqb_neq; lia).
      now replace (N.succ (lenN r) - 1) with (lenN r) in Hz by lia.
Qed.

Lemma upcase_loop_spec k : forall i s b,
  fault s = false -> fault b = false -> i + N.of_nat k <= blen s -> i + N.of_nat k <= blen b ->
  let '(s', b') := upcase_loop k i s b in
  s' = s /\ fault b' = false /\ blen b' = blen b /\
  (forall j, i <= j < i + N.of_nat k -> bget b' j = toupper (bget s j)) /\
  (forall j, j < i \/ i + N.of_nat k <= j -> bget b' j = bget b j).
Proof.
  induction k as [|k IH]; intros i s b Fs Fb Hs Hb; cbn [upcase_loop].
  - repeat split; try assumption. intros j Hj. lia.
  - rewrite bread_in by lia.
    specialize (IH (i + 1) s (bput b i (toupper (bget s i))) Fs).
    destruct (upcase_loop k (i + 1) s (bput b i (toupper (bget s i)))) as [s' b'].
    destruct IH as (Es & Fb' & Lb' & P & O); [rewrite fault_bput; [exact Fb|lia]|lia|rewrite blen_bput; lia|].
    rewrite blen_bput in Lb'. repeat split; try assumption.
    + intros j Hj. destruct (N.eq_dec j i) as [->|Hne].
      * rewrite O by lia. apply bget_bput_eq. lia.
      * apply P. lia.
    + intros j Hj. rewrite O by lia. apply bget_bput_ne. lia.
Qed.

Lemma option_init_found_spec t i s b :
  fault s = false -> fault b = false -> 65 <= blen b ->
  let '(r, s', b') := option_init_found t i s b in
  r = apply_pres t i (parse_value (has_size_in_kib i) (map toupper (takeN 64 (bstr s 0)))) /\
  fault s' = false /\ fault b' = false /\ blen b' = blen b.
Proof.
  intros Fs Fb Lb. unfold option_init_found.
  set (v := bstr s 0). assert (Hvn : nonul v = true) by apply nonul_cstr.
  rewrite (strnlen_nonul v 64 Hvn). set (len := N.min (lenN v) 64).
  assert (Hvs : lenN v <= blen s). { unfold v, bstr, blen. cbn [dropN]. destruct (bdata s); [cbn; lia|]. replace (0 =? 0) with true by reflexivity. apply lenN_cstr_le. }
  pose proof (upcase_loop_spec (N.to_nat len) 0 s b Fs Fb) as H.
  destruct (upcase_loop (N.to_nat len) 0 s b) as [s' b'].
  destruct H as (Es & Fb' & Lb' & P & O); [lia|lia|]. subst s'.
  assert (Hput : fault (bput b' len 0) = false /\ blen (bput b' len 0) = blen b).
  { split; [rewrite fault_bput; [exact Fb'|lia]|rewrite blen_bput; exact Lb']. }
  destruct Hput as [Fp Lp]. split; [|repeat split; assumption].
  f_equal. f_equal. unfold bstr at 1. 
  assert (Hd0 : forall l, dropN l 0 = l) by (intros [|x y]; reflexivity). rewrite Hd0.
  apply cstr_prefix.
  - apply nonul_map_toupper, nonul_takeN, Hvn.
  - rewrite lenN_map, lenN_takeN. fold (blen (bput b' len 0)). rewrite Lp. lia.
  - intros j Hj. rewrite lenN_map, lenN_takeN in Hj. fold (bget (bput b' len 0) j).
    rewrite bget_bput_ne by (unfold len; lia). rewrite P by (unfold len; lia).
    rewrite nthN_map_toupper by (rewrite lenN_takeN; lia). rewrite nthN_takeN by lia.
    f_equal. unfold v, bstr. rewrite Hd0. rewrite nthN_cstr; [reflexivity|]. fold (bstr s 0). unfold bstr. rewrite Hd0. fold v. unfold v, bstr in Hj. rewrite Hd0 in Hj. lia.
  - rewrite lenN_map, lenN_takeN. fold (bget (bput b' len 0) (N.min 64 (lenN v))).
    replace (N.min 64 (lenN v)) with len by (unfold len; lia). apply bget_bput_eq. lia.
Qed.
