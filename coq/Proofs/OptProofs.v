(* Lemmas about Model/Opt.v (property C20): bounded string helpers, environment lookup, option
   parsing, option table, _mi_vsnprintf, delayed / line / JSON output buffers. *)
From Coq Require Import NArith ZArith List Bool Lia.
From MiV Require Import Gen.Consts Gen.Options Model.Arith Model.Opt Proofs.Base.
Import ListNotations.
Local Open Scope N_scope.
Local Open Scope bool_scope.

(* ------------------------------------------------------------------------------------------ *)
(* lists indexed by N                                                                          *)
(* ------------------------------------------------------------------------------------------ *)
Lemma lenN_updN l : forall i c, lenN (updN l i c) = lenN l.
Proof. induction l as [|x r IH]; intros i c; cbn; [reflexivity|]. destruct (i =? 0); cbn; [reflexivity|]. now rewrite IH. Qed.

Lemma nthN_updN_eq l : forall i c, i < lenN l -> nthN (updN l i c) i = c.
Proof.
  induction l as [|x r IH]; intros i c H; cbn in *; [lia|].
  destruct (i =? 0) eqn:E; cbn; rewrite E; [reflexivity|].
  apply N.eqb_neq in E. apply IH. lia.
Qed.

Lemma nthN_updN_ne l : forall i j c, i <> j -> nthN (updN l i c) j = nthN l j.
Proof.
  induction l as [|x r IH]; intros i j c H; cbn; [reflexivity|].
  destruct (i =? 0) eqn:E; cbn.
  - apply N.eqb_eq in E. destruct (j =? 0) eqn:F; [apply N.eqb_eq in F; lia|reflexivity].
  - apply N.eqb_neq in E. destruct (j =? 0) eqn:F; [reflexivity|]. apply N.eqb_neq in F. apply IH. lia.
Qed.

Lemma lenN_app a b : lenN (a ++ b) = lenN a + lenN b.
Proof. induction a as [|x r IH]; cbn; [reflexivity|]. rewrite IH. lia. Qed.

Lemma lenN_repeatN c n : lenN (repeatN c n) = N.of_nat n.
Proof. induction n as [|n IH]; [reflexivity|]. cbn [repeatN lenN]. rewrite IH. lia. Qed.

Lemma nthN_app_l a b : forall i, i < lenN a -> nthN (a ++ b) i = nthN a i.
Proof.
  induction a as [|x r IH]; intros i H; cbn in *; [lia|].
  destruct (i =? 0) eqn:E; [reflexivity|]. apply N.eqb_neq in E. apply IH. lia.
Qed.

Lemma lenN_length l : lenN l = N.of_nat (length l).
Proof. induction l as [|x r IH]; [reflexivity|]. cbn [lenN length]. rewrite IH. lia. Qed.

(* ------------------------------------------------------------------------------------------ *)
(* buffers                                                                                     *)
(* ------------------------------------------------------------------------------------------ *)
Lemma blen_bput b i c : blen (bput b i c) = blen b.
Proof. unfold bput, blen. destruct (i <? lenN (bdata b)); cbn; [apply lenN_updN|reflexivity]. Qed.

Lemma fault_bput b i c : i < blen b -> fault (bput b i c) = fault b.
Proof. intros H. unfold bput. apply N.ltb_lt in H. rewrite H. reflexivity. Qed.

Lemma bget_bput_eq b i c : i < blen b -> bget (bput b i c) i = c.
Proof. intros H. unfold bput, bget. pose proof H as H'. apply N.ltb_lt in H'. rewrite H'. cbn. apply nthN_updN_eq. exact H. Qed.

Lemma bget_bput_ne b i j c : i <> j -> bget (bput b i c) j = bget b j.
Proof. intros H. unfold bput, bget. destruct (i <? blen b); cbn; [apply nthN_updN_ne; exact H|reflexivity]. Qed.

Lemma bread_in b i : i < blen b -> bread b i = (bget b i, b).
Proof. intros H. unfold bread. apply N.ltb_lt in H. rewrite H. reflexivity. Qed.

(* "the buffer is intact": no fault so far, and its size *)
Definition okb (b : buf) (n : N) : Prop := fault b = false /\ blen b = n.

Lemma okb_bput b n i c : okb b n -> i < n -> okb (bput b i c) n.
Proof. intros [F L] H. split; [rewrite fault_bput; [exact F|lia]|rewrite blen_bput; exact L]. Qed.

(* ------------------------------------------------------------------------------------------ *)
(* strings                                                                                     *)
(* ------------------------------------------------------------------------------------------ *)
Lemma strlen_nil : strlen [] = 0.
Proof. reflexivity. Qed.

Lemma strlen_cons_nz c r : c <> 0 -> strlen (c :: r) = N.succ (strlen r).
Proof. intros H. unfold strlen. cbn. apply N.eqb_neq in H. rewrite H. reflexivity. Qed.

Lemma strlen_cons_z r : strlen (0 :: r) = 0.
Proof. reflexivity. Qed.

(* _mi_strlcpy: the loop.  n = min(strlen src, size-1) bytes are copied, then the terminator;
   nothing else changes *)
Lemma strlcpy_loop_spec src : forall b d size,
  1 <= size -> d + size <= blen b -> fault b = false ->
  let r := strlcpy_loop b d src size in
  let n := N.min (strlen src) (size - 1) in
  fault r = false /\ blen r = blen b /\
  (forall i, i < n -> bget r (d + i) = nthN src i) /\
  bget r (d + n) = 0 /\
  (forall j, j < d \/ d + n < j -> bget r j = bget b j).
Proof.
  induction src as [|c s IH]; intros b d size Hs Hd Hf; cbn zeta.
  - cbn [strlcpy_loop]. rewrite strlen_nil. rewrite N.min_0_l.
    repeat split.
    + rewrite fault_bput; [exact Hf|lia].
    + apply blen_bput.
    + intros i Hi. lia.
    + rewrite N.add_0_r. apply bget_bput_eq. lia.
    + intros j Hj. apply bget_bput_ne. lia.
  - cbn [strlcpy_loop].
    destruct (c =? 0) eqn:Ec.
    + apply N.eqb_eq in Ec. subst c. cbn [negb andb]. rewrite strlen_cons_z, N.min_0_l.
      repeat split.
      * rewrite fault_bput; [exact Hf|lia].
      * apply blen_bput.
      * intros i Hi. lia.
      * rewrite N.add_0_r. apply bget_bput_eq. lia.
      * intros j Hj. apply bget_bput_ne. lia.
    + apply N.eqb_neq in Ec. cbn [negb andb].
      destruct (1 <? size) eqn:E1.
      * apply N.ltb_lt in E1.
        assert (Hb : blen (bput b d c) = blen b) by apply blen_bput.
        specialize (IH (bput b d c) (d + 1) (size - 1)).
        destruct IH as (F & L & P & Z & O); [lia|rewrite Hb; lia|rewrite fault_bput; [exact Hf|lia]|].
        rewrite (strlen_cons_nz c s Ec).
        replace (N.min (N.succ (strlen s)) (size - 1)) with (N.succ (N.min (strlen s) (size - 1 - 1))) by lia.
        set (n' := N.min (strlen s) (size - 1 - 1)) in *.
        repeat split.
        -- exact F.
        -- rewrite L. exact Hb.
        -- intros i Hi. destruct (N.eq_dec i 0) as [->|Hne].
           ++ rewrite N.add_0_r. rewrite O by lia. cbn. apply bget_bput_eq. lia.
           ++ replace (d + i) with (d + 1 + (i - 1)) by lia. rewrite P by lia.
              cbn [nthN]. apply N.eqb_neq in Hne. rewrite Hne. reflexivity.
        -- replace (d + N.succ n') with (d + 1 + n') by lia. exact Z.
        -- intros j Hj. rewrite O by lia. apply bget_bput_ne. lia.
      * apply N.ltb_ge in E1. assert (size = 1) by lia. subst size.
        replace (N.min (strlen (c :: s)) (1 - 1)) with 0 by lia.
        repeat split.
        -- rewrite fault_bput; [exact Hf|lia].
        -- apply blen_bput.
        -- intros i Hi. lia.
        -- rewrite N.add_0_r. apply bget_bput_eq. lia.
        -- intros j Hj. apply bget_bput_ne. lia.
Qed.

Lemma strlcpy_spec b d src size :
  0 < size -> d + size <= blen b -> fault b = false ->
  let r := strlcpy b d src size in
  let n := N.min (strlen src) (size - 1) in
  fault r = false /\ blen r = blen b /\ n < size /\
  (forall i, i < n -> bget r (d + i) = nthN src i) /\
  bget r (d + n) = 0 /\
  (forall j, j < d \/ d + n < j -> bget r j = bget b j).
Proof.
  intros Hs Hd Hf. cbn zeta. unfold strlcpy.
  destruct (size =? 0) eqn:E; [apply N.eqb_eq in E; lia|].
  destruct (strlcpy_loop_spec src b d size) as (F & L & P & Z & O); try lia; try assumption.
  repeat split; try assumption. lia.
Qed.

(* size 0: nothing is touched *)
Lemma strlcpy_size0 b d src : strlcpy b d src 0 = b.
Proof. reflexivity. Qed.

(* _mi_strlcat *)
Lemma strlen_dropN_cons l : forall d, d < lenN l -> nthN l d <> 0 ->
  strlen (dropN l d) = N.succ (strlen (dropN l (d + 1))).
Proof.
  induction l as [|x r IH]; intros d H Hn; cbn in H; [lia|].
  cbn [dropN]. destruct (d =? 0) eqn:E.
  - apply N.eqb_eq in E. subst d. cbn in Hn. rewrite strlen_cons_nz by exact Hn.
    cbn [N.add]. cbn [dropN]. replace (1 =? 0) with false by reflexivity.
    destruct r; reflexivity.
  - apply N.eqb_neq in E. cbn [nthN] in Hn. pose proof E as E'. apply N.eqb_neq in E'. rewrite E' in Hn.
    replace (d + 1 =? 0) with false by (symmetry; apply N.eqb_neq; lia).
    replace (d + 1 - 1) with (d - 1 + 1) by lia. apply IH; [lia|exact Hn].
Qed.

Lemma dropN_nth l : forall d, d < lenN l -> dropN l d = nthN l d :: dropN l (d + 1).
Proof.
  induction l as [|x r IH]; intros d H; cbn in H; [lia|].
  cbn [dropN nthN]. destruct (d =? 0) eqn:E.
  - apply N.eqb_eq in E. subst d. cbn. destruct r; reflexivity.
  - apply N.eqb_neq in E. replace (d + 1 =? 0) with false by (symmetry; apply N.eqb_neq; lia).
    replace (d + 1 - 1) with (d - 1 + 1) by lia. apply IH. lia.
Qed.

Lemma strlcat_scan_spec : forall k l d size,
  N.of_nat k = size -> 1 <= size -> d + size <= lenN l ->
  let n := N.min (strlen (dropN l d)) (size - 1) in
  strlcat_scan (dropN l d) d size = (d + n, size - n, false).
Proof.
  induction k as [|k IH]; intros l d size Hk Hs Hd; [lia|]. cbn zeta.
  rewrite dropN_nth by lia. cbn [strlcat_scan].
  destruct (nthN l d =? 0) eqn:Ec.
  - apply N.eqb_eq in Ec. rewrite Ec. cbn [negb andb]. rewrite strlen_cons_z, N.min_0_l.
    now rewrite N.add_0_r, N.sub_0_r.
  - apply N.eqb_neq in Ec. cbn [negb andb]. destruct (1 <? size) eqn:E1.
    + apply N.ltb_lt in E1. rewrite (IH l (d + 1) (size - 1)) by lia.
      rewrite strlen_cons_nz by exact Ec.
      f_equal. f_equal; lia.
    + apply N.ltb_ge in E1. replace (size - 1) with 0 by lia.
      rewrite N.min_0_r. now rewrite N.add_0_r, N.sub_0_r.
Qed.

Lemma strlcat_spec b d src size :
  0 < size -> d + size <= blen b -> fault b = false ->
  let r := strlcat b d src size in
  let k := N.min (strlen (dropN (bdata b) d)) (size - 1) in
  let n := N.min (strlen src) (size - k - 1) in
  fault r = false /\ blen r = blen b /\ k + n < size /\
  (forall i, i < n -> bget r (d + k + i) = nthN src i) /\
  bget r (d + k + n) = 0 /\
  (forall j, j < d + k \/ d + k + n < j -> bget r j = bget b j).
Proof.
  intros Hs Hd Hf. cbn zeta. unfold strlcat.
  destruct (size =? 0) eqn:E; [apply N.eqb_eq in E; lia|].
  rewrite (strlcat_scan_spec (N.to_nat size) (bdata b) d size) by (unfold blen in Hd; lia).
  set (k := N.min (strlen (dropN (bdata b) d)) (size - 1)).
  destruct (strlcpy_spec b (d + k) src (size - k)) as (F & L & Hn & P & Z & O); try lia; try assumption.
  replace (size - k - 1) with (size - k - 1) in * by reflexivity.
  repeat split; try assumption. lia.
Qed.

(* ------------------------------------------------------------------------------------------ *)
(* _mi_prim_getenv / _mi_getenv                                                                *)
(* ------------------------------------------------------------------------------------------ *)
(* entry s defines the variable `name` (case-insensitive, followed by '=') *)
Definition env_match (name s : bytes) : bool :=
  (strnicmp name s (strlen name) =? 0)%Z && (hd0 (sdrop s (strlen name)) =? 61).
(* its value *)
Definition env_value (name s : bytes) : bytes := sdrop s (strlen name + 1).

Lemma getenv_loop_spec env : forall i name res size,
  let '(found, r) := getenv_loop env i name (strlen name) res size in
  (found = false /\ r = res /\ (i + N.of_nat (length env) <= 10000 -> forall s, In s env -> env_match name s = false)) \/
  (found = true /\ exists s, In s env /\ env_match name s = true /\ r = strlcpy res 0 (env_value name s) size).
Proof.
  induction env as [|s env IH]; intros i name res size; cbn [getenv_loop].
  - left. repeat split. intros _ s [].
  - destruct (10000 <=? i) eqn:Ei.
    + left. repeat split. apply N.leb_le in Ei. cbn [length]. intros H. lia.
    + fold (env_match name s). destruct (env_match name s) eqn:Em.
      * right. split; [reflexivity|]. exists s. repeat split; [now left|exact Em].
      * specialize (IH (i + 1) name res size).
        destruct (getenv_loop env (i + 1) name (strlen name) res size) as [found r].
        destruct IH as [(F & R & A)|(F & s' & I & M & R)].
        -- left. repeat split; try assumption. cbn [length]. intros H s0 [<-|Hin]; [exact Em|]. apply A; [lia|exact Hin].
        -- right. split; [exact F|]. exists s'. repeat split; [now right|exact M|exact R].
Qed.

Lemma mi_getenv_spec env name res size :
  let '(found, r) := mi_getenv env name res size in
  (found = false /\ r = res) \/
  (found = true /\ 64 <= size /\ exists s, In s env /\ env_match name s = true /\ r = strlcpy res 0 (env_value name s) size).
Proof.
  unfold mi_getenv. destruct (size <? 64) eqn:E; [left; split; reflexivity|]. apply N.ltb_ge in E.
  unfold prim_getenv. destruct (strlen name =? 0); [left; split; reflexivity|].
  pose proof (getenv_loop_spec env 0 name res size) as H.
  destruct (getenv_loop env 0 name (strlen name) res size) as [found r].
  destruct H as [(F & R & _)|(F & s & I & M & R)]; [left; split; assumption|].
  right. repeat split; try assumption. exists s. repeat split; assumption.
Qed.

(* no entry is missed when the environment has at most 10000 entries *)
Lemma mi_getenv_notfound env name res size r :
  64 <= size -> strlen name <> 0 -> N.of_nat (length env) <= 10000 ->
  mi_getenv env name res size = (false, r) -> forall s, In s env -> env_match name s = false.
Proof.
  intros Hs Hn Hl. unfold mi_getenv. apply N.ltb_ge in Hs. rewrite Hs.
  unfold prim_getenv. apply N.eqb_neq in Hn. rewrite Hn.
  pose proof (getenv_loop_spec env 0 name res size) as H.
  destruct (getenv_loop env 0 name (strlen name) res size) as [found r'].
  intros Heq. inversion Heq; subst.
  destruct H as [(F & R & A)|(F & _)]; [apply A; lia|discriminate].
Qed.

Lemma getenv_bounded_lemma env name res size :
  size <= blen res -> fault res = false ->
  let '(found, r) := mi_getenv env name res size in
  fault r = false /\ blen r = blen res /\
  (found = false -> r = res) /\
  (found = true -> 64 <= size /\ exists s, In s env /\ env_match name s = true /\
      let n := N.min (strlen (env_value name s)) (size - 1) in
      n < size /\ (forall i, i < n -> bget r i = nthN (env_value name s) i) /\ bget r n = 0 /\
      (forall j, n < j -> bget r j = bget res j)).
Proof.
  intros Hs Hf. pose proof (mi_getenv_spec env name res size) as H.
  destruct (mi_getenv env name res size) as [found r].
  destruct H as [(F & R)|(F & S64 & s & I & M & R)].
  - subst. split; [exact Hf|]. split; [reflexivity|]. split; [reflexivity|]. intros; discriminate.
  - destruct (strlcpy_spec res 0 (env_value name s) size) as (Ff & L & Hn & P & Z & O); try lia; try assumption.
    rewrite <- R in *. split; [exact Ff|]. split; [exact L|]. split; [intros; congruence|].
    intros _. split; [exact S64|]. exists s. split; [exact I|]. split; [exact M|]. cbn zeta.
    split; [exact Hn|]. split; [|split].
    + intros i Hi. specialize (P i Hi). now rewrite N.add_0_l in P.
    + now rewrite N.add_0_l in Z.
    + intros j Hj. apply O. right. lia.
Qed.

(* ------------------------------------------------------------------------------------------ *)
(* vocabulary of the parsing theorems                                                          *)
(* ------------------------------------------------------------------------------------------ *)
Definition nonul (s : bytes) : bool := forallb (fun c => negb (c =? 0)) s.
Definition isbytes (s : bytes) : bool := forallb (fun c => c <? 256) s.

(* value of a digit string *)
Definition decval (ds : bytes) : Z := fold_left (fun a c => (a * 10 + Z.of_N (c - 48))%Z) ds 0%Z.

(* the upper-cased words (as byte lists) *)
Definition w_1 : bytes := [49].
Definition w_TRUE : bytes := [84; 82; 85; 69].
Definition w_YES : bytes := [89; 69; 83].
Definition w_ON : bytes := [79; 78].
Definition w_0 : bytes := [48].
Definition w_FALSE : bytes := [70; 65; 76; 83; 69].
Definition w_NO : bytes := [78; 79].
Definition w_OFF : bytes := [79; 70; 70].
Definition true_words : list bytes := [w_1; w_TRUE; w_YES; w_ON].
Definition false_words : list bytes := [w_0; w_FALSE; w_NO; w_OFF].

(* the grammar of a number:  [whitespace] [sign] digits [suffix]  *)
Definition is_sign (sg : bytes) : Prop := sg = [] \/ sg = [43] \/ sg = [45].
Definition is_unit (u : bytes) : Prop := u = [] \/ u = [75] \/ u = [77] \/ u = [71] \/ u = [84].   (* K M G T *)
Definition is_tail (t : bytes) : Prop := t = [] \/ t = [66] \/ t = [73; 66].                        (* B IB *)
Definition is_suffix (kib : bool) (suf : bytes) : Prop :=
  suf = [] \/ (kib = true /\ exists u t, suf = u ++ t /\ is_unit u /\ is_tail t).
Definition Grammar (kib : bool) (u : bytes) : Prop :=
  exists ws sg ds suf, u = ws ++ sg ++ ds ++ suf /\ forallb isspace ws = true /\ is_sign sg /\
                       ds <> [] /\ forallb isdigit ds = true /\ is_suffix kib suf.
Definition sign_apply (sg : bytes) (v : Z) : Z := if hd0 sg =? 45 then (- v)%Z else v.

(* ------------------------------------------------------------------------------------------ *)
(* _mi_strnicmp and mi_option_is_word                                                          *)
(* ------------------------------------------------------------------------------------------ *)
Fixpoint takeN (n : N) (l : bytes) : bytes :=
  match l with [] => [] | x :: r => if n =? 0 then [] else x :: takeN (n - 1) r end.

Lemma schar_inj a b : a < 256 -> b < 256 -> schar a = schar b -> a = b.
Proof.
  unfold schar. intros Ha Hb. destruct (a <? 128) eqn:Ea; destruct (b <? 128) eqn:Eb;
  try apply N.ltb_lt in Ea; try apply N.ltb_lt in Eb; try apply N.ltb_ge in Ea; try apply N.ltb_ge in Eb; lia.
Qed.

Lemma strlen_pos_inv s n : strlen s = n -> 0 < n ->
  exists c s', s = c :: s' /\ c <> 0 /\ cstr s = c :: cstr s' /\ strlen s' = n - 1.
Proof.
  intros H Hn. destruct s as [|c s']; [cbn in H; lia|].
  destruct (N.eq_dec c 0) as [->|Hc]; [rewrite strlen_cons_z in H; lia|].
  exists c, s'. repeat split; try assumption.
  - cbn. apply N.eqb_neq in Hc. now rewrite Hc.
  - rewrite strlen_cons_nz in H by exact Hc. lia.
Qed.

Lemma strlen0_cstr s : strlen s = 0 -> cstr s = [].
Proof. unfold strlen. destruct (cstr s); [reflexivity|cbn; lia]. Qed.

Lemma strnicmp_zero_iff w : forall s n,
  isbytes w = true -> isbytes s = true -> strlen s = n -> n <= strlen w ->
  (strnicmp w s n = 0%Z <-> map toupper (takeN n w) = map toupper (cstr s)).
Proof.
  induction w as [|cw w' IH]; intros s n Bw Bs Hs Hn.
  - rewrite strlen_nil in Hn. assert (Hn0 : n = 0) by lia. rewrite Hn0 in *.
    rewrite (strlen0_cstr s Hs). cbn. destruct s; cbn; tauto.
  - destruct (N.eq_dec n 0) as [->|Hn0].
    + rewrite (strlen0_cstr s Hs). cbn. tauto.
    + destruct (strlen_pos_inv s n Hs) as (cs & s' & -> & Hcs & Hc & Hs'); [lia|].
      assert (Hcw : cw <> 0). { intros ->. rewrite strlen_cons_z in Hn. lia. }
      rewrite strlen_cons_nz in Hn by exact Hcw.
      cbn [strnicmp takeN hd0 tl0]. apply N.eqb_neq in Hn0. rewrite Hn0.
      pose proof Hcw as Hcw'. apply N.eqb_neq in Hcw'. rewrite Hcw'.
      pose proof Hcs as Hcs'. apply N.eqb_neq in Hcs'. rewrite Hcs'. cbn [orb].
      rewrite Hc. cbn [map].
      cbn [isbytes forallb] in Bw, Bs. apply andb_prop in Bw as [Bw1 Bw2]. apply andb_prop in Bs as [Bs1 Bs2].
      destruct (toupper cw =? toupper cs) eqn:Et.
      * apply N.eqb_eq in Et. rewrite (IH s' (n - 1) Bw2 Bs2 Hs') by lia. rewrite Et.
        split; [intros ->; reflexivity|intros H; now inversion H].
      * apply N.eqb_neq in Et. split.
        -- intros H. exfalso. apply Et. f_equal. apply schar_inj; [now apply N.ltb_lt|now apply N.ltb_lt|lia].
        -- intros H. inversion H. contradiction.
Qed.

(* is_word_from with the comparison abstracted: evaluates completely on the constant word lists *)
Fixpoint iwf (P : bytes -> bool) (w : bytes) (at_start : bool) : bool :=
  match w with
  | [] => false
  | c :: r => if c =? 0 then false else if at_start && P w then true else iwf P r (c =? 59)
  end.
Lemma is_word_from_iwf s len w : forall a,
  is_word_from s len w a = iwf (fun w => (wordlen w =? len) && (strnicmp w s len =? 0)%Z) w a.
Proof.
  induction w as [|c r IH]; intros a; cbn [is_word_from iwf]; [reflexivity|].
  destruct (c =? 0); [reflexivity|]. rewrite andb_assoc. destruct (_ && _ && _); [reflexivity|apply IH].
Qed.

Definition W1 : bytes := words_true.
Definition W2 : bytes := Eval vm_compute in dropN words_true 2.
Definition W3 : bytes := Eval vm_compute in dropN words_true 7.
Definition W4 : bytes := Eval vm_compute in dropN words_true 11.
Definition V1 : bytes := words_false.
Definition V2 : bytes := Eval vm_compute in dropN words_false 2.
Definition V3 : bytes := Eval vm_compute in dropN words_false 8.
Definition V4 : bytes := Eval vm_compute in dropN words_false 11.

Lemma iwf_true P : iwf P words_true true = P W1 || P W2 || P W3 || P W4.
Proof. vm_compute. destruct (P _); [reflexivity|]. destruct (P _); [reflexivity|]. destruct (P _); [reflexivity|]. destruct (P _); reflexivity. Qed.
Lemma iwf_false P : iwf P words_false true = P V1 || P V2 || P V3 || P V4.
Proof. vm_compute. destruct (P _); [reflexivity|]. destruct (P _); [reflexivity|]. destruct (P _); [reflexivity|]. destruct (P _); reflexivity. Qed.

Lemma map_toupper_len a b : map toupper a = map toupper b -> lenN a = lenN b.
Proof. intros H. rewrite !lenN_length. f_equal. rewrite <- (map_length toupper a), <- (map_length toupper b). now rewrite H. Qed.

(* one word start: W = the word list from a word start on, wd = that word *)
Lemma word_check W wd s :
  isbytes W = true -> isbytes s = true -> wordlen W = lenN wd -> lenN wd <= strlen W ->
  takeN (lenN wd) W = wd -> map toupper wd = wd ->
  ((wordlen W =? strlen s) && (strnicmp W s (strlen s) =? 0)%Z = true <-> map toupper (cstr s) = wd).
Proof.
  intros BW Bs Hwl Hle Htk Hup. split.
  - intros H. apply andb_prop in H as [H1 H2]. apply N.eqb_eq in H1. apply Z.eqb_eq in H2.
    rewrite Hwl in H1. rewrite <- H1 in H2.
    apply (strnicmp_zero_iff W s (lenN wd) BW Bs) in H2; [|now symmetry|exact Hle].
    rewrite Htk, Hup in H2. now symmetry.
  - intros H. assert (Hl : strlen s = lenN wd).
    { unfold strlen. apply map_toupper_len. now rewrite Hup. }
    rewrite Hwl, Hl, N.eqb_refl. cbn [andb]. apply Z.eqb_eq.
    apply (strnicmp_zero_iff W s (lenN wd) BW Bs Hl Hle). now rewrite Htk, Hup.
Qed.

Lemma is_word_true_iff s : isbytes s = true ->
  (is_word s words_true = true <-> In (map toupper (cstr s)) true_words).
Proof.
  intros Bs. unfold is_word. destruct (strlen s =? 0) eqn:E0.
  - apply N.eqb_eq in E0. rewrite (strlen0_cstr s E0). cbn. split; [discriminate|].
    intros [H|[H|[H|[H|[]]]]]; discriminate.
  - rewrite is_word_from_iwf, iwf_true. rewrite !orb_true_iff.
    rewrite (word_check W1 w_1 s), (word_check W2 w_TRUE s), (word_check W3 w_YES s), (word_check W4 w_ON s);
      try exact Bs; try reflexivity; try (vm_compute; discriminate).
    cbn [true_words In]. intuition congruence.
Qed.

Lemma is_word_false_iff s : isbytes s = true ->
  (is_word s words_false = true <-> In (map toupper (cstr s)) false_words).
Proof.
  intros Bs. unfold is_word. destruct (strlen s =? 0) eqn:E0.
  - apply N.eqb_eq in E0. rewrite (strlen0_cstr s E0). cbn. split; [discriminate|].
    intros [H|[H|[H|[H|[]]]]]; discriminate.
  - rewrite is_word_from_iwf, iwf_false. rewrite !orb_true_iff.
    rewrite (word_check V1 w_0 s), (word_check V2 w_FALSE s), (word_check V3 w_NO s), (word_check V4 w_OFF s);
      try exact Bs; try reflexivity; try (vm_compute; discriminate).
    cbn [false_words In]. intuition congruence.
Qed.

(* ------------------------------------------------------------------------------------------ *)
(* strtol: closed form                                                                         *)
(* ------------------------------------------------------------------------------------------ *)
Fixpoint drop_while (p : N -> bool) (s : bytes) : bytes :=
  match s with c :: r => if p c then drop_while p r else s | [] => [] end.
Fixpoint take_while (p : N -> bool) (s : bytes) : bytes :=
  match s with c :: r => if p c then c :: take_while p r else [] | [] => [] end.

Lemma take_drop_while p s : s = take_while p s ++ drop_while p s.
Proof. induction s as [|c r IH]; cbn; [reflexivity|]. destruct (p c); cbn; [now rewrite <- IH|reflexivity]. Qed.
Lemma take_while_all p s : forallb p (take_while p s) = true.
Proof. induction s as [|c r IH]; cbn; [reflexivity|]. destruct (p c) eqn:E; cbn; [now rewrite E|reflexivity]. Qed.
Lemma drop_while_hd p s : p 0 = false -> p (hd0 (drop_while p s)) = false.
Proof. intros H0. induction s as [|c r IH]; cbn; [exact H0|]. destruct (p c) eqn:E; [exact IH|cbn; exact E]. Qed.
Lemma drop_while_app p a b : forallb p a = true -> p (hd0 b) = false -> drop_while p (a ++ b) = b.
Proof.
  intros Ha Hb. induction a as [|c r IH]; cbn in *.
  - destruct b as [|x y]; cbn in *; [reflexivity|now rewrite Hb].
  - apply andb_prop in Ha as [H1 H2]. rewrite H1. now apply IH.
Qed.
Lemma take_while_app p a b : forallb p a = true -> p (hd0 b) = false -> take_while p (a ++ b) = a.
Proof.
  intros Ha Hb. induction a as [|c r IH]; cbn in *.
  - destruct b as [|x y]; cbn in *; [reflexivity|now rewrite Hb].
  - apply andb_prop in Ha as [H1 H2]. rewrite H1. f_equal. now apply IH.
Qed.

Lemma skip_ws_eq s : skip_ws s = drop_while isspace s.
Proof. induction s as [|c r IH]; cbn; [reflexivity|]. destruct (isspace c); [exact IH|reflexivity]. Qed.

Lemma digits_val_eq s : forall acc,
  digits_val acc s = (fold_left (fun a c => (a * 10 + Z.of_N (c - 48))%Z) (take_while isdigit s) acc, drop_while isdigit s).
Proof. induction s as [|c r IH]; intros acc; cbn; [reflexivity|]. destruct (isdigit c); cbn; [apply IH|reflexivity]. Qed.

Definition strip_sign (s : bytes) : bytes := if (hd0 s =? 45) || (hd0 s =? 43) then tl0 s else s.

Lemma strtol10_eq u :
  strtol10 u =
  let s1 := drop_while isspace u in
  let s2 := strip_sign s1 in
  if isdigit (hd0 s2)
  then (clamp_long (if hd0 s1 =? 45 then (- decval (take_while isdigit s2))%Z else decval (take_while isdigit s2)),
        drop_while isdigit s2, true)
  else (0%Z, u, false).
Proof.
  unfold strtol10, strip_sign. rewrite skip_ws_eq. cbn zeta.
  destruct (drop_while isspace u) as [|c r]; [reflexivity|]. cbn [hd0 tl0].
  destruct (c =? 45) eqn:E1; cbn [orb].
  - destruct (isdigit (hd0 r)); [|reflexivity]. rewrite digits_val_eq. reflexivity.
  - destruct (c =? 43) eqn:E2.
    + destruct (isdigit (hd0 r)); [|reflexivity]. rewrite digits_val_eq. reflexivity.
    + cbn [hd0]. destruct (isdigit c); [|reflexivity]. rewrite digits_val_eq. reflexivity.
Qed.

(* ------------------------------------------------------------------------------------------ *)
(* the size suffix                                                                             *)
(* ------------------------------------------------------------------------------------------ *)
Definition is_unit_char (c : N) : bool := (c =? 75) || (c =? 77) || (c =? 71) || (c =? 84).
Definition strip_unit (e : bytes) : bytes := if is_unit_char (hd0 e) then tl0 e else e.
Definition strip_tail (e : bytes) : bytes :=
  if (hd0 e =? 73) && (hd0 (tl0 e) =? 66) then tl0 (tl0 e) else if hd0 e =? 66 then tl0 e else e.

(* the multiplier (in KiB) selected by the unit character; 0 = no unit: the value is in bytes *)
Definition unit_mult (c : N) : N :=
  if c =? 75 then 1 else if c =? 77 then MI_KiB_ else if c =? 71 then MI_MiB_ else if c =? 84 then MI_GiB_ else 0.

(* the documented value of a size option in KiB, saturated *)
Definition kib_value (v : Z) (unitc : N) : Z :=
  let size := Z.to_N (Z.max 0 v) in
  let raw := if unit_mult unitc =? 0 then (size + 1023) / 1024 else size * unit_mult unitc in
  Z.of_N (if MI_MAX_ALLOC_SIZE <? raw then MI_MAX_ALLOC_SIZE / 1024 else raw).

Definition sat_kib (raw : N) : N := if MI_MAX_ALLOC_SIZE <? raw then MI_MAX_ALLOC_SIZE / MI_KiB_ else raw.

Lemma sat_final_small raw : raw < W64 ->
  (let s := if false || (MI_MAX_ALLOC_SIZE <? raw) then MI_MAX_ALLOC_SIZE / MI_KiB_ else raw in
   if (LONG_MAX_ <? Z.of_N s)%Z then LONG_MAX_ else Z.of_N s) = Z.of_N (sat_kib raw).
Proof.
  intros Hr. cbn zeta. cbn [orb]. unfold sat_kib.
  destruct (MI_MAX_ALLOC_SIZE <? raw) eqn:Em.
  - vm_compute. reflexivity.
  - apply N.ltb_ge in Em. destruct (LONG_MAX_ <? Z.of_N raw)%Z eqn:El; [|reflexivity].
    apply Z.ltb_lt in El. exfalso. unfold MI_MAX_ALLOC_SIZE, LONG_MAX_ in *. lia.
Qed.

Lemma sat_final_mul size m : 0 < m ->
  (let '(o, w) := mul_overflow size m in
   let s := if o || (MI_MAX_ALLOC_SIZE <? w) then MI_MAX_ALLOC_SIZE / MI_KiB_ else w in
   if (LONG_MAX_ <? Z.of_N s)%Z then LONG_MAX_ else Z.of_N s) = Z.of_N (sat_kib (size * m)).
Proof.
  intros Hm. unfold mul_overflow. rewrite wrap_mod.
  destruct (W64 <=? size * m) eqn:Eo.
  - apply N.leb_le in Eo. cbn [orb]. unfold sat_kib.
    replace (MI_MAX_ALLOC_SIZE <? size * m) with true.
    + vm_compute. reflexivity.
    + symmetry. apply N.ltb_lt. rewrite W64_val in Eo. unfold MI_MAX_ALLOC_SIZE. lia.
  - apply N.leb_gt in Eo. rewrite N.mod_small by exact Eo. apply sat_final_small. exact Eo.
Qed.

Lemma parse_size_suffix_eq v e : (LONG_MIN_ <= v <= LONG_MAX_)%Z ->
  parse_size_suffix v e = (kib_value v (hd0 e), strip_tail (strip_unit e)).
Proof.
  intros Hv. unfold parse_size_suffix, kib_value, strip_unit, unit_mult, is_unit_char.
  assert (Hsz : (if (v <? 0)%Z then 0 else Z.to_N v) = Z.to_N (Z.max 0 v)).
  { destruct (v <? 0)%Z eqn:E; [apply Z.ltb_lt in E|apply Z.ltb_ge in E]; [rewrite Z.max_l by lia; reflexivity|rewrite Z.max_r by lia; reflexivity]. }
  rewrite Hsz. set (size := Z.to_N (Z.max 0 v)).
  assert (Hb : size < 2 ^ 63).
  { unfold size. unfold LONG_MAX_, LONG_MIN_ in Hv. lia. }
  fold (sat_kib (if (if hd0 e =? 75 then 1 else if hd0 e =? 77 then MI_KiB_ else if hd0 e =? 71 then MI_MiB_ else if hd0 e =? 84 then MI_GiB_ else 0) =? 0
                 then (size + 1023) / 1024
                 else size * (if hd0 e =? 75 then 1 else if hd0 e =? 77 then MI_KiB_ else if hd0 e =? 71 then MI_MiB_ else if hd0 e =? 84 then MI_GiB_ else 0))).
  destruct (hd0 e =? 75) eqn:EK; cbn [orb].
  { cbn match. f_equal. change (1 =? 0) with false. cbn match. rewrite N.mul_1_r.
    apply sat_final_small. rewrite W64_val. lia. }
  destruct (hd0 e =? 77) eqn:EM; cbn [orb].
  { pose proof (sat_final_mul size MI_KiB_) as H. destruct (mul_overflow size MI_KiB_) as [o w].
    cbn match. f_equal. change (MI_KiB_ =? 0) with false. cbn match. apply H. reflexivity. }
  destruct (hd0 e =? 71) eqn:EG; cbn [orb].
  { pose proof (sat_final_mul size MI_MiB_) as H. destruct (mul_overflow size MI_MiB_) as [o w].
    cbn match. f_equal. change (MI_MiB_ =? 0) with false. cbn match. apply H. reflexivity. }
  destruct (hd0 e =? 84) eqn:ET; cbn [orb].
  { pose proof (sat_final_mul size MI_GiB_) as H. destruct (mul_overflow size MI_GiB_) as [o w].
    cbn match. f_equal. change (MI_GiB_ =? 0) with false. cbn match. apply H. reflexivity. }
  cbn match. f_equal. change (0 =? 0) with true. cbn match.
  assert (Hw : wsub (wadd size MI_KiB_) 1 / MI_KiB_ = (size + 1023) / 1024).
  { change MI_KiB_ with 1024. unfold wadd, wsub. rewrite wrap_mod, W64_val. rewrite N.mod_small by lia.
    replace (1 <=? size + 1024) with true by (symmetry; apply N.leb_le; lia).
    f_equal. lia. }
  rewrite Hw. apply sat_final_small.
  assert ((size + 1023) / 1024 <= size + 1023) by (apply N.div_le_upper_bound; lia).
  rewrite W64_val. lia.
Qed.

Lemma clamp_long_range v : (LONG_MIN_ <= clamp_long v <= LONG_MAX_)%Z.
Proof.
  unfold clamp_long. change LONG_MAX_ with 9223372036854775807%Z. change LONG_MIN_ with (-9223372036854775808)%Z.
  destruct (9223372036854775807 <? v)%Z eqn:E1; [lia|]. apply Z.ltb_ge in E1.
  destruct (v <? -9223372036854775808)%Z eqn:E2; [lia|]. apply Z.ltb_ge in E2. lia.
Qed.

(* ------------------------------------------------------------------------------------------ *)
(* the decision of mi_option_init on a value                                                   *)
(* ------------------------------------------------------------------------------------------ *)
Definition isnil (s : bytes) : bool := match s with [] => true | _ => false end.

Lemma nonul_hd0 e : nonul e = true -> (hd0 e =? 0) = isnil e.
Proof. destruct e as [|c r]; cbn; [reflexivity|]. intros H. apply andb_prop in H as [H _]. now destruct (c =? 0). Qed.
Lemma nonul_tl0 e : nonul e = true -> nonul (tl0 e) = true.
Proof. destruct e as [|c r]; cbn; [reflexivity|]. intros H. now apply andb_prop in H as [_ H]. Qed.
Lemma nonul_drop_while p s : nonul s = true -> nonul (drop_while p s) = true.
Proof. induction s as [|c r IH]; cbn; [reflexivity|]. intros H. destruct (p c); [apply IH; now apply andb_prop in H as [_ H]|exact H]. Qed.
Lemma nonul_strip_sign s : nonul s = true -> nonul (strip_sign s) = true.
Proof. intros H. unfold strip_sign. destruct (_ || _); [now apply nonul_tl0|exact H]. Qed.
Lemma nonul_strip_unit s : nonul s = true -> nonul (strip_unit s) = true.
Proof. intros H. unfold strip_unit. destruct (is_unit_char _); [now apply nonul_tl0|exact H]. Qed.
Lemma nonul_strip_tail s : nonul s = true -> nonul (strip_tail s) = true.
Proof. intros H. unfold strip_tail. destruct (_ && _); [now apply nonul_tl0, nonul_tl0|]. destruct (_ =? 66); [now apply nonul_tl0|exact H]. Qed.
Lemma cstr_nonul s : nonul s = true -> cstr s = s.
Proof. induction s as [|c r IH]; cbn; [reflexivity|]. intros H. apply andb_prop in H as [H1 H2]. destruct (c =? 0); [discriminate|]. now rewrite IH. Qed.

Definition scan_value (s1 s2 : bytes) : Z :=
  clamp_long (if hd0 s1 =? 45 then (- decval (take_while isdigit s2))%Z else decval (take_while isdigit s2)).

Lemma parse_value_num kib u :
  hd0 u <> 0 -> is_word u words_true = false -> is_word u words_false = false ->
  parse_value kib u =
  let s1 := drop_while isspace u in
  let s2 := strip_sign s1 in
  let e := drop_while isdigit s2 in
  if isdigit (hd0 s2) then
    if kib then (if hd0 (strip_tail (strip_unit e)) =? 0 then PNum (kib_value (scan_value s1 s2) (hd0 e)) else PInvalid)
    else (if hd0 e =? 0 then PNum (scan_value s1 s2) else PInvalid)
  else PInvalid.
Proof.
  intros H0 Ht Hf. unfold parse_value. apply N.eqb_neq in H0. rewrite H0, Ht, Hf. cbn [orb].
  rewrite strtol10_eq. cbn zeta. fold (scan_value (drop_while isspace u) (strip_sign (drop_while isspace u))).
  destruct (isdigit (hd0 (strip_sign (drop_while isspace u)))).
  - destruct kib; cbn [andb].
    + rewrite parse_size_suffix_eq by apply clamp_long_range. reflexivity.
    + reflexivity.
  - cbn [andb]. rewrite H0. reflexivity.
Qed.

(* boolean form of the grammar and of "malformed" *)
Definition suffix_b (kib : bool) (e : bytes) : bool := if kib then isnil (strip_tail (strip_unit e)) else isnil e.
Definition grammar_b (kib : bool) (u : bytes) : bool :=
  let s2 := strip_sign (drop_while isspace u) in
  isdigit (hd0 s2) && suffix_b kib (drop_while isdigit s2).
Fixpoint bytes_eqb (a b : bytes) : bool :=
  match a, b with
  | [], [] => true
  | x :: a', y :: b' => (x =? y) && bytes_eqb a' b'
  | _, _ => false
  end.
Definition all_words : list bytes := true_words ++ false_words.
Definition word_b (u : bytes) : bool := existsb (bytes_eqb (map toupper u)) all_words.
(* malformed: not empty, not one of the eight words (in any letter case), not a number of the grammar *)
Definition malformed_b (kib : bool) (u : bytes) : bool :=
  negb (isnil u) && negb (word_b u) && negb (grammar_b kib u).

Lemma bytes_eqb_eq a : forall b, bytes_eqb a b = true <-> a = b.
Proof.
  induction a as [|x a' IH]; intros [|y b']; cbn; try (split; [discriminate|discriminate]); [tauto|].
  rewrite andb_true_iff, N.eqb_eq, IH. split; [intros [-> ->]; reflexivity|intros H; inversion H; auto].
Qed.
Lemma word_b_iff u : word_b u = true <-> In (map toupper u) all_words.
Proof.
  unfold word_b. rewrite existsb_exists. split.
  - intros (w & Hin & He). apply bytes_eqb_eq in He. now subst.
  - intros H. exists (map toupper u). split; [exact H|]. now apply bytes_eqb_eq.
Qed.

Lemma words_disjoint x : In x true_words -> In x false_words -> False.
Proof.
  cbn. intros [<-|[<-|[<-|[<-|[]]]]] [H|[H|[H|[H|[]]]]]; discriminate.
Qed.

Theorem parse_invalid_iff kib u : nonul u = true -> isbytes u = true ->
  (parse_value kib u = PInvalid <-> malformed_b kib u = true).
Proof.
  intros Hn Hb. unfold malformed_b.
  destruct u as [|c0 r0] eqn:Eu; [cbn; split; discriminate|]. rewrite <- Eu in *. replace (isnil u) with false by (now subst u).
  cbn [negb andb].
  assert (H0 : hd0 u <> 0). { pose proof (nonul_hd0 u Hn) as H. subst u. cbn in *. now apply N.eqb_neq. }
  pose proof (is_word_true_iff u Hb) as Ht. pose proof (is_word_false_iff u Hb) as Hf.
  rewrite (cstr_nonul u Hn) in Ht, Hf.
  destruct (is_word u words_true) eqn:Et.
  - replace (word_b u) with true.
    + unfold parse_value. rewrite Et, orb_true_r. cbn. split; discriminate.
    + symmetry. apply word_b_iff. unfold all_words. apply in_or_app. left. now apply Ht.
  - destruct (is_word u words_false) eqn:Ef.
    + replace (word_b u) with true.
      * unfold parse_value. rewrite Et, Ef. apply N.eqb_neq in H0. rewrite H0. cbn. split; discriminate.
      * symmetry. apply word_b_iff. unfold all_words. apply in_or_app. right. now apply Hf.
    + replace (word_b u) with false.
      2:{ symmetry. destruct (word_b u) eqn:Ew; [|reflexivity]. apply word_b_iff in Ew. unfold all_words in Ew.
          apply in_app_or in Ew as [Ew|Ew]; [apply Ht in Ew|apply Hf in Ew]; discriminate. }
      cbn [negb andb]. rewrite (parse_value_num kib u H0 Et Ef). cbn zeta. unfold grammar_b, suffix_b.
      set (s2 := strip_sign (drop_while isspace u)).
      assert (Hn2 : nonul s2 = true) by (apply nonul_strip_sign, nonul_drop_while; exact Hn).
      destruct (isdigit (hd0 s2)); cbn [andb negb]; [|tauto].
      destruct kib.
      * rewrite (nonul_hd0 _ (nonul_strip_tail _ (nonul_strip_unit _ (nonul_drop_while isdigit s2 Hn2)))).
        destruct (isnil _); cbn; split; congruence.
      * rewrite (nonul_hd0 _ (nonul_drop_while isdigit s2 Hn2)).
        destruct (isnil _); cbn; split; congruence.
Qed.

(* the boolean grammar is the declarative one *)
Lemma digit_not_space c : isdigit c = true -> isspace c = false.
Proof.
  unfold isdigit, isspace. intros H. apply andb_prop in H as [H1 H2]. apply N.leb_le in H1, H2.
  replace (c =? 32) with false by (symmetry; apply N.eqb_neq; lia).
  replace (c <=? 13) with false by (symmetry; apply N.leb_gt; lia). now rewrite andb_false_r.
Qed.
Lemma digit_props c : isdigit c = true -> (c =? 45) = false /\ (c =? 43) = false /\ c <> 0.
Proof.
  unfold isdigit. intros H. apply andb_prop in H as [H1 H2]. apply N.leb_le in H1, H2.
  split; [apply N.eqb_neq; lia|]. split; [apply N.eqb_neq; lia|lia].
Qed.

Lemma hd0_app_ne a b : a <> [] -> hd0 (a ++ b) = hd0 a.
Proof. destruct a; [congruence|reflexivity]. Qed.
Lemma forallb_hd p a : a <> [] -> forallb p a = true -> p (hd0 a) = true.
Proof. destruct a; [congruence|]. cbn. intros _ H. now apply andb_prop in H as [H _]. Qed.

Lemma suffix_cases kib suf : is_suffix kib suf ->
  isdigit (hd0 suf) = false /\ suffix_b kib suf = true.
Proof.
  intros [->|(-> & un & tl & -> & Hu & Ht)]; [destruct kib; split; reflexivity|].
  destruct Hu as [->|[->|[->|[->| ->]]]]; destruct Ht as [->|[->| ->]]; split; reflexivity.
Qed.

Lemma grammar_scan ws sg ds suf :
  forallb isspace ws = true -> is_sign sg -> ds <> [] -> forallb isdigit ds = true -> isdigit (hd0 suf) = false ->
  let u := ws ++ sg ++ ds ++ suf in
  drop_while isspace u = sg ++ ds ++ suf /\
  strip_sign (drop_while isspace u) = ds ++ suf /\
  hd0 (drop_while isspace u) = hd0 (sg ++ ds) /\
  take_while isdigit (ds ++ suf) = ds /\ drop_while isdigit (ds ++ suf) = suf /\
  isdigit (hd0 (ds ++ suf)) = true.
Proof.
  intros Hws Hsg Hne Hds Hsuf. cbn zeta.
  pose proof (forallb_hd isdigit ds Hne Hds) as Hd0.
  destruct (digit_props _ Hd0) as (D45 & D43 & _).
  assert (Hsp : isspace (hd0 (sg ++ ds ++ suf)) = false).
  { destruct Hsg as [->|[->| ->]]; [|reflexivity|reflexivity]. cbn [app]. rewrite hd0_app_ne by exact Hne. now apply digit_not_space. }
  rewrite (drop_while_app isspace ws _ Hws Hsp).
  split; [reflexivity|]. split; [|split; [|split; [|split]]].
  - unfold strip_sign. destruct Hsg as [->|[->| ->]]; [|reflexivity|reflexivity].
    cbn [app]. rewrite hd0_app_ne by exact Hne. now rewrite D45, D43.
  - destruct Hsg as [->|[->| ->]]; [|reflexivity|reflexivity]. cbn [app]. now rewrite !hd0_app_ne by exact Hne.
  - now apply take_while_app.
  - now apply drop_while_app.
  - now rewrite hd0_app_ne by exact Hne.
Qed.

Lemma grammar_b_iff kib u : grammar_b kib u = true <-> Grammar kib u.
Proof.
  split.
  - unfold grammar_b. cbn zeta. intros H. apply andb_prop in H as [Hd Hs].
    set (s1 := drop_while isspace u) in *. set (s2 := strip_sign s1) in *.
    exists (take_while isspace u),
           (if (hd0 s1 =? 45) || (hd0 s1 =? 43) then [hd0 s1] else []),
           (take_while isdigit s2), (drop_while isdigit s2).
    split; [|split; [|split; [|split; [|split]]]].
    + rewrite <- (take_drop_while isdigit s2). unfold s2, strip_sign.
      rewrite (take_drop_while isspace u) at 1. fold s1. f_equal.
      destruct s1 as [|c r]; [reflexivity|]. cbn [hd0 tl0]. destruct (_ || _); reflexivity.
    + apply take_while_all.
    + destruct (hd0 s1 =? 45) eqn:E1; [apply N.eqb_eq in E1; rewrite E1; right; right; reflexivity|].
      destruct (hd0 s1 =? 43) eqn:E2; [apply N.eqb_eq in E2; rewrite E2; right; left; reflexivity|]. now left.
    + destruct s2 as [|c r]; [discriminate|]. cbn [hd0] in Hd. cbn. rewrite Hd. discriminate.
    + apply take_while_all.
    + unfold suffix_b in Hs. destruct kib.
      * right. split; [reflexivity|]. set (e := drop_while isdigit s2) in *.
        unfold strip_unit, is_unit_char in Hs.
        assert (Ht : forall e1, isnil (strip_tail e1) = true -> is_tail e1).
        { intros e1. unfold strip_tail. destruct e1 as [|a [|b r]]; cbn; [now left|..].
          - destruct (a =? 66) eqn:E; [apply N.eqb_eq in E; subst; intros _; right; left; reflexivity|].
            rewrite andb_false_r. discriminate.
          - destruct ((a =? 73) && (b =? 66)) eqn:E.
            + apply andb_prop in E as [Ea Eb]. apply N.eqb_eq in Ea, Eb. subst. destruct r; [|discriminate]. intros _. right; right; reflexivity.
            + destruct (a =? 66); discriminate. }
        destruct e as [|c r]; [exists [], []; repeat split; now left|]. cbn [hd0 tl0] in Hs.
        destruct (c =? 75) eqn:E1; [apply N.eqb_eq in E1; subst; exists [75], r; cbn; repeat split; [right; left; reflexivity|now apply Ht]|].
        destruct (c =? 77) eqn:E2; [apply N.eqb_eq in E2; subst; exists [77], r; cbn; repeat split; [right; right; left; reflexivity|now apply Ht]|].
        destruct (c =? 71) eqn:E3; [apply N.eqb_eq in E3; subst; exists [71], r; cbn; repeat split; [right; right; right; left; reflexivity|now apply Ht]|].
        destruct (c =? 84) eqn:E4; [apply N.eqb_eq in E4; subst; exists [84], r; cbn; repeat split; [right; right; right; right; reflexivity|now apply Ht]|].
        cbn [orb] in Hs. exists [], (c :: r). repeat split; [now left|now apply Ht].
      * left. destruct (drop_while isdigit s2); [reflexivity|discriminate].
  - intros (ws & sg & ds & suf & -> & Hws & Hsg & Hne & Hds & Hsuf).
    destruct (suffix_cases kib suf Hsuf) as [Hd Hsb].
    destruct (grammar_scan ws sg ds suf Hws Hsg Hne Hds Hd) as (E1 & E2 & _ & _ & E4 & E5).
    unfold grammar_b. cbn zeta. rewrite E2, E5, E4, Hsb. reflexivity.
Qed.

(* the documented values *)
Lemma numeric_not_word u : isbytes u = true -> nonul u = true ->
  (isdigit (hd0 u) || isspace (hd0 u) || (hd0 u =? 43) || (hd0 u =? 45)) = true ->
  u <> w_1 -> u <> w_0 ->
  is_word u words_true = false /\ is_word u words_false = false.
Proof.
  intros Hb Hn Hc H1 H0.
  assert (Hup : toupper (hd0 u) = hd0 u).
  { unfold toupper. destruct ((97 <=? hd0 u) && (hd0 u <=? 122)) eqn:E; [|reflexivity]. exfalso.
    apply andb_prop in E as [Ea Eb]. apply N.leb_le in Ea, Eb.
    unfold isdigit, isspace in Hc. rewrite !orb_true_iff, !andb_true_iff, !N.eqb_eq, !N.leb_le in Hc. lia. }
  assert (Hnl : forall w, map toupper u = w -> hd0 w = hd0 u).
  { intros w <-. destruct u; [reflexivity|]. cbn in *. exact Hup. }
  assert (Hlet : forall w, In w [w_TRUE; w_YES; w_ON; w_FALSE; w_NO; w_OFF] -> map toupper u <> w).
  { intros w Hin Heq. apply Hnl in Heq. rewrite <- Heq in Hc.
    cbn in Hin. destruct Hin as [<-|[<-|[<-|[<-|[<-|[<-|[]]]]]]]; discriminate. }
  assert (Hone : forall d, map toupper u = [d] -> u = [d]).
  { intros d Heq. destruct u as [|c [|? ?]]; try discriminate. cbn in Heq, Hup. congruence. }
  pose proof (is_word_true_iff u Hb) as Ht. pose proof (is_word_false_iff u Hb) as Hf.
  rewrite (cstr_nonul u Hn) in Ht, Hf. split.
  - destruct (is_word u words_true); [|reflexivity]. exfalso.
    destruct Ht as [Ht _]. specialize (Ht eq_refl). cbn in Ht.
    destruct Ht as [E|[E|[E|[E|[]]]]]; symmetry in E;
      [apply H1; now apply Hone|apply (Hlet w_TRUE)|apply (Hlet w_YES)|apply (Hlet w_ON)]; cbn; auto 10.
  - destruct (is_word u words_false); [|reflexivity]. exfalso.
    destruct Hf as [Hf _]. specialize (Hf eq_refl). cbn in Hf.
    destruct Hf as [E|[E|[E|[E|[]]]]]; symmetry in E;
      [apply H0; now apply Hone|apply (Hlet w_FALSE)|apply (Hlet w_NO)|apply (Hlet w_OFF)]; cbn; auto 10.
Qed.

Lemma grammar_first_char ws sg ds suf :
  forallb isspace ws = true -> is_sign sg -> ds <> [] -> forallb isdigit ds = true ->
  let c := hd0 (ws ++ sg ++ ds ++ suf) in
  (isdigit c || isspace c || (c =? 43) || (c =? 45)) = true /\ c <> 0.
Proof.
  intros Hws Hsg Hne Hds. cbn zeta.
  pose proof (forallb_hd isdigit ds Hne Hds) as Hd0.
  destruct ws as [|w ws'].
  - cbn [app]. destruct Hsg as [->|[->| ->]]; [|split; [reflexivity|discriminate]|split; [reflexivity|discriminate]].
    cbn [app]. rewrite hd0_app_ne by exact Hne. rewrite Hd0. split; [reflexivity|]. now apply digit_props.
  - cbn in *. apply andb_prop in Hws as [Hw _]. rewrite Hw, orb_true_r. split; [reflexivity|].
    intros ->. discriminate.
Qed.

Theorem parse_number_value kib ws sg ds suf :
  forallb isspace ws = true -> is_sign sg -> ds <> [] -> forallb isdigit ds = true -> is_suffix kib suf ->
  let u := ws ++ sg ++ ds ++ suf in
  isbytes u = true -> nonul u = true -> u <> w_1 -> u <> w_0 ->
  parse_value kib u =
    PNum (if kib then kib_value (clamp_long (sign_apply sg (decval ds))) (hd0 suf)
          else clamp_long (sign_apply sg (decval ds))).
Proof.
  intros Hws Hsg Hne Hds Hsuf u Hb Hn H1 H0.
  destruct (grammar_first_char ws sg ds suf Hws Hsg Hne Hds) as [Hc Hc0]. fold u in Hc, Hc0.
  destruct (numeric_not_word u Hb Hn Hc H1 H0) as [Et Ef].
  rewrite (parse_value_num kib u Hc0 Et Ef). cbn zeta.
  destruct (suffix_cases kib suf Hsuf) as [Hd Hsb].
  destruct (grammar_scan ws sg ds suf Hws Hsg Hne Hds Hd) as (E1 & E2 & E3 & E4 & E5 & E6). fold u in E1, E2, E3.
  rewrite !E2, E6, E5. unfold scan_value. rewrite E3, E4.
  assert (Hsv : (if hd0 (sg ++ ds) =? 45 then (- decval ds)%Z else decval ds) = sign_apply sg (decval ds)).
  { unfold sign_apply. destruct Hsg as [->|[->| ->]]; [|reflexivity|reflexivity].
    cbn [app hd0]. pose proof (forallb_hd isdigit ds Hne Hds) as Hd0. destruct (digit_props _ Hd0) as (D45 & _). now rewrite D45. }
  rewrite Hsv. unfold suffix_b in Hsb. destruct kib.
  - assert (Hns : nonul suf = true).
    { unfold u in Hn. unfold nonul in *. rewrite !forallb_app in Hn. now repeat (apply andb_prop in Hn as [_ Hn]). }
    rewrite (nonul_hd0 _ (nonul_strip_tail _ (nonul_strip_unit suf Hns))), Hsb. reflexivity.
  - destruct suf; [reflexivity|discriminate].
Qed.

Lemma forallb_weaken (p q : N -> bool) l : (forall c, p c = true -> q c = true) -> forallb p l = true -> forallb q l = true.
Proof. intros H. induction l as [|c r IH]; cbn; [reflexivity|]. intros Hp. apply andb_prop in Hp as [H1 H2]. rewrite (H c H1). now apply IH. Qed.

Lemma grammar_bytes kib ws sg ds suf :
  forallb isspace ws = true -> is_sign sg -> forallb isdigit ds = true -> is_suffix kib suf ->
  isbytes (ws ++ sg ++ ds ++ suf) = true /\ nonul (ws ++ sg ++ ds ++ suf) = true.
Proof.
  intros Hws Hsg Hds Hsuf. unfold isbytes, nonul. rewrite !forallb_app.
  assert (A1 : forallb (fun c => c <? 256) ws = true /\ forallb (fun c => negb (c =? 0)) ws = true).
  { split; apply (forallb_weaken isspace); try exact Hws; intros c Hc; unfold isspace in Hc;
    rewrite orb_true_iff, andb_true_iff, N.eqb_eq, !N.leb_le in Hc;
    [apply N.ltb_lt; lia|apply negb_true_iff, N.eqb_neq; lia]. }
  assert (A2 : forallb (fun c => c <? 256) ds = true /\ forallb (fun c => negb (c =? 0)) ds = true).
  { split; apply (forallb_weaken isdigit); try exact Hds; intros c Hc; unfold isdigit in Hc;
    rewrite andb_true_iff, !N.leb_le in Hc; [apply N.ltb_lt; lia|apply negb_true_iff, N.eqb_neq; lia]. }
  assert (A3 : forallb (fun c => c <? 256) sg = true /\ forallb (fun c => negb (c =? 0)) sg = true).
  { destruct Hsg as [->|[->| ->]]; split; reflexivity. }
  assert (A4 : forallb (fun c => c <? 256) suf = true /\ forallb (fun c => negb (c =? 0)) suf = true).
  { destruct Hsuf as [->|(_ & un & tl & -> & Hu & Ht)]; [split; reflexivity|].
    destruct Hu as [->|[->|[->|[->| ->]]]]; destruct Ht as [->|[->| ->]]; split; reflexivity. }
  destruct A1 as [-> ->], A2 as [-> ->], A3 as [-> ->], A4 as [-> ->]. split; reflexivity.
Qed.

(* ------------------------------------------------------------------------------------------ *)
(* option table: mi_option_set / mi_option_get / mi_option_set_default                         *)
(* ------------------------------------------------------------------------------------------ *)
Lemma length_tset t : forall i o, length (tset t i o) = length t.
Proof. induction t as [|x r IH]; intros [|i] o; cbn; try reflexivity. now rewrite IH. Qed.
Lemma tget_tset_eq t : forall i o, (i < length t)%nat -> tget (tset t i o) i = o.
Proof. unfold tget. induction t as [|x r IH]; intros [|i] o H; cbn in *; try lia; [reflexivity|]. apply IH. lia. Qed.
Lemma tget_tset_ne t : forall i j o, i <> j -> tget (tset t i o) j = tget t j.
Proof. unfold tget. induction t as [|x r IH]; intros [|i] [|j] o H; cbn; try reflexivity; try congruence. apply IH. congruence. Qed.
Lemma in_range_tset t i j o : in_range (tset t i o) j = in_range t j.
Proof. unfold in_range. now rewrite length_tset. Qed.
Lemma in_range_lt t i : in_range t i = true <-> (i < length t)%nat.
Proof. unfold in_range. apply Nat.ltb_lt. Qed.

Definition set1 (t : table) (i : nat) (v : Z) : table :=
  tset t i (mkopt v INITIALIZED (o_name (tget t i)) (o_legacy (tget t i))).

Lemma guarded_distinct : Nat.eqb opt_guarded_min opt_guarded_max = false.
Proof. reflexivity. Qed.

Lemma option_set_fuel_S f t j v :
  option_set_fuel (S f) t j v =
  if negb (in_range t j) then Some t else
  let t1 := set1 t j v in
  if Nat.eqb j opt_guarded_min && (o_value (tget t1 opt_guarded_max) <? v)%Z then option_set_fuel f t1 opt_guarded_max v
  else if Nat.eqb j opt_guarded_max && (v <? o_value (tget t1 opt_guarded_min))%Z then option_set_fuel f t1 opt_guarded_min v
  else Some t1.
Proof. reflexivity. Qed.

(* the nested call: option j (the other guarded option) is set, the value of option i (= v) stops the recursion *)
Lemma option_set_nested f t1 i j v :
  i <> j -> (i = opt_guarded_min /\ j = opt_guarded_max \/ i = opt_guarded_max /\ j = opt_guarded_min) ->
  o_value (tget t1 i) = v ->
  option_set_fuel (S f) t1 j v = Some (if in_range t1 j then set1 t1 j v else t1).
Proof.
  intros Hij Hc Hv. rewrite option_set_fuel_S. destruct (in_range t1 j) eqn:Rj; cbn [negb]; [|reflexivity]. cbn zeta.
  assert (Hk : o_value (tget (set1 t1 j v) i) = v) by (unfold set1; rewrite tget_tset_ne by congruence; exact Hv).
  destruct Hc as [[-> ->]|[-> ->]].
  - replace (Nat.eqb opt_guarded_max opt_guarded_min) with false by (symmetry; apply Nat.eqb_neq; congruence).
    rewrite Nat.eqb_refl, Hk, Z.ltb_irrefl. reflexivity.
  - rewrite Nat.eqb_refl, Hk, Z.ltb_irrefl. cbn [andb].
    replace (Nat.eqb opt_guarded_min opt_guarded_max) with false by (symmetry; apply Nat.eqb_neq; congruence). reflexivity.
Qed.

Lemma option_set_spec t i v : in_range t i = true ->
  exists t', option_set t i v = Some t' /\ length t' = length t /\
             o_value (tget t' i) = v /\ o_init (tget t' i) = INITIALIZED /\
             (forall j, j <> i -> j <> opt_guarded_min -> j <> opt_guarded_max -> tget t' j = tget t j).
Proof.
  intros Hr. pose proof Hr as Hlt. apply in_range_lt in Hlt.
  pose proof guarded_distinct as Hgd. apply Nat.eqb_neq in Hgd.
  unfold option_set. rewrite option_set_fuel_S, Hr. cbn [negb]. cbn zeta.
  assert (Hi : tget (set1 t i v) i = mkopt v INITIALIZED (o_name (tget t i)) (o_legacy (tget t i))) by (apply tget_tset_eq; exact Hlt).
  assert (Hl1 : length (set1 t i v) = length t) by apply length_tset.
  assert (Ho1 : forall j, j <> i -> tget (set1 t i v) j = tget t j) by (intros j Hj; apply tget_tset_ne; congruence).
  assert (Hnest : forall j, i <> j ->
            exists t', (if in_range (set1 t i v) j then set1 (set1 t i v) j v else set1 t i v) = t' /\ length t' = length t /\
              o_value (tget t' i) = v /\ o_init (tget t' i) = INITIALIZED /\
              (forall k, k <> i -> k <> j -> tget t' k = tget t k)).
  { intros j Hij. eexists. split; [reflexivity|]. destruct (in_range (set1 t i v) j).
    - unfold set1 at 1 3 5 7. rewrite length_tset, !tget_tset_ne by congruence. rewrite Hi, Hl1. repeat split.
      intros k K1 K2. unfold set1 at 1. rewrite tget_tset_ne by congruence. now apply Ho1.
    - rewrite Hi, Hl1. repeat split. intros k K1 _. now apply Ho1. }
  destruct (Nat.eqb i opt_guarded_min && (o_value (tget (set1 t i v) opt_guarded_max) <? v)%Z) eqn:C1.
  - apply andb_prop in C1 as [Ei _]. apply Nat.eqb_eq in Ei.
    rewrite (option_set_nested 1 (set1 t i v) i opt_guarded_max v); [|congruence|left; split; [exact Ei|reflexivity]|now rewrite Hi].
    destruct (Hnest opt_guarded_max ltac:(congruence)) as (t' & <- & A & B & C & D).
    eexists. split; [reflexivity|]. repeat split; try assumption. intros j J1 J2 J3. now apply D.
  - destruct (Nat.eqb i opt_guarded_max && (v <? o_value (tget (set1 t i v) opt_guarded_min))%Z) eqn:C2.
    + apply andb_prop in C2 as [Ei _]. apply Nat.eqb_eq in Ei.
      rewrite (option_set_nested 1 (set1 t i v) i opt_guarded_min v); [|congruence|right; split; [exact Ei|reflexivity]|now rewrite Hi].
      destruct (Hnest opt_guarded_min ltac:(congruence)) as (t' & <- & A & B & C & D).
      eexists. split; [reflexivity|]. repeat split; try assumption. intros j J1 J2 J3. now apply D.
    + exists (set1 t i v). repeat split; try assumption; try (now rewrite Hi). intros j J1 _ _. now apply Ho1.
Qed.

Lemma set_get_roundtrip_lemma t i v env pre s0 b0 : in_range t i = true ->
  exists t', option_set t i v = Some t' /\ option_get t' i env pre s0 b0 = Some (v, t', false) /\
             o_init (tget t' i) = INITIALIZED.
Proof.
  intros Hr. destruct (option_set_spec t i v Hr) as (t' & Hs & Hl & Hv & Hi & _).
  exists t'. split; [exact Hs|]. split; [|exact Hi].
  unfold option_get. unfold in_range in *. rewrite Hl, Hr. cbn [negb]. rewrite Hi. cbn. now rewrite Hv.
Qed.

Lemma set_default_lemma t i v : in_range t i = true ->
  let t' := option_set_default t i v in
  o_init (tget t' i) = o_init (tget t i) /\
  o_value (tget t' i) = (if o_init (tget t i) =? INITIALIZED then o_value (tget t i) else v) /\
  (forall j, j <> i -> tget t' j = tget t j).
Proof.
  intros Hr. cbn zeta. unfold option_set_default. rewrite Hr. cbn [negb]. apply in_range_lt in Hr.
  destruct (o_init (tget t i) =? INITIALIZED); cbn [negb].
  - repeat split.
  - rewrite tget_tset_eq by exact Hr. repeat split. intros j Hj. apply tget_tset_ne. congruence.
Qed.

(* an option that is out of range is ignored by all three *)
Lemma out_of_range_lemma t i v env pre s0 b0 : in_range t i = false ->
  option_set t i v = Some t /\ option_set_default t i v = t /\ option_get t i env pre s0 b0 = Some (0%Z, t, false).
Proof. intros Hr. unfold option_set, option_set_default, option_get. cbn [option_set_fuel]. rewrite Hr. repeat split. Qed.

(* ------------------------------------------------------------------------------------------ *)
(* mi_option_init after `found`: only the first 64 bytes of the value are looked at            *)
(* ------------------------------------------------------------------------------------------ *)
Lemma nthN_cstr l : forall i, i < lenN (cstr l) -> nthN (cstr l) i = nthN l i.
Proof.
  induction l as [|c r IH]; intros i H; cbn in *; [lia|].
  destruct (c =? 0); cbn in *; [lia|]. destruct (i =? 0) eqn:E; [reflexivity|]. apply N.eqb_neq in E. apply IH. lia.
Qed.
Lemma lenN_cstr_le l : lenN (cstr l) <= lenN l.
Proof. induction l as [|c r IH]; cbn; [lia|]. destruct (c =? 0); cbn; lia. Qed.
Lemma nonul_cstr l : nonul (cstr l) = true.
Proof. induction l as [|c r IH]; cbn; [reflexivity|]. destruct (c =? 0) eqn:E; cbn; [reflexivity|]. now rewrite E. Qed.

Lemma strnlen_nonul s : forall m, nonul s = true -> strnlen s m = N.min (lenN s) m.
Proof.
  induction s as [|c r IH]; intros m H; cbn in *; [lia|]. apply andb_prop in H as [H1 H2]. rewrite H1. cbn [andb].
  destruct (0 <? m) eqn:E; [apply N.ltb_lt in E; rewrite IH by exact H2; lia|apply N.ltb_ge in E; lia].
Qed.

Lemma lenN_takeN l : forall n, lenN (takeN n l) = N.min n (lenN l).
Proof. induction l as [|x r IH]; intros n; cbn; [lia|]. destruct (n =? 0) eqn:E; [apply N.eqb_eq in E; subst; cbn; lia|]. apply N.eqb_neq in E. cbn. rewrite IH. lia. Qed.
Lemma nthN_takeN l : forall n i, i < n -> nthN (takeN n l) i = nthN l i.
Proof.
  induction l as [|x r IH]; intros n i H; cbn; [reflexivity|]. destruct (n =? 0) eqn:E; [apply N.eqb_eq in E; lia|].
  cbn. destruct (i =? 0) eqn:F; [reflexivity|]. apply N.eqb_neq in F. apply IH. lia.
Qed.
Lemma takeN_all l : forall n, lenN l <= n -> takeN n l = l.
Proof. induction l as [|x r IH]; intros n H; cbn in *; [reflexivity|]. destruct (n =? 0) eqn:E; [apply N.eqb_eq in E; lia|]. f_equal. apply IH. lia. Qed.
Lemma nthN_map_toupper l : forall i, i < lenN l -> nthN (map toupper l) i = toupper (nthN l i).
Proof. induction l as [|x r IH]; intros i H; cbn in *; [lia|]. destruct (i =? 0) eqn:E; [reflexivity|]. apply N.eqb_neq in E. apply IH. lia. Qed.
Lemma lenN_map (f : N -> N) l : lenN (map f l) = lenN l.
Proof. induction l as [|x r IH]; cbn; [reflexivity|]. now rewrite IH. Qed.

Lemma toupper_nz c : c <> 0 -> toupper c <> 0.
Proof. unfold toupper. destruct ((97 <=? c) && (c <=? 122)) eqn:E; [|tauto]. apply andb_prop in E as [E1 E2]. apply N.leb_le in E1, E2. lia. Qed.
Lemma toupper_byte c : c < 256 -> toupper c < 256.
Proof. unfold toupper. destruct ((97 <=? c) && (c <=? 122)); lia. Qed.
Lemma nonul_map_toupper l : nonul l = true -> nonul (map toupper l) = true.
Proof.
  unfold nonul. induction l as [|c r IH]; cbn; [reflexivity|]. intros H. apply andb_prop in H as [H1 H2]. rewrite IH by exact H2.
  apply negb_true_iff, N.eqb_neq in H1. apply toupper_nz in H1. apply N.eqb_neq in H1. now rewrite H1.
Qed.
Lemma isbytes_map_toupper l : isbytes l = true -> isbytes (map toupper l) = true.
Proof.
  unfold isbytes. induction l as [|c r IH]; cbn; [reflexivity|]. intros H. apply andb_prop in H as [H1 H2]. rewrite IH by exact H2.
  apply N.ltb_lt in H1. apply toupper_byte in H1. apply N.ltb_lt in H1. now rewrite H1.
Qed.
Lemma nonul_takeN l : forall n, nonul l = true -> nonul (takeN n l) = true.
Proof. unfold nonul. induction l as [|c r IH]; intros n H; cbn in *; [reflexivity|]. destruct (n =? 0); [reflexivity|]. cbn. apply andb_prop in H as [H1 H2]. now rewrite H1, IH. Qed.
Lemma nonul_nth l : forall i, nonul l = true -> i < lenN l -> nthN l i <> 0.
Proof.
  induction l as [|c r IH]; intros i H Hi; cbn in *; [lia|]. apply andb_prop in H as [H1 H2].
  destruct (i =? 0) eqn:E; [now apply negb_true_iff, N.eqb_neq in H1|]. apply N.eqb_neq in E. apply IH; [exact H2|lia].
Qed.

(* a list that starts with the non-zero bytes p followed by a 0 holds the C string p *)
Lemma cstr_prefix p : forall l, nonul p = true -> lenN p < lenN l ->
  (forall i, i < lenN p -> nthN l i = nthN p i) -> nthN l (lenN p) = 0 -> cstr l = p.
Proof.
  induction p as [|c r IH]; intros l Hn Hl Hp Hz.
  - destruct l as [|x y]; [reflexivity|]. cbn in Hz. subst x. reflexivity.
  - destruct l as [|x y]; [cbn in Hl; lia|]. cbn in Hn. apply andb_prop in Hn as [Hc Hn].
    pose proof (Hp 0) as H0. cbn in H0. rewrite H0 by lia. cbn [cstr].
    apply negb_true_iff in Hc. rewrite Hc. f_equal. apply IH.
    + exact Hn.
    + cbn in Hl. lia.
    + intros i Hi. specialize (Hp (i + 1)). cbn in Hp.
      replace (i + 1 =? 0) with false in Hp by (symmetry; apply N.eqb_neq; lia).
      replace (i + 1 - 1) with i in Hp by lia. apply Hp. lia.
    + cbn in Hz. replace (N.succ (lenN r) =? 0) with false in Hz by (symmetry; apply N.eqb_neq; lia).
      now replace (N.succ (lenN r) - 1) with (lenN r) in Hz by lia.
Qed.

Lemma upcase_loop_spec k : forall i s b,
  fault s = false -> fault b = false -> i + N.of_nat k <= blen s -> i + N.of_nat k <= blen b ->
  let '(s', b') := upcase_loop k i s b in
  s' = s /\ fault b' = false /\ blen b' = blen b /\
  (forall j, i <= j < i + N.of_nat k -> bget b' j = toupper (bget s j)) /\
  (forall j, j < i \/ i + N.of_nat k <= j -> bget b' j = bget b j).
Proof.
  induction k as [|k IH]; intros i s b Fs Fb Hs Hb; cbn [upcase_loop].
  - repeat split; try assumption. intros j Hj. lia.
  - rewrite bread_in by lia.
    specialize (IH (i + 1) s (bput b i (toupper (bget s i))) Fs).
    destruct (upcase_loop k (i + 1) s (bput b i (toupper (bget s i)))) as [s' b'].
    destruct IH as (Es & Fb' & Lb' & P & O); [rewrite fault_bput; [exact Fb|lia]|lia|rewrite blen_bput; lia|].
    rewrite blen_bput in Lb'. repeat split; try assumption.
    + intros j Hj. destruct (N.eq_dec j i) as [->|Hne].
      * rewrite O by lia. apply bget_bput_eq. lia.
      * apply P. lia.
    + intros j Hj. rewrite O by lia. apply bget_bput_ne. lia.
Qed.

Lemma option_init_found_spec t i s b :
  fault s = false -> fault b = false -> 65 <= blen b ->
  let '(r, s', b') := option_init_found t i s b in
  r = apply_pres t i (parse_value (has_size_in_kib i) (map toupper (takeN 64 (bstr s 0)))) /\
  fault s' = false /\ fault b' = false /\ blen b' = blen b.
Proof.
  intros Fs Fb Lb. unfold option_init_found.
  set (v := bstr s 0). assert (Hvn : nonul v = true) by apply nonul_cstr.
  rewrite (strnlen_nonul v 64 Hvn). set (len := N.min (lenN v) 64).
  assert (Hvs : lenN v <= blen s). { unfold v, bstr, blen. cbn [dropN]. destruct (bdata s); [cbn; lia|]. replace (0 =? 0) with true by reflexivity. apply lenN_cstr_le. }
  pose proof (upcase_loop_spec (N.to_nat len) 0 s b Fs Fb) as H.
  destruct (upcase_loop (N.to_nat len) 0 s b) as [s' b'].
  destruct H as (Es & Fb' & Lb' & P & O); [lia|lia|]. subst s'.
  assert (Hput : fault (bput b' len 0) = false /\ blen (bput b' len 0) = blen b).
  { split; [rewrite fault_bput; [exact Fb'|lia]|rewrite blen_bput; exact Lb']. }
  destruct Hput as [Fp Lp]. split; [|repeat split; assumption].
  f_equal. f_equal. unfold bstr at 1. 
  assert (Hd0 : forall l, dropN l 0 = l) by (intros [|x y]; reflexivity). rewrite Hd0.
  apply cstr_prefix.
  - apply nonul_map_toupper, nonul_takeN, Hvn.
  - rewrite lenN_map, lenN_takeN. fold (blen (bput b' len 0)). rewrite Lp. lia.
  - intros j Hj. rewrite lenN_map, lenN_takeN in Hj. fold (bget (bput b' len 0) j).
    rewrite bget_bput_ne by (unfold len; lia). rewrite P by (unfold len; lia).
    rewrite nthN_map_toupper by (rewrite lenN_takeN; lia). rewrite nthN_takeN by lia.
    f_equal. assert (Hv : v = cstr (bdata s)) by (unfold v, bstr; now rewrite Hd0).
    rewrite Hv in Hj |- *. rewrite nthN_cstr by lia. reflexivity.
  - rewrite lenN_map, lenN_takeN. fold (bget (bput b' len 0) (N.min 64 (lenN v))).
    replace (N.min 64 (lenN v)) with len by (unfold len; lia). apply bget_bput_eq. lia.
Qed.

Definition defaulted (t : table) (i : nat) : table :=
  tset t i (mkopt (o_value (tget t i)) DEFAULTED (o_name (tget t i)) (o_legacy (tget t i))).

Lemma apply_pres_cases t i r : in_range t i = true ->
  (r = PInvalid -> apply_pres t i r = Some (defaulted t i)) /\
  (r <> PInvalid -> exists t', apply_pres t i r = Some t' /\ o_init (tget t' i) = INITIALIZED).
Proof.
  intros Hr. split.
  - intros ->. reflexivity.
  - intros Hne. destruct r as [v|v|]; [| |congruence]; cbn [apply_pres].
    + eexists. split; [reflexivity|]. rewrite tget_tset_eq by (now apply in_range_lt). reflexivity.
    + destruct (option_set_spec t i v Hr) as (t' & Hs & _ & _ & Hi & _). exists t'. split; assumption.
Qed.

Lemma malformed_keeps_default_lemma t i s b :
  in_range t i = true -> fault s = false -> fault b = false -> 65 <= blen b ->
  lenN (bstr s 0) <= 64 -> isbytes (bstr s 0) = true ->
  let u := map toupper (bstr s 0) in
  let '(r, s', b') := option_init_found t i s b in
  fault s' = false /\ fault b' = false /\
  (malformed_b (has_size_in_kib i) u = true ->
     exists t', r = Some t' /\ o_value (tget t' i) = o_value (tget t i) /\ o_init (tget t' i) = DEFAULTED /\
                forall j, j <> i -> tget t' j = tget t j) /\
  (malformed_b (has_size_in_kib i) u = false -> exists t', r = Some t' /\ o_init (tget t' i) = INITIALIZED).
Proof.
  intros Hr Fs Fb Lb Hlen Hby. cbn zeta.
  pose proof (option_init_found_spec t i s b Fs Fb Lb) as H.
  destruct (option_init_found t i s b) as [[r s'] b'].
  destruct H as (Hres & Fs' & Fb' & _). split; [exact Fs'|]. split; [exact Fb'|].
  rewrite (takeN_all _ 64 Hlen) in Hres.
  set (u := map toupper (bstr s 0)) in *.
  assert (Hun : nonul u = true) by (apply nonul_map_toupper, nonul_cstr).
  assert (Hub : isbytes u = true) by (apply isbytes_map_toupper, Hby).
  pose proof (parse_invalid_iff (has_size_in_kib i) u Hun Hub) as Hiff.
  destruct (apply_pres_cases t i (parse_value (has_size_in_kib i) u) Hr) as [Hinv Hok].
  split.
  - intros Hm. apply Hiff in Hm. exists (defaulted t i). rewrite Hres. split; [now apply Hinv|].
    unfold defaulted. apply in_range_lt in Hr. rewrite tget_tset_eq by exact Hr. repeat split.
    intros j Hj. apply tget_tset_ne. congruence.
  - intros Hm. rewrite Hres. apply Hok. intros Hp. apply Hiff in Hp. congruence.
Qed.

(* ------------------------------------------------------------------------------------------ *)
(* _mi_vsnprintf                                                                               *)
(* ------------------------------------------------------------------------------------------ *)
Lemma outc_spec c b p e n : okb b n -> e < n ->
  let '(b', p') := outc c b p e in okb b' n /\ p <= p' /\ (p <= e -> p' <= e).
Proof.
  intros Hb He. unfold outc. destruct (e <=? p) eqn:E.
  - repeat split; try apply Hb; lia.
  - apply N.leb_gt in E. split; [apply okb_bput; [exact Hb|lia]|]. lia.
Qed.

Lemma outs_spec s : forall b p e n, okb b n -> e < n ->
  let '(b', p') := outs s b p e in okb b' n /\ p <= p' /\ (p <= e -> p' <= e).
Proof.
  induction s as [|c r IH]; intros b p e n Hb He; cbn [outs].
  - repeat split; try apply Hb; lia.
  - destruct (c =? 0); [repeat split; try apply Hb; lia|].
    destruct (p <? e) eqn:E; [|repeat split; try apply Hb; lia].
    apply N.ltb_lt in E. specialize (IH (bput b p c) (p + 1) e n (okb_bput b n p c Hb ltac:(lia)) He).
    destruct (outs r (bput b p c) (p + 1) e) as [b' p']. destruct IH as (O & L1 & L2). repeat split; [apply O|apply O|lia|lia].
Qed.

Lemma fill_loop_spec k : forall fill b p n, okb b n -> p + N.of_nat k <= n ->
  let '(b', p') := fill_loop k fill b p in okb b' n /\ p' = p + N.of_nat k.
Proof.
  induction k as [|k IH]; intros fill b p n Hb Hp; cbn [fill_loop].
  - split; [exact Hb|lia].
  - specialize (IH fill (bput b p fill) (p + 1) n (okb_bput b n p fill Hb ltac:(lia)) ltac:(lia)).
    destruct (fill_loop k fill (bput b p fill) (p + 1)) as [b' p']. destruct IH as [O E]. split; [exact O|lia].
Qed.

Lemma out_fill_spec fill len b p e n : okb b n -> e < n -> p <= e ->
  let '(b', p') := out_fill fill len b p e in okb b' n /\ p <= p' /\ p' <= e.
Proof.
  intros Hb He Hp. unfold out_fill.
  pose proof (fill_loop_spec (N.to_nat (N.min len (e - p))) fill b p n Hb ltac:(lia)) as H.
  destruct (fill_loop _ fill b p) as [b' p']. destruct H as [O E]. split; [exact O|lia].
Qed.

Lemma digits_loop_total fuel : forall x base b p e, x < 2 ^ N.of_nat fuel -> 2 <= base ->
  exists r, digits_loop fuel x base b p e = Some r.
Proof.
  induction fuel as [|f IH]; intros x base b p e Hx Hb.
  - cbn in Hx. assert (x = 0) by lia. subst. cbn. eauto.
  - cbn [digits_loop]. destruct (x =? 0); [eauto|].
    destruct (outc (digit_char (x mod base)) b p e) as [b' p']. apply IH; [|exact Hb].
    rewrite Nat2N.inj_succ, N.pow_succ_r' in Hx.
    apply N.div_lt_upper_bound; [lia|]. nia.
Qed.

Lemma digits_loop_spec fuel : forall x base b p e n r, okb b n -> e < n -> p <= e ->
  digits_loop fuel x base b p e = Some r -> okb (fst r) n /\ p <= snd r /\ snd r <= e.
Proof.
  induction fuel as [|f IH]; intros x base b p e n r Hb He Hp; cbn [digits_loop].
  - destruct (x =? 0); [|discriminate]. intros H. inversion H. cbn. repeat split; try apply Hb; lia.
  - destruct (x =? 0); [intros H; inversion H; cbn; repeat split; try apply Hb; lia|].
    pose proof (outc_spec (digit_char (x mod base)) b p e n Hb He) as Ho.
    destruct (outc (digit_char (x mod base)) b p e) as [b' p']. destruct Ho as (O & L1 & L2).
    intros H. apply (IH _ _ _ _ _ n) in H; try assumption; [|lia]. destruct H as (A & B & C). repeat split; [apply A|apply A|lia|lia].
Qed.

Lemma rev_loop_spec k : forall i start len b n, okb b n -> start + len <= n -> i + N.of_nat k <= len ->
  okb (rev_loop k i start len b) n.
Proof.
  induction k as [|k IH]; intros i start len b n Hb Hs Hi; cbn [rev_loop]; [exact Hb|].
  destruct Hb as [F L].
  rewrite bread_in by lia. rewrite bread_in by lia.
  apply IH; [|exact Hs|lia].
  apply okb_bput; [apply okb_bput; [split; assumption|lia]|lia].
Qed.

Lemma out_num_total x base prefix b p e : x < W64 -> 2 <= base ->
  exists r, out_num x base prefix b p e = Some r.
Proof.
  intros Hx Hb. unfold out_num. destruct ((x =? 0) || (base =? 0) || (16 <? base)).
  - destruct (negb (prefix =? 0)); [destruct (outc prefix b p e)|]; eauto.
  - destruct (digits_loop_total 64 x base b p e) as [[b' p'] ->]; [exact Hx|exact Hb|].
    destruct (negb (prefix =? 0)); [destruct (outc prefix b' p' e)|]; eauto.
Qed.

Lemma out_num_spec x base prefix b p e n r : okb b n -> e < n -> p <= e ->
  out_num x base prefix b p e = Some r -> okb (fst r) n /\ p <= snd r /\ snd r <= e.
Proof.
  intros Hb He Hp. unfold out_num. destruct ((x =? 0) || (base =? 0) || (16 <? base)).
  - assert (H1 : let '(b1, p1) := (if negb (prefix =? 0) then outc prefix b p e else (b, p)) in okb b1 n /\ p <= p1 /\ p1 <= e).
    { destruct (negb (prefix =? 0)); [|repeat split; try apply Hb; lia].
      pose proof (outc_spec prefix b p e n Hb He) as H. destruct (outc prefix b p e). destruct H as (A & B & C). repeat split; [apply A|apply A|lia|lia]. }
    destruct (if negb (prefix =? 0) then outc prefix b p e else (b, p)) as [b1 p1]. destruct H1 as (O1 & L1 & L2).
    pose proof (outc_spec 48 b1 p1 e n O1 He) as H. destruct (outc 48 b1 p1 e) as [b2 p2]. destruct H as (A & B & C).
    intros E. inversion E. cbn. repeat split; [apply A|apply A|lia|lia].
  - destruct (digits_loop 64 x base b p e) as [[b1 p1]|] eqn:Ed; [|discriminate].
    apply (digits_loop_spec 64 _ _ _ _ _ n) in Ed; try assumption. cbn in Ed. destruct Ed as (O1 & L1 & L2).
    assert (H2 : let '(b2, p2) := (if negb (prefix =? 0) then outc prefix b1 p1 e else (b1, p1)) in okb b2 n /\ p1 <= p2 /\ p2 <= e).
    { destruct (negb (prefix =? 0)); [|repeat split; try apply O1; lia].
      pose proof (outc_spec prefix b1 p1 e n O1 He) as H. destruct (outc prefix b1 p1 e). destruct H as (A & B & C). repeat split; [apply A|apply A|lia|lia]. }
    destruct (if negb (prefix =? 0) then outc prefix b1 p1 e else (b1, p1)) as [b2 p2]. destruct H2 as (O2 & M1 & M2).
    intros E. inversion E. cbn. split; [|lia].
    apply rev_loop_spec; [exact O2|lia|].
    assert ((p2 - p) / 2 <= p2 - p) by (apply N.div_le_upper_bound; lia). lia.
Qed.

Lemma move_loop_spec k : forall i start len extra b n, okb b n -> 1 <= i -> start + len + extra < n ->
  okb (move_loop k i start len extra b) n.
Proof.
  induction k as [|k IH]; intros i start len extra b n Hb Hi Hs; cbn [move_loop]; [exact Hb|].
  destruct Hb as [F L]. rewrite bread_in by lia.
  apply IH; [|lia|exact Hs]. apply okb_bput; [split; assumption|lia].
Qed.

Lemma fillat_loop_spec k : forall i start fill b n, okb b n -> start + i + N.of_nat k <= n ->
  okb (fillat_loop k i start fill b) n.
Proof.
  induction k as [|k IH]; intros i start fill b n Hb Hs; cbn [fillat_loop]; [exact Hb|].
  apply IH; [apply okb_bput; [exact Hb|lia]|lia].
Qed.

Lemma out_alignright_spec base fill start len extra e b n : okb b n -> e < n ->
  base + start + len + extra < W64 -> okb (out_alignright base fill start len extra e b) n.
Proof.
  intros Hb He Hw. unfold out_alignright. destruct ((len =? 0) || (extra =? 0)); [exact Hb|].
  apply N.ltb_lt in Hw. rewrite Hw.
  destruct (e <=? start + len + extra) eqn:E; [exact Hb|]. apply N.leb_gt in E.
  apply fillat_loop_spec; [apply move_loop_spec; [exact Hb|lia|lia]|lia].
Qed.

Lemma fill_align_spec base ar fill start width b out e n : okb b n -> e < n -> start <= out -> out <= e ->
  base + n + width < W64 ->
  let '(b', out') := fill_align base ar fill start width b out e in okb b' n /\ out' <= e.
Proof.
  intros Hb He Hs Ho Hw. unfold fill_align. destruct (out - start <? width) eqn:E; [|split; [exact Hb|exact Ho]].
  apply N.ltb_lt in E.
  pose proof (out_fill_spec fill (width - (out - start)) b out e n Hb He Ho) as H.
  destruct (out_fill fill (width - (out - start)) b out e) as [b1 out1]. destruct H as (O1 & L1 & L2).
  split; [|exact L2]. destruct (ar && (out1 <=? e)); [|exact O1].
  apply out_alignright_spec; [exact O1|exact He|lia].
Qed.

(* each conversion: always a result (for 64-bit argument slots), and it stays inside the buffer *)
Lemma pop_int_lt args : fst (pop_int args) < W64.
Proof. unfold pop_int. destruct args as [|[s| |v] r]; cbn; try (rewrite W64_val; lia). apply wrap_lt. Qed.

Lemma sext64_abs v : v < W64 -> Z.abs_N (sext64 v) < W64.
Proof. intros H. unfold sext64. rewrite W64_val in *. destruct (v <? 9223372036854775808) eqn:E; [apply N.ltb_lt in E|apply N.ltb_ge in E]; lia. Qed.
Lemma sext32_abs v : Z.abs_N (sext32 v) < W64.
Proof.
  unfold sext32. cbn zeta. rewrite W64_val. assert (v mod 4294967296 < 4294967296) by (apply N.mod_lt; lia).
  set (w := v mod 4294967296) in *. clearbody w.
  destruct (w <? 2147483648) eqn:E; [apply N.ltb_lt in E|apply N.ltb_ge in E]; lia.
Qed.

Definition conv_ok (n e out maxw : N) (r : conv_result) : Prop :=
  match r with
  | None => False
  | Some (b', out', _, start, width, _) => okb b' n /\ start <= out' /\ out' <= e /\ width <= N.max maxw 16
  end.

Lemma conv_string_spec d args b out e n : okb b n -> e < n -> out <= e ->
  conv_ok n e out (d_width d) (conv_string d args b out e).
Proof.
  intros Hb He Ho. unfold conv_string. destruct (pop_str args) as [[s|] args'].
  - pose proof (outs_spec s b out e n Hb He) as H. destruct (outs s b out e) as [b' out']. destruct H as (A & B & C).
    cbn. repeat split; [apply A|apply A|lia|lia|lia].
  - cbn. repeat split; try apply Hb; lia.
Qed.

Lemma conv_unsigned_spec d args b out e n : okb b n -> e < n -> out <= e ->
  conv_ok n e out (d_width d) (conv_unsigned d args b out e).
Proof.
  intros Hb He Ho. unfold conv_unsigned. pose proof (pop_int_lt args) as Hv.
  destruct (pop_int args) as [v args']. cbn [fst] in Hv.
  set (c := d_conv d).
  set (x := if c =? 112 then v else if is64 (d_numtype d) then v else v mod 4294967296).
  assert (Hx : x < W64).
  { unfold x. destruct (c =? 112); [exact Hv|]. destruct (is64 _); [exact Hv|].
    rewrite W64_val. assert (v mod 4294967296 < 4294967296) by (apply N.mod_lt; lia). lia. }
  assert (H1 : let '(b1, out1) := (if c =? 112 then outs [48; 120] b out e else (b, out)) in okb b1 n /\ out <= out1 /\ out1 <= e).
  { destruct (c =? 112); [|repeat split; try apply Hb; lia].
    pose proof (outs_spec [48; 120] b out e n Hb He) as H. destruct (outs [48; 120] b out e). destruct H as (A & B & C). repeat split; [apply A|apply A|lia|lia]. }
  destruct (if c =? 112 then outs [48; 120] b out e else (b, out)) as [b1 out1]. destruct H1 as (O1 & L1 & L2).
  set (w0 := if c =? 112 then if 2 <=? d_width d then d_width d - 2 else 0 else d_width d).
  assert (Hw0 : w0 <= d_width d). { unfold w0. destruct (c =? 112); [|lia]. destruct (2 <=? d_width d); lia. }
  set (wf := if (w0 =? 0) && ((c =? 120) || (c =? 112))
             then (let width := if c =? 112 then 2 * (if x <=? UINT32_MAX_ then 4 else if N.shiftr x 16 <=? UINT32_MAX_ then 6 else 8) else w0 in
                   ((if width =? 0 then 2 else width), 48))
             else (w0, d_fill d)).
  assert (Hwf : fst wf <= N.max (d_width d) 16).
  { unfold wf. destruct ((w0 =? 0) && ((c =? 120) || (c =? 112))) eqn:E; cbn [fst]; [|lia].
    apply andb_prop in E as [E0 _]. apply N.eqb_eq in E0. rewrite E0.
    destruct (c =? 112).
    - destruct (x <=? UINT32_MAX_); [cbn; lia|]. destruct (N.shiftr x 16 <=? UINT32_MAX_); cbn; lia.
    - cbn. lia. }
  destruct wf as [width fill]. cbn [fst] in Hwf.
  destruct (out_num_total x (if (c =? 120) || (c =? 112) then 16 else 10) (d_numplus d) b1 out1 e Hx) as [[b2 out2] E2].
  { destruct ((c =? 120) || (c =? 112)); lia. }
  rewrite E2. apply (out_num_spec _ _ _ _ _ _ n) in E2; try assumption. cbn in E2. destruct E2 as (O2 & M1 & M2).
  cbn. repeat split; [apply O2|apply O2|lia|lia|lia].
Qed.

Lemma conv_signed_spec d args b out e n : okb b n -> e < n -> out <= e ->
  conv_ok n e out (d_width d) (conv_signed d args b out e).
Proof.
  intros Hb He Ho. unfold conv_signed. pose proof (pop_int_lt args) as Hv.
  destruct (pop_int args) as [v args']. cbn [fst] in Hv.
  set (x := if is64 (d_numtype d) then sext64 v else sext32 v).
  assert (Hx : Z.abs_N x < W64). { unfold x. destruct (is64 _); [now apply sext64_abs|apply sext32_abs]. }
  set (pre := if (x <? 0)%Z then 45 else if negb (d_numplus d =? 0) then d_numplus d else 0).
  destruct (out_num_total (Z.abs_N x) 10 pre b out e Hx ltac:(lia)) as [[b2 out2] E2].
  rewrite E2. apply (out_num_spec _ _ _ _ _ _ n) in E2; try assumption. cbn in E2. destruct E2 as (O2 & M1 & M2).
  cbn. repeat split; [apply O2|apply O2|lia|lia|lia].
Qed.

Lemma conv_other_spec d args b out e n : okb b n -> e < n -> out <= e ->
  conv_ok n e out (d_width d) (conv_other d args b out e).
Proof.
  intros Hb He Ho. unfold conv_other. destruct ((32 <=? d_conv d) && (d_conv d <=? 126)).
  - pose proof (outc_spec 37 b out e n Hb He) as H1. destruct (outc 37 b out e) as [b1 out1]. destruct H1 as (O1 & L1 & L2).
    pose proof (outc_spec (d_conv d) b1 out1 e n O1 He) as H2. destruct (outc (d_conv d) b1 out1 e) as [b2 out2]. destruct H2 as (O2 & M1 & M2).
    cbn. repeat split; [apply O2|apply O2|lia|lia|lia].
  - cbn. repeat split; try apply Hb; lia.
Qed.

Lemma do_directive_spec base d args b out e n : okb b n -> e < n -> out <= e ->
  exists b' out' args', do_directive base d args b out e = Some (b', out', args') /\
    (base + n + N.max (d_width d) 16 < W64 -> okb b' n /\ out' <= e).
Proof.
  intros Hb He Ho. unfold do_directive.
  set (r := if d_conv d =? 115 then conv_string d args b out e
            else if (d_conv d =? 112) || (d_conv d =? 120) || (d_conv d =? 117) then conv_unsigned d args b out e
            else if (d_conv d =? 105) || (d_conv d =? 100) then conv_signed d args b out e
            else conv_other d args b out e).
  assert (Hr : conv_ok n e out (d_width d) r).
  { unfold r. destruct (d_conv d =? 115); [now apply conv_string_spec|].
    destruct (_ || _ || _); [now apply conv_unsigned_spec|]. destruct (_ || _); [now apply conv_signed_spec|now apply conv_other_spec]. }
  destruct r as [[[[[[b1 out1] args1] start] width] fill]|]; [|contradiction]. cbn in Hr. destruct Hr as (O1 & L1 & L2 & Lw).
  destruct (fill_align base (d_alignright d) fill start width b1 out1 e) as [b2 out2] eqn:Ef.
  exists b2, out2, args1. split; [reflexivity|]. intros Hw.
  pose proof (fill_align_spec base (d_alignright d) fill start width b1 out1 e n O1 He L1 L2 ltac:(lia)) as H.
  rewrite Ef in H. exact H.
Qed.

(* parsing a directive never lengthens the remaining format *)
Lemma nextc_len inp c r : nextc inp = Some (c, r) -> (length r < length inp)%nat.
Proof. destruct inp as [|x y]; cbn; [discriminate|]. destruct (x =? 0); [discriminate|]. intros H. inversion H. subst. cbn. lia. Qed.

Lemma stage_len {A : Type} (cond : bool) (k k' : A) c inp a c' inp' :
  (if cond then option_map (fun x => (k, x)) (nextc inp) else Some (k', (c, inp))) = Some (a, (c', inp')) ->
  (length inp' <= length inp)%nat.
Proof.
  destruct cond; [|intros H; inversion H; lia].
  destruct (nextc inp) as [[c1 r1]|] eqn:E; cbn; [|discriminate]. intros H. inversion H. subst. apply nextc_len in E. lia.
Qed.

Lemma width_loop_len inp : forall w c w' c' r, width_loop w c inp = Some (w', c', r) -> (length r <= length inp)%nat.
Proof.
  induction inp as [|x y IH]; intros w c w' c' r; cbn [width_loop].
  - destruct (isdigit c); [discriminate|]. intros H. inversion H. lia.
  - destruct (isdigit c).
    + destruct (x =? 0); [discriminate|]. intros H. apply IH in H. cbn. lia.
    + intros H. inversion H. lia.
Qed.

Lemma parse_directive_len c inp d : parse_directive c inp = Some d -> (length (d_rest d) <= length inp)%nat.
Proof.
  unfold parse_directive.
  destruct (if (c =? 43) || (c =? 32) then option_map (fun x => (c, x)) (nextc inp) else Some (0, (c, inp))) as [[np [c1 i1]]|] eqn:E1; [|discriminate].
  apply stage_len in E1.
  destruct (if c1 =? 45 then option_map (fun x => (false, x)) (nextc i1) else Some (true, (c1, i1))) as [[ar [c2 i2]]|] eqn:E2; [|discriminate].
  apply stage_len in E2.
  destruct (if c2 =? 48 then option_map (fun x => (48, x)) (nextc i2) else Some (32, (c2, i2))) as [[fl [c3 i3]]|] eqn:E3; [|discriminate].
  apply stage_len in E3.
  destruct (if (49 <=? c3) && (c3 <=? 57) then match nextc i3 with None => None | Some (c', inp') => width_loop (c3 - 48) c' inp' end else Some (0, c3, i3)) as [[[w c4] i4]|] eqn:E4; [|discriminate].
  assert (L4 : (length i4 <= length i3)%nat).
  { destruct ((49 <=? c3) && (c3 <=? 57)); [|inversion E4; lia].
    destruct (nextc i3) as [[c' inp']|] eqn:En; [|discriminate]. apply nextc_len in En. apply width_loop_len in E4. lia. }
  destruct (if (c4 =? 122) || (c4 =? 116) || (c4 =? 76) then option_map (fun x => (c4, x)) (nextc i4)
            else if c4 =? 108 then match nextc i4 with None => None | Some (c', inp') => if c' =? 108 then option_map (fun x => (76, x)) (nextc inp') else Some (108, (c', inp')) end
            else Some (100, (c4, i4))) as [[nt [c5 i5]]|] eqn:E5; [|discriminate].
  assert (L5 : (length i5 <= length i4)%nat).
  { destruct ((c4 =? 122) || (c4 =? 116) || (c4 =? 76)).
    - destruct (nextc i4) as [[c' inp']|] eqn:En; cbn in E5; [|discriminate]. inversion E5; subst. apply nextc_len in En. lia.
    - destruct (c4 =? 108); [|inversion E5; lia].
      destruct (nextc i4) as [[c' inp']|] eqn:En; [|discriminate]. apply nextc_len in En.
      destruct (c' =? 108); [|inversion E5; subst; lia].
      destruct (nextc inp') as [[c'' inp'']|] eqn:En2; cbn in E5; [|discriminate]. inversion E5; subst. apply nextc_len in En2. lia. }
  intros H. inversion H. cbn. lia.
Qed.

(* the largest field width written in a format (the parse does not depend on arguments or buffer) *)
Fixpoint fmt_maxw_loop (fuel : nat) (inp : bytes) (acc : N) : N :=
  match fuel with
  | O => acc
  | S f =>
    match nextc inp with
    | None => acc
    | Some (c, inp) =>
      if negb (c =? 37) then fmt_maxw_loop f inp acc
      else match nextc inp with
           | None => acc
           | Some (c, inp) =>
             match parse_directive c inp with
             | None => acc
             | Some d => fmt_maxw_loop f (d_rest d) (N.max acc (d_width d))
             end
           end
    end
  end.
Definition fmt_maxw (fmt : bytes) : N := fmt_maxw_loop (S (length fmt)) fmt 0.

Lemma fmt_maxw_loop_ge fuel : forall inp acc, acc <= fmt_maxw_loop fuel inp acc.
Proof.
  induction fuel as [|f IH]; intros inp acc; cbn [fmt_maxw_loop]; [lia|].
  destruct (nextc inp) as [[c i1]|]; [|lia]. destruct (negb (c =? 37)); [apply IH|].
  destruct (nextc i1) as [[c2 i2]|]; [|lia]. destruct (parse_directive c2 i2) as [d|]; [|lia].
  specialize (IH (d_rest d) (N.max acc (d_width d))). lia.
Qed.

Lemma vs_loop_spec base e n fuel : forall inp args b out acc,
  okb b n -> e < n -> out <= e -> (length inp < fuel)%nat ->
  base + n + N.max (fmt_maxw_loop fuel inp acc) 16 < W64 ->
  exists r out', vs_loop fuel base inp args b out e = Some (r, out') /\ okb r n /\ out' <= e.
Proof.
  induction fuel as [|f IH]; intros inp args b out acc Hb He Ho Hl Hw; [lia|].
  cbn [vs_loop]. cbn [fmt_maxw_loop] in Hw.
  destruct (e <=? out); [eauto|].
  destruct (nextc inp) as [[c i1]|] eqn:E1; [|eauto]. apply nextc_len in E1.
  destruct (negb (c =? 37)).
  - assert (H1 : let '(b1, out1) := (if printable c then outc c b out e else (b, out)) in okb b1 n /\ out1 <= e).
    { destruct (printable c); [|split; assumption]. pose proof (outc_spec c b out e n Hb He) as H.
      destruct (outc c b out e). destruct H as (A & B & C). split; [exact A|now apply C]. }
    destruct (if printable c then outc c b out e else (b, out)) as [b1 out1]. destruct H1 as [O1 L1].
    apply (IH i1 args b1 out1 acc); try assumption. lia.
  - destruct (nextc i1) as [[c2 i2]|] eqn:E2; [|eauto]. apply nextc_len in E2.
    destruct (parse_directive c2 i2) as [d|] eqn:Ep; [|eauto]. apply parse_directive_len in Ep.
    destruct (do_directive_spec base d args b out e n Hb He Ho) as (b1 & out1 & args1 & Ed & Hs).
    rewrite Ed. pose proof (fmt_maxw_loop_ge f (d_rest d) (N.max acc (d_width d))) as Hge.
    destruct Hs as [O1 L1]; [lia|].
    apply (IH (d_rest d) args1 b1 out1 (N.max acc (d_width d))); try assumption. lia.
Qed.

Lemma vsnprintf_lemma base fmt args b bufsize :
  blen b = bufsize -> fault b = false -> base + bufsize + N.max (fmt_maxw fmt) 16 < W64 ->
  exists r ret, vsnprintf base b bufsize fmt args = Some (r, ret) /\
    fault r = false /\ blen r = bufsize /\
    (bufsize = 0 -> r = b /\ ret = 0) /\
    (0 < bufsize -> ret < bufsize /\ bget r ret = 0).
Proof.
  intros Hl Hf Hw. unfold vsnprintf. destruct (bufsize =? 0) eqn:E0.
  - apply N.eqb_eq in E0. exists b, 0. repeat split; try assumption; lia.
  - apply N.eqb_neq in E0.
    assert (Hb : okb (bput b (bufsize - 1) 0) bufsize) by (apply okb_bput; [split; assumption|lia]).
    destruct (vs_loop_spec base (bufsize - 1) bufsize (S (length fmt)) fmt args (bput b (bufsize - 1) 0) 0 0 Hb) as (r & out & Ev & Or & Lo);
      [lia|lia|lia|exact Hw|].
    rewrite Ev. exists (bput r out 0), out.
    destruct (okb_bput r bufsize out 0 Or ltac:(lia)) as [F L].
    repeat split; try assumption; try lia.
    apply bget_bput_eq. destruct Or as [_ Lr]. lia.
Qed.

(* ------------------------------------------------------------------------------------------ *)
(* the delayed output buffer                                                                   *)
(* ------------------------------------------------------------------------------------------ *)
Lemma copy_loop_spec k : forall src b d n, okb b n -> d + N.of_nat k <= n -> okb (copy_loop src k b d) n.
Proof.
  induction k as [|k IH]; intros src b d n Hb Hd; cbn [copy_loop]; [exact Hb|].
  apply IH; [apply okb_bput; [exact Hb|lia]|lia].
Qed.

Lemma MAX_DELAY_val : MAX_DELAY = 16384.
Proof. reflexivity. Qed.

Lemma out_buf_msg_lemma b len msg :
  okb b (MAX_DELAY + 1) -> len < W64 -> strlen msg + MAX_DELAY < W64 ->
  let '(b', len') := out_buf_msg (b, len) msg in okb b' (MAX_DELAY + 1) /\ len' < W64.
Proof.
  intros Hb Hl Hm. unfold out_buf_msg. rewrite MAX_DELAY_val in *.
  destruct (16384 <=? len) eqn:E1; [split; assumption|]. apply N.leb_gt in E1.
  destruct (strlen msg =? 0); [split; assumption|].
  assert (Hw : wadd len (strlen msg) = len + strlen msg) by (apply wadd_small; lia).
  rewrite Hw. replace (16384 <=? len) with false by (symmetry; apply N.leb_gt; lia).
  split; [|lia].
  apply copy_loop_spec; [exact Hb|].
  destruct (16384 <=? len + strlen msg) eqn:E2; [apply N.leb_le in E2|apply N.leb_gt in E2]; lia.
Qed.

Lemma out_buf_flush_lemma b len nomore :
  okb b (MAX_DELAY + 1) -> len < W64 ->
  let '(b', len', shown) := out_buf_flush (b, len) nomore in okb b' (MAX_DELAY + 1) /\ len' < W64.
Proof.
  intros Hb Hl. unfold out_buf_flush. rewrite MAX_DELAY_val in *.
  set (count := if 16384 <? len then 16384 else len).
  assert (Hc : count <= 16384). { unfold count. destruct (16384 <? len) eqn:E; [|apply N.ltb_ge in E]; lia. }
  split; [|apply wrap_lt].
  destruct (negb nomore); [apply okb_bput; [|lia]|]; apply okb_bput; try exact Hb; lia.
Qed.

(* any sequence of messages and flushes *)
Inductive out_op := OMsg (msg : bytes) | OFlush (no_more_buf : bool).
Definition out_step (st : buf * N) (o : out_op) : buf * N :=
  match o with OMsg m => out_buf_msg st m | OFlush nm => fst (out_buf_flush st nm) end.
Definition out_op_ok (o : out_op) : Prop := match o with OMsg m => strlen m + MAX_DELAY < W64 | OFlush _ => True end.

Lemma out_buf_bounded_lemma ops : forall b len,
  okb b (MAX_DELAY + 1) -> len < W64 -> Forall out_op_ok ops ->
  let '(b', len') := fold_left out_step ops (b, len) in okb b' (MAX_DELAY + 1) /\ len' < W64.
Proof.
  induction ops as [|o r IH]; intros b len Hb Hl Hok; cbn [fold_left]; [split; assumption|].
  inversion Hok as [|? ? Ho Hr]; subst.
  assert (H : let '(b1, len1) := out_step (b, len) o in okb b1 (MAX_DELAY + 1) /\ len1 < W64).
  { destruct o as [m|nm]; cbn [out_step].
    - now apply out_buf_msg_lemma.
    - pose proof (out_buf_flush_lemma b len nm Hb Hl) as H. destruct (out_buf_flush (b, len) nm) as [[b1 len1] sh]. exact H. }
  destruct (out_step (b, len) o) as [b1 len1]. destruct H as [O1 L1]. now apply IH.
Qed.

(* ------------------------------------------------------------------------------------------ *)
(* mi_buffered_out: buffer of count+1 bytes, count > 0                                         *)
(* ------------------------------------------------------------------------------------------ *)
Lemma buffered_out_lemma msg : forall count b used outl,
  0 < count -> okb b (count + 1) -> used <= count ->
  let '(b', used', outl') := buffered_out msg count (b, used, outl) in okb b' (count + 1) /\ used' <= count.
Proof.
  induction msg as [|c r IH]; intros count b used outl Hc Hb Hu; cbn [buffered_out]; [split; assumption|].
  destruct (c =? 0); [split; assumption|]. cbn [fst snd].
  set (st1 := if count <=? used then buffered_flush (b, used, outl) else (b, used, outl)).
  assert (H1 : let '(b1, used1, o1) := st1 in okb b1 (count + 1) /\ used1 < count).
  { unfold st1. destruct (count <=? used) eqn:E; [apply N.leb_le in E|apply N.leb_gt in E].
    - cbn [buffered_flush]. split; [apply okb_bput; [exact Hb|lia]|lia].
    - split; [exact Hb|lia]. }
  destruct st1 as [[b1 used1] o1]. destruct H1 as [O1 L1].
  set (st2 := if c =? 10 then buffered_flush (bput b1 used1 c, used1 + 1, o1) else (bput b1 used1 c, used1 + 1, o1)).
  assert (H2 : let '(b2, used2, o2) := st2 in okb b2 (count + 1) /\ used2 <= count).
  { unfold st2. assert (Op : okb (bput b1 used1 c) (count + 1)) by (apply okb_bput; [exact O1|lia]).
    destruct (c =? 10).
    - cbn [buffered_flush]. split; [apply okb_bput; [exact Op|lia]|lia].
    - split; [exact Op|lia]. }
  destruct st2 as [[b2 used2] o2]. destruct H2 as [O2 L2]. now apply IH.
Qed.

(* ------------------------------------------------------------------------------------------ *)
(* mi_heap_buf_print                                                                           *)
(* ------------------------------------------------------------------------------------------ *)
(* invariant of mi_heap_buf_t: buffer of exactly `size` bytes, used < size, and the text is
   0-terminated within the size *)
Definition hinv (h : hbuf) : Prop :=
  okb (h_buf h) (h_size h) /\ h_used h < h_size h /\ h_size h < W64 /\ exists i, i < h_size h /\ bget (h_buf h) i = 0.

Lemma heap_buf_expand_lemma h grow : okb (h_buf h) (h_size h) -> 0 < h_size h -> h_size h < W64 ->
  let '(ok, h') := heap_buf_expand h grow in
  okb (h_buf h') (h_size h') /\ h_used h' = h_used h /\ h_size h' < W64 /\
  h_can_realloc h' = h_can_realloc h /\
  (ok = false -> h_size h' = h_size h /\ bget (h_buf h') (h_size h - 1) = 0) /\
  (ok = true -> h_size h' = 2 * h_size h /\ h_can_realloc h = true).
Proof.
  intros Hb Hs Hw. unfold heap_buf_expand. apply N.ltb_lt in Hs. rewrite Hs. apply N.ltb_lt in Hs.
  assert (Hp : okb (bput (h_buf h) (h_size h - 1) 0) (h_size h)) by (apply okb_bput; [exact Hb|lia]).
  assert (Hz : bget (bput (h_buf h) (h_size h - 1) 0) (h_size h - 1) = 0) by (apply bget_bput_eq; destruct Hb; lia).
  cbn [h_size h_can_realloc h_used h_buf].
  destruct ((SIZE_MAX_ / 2 <? h_size h) || negb (h_can_realloc h)) eqn:E.
  - cbn [h_size h_can_realloc h_used h_buf]. repeat split; try apply Hp; try assumption; discriminate.
  - apply orb_false_elim in E as [E1 E2]. apply N.ltb_ge in E1. apply negb_false_iff in E2.
    destruct grow; cbn [negb].
    + replace (h_size h =? 0) with false by (symmetry; apply N.eqb_neq; lia).
      cbn [h_size h_can_realloc h_used h_buf].
      assert (Hsm : h_size h <= 9223372036854775807).
      { assert (SIZE_MAX_ / 2 = 9223372036854775807) by reflexivity. lia. }
      repeat split; try discriminate.
      * apply Hp.
      * unfold blen. cbn [bdata]. rewrite lenN_app, lenN_repeatN. destruct Hp as [_ Lp]. unfold blen in Lp. rewrite Lp. lia.
      * rewrite W64_val. lia.
      * now rewrite E2.
      * exact E2.
    + cbn [h_size h_can_realloc h_used h_buf]. repeat split; try apply Hp; try assumption; discriminate.
Qed.

Lemma heap_buf_print_loop_lemma msg : forall h grows,
  okb (h_buf h) (h_size h) -> h_used h < h_size h -> h_size h < W64 ->
  let '(ok, h', grows') := heap_buf_print_loop msg h grows in
  okb (h_buf h') (h_size h') /\ h_used h' < h_size h' /\ h_size h' < W64 /\ h_can_realloc h' = h_can_realloc h /\
  (h_can_realloc h = false -> h_size h' = h_size h) /\
  (ok = false -> bget (h_buf h') (h_size h' - 1) = 0).
Proof.
  induction msg as [|c r IH]; intros h grows Hb Hu Hw; cbn [heap_buf_print_loop].
  - split; [exact Hb|]. split; [exact Hu|]. split; [exact Hw|]. split; [reflexivity|]. split; [reflexivity|discriminate].
  - destruct (c =? 0); [split; [exact Hb|]; split; [exact Hu|]; split; [exact Hw|]; split; [reflexivity|]; split; [reflexivity|discriminate]|].
    assert (Hadd : wadd (h_used h) 1 = h_used h + 1) by (apply wadd_small; lia). rewrite Hadd.
    destruct (h_size h <=? h_used h + 1) eqn:E.
    + pose proof (heap_buf_expand_lemma h (hd false grows) Hb ltac:(lia) Hw) as He.
      destruct (heap_buf_expand h (hd false grows)) as [ok h1].
      destruct He as (O1 & U1 & W1 & C1 & F1 & T1).
      destruct ok; cbn [negb].
      * destruct (T1 eq_refl) as [S1 R1].
        set (h2 := mkh (bput (h_buf h1) (h_used h1) c) (h_size h1) (h_used h1 + 1) (h_can_realloc h1)).
        specialize (IH h2 (tl grows)). cbn [h2 h_buf h_size h_used h_can_realloc] in IH.
        destruct (heap_buf_print_loop r h2 (tl grows)) as [[ok h'] grows'].
        destruct IH as (A1 & A2 & A3 & A4 & A5 & A6); [apply okb_bput; [exact O1|lia]|lia|exact W1|].
        split; [exact A1|]. split; [exact A2|]. split; [exact A3|]. split; [congruence|].
        split; [intros Hc; congruence|exact A6].
      * destruct (F1 eq_refl) as [Fs Fz].
        split; [exact O1|]. split; [lia|]. split; [exact W1|]. split; [exact C1|]. split; [intros _; exact Fs|].
        intros _. rewrite Fs. exact Fz.
    + apply N.leb_gt in E. cbn [negb].
      set (h2 := mkh (bput (h_buf h) (h_used h) c) (h_size h) (h_used h + 1) (h_can_realloc h)).
      specialize (IH h2 grows). cbn [h2 h_buf h_size h_used h_can_realloc] in IH.
      destruct (heap_buf_print_loop r h2 grows) as [[ok h'] grows'].
      apply IH; [apply okb_bput; [exact Hb|lia]|lia|exact Hw].
Qed.

Lemma heap_buf_bounded_lemma h msg grows : hinv h ->
  let '(h', grows') := heap_buf_print h msg grows in
  hinv h' /\ (h_can_realloc h = false -> h_size h' = h_size h) /\ h_can_realloc h' = h_can_realloc h.
Proof.
  intros (Hb & Hu & Hw & Hz). unfold heap_buf_print.
  destruct ((h_size h <=? wadd (h_used h) 1) && negb (h_can_realloc h)).
  - split; [split; [exact Hb|]; split; [exact Hu|]; split; [exact Hw|exact Hz]|]. split; reflexivity.
  - pose proof (heap_buf_print_loop_lemma msg h grows Hb Hu Hw) as H.
    destruct (heap_buf_print_loop msg h grows) as [[ok h'] grows'].
    destruct H as (A1 & A2 & A3 & A4 & A5 & A6).
    destruct ok.
    + cbn [h_buf h_size h_used h_can_realloc]. split; [|split; assumption].
      unfold hinv. cbn [h_buf h_size h_used h_can_realloc].
      split; [apply okb_bput; [exact A1|exact A2]|]. split; [exact A2|]. split; [exact A3|].
      exists (h_used h'). split; [exact A2|]. apply bget_bput_eq. destruct A1 as [_ L]. lia.
    + split; [|split; assumption]. split; [exact A1|]. split; [exact A2|]. split; [exact A3|].
      exists (h_size h' - 1). split; [lia|]. now apply A6.
Qed.

(* ------------------------------------------------------------------------------------------ *)
(* statements in the form used by Properties/C20.v                                             *)
(* ------------------------------------------------------------------------------------------ *)
Lemma nonul_nil_iff u : nonul u = true -> (hd0 u = 0 <-> u = []).
Proof. intros H. pose proof (nonul_hd0 u H) as E. destruct u; cbn in *; [tauto|]. apply N.eqb_neq in E. split; [tauto|discriminate]. Qed.

Lemma parse_bool_words_lemma kib u : isbytes u = true -> nonul u = true ->
  (parse_value kib u = PWord 1 <-> u = [] \/ In (map toupper u) true_words) /\
  (parse_value kib u = PWord 0 <-> In (map toupper u) false_words).
Proof.
  intros Hb Hn.
  pose proof (is_word_true_iff u Hb) as Ht. pose proof (is_word_false_iff u Hb) as Hf.
  rewrite (cstr_nonul u Hn) in Ht, Hf. pose proof (nonul_nil_iff u Hn) as H0.
  set (T := In (map toupper u) true_words) in *. set (F := In (map toupper u) false_words) in *.
  assert (Hdis : T -> F -> False) by (apply words_disjoint).
  unfold parse_value.
  destruct (hd0 u =? 0) eqn:E0.
  - apply N.eqb_eq in E0. apply H0 in E0. cbn [orb].
    assert (NF : ~ F). { unfold F. rewrite E0. cbn. intros [H|[H|[H|[H|[]]]]]; discriminate. }
    split; split; intros H; [now left|reflexivity|discriminate|contradiction].
  - apply N.eqb_neq in E0. cbn [orb].
    assert (Nn : u <> []) by (intros E; apply E0; now apply H0).
    destruct (is_word u words_true) eqn:Et.
    + assert (It : T) by now apply Ht.
      split; split; intros H; [now right|reflexivity|discriminate|exfalso; now apply Hdis].
    + assert (Nt : ~ T) by (intros I; apply Ht in I; discriminate).
      destruct (is_word u words_false) eqn:Ef.
      * assert (If : F) by now apply Hf.
        split; split; intros H; [discriminate|destruct H; contradiction|exact If|reflexivity].
      * assert (Nf : ~ F) by (intros I; apply Hf in I; discriminate).
        destruct (strtol10 u) as [[v e] conv]. destruct (if conv && kib then parse_size_suffix v e else (v, e)) as [v' e'].
        destruct (hd0 e' =? 0); split; split; intros H; try discriminate; try contradiction; destruct H; contradiction.
Qed.

Lemma clamp_long_spec v :
  ((LONG_MAX_ < v)%Z -> clamp_long v = LONG_MAX_) /\
  ((v < LONG_MIN_)%Z -> clamp_long v = LONG_MIN_) /\
  ((LONG_MIN_ <= v <= LONG_MAX_)%Z -> clamp_long v = v).
Proof.
  unfold clamp_long. assert (LONG_MIN_ < LONG_MAX_)%Z by reflexivity.
  destruct (LONG_MAX_ <? v)%Z eqn:E1; [apply Z.ltb_lt in E1|apply Z.ltb_ge in E1];
  destruct (v <? LONG_MIN_)%Z eqn:E2; [apply Z.ltb_lt in E2|apply Z.ltb_ge in E2| apply Z.ltb_lt in E2|apply Z.ltb_ge in E2];
  repeat split; intros; try reflexivity; lia.
Qed.

Lemma parse_decimal_lemma ws sg ds :
  forallb isspace ws = true -> is_sign sg -> ds <> [] -> forallb isdigit ds = true ->
  let u := ws ++ sg ++ ds in
  u <> w_1 -> u <> w_0 ->
  parse_value false u = PNum (clamp_long (sign_apply sg (decval ds))).
Proof.
  intros Hws Hsg Hne Hds u H1 H0.
  assert (Eu : u = ws ++ sg ++ ds ++ []) by (unfold u; now rewrite app_nil_r).
  destruct (grammar_bytes false ws sg ds [] Hws Hsg Hds (or_introl eq_refl)) as [Hb Hn].
  rewrite <- Eu in Hb, Hn.
  pose proof (parse_number_value false ws sg ds [] Hws Hsg Hne Hds (or_introl eq_refl)) as H.
  cbn zeta in H. rewrite <- Eu in H. now apply H.
Qed.

Lemma parse_size_lemma ws sg ds un tl :
  forallb isspace ws = true -> is_sign sg -> ds <> [] -> forallb isdigit ds = true -> is_unit un -> is_tail tl ->
  let u := ws ++ sg ++ ds ++ un ++ tl in
  u <> w_1 -> u <> w_0 ->
  parse_value true u = PNum (kib_value (clamp_long (sign_apply sg (decval ds))) (hd0 (un ++ tl))).
Proof.
  intros Hws Hsg Hne Hds Hun Htl u H1 H0.
  assert (Hsuf : is_suffix true (un ++ tl)) by (right; split; [reflexivity|]; exists un, tl; repeat split; assumption).
  destruct (grammar_bytes true ws sg ds (un ++ tl) Hws Hsg Hds Hsuf) as [Hb Hn].
  pose proof (parse_number_value true ws sg ds (un ++ tl) Hws Hsg Hne Hds Hsuf) as H.
  cbn zeta in H. now apply H.
Qed.

(* the value of a size option, spelled out per unit *)
Lemma kib_value_units v :
  let size := Z.to_N (Z.max 0 v) in
  kib_value v 0  = Z.of_N (sat_kib ((size + 1023) / 1024)) /\   (* no unit: bytes, rounded up to KiB *)
  kib_value v 66 = Z.of_N (sat_kib ((size + 1023) / 1024)) /\   (* "B" *)
  kib_value v 73 = Z.of_N (sat_kib ((size + 1023) / 1024)) /\   (* "IB" *)
  kib_value v 75 = Z.of_N (sat_kib size) /\                      (* K *)
  kib_value v 77 = Z.of_N (sat_kib (size * 1024)) /\             (* M *)
  kib_value v 71 = Z.of_N (sat_kib (size * 1048576)) /\          (* G *)
  kib_value v 84 = Z.of_N (sat_kib (size * 1073741824)).         (* T *)
Proof.
  cbn zeta. unfold kib_value, sat_kib, unit_mult.
  change MI_KiB_ with 1024. change MI_MiB_ with 1048576. change MI_GiB_ with 1073741824.
  repeat split; try reflexivity.
  change (75 =? 75) with true. cbn match. change (1 =? 0) with false. cbn match. now rewrite N.mul_1_r.
Qed.

(* every option of the generated table can be set through its environment variable: the complete
   mi_option_get path (name construction, environment lookup, parsing, table update) evaluated on
   table0 for a decimal, a boolean word, the empty string, a size with unit and a malformed value *)
Definition env_entry (name value : bytes) : bytes :=
  [77; 73; 77; 65; 76; 76; 79; 67; 95] ++ map toupper name ++ [61] ++ value.
Definition get_via_env (i : nat) (value : bytes) : option (Z * N * bool) :=
  match option_get table0 i [[80; 65; 84; 72; 61; 47]; env_entry (o_name (tget table0 i)) value] false (newbuf 170 65) (newbuf 170 65) with
  | Some (v, t, f) => Some (v, o_init (tget t i), f)
  | None => None
  end.
Definition result_is (r : option (Z * N * bool)) (v : Z) (init : N) : bool :=
  match r with Some (v', i', f) => (v' =? v)%Z && (i' =? init) && negb f | None => false end.
Definition check_env_option (i : nat) : bool :=
  let d := o_value (tget table0 i) in
  let kib := has_size_in_kib i in
  result_is (get_via_env i [49; 50; 51; 52; 53]) (if kib then 13 else 12345) INITIALIZED &&      (* 12345 *)
  result_is (get_via_env i [89; 101; 83]) 1 INITIALIZED &&                                        (* YeS *)
  result_is (get_via_env i [111; 102; 102]) 0 INITIALIZED &&                                      (* off *)
  result_is (get_via_env i []) 1 INITIALIZED &&                                                   (* empty *)
  result_is (get_via_env i [32; 45; 55]) (if kib then 0 else -7) INITIALIZED &&                   (* " -7" *)
  (if kib then result_is (get_via_env i [51; 71; 105; 66]) 3145728 INITIALIZED                    (* 3GiB *)
   else result_is (get_via_env i [51; 71; 105; 66]) d DEFAULTED) &&
  result_is (get_via_env i [49; 50; 120]) d DEFAULTED &&                                          (* 12x *)
  result_is (get_via_env i [75]) d DEFAULTED &&                                                   (* K *)
  result_is (get_via_env i [69]) d DEFAULTED.                                                     (* E *)

Lemma env_sets_every_option_lemma : forallb check_env_option (seq 0 option_count) = true.
Proof. vm_compute. reflexivity. Qed.

Lemma table0_length : length table0 = option_count.
Proof. reflexivity. Qed.

(* witness for the known finding impl:long-value-truncated: purge_delay with <63 spaces>"1x" *)
Definition long_witness : bytes := repeatN 32 63 ++ [49; 120].
Definition idx_purge_delay : nat := 15.
Lemma long_value_refuted_lemma :
  lenN long_witness = 65 /\ malformed_b false (map toupper long_witness) = true /\
  o_name (tget table0 idx_purge_delay) = [112; 117; 114; 103; 101; 95; 100; 101; 108; 97; 121] /\
  get_via_env idx_purge_delay long_witness = Some (1%Z, INITIALIZED, false) /\
  o_value (tget table0 idx_purge_delay) <> 1%Z.
Proof. vm_compute. repeat split; discriminate. Qed.
