(* Composition layer (C01): every primitive operation of Model/Compose.v preserves mem_inv, and its effect
   on the set of live blocks.  Part 1: operations on one page (pop, collect, extend, free). *)
From Coq Require Import NArith ZArith Lia Bool List.
From Coq Require Import ZifyN ZifyBool.
From MiV Require Import Gen.Consts Gen.Bins Model.Arith Model.Page Model.Span Model.Compose
  Proofs.Base Proofs.PageProofs Proofs.SpanBase Proofs.SpanInv Proofs.SpanProofs Proofs.ComposeBase Proofs.ComposeInv.
Import ListNotations.
Local Open Scope N_scope.

(* ------------------------------------------------------------------------------------- *)
(* replacing / deleting / adding a segment                                                 *)
(* ------------------------------------------------------------------------------------- *)

Lemma kset_inv m cs cs' : mem_inv m -> In cs m -> cs_base cs' = cs_base cs -> seg_size cs' = seg_size cs ->
  seg_ok cs' -> mem_inv (kset cs_base m cs').
Proof.
  intros (Hnd & Hok & Hap) Hin Eb Es Hs'.
  assert (Hk : In (cs_base cs') (map cs_base m)) by (rewrite Eb; apply in_map; assumption).
  split; [rewrite map_key_kset; assumption|]. split.
  - intros x Hx. apply (In_kset cs_base m cs' x Hnd Hk) in Hx as [->|(Hx & _)]; [assumption|apply Hok; assumption].
  - intros a b Ha Hb Hne.
    apply (In_kset cs_base m cs' a Hnd Hk) in Ha as [->|(Ha & Hka)];
    apply (In_kset cs_base m cs' b Hnd Hk) in Hb as [->|(Hb & Hkb)].
    + congruence.
    + rewrite Eb, Es. apply Hap; [assumption|assumption|congruence].
    + rewrite Eb, Es. apply Hap; [assumption|assumption|congruence].
    + apply Hap; assumption.
Qed.

Lemma kdel_inv m base : mem_inv m -> mem_inv (kdel cs_base m base).
Proof.
  intros (Hnd & Hok & Hap). split; [apply NoDup_kdel; assumption|]. split.
  - intros x Hx. apply In_kdel in Hx as (Hx & _). apply Hok. assumption.
  - intros a b Ha Hb. apply In_kdel in Ha as (Ha & _). apply In_kdel in Hb as (Hb & _). apply Hap; assumption.
Qed.

Lemma base_ok_spec m base slices : base_ok m base slices = true ->
  base mod MI_SEGMENT_SIZE = 0 /\ 0 < base /\ base + MI_SEGMENT_SIZE < 2^63 /\
  base + slices * MI_SEGMENT_SLICE_SIZE < 2^63 /\
  (forall cs, In cs m -> cs_base cs <> base /\
     (base + slices * MI_SEGMENT_SLICE_SIZE <= cs_base cs \/ cs_base cs + seg_size cs <= base)).
Proof.
  unfold base_ok. rewrite !andb_true_iff, forallb_forall, N.eqb_eq, !N.ltb_lt.
  intros ((((H1 & H2) & H3) & H4) & H5). repeat split; try assumption.
  - specialize (H5 cs H). rewrite andb_true_iff, negb_true_iff, N.eqb_neq in H5. apply H5.
  - specialize (H5 cs H). rewrite andb_true_iff, orb_true_iff, !N.leb_le in H5. apply H5.
Qed.

Lemma cons_inv m cs : mem_inv m -> seg_ok cs ->
  (forall x, In x m -> cs_base x <> cs_base cs /\
     (cs_base cs + seg_size cs <= cs_base x \/ cs_base x + seg_size x <= cs_base cs)) ->
  mem_inv (cs :: m).
Proof.
  intros (Hnd & Hok & Hap) Hs Hd. split.
  - cbn [map]. constructor; [|assumption]. intros Hin. apply in_map_iff in Hin as (x & Ex & Hx).
    destruct (Hd x Hx) as (Hne & _). congruence.
  - split.
    + intros x [<-|Hx]; [assumption|apply Hok; assumption].
    + intros a b [<-|Ha] [<-|Hb] Hne; [congruence|apply Hd; assumption| |apply Hap; assumption].
      destruct (Hd a Ha) as (_ & [H|H]); [right|left]; assumption.
Qed.

(* ------------------------------------------------------------------------------------- *)
(* the live blocks of a state, split at one page                                           *)
(* ------------------------------------------------------------------------------------- *)

(* the live blocks of every page except page idx of segment base *)
Definition others (m : mem) (base idx : N) (x : N * N * N) : Prop :=
  exists cs2 cp2, In cs2 m /\ In cp2 (cs_pages cs2) /\ (cs_base cs2, cp_idx cp2) <> (base, idx) /\
                  In x (page_blocks cs2 cp2).

Lemma In_live_blocks' m x : In x (live_blocks m) <->
  exists cs cp, In cs m /\ In cp (cs_pages cs) /\ In x (page_blocks cs cp).
Proof.
  unfold live_blocks, seg_blocks. rewrite in_flat_map. split.
  - intros (cs & Hcs & H). apply in_flat_map in H as (cp & Hcp & H). exists cs, cp. auto.
  - intros (cs & cp & Hcs & Hcp & H). exists cs. split; [assumption|]. apply in_flat_map. exists cp. auto.
Qed.

Lemma live_blocks_split m cs cp : mem_inv m -> In cs m -> In cp (cs_pages cs) ->
  forall x, In x (live_blocks m) <-> In x (page_blocks cs cp) \/ others m (cs_base cs) (cp_idx cp) x.
Proof.
  intros Hm Hcs Hcp x. rewrite In_live_blocks'. unfold others. split.
  - intros (cs2 & cp2 & Hcs2 & Hcp2 & Hx).
    destruct (N.eq_dec (cs_base cs2) (cs_base cs)) as [Eb|Eb].
    + pose proof Hm as (Hnd & _). pose proof (key_inj cs_base m cs2 cs Hnd Hcs2 Hcs Eb) as ->.
      destruct (N.eq_dec (cp_idx cp2) (cp_idx cp)) as [Ei|Ei].
      * pose proof (seg_ok_In _ _ Hm Hcs) as (_ & _ & _ & _ & _ & Hndp & _).
        pose proof (key_inj cp_idx _ cp2 cp Hndp Hcp2 Hcp Ei) as ->. left. assumption.
      * right. exists cs, cp2. repeat split; try assumption. congruence.
    + right. exists cs2, cp2. repeat split; try assumption. congruence.
  - intros [Hx|(cs2 & cp2 & Hcs2 & Hcp2 & _ & Hx)]; [exists cs, cp|exists cs2, cp2]; auto.
Qed.

Lemma page_blocks_set_pages cs ps cp : page_blocks (set_pages cs ps) cp = page_blocks cs cp.
Proof. reflexivity. Qed.

Lemma live_blocks_put m cs cp cp' : mem_inv m -> In cs m -> In cp (cs_pages cs) -> cp_idx cp' = cp_idx cp ->
  forall x, In x (live_blocks (put_page m cs cp')) <->
            In x (page_blocks cs cp') \/ others m (cs_base cs) (cp_idx cp) x.
Proof.
  intros Hm Hcs Hcp Ei x. rewrite In_live_blocks'. unfold others, put_page.
  pose proof Hm as (Hnd & _).
  pose proof (seg_ok_In _ _ Hm Hcs) as (_ & _ & _ & _ & _ & Hndp & _).
  set (cs' := set_pages cs (kset cp_idx (cs_pages cs) cp')).
  assert (Hk : In (cs_base cs') (map cs_base m)) by (change (cs_base cs') with (cs_base cs); apply in_map; assumption).
  assert (Hkp : In (cp_idx cp') (map cp_idx (cs_pages cs))) by (rewrite Ei; apply in_map; assumption).
  split.
  - intros (cs2 & cp2 & Hcs2 & Hcp2 & Hx).
    apply (In_kset cs_base m cs' cs2 Hnd Hk) in Hcs2 as [->|(Hcs2 & Hkb)].
    + unfold cs' in Hcp2; cbn [set_pages cs_pages] in Hcp2. apply (In_kset cp_idx _ cp' cp2 Hndp Hkp) in Hcp2 as [->|(Hcp2 & Hki)].
      * left. exact Hx.
      * right. exists cs, cp2. repeat split; try assumption. rewrite Ei in Hki. congruence.
    + right. exists cs2, cp2. repeat split; try assumption. unfold cs' in Hkb; cbn [set_pages cs_base] in Hkb. congruence.
  - intros [Hx|(cs2 & cp2 & Hcs2 & Hcp2 & Hne & Hx)].
    + exists cs', cp'. split; [apply (In_kset cs_base m cs' cs' Hnd Hk); left; reflexivity|].
      split; [|exact Hx]. unfold cs'; cbn [set_pages cs_pages]. apply (In_kset cp_idx _ cp' cp' Hndp Hkp). left. reflexivity.
    + destruct (N.eq_dec (cs_base cs2) (cs_base cs)) as [Eb|Eb].
      * pose proof (key_inj cs_base m cs2 cs Hnd Hcs2 Hcs Eb) as ->.
        exists cs', cp2. split; [apply (In_kset cs_base m cs' cs' Hnd Hk); left; reflexivity|].
        split; [|exact Hx]. unfold cs'; cbn [set_pages cs_pages]. apply (In_kset cp_idx _ cp' cp2 Hndp Hkp). right.
        split; [assumption|]. rewrite Ei. congruence.
      * exists cs2, cp2. split; [|auto]. apply (In_kset cs_base m cs' cs2 Hnd Hk). right. split; [assumption|].
        unfold cs'; cbn [set_pages cs_base]. assumption.
Qed.

(* replacing the Page.v state / ghost table of one page preserves the invariant if the page stays valid *)
Lemma put_page_inv m cs cp cp' : mem_inv m -> In cs m -> In cp (cs_pages cs) -> cp_idx cp' = cp_idx cp ->
  reserved (cp_page cp') = reserved (cp_page cp) ->
  page_ok (cs_base cs) (get (entries (fst (cs_st cs))) (cp_idx cp)) cp' -> mem_inv (put_page m cs cp').
Proof.
  intros Hm Hcs Hcp Ei Er Hp. unfold put_page.
  apply (kset_inv m cs); try assumption; try reflexivity.
  pose proof (seg_ok_In _ _ Hm Hcs) as (A1 & A2 & A3 & A4 & A5 & Hndp & A7 & A8 & A9 & A10).
  assert (Hkp : In (cp_idx cp') (map cp_idx (cs_pages cs))) by (rewrite Ei; apply in_map; assumption).
  unfold seg_ok. cbn [set_pages cs_base cs_st cs_pages]. rewrite map_key_kset.
  split; [assumption|]. split; [assumption|]. split; [assumption|]. split; [assumption|].
  split; [assumption|]. split; [assumption|]. split; [assumption|]. split; [|split; [assumption|]].
  - intros cp2 Hcp2. apply (In_kset cp_idx _ cp' cp2 Hndp Hkp) in Hcp2 as [->|(Hcp2 & _)].
    + rewrite Ei. assumption.
    + apply A8. assumption.
  - intros Hk cp2 Hcp2. apply (In_kset cp_idx _ cp' cp2 Hndp Hkp) in Hcp2 as [->|(Hcp2 & _)].
    + rewrite Er. apply (A10 Hk). assumption.
    + apply (A10 Hk). assumption.
Qed.

Lemma find_both m base idx cs cp : mem_inv m -> find_seg m base = Some cs -> find_page cs idx = Some cp ->
  In cs m /\ cs_base cs = base /\ In cp (cs_pages cs) /\ cp_idx cp = idx /\ seg_ok cs /\
  page_ok (cs_base cs) (get (entries (fst (cs_st cs))) (cp_idx cp)) cp.
Proof.
  intros Hm Hf Hp. apply (find_seg_In _ _ _ Hm) in Hf as (Hcs & Eb).
  pose proof (seg_ok_In _ _ Hm Hcs) as Hs. apply (find_page_In _ _ _ Hs) in Hp as (Hcp & Ei).
  split; [assumption|]. split; [assumption|]. split; [assumption|]. split; [assumption|]. split; [assumption|].
  apply page_ok_In; assumption.
Qed.

(* ------------------------------------------------------------------------------------- *)
(* pop_block: _mi_page_malloc_zero                                                         *)
(* ------------------------------------------------------------------------------------- *)

Lemma In_page_blocks cs cp x : In x (page_blocks cs cp) <->
  exists b r, In (b, r) (cp_ghost cp) /\ x = (block_addr cs cp b, bsize (cp_page cp), r).
Proof.
  unfold page_blocks. rewrite in_map_iff. split.
  - intros ([b r] & <- & H). exists b, r. auto.
  - intros (b & r & H & ->). exists (b, r). auto.
Qed.

Theorem pop_block_spec m base idx size m' p : mem_inv m -> pop_block m base idx size = Some (m', p) ->
  exists cs cp b,
    In cs m /\ cs_base cs = base /\ In cp (cs_pages cs) /\ cp_idx cp = idx /\
    p = block_addr cs cp b /\ size <= bsize (cp_page cp) /\ ~ is_live (cp_page cp) b /\
    b < capacity (cp_page cp) /\ mem_inv m' /\
    (forall x, In x (live_blocks m') <-> x = (p, bsize (cp_page cp), size) \/ In x (live_blocks m)).
Proof.
  intros Hm. unfold pop_block.
  destruct (find_seg m base) as [cs|] eqn:Ef; [|discriminate].
  destruct (find_page cs idx) as [cp|] eqn:Ep; [|discriminate].
  destruct (size <=? bsize (cp_page cp)) eqn:Esz; [|discriminate]. apply N.leb_le in Esz.
  destruct (page_malloc (cp_page cp)) as [[b pg']|] eqn:Em; [|discriminate].
  intros H. inversion H; subst m' p. clear H.
  destruct (find_both _ _ _ _ _ Hm Ef Ep) as (Hcs & Eb & Hcp & Ei & Hs & (Hpi & Hbz & Hres & Hnd & Hkeys & Hreq)).
  subst base idx.
  destruct (page_pop_fresh _ _ _ Hpi Em) as (Hnl & Hl' & Hfr & Hcap & _).
  destruct (malloc_spec _ _ _ Em) as (rest & Efree & Epg').
  assert (Ebs : bsize pg' = bsize (cp_page cp)) by (subst pg'; reflexivity).
  assert (Ers : reserved pg' = reserved (cp_page cp)) by (subst pg'; reflexivity).
  set (cp' := mkCPage (cp_idx cp) pg' ((b, size) :: cp_ghost cp)).
  assert (Eblk : forall i, block_addr cs cp' i = block_addr cs cp i).
  { intros i. unfold block_addr. unfold cp'; cbn [cp_idx cp_page]. rewrite Ebs. reflexivity. }
  exists cs, cp, b. split; [assumption|]. split; [reflexivity|]. split; [assumption|]. split; [reflexivity|].
  split; [reflexivity|]. split; [assumption|]. split; [assumption|]. split; [assumption|]. split.
  - apply (put_page_inv m cs cp cp'); try assumption; [reflexivity|].
    unfold page_ok. unfold cp'; cbn [cp_page cp_idx cp_ghost].
    split; [apply (malloc_inv _ _ _ Hpi Em)|]. split; [congruence|]. split; [rewrite Ers, Ebs; exact Hres|].
    unfold ghost_ok. cbn [cp_ghost cp_page map fst]. split; [|split].
    + constructor; [|assumption]. intros Hin. apply Hkeys in Hin. contradiction.
    + intros i. cbn [In]. destruct (N.eq_dec i b) as [->|Hne].
      * split; [intros _; assumption|intros _; left; reflexivity].
      * rewrite (Hfr i Hne), <- Hkeys. split; [intros [E|Hi]; [congruence|assumption]|intros Hi; right; assumption].
    + intros i r [E|Hin]; [inversion E; subst; rewrite Ebs; assumption|rewrite Ebs; apply (Hreq _ _ Hin)].
  - intros x. rewrite (live_blocks_put m cs cp cp' Hm Hcs Hcp eq_refl), (live_blocks_split m cs cp Hm Hcs Hcp).
    assert (E : In x (page_blocks cs cp') <-> x = (block_addr cs cp b, bsize (cp_page cp), size) \/ In x (page_blocks cs cp)).
    { rewrite !In_page_blocks. unfold cp'; cbn [cp_ghost cp_page]. split.
      - intros (i & r & [E|Hin] & ->); rewrite Eblk, Ebs; [inversion E; subst; left; reflexivity|right; exists i, r; auto].
      - intros [->|(i & r & Hin & ->)]; [exists b, size|exists i, r]; rewrite Eblk, Ebs; split; auto; [left|right]; auto. }
    rewrite E. tauto.
Qed.

(* ------------------------------------------------------------------------------------- *)
(* operations that only rearrange the lists of one page: collect, extend                   *)
(* ------------------------------------------------------------------------------------- *)

Theorem on_page_spec m base idx f m' : mem_inv m -> on_page m base idx f = Some m' ->
  (forall pg, page_Inv pg -> page_Inv (f pg) /\ bsize (f pg) = bsize pg /\ reserved (f pg) = reserved pg /\
              (forall i, is_live (f pg) i <-> is_live pg i)) ->
  mem_inv m' /\ (forall x, In x (live_blocks m') <-> In x (live_blocks m)).
Proof.
  intros Hm. unfold on_page.
  destruct (find_seg m base) as [cs|] eqn:Ef; [|discriminate].
  destruct (find_page cs idx) as [cp|] eqn:Ep; [|discriminate].
  intros H Hf. inversion H; subst m'. clear H.
  destruct (find_both _ _ _ _ _ Hm Ef Ep) as (Hcs & Eb & Hcp & Ei & Hs & (Hpi & Hbz & Hres & Hnd & Hkeys & Hreq)).
  subst base idx.
  destruct (Hf _ Hpi) as (Hpi' & Ebs & Ers & Hlive).
  set (cp' := mkCPage (cp_idx cp) (f (cp_page cp)) (cp_ghost cp)).
  split.
  - apply (put_page_inv m cs cp cp'); try assumption; [reflexivity|].
    unfold page_ok. unfold cp'; cbn [cp_page cp_idx cp_ghost].
    split; [assumption|]. split; [congruence|]. split; [rewrite Ers, Ebs; exact Hres|].
    unfold ghost_ok. cbn [cp_ghost cp_page]. split; [assumption|]. split.
    + intros i. rewrite Hlive. apply Hkeys.
    + intros i r Hin. rewrite Ebs. apply (Hreq _ _ Hin).
  - intros x. rewrite (live_blocks_put m cs cp cp' Hm Hcs Hcp eq_refl).
    rewrite (live_blocks_split m cs cp Hm Hcs Hcp).
    assert (E : page_blocks cs cp' = page_blocks cs cp).
    { unfold page_blocks, block_addr. unfold cp'; cbn [cp_idx cp_page cp_ghost]. rewrite Ebs. reflexivity. }
    rewrite E. reflexivity.
Qed.

Lemma collect_fields pg force : page_Inv pg ->
  page_Inv (fst (page_free_collect pg force)) /\ bsize (fst (page_free_collect pg force)) = bsize pg /\
  reserved (fst (page_free_collect pg force)) = reserved pg /\
  (forall i, is_live (fst (page_free_collect pg force)) i <-> is_live pg i).
Proof.
  intros Hpi. split; [apply collect_inv; assumption|].
  destruct (page_free_collect pg force) as [q e] eqn:E.
  destruct (collect_spec _ _ _ _ Hpi E) as (_ & H1 & H2 & _).
  pose proof (page_collect_live pg force Hpi) as (_ & H3). rewrite E in H3. cbn [fst] in *.
  split; [assumption|]. split; assumption.
Qed.

Lemma extend_fields pg : page_Inv pg ->
  page_Inv (page_extend pg) /\ bsize (page_extend pg) = bsize pg /\ reserved (page_extend pg) = reserved pg /\
  (forall i, is_live (page_extend pg) i <-> is_live pg i).
Proof.
  intros Hpi. split; [apply extend_inv; assumption|].
  assert (Hr : reserved pg < 65536) by apply Hpi.
  split; [|split; [|apply page_extend_live; assumption]].
  - destruct (extend_spec pg Hr) as [->|(e & _ & _ & _ & ->)]; reflexivity.
  - destruct (extend_spec pg Hr) as [->|(e & _ & _ & _ & ->)]; reflexivity.
Qed.

Theorem collect_page_spec m base idx force m' : mem_inv m -> collect_page m base idx force = Some m' ->
  mem_inv m' /\ (forall x, In x (live_blocks m') <-> In x (live_blocks m)).
Proof.
  intros Hm H. apply (on_page_spec m base idx _ m' Hm H). intros pg Hpi. apply collect_fields. assumption.
Qed.

Theorem extend_page_spec m base idx m' : mem_inv m -> extend_page m base idx = Some m' ->
  mem_inv m' /\ (forall x, In x (live_blocks m') <-> In x (live_blocks m)).
Proof.
  intros Hm H. apply (on_page_spec m base idx _ m' Hm H). intros pg Hpi. apply extend_fields. assumption.
Qed.

(* ------------------------------------------------------------------------------------- *)
(* free_block: mi_free of the block an address resolves to                                 *)
(* ------------------------------------------------------------------------------------- *)

Lemma ghost_has_spec g b : ghost_has g b = true <-> In b (map fst g).
Proof.
  unfold ghost_has. rewrite existsb_exists, in_map_iff. split.
  - intros (e & He & E). apply N.eqb_eq in E. exists e. auto.
  - intros (e & E & He). exists e. split; [assumption|]. apply N.eqb_eq. assumption.
Qed.

Lemma In_ghost_del g b e : In e (ghost_del g b) <-> In e g /\ fst e <> b.
Proof. unfold ghost_del. rewrite filter_In, negb_true_iff, N.eqb_neq. reflexivity. Qed.

Lemma In_keys_ghost_del g b i : In i (map fst (ghost_del g b)) <-> In i (map fst g) /\ i <> b.
Proof.
  rewrite !in_map_iff. split.
  - intros (e & <- & He). apply In_ghost_del in He as (He & Hne). split; [exists e; auto|assumption].
  - intros ((e & <- & He) & Hne). exists e. split; [reflexivity|]. apply In_ghost_del. auto.
Qed.

Lemma NoDup_keys_ghost_del g b : NoDup (map fst g) -> NoDup (map fst (ghost_del g b)).
Proof.
  unfold ghost_del. induction g as [|e g IH]; cbn [map filter]; [constructor|].
  intros H. inversion H; subst. destruct (negb (fst e =? b)); [|apply IH; assumption].
  cbn [map]. constructor; [|apply IH; assumption].
  intros Hin. apply H2. apply in_map_iff in Hin as (e' & E & He'). apply filter_In in He' as (He' & _).
  rewrite <- E. apply in_map. assumption.
Qed.

Theorem free_block_spec m p remote m' : mem_inv m -> free_block m p remote = Some m' ->
  exists cs cp b r, live_at m cs cp b r /\ resolve m p = Some (cs_base cs, cp_idx cp, b) /\ mem_inv m' /\
    (forall x, In x (live_blocks m') <-> In x (live_blocks m) /\ fst (fst x) <> block_addr cs cp b).
Proof.
  intros Hm. unfold free_block.
  destruct (resolve m p) as [[[base idx] b]|] eqn:Er; [|discriminate].
  destruct (find_seg m base) as [cs|] eqn:Ef; [|discriminate].
  destruct (find_page cs idx) as [cp|] eqn:Ep; [|discriminate].
  destruct (ghost_has (cp_ghost cp) b) eqn:Eg; [|discriminate].
  intros H. inversion H; subst m'. clear H.
  destruct (find_both _ _ _ _ _ Hm Ef Ep) as (Hcs & Eb & Hcp & Ei & Hs & (Hpi & Hbz & Hres & Hnd & Hkeys & Hreq)).
  subst base idx.
  apply ghost_has_spec in Eg. pose proof (proj1 (Hkeys b) Eg) as Hlive.
  apply in_map_iff in Eg as ([b' r] & Eb' & Hg). cbn [fst] in Eb'. subst b'.
  set (pg' := if remote then page_remote_free (cp_page cp) b else page_free_local (cp_page cp) b).
  assert (F : page_Inv pg' /\ bsize pg' = bsize (cp_page cp) /\ reserved pg' = reserved (cp_page cp) /\
              ~ is_live pg' b /\ (forall i, i <> b -> (is_live pg' i <-> is_live (cp_page cp) i))).
  { unfold pg'. destruct remote.
    - split; [apply remote_free_inv; assumption|]. split; [reflexivity|]. split; [reflexivity|].
      apply page_remote_free_frame; assumption.
    - split; [apply free_local_inv; assumption|]. split; [reflexivity|]. split; [reflexivity|].
      apply page_free_frame; assumption. }
  destruct F as (Hpi' & Ebs & Ers & Hnl & Hfr).
  set (cp' := mkCPage (cp_idx cp) pg' (ghost_del (cp_ghost cp) b)).
  assert (Eblk : forall i, block_addr cs cp' i = block_addr cs cp i).
  { intros i. unfold block_addr. unfold cp'; cbn [cp_idx cp_page]. rewrite Ebs. reflexivity. }
  assert (Hbs0 : 0 < bsize (cp_page cp)) by apply Hpi.
  exists cs, cp, b, r. split; [repeat split; assumption|]. split; [reflexivity|]. split.
  - apply (put_page_inv m cs cp cp'); try assumption; [reflexivity|].
    unfold page_ok. unfold cp'; cbn [cp_page cp_idx cp_ghost].
    split; [assumption|]. split; [congruence|]. split; [rewrite Ers, Ebs; exact Hres|].
    unfold ghost_ok. cbn [cp_ghost cp_page]. split; [apply NoDup_keys_ghost_del; assumption|]. split.
    + intros i. rewrite In_keys_ghost_del. destruct (N.eq_dec i b) as [->|Hne].
      * split; [intros (_ & H); congruence|intros H; contradiction].
      * rewrite (Hfr i Hne), Hkeys. tauto.
    + intros i r' Hin. apply In_ghost_del in Hin as (Hin & _). rewrite Ebs. apply (Hreq _ _ Hin).
  - intros x. rewrite (live_blocks_put m cs cp cp' Hm Hcs Hcp eq_refl), (live_blocks_split m cs cp Hm Hcs Hcp).
    assert (E : In x (page_blocks cs cp') <-> In x (page_blocks cs cp) /\ fst (fst x) <> block_addr cs cp b).
    { rewrite !In_page_blocks. unfold cp' at 1 3; cbn [cp_ghost cp_page]. split.
      - intros (i & r' & Hin & ->). apply In_ghost_del in Hin as (Hin & Hne). cbn [fst] in Hne.
        rewrite Eblk, Ebs. split; [exists i, r'; auto|]. cbn [fst]. unfold block_addr. nia.
      - intros ((i & r' & Hin & ->) & Hne). cbn [fst] in Hne. exists i, r'. rewrite Eblk, Ebs. split; [|reflexivity].
        apply In_ghost_del. split; [assumption|]. cbn [fst]. intros ->. apply Hne. reflexivity. }
    rewrite E.
    assert (O : others m (cs_base cs) (cp_idx cp) x -> fst (fst x) <> block_addr cs cp b).
    { intros (cs2 & cp2 & Hcs2 & Hcp2 & Hne & Hx) Ea. apply In_page_blocks in Hx as (i & r' & Hin & ->). cbn [fst] in Ea.
      destruct (live_same_addr m cs2 cp2 i r' cs cp b r Hm) as (-> & -> & _); try assumption; repeat split; try assumption.
      apply Hne. reflexivity. }
    tauto.
Qed.

(* ------------------------------------------------------------------------------------- *)
(* replacing one segment by a segment with the same live blocks                            *)
(* ------------------------------------------------------------------------------------- *)

Lemma In_seg_blocks cs x : In x (seg_blocks cs) <-> exists cp, In cp (cs_pages cs) /\ In x (page_blocks cs cp).
Proof. unfold seg_blocks. apply in_flat_map. Qed.

Lemma live_blocks_kset m cs cs' : mem_inv m -> In cs m -> cs_base cs' = cs_base cs ->
  (forall x, In x (seg_blocks cs') <-> In x (seg_blocks cs)) ->
  forall x, In x (live_blocks (kset cs_base m cs')) <-> In x (live_blocks m).
Proof.
  intros (Hnd & _) Hcs Eb Hsb x. unfold live_blocks. rewrite !in_flat_map.
  assert (Hk : In (cs_base cs') (map cs_base m)) by (rewrite Eb; apply in_map; assumption).
  split.
  - intros (y & Hy & Hx). apply (In_kset cs_base m cs' y Hnd Hk) in Hy as [->|(Hy & _)].
    + exists cs. split; [assumption|]. apply Hsb. assumption.
    + exists y. auto.
  - intros (y & Hy & Hx). destruct (N.eq_dec (cs_base y) (cs_base cs)) as [E|E].
    + pose proof (key_inj cs_base m y cs Hnd Hy Hcs E) as ->. exists cs'.
      split; [apply (In_kset cs_base m cs' cs' Hnd Hk); left; reflexivity|apply Hsb; assumption].
    + exists y. split; [|assumption]. apply (In_kset cs_base m cs' y Hnd Hk). right. split; [assumption|congruence].
Qed.

Lemma live_blocks_kdel m base : (forall cs, In cs m -> cs_base cs = base -> seg_blocks cs = []) ->
  forall x, In x (live_blocks (kdel cs_base m base)) <-> In x (live_blocks m).
Proof.
  intros Hd x. unfold live_blocks. rewrite !in_flat_map. split.
  - intros (y & Hy & Hx). apply In_kdel in Hy as (Hy & _). exists y. auto.
  - intros (y & Hy & Hx). exists y. split; [|assumption]. apply In_kdel. split; [assumption|].
    intros E. rewrite (Hd y Hy E) in Hx. destruct Hx.
Qed.
