(* Preservation of the invariant by every transition of the cross-thread free model: part 1,
   the remote free (mi_free_block_delayed_mt). *)
From Coq Require Import NArith List Bool Lia Arith.
From MiV Require Import Model.TFree Proofs.TFreeBase Proofs.TFreeInv Proofs.TFreeGen Proofs.TFreeTop.
Import ListNotations.
Local Open Scope N_scope.

Lemma step_RF1 c t b rest alt : Inv c -> th_stk (gett c t) = RF1 b :: rest ->
  good (fstep c t (gett c t) (RF1 b) rest alt).
Proof.
  intros I E. cbn [fstep].
  destruct (frame_block_alive c t b I) as [Ha _]; [rewrite E; left; reflexivity|].
  rewrite Ha. cbn [negb]. unfold ok_s, ok_t, good.
  destruct (stack_facts c t _ _ I E) as (S1 & S2 & S3 & S4).
  apply (step_top c t (RF1 b) rest [RF2 b _ _]); auto; top_side; try stk_ok_top.
Qed.

(* the window count of a thread inside the window forces the flag *)
Lemma in_window_flag c t p : Inv c -> (1 <= sum_fr (win_fr p) (th_stk (gett c t)))%nat ->
  pg_flag (getp c p) = Freeing /\ pg_alive (getp c p) = true /\ mWin c p = 1%nat.
Proof.
  intros I H. pose proof (mWin_ge c t p) as G. pose proof (b_win _ (i_B _ I) p) as W.
  destruct (flag_eqb (pg_flag (getp c p)) Freeing) eqn:F; [|lia].
  apply flag_eqb_eq in F. split; [assumption|]. split; [|assumption].
  destruct (pg_alive (getp c p)) eqn:A; [reflexivity|]. rewrite (s_dead _ (i_S _ I) p A) in F. discriminate.
Qed.
Lemma not_freeing_no_window c t p : Inv c -> pg_flag (getp c p) <> Freeing -> sum_fr (win_fr p) (th_stk (gett c t)) = 0%nat.
Proof.
  intros I H. pose proof (mWin_ge c t p) as G. pose proof (b_win _ (i_B _ I) p) as W.
  destruct (flag_eqb (pg_flag (getp c p)) Freeing) eqn:F; [apply flag_eqb_eq in F; contradiction|lia].
Qed.
Lemma word_eq_flag f hd pg : word_eq f hd pg = true -> pg_flag pg = f.
Proof. unfold word_eq. intros H. apply andb_prop in H as [H _]. apply flag_eqb_eq in H. auto. Qed.

Lemma tf_local c p : Inv c -> forallb (onp p) (pg_tf (getp c p)) = true.
Proof.
  intros I. pose proof (a_local _ (i_A _ I) p) as L. unfold pg_blocks in L. rewrite forallb_app in L.
  apply andb_prop in L as [L _]. exact L.
Qed.

(* nd for a page whose flag is unchanged *)
Ltac nd_tac ND :=
  let H := fresh "H" in let HH := fresh "HH" in
  intros H; assert (HH := ND);
  match type of HH with ?A \/ ?B -> ?C => assert (C) by (apply ND; destruct H as [H|H]; [left; exact H|right; lia]) end;
  lia.

Ltac cnt_goal := intros ?P; cbn [stk_blocks flat_map fr_blocks app]; rewrite ?cnt_app, ?cnt_cons, ?cnt_nil; lia.

(* set up the measure equations for InvB goals of the shape sett (setp ..) *)
Ltac invB_setp c t E Hwf :=
  cbn [app];
  lazymatch goal with
  | |- InvB (sett (setp _ ?p ?pg') _ ?th') =>
    constructor; intros q;
    destruct (meas_sett_setp c t th' p pg' q Hwf) as (E1 & E2 & E3 & E4);
    rewrite E in E1, E2, E3;
    cbn [th_stk th_ret th_set app sum_fr win_fr pw_fr d1_stk d1_fr flat_map] in E1, E2, E3;
    rewrite ?app_nil_r, ?cnt_app, ?cnt_cons, ?cnt_nil in E3;
    rewrite E4
  end.

Lemma step_RF2 c t b f hd rest alt : Inv c -> th_stk (gett c t) = RF2 b f hd :: rest ->
  good (fstep c t (gett c t) (RF2 b f hd) rest alt).
Proof.
  intros I E. cbn [fstep].
  destruct (frame_block_alive c t b I) as [Ha _]; [rewrite E; left; reflexivity|].
  rewrite Ha. cbn [negb]. unfold ok_s, ok_t, good.
  destruct (stack_facts c t _ _ I E) as (S1 & S2 & S3 & S4).
  pose proof (rf_alone _ _ S1) as Hr. cbn in Hr. subst rest.
  pose proof (i_wf _ I) as Hwf.
  destruct (alt || negb (word_eq f hd (getp c (fst b)))) eqn:Ec.
  { apply (step_top c t (RF2 b f hd) [] [RF2 b _ _]); auto; top_side. }
  apply orb_false_iff in Ec as [_ Ec]. apply negb_false_iff in Ec. pose proof (word_eq_flag _ _ _ Ec) as Ef.
  set (p := fst b) in *.
  destruct (flag_eqb f UseD) eqn:Eu.
  - destruct f; try discriminate Eu.
    apply (step_top_word c t (RF2 b UseD hd) [] [RF3 b] (th_ret (gett c t)) p Freeing (pg_tf (getp c p)));
      auto; top_side; try cnt_goal; try (apply tf_local; assumption).
    invB_setp c t E Hwf.
    + pose proof (b_win _ (i_B _ I) q) as W. fold p in E1. destruct (q =? p) eqn:Eq.
      * apply N.eqb_eq in Eq. subst q. rewrite N.eqb_refl in E1. cbn [pg_flag pg_set_word flag_eqb].
        rewrite Ef in W. cbn in W. lia.
      * rewrite N.eqb_sym, Eq in E1. lia.
    + pose proof (b_nd _ (i_B _ I) q) as ND. destruct (q =? p) eqn:Eq.
      * cbn [pg_flag pg_set_word]. intros [H|H]; [discriminate|]. assert (1 <= mD c (onp q))%nat by (apply ND; right; lia). lia.
      * nd_tac ND.
  - apply (step_top_word c t (RF2 b f hd) [] [] (th_ret (gett c t)) p (pg_flag (getp c p)) (b :: pg_tf (getp c p)));
      auto; top_side; try cnt_goal.
    + cbn [forallb]. rewrite (tf_local c p I). unfold onp, p. rewrite N.eqb_refl. reflexivity.
    + invB_setp c t E Hwf.
      * pose proof (b_win _ (i_B _ I) q) as W. destruct (q =? p) eqn:Eq.
        -- apply N.eqb_eq in Eq. subst q. cbn [pg_flag pg_set_word]. lia.
        -- lia.
      * pose proof (b_nd _ (i_B _ I) q) as ND. destruct (q =? p) eqn:Eq.
        -- apply N.eqb_eq in Eq. subst q. cbn [pg_flag pg_set_word]. nd_tac ND.
        -- nd_tac ND.
Qed.

Lemma hown_true hp t : hown hp t = true -> hp_alive hp = true /\ hp_owner hp = t.
Proof. unfold hown. intros H. apply andb_prop in H as [H1 H2]. apply N.eqb_eq in H2. auto. Qed.

Lemma step_RF3 c t b rest alt : Inv c -> th_stk (gett c t) = RF3 b :: rest ->
  good (fstep c t (gett c t) (RF3 b) rest alt).
Proof.
  intros I E. cbn [fstep].
  destruct (frame_block_alive c t b I) as [Ha _]; [rewrite E; left; reflexivity|].
  rewrite Ha. cbn [negb].
  destruct (s_pheap _ (i_S _ I) _ Ha) as [h [Hh Ho]]. rewrite Hh. unfold ok_s, ok_t, good.
  destruct (stack_facts c t _ _ I E) as (S1 & S2 & S3 & S4).
  apply (step_top c t (RF3 b) rest [RF4 b h]); auto; top_side; try stk_ok_top.
  rewrite Ha, Ho, Hh, oN_eqb_refl. reflexivity.
Qed.

Lemma step_RF4 c t b h rest alt : Inv c -> th_stk (gett c t) = RF4 b h :: rest ->
  good (fstep c t (gett c t) (RF4 b h) rest alt).
Proof.
  intros I E. cbn [fstep].
  destruct (stack_facts c t _ _ I E) as (S1 & S2 & S3 & S4).
  assert (S2' := S2). cbn [fr_ok] in S2'. apply andb_prop in S2' as [Ho _]. apply andb_prop in Ho as [_ Ho]. apply hown_true in Ho as [Hal _].
  rewrite Hal. cbn [negb]. unfold ok_s, ok_t, good.
  apply (step_top c t (RF4 b h) rest [RF5 b h _]); auto; top_side; try stk_ok_top.
  cbn [fr_ok] in S2. rewrite S2. reflexivity.
Qed.

Lemma absorbing_hd_bottom stk p h : absorbing stk p h = true -> hd_bottom stk h = true.
Proof.
  destruct stk as [|f [|g r]]; try discriminate; destruct f; try discriminate; destruct spin; try discriminate;
    destruct g; try discriminate; cbn; intros H; apply andb_prop in H as [_ H]; rewrite H; cbn; rewrite ?orb_true_r; reflexivity.
Qed.
Lemma absorbing_no_HD4 stk p h h0 : absorbing stk p h = true -> stk_ok stk = true -> ~ In (HD4 h0) stk.
Proof.
  destruct stk as [|f [|g r]]; try discriminate; destruct f; try discriminate; destruct spin; try discriminate;
    destruct g; try discriminate; intros _ H; cbn in H; destruct r; try discriminate;
    intros [X|[X|[]]]; discriminate.
Qed.

Lemma step_RF5 c t b h dhd rest alt : Inv c -> th_stk (gett c t) = RF5 b h dhd :: rest ->
  good (fstep c t (gett c t) (RF5 b h dhd) rest alt).
Proof.
  intros I E. cbn [fstep].
  destruct (stack_facts c t _ _ I E) as (S1 & S2 & S3 & S4).
  assert (S2' := S2). cbn [fr_ok] in S2'. apply andb_prop in S2' as [Ho Hab]. apply andb_prop in Ho as [_ Ho]. apply hown_true in Ho as [Hal Hown].
  rewrite Hal. cbn [negb]. unfold ok_s, ok_t, good.
  pose proof (rf_alone _ _ S1) as Hr. cbn in Hr. subst rest.
  pose proof (i_wf _ I) as Hwf.
  destruct (frame_block_alive c t b I) as [Hpa _]; [rewrite E; left; reflexivity|].
  destruct (alt || negb (obid_eqb dhd (hdo (hp_del (geth c h))))) eqn:Ec.
  { apply (step_top c t (RF5 b h dhd) [] [RF5 b h _]); auto; top_side. cbn [fr_ok] in S2. rewrite S2. reflexivity. }
  set (p := fst b) in *.
  apply (step_top_del c t (RF5 b h dhd) [] [RF6 p] (th_ret (gett c t)) h (b :: hp_del (geth c h)));
    auto; top_side; try cnt_goal.
  - (* InvB *)
    cbn [app]. constructor; intros q;
      destruct (meas_sett_seth c t (th_set (gett c t) [RF6 p] (th_ret (gett c t))) h
                  (hp_set_del (geth c h) (b :: hp_del (geth c h))) q Hwf) as (E1 & E2 & E3 & E4);
      rewrite E in E1, E2, E3;
      cbn [th_stk th_ret th_set app sum_fr win_fr pw_fr d1_stk d1_fr flat_map hp_del hp_set_del] in E1, E2, E3;
      rewrite ?cnt_cons, ?cnt_nil in E3; rewrite E4; fold p in E1.
    + pose proof (b_win _ (i_B _ I) q) as W. lia.
    + pose proof (b_nd _ (i_B _ I) q) as ND. change (onp q b) with (fst b =? q) in E3. fold p in E3. destruct (p =? q) eqn:Eq.
      * intros _. lia.
      * nd_tac ND.
  - (* del_ok of the new list *)
    cbn [forallb]. rewrite (s_del _ (i_S _ I) h), andb_true_r. unfold del_ok. fold p. rewrite Hal, Hpa, Hown, N.eqb_refl.
    cbn [andb]. revert Hab. apply orb_mono. rewrite <- Hown. apply absorbing_hd_bottom.
  - (* no other thread is about to free heap h *)
    intros t' Hne Hin.
    pose proof (s_frames _ (i_S _ I) t') as F. rewrite forallb_forall in F. specialize (F _ Hin). cbn [fr_ok] in F.
    apply andb_prop in F as [F _]. apply hown_true in F as [_ F].
    pose proof (s_hd _ (i_S _ I) t' _ Hin) as [H1 _]. cbn [hd_fr_okP] in H1.
    apply orb_prop in Hab as [Hab|Hab].
    + apply oN_eqb_eq in Hab. apply (H1 p Hpa Hab).
    + rewrite <- Hown, F in Hab. apply (absorbing_no_HD4 _ _ _ h Hab (s_shape _ (i_S _ I) t') Hin).
Qed.

Lemma step_RF6 c t p rest alt : Inv c -> th_stk (gett c t) = RF6 p :: rest ->
  good (fstep c t (gett c t) (RF6 p) rest alt).
Proof.
  intros I E. cbn [fstep].
  destruct (in_window_flag c t p I) as (Hf & Ha & _); [rewrite E; cbn; rewrite N.eqb_refl; lia|].
  rewrite Ha. cbn [negb]. unfold ok_s, ok_t, good.
  destruct (stack_facts c t _ _ I E) as (S1 & S2 & S3 & S4).
  apply (step_top c t (RF6 p) rest [RF7 p _ _]); auto; top_side; try stk_ok_top.
Qed.

Lemma step_RF7 c t p f hd rest alt : Inv c -> th_stk (gett c t) = RF7 p f hd :: rest ->
  good (fstep c t (gett c t) (RF7 p f hd) rest alt).
Proof.
  intros I E. cbn [fstep].
  destruct (in_window_flag c t p I) as (Hf & Ha & Hw1); [rewrite E; cbn; rewrite N.eqb_refl; lia|].
  rewrite Ha. cbn [negb]. unfold ok_s, ok_t, good.
  destruct (stack_facts c t _ _ I E) as (S1 & S2 & S3 & S4).
  pose proof (rf_alone _ _ S1) as Hr. cbn in Hr. subst rest.
  pose proof (i_wf _ I) as Hwf.
  destruct (alt || negb (word_eq f hd (getp c p))) eqn:Ec.
  { apply (step_top c t (RF7 p f hd) [] [RF7 p _ _]); auto; top_side. }
  apply (step_top_word c t (RF7 p f hd) [] [] (th_ret (gett c t)) p NoD (pg_tf (getp c p)));
    auto; top_side; try cnt_goal; try (apply tf_local; assumption).
  invB_setp c t E Hwf.
  - pose proof (b_win _ (i_B _ I) q) as W. destruct (q =? p) eqn:Eq.
    + apply N.eqb_eq in Eq. subst q. rewrite N.eqb_refl in E1. cbn [pg_flag pg_set_word flag_eqb]. lia.
    + rewrite N.eqb_sym, Eq in E1. lia.
  - pose proof (b_nd _ (i_B _ I) q) as ND. destruct (q =? p) eqn:Eq.
    + apply N.eqb_eq in Eq. subst q. rewrite N.eqb_refl in E2. intros _.
      assert (1 <= mD c (onp p))%nat by (apply ND; right; pose proof (mPw_ge c t p) as G; rewrite E in G; cbn in G;
                                          rewrite N.eqb_refl in G; lia).
      lia.
    + rewrite N.eqb_sym, Eq in E2. nd_tac ND.
Qed.
