(* Commit bookkeeping (C07): the theorems of Properties/C07.v.
   Model/Commit.v follows the code as repaired by c78a4f5 (arena: blocks whose commit was refused are not kept marked
   committed), 68720bb (segment: a huge segment whose memory the arena did not commit is committed as a whole) and the
   repair of mi_segments_page_alloc (a fresh segment that the retry left without a page is freed again);
   `arena_try_alloc_at_old` and `os_alloc_commit_old` below are the pre-repair behaviours, shown unsound, and
   `segments_page_alloc_old` is the pre-repair mi_segments_page_alloc, shown to keep a segment without pages. *)
From Coq Require Import NArith Lia Bool List.
From MiV Require Import Gen.Consts Model.Commit Proofs.CommitBase Proofs.CommitInv Proofs.CommitStep.
Import ListNotations.
Local Open Scope N_scope.
Local Open Scope bool_scope.

(* ---------------------------------------------------------------- (A) arena *)
Lemma arena_commit_sound a acc segs b0 n commit o mc z a' acc' o' :
  arena_A a segs acc ->
  (forall b x, b0 <= b < b0 + n -> in_block a b x -> governed segs x = false) ->
  arena_try_alloc_at a acc b0 n commit o = Some (mc, z, a', acc', o') ->
  arena_A a' segs acc' /\
  (mc = true -> forall x, block_slice a b0 <= x < block_slice a b0 + n * BLOCK_SLICES -> acc' x = true) /\
  (forall x, acc x = true -> acc' x = true) /\
  (forall b, b0 <= b < b0 + n -> a_committed a' b = mc).
Proof.
  intros HA Hung H. apply arena_try_alloc_at_spec in H.
  destruct H as [Hn [Hr [Hf [Hsh [Hiu [_ [Hcf [Hmono [Hframe Hcase]]]]]]]]].
  assert (Hrange : mc = true -> forall x, block_slice a b0 <= x < block_slice a b0 + n * BLOCK_SLICES -> acc' x = true).
  { intros Hmc x Hx. destruct Hcase as [[_ [_ [[Hall [-> _]]|[_ [_ Hacc]]]]]|[Hmc' _]]; [|auto|congruence].
    destruct (slice_in_blocks _ _ _ _ Hx) as [b [Hb Hin]].
    destruct (HA b ltac:(lia) (Hall b Hb) x Hin) as [G|G]; [|exact G]. rewrite (Hung b x Hb Hin) in G. discriminate. }
  split; [|split; [exact Hrange|split; [exact Hmono|]]].
  - destruct Hsh as [S1 [S2 S3]]. intros b Hb Hc x Hx. rewrite S2 in Hb.
    apply (in_block_shape a a' b x (conj S1 (conj S2 S3))) in Hx.
    destruct (in_range b0 n b) eqn:Er.
    + apply in_range_spec in Er. right. destruct mc.
      * apply Hrange; [reflexivity|]. eapply block_in_range; eauto.
      * destruct Hcase as [[Hmc _]|[_ [Hcl _]]]; [discriminate|]. rewrite (Hcl b Er) in Hc. discriminate.
    + apply in_range_false in Er. rewrite (Hcf b Er) in Hc. destruct (HA b Hb Hc x Hx) as [G|G]; auto.
  - intros b Hb. destruct Hcase as [[-> [Hc _]]|[-> [Hc _]]]; auto.
Qed.

(* the pre-repair mi_arena_try_alloc_at: a refused commit leaves the blocks marked committed (before c78a4f5) *)
Definition arena_try_alloc_at_old (a : arena) (acc : bits) (b0 n : N) (commit : bool) (o : list bool)
  : option (bool * bool * arena * bits * list bool) :=
  if (n =? 0) || (a_nblocks a <? b0 + n) || any_in (a_inuse a) b0 n then None
  else
    let zero := a_zero a && negb (any_in (a_dirty a) b0 n) in
    let a1 := arena_claim a b0 n in
    if commit then
      if all_in (a_committed a) b0 n then Some (true, zero, a1, acc, o)
      else
        let '(granted, o') := ask o in
        let a2 := with_committed a1 (set_range (a_committed a1) b0 n true) in   (* claimed before the commit ... *)
        if granted then Some (true, zero, a2, set_range acc (block_slice a b0) (n * BLOCK_SLICES) true, o')
        else Some (false, zero, a2, acc, o')                                    (* ... and not undone when it fails *)
    else
      if all_in (a_committed a) b0 n then Some (true, zero, a1, acc, o)
      else Some (false, zero, with_committed a1 (set_range (a_committed a1) b0 n false), acc, o).

Definition ex_arena : arena := arena_init 1000 4 false true.
(* one refused commit: the old code breaks (A), the repaired code keeps it *)
Example arena_commit_old_code_unsound :
  (match arena_try_alloc_at_old ex_arena no_bits 1 2 true [false] with
   | Some (mc, _, a', acc', _) => (mc, arena_acc_b a' [] acc')
   | None => (true, true) end) = (false, false) /\
  (match arena_try_alloc_at ex_arena no_bits 1 2 true [false] with
   | Some (mc, _, a', acc', _) => (mc, arena_acc_b a' [] acc')
   | None => (true, false) end) = (false, true).
Proof. split; vm_compute; reflexivity. Qed.

(* ---------------------------------------------------------------- (S) masks *)
Lemma commit_like_S lo n s acc s' acc' ok : commit_like lo n s acc s' acc' ok -> seg_S acc s -> seg_S acc' s'.
Proof.
  intros HC [S1 S2]. pose proof (cl_shape _ _ _ _ _ _ _ HC) as Hsh. pose proof (same_shape_huge _ _ Hsh) as Hh.
  destruct Hsh as [Eb [En _]]. split; rewrite Hh, Eb, En; intros Hhuge i Hi.
  - apply (cl_acc_inc _ _ _ _ _ _ _ HC). apply S1; assumption.
  - intros Hc. destruct (cl_sound _ _ _ _ _ _ _ HC i Hc) as [G|[_ [_ [_ G]]]]; [|exact G].
    apply (cl_acc_inc _ _ _ _ _ _ _ HC). apply S2; assumption.
Qed.
Lemma purge_like_S Q s acc s' acc' : purge_like Q s acc s' acc' -> seg_S acc s -> seg_S acc' s'.
Proof.
  intros HP [S1 S2]. pose proof (pl_shape _ _ _ _ _ HP) as Hsh. pose proof (same_shape_huge _ _ Hsh) as Hh.
  destruct Hsh as [Eb [En _]]. split; rewrite Hh, Eb, En; intros Hhuge i Hi.
  - rewrite (pl_huge _ _ _ _ _ HP Hhuge). apply S1; assumption.
  - intros Hc. pose proof (pl_commit_dec _ _ _ _ _ HP i Hc) as Hc0.
    destruct (pl_sync _ _ _ _ _ HP i Hi) as [E|E]; [rewrite E; apply S2; assumption|congruence].
Qed.

Lemma mask_sound c s acc lo n o :
  seg_S acc s ->
  (* mi_segment_commit / mi_segment_ensure_committed: (S) is kept, and a bit is set only when the commit of that slice
     was granted (then the slice is accessible); a refused commit changes nothing *)
  (forall s' acc' ok o', segment_commit s acc lo n o = (s', acc', ok, o') \/ segment_ensure_committed s acc lo n o = (s', acc', ok, o') ->
     seg_S acc' s' /\
     (forall i, sg_commit s' i = true -> sg_commit s i = true \/
                (ok = true /\ lo <= i < lo + n /\ i < sg_nslices s /\ acc' (sg_base s + i) = true)) /\
     (ok = false -> s' = s /\ acc' = acc /\ o = false :: o')) /\
  (* mi_segment_purge, mi_segment_try_purge, mi_segment_span_free *)
  (forall s' acc' o', segment_purge c s acc lo n o = (s', acc', o') \/ segment_try_purge c s acc o = (s', acc', o') \/
                      (exists ap, span_free c s acc lo n ap o = (s', acc', o')) ->
     seg_S acc' s' /\ (forall i, sg_commit s' i = true -> sg_commit s i = true)).
Proof.
  intros HS. split.
  - intros s' acc' ok o' H.
    assert (HC : commit_like lo n s acc s' acc' ok /\ (ok = false -> o = false :: o')).
    { destruct H as [H|H]; [apply segment_commit_spec in H|apply segment_ensure_committed_spec in H]; tauto. }
    destruct HC as [HC Ho]. split; [eapply commit_like_S; eauto|]. split; [exact (cl_sound _ _ _ _ _ _ _ HC)|].
    intros Hf. destruct (cl_fail _ _ _ _ _ _ _ HC Hf). auto.
  - intros s' acc' o' H.
    assert (HP : exists Q, purge_like Q s acc s' acc').
    { destruct H as [H|[H|[ap H]]]; eexists; [eapply segment_purge_spec|eapply segment_try_purge_spec|eapply span_free_spec]; exact H. }
    destruct HP as [Q HP]. split; [eapply purge_like_S; eauto|exact (pl_commit_dec _ _ _ _ _ HP)].
Qed.

Lemma span_allocate_accessible s acc lo n o s' acc' o' :
  seg_S acc s -> (is_huge s = false -> sg_nslices s = MASK_BITS) -> lo + n <= sg_nslices s ->
  span_allocate s acc lo n o = (Some s', acc', o') ->
  seg_S acc' s' /\ forall i, lo <= i < lo + n -> acc' (sg_base s + i) = true.
Proof.
  intros HS Hns Hr H. apply span_allocate_spec in H. destruct H as [HC _].
  split; [eapply commit_like_S; eauto|]. intros i Hi. destruct HS as [S1 S2]. destruct (is_huge s) eqn:Eh.
  - apply (cl_acc_inc _ _ _ _ _ _ _ HC). apply S1; [reflexivity|lia].
  - specialize (Hns eq_refl).
    destruct (cl_done _ _ _ _ _ _ _ HC eq_refl Eh ltac:(lia) i Hi ltac:(lia) ltac:(lia)) as [Hc _].
    destruct (cl_sound _ _ _ _ _ _ _ HC i Hc) as [G|[_ [_ [_ G]]]]; [|exact G].
    apply (cl_acc_inc _ _ _ _ _ _ _ HC). apply S2; [reflexivity|lia|exact G].
Qed.

(* the pre-repair mi_segment_os_alloc: only the header slices of a HUGE segment were committed (before 68720bb) *)
Definition os_alloc_commit_old (acc : bits) (base nslices : N) (huge mc : bool) (o : list bool) : option (bits * bits) * list bool :=
  if mc then (Some (mask_full, acc), o)
  else let '(granted, o') := ask o in
       if granted then (Some (mask_range 0 INFO_SLICES, set_range acc base INFO_SLICES true), o') else (None, o').
(* the arena commit of a huge allocation (20 MiB: 321 slices) is refused, the header commit is granted *)
Example segment_os_alloc_old_huge_unsound :
  (match os_alloc_commit_old no_bits 1000 321 true false [true] with
   | (Some (m, acc'), _) => seg_mask_b acc' (new_segment 1000 321 true m (MemArena 0 1))
   | _ => true end) = false /\
  (match os_alloc_commit no_bits 1000 321 true false [true] with
   | (Some (m, acc'), _) => seg_mask_b acc' (new_segment 1000 321 true m (MemArena 0 1))
   | _ => false end) = true.
Proof. split; vm_compute; reflexivity. Qed.

(* ---------------------------------------------------------------- the main theorem *)
Lemma live_effect_kept st x r st' p :
  live_effect st x r st' -> In p (st_live st) -> In p (st_live st') \/ exists clo cn e u, x = OpFree p clo cn e u.
Proof.
  unfold live_effect. intros H Hp. destruct r as [| |q|mc z].
  - destruct x; try (left; rewrite H; exact Hp). destruct H as [_ H]. rewrite H.
    destruct (page_eqb p p0) eqn:E.
    + apply page_eqb_eq in E. subst. right. eauto.
    + left. apply in_remove_page. split; [exact Hp|]. intros ->. rewrite (proj2 (page_eqb_eq p0 p0) eq_refl) in E. discriminate.
  - left. rewrite H. exact Hp.
  - left. rewrite H. right. exact Hp.
  - left. rewrite H. exact Hp.
Qed.

Lemma handed_out_accessible c s ops o s' rs o' :
  commit_Inv s -> run c s ops o = Some (s', rs, o') ->
  commit_Inv s' /\
  forall ops1 x ops2, ops = ops1 ++ x :: ops2 ->
    exists s1 rs1 o1 s2 r o2,
      run c s ops1 o = Some (s1, rs1, o1) /\ step c s1 x o1 = Some (s2, r, o2) /\
      commit_Inv s1 /\ commit_Inv s2 /\
      (forall p, r = RPage p -> In p (st_live s2) /\ page_accessible (st_acc s2) p = true) /\
      (forall p, In p (st_live s2) -> page_accessible (st_acc s2) p = true) /\
      (forall p, In p (st_live s1) -> In p (st_live s2) \/ exists clo cn e u, x = OpFree p clo cn e u).
Proof.
  intros HI H. split; [eapply run_inv; eauto|]. intros ops1 x ops2 ->.
  destruct (run_app _ _ _ _ _ _ _ _ H) as [s1 [rs1 [o1 [rs2 [H1 [H2 _]]]]]].
  cbn [run] in H2. destruct (step c s1 x o1) as [[[s2 r] o2]|] eqn:Es; [|discriminate].
  pose proof (run_inv _ _ _ _ _ _ _ HI H1) as HI1. destruct (step_inv _ _ _ _ _ _ _ HI1 Es) as [HI2 Hle].
  exists s1, rs1, o1, s2, r, o2. repeat (split; [first [assumption|reflexivity]|]). split; [|split].
  - intros p ->. cbn in Hle. assert (Hp : In p (st_live s2)) by (rewrite Hle; left; reflexivity).
    split; [exact Hp|apply page_accessible_live; assumption].
  - intros p Hp. apply page_accessible_live; assumption.
  - intros p Hp. eapply live_effect_kept; eauto.
Qed.

(* a failing operation loses nothing *)
Lemma failure_keeps_live c s x o s' o' :
  commit_Inv s -> step c s x o = Some (s', RNone, o') ->
  commit_Inv s' /\ st_live s' = st_live s /\
  forall p, In p (st_live s) -> forall i, pg_lo p <= i < pg_lo p + pg_n p ->
    st_acc s' (pg_seg p + i) = st_acc s (pg_seg p + i) /\ st_acc s' (pg_seg p + i) = true.
Proof.
  intros HI H. destruct (step_inv _ _ _ _ _ _ _ HI H) as [HI' Hl]. cbn in Hl. split; [exact HI'|]. split; [exact Hl|].
  intros p Hp i Hi. rewrite (live_accessible s p HI Hp i Hi). rewrite <- Hl in Hp. rewrite (live_accessible s' p HI' Hp i Hi). auto.
Qed.

Definition is_purge_op (x : op) : bool :=
  match x with OpPurge _ | OpArenaPurge | OpCollect _ => true | _ => false end.
Lemma purge_never_live c s x o s' r o' :
  commit_Inv s -> is_purge_op x = true -> step c s x o = Some (s', r, o') ->
  commit_Inv s' /\ st_live s' = st_live s /\
  forall p, In p (st_live s) -> forall i, pg_lo p <= i < pg_lo p + pg_n p ->
    st_acc s' (pg_seg p + i) = st_acc s (pg_seg p + i) /\ st_acc s' (pg_seg p + i) = true.
Proof.
  intros HI Hx H. destruct (step_inv _ _ _ _ _ _ _ HI H) as [HI' Hl].
  assert (Hlive : st_live s' = st_live s).
  { destruct x; try discriminate; cbn [step] in H.
    - destruct (seg_try_purge_at c s base o) as [[? ?]|]; [|discriminate]. inversion H; subst. exact Hl.
    - destruct (arenas_purge_st c s o). inversion H; subst. exact Hl.
    - destruct (collect c s order o). inversion H; subst. exact Hl. }
  split; [exact HI'|]. split; [exact Hlive|].
  intros p Hp i Hi. rewrite (live_accessible s p HI Hp i Hi). rewrite <- Hlive in Hp. rewrite (live_accessible s' p HI' Hp i Hi). auto.
Qed.

(* the restore path of mi_segments_page_find_and_allocate *)
Lemma span_restored_on_failure c s base lo n clo cn o s' o' :
  commit_Inv s -> page_find_and_allocate c s base lo n clo cn o = Some (s', None, o') ->
  commit_Inv s' /\ st_live s' = st_live s /\ st_arena s' = st_arena s /\ st_raw s' = st_raw s /\
  span_is_free (st_live s') base lo n = true /\ (exists o1, o = false :: o1) /\
  forall p, In p (st_live s) -> page_accessible (st_acc s') p = true.
Proof.
  intros HI H. destruct (pfa_inv _ _ _ _ _ _ _ _ _ _ _ HI H) as [HI' Hl]. cbn in Hl.
  unfold page_find_and_allocate in H. destruct (find_seg base (st_segs s)) as [sg|]; [|discriminate].
  match type of H with context [if ?c then None else _] => destruct c eqn:Ec end; [discriminate|].
  repeat (apply orb_false_iff in Ec; destruct Ec as [Ec ?]). b2p.
  destruct (span_allocate sg (st_acc s) lo n o) as [[r1 acc1] o1] eqn:Ea.
  pose proof (span_allocate_spec _ _ _ _ _ _ _ _ Ea) as Hsp. destruct r1 as [s1|]; [discriminate|]. destruct Hsp as [_ Ho].
  destruct (span_free c sg acc1 clo cn true o1) as [[s2 acc2] o2]. inversion H; subst; clear H. cbn [st_live st_arena st_raw mk] in *.
  repeat (split; [first [assumption|reflexivity]|]). split; [first [exists o1; exact Ho | eexists; reflexivity]|].
  intros p Hp. apply (page_accessible_live _ p HI'). cbn [st_live mk]. exact Hp.
Qed.

(* ---------------------------------------------------------------- recovery *)
Definition granted (o : list bool) : Prop := Forall (fun b => b = true) o.
Lemma ask_granted o : granted o -> exists o', ask o = (true, o') /\ granted o'.
Proof.
  intros H. destruct o as [|b r]; [exists []; split; [reflexivity|constructor]|].
  inversion H; subst. exists r. split; [reflexivity|assumption].
Qed.

Lemma ensure_granted s acc lo n o :
  granted o -> exists s' acc' o', segment_ensure_committed s acc lo n o = (s', acc', true, o') /\ granted o'.
Proof.
  intros Hg. unfold segment_ensure_committed. destruct (mask_is_full (sg_commit s) && mask_is_empty (sg_purge s)); [eauto|].
  unfold segment_commit. destruct (commit_range s lo n) as [n'|]; [|eauto].
  destruct (all_in (sg_commit s) lo n'); [eauto|]. destruct (ask_granted o Hg) as [o1 [-> Hg1]]. eauto.
Qed.

Lemma pfa_granted c s sg lo n o :
  commit_Inv s -> granted o -> In sg (st_segs s) -> is_huge sg = false ->
  sg_info sg <= lo -> 0 < n -> lo + n <= sg_nslices sg -> span_is_free (st_live s) (sg_base sg) lo n = true ->
  exists s' o',
    page_find_and_allocate c s (sg_base sg) lo n lo n o = Some (s', Some {| pg_seg := sg_base sg; pg_lo := lo; pg_n := n |}, o') /\ granted o'.
Proof.
  intros HI Hg Hs Hh Hlo Hn Hr Hfree. unfold page_find_and_allocate.
  rewrite (find_seg_in s HI sg Hs), Hh, Hfree.
  replace (n =? 0) with false by (symmetry; apply N.eqb_neq; lia).
  replace (lo <? sg_info sg) with false by (symmetry; apply N.ltb_ge; lia).
  replace (sg_nslices sg <? lo + n) with false by (symmetry; apply N.ltb_ge; lia).
  replace (lo <? lo) with false by (symmetry; apply N.ltb_irrefl).
  replace (lo + n <? lo + n) with false by (symmetry; apply N.ltb_irrefl).
  cbn [orb negb]. unfold span_allocate.
  destruct (ensure_granted sg (st_acc s) lo n o Hg) as [s1 [acc1 [o1 [-> Hg1]]]]. eauto.
Qed.

Lemma recovers_span c s sg lo n commit order tries2 o :
  commit_Inv s -> granted o -> In sg (st_segs s) -> is_huge sg = false ->
  sg_info sg <= lo -> 0 < n -> lo + n <= sg_nslices sg -> span_is_free (st_live s) (sg_base sg) lo n = true ->
  exists s' o',
    step c s (OpAlloc n false commit [[WSpan (sg_base sg) lo lo n]] order tries2) o =
      Some (s', RPage {| pg_seg := sg_base sg; pg_lo := lo; pg_n := n |}, o') /\ granted o'.
Proof.
  intros HI Hg Hs Hh Hlo Hn Hr Hfree.
  destruct (pfa_granted c s sg lo n o HI Hg Hs Hh Hlo Hn Hr Hfree) as [s' [o' [E Hg']]].
  cbn [step]. unfold malloc_generic. cbn [find_page page_alloc segments_page_alloc]. rewrite E. eauto.
Qed.

Lemma os_alloc_commit_granted acc base nslices huge mc o :
  granted o -> exists m acc2 o2, os_alloc_commit acc base nslices huge mc o = (Some (m, acc2), o2) /\ granted o2.
Proof.
  intros Hg. unfold os_alloc_commit. destruct mc; [eauto|]. destruct (ask_granted o Hg) as [o1 [-> Hg1]]. eauto.
Qed.
Lemma arena_try_alloc_at_granted a acc b0 n commit o :
  granted o -> 0 < n -> b0 + n <= a_nblocks a -> (forall b, b0 <= b < b0 + n -> a_inuse a b = false) ->
  exists mc z a' acc' o', arena_try_alloc_at a acc b0 n commit o = Some (mc, z, a', acc', o') /\ granted o'.
Proof.
  intros Hg Hn Hr Hf. unfold arena_try_alloc_at.
  replace (n =? 0) with false by (symmetry; apply N.eqb_neq; lia).
  replace (a_nblocks a <? b0 + n) with false by (symmetry; apply N.ltb_ge; lia).
  replace (any_in (a_inuse a) b0 n) with false by (symmetry; apply any_in_false; exact Hf). cbn [orb].
  destruct commit; destruct (all_in (a_committed a) b0 n); try (do 5 eexists; split; [reflexivity|exact Hg]).
  destruct (ask_granted o Hg) as [o1 [-> Hg1]]. do 5 eexists; split; [reflexivity|exact Hg1].
Qed.

Lemma recovers_arena_huge c s b0 n commit order tries2 o :
  commit_Inv s -> granted o -> 0 < n ->
  b0 + (INFO_SLICES + n + BLOCK_SLICES - 1) / BLOCK_SLICES <= a_nblocks (st_arena s) ->
  (forall b, b0 <= b < b0 + (INFO_SLICES + n + BLOCK_SLICES - 1) / BLOCK_SLICES -> a_inuse (st_arena s) b = false) ->
  exists s' o',
    step c s (OpAlloc n true commit [[WNewArena b0]] order tries2) o =
      Some (s', RPage {| pg_seg := block_slice (st_arena s) b0; pg_lo := INFO_SLICES; pg_n := n |}, o') /\ granted o'.
Proof.
  intros HI Hg Hn Hr Hf.
  assert (Hnb : 0 < (INFO_SLICES + n + BLOCK_SLICES - 1) / BLOCK_SLICES).
  { pose proof (blocks_cover (INFO_SLICES + n)) as Hc. rewrite INFO_SLICES_val, BLOCK_SLICES_val in *.
    destruct ((1 + n + 512 - 1) / 512) eqn:E; lia. }
  cbn [step]. unfold malloc_generic. cbn [find_page page_alloc]. unfold huge_page_alloc.
  replace (n =? 0) with false by (symmetry; apply N.eqb_neq; lia). unfold segment_alloc_arena.
  destruct (arena_try_alloc_at_granted (st_arena s) (st_acc s) b0 _ true o Hg Hnb Hr Hf) as [mc [z [a1 [acc1 [o1 [-> Hg1]]]]]].
  destruct (os_alloc_commit_granted acc1 (block_slice (st_arena s) b0) (INFO_SLICES + n) true mc o1 Hg1) as [m [acc2 [o2 [-> Hg2]]]].
  cbn. eauto.
Qed.

Lemma recovers_arena_normal c s b0 n commit order tries2 o :
  commit_Inv s -> granted o -> 0 < n -> INFO_SLICES + n <= MASK_BITS ->
  b0 < a_nblocks (st_arena s) -> a_inuse (st_arena s) b0 = false ->
  exists s' o',
    step c s (OpAlloc n false commit [[WNewArena b0; WSpan (block_slice (st_arena s) b0) INFO_SLICES INFO_SLICES n]] order tries2) o =
      Some (s', RPage {| pg_seg := block_slice (st_arena s) b0; pg_lo := INFO_SLICES; pg_n := n |}, o') /\ granted o'.
Proof.
  intros HI Hg Hn Hfit Hb Hf.
  assert (Hone : (MI_SLICES_PER_SEGMENT + BLOCK_SLICES - 1) / BLOCK_SLICES = 1) by (rewrite BLOCK_SLICES_val; reflexivity).
  assert (Hf' : forall b, b0 <= b < b0 + 1 -> a_inuse (st_arena s) b = false) by (intros b Hb'; replace b with b0 by lia; exact Hf).
  assert (Hsl : INFO_SLICES < MI_SLICES_PER_SEGMENT) by (rewrite INFO_SLICES_val, SLICES_PER_SEGMENT_val; lia).
  assert (Hmb : false = false -> MI_SLICES_PER_SEGMENT = MASK_BITS) by (intros _; rewrite MASK_BITS_val; reflexivity).
  destruct (arena_try_alloc_at_granted (st_arena s) (st_acc s) b0 1 commit o Hg ltac:(lia) ltac:(lia) Hf') as [mc [z [a1 [acc1 [oa [E Hg1]]]]]].
  destruct (os_alloc_commit_granted acc1 (block_slice (st_arena s) b0) MI_SLICES_PER_SEGMENT false mc oa Hg1) as [m [acc2 [o2 [E2 Hg2]]]].
  set (snew := new_segment (block_slice (st_arena s) b0) MI_SLICES_PER_SEGMENT false m (MemArena b0 1)).
  set (st1 := mk a1 (snew :: st_segs s) (st_live s) (st_raw s) acc2).
  assert (Es : segment_alloc_arena c s b0 MI_SLICES_PER_SEGMENT false commit o = Some (st1, Some snew, o2)).
  { unfold segment_alloc_arena. rewrite Hone, E, E2. reflexivity. }
  pose proof (segment_alloc_arena_inv _ _ _ _ _ _ _ _ _ _ HI Hsl Hmb Es) as [HI1 _].
  cbn [step]. unfold malloc_generic. cbn [find_page page_alloc segments_page_alloc]. rewrite Es.
  assert (Hs1 : In snew (st_segs st1)) by (left; reflexivity).
  assert (Hnolive : span_is_free (st_live st1) (sg_base snew) INFO_SLICES n = true).
  { unfold span_is_free. apply forallb_forall. intros q Hq. apply orb_true_iff. left. apply negb_true_iff. apply N.eqb_neq. intros Eq.
    pose proof (I_D1 s HI) as HD. rewrite Forall_forall in HD. destruct (HD q Hq) as [sq [Hfq _]]. apply find_seg_some in Hfq. destruct Hfq as [Hq1 Hq2].
    assert (Hq3 : In sq (st_segs st1)) by (right; exact Hq1).
    assert (sq = snew) by (apply (seg_unique st1 HI1); auto; congruence). subst sq.
    (* snew is not a segment of s: its block was free *)
    destruct (seg_wf_in s HI snew Hq1) as [_ [_ [_ Hw]]]. cbn in Hw. destruct Hw as [_ [_ [_ Hu]]]. rewrite (Hu b0 ltac:(lia)) in Hf. discriminate. }
  destruct (pfa_granted c st1 snew INFO_SLICES n o2 HI1 Hg2 Hs1 eq_refl) as [s' [o' [Hstep Hg']]]; auto.
  { unfold snew, new_segment; cbn [sg_info]. lia. }
  change (sg_base snew) with (block_slice (st_arena s) b0) in Hstep.
  destruct (pfa_inv _ _ _ _ _ _ _ _ _ _ _ HI1 Hstep) as [_ [_ Hl']].
  rewrite Hstep. unfold free_if_unused. rewrite Hl'.
  (* the page just handed out lies in the new segment: it is kept *)
  assert (Eb : sg_base snew = block_slice (st_arena s) b0) by reflexivity. rewrite Eb.
  cbn [seg_has_live existsb pg_seg]. rewrite N.eqb_refl. cbn [orb]. eauto.
Qed.

(* ---------------------------------------------------------------- concrete runs *)
Definition ex_cfg : cfg := {| c_decommits := false; c_purge_now := false; c_arena_purge_now := false; c_allow_purge := true |}.
Definition ex_cfg_decommit : cfg := {| c_decommits := true; c_purge_now := true; c_arena_purge_now := true; c_allow_purge := true |}.
(* an arena of 4 blocks over memory that is not accessible (mi_manage_os_memory_ex(.., is_committed = false, ..)) *)
Definition ex_state : state := state_init 32768 4 false true.

(* corpus/C07/arena_commit_bit_after_refusal.trace: arena_eager_commit = 0; zalloc(31 MiB); malloc(20 MiB) whose arena
   commit is refused once; free it; zalloc(31 MiB) re-uses the same arena block *)
Definition ex_ops : list op :=
  [ OpAlloc 496 true true [[WNewArena 0]] [] [];
    OpAlloc 320 true true [[WNewArena 1]] [] [];
    OpFree {| pg_seg := 32768 + 512; pg_lo := 1; pg_n := 320 |} 1 320 false true;
    OpAlloc 496 true true [[WNewArena 1]] [] [] ].
Definition ex_oracle : list bool := [true; false; true; true].

Example arena_commit_bit_after_refusal_run :
  match run ex_cfg ex_state ex_ops ex_oracle with
  | Some (st, [RPage p1; RPage p2; RUnit; RPage p3], o) =>
    commit_inv_b st && page_accessible (st_acc st) p1 && page_accessible (st_acc st) p3 &&
    (pg_seg p3 =? pg_seg p2) && (pg_n p3 =? 496) && (N.of_nat (length o) =? 0) &&
    (* the refused arena commit left the block unmarked, so the second use committed it again *)
    negb (a_committed (st_arena (match run ex_cfg ex_state (firstn 3 ex_ops) ex_oracle with Some (s3, _, _) => s3 | None => st end)) 1) &&
    a_committed (st_arena st) 1
  | _ => false
  end = true.
Proof. vm_compute. reflexivity. Qed.

(* a run with normal pages, a refused span commit (restore path), a failing malloc (first attempt, forced collect, retry),
   immediate decommitting purges, and recovery; every intermediate state satisfies the invariant *)
Definition ex_ops2 : list op :=
  [ OpAlloc 8 false false [[WNewArena 2; WSpan (32768 + 1024) 1 1 511]] [] [];
    OpAlloc 16 false false [[WSpan (32768 + 1024) 9 9 503]] [] [];
    OpAlloc 32 false false [[WSpan (32768 + 1024) 25 25 487]] [32768 + 1024] [[WSpan (32768 + 1024) 25 25 487]];
    OpFree {| pg_seg := 32768 + 1024; pg_lo := 9; pg_n := 16 |} 9 503 true true;
    OpCollect [32768 + 1024];
    OpAlloc 32 false false [[WSpan (32768 + 1024) 9 9 503]] [] [] ].
Definition ex_oracle2 : list bool := [true; true; true; false; false].
Fixpoint run_all_inv (c : cfg) (st : state) (ops : list op) (o : list bool) : bool :=
  match ops with
  | [] => commit_inv_b st
  | x :: rest => commit_inv_b st && match step c st x o with Some (st', _, o') => run_all_inv c st' rest o' | None => false end
  end.
Example refused_span_commit_run :
  run_all_inv ex_cfg_decommit ex_state ex_ops2 ex_oracle2 = true /\
  match run ex_cfg_decommit ex_state ex_ops2 ex_oracle2 with
  | Some (st, [RPage p1; RPage p2; RNone; RUnit; RUnit; RPage p3], _) =>
    page_accessible (st_acc st) p1 && page_accessible (st_acc st) p3 && (N.of_nat (length (st_live st)) =? 2)
  | _ => false
  end = true.
Proof. split; vm_compute; reflexivity. Qed.

Example commit_Inv_initial : commit_Inv ex_state.
Proof. apply commit_inv_b_iff. vm_compute. reflexivity. Qed.

Lemma recovers c s commit order tries2 o :
  commit_Inv s -> granted o ->
  (forall sg lo n, In sg (st_segs s) -> is_huge sg = false -> sg_info sg <= lo -> 0 < n -> lo + n <= sg_nslices sg ->
     span_is_free (st_live s) (sg_base sg) lo n = true ->
     exists s' o', step c s (OpAlloc n false commit [[WSpan (sg_base sg) lo lo n]] order tries2) o =
                     Some (s', RPage {| pg_seg := sg_base sg; pg_lo := lo; pg_n := n |}, o') /\ granted o') /\
  (forall b0 n, 0 < n -> b0 + (INFO_SLICES + n + BLOCK_SLICES - 1) / BLOCK_SLICES <= a_nblocks (st_arena s) ->
     (forall b, b0 <= b < b0 + (INFO_SLICES + n + BLOCK_SLICES - 1) / BLOCK_SLICES -> a_inuse (st_arena s) b = false) ->
     exists s' o', step c s (OpAlloc n true commit [[WNewArena b0]] order tries2) o =
                     Some (s', RPage {| pg_seg := block_slice (st_arena s) b0; pg_lo := INFO_SLICES; pg_n := n |}, o') /\ granted o') /\
  (forall b0 n, 0 < n -> INFO_SLICES + n <= MASK_BITS -> b0 < a_nblocks (st_arena s) -> a_inuse (st_arena s) b0 = false ->
     exists s' o', step c s (OpAlloc n false commit [[WNewArena b0; WSpan (block_slice (st_arena s) b0) INFO_SLICES INFO_SLICES n]] order tries2) o =
                     Some (s', RPage {| pg_seg := block_slice (st_arena s) b0; pg_lo := INFO_SLICES; pg_n := n |}, o') /\ granted o').
Proof.
  intros HI Hg. split; [|split].
  - intros sg lo n. apply recovers_span; assumption.
  - intros b0 n. apply recovers_arena_huge; assumption.
  - intros b0 n. apply recovers_arena_normal; assumption.
Qed.

(* ---------------------------------------------------------------- segments never stay owned without a page *)
(* The repaired mi_segments_page_alloc frees the segment it obtained from mi_segment_reclaim_or_alloc when its retry
   returned without a page in that segment.  Consequence, for every operation, oracle and choice argument (no
   invariant is needed): a segment of the new state that has no live page was already a segment without a live page
   before the operation; so when every segment has a live page this stays true for ever. *)
Definition seg_bases (st : state) : list N := map sg_base (st_segs st).
Definition unused_incl (st st' : state) : Prop :=
  forall b, In b (seg_bases st') -> seg_has_live b (st_live st') = false ->
            In b (seg_bases st) /\ seg_has_live b (st_live st) = false.
Definition no_unused_segment (st : state) : Prop :=
  forall s, In s (st_segs st) -> seg_has_live (sg_base s) (st_live st) = true.

Lemma unused_incl_refl st : unused_incl st st.
Proof. intros b Hb Hu. auto. Qed.
Lemma unused_incl_trans a b c : unused_incl a b -> unused_incl b c -> unused_incl a c.
Proof. intros H1 H2 x Hx Hu. destruct (H2 x Hx Hu) as [Hx' Hu']. exact (H1 x Hx' Hu'). Qed.
Lemma unused_incl_same st st' :
  seg_bases st' = seg_bases st -> (forall b, seg_has_live b (st_live st') = false -> seg_has_live b (st_live st) = false) ->
  unused_incl st st'.
Proof. intros Hb Hl b Hin Hu. rewrite Hb in Hin. auto. Qed.

Lemma bases_replace s' l : map sg_base (replace_seg s' l) = map sg_base l.
Proof.
  unfold replace_seg. rewrite map_map. apply map_ext_in. intros x _. destruct (sg_base x =? sg_base s') eqn:E; [|reflexivity].
  apply N.eqb_eq in E. symmetry. exact E.
Qed.
Lemma bases_remove b base l : In b (map sg_base (remove_seg base l)) -> In b (map sg_base l) /\ b <> base.
Proof.
  intros H. apply in_map_iff in H. destruct H as [x [<- Hx]]. apply in_remove_seg in Hx. destruct Hx as [Hx Hn].
  split; [apply in_map; exact Hx|exact Hn].
Qed.
Lemma has_live_cons_false b p l : seg_has_live b (p :: l) = false -> seg_has_live b l = false.
Proof. unfold seg_has_live. cbn [existsb]. intros H. apply orb_false_iff in H. tauto. Qed.
Lemma has_live_remove_false b p l : pg_seg p <> b -> seg_has_live b (remove_page p l) = false -> seg_has_live b l = false.
Proof.
  intros Hne H. apply seg_has_live_false_iff. intros q Hq E. pose proof (proj1 (seg_has_live_false_iff _ _) H) as H'.
  apply (H' q); [|exact E]. apply in_remove_page. split; [exact Hq|]. intros ->. apply Hne. exact E.
Qed.

Lemma pfa_unused c st base lo n clo cn o st' r o' :
  page_find_and_allocate c st base lo n clo cn o = Some (st', r, o') -> unused_incl st st'.
Proof.
  unfold page_find_and_allocate. destruct (find_seg base (st_segs st)) as [s|]; [|discriminate].
  match goal with |- context [if ?c then None else _] => destruct c end; [discriminate|].
  destruct (span_allocate s (st_acc st) lo n o) as [[[s1|] acc1] o1].
  - intros H. inversion H; subst; clear H. apply unused_incl_same.
    + unfold seg_bases. cbn [st_segs mk]. apply bases_replace.
    + cbn [st_live mk]. intros b. apply has_live_cons_false.
  - destruct (span_free c s acc1 clo cn true o1) as [[s2 acc2] o2]. intros H. inversion H; subst; clear H. apply unused_incl_same.
    + unfold seg_bases. cbn [st_segs mk]. apply bases_replace.
    + cbn [st_live mk]. auto.
Qed.

Lemma segment_alloc_arena_shape c st b0 nslices huge commit o st' r o' :
  segment_alloc_arena c st b0 nslices huge commit o = Some (st', r, o') ->
  st_live st' = st_live st /\ match r with Some s => st_segs st' = s :: st_segs st | None => st_segs st' = st_segs st end.
Proof.
  unfold segment_alloc_arena.
  destruct (arena_try_alloc_at (st_arena st) (st_acc st) b0 ((nslices + BLOCK_SLICES - 1) / BLOCK_SLICES) commit o) as [[[[[mc z] a1] acc1] o1]|]; [|discriminate].
  destruct (os_alloc_commit acc1 (block_slice (st_arena st) b0) nslices huge mc o1) as [[[m acc2]|] o2].
  - intros H. inversion H; subst; clear H. auto.
  - destruct (arena_free c a1 acc1 b0 ((nslices + BLOCK_SLICES - 1) / BLOCK_SLICES) false o2) as [[a3 acc3] o3].
    intros H. inversion H; subst; clear H. auto.
Qed.
Lemma segment_alloc_os_shape st addr nslices huge commit unmap_ok o st' r o' :
  segment_alloc_os st addr nslices huge commit unmap_ok o = Some (st', r, o') ->
  st_live st' = st_live st /\ match r with Some s => st_segs st' = s :: st_segs st | None => st_segs st' = st_segs st end.
Proof.
  unfold segment_alloc_os. match goal with |- context [if ?c then None else _] => destruct c end; [discriminate|].
  destruct (os_alloc_commit (set_range (st_acc st) addr nslices commit) addr nslices huge commit o) as [[[m acc2]|] o2];
    intros H; inversion H; subst; clear H; auto.
Qed.

Lemma free_if_unused_unused c st base u o st' o' :
  free_if_unused c st base u o = (st', o') ->
  unused_incl st st' /\ (In base (seg_bases st') -> seg_has_live base (st_live st') = true).
Proof.
  unfold free_if_unused. destruct (seg_has_live base (st_live st)) eqn:El.
  - intros H. inversion H; subst. split; [apply unused_incl_refl|auto].
  - destruct (find_seg base (st_segs st)) as [s|] eqn:Ef.
    + destruct (segment_release c (st_arena st) (st_acc st) s u o) as [[a1 acc1] o1]. intros H. inversion H; subst; clear H.
      split.
      * intros b Hb Hu. unfold seg_bases in Hb. cbn [st_segs st_live mk] in *. apply bases_remove in Hb. destruct Hb as [Hb _]. auto.
      * intros Hb. unfold seg_bases in Hb. cbn [st_segs mk] in Hb. apply bases_remove in Hb. destruct Hb as [_ Hb]. congruence.
    + intros H. inversion H; subst. split; [apply unused_incl_refl|]. intros Hb. exfalso.
      unfold seg_bases in Hb. apply in_map_iff in Hb. destruct Hb as [x [E Hx]]. exact (find_seg_none _ _ Ef x Hx E).
Qed.

Lemma new_segment_unused st st1 st3 s1 :
  st_live st1 = st_live st -> st_segs st1 = s1 :: st_segs st ->
  unused_incl st1 st3 -> (In (sg_base s1) (seg_bases st3) -> seg_has_live (sg_base s1) (st_live st3) = true) ->
  unused_incl st st3.
Proof.
  intros Hl Hs H13 Hb b Hin Hu. destruct (H13 b Hin Hu) as [Hin1 Hu1]. unfold seg_bases in Hin1. rewrite Hs in Hin1. rewrite Hl in Hu1.
  cbn [map] in Hin1. destruct Hin1 as [E|Hin1]; [|split; assumption].
  subst b. rewrite (Hb Hin) in Hu. discriminate.
Qed.

Lemma segments_page_alloc_unused c n commit ws : forall st o st' r o',
  segments_page_alloc c st n commit ws o = Some (st', r, o') -> unused_incl st st'.
Proof.
  induction ws as [|w rest IH]; intros st o st' r o' H; cbn [segments_page_alloc] in H.
  - inversion H; subst. apply unused_incl_refl.
  - destruct w as [base lo clo cn|b0|[addr|] unmap_ok].
    + destruct (page_find_and_allocate c st base lo n clo cn o) as [[[st1 [p|]] o1]|] eqn:Ep; [| |discriminate].
      * inversion H; subst. eapply pfa_unused; eauto.
      * eapply unused_incl_trans; [eapply pfa_unused; eauto|eapply IH; eauto].
    + destruct (segment_alloc_arena c st b0 MI_SLICES_PER_SEGMENT false commit o) as [[[st1 [s1|]] o1]|] eqn:Es; [| |discriminate].
      * destruct (segment_alloc_arena_shape _ _ _ _ _ _ _ _ _ _ Es) as [Hl Hs].
        destruct (segments_page_alloc c st1 n commit rest o1) as [[[st2 r2] o2]|] eqn:Er; [|discriminate].
        destruct (free_if_unused c st2 (sg_base s1) true o2) as [st3 o3] eqn:Ef. inversion H; subst; clear H.
        destruct (free_if_unused_unused _ _ _ _ _ _ _ Ef) as [H23 Hb].
        apply (new_segment_unused st st1 st' s1 Hl Hs); [|exact Hb]. eapply unused_incl_trans; [eapply IH; eauto|exact H23].
      * inversion H; subst. destruct (segment_alloc_arena_shape _ _ _ _ _ _ _ _ _ _ Es) as [Hl Hs].
        apply unused_incl_same; [unfold seg_bases; rewrite Hs; reflexivity|rewrite Hl; auto].
    + destruct (segment_alloc_os st addr MI_SLICES_PER_SEGMENT false commit unmap_ok o) as [[[st1 [s1|]] o1]|] eqn:Es; [| |discriminate].
      * destruct (segment_alloc_os_shape _ _ _ _ _ _ _ _ _ _ Es) as [Hl Hs].
        destruct (segments_page_alloc c st1 n commit rest o1) as [[[st2 r2] o2]|] eqn:Er; [|discriminate].
        destruct (free_if_unused c st2 (sg_base s1) unmap_ok o2) as [st3 o3] eqn:Ef. inversion H; subst; clear H.
        destruct (free_if_unused_unused _ _ _ _ _ _ _ Ef) as [H23 Hb].
        apply (new_segment_unused st st1 st' s1 Hl Hs); [|exact Hb]. eapply unused_incl_trans; [eapply IH; eauto|exact H23].
      * inversion H; subst. destruct (segment_alloc_os_shape _ _ _ _ _ _ _ _ _ _ Es) as [Hl Hs].
        apply unused_incl_same; [unfold seg_bases; rewrite Hs; reflexivity|rewrite Hl; auto].
    + inversion H; subst. apply unused_incl_refl.
Qed.

Lemma huge_finish_unused st st1 s1 n :
  st_live st1 = st_live st -> st_segs st1 = s1 :: st_segs st ->
  unused_incl st (mk (st_arena st1) (st_segs st1) ({| pg_seg := sg_base s1; pg_lo := INFO_SLICES; pg_n := n |} :: st_live st1)
                     (st_raw st1) (st_acc st1)).
Proof.
  intros Hl Hs b Hin Hu. unfold seg_bases in Hin. cbn [st_segs st_live mk] in *. rewrite Hs in Hin. cbn [map] in Hin.
  unfold seg_has_live in Hu. cbn [existsb pg_seg] in Hu. apply orb_false_iff in Hu. destruct Hu as [Hne Hu]. apply N.eqb_neq in Hne.
  destruct Hin as [E|Hin]; [congruence|]. split; [exact Hin|]. rewrite <- Hl. exact Hu.
Qed.

Lemma huge_page_alloc_unused c st n w o st' r o' : huge_page_alloc c st n w o = Some (st', r, o') -> unused_incl st st'.
Proof.
  unfold huge_page_alloc. destruct (n =? 0); [discriminate|].
  destruct w as [|[base lo clo cn|b0|[addr|] unmap_ok] rest].
  - intros H; inversion H; subst; apply unused_incl_refl.
  - discriminate.
  - destruct (segment_alloc_arena c st b0 (INFO_SLICES + n) true true o) as [[[st1 [s1|]] o1]|] eqn:Es; [| |discriminate].
    + destruct (segment_alloc_arena_shape _ _ _ _ _ _ _ _ _ _ Es) as [Hl Hs]. intros H; inversion H; subst; clear H.
      apply huge_finish_unused; assumption.
    + destruct (segment_alloc_arena_shape _ _ _ _ _ _ _ _ _ _ Es) as [Hl Hs]. intros H; inversion H; subst; clear H.
      apply unused_incl_same; [unfold seg_bases; rewrite Hs; reflexivity|rewrite Hl; auto].
  - destruct (segment_alloc_os st addr (INFO_SLICES + n) true true unmap_ok o) as [[[st1 [s1|]] o1]|] eqn:Es; [| |discriminate].
    + destruct (segment_alloc_os_shape _ _ _ _ _ _ _ _ _ _ Es) as [Hl Hs]. intros H; inversion H; subst; clear H.
      apply huge_finish_unused; assumption.
    + destruct (segment_alloc_os_shape _ _ _ _ _ _ _ _ _ _ Es) as [Hl Hs]. intros H; inversion H; subst; clear H.
      apply unused_incl_same; [unfold seg_bases; rewrite Hs; reflexivity|rewrite Hl; auto].
  - intros H; inversion H; subst; apply unused_incl_refl.
Qed.

Lemma find_page_unused c n huge commit tries : forall st o st' r o',
  find_page c st n huge commit tries o = Some (st', r, o') -> unused_incl st st'.
Proof.
  assert (Hpa : forall st ws o st' r o', page_alloc c st n huge commit ws o = Some (st', r, o') -> unused_incl st st').
  { intros st ws o st' r o'. unfold page_alloc. destruct huge; [apply huge_page_alloc_unused|apply segments_page_alloc_unused]. }
  induction tries as [|ws rest IH]; intros st o st' r o' H; cbn [find_page] in H.
  - inversion H; subst. apply unused_incl_refl.
  - destruct (page_alloc c st n huge commit ws o) as [[[st1 [p|]] o1]|] eqn:Ep; [| |discriminate].
    + inversion H; subst. eapply Hpa; eauto.
    + eapply unused_incl_trans; [eapply Hpa; eauto|eapply IH; eauto].
Qed.

Lemma seg_try_purge_at_unused c st base o st' o' : seg_try_purge_at c st base o = Some (st', o') -> unused_incl st st'.
Proof.
  unfold seg_try_purge_at. destruct (find_seg base (st_segs st)) as [s|]; [|discriminate].
  destruct (segment_try_purge c s (st_acc st) o) as [[s1 acc1] o1]. intros H; inversion H; subst; clear H.
  apply unused_incl_same; [unfold seg_bases; cbn [st_segs mk]; apply bases_replace|cbn [st_live mk]; auto].
Qed.
Lemma arenas_purge_st_unused c st o st' o' : arenas_purge_st c st o = (st', o') -> unused_incl st st'.
Proof.
  unfold arenas_purge_st. destruct (arenas_try_purge c (st_arena st) (st_acc st) o) as [[a1 acc1] o1]. intros H; inversion H; subst; clear H.
  apply unused_incl_same; [reflexivity|cbn [st_live mk]; auto].
Qed.
Lemma collect_segs_unused c order : forall st o st' o', collect_segs c st order o = (st', o') -> unused_incl st st'.
Proof.
  induction order as [|b rest IH]; intros st o st' o' H; cbn [collect_segs] in H.
  - inversion H; subst. apply unused_incl_refl.
  - destruct (seg_try_purge_at c st b o) as [[st1 o1]|] eqn:Ep.
    + eapply unused_incl_trans; [eapply seg_try_purge_at_unused; eauto|eapply IH; eauto].
    + eapply IH; eauto.
Qed.
Lemma collect_unused c st order o st' o' : collect c st order o = (st', o') -> unused_incl st st'.
Proof.
  unfold collect. destruct (collect_segs c st order o) as [st1 o1] eqn:Ec. intros H.
  eapply unused_incl_trans; [eapply collect_segs_unused; eauto|eapply arenas_purge_st_unused; eauto].
Qed.

Lemma malloc_generic_unused c st n huge commit tries order tries2 o st' r o' :
  malloc_generic c st n huge commit tries order tries2 o = Some (st', r, o') -> unused_incl st st'.
Proof.
  unfold malloc_generic. destruct (find_page c st n huge commit tries o) as [[[st1 [p|]] o1]|] eqn:E1; [| |discriminate].
  - intros H. inversion H; subst. eapply find_page_unused; eauto.
  - destruct (collect c st1 order o1) as [st2 o2] eqn:Ec.
    assert (H12 : unused_incl st st2) by (eapply unused_incl_trans; [eapply find_page_unused; eauto|eapply collect_unused; eauto]).
    destruct (find_page c st2 n huge commit tries2 o2) as [[[st3 [p|]] o3]|] eqn:E3; [| |discriminate];
      intros H; inversion H; subst; (eapply unused_incl_trans; [exact H12|eapply find_page_unused; eauto]).
Qed.

Lemma free_page_unused c st p clo cn expired unmap_ok o st' o' :
  free_page c st p clo cn expired unmap_ok o = Some (st', o') -> unused_incl st st'.
Proof.
  unfold free_page. destruct (existsb (page_eqb p) (st_live st)); cbn [negb]; [|discriminate].
  destruct (find_seg (pg_seg p) (st_segs st)) as [s|] eqn:Ef; [|discriminate].
  apply find_seg_some in Ef. destruct Ef as [Hs Hb].
  assert (Hrem : forall a' acc', unused_incl st (mk a' (remove_seg (sg_base s) (st_segs st)) (remove_page p (st_live st)) (st_raw st) acc')).
  { intros a' acc' b Hin Hu. unfold seg_bases in Hin. cbn [st_segs st_live mk] in *. apply bases_remove in Hin. destruct Hin as [Hin Hne].
    split; [exact Hin|]. apply (has_live_remove_false b p); [congruence|exact Hu]. }
  destruct (is_huge s).
  - destruct (segment_release c (st_arena st) (st_acc st) s unmap_ok o) as [[a1 acc1] o1]. intros H; inversion H; subst; clear H. apply Hrem.
  - match goal with |- context [if ?c then None else _] => destruct c end; [discriminate|].
    destruct (span_free c s (st_acc st) clo cn true o) as [[s1 acc1] o1].
    destruct (if expired then segment_try_purge c s1 acc1 o1 else (s1, acc1, o1)) as [[s2 acc2] o2].
    destruct (seg_has_live (sg_base s) (remove_page p (st_live st))) eqn:El.
    + intros H; inversion H; subst; clear H. intros b Hin Hu. unfold seg_bases in Hin. cbn [st_segs st_live mk] in *.
      rewrite bases_replace in Hin. split; [exact Hin|]. apply (has_live_remove_false b p); [|exact Hu].
      intros E. rewrite <- E, <- Hb in Hu. congruence.
    + destruct (segment_release c (st_arena st) acc2 s2 unmap_ok o2) as [[a3 acc3] o3]. intros H; inversion H; subst; clear H. apply Hrem.
Qed.

Lemma step_unused c st x o st' r o' : step c st x o = Some (st', r, o') -> unused_incl st st'.
Proof.
  destruct x as [n huge commit tries order tries2| |p clo cn expired unmap_ok|base| |order|b0 n commit|b0 n allc]; cbn [step].
  - apply malloc_generic_unused.
  - intros H. inversion H; subst. apply unused_incl_refl.
  - destruct (free_page c st p clo cn expired unmap_ok o) as [[st1 o1]|] eqn:Ef; [|discriminate]. intros H. inversion H; subst; clear H.
    eapply free_page_unused; eauto.
  - destruct (seg_try_purge_at c st base o) as [[st1 o1]|] eqn:Ep; [|discriminate]. intros H. inversion H; subst; clear H.
    eapply seg_try_purge_at_unused; eauto.
  - destruct (arenas_purge_st c st o) as [st1 o1] eqn:Ep. intros H. inversion H; subst; clear H. eapply arenas_purge_st_unused; eauto.
  - destruct (collect c st order o) as [st1 o1] eqn:Ec. intros H. inversion H; subst; clear H. eapply collect_unused; eauto.
  - destruct (arena_try_alloc_at (st_arena st) (st_acc st) b0 n commit o) as [[[[[mc z] a1] acc1] o1]|]; [|discriminate].
    intros H. inversion H; subst; clear H. apply unused_incl_same; [reflexivity|cbn [st_live mk]; auto].
  - destruct (existsb (fun r0 => raw_eqb r0 b0 n) (st_raw st)); cbn [negb]; [|discriminate].
    destruct (arena_free c (st_arena st) (st_acc st) b0 n allc o) as [[a1 acc1] o1]. intros H. inversion H; subst; clear H.
    apply unused_incl_same; [reflexivity|cbn [st_live mk]; auto].
Qed.

Lemma no_unused_of_incl st st' : unused_incl st st' -> no_unused_segment st -> no_unused_segment st'.
Proof.
  intros Hi Hn s Hs. destruct (seg_has_live (sg_base s) (st_live st')) eqn:E; [reflexivity|].
  destruct (Hi (sg_base s) (in_map _ _ _ Hs) E) as [Hin Hu]. unfold seg_bases in Hin. apply in_map_iff in Hin. destruct Hin as [s0 [E0 Hs0]].
  specialize (Hn s0 Hs0). rewrite E0 in Hn. congruence.
Qed.

Lemma no_unused_segment_step c st x o st' r o' :
  step c st x o = Some (st', r, o') ->
  unused_incl st st' /\ (no_unused_segment st -> no_unused_segment st').
Proof. intros H. pose proof (step_unused _ _ _ _ _ _ _ H) as Hi. split; [exact Hi|apply no_unused_of_incl; exact Hi]. Qed.

Lemma no_unused_segment_run c ops : forall st o st' rs o',
  run c st ops o = Some (st', rs, o') -> no_unused_segment st -> no_unused_segment st'.
Proof.
  induction ops as [|x rest IH]; intros st o st' rs o' H Hn; cbn [run] in H.
  - inversion H; subst. exact Hn.
  - destruct (step c st x o) as [[[st1 r1] o1]|] eqn:Es; [|discriminate].
    destruct (run c st1 rest o1) as [[[st2 rs2] o2]|] eqn:Er; [|discriminate]. inversion H; subst; clear H.
    eapply IH; [exact Er|]. exact (proj2 (no_unused_segment_step _ _ _ _ _ _ _ Es) Hn).
Qed.

(* from the initial state of an arena (mi_manage_os_memory_ex): after any history every segment has a live page *)
Lemma no_unused_segment_from_init c start nblocks is_committed is_zero ops o st' rs o' :
  run c (state_init start nblocks is_committed is_zero) ops o = Some (st', rs, o') -> no_unused_segment st'.
Proof. intros H. eapply no_unused_segment_run; [exact H|]. intros s Hs. destruct Hs. Qed.

(* the pre-repair mi_segments_page_alloc: the segment obtained from mi_segment_reclaim_or_alloc is kept whatever the
   retry did (`return mi_segments_page_alloc(...)`) *)
Fixpoint segments_page_alloc_old (c : cfg) (st : state) (n : N) (commit : bool) (ws : list where_) (o : list bool)
  : option (state * option page * list bool) :=
  match ws with
  | [] => Some (st, None, o)
  | WSpan base lo clo cn :: rest =>
    match page_find_and_allocate c st base lo n clo cn o with
    | None => None
    | Some (st', Some p, o') => Some (st', Some p, o')
    | Some (st', None, o') => segments_page_alloc_old c st' n commit rest o'
    end
  | WNewArena b0 :: rest =>
    match segment_alloc_arena c st b0 MI_SLICES_PER_SEGMENT false commit o with
    | None => None
    | Some (st', None, o') => Some (st', None, o')
    | Some (st', Some _, o') => segments_page_alloc_old c st' n commit rest o'
    end
  | WNewOs None _ :: _ => Some (st, None, o)
  | WNewOs (Some addr) unmap_ok :: rest =>
    match segment_alloc_os st addr MI_SLICES_PER_SEGMENT false commit unmap_ok o with
    | None => None
    | Some (st', None, o') => Some (st', None, o')
    | Some (st', Some _, o') => segments_page_alloc_old c st' n commit rest o'
    end
  end.

Definition unused_count (st : state) : N :=
  N.of_nat (length (filter (fun s => negb (seg_has_live (sg_base s) (st_live st))) (st_segs st))).

(* (1) the first span commit in a fresh segment is refused and no further memory is found: the old code returns NULL and
       keeps the fresh segment (its arena block stays claimed; a forced collect does not visit it), the repaired code
       frees it.
   (2) the witness found on the real code (harness/f_commit.c): the commit of a span of an existing segment is refused,
       a fresh segment is obtained, the retry finds the restored span of the FIRST segment again and its commit is now
       granted: the old code keeps the fresh segment without a page for ever, the repaired code frees it. *)
Definition ex_seg : N := 32768 + 1024.
Definition ex_state_one_page : state :=
  match run ex_cfg ex_state [OpAlloc 8 false false [[WNewArena 2; WSpan ex_seg 1 1 511]] [] []] [true; true] with
  | Some (st, _, _) => st | None => ex_state end.
Definition ex_ws_retry_elsewhere : list where_ := [WSpan ex_seg 9 9 503; WNewArena 0; WSpan ex_seg 9 9 503].
Example segments_page_alloc_old_keeps_unused_segment :
  (match segments_page_alloc_old ex_cfg ex_state 8 false [WNewArena 2; WSpan ex_seg 1 1 511] [true; false] with
   | Some (st, None, _) => (commit_inv_b st, unused_count st, a_inuse (st_arena st) 2) | _ => (false, 0, false) end) = (true, 1, true) /\
  (match segments_page_alloc ex_cfg ex_state 8 false [WNewArena 2; WSpan ex_seg 1 1 511] [true; false] with
   | Some (st, None, _) => (commit_inv_b st, unused_count st, a_inuse (st_arena st) 2) | _ => (false, 1, true) end) = (true, 0, false) /\
  (match segments_page_alloc_old ex_cfg ex_state_one_page 16 false ex_ws_retry_elsewhere [false; true; true] with
   | Some (st, Some p, _) => (commit_inv_b st && (pg_seg p =? ex_seg), unused_count st, a_inuse (st_arena st) 0)
   | _ => (false, 0, false) end) = (true, 1, true) /\
  (match segments_page_alloc ex_cfg ex_state_one_page 16 false ex_ws_retry_elsewhere [false; true; true] with
   | Some (st, Some p, _) => (commit_inv_b st && (pg_seg p =? ex_seg), unused_count st, a_inuse (st_arena st) 0)
   | _ => (false, 1, true) end) = (true, 0, false).
Proof. repeat split; vm_compute; reflexivity. Qed.

(* the former observation "a fresh segment whose first span commit is refused stays cached with no used page, and a
   forced collect does not release its arena block" (it concerned C11, "gives back everything") no longer holds: the
   repaired mi_segments_page_alloc frees that segment before the malloc returns NULL *)
Example unused_segment_freed_after_refusal :
  match run ex_cfg ex_state [OpAlloc 8 false false [[WNewArena 2; WSpan (32768 + 1024) 1 1 511]] [] []; OpCollect []] [true; false] with
  | Some (st, [RNone; RUnit], _) =>
    commit_inv_b st && (N.of_nat (length (st_live st)) =? 0) && (N.of_nat (length (st_segs st)) =? 0) && negb (a_inuse (st_arena st) 2)
  | _ => false
  end = true.
Proof. vm_compute. reflexivity. Qed.
