(* Commit bookkeeping (C07): the theorems of Properties/C07.v.
   Model/Commit.v follows the code as repaired by c78a4f5 (arena: blocks whose commit was refused are not kept marked
   committed) and 68720bb (segment: a huge segment whose memory the arena did not commit is committed as a whole);
   `arena_try_alloc_at_old` and `os_alloc_commit_old` below are the pre-repair behaviours, shown unsound. *)
From Coq Require Import NArith Lia Bool List.
From MiV Require Import Gen.Consts Model.Commit Proofs.CommitBase Proofs.CommitInv Proofs.CommitStep.
Import ListNotations.
Local Open Scope N_scope.
Local Open Scope bool_scope.

(* ---------------------------------------------------------------- (A) arena *)
Lemma arena_commit_sound a acc segs b0 n commit o mc z a' acc' o' :
  arena_A a segs acc ->
  (forall b x, b0 <= b < b0 + n -> in_block a b x -> governed segs x = false) ->
  arena_try_alloc_at a acc b0 n commit o = Some (mc, z, a', acc', o') ->
  arena_A a' segs acc' /\
  (mc = true -> forall x, block_slice a b0 <= x < block_slice a b0 + n * BLOCK_SLICES -> acc' x = true) /\
  (forall x, acc x = true -> acc' x = true) /\
  (forall b, b0 <= b < b0 + n -> a_committed a' b = mc).
Proof.
  intros HA Hung H. apply arena_try_alloc_at_spec in H.
  destruct H as [Hn [Hr [Hf [Hsh [Hiu [_ [Hcf [Hmono [Hframe Hcase]]]]]]]]].
  assert (Hrange : mc = true -> forall x, block_slice a b0 <= x < block_slice a b0 + n * BLOCK_SLICES -> acc' x = true).
  { intros Hmc x Hx. destruct Hcase as [[_ [_ [[Hall [-> _]]|[_ [_ Hacc]]]]]|[Hmc' _]]; [|auto|congruence].
    destruct (slice_in_blocks _ _ _ _ Hx) as [b [Hb Hin]].
    destruct (HA b ltac:(lia) (Hall b Hb) x Hin) as [G|G]; [|exact G]. rewrite (Hung b x Hb Hin) in G. discriminate. }
  split; [|split; [exact Hrange|split; [exact Hmono|]]].
  - destruct Hsh as [S1 [S2 S3]]. intros b Hb Hc x Hx. rewrite S2 in Hb.
    apply (in_block_shape a a' b x (conj S1 (conj S2 S3))) in Hx.
    destruct (in_range b0 n b) eqn:Er.
    + apply in_range_spec in Er. right. destruct mc.
      * apply Hrange; [reflexivity|]. eapply block_in_range; eauto.
      * destruct Hcase as [[Hmc _]|[_ [Hcl _]]]; [discriminate|]. rewrite (Hcl b Er) in Hc. discriminate.
    + apply in_range_false in Er. rewrite (Hcf b Er) in Hc. destruct (HA b Hb Hc x Hx) as [G|G]; auto.
  - intros b Hb. destruct Hcase as [[-> [Hc _]]|[-> [Hc _]]]; auto.
Qed.

(* the pre-repair mi_arena_try_alloc_at: a refused commit leaves the blocks marked committed (before c78a4f5) *)
Definition arena_try_alloc_at_old (a : arena) (acc : bits) (b0 n : N) (commit : bool) (o : list bool)
  : option (bool * bool * arena * bits * list bool) :=
  if (n =? 0) || (a_nblocks a <? b0 + n) || any_in (a_inuse a) b0 n then None
  else
    let zero := a_zero a && negb (any_in (a_dirty a) b0 n) in
    let a1 := arena_claim a b0 n in
    if commit then
      if all_in (a_committed a) b0 n then Some (true, zero, a1, acc, o)
      else
        let '(granted, o') := ask o in
        let a2 := with_committed a1 (set_range (a_committed a1) b0 n true) in   (* claimed before the commit ... *)
        if granted then Some (true, zero, a2, set_range acc (block_slice a b0) (n * BLOCK_SLICES) true, o')
        else Some (false, zero, a2, acc, o')                                    (* ... and not undone when it fails *)
    else
      if all_in (a_committed a) b0 n then Some (true, zero, a1, acc, o)
      else Some (false, zero, with_committed a1 (set_range (a_committed a1) b0 n false), acc, o).

Definition ex_arena : arena := arena_init 1000 4 false true.
(* one refused commit: the old code breaks (A), the repaired code keeps it *)
Example arena_commit_old_code_unsound :
  (match arena_try_alloc_at_old ex_arena no_bits 1 2 true [false] with
   | Some (mc, _, a', acc', _) => (mc, arena_acc_b a' [] acc')
   | None => (true, true) end) = (false, false) /\
  (match arena_try_alloc_at ex_arena no_bits 1 2 true [false] with
   | Some (mc, _, a', acc', _) => (mc, arena_acc_b a' [] acc')
   | None => (true, false) end) = (false, true).
Proof. split; vm_compute; reflexivity. Qed.

(* ---------------------------------------------------------------- (S) masks *)
Lemma commit_like_S lo n s acc s' acc' ok : commit_like lo n s acc s' acc' ok -> seg_S acc s -> seg_S acc' s'.
Proof.
  intros HC [S1 S2]. pose proof (cl_shape _ _ _ _ _ _ _ HC) as Hsh. pose proof (same_shape_huge _ _ Hsh) as Hh.
  destruct Hsh as [Eb [En _]]. split; rewrite Hh, Eb, En; intros Hhuge i Hi.
  - apply (cl_acc_inc _ _ _ _ _ _ _ HC). apply S1; assumption.
  - intros Hc. destruct (cl_sound _ _ _ _ _ _ _ HC i Hc) as [G|[_ [_ [_ G]]]]; [|exact G].
    apply (cl_acc_inc _ _ _ _ _ _ _ HC). apply S2; assumption.
Qed.
Lemma purge_like_S Q s acc s' acc' : purge_like Q s acc s' acc' -> seg_S acc s -> seg_S acc' s'.
Proof.
  intros HP [S1 S2]. pose proof (pl_shape _ _ _ _ _ HP) as Hsh. pose proof (same_shape_huge _ _ Hsh) as Hh.
  destruct Hsh as [Eb [En _]]. split; rewrite Hh, Eb, En; intros Hhuge i Hi.
  - rewrite (pl_huge _ _ _ _ _ HP Hhuge). apply S1; assumption.
  - intros Hc. pose proof (pl_commit_dec _ _ _ _ _ HP i Hc) as Hc0.
    destruct (pl_sync _ _ _ _ _ HP i Hi) as [E|E]; [rewrite E; apply S2; assumption|congruence].
Qed.

Lemma mask_sound c s acc lo n o :
  seg_S acc s ->
  (* mi_segment_commit / mi_segment_ensure_committed: (S) is kept, and a bit is set only when the commit of that slice
     was granted (then the slice is accessible); a refused commit changes nothing *)
  (forall s' acc' ok o', segment_commit s acc lo n o = (s', acc', ok, o') \/ segment_ensure_committed s acc lo n o = (s', acc', ok, o') ->
     seg_S acc' s' /\
     (forall i, sg_commit s' i = true -> sg_commit s i = true \/
                (ok = true /\ lo <= i < lo + n /\ i < sg_nslices s /\ acc' (sg_base s + i) = true)) /\
     (ok = false -> s' = s /\ acc' = acc /\ o = false :: o')) /\
  (* mi_segment_purge, mi_segment_try_purge, mi_segment_span_free *)
  (forall s' acc' o', segment_purge c s acc lo n o = (s', acc', o') \/ segment_try_purge c s acc o = (s', acc', o') \/
                      (exists ap, span_free c s acc lo n ap o = (s', acc', o')) ->
     seg_S acc' s' /\ (forall i, sg_commit s' i = true -> sg_commit s i = true)).
Proof.
  intros HS. split.
  - intros s' acc' ok o' H.
    assert (HC : commit_like lo n s acc s' acc' ok /\ (ok = false -> o = false :: o')).
    { destruct H as [H|H]; [apply segment_commit_spec in H|apply segment_ensure_committed_spec in H]; tauto. }
    destruct HC as [HC Ho]. split; [eapply commit_like_S; eauto|]. split; [exact (cl_sound _ _ _ _ _ _ _ HC)|].
    intros Hf. destruct (cl_fail _ _ _ _ _ _ _ HC Hf). auto.
  - intros s' acc' o' H.
    assert (HP : exists Q, purge_like Q s acc s' acc').
    { destruct H as [H|[H|[ap H]]]; eexists; [eapply segment_purge_spec|eapply segment_try_purge_spec|eapply span_free_spec]; exact H. }
    destruct HP as [Q HP]. split; [eapply purge_like_S; eauto|exact (pl_commit_dec _ _ _ _ _ HP)].
Qed.

Lemma span_allocate_accessible s acc lo n o s' acc' o' :
  seg_S acc s -> (is_huge s = false -> sg_nslices s = MASK_BITS) -> lo + n <= sg_nslices s ->
  span_allocate s acc lo n o = (Some s', acc', o') ->
  seg_S acc' s' /\ forall i, lo <= i < lo + n -> acc' (sg_base s + i) = true.
Proof.
  intros HS Hns Hr H. apply span_allocate_spec in H. destruct H as [HC _].
  split; [eapply commit_like_S; eauto|]. intros i Hi. destruct HS as [S1 S2]. destruct (is_huge s) eqn:Eh.
  - apply (cl_acc_inc _ _ _ _ _ _ _ HC). apply S1; [reflexivity|lia].
  - specialize (Hns eq_refl).
    destruct (cl_done _ _ _ _ _ _ _ HC eq_refl Eh ltac:(lia) i Hi ltac:(lia) ltac:(lia)) as [Hc _].
    destruct (cl_sound _ _ _ _ _ _ _ HC i Hc) as [G|[_ [_ [_ G]]]]; [|exact G].
    apply (cl_acc_inc _ _ _ _ _ _ _ HC). apply S2; [reflexivity|lia|exact G].
Qed.

(* the pre-repair mi_segment_os_alloc: only the header slices of a HUGE segment were committed (before 68720bb) *)
Definition os_alloc_commit_old (acc : bits) (base nslices : N) (huge mc : bool) (o : list bool) : option (bits * bits) * list bool :=
  if mc then (Some (mask_full, acc), o)
  else let '(granted, o') := ask o in
       if granted then (Some (mask_range 0 INFO_SLICES, set_range acc base INFO_SLICES true), o') else (None, o').
(* the arena commit of a huge allocation (20 MiB: 321 slices) is refused, the header commit is granted *)
Example segment_os_alloc_old_huge_unsound :
  (match os_alloc_commit_old no_bits 1000 321 true false [true] with
   | (Some (m, acc'), _) => seg_mask_b acc' (new_segment 1000 321 true m (MemArena 0 1))
   | _ => true end) = false /\
  (match os_alloc_commit no_bits 1000 321 true false [true] with
   | (Some (m, acc'), _) => seg_mask_b acc' (new_segment 1000 321 true m (MemArena 0 1))
   | _ => false end) = true.
Proof. split; vm_compute; reflexivity. Qed.

(* ---------------------------------------------------------------- the main theorem *)
Lemma live_effect_kept st x r st' p :
  live_effect st x r st' -> In p (st_live st) -> In p (st_live st') \/ exists clo cn e u, x = OpFree p clo cn e u.
Proof.
  unfold live_effect. intros H Hp. destruct r as [| |q|mc z].
  - destruct x; try (left; rewrite H; exact Hp). destruct H as [_ H]. rewrite H.
    destruct (page_eqb p p0) eqn:E.
    + apply page_eqb_eq in E. subst. right. eauto.
    + left. apply in_remove_page. split; [exact Hp|]. intros ->. rewrite (proj2 (page_eqb_eq p0 p0) eq_refl) in E. discriminate.
  - left. rewrite H. exact Hp.
  - left. rewrite H. right. exact Hp.
  - left. rewrite H. exact Hp.
Qed.

Lemma handed_out_accessible c s ops o s' rs o' :
  commit_Inv s -> run c s ops o = Some (s', rs, o') ->
  commit_Inv s' /\
  forall ops1 x ops2, ops = ops1 ++ x :: ops2 ->
    exists s1 rs1 o1 s2 r o2,
      run c s ops1 o = Some (s1, rs1, o1) /\ step c s1 x o1 = Some (s2, r, o2) /\
      commit_Inv s1 /\ commit_Inv s2 /\
      (forall p, r = RPage p -> In p (st_live s2) /\ page_accessible (st_acc s2) p = true) /\
      (forall p, In p (st_live s2) -> page_accessible (st_acc s2) p = true) /\
      (forall p, In p (st_live s1) -> In p (st_live s2) \/ exists clo cn e u, x = OpFree p clo cn e u).
Proof.
  intros HI H. split; [eapply run_inv; eauto|]. intros ops1 x ops2 ->.
  destruct (run_app _ _ _ _ _ _ _ _ H) as [s1 [rs1 [o1 [rs2 [H1 [H2 _]]]]]].
  cbn [run] in H2. destruct (step c s1 x o1) as [[[s2 r] o2]|] eqn:Es; [|discriminate].
  pose proof (run_inv _ _ _ _ _ _ _ HI H1) as HI1. destruct (step_inv _ _ _ _ _ _ _ HI1 Es) as [HI2 Hle].
  exists s1, rs1, o1, s2, r, o2. repeat (split; [first [assumption|reflexivity]|]). split; [|split].
  - intros p ->. cbn in Hle. assert (Hp : In p (st_live s2)) by (rewrite Hle; left; reflexivity).
    split; [exact Hp|apply page_accessible_live; assumption].
  - intros p Hp. apply page_accessible_live; assumption.
  - intros p Hp. eapply live_effect_kept; eauto.
Qed.

(* a failing operation loses nothing *)
Lemma failure_keeps_live c s x o s' o' :
  commit_Inv s -> step c s x o = Some (s', RNone, o') ->
  commit_Inv s' /\ st_live s' = st_live s /\
  forall p, In p (st_live s) -> forall i, pg_lo p <= i < pg_lo p + pg_n p ->
    st_acc s' (pg_seg p + i) = st_acc s (pg_seg p + i) /\ st_acc s' (pg_seg p + i) = true.
Proof.
  intros HI H. destruct (step_inv _ _ _ _ _ _ _ HI H) as [HI' Hl]. cbn in Hl. split; [exact HI'|]. split; [exact Hl|].
  intros p Hp i Hi. rewrite (live_accessible s p HI Hp i Hi). rewrite <- Hl in Hp. rewrite (live_accessible s' p HI' Hp i Hi). auto.
Qed.

Definition is_purge_op (x : op) : bool :=
  match x with OpPurge _ | OpArenaPurge | OpCollect _ => true | _ => false end.
Lemma purge_never_live c s x o s' r o' :
  commit_Inv s -> is_purge_op x = true -> step c s x o = Some (s', r, o') ->
  commit_Inv s' /\ st_live s' = st_live s /\
  forall p, In p (st_live s) -> forall i, pg_lo p <= i < pg_lo p + pg_n p ->
    st_acc s' (pg_seg p + i) = st_acc s (pg_seg p + i) /\ st_acc s' (pg_seg p + i) = true.
Proof.
  intros HI Hx H. destruct (step_inv _ _ _ _ _ _ _ HI H) as [HI' Hl].
  assert (Hlive : st_live s' = st_live s).
  { destruct x; try discriminate; cbn [step] in H.
    - destruct (seg_try_purge_at c s base o) as [[? ?]|]; [|discriminate]. inversion H; subst. exact Hl.
    - destruct (arenas_purge_st c s o). inversion H; subst. exact Hl.
    - destruct (collect c s order o). inversion H; subst. exact Hl. }
  split; [exact HI'|]. split; [exact Hlive|].
  intros p Hp i Hi. rewrite (live_accessible s p HI Hp i Hi). rewrite <- Hlive in Hp. rewrite (live_accessible s' p HI' Hp i Hi). auto.
Qed.

(* the restore path of mi_segments_page_find_and_allocate *)
Lemma span_restored_on_failure c s base lo n clo cn o s' o' :
  commit_Inv s -> page_find_and_allocate c s base lo n clo cn o = Some (s', None, o') ->
  commit_Inv s' /\ st_live s' = st_live s /\ st_arena s' = st_arena s /\ st_raw s' = st_raw s /\
  span_is_free (st_live s') base lo n = true /\ (exists o1, o = false :: o1) /\
  forall p, In p (st_live s) -> page_accessible (st_acc s') p = true.
Proof.
  intros HI H. destruct (pfa_inv _ _ _ _ _ _ _ _ _ _ _ HI H) as [HI' Hl]. cbn in Hl.
  unfold page_find_and_allocate in H. destruct (find_seg base (st_segs s)) as [sg|]; [|discriminate].
  match type of H with context [if ?c then None else _] => destruct c eqn:Ec end; [discriminate|].
  repeat (apply orb_false_iff in Ec; destruct Ec as [Ec ?]). b2p.
  destruct (span_allocate sg (st_acc s) lo n o) as [[r1 acc1] o1] eqn:Ea.
  pose proof (span_allocate_spec _ _ _ _ _ _ _ _ Ea) as Hsp. destruct r1 as [s1|]; [discriminate|]. destruct Hsp as [_ Ho].
  destruct (span_free c sg acc1 clo cn true o1) as [[s2 acc2] o2]. inversion H; subst; clear H. cbn [st_live st_arena st_raw mk] in *.
  repeat (split; [first [assumption|reflexivity]|]). split; [first [exists o1; exact Ho | eexists; reflexivity]|].
  intros p Hp. apply (page_accessible_live _ p HI'). cbn [st_live mk]. exact Hp.
Qed.

(* ---------------------------------------------------------------- recovery *)
Definition granted (o : list bool) : Prop := Forall (fun b => b = true) o.
Lemma ask_granted o : granted o -> exists o', ask o = (true, o') /\ granted o'.
Proof.
  intros H. destruct o as [|b r]; [exists []; split; [reflexivity|constructor]|].
  inversion H; subst. exists r. split; [reflexivity|assumption].
Qed.

Lemma ensure_granted s acc lo n o :
  granted o -> exists s' acc' o', segment_ensure_committed s acc lo n o = (s', acc', true, o') /\ granted o'.
Proof.
  intros Hg. unfold segment_ensure_committed. destruct (mask_is_full (sg_commit s) && mask_is_empty (sg_purge s)); [eauto|].
  unfold segment_commit. destruct (commit_range s lo n) as [n'|]; [|eauto].
  destruct (all_in (sg_commit s) lo n'); [eauto|]. destruct (ask_granted o Hg) as [o1 [-> Hg1]]. eauto.
Qed.

Lemma pfa_granted c s sg lo n o :
  commit_Inv s -> granted o -> In sg (st_segs s) -> is_huge sg = false ->
  sg_info sg <= lo -> 0 < n -> lo + n <= sg_nslices sg -> span_is_free (st_live s) (sg_base sg) lo n = true ->
  exists s' o',
    page_find_and_allocate c s (sg_base sg) lo n lo n o = Some (s', Some {| pg_seg := sg_base sg; pg_lo := lo; pg_n := n |}, o') /\ granted o'.
Proof.
  intros HI Hg Hs Hh Hlo Hn Hr Hfree. unfold page_find_and_allocate.
  rewrite (find_seg_in s HI sg Hs), Hh, Hfree.
  replace (n =? 0) with false by (symmetry; apply N.eqb_neq; lia).
  replace (lo <? sg_info sg) with false by (symmetry; apply N.ltb_ge; lia).
  replace (sg_nslices sg <? lo + n) with false by (symmetry; apply N.ltb_ge; lia).
  replace (lo <? lo) with false by (symmetry; apply N.ltb_irrefl).
  replace (lo + n <? lo + n) with false by (symmetry; apply N.ltb_irrefl).
  cbn [orb negb]. unfold span_allocate.
  destruct (ensure_granted sg (st_acc s) lo n o Hg) as [s1 [acc1 [o1 [-> Hg1]]]]. eauto.
Qed.

Lemma recovers_span c s sg lo n commit order tries2 o :
  commit_Inv s -> granted o -> In sg (st_segs s) -> is_huge sg = false ->
  sg_info sg <= lo -> 0 < n -> lo + n <= sg_nslices sg -> span_is_free (st_live s) (sg_base sg) lo n = true ->
  exists s' o',
    step c s (OpAlloc n false commit [[WSpan (sg_base sg) lo lo n]] order tries2) o =
      Some (s', RPage {| pg_seg := sg_base sg; pg_lo := lo; pg_n := n |}, o') /\ granted o'.
Proof.
  intros HI Hg Hs Hh Hlo Hn Hr Hfree.
  destruct (pfa_granted c s sg lo n o HI Hg Hs Hh Hlo Hn Hr Hfree) as [s' [o' [E Hg']]].
  cbn [step]. unfold malloc_generic. cbn [find_page page_alloc segments_page_alloc]. rewrite E. eauto.
Qed.

Lemma os_alloc_commit_granted acc base nslices huge mc o :
  granted o -> exists m acc2 o2, os_alloc_commit acc base nslices huge mc o = (Some (m, acc2), o2) /\ granted o2.
Proof.
  intros Hg. unfold os_alloc_commit. destruct mc; [eauto|]. destruct (ask_granted o Hg) as [o1 [-> Hg1]]. eauto.
Qed.
Lemma arena_try_alloc_at_granted a acc b0 n commit o :
  granted o -> 0 < n -> b0 + n <= a_nblocks a -> (forall b, b0 <= b < b0 + n -> a_inuse a b = false) ->
  exists mc z a' acc' o', arena_try_alloc_at a acc b0 n commit o = Some (mc, z, a', acc', o') /\ granted o'.
Proof.
  intros Hg Hn Hr Hf. unfold arena_try_alloc_at.
  replace (n =? 0) with false by (symmetry; apply N.eqb_neq; lia).
  replace (a_nblocks a <? b0 + n) with false by (symmetry; apply N.ltb_ge; lia).
  replace (any_in (a_inuse a) b0 n) with false by (symmetry; apply any_in_false; exact Hf). cbn [orb].
  destruct commit; destruct (all_in (a_committed a) b0 n); try (do 5 eexists; split; [reflexivity|exact Hg]).
  destruct (ask_granted o Hg) as [o1 [-> Hg1]]. do 5 eexists; split; [reflexivity|exact Hg1].
Qed.

Lemma recovers_arena_huge c s b0 n commit order tries2 o :
  commit_Inv s -> granted o -> 0 < n ->
  b0 + (INFO_SLICES + n + BLOCK_SLICES - 1) / BLOCK_SLICES <= a_nblocks (st_arena s) ->
  (forall b, b0 <= b < b0 + (INFO_SLICES + n + BLOCK_SLICES - 1) / BLOCK_SLICES -> a_inuse (st_arena s) b = false) ->
  exists s' o',
    step c s (OpAlloc n true commit [[WNewArena b0]] order tries2) o =
      Some (s', RPage {| pg_seg := block_slice (st_arena s) b0; pg_lo := INFO_SLICES; pg_n := n |}, o') /\ granted o'.
Proof.
  intros HI Hg Hn Hr Hf.
  assert (Hnb : 0 < (INFO_SLICES + n + BLOCK_SLICES - 1) / BLOCK_SLICES).
  { pose proof (blocks_cover (INFO_SLICES + n)) as Hc. rewrite INFO_SLICES_val, BLOCK_SLICES_val in *.
    destruct ((1 + n + 512 - 1) / 512) eqn:E; lia. }
  cbn [step]. unfold malloc_generic. cbn [find_page page_alloc]. unfold huge_page_alloc.
  replace (n =? 0) with false by (symmetry; apply N.eqb_neq; lia). unfold segment_alloc_arena.
  destruct (arena_try_alloc_at_granted (st_arena s) (st_acc s) b0 _ true o Hg Hnb Hr Hf) as [mc [z [a1 [acc1 [o1 [-> Hg1]]]]]].
  destruct (os_alloc_commit_granted acc1 (block_slice (st_arena s) b0) (INFO_SLICES + n) true mc o1 Hg1) as [m [acc2 [o2 [-> Hg2]]]].
  cbn. eauto.
Qed.

Lemma recovers_arena_normal c s b0 n commit order tries2 o :
  commit_Inv s -> granted o -> 0 < n -> INFO_SLICES + n <= MASK_BITS ->
  b0 < a_nblocks (st_arena s) -> a_inuse (st_arena s) b0 = false ->
  exists s' o',
    step c s (OpAlloc n false commit [[WNewArena b0; WSpan (block_slice (st_arena s) b0) INFO_SLICES INFO_SLICES n]] order tries2) o =
      Some (s', RPage {| pg_seg := block_slice (st_arena s) b0; pg_lo := INFO_SLICES; pg_n := n |}, o') /\ granted o'.
Proof.
  intros HI Hg Hn Hfit Hb Hf.
  assert (Hone : (MI_SLICES_PER_SEGMENT + BLOCK_SLICES - 1) / BLOCK_SLICES = 1) by (rewrite BLOCK_SLICES_val; reflexivity).
  assert (Hf' : forall b, b0 <= b < b0 + 1 -> a_inuse (st_arena s) b = false) by (intros b Hb'; replace b with b0 by lia; exact Hf).
  assert (Hsl : INFO_SLICES < MI_SLICES_PER_SEGMENT) by (rewrite INFO_SLICES_val, SLICES_PER_SEGMENT_val; lia).
  assert (Hmb : false = false -> MI_SLICES_PER_SEGMENT = MASK_BITS) by (intros _; rewrite MASK_BITS_val; reflexivity).
  destruct (arena_try_alloc_at_granted (st_arena s) (st_acc s) b0 1 commit o Hg ltac:(lia) ltac:(lia) Hf') as [mc [z [a1 [acc1 [oa [E Hg1]]]]]].
  destruct (os_alloc_commit_granted acc1 (block_slice (st_arena s) b0) MI_SLICES_PER_SEGMENT false mc oa Hg1) as [m [acc2 [o2 [E2 Hg2]]]].
  set (snew := new_segment (block_slice (st_arena s) b0) MI_SLICES_PER_SEGMENT false m (MemArena b0 1)).
  set (st1 := mk a1 (snew :: st_segs s) (st_live s) (st_raw s) acc2).
  assert (Es : segment_alloc_arena c s b0 MI_SLICES_PER_SEGMENT false commit o = Some (st1, Some snew, o2)).
  { unfold segment_alloc_arena. rewrite Hone, E, E2. reflexivity. }
  pose proof (segment_alloc_arena_inv _ _ _ _ _ _ _ _ _ _ HI Hsl Hmb Es) as [HI1 _].
  cbn [step]. unfold malloc_generic. cbn [find_page page_alloc segments_page_alloc]. rewrite Es.
  assert (Hs1 : In snew (st_segs st1)) by (left; reflexivity).
  assert (Hnolive : span_is_free (st_live st1) (sg_base snew) INFO_SLICES n = true).
  { unfold span_is_free. apply forallb_forall. intros q Hq. apply orb_true_iff. left. apply negb_true_iff. apply N.eqb_neq. intros Eq.
    pose proof (I_D1 s HI) as HD. rewrite Forall_forall in HD. destruct (HD q Hq) as [sq [Hfq _]]. apply find_seg_some in Hfq. destruct Hfq as [Hq1 Hq2].
    assert (Hq3 : In sq (st_segs st1)) by (right; exact Hq1).
    assert (sq = snew) by (apply (seg_unique st1 HI1); auto; congruence). subst sq.
    (* snew is not a segment of s: its block was free *)
    destruct (seg_wf_in s HI snew Hq1) as [_ [_ [_ Hw]]]. cbn in Hw. destruct Hw as [_ [_ [_ Hu]]]. rewrite (Hu b0 ltac:(lia)) in Hf. discriminate. }
  destruct (pfa_granted c st1 snew INFO_SLICES n o2 HI1 Hg2 Hs1 eq_refl) as [s' [o' [Hstep Hg']]]; auto.
  { unfold snew, new_segment; cbn [sg_info]. lia. }
  change (sg_base snew) with (block_slice (st_arena s) b0) in Hstep. rewrite Hstep. eauto.
Qed.

(* ---------------------------------------------------------------- concrete runs *)
Definition ex_cfg : cfg := {| c_decommits := false; c_purge_now := false; c_arena_purge_now := false; c_allow_purge := true |}.
Definition ex_cfg_decommit : cfg := {| c_decommits := true; c_purge_now := true; c_arena_purge_now := true; c_allow_purge := true |}.
(* an arena of 4 blocks over memory that is not accessible (mi_manage_os_memory_ex(.., is_committed = false, ..)) *)
Definition ex_state : state := state_init 32768 4 false true.

(* corpus/C07/arena_commit_bit_after_refusal.trace: arena_eager_commit = 0; zalloc(31 MiB); malloc(20 MiB) whose arena
   commit is refused once; free it; zalloc(31 MiB) re-uses the same arena block *)
Definition ex_ops : list op :=
  [ OpAlloc 496 true true [[WNewArena 0]] [] [];
    OpAlloc 320 true true [[WNewArena 1]] [] [];
    OpFree {| pg_seg := 32768 + 512; pg_lo := 1; pg_n := 320 |} 1 320 false true;
    OpAlloc 496 true true [[WNewArena 1]] [] [] ].
Definition ex_oracle : list bool := [true; false; true; true].

Example arena_commit_bit_after_refusal_run :
  match run ex_cfg ex_state ex_ops ex_oracle with
  | Some (st, [RPage p1; RPage p2; RUnit; RPage p3], o) =>
    commit_inv_b st && page_accessible (st_acc st) p1 && page_accessible (st_acc st) p3 &&
    (pg_seg p3 =? pg_seg p2) && (pg_n p3 =? 496) && (N.of_nat (length o) =? 0) &&
    (* the refused arena commit left the block unmarked, so the second use committed it again *)
    negb (a_committed (st_arena (match run ex_cfg ex_state (firstn 3 ex_ops) ex_oracle with Some (s3, _, _) => s3 | None => st end)) 1) &&
    a_committed (st_arena st) 1
  | _ => false
  end = true.
Proof. vm_compute. reflexivity. Qed.

(* a run with normal pages, a refused span commit (restore path), a failing malloc (first attempt, forced collect, retry),
   immediate decommitting purges, and recovery; every intermediate state satisfies the invariant *)
Definition ex_ops2 : list op :=
  [ OpAlloc 8 false false [[WNewArena 2; WSpan (32768 + 1024) 1 1 511]] [] [];
    OpAlloc 16 false false [[WSpan (32768 + 1024) 9 9 503]] [] [];
    OpAlloc 32 false false [[WSpan (32768 + 1024) 25 25 487]] [32768 + 1024] [[WSpan (32768 + 1024) 25 25 487]];
    OpFree {| pg_seg := 32768 + 1024; pg_lo := 9; pg_n := 16 |} 9 503 true true;
    OpCollect [32768 + 1024];
    OpAlloc 32 false false [[WSpan (32768 + 1024) 9 9 503]] [] [] ].
Definition ex_oracle2 : list bool := [true; true; true; false; false].
Fixpoint run_all_inv (c : cfg) (st : state) (ops : list op) (o : list bool) : bool :=
  match ops with
  | [] => commit_inv_b st
  | x :: rest => commit_inv_b st && match step c st x o with Some (st', _, o') => run_all_inv c st' rest o' | None => false end
  end.
Example refused_span_commit_run :
  run_all_inv ex_cfg_decommit ex_state ex_ops2 ex_oracle2 = true /\
  match run ex_cfg_decommit ex_state ex_ops2 ex_oracle2 with
  | Some (st, [RPage p1; RPage p2; RNone; RUnit; RUnit; RPage p3], _) =>
    page_accessible (st_acc st) p1 && page_accessible (st_acc st) p3 && (N.of_nat (length (st_live st)) =? 2)
  | _ => false
  end = true.
Proof. split; vm_compute; reflexivity. Qed.

Example commit_Inv_initial : commit_Inv ex_state.
Proof. apply commit_inv_b_iff. vm_compute. reflexivity. Qed.

Lemma recovers c s commit order tries2 o :
  commit_Inv s -> granted o ->
  (forall sg lo n, In sg (st_segs s) -> is_huge sg = false -> sg_info sg <= lo -> 0 < n -> lo + n <= sg_nslices sg ->
     span_is_free (st_live s) (sg_base sg) lo n = true ->
     exists s' o', step c s (OpAlloc n false commit [[WSpan (sg_base sg) lo lo n]] order tries2) o =
                     Some (s', RPage {| pg_seg := sg_base sg; pg_lo := lo; pg_n := n |}, o') /\ granted o') /\
  (forall b0 n, 0 < n -> b0 + (INFO_SLICES + n + BLOCK_SLICES - 1) / BLOCK_SLICES <= a_nblocks (st_arena s) ->
     (forall b, b0 <= b < b0 + (INFO_SLICES + n + BLOCK_SLICES - 1) / BLOCK_SLICES -> a_inuse (st_arena s) b = false) ->
     exists s' o', step c s (OpAlloc n true commit [[WNewArena b0]] order tries2) o =
                     Some (s', RPage {| pg_seg := block_slice (st_arena s) b0; pg_lo := INFO_SLICES; pg_n := n |}, o') /\ granted o') /\
  (forall b0 n, 0 < n -> INFO_SLICES + n <= MASK_BITS -> b0 < a_nblocks (st_arena s) -> a_inuse (st_arena s) b0 = false ->
     exists s' o', step c s (OpAlloc n false commit [[WNewArena b0; WSpan (block_slice (st_arena s) b0) INFO_SLICES INFO_SLICES n]] order tries2) o =
                     Some (s', RPage {| pg_seg := block_slice (st_arena s) b0; pg_lo := INFO_SLICES; pg_n := n |}, o') /\ granted o').
Proof.
  intros HI Hg. split; [|split].
  - intros sg lo n. apply recovers_span; assumption.
  - intros b0 n. apply recovers_arena_huge; assumption.
  - intros b0 n. apply recovers_arena_normal; assumption.
Qed.

(* Observation (reported to the coordinator, it concerns "gives back everything", C11): when the FIRST span commit in a
   fresh segment is refused, mi_segments_page_find_and_allocate restores the span and the malloc fails, but the fresh
   segment stays cached with no used page; mi_collect(true) does not visit it (it visits segments through the heap's
   pages), so its arena block stays claimed until a later allocation uses and frees it.  The implementation does exactly
   this (harness/f_commit.c: the model with this behaviour agrees with every dumped state). *)
Example empty_segment_cached_after_refusal :
  match run ex_cfg ex_state [OpAlloc 8 false false [[WNewArena 2; WSpan (32768 + 1024) 1 1 511]] [] []; OpCollect []] [true; false] with
  | Some (st, [RNone; RUnit], _) =>
    commit_inv_b st && (N.of_nat (length (st_live st)) =? 0) && (N.of_nat (length (st_segs st)) =? 1) && a_inuse (st_arena st) 2
  | _ => false
  end = true.
Proof. vm_compute. reflexivity. Qed.
