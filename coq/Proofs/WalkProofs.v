(* Proofs about the heap walk with a visitor (Model/Walk.v): the nested loops of src/heap.c are the
   flat call sequence cut at the first refusal; with an accepting visitor the walk reports exactly the
   live blocks of every page; a refusal stops the walk at that call (property C12). *)
From Coq Require Import NArith List Bool Lia ZifyN ZifyBool.
From MiV Require Import Gen.Consts Model.Arith Model.Page Model.Walk Proofs.Base Proofs.ArithProofs Proofs.PageProofs.
Import ListNotations. Local Open Scope N_scope.

Section WalkProofs.
  Variable S : Type.
  Variable visitor : S -> vcall -> S * bool.

  Lemma run_calls_app s a b :
    run_calls S visitor s (a ++ b) =
    let '(s1, tr1, ok) := run_calls S visitor s a in
    if ok then let '(s2, tr2, res) := run_calls S visitor s1 b in (s2, tr1 ++ tr2, res)
    else (s1, tr1, false).
  Proof.
    revert s; induction a as [|c a IH]; intros s; cbn [run_calls app].
    - destruct (run_calls S visitor s b) as [[s2 tr2] res]. reflexivity.
    - destruct (visitor s c) as [s1 ok]. destruct ok; [|reflexivity].
      rewrite IH. destruct (run_calls S visitor s1 a) as [[s2 tr1] ok1]. destruct ok1; [|reflexivity].
      destruct (run_calls S visitor s2 b) as [[s3 tr2] res]. reflexivity.
  Qed.

  Lemma visit_indices_run pg s idxs :
    visit_indices S visitor pg s idxs = run_calls S visitor s (map (VBlock pg) idxs).
  Proof.
    revert s; induction idxs as [|i r IH]; intros s; cbn [visit_indices run_calls map]; [reflexivity|].
    destruct (visitor s (VBlock pg i)) as [s1 ok]. destruct ok; [|reflexivity]. rewrite IH. reflexivity.
  Qed.

  Lemma area_visitor_run vb pg p s :
    area_visitor S visitor vb pg p s = run_calls S visitor s (page_calls vb (pg, p)).
  Proof.
    unfold area_visitor, page_calls, area_visit_blocks. cbn [fst snd run_calls].
    destruct (visitor s (area_call pg p)) as [s1 ok]. destruct ok; cbn [negb]; [|reflexivity].
    destruct vb; [rewrite visit_indices_run; reflexivity| reflexivity].
  Qed.

  Lemma visit_pages_run vb pages s :
    visit_pages S visitor vb pages s = run_calls S visitor s (all_calls vb pages).
  Proof.
    revert s; induction pages as [|[pg p] r IH]; intros s; [reflexivity|].
    unfold all_calls. cbn [visit_pages map concat]. fold (all_calls vb r).
    rewrite run_calls_app, area_visitor_run.
    destruct (run_calls S visitor s (page_calls vb (pg, p))) as [[s1 tr1] ok]. destruct ok; [|reflexivity].
    rewrite IH. reflexivity.
  Qed.

  (* the nested loops are the flat sequence cut at the first refusal; the empty heap answers false *)
  Lemma heap_visit_blocks_run vb pages s : pages <> [] ->
    heap_visit_blocks S visitor vb pages s = run_calls S visitor s (all_calls vb pages).
  Proof. intros Hne. destruct pages as [|x r]; [congruence|]. unfold heap_visit_blocks. apply visit_pages_run. Qed.

  Lemma heap_visit_blocks_empty vb s : heap_visit_blocks S visitor vb [] s = (s, [], false).
  Proof. reflexivity. Qed.

  (* calls made = a prefix of the full sequence; everything when the result is true *)
  Lemma run_calls_prefix s cs : forall s' tr res, run_calls S visitor s cs = (s', tr, res) ->
    exists rest, cs = tr ++ rest /\ (res = true -> rest = []).
  Proof.
    revert s; induction cs as [|c r IH]; intros s s' tr res; cbn [run_calls].
    - intros E; inversion E; subst. exists []. split; [reflexivity|auto].
    - destruct (visitor s c) as [s1 ok]. destruct ok.
      + destruct (run_calls S visitor s1 r) as [[s2 tr2] res2] eqn:Er. intros E; inversion E; subst.
        destruct (IH _ _ _ _ Er) as (rest & E1 & E2). exists rest. split; [cbn; congruence|exact E2].
      + intros E; inversion E; subst. exists r. split; [reflexivity|discriminate].
  Qed.

  (* result false: the walk made every call up to and including the first refused one and none after it *)
  Lemma run_calls_stops s cs : forall s' tr, run_calls S visitor s cs = (s', tr, false) ->
    exists pre c post s0, cs = pre ++ c :: post /\ tr = pre ++ [c] /\
      run_calls S visitor s pre = (s0, pre, true) /\ visitor s0 c = (s', false).
  Proof.
    revert s; induction cs as [|c r IH]; intros s s' tr; cbn [run_calls].
    - intros E; inversion E.
    - destruct (visitor s c) as [s1 ok] eqn:Ev. destruct ok.
      + destruct (run_calls S visitor s1 r) as [[s2 tr2] res2] eqn:Er. intros E; inversion E; subst.
        destruct (IH _ _ _ Er) as (pre & c0 & post & s0 & E1 & E2 & E3 & E4).
        exists (c :: pre), c0, post, s0. repeat split; [cbn; congruence| cbn; congruence| | exact E4].
        cbn [run_calls]. rewrite Ev, E3. reflexivity.
      + intros E; inversion E; subst. exists [], c, r, s. repeat split. exact Ev.
  Qed.

  (* result true: every call was made and accepted *)
  Lemma run_calls_true s cs : forall s' tr, run_calls S visitor s cs = (s', tr, true) -> tr = cs.
  Proof.
    intros s' tr E. destruct (run_calls_prefix _ _ _ _ _ E) as (rest & E1 & E2).
    rewrite (E2 eq_refl), app_nil_r in E1. congruence.
  Qed.

  (* an accepting visitor sees the whole sequence *)
  Lemma run_calls_accepting s cs : (forall s0 c, snd (visitor s0 c) = true) ->
    exists s', run_calls S visitor s cs = (s', cs, true).
  Proof.
    intros Hacc. revert s; induction cs as [|c r IH]; intros s; cbn [run_calls]; [eexists; reflexivity|].
    pose proof (Hacc s c) as Hc. destruct (visitor s c) as [s1 ok]. cbn in Hc. subst ok.
    destruct (IH s1) as (s' & E). rewrite E. eexists; reflexivity.
  Qed.
End WalkProofs.

(* ---- exactly the live blocks ---- *)
Definition walkable (p : page) : Prop := page_Inv p /\ bsize p < 2^32 /\ capacity p * bsize p < 2^32.

Lemma all_calls_live pages : Forall (fun x => walkable (snd x)) pages -> all_calls true pages = live_calls pages.
Proof.
  unfold all_calls, live_calls. induction 1 as [|x r Hx _ IH]; [reflexivity|].
  cbn [map concat]. rewrite IH. unfold page_calls. destruct Hx as (HI & Hb & Hc).
  rewrite (page_visit_exactly_live _ HI Hb Hc). reflexivity.
Qed.

Lemma all_calls_areas_only pages : all_calls false pages = map (fun x => area_call (fst x) (snd x)) pages.
Proof. unfold all_calls. induction pages as [|x r IH]; [reflexivity|]. cbn [map concat]. rewrite IH. reflexivity. Qed.

Theorem walk_reports_exactly_live S visitor pages s :
  pages <> [] -> Forall (fun x => walkable (snd x)) pages -> (forall s0 c, snd (visitor s0 c) = true) ->
  exists s', heap_visit_blocks S visitor true pages s = (s', live_calls pages, true).
Proof.
  intros Hne Hw Hacc. rewrite heap_visit_blocks_run by exact Hne. rewrite (all_calls_live _ Hw).
  apply run_calls_accepting. exact Hacc.
Qed.

Theorem walk_areas_only S visitor pages s :
  pages <> [] -> (forall s0 c, snd (visitor s0 c) = true) ->
  exists s', heap_visit_blocks S visitor false pages s = (s', map (fun x => area_call (fst x) (snd x)) pages, true).
Proof.
  intros Hne Hacc. rewrite heap_visit_blocks_run by exact Hne. rewrite all_calls_areas_only.
  apply run_calls_accepting. exact Hacc.
Qed.

(* returning false stops the walk: the calls made are the full sequence up to and including the refused call *)
Theorem walk_false_stops S visitor vb pages s s' tr :
  heap_visit_blocks S visitor vb pages s = (s', tr, false) ->
  pages = [] /\ tr = [] \/
  exists pre c post s0, all_calls vb pages = pre ++ c :: post /\ tr = pre ++ [c] /\
    run_calls S visitor s pre = (s0, pre, true) /\ visitor s0 c = (s', false).
Proof.
  destruct pages as [|x r] eqn:Ep.
  - cbn. intros E; inversion E. left; auto.
  - rewrite heap_visit_blocks_run by discriminate. intros E. right. apply run_calls_stops. exact E.
Qed.

Theorem walk_true_complete S visitor vb pages s s' tr :
  heap_visit_blocks S visitor vb pages s = (s', tr, true) -> pages <> [] /\ tr = all_calls vb pages.
Proof.
  destruct pages as [|x r] eqn:Ep.
  - cbn. intros E; inversion E.
  - rewrite heap_visit_blocks_run by discriminate. intros E. split; [discriminate|]. eapply run_calls_true; exact E.
Qed.

(* the area record's used count is the number of live blocks when no cross-thread free is pending *)
Lemma area_used_is_live_count p : page_Inv p -> thread_free p = [] -> used p = N.of_nat (length (page_live p)).
Proof. intros HI Ht. pose proof (page_live_count p HI) as H. rewrite Ht in H. cbn [length] in H. lia. Qed.

(* the counting visitor of the harness: the walk is the first k calls of the full sequence *)
Lemma stop_at_run k cs : forall n,
  run_calls N (stop_at_visitor k) n cs =
  if (n <? k) && (k <=? n + N.of_nat (length cs))
  then (k, firstn (N.to_nat (k - n)) cs, false)
  else (n + N.of_nat (length cs), cs, true).
Proof.
  induction cs as [|c r IH]; intros n.
  - cbn [run_calls length]. destruct (n <? k) eqn:E1; destruct (k <=? n + N.of_nat 0) eqn:E2; cbn [andb];
      try (f_equal; f_equal; lia).
  - cbn [run_calls]. unfold stop_at_visitor at 1. rewrite IH. cbn [length].
    destruct (n + 1 =? k) eqn:Ek; cbn [negb].
    + assert (Hn : (n <? k) && (k <=? n + N.of_nat (Datatypes.S (length r))) = true) by lia. rewrite Hn.
      replace (N.to_nat (k - n)) with 1%nat by lia. cbn [firstn]. f_equal; f_equal; lia.
    + destruct ((n + 1 <? k) && (k <=? n + 1 + N.of_nat (length r))) eqn:E1.
      * assert (Hn : (n <? k) && (k <=? n + N.of_nat (Datatypes.S (length r))) = true) by lia. rewrite Hn.
        replace (N.to_nat (k - n)) with (Datatypes.S (N.to_nat (k - (n + 1)))) by lia. reflexivity.
      * assert (Hn : (n <? k) && (k <=? n + N.of_nat (Datatypes.S (length r))) = false) by lia. rewrite Hn.
        f_equal; f_equal; lia.
Qed.

Theorem walk_stop_at_spec vb k pages : pages <> [] ->
  walk_stop_at vb k pages =
  if (0 <? k) && (k <=? N.of_nat (length (all_calls vb pages)))
  then (firstn (N.to_nat k) (all_calls vb pages), false)
  else (all_calls vb pages, true).
Proof.
  intros Hne. unfold walk_stop_at. rewrite heap_visit_blocks_run by exact Hne. rewrite stop_at_run.
  rewrite N.add_0_l, N.sub_0_r. destruct ((0 <? k) && (k <=? N.of_nat (length (all_calls vb pages)))); reflexivity.
Qed.

(* ---- the walk changes no page's set of live blocks, and keeps the page invariant ---- *)
Lemma walk_pages_after_live S visitor vb pages : Forall (fun x => page_Inv (snd x)) pages -> forall s,
  map (fun x => (fst x, page_live (snd x))) (walk_pages_after S visitor vb pages s) =
  map (fun x => (fst x, page_live (snd x))) pages.
Proof.
  induction 1 as [|[pg p] r Hx Hr IH]; intros s; [reflexivity|]. cbn [walk_pages_after snd] in *.
  destruct (visitor s (area_call pg p)) as [s1 ok]. destruct ok; cbn [negb]; [|reflexivity].
  destruct vb.
  - destruct (area_visit_blocks S visitor pg p s1) as [[s2 tr] res]. cbn [map fst snd].
    rewrite (collect_page_live p true Hx). destruct res; [rewrite IH|]; reflexivity.
  - cbn [map fst snd]. rewrite IH. reflexivity.
Qed.

Lemma walk_pages_after_inv S visitor vb pages : Forall (fun x => page_Inv (snd x)) pages -> forall s,
  Forall (fun x => page_Inv (snd x)) (walk_pages_after S visitor vb pages s).
Proof.
  induction 1 as [|[pg p] r Hx Hr IH]; intros s; [constructor|]. cbn [walk_pages_after snd] in *.
  destruct (visitor s (area_call pg p)) as [s1 ok]. destruct ok; cbn [negb]; [|constructor; assumption].
  destruct vb.
  - destruct (area_visit_blocks S visitor pg p s1) as [[s2 tr] res]. constructor.
    + cbn [snd]. apply collect_inv. exact Hx.
    + destruct res; [apply IH|exact Hr].
  - constructor; [exact Hx|apply IH].
Qed.

(* a completed walk with blocks leaves every page collected: nothing on local_free / thread_free *)
Lemma walk_pages_after_complete S visitor pages : Forall (fun x => page_Inv (snd x)) pages ->
  (forall s0 c, snd (visitor s0 c) = true) -> forall s,
  Forall (fun x => local_free (snd x) = [] /\ thread_free (snd x) = []) (walk_pages_after S visitor true pages s).
Proof.
  intros HI Hacc. induction HI as [|[pg p] r Hx Hr IH]; intros s; [constructor|]. cbn [walk_pages_after snd] in *.
  pose proof (Hacc s (area_call pg p)) as Ha. destruct (visitor s (area_call pg p)) as [s1 ok]. cbn in Ha. subst ok. cbn [negb].
  unfold area_visit_blocks. rewrite visit_indices_run.
  destruct (run_calls_accepting S visitor s1 (map (VBlock pg) (page_visit_blocks p)) Hacc) as (s2 & E). rewrite E.
  constructor; [|apply IH]. cbn [snd]. destruct (page_collect_force_complete p Hx) as (Hl & Ht & _). split; assumption.
Qed.
