(* Lemmas about arena purge scheduling (Model/Purge.v): C18 (arena part), C11 forced_collect_purges_arena. *)
From Coq Require Import NArith ZArith Lia Bool List.
From Coq Require Import ZifyN ZifyBool.
From MiV Require Import Gen.Consts Gen.OsConsts Model.Arith Proofs.Base Proofs.BitsProofs Model.Os Model.Mask Model.Purge
  Proofs.OsProofs Proofs.MaskProofs.
Import ListNotations.
Ltac Zify.zify_post_hook ::= Z.div_mod_to_equations.
Local Open Scope N_scope.

(* ------------------------------------------------------------------------------------- *)
(* bit ranges                                                                              *)
(* ------------------------------------------------------------------------------------- *)
Lemma range_mask_bit idx cnt b : N.testbit (range_mask idx cnt) b = (idx <=? b) && (b <? idx + cnt).
Proof. apply range_bit. Qed.
Lemma bm_set_bit bm idx cnt b : N.testbit (bm_set bm idx cnt) b = N.testbit bm b || ((idx <=? b) && (b <? idx + cnt)).
Proof. unfold bm_set. rewrite N.lor_spec, range_mask_bit. reflexivity. Qed.
Lemma bm_clear_bit bm idx cnt b : N.testbit (bm_clear bm idx cnt) b = N.testbit bm b && negb ((idx <=? b) && (b <? idx + cnt)).
Proof. unfold bm_clear. rewrite N.ldiff_spec, range_mask_bit. reflexivity. Qed.

Lemma in_range_b idx cnt b : ((idx <=? b) && (b <? idx + cnt)) = true <-> idx <= b /\ b < idx + cnt.
Proof. rewrite andb_true_iff, N.leb_le, N.ltb_lt. reflexivity. Qed.
Lemma not_in_range_b idx cnt b : ((idx <=? b) && (b <? idx + cnt)) = false <-> b < idx \/ idx + cnt <= b.
Proof. rewrite andb_false_iff, N.leb_gt, N.ltb_ge. reflexivity. Qed.

(* claiming a range whose bits are all clear and releasing it again gives the bitmap back *)
Lemma set_clear_id bm idx cnt : (forall b, idx <= b -> b < idx + cnt -> N.testbit bm b = false) ->
  bm_clear (bm_set bm idx cnt) idx cnt = bm.
Proof.
  intros H. apply N.bits_inj. intros b. rewrite bm_clear_bit, bm_set_bit.
  destruct ((idx <=? b) && (b <? idx + cnt)) eqn:E.
  - apply in_range_b in E. rewrite (H b) by lia. reflexivity.
  - cbn. rewrite orb_false_r, andb_true_r. reflexivity.
Qed.

(* runs of set / clear bits *)
Lemma ones_run_spec n : forall bm i, let L := ones_run n bm i in
  L <= N.of_nat n /\ (forall j, j < L -> N.testbit bm (i + j) = true) /\ (L < N.of_nat n -> N.testbit bm (i + L) = false).
Proof.
  induction n as [|n IH]; intros bm i; cbn [ones_run].
  - cbv zeta. split; [lia|]. split; [intros j Hj; lia|lia].
  - destruct (N.testbit bm i) eqn:B.
    + destruct (IH bm (i + 1)) as (I1 & I2 & I3). cbv zeta. split; [lia|]. split.
      * intros j Hj. destruct (N.eq_dec j 0) as [->|Hne]; [rewrite N.add_0_r; exact B|].
        replace (i + j) with (i + 1 + (j - 1)) by lia. apply I2. lia.
      * intros Hl. replace (i + (1 + ones_run n bm (i + 1))) with (i + 1 + ones_run n bm (i + 1)) by lia. apply I3. lia.
    + cbv zeta. split; [lia|]. split; [intros j Hj; lia|]. intros _. rewrite N.add_0_r. exact B.
Qed.
Lemma zeros_run_spec n : forall bm i, let L := zeros_run n bm i in
  L <= N.of_nat n /\ (forall j, j < L -> N.testbit bm (i + j) = false) /\ (L < N.of_nat n -> N.testbit bm (i + L) = true).
Proof.
  induction n as [|n IH]; intros bm i; cbn [zeros_run].
  - cbv zeta. split; [lia|]. split; [intros j Hj; lia|lia].
  - destruct (N.testbit bm i) eqn:B.
    + cbv zeta. split; [lia|]. split; [intros j Hj; lia|]. intros _. rewrite N.add_0_r. exact B.
    + destruct (IH bm (i + 1)) as (I1 & I2 & I3). cbv zeta. split; [lia|]. split.
      * intros j Hj. destruct (N.eq_dec j 0) as [->|Hne]; [rewrite N.add_0_r; exact B|].
        replace (i + j) with (i + 1 + (j - 1)) by lia. apply I2. lia.
      * intros Hl. replace (i + (1 + zeros_run n bm (i + 1))) with (i + 1 + zeros_run n bm (i + 1)) by lia. apply I3. lia.
Qed.

(* a range of set bits is a single run *)
Lemma runs_aux_all_ones n : forall bm i start len,
  (forall j, j < N.of_nat n -> N.testbit bm (i + j) = true) -> 0 < len + N.of_nat n ->
  runs_aux n bm i start len = [((if len =? 0 then i else start), len + N.of_nat n)].
Proof.
  induction n as [|n IH]; intros bm i start len H Hpos; cbn [runs_aux].
  - assert (E : (0 <? len) = true) by (apply N.ltb_lt; lia). rewrite E.
    assert (E2 : (len =? 0) = false) by (apply N.eqb_neq; lia). rewrite E2. f_equal. f_equal. lia.
  - assert (B : N.testbit bm i = true) by (rewrite <- (N.add_0_r i); apply H; lia). rewrite B.
    rewrite IH.
    + assert (E : (len + 1 =? 0) = false) by (apply N.eqb_neq; lia). rewrite E. f_equal. f_equal. lia.
    + intros j Hj. replace (i + 1 + j) with (i + (j + 1)) by lia. apply H. lia.
    + lia.
Qed.

(* ------------------------------------------------------------------------------------- *)
(* mi_arena_purge, mi_arena_purge_range                                                    *)
(* ------------------------------------------------------------------------------------- *)
Definition aframe (a a' : arena) : Prop :=
  a_start a' = a_start a /\ a_block_count a' = a_block_count a /\ a_field_count a' = a_field_count a /\ a_pinned a' = a_pinned a.
Lemma aframe_refl a : aframe a a.
Proof. repeat split. Qed.
Lemma aframe_trans a b c : aframe a b -> aframe b c -> aframe a c.
Proof. unfold aframe. intros (A1 & A2 & A3 & A4) (B1 & B2 & B3 & B4). repeat split; congruence. Qed.

Section WithOracle.
Variable cfg : oscfg.
Variable oracle : nat -> answer.

Lemma arena_purge_eff o a idx blocks :
  let r := arena_purge cfg oracle o a idx blocks in
  aframe a (snd r) /\ a_inuse (snd r) = a_inuse a /\ a_expire (snd r) = a_expire a /\
  a_purge (snd r) = bm_clear (a_purge a) idx blocks /\
  (a_committed (snd r) = a_committed a \/ a_committed (snd r) = bm_clear (a_committed a) idx blocks) /\
  ((purge_delay cfg < 0)%Z -> fst r = o).
Proof.
  cbv zeta. unfold arena_purge.
  destruct (bm_all_set (a_committed a) idx blocks).
  - destruct (os_purge cfg oracle o (arena_block_start a idx) (wmul blocks BLOCK)) as [o1 nr] eqn:P.
    assert (N : (purge_delay cfg < 0)%Z -> o1 = o).
    { intros H. unfold os_purge in P. rewrite os_purge_ex_neg in P by assumption. congruence. }
    destruct nr; cbn; repeat split; auto.
  - destruct (os_purge_ex cfg oracle o (arena_block_start a idx) (wmul blocks BLOCK) false) as [o1 nr] eqn:P.
    assert (N : (purge_delay cfg < 0)%Z -> o1 = o).
    { intros H. rewrite os_purge_ex_neg in P by assumption. congruence. }
    destruct nr; cbn; repeat split; auto.
Qed.

(* purging a range in which every block is scheduled: one mi_arena_purge of the whole range *)
Lemma arena_purge_range_all o a start len :
  0 < len -> (forall j, j < len -> N.testbit (a_purge a) (start + j) = true) ->
  arena_purge_range cfg oracle o a start len (a_purge a) =
    (fst (arena_purge cfg oracle o a start len), snd (arena_purge cfg oracle o a start len), true).
Proof.
  intros Hl H. unfold arena_purge_range, runs_in.
  rewrite (runs_aux_all_ones (N.to_nat len) (a_purge a) start 0 0).
  - cbn [fold_left fst snd existsb N.eqb]. rewrite N2Nat.id, N.add_0_l.
    destruct (arena_purge cfg oracle o a start len) as [o1 a1]. cbn [fst snd].
    rewrite N.eqb_refl. reflexivity.
  - intros j Hj. rewrite N2Nat.id in Hj. apply H. exact Hj.
  - rewrite N2Nat.id. lia.
Qed.

(* ------------------------------------------------------------------------------------- *)
(* the scan of one bitmap field in mi_arena_try_purge                                      *)
(* ------------------------------------------------------------------------------------- *)
(* after the scan from position pos: every block of the field at or after pos that was scheduled and not in use
   has been purged (its purge bit is cleared), every other purge bit and the in-use bitmap are unchanged *)
Lemma field_scan_spec n : forall o a fbase pos skip any full,
  pos + N.of_nat n = 64 ->
  (forall b, fbase + pos <= b -> b < fbase + pos + skip -> b < fbase + 64 ->
             N.testbit (a_purge a) b && negb (N.testbit (a_inuse a) b) = false) ->
  let r := field_scan cfg oracle n o a fbase pos skip any full in
  let a' := snd (fst (fst r)) in
  aframe a a' /\ a_inuse a' = a_inuse a /\ a_expire a' = a_expire a /\
  (forall b, fbase + pos <= b -> b < fbase + 64 -> N.testbit (a_purge a') b = N.testbit (a_purge a) b && N.testbit (a_inuse a) b) /\
  (forall b, b < fbase + pos \/ fbase + 64 <= b -> N.testbit (a_purge a') b = N.testbit (a_purge a) b) /\
  (full = true -> snd r = true) /\
  ((purge_delay cfg < 0)%Z -> fst (fst (fst r)) = o).
Proof.
  induction n as [|n IH]; intros o a fbase pos skip any full Hn Hskip; cbn [field_scan].
  - cbv zeta. cbn [fst snd]. split; [apply aframe_refl|]. split; [reflexivity|]. split; [reflexivity|].
    split; [intros b B1 B2; lia|]. split; [reflexivity|]. split; auto.
  - destruct (0 <? skip) eqn:Sk.
    + apply N.ltb_lt in Sk.
      destruct (IH o a fbase (pos + 1) (skip - 1) any full ltac:(lia)) as (I1 & I2 & I3 & I4 & I5 & I6 & I7).
      { intros b B1 B2 B3. apply Hskip; lia. }
      cbv zeta in *. split; [exact I1|]. split; [exact I2|]. split; [exact I3|]. split; [|split; [|split; [exact I6|exact I7]]].
      * intros b B1 B2. destruct (N.eq_dec b (fbase + pos)) as [->|Hne].
        { rewrite I5 by lia. specialize (Hskip (fbase + pos) ltac:(lia) ltac:(lia) ltac:(lia)).
          destruct (N.testbit (a_purge a) (fbase + pos)); destruct (N.testbit (a_inuse a) (fbase + pos)); cbn in *; congruence. }
        apply I4; lia.
      * intros b B. apply I5. lia.
    + apply N.ltb_ge in Sk.
      destruct (ones_run_spec (S n) (a_purge a) (fbase + pos)) as (O1 & O2 & O3). cbv zeta in O1, O2, O3.
      set (bitlen := ones_run (S n) (a_purge a) (fbase + pos)) in *.
      destruct (zeros_run_spec (N.to_nat bitlen) (a_inuse a) (fbase + pos)) as (Z1 & Z2 & Z3). cbv zeta in Z1, Z2, Z3.
      rewrite N2Nat.id in Z1, Z3.
      set (claimed := zeros_run (N.to_nat bitlen) (a_inuse a) (fbase + pos)) in *.
      destruct (0 <? claimed) eqn:Cl.
      * apply N.ltb_lt in Cl.
        set (a1 := set_inuse a (bm_set (a_inuse a) (fbase + pos) claimed)).
        rewrite (arena_purge_range_all o a1 (fbase + pos) claimed Cl) by (intros j Hj; cbn; apply O2; lia).
        cbn [fst snd].
        destruct (arena_purge_eff o a1 (fbase + pos) claimed) as (F & E1 & E2 & E3 & _ & E5). cbv zeta in F, E1, E2, E3, E5.
        set (o2 := fst (arena_purge cfg oracle o a1 (fbase + pos) claimed)) in *.
        set (a2 := snd (arena_purge cfg oracle o a1 (fbase + pos) claimed)) in *.
        set (a3 := set_inuse a2 (bm_clear (a_inuse a2) (fbase + pos) claimed)).
        assert (In3 : a_inuse a3 = a_inuse a).
        { unfold a3. cbn [a_inuse set_inuse]. rewrite E1. unfold a1. cbn [a_inuse set_inuse].
          apply set_clear_id. intros b B1 B2. replace b with (fbase + pos + (b - (fbase + pos))) by lia. apply Z2. lia. }
        assert (Pu3 : a_purge a3 = bm_clear (a_purge a) (fbase + pos) claimed) by (unfold a3; cbn; rewrite E3; reflexivity).
        destruct (IH o2 a3 fbase (pos + 1) claimed true (full && true) ltac:(lia)) as (I1 & I2 & I3 & I4 & I5 & I6 & I7).
        { intros b B1 B2 B3. rewrite Pu3, In3, bm_clear_bit.
          destruct (N.lt_ge_cases b (fbase + pos + claimed)) as [Lt|Ge].
          - assert (R : ((fbase + pos <=? b) && (b <? fbase + pos + claimed)) = true) by (apply in_range_b; lia).
            rewrite R. cbn. rewrite andb_false_r. reflexivity.
          - assert (b = fbase + pos + claimed) by lia. subst b.
            destruct (N.lt_ge_cases claimed bitlen) as [L2|G2].
            + rewrite (Z3 L2). cbn. apply andb_false_r.
            + assert (claimed = bitlen) by lia.
              assert (bitlen < N.of_nat (S n)) by lia.
              replace (fbase + pos + claimed) with (fbase + pos + bitlen) by lia.
              rewrite (O3 ltac:(assumption)). reflexivity. }
        cbv zeta in *.
        assert (F3 : aframe a a3).
        { unfold a3. destruct F as (F1 & F2 & F3 & F4). unfold a1 in *. cbn in *. repeat split; assumption. }
        split; [eapply aframe_trans; eassumption|]. split; [congruence|].
        split; [rewrite I3; unfold a3; cbn; rewrite E2; reflexivity|].
        split; [|split; [|split]].
        -- intros b B1 B2. destruct (N.eq_dec b (fbase + pos)) as [->|Hne].
           { rewrite I5 by lia. rewrite Pu3, bm_clear_bit.
             assert (R : ((fbase + pos <=? fbase + pos) && (fbase + pos <? fbase + pos + claimed)) = true) by (apply in_range_b; lia).
             rewrite R. cbn. rewrite andb_false_r.
             specialize (Z2 0 Cl). rewrite N.add_0_r in Z2. rewrite Z2. rewrite andb_false_r. reflexivity. }
           rewrite I4 by lia. rewrite Pu3, In3, bm_clear_bit.
           destruct ((fbase + pos <=? b) && (b <? fbase + pos + claimed)) eqn:R.
           ++ apply in_range_b in R.
              assert (T : N.testbit (a_inuse a) b = false).
              { replace b with (fbase + pos + (b - (fbase + pos))) by lia. apply Z2. lia. }
              rewrite T. cbn. rewrite !andb_false_r. reflexivity.
           ++ cbn. rewrite andb_true_r. reflexivity.
        -- intros b B. rewrite I5 by lia. rewrite Pu3, bm_clear_bit.
           assert (R : ((fbase + pos <=? b) && (b <? fbase + pos + claimed)) = false) by (apply not_in_range_b; lia).
           rewrite R. cbn. apply andb_true_r.
        -- intros Hf. apply I6. rewrite Hf. reflexivity.
        -- intros Hneg. rewrite I7 by assumption. unfold o2. apply E5. assumption.
      * apply N.ltb_ge in Cl. assert (Cl0 : claimed = 0) by lia.
        destruct (IH o a fbase (pos + 1) 0 any full ltac:(lia)) as (I1 & I2 & I3 & I4 & I5 & I6 & I7).
        { intros b B1 B2 B3. lia. }
        cbv zeta in *. split; [exact I1|]. split; [exact I2|]. split; [exact I3|]. split; [|split; [|split; [exact I6|exact I7]]].
        -- intros b B1 B2. destruct (N.eq_dec b (fbase + pos)) as [->|Hne].
           { rewrite I5 by lia.
             destruct (N.eq_dec bitlen 0) as [B0|Bn].
             - assert (T : N.testbit (a_purge a) (fbase + pos) = false).
               { assert (O3' := O3 ltac:(lia)). rewrite B0, N.add_0_r in O3'. exact O3'. }
               rewrite T. reflexivity.
             - assert (T : N.testbit (a_inuse a) (fbase + pos) = true).
               { assert (Z3' := Z3 ltac:(lia)). rewrite Cl0, N.add_0_r in Z3'. exact Z3'. }
               rewrite T. rewrite andb_true_r. reflexivity. }
           apply I4; lia.
        -- intros b B. apply I5. lia.
Qed.
End WithOracle.

Section WithOracle3.
Variable cfg : oscfg.
Variable oracle : nat -> answer.

Lemma BFIELD_val : BFIELD = 64.
Proof. reflexivity. Qed.
Lemma BFIELD_nat_N : N.of_nat BFIELD_nat = 64.
Proof. reflexivity. Qed.

Lemma field_word_zero bm i : N.land (N.shiftr bm (i * BFIELD)) (N.ones BFIELD) = 0 ->
  forall b, i * 64 <= b -> b < i * 64 + 64 -> N.testbit bm b = false.
Proof.
  intros H b B1 B2. rewrite BFIELD_val in H.
  assert (T : N.testbit (N.land (N.shiftr bm (i * 64)) (N.ones 64)) (b - i * 64) = false) by (rewrite H; apply N.bits_0).
  rewrite N.land_spec, N.shiftr_spec', N.ones_spec_low in T by lia.
  rewrite andb_true_r in T. replace (b - i * 64 + i * 64) with b in T by lia. exact T.
Qed.

(* the loop over the fields i, i+1, ..., i+n-1 *)
Lemma fields_loop_spec n : forall o a i any full,
  let r := fields_loop cfg oracle n o a i any full in
  let a' := snd (fst (fst r)) in
  aframe a a' /\ a_inuse a' = a_inuse a /\ a_expire a' = a_expire a /\
  (forall b, i * 64 <= b -> b < (i + N.of_nat n) * 64 -> N.testbit (a_purge a') b = N.testbit (a_purge a) b && N.testbit (a_inuse a) b) /\
  (forall b, b < i * 64 \/ (i + N.of_nat n) * 64 <= b -> N.testbit (a_purge a') b = N.testbit (a_purge a) b) /\
  (full = true -> snd r = true) /\
  ((purge_delay cfg < 0)%Z -> fst (fst (fst r)) = o).
Proof.
  induction n as [|n IH]; intros o a i any full; cbn [fields_loop].
  - cbv zeta. cbn [fst snd]. split; [apply aframe_refl|]. split; [reflexivity|]. split; [reflexivity|].
    split; [intros b B1 B2; lia|]. split; [reflexivity|]. split; auto.
  - destruct (N.land (N.shiftr (a_purge a) (i * BFIELD)) (N.ones BFIELD) =? 0) eqn:Z.
    + apply N.eqb_eq in Z. pose proof (field_word_zero _ _ Z) as Hz.
      destruct (IH o a (i + 1) any full) as (I1 & I2 & I3 & I4 & I5 & I6 & I7). cbv zeta in *.
      split; [exact I1|]. split; [exact I2|]. split; [exact I3|]. split; [|split; [|split; [exact I6|exact I7]]].
      * intros b B1 B2. destruct (N.lt_ge_cases b (i * 64 + 64)) as [L|G].
        { rewrite I5 by lia. rewrite (Hz b) by lia. reflexivity. }
        apply I4; lia.
      * intros b B. apply I5. lia.
    + destruct (field_scan_spec cfg oracle BFIELD_nat o a (i * BFIELD) 0 0 any full) as (S1 & S2 & S3 & S4 & S5 & S6 & S7).
      { rewrite BFIELD_nat_N. reflexivity. }
      { intros b B1 B2 B3. lia. }
      cbv zeta in S1, S2, S3, S4, S5, S6, S7. rewrite BFIELD_val in *.
      destruct (field_scan cfg oracle BFIELD_nat o a (i * 64) 0 0 any full) as [[[o1 a1] any1] full1]. cbn [fst snd] in *.
      destruct (IH o1 a1 (i + 1) any1 full1) as (I1 & I2 & I3 & I4 & I5 & I6 & I7). cbv zeta in *.
      split; [eapply aframe_trans; eassumption|]. split; [congruence|]. split; [congruence|].
      split; [|split; [|split]].
      * intros b B1 B2. destruct (N.lt_ge_cases b (i * 64 + 64)) as [L|G].
        { rewrite I5 by lia. apply S4; lia. }
        rewrite I4 by lia. rewrite S5 by lia. rewrite S2. reflexivity.
      * intros b B. rewrite I5 by lia. apply S5. lia.
      * intros Hf. apply I6. apply S6. exact Hf.
      * intros Hn. rewrite I7 by assumption. apply S7. assumption.
Qed.

(* ------------------------------------------------------------------------------------- *)
(* mi_arena_try_purge                                                                      *)
(* ------------------------------------------------------------------------------------- *)
Definition arena_idle (a : arena) (now : Z) : Prop := a_pinned a = true \/ a_expire a = 0%Z \/ (now < a_expire a)%Z.

Lemma arena_try_purge_idle o a now : arena_idle a now -> arena_try_purge cfg oracle o a now false = (o, a, false).
Proof.
  intros H. unfold arena_try_purge. destruct (a_pinned a) eqn:P; [reflexivity|].
  destruct H as [H|[H|H]]; [congruence|rewrite H; reflexivity|].
  apply Z.ltb_lt in H. rewrite H. rewrite orb_true_r. reflexivity.
Qed.

(* expired (or forced): exactly the scheduled blocks that are not in use are purged; the expiry is reset *)
Lemma arena_try_purge_spec o a now force :
  a_pinned a = false -> force = true \/ (a_expire a <> 0%Z /\ (a_expire a <= now)%Z) ->
  let r := arena_try_purge cfg oracle o a now force in
  let a' := snd (fst r) in
  aframe a a' /\ a_inuse a' = a_inuse a /\ a_expire a' = 0%Z /\
  (forall b, b < a_field_count a * 64 -> N.testbit (a_purge a') b = N.testbit (a_purge a) b && N.testbit (a_inuse a) b) /\
  (forall b, a_field_count a * 64 <= b -> N.testbit (a_purge a') b = N.testbit (a_purge a) b) /\
  ((purge_delay cfg < 0)%Z -> fst (fst r) = o).
Proof.
  intros Hp Hw. cbv zeta. unfold arena_try_purge. rewrite Hp.
  assert (E : negb force && ((a_expire a =? 0)%Z || (now <? a_expire a)%Z) = false).
  { destruct Hw as [->|[H1 H2]]; [reflexivity|]. apply andb_false_intro2. apply orb_false_intro; [apply Z.eqb_neq|apply Z.ltb_ge]; assumption. }
  rewrite E.
  destruct (fields_loop_spec (N.to_nat (a_field_count a)) o (set_aexpire a 0%Z) 0 false true) as (S1 & S2 & S3 & S4 & S5 & S6 & S7).
  cbv zeta in *. rewrite N2Nat.id in *.
  destruct (fields_loop cfg oracle (N.to_nat (a_field_count a)) o (set_aexpire a 0%Z) 0 false true) as [[[o1 a1] any1] full1].
  cbn [fst snd] in *. rewrite (S6 eq_refl). cbn [negb andb fst snd].
  split; [exact S1|]. split; [exact S2|]. split; [exact S3|]. split; [|split].
  - intros b B. apply S4; lia.
  - intros b B. apply S5. lia.
  - exact S7.
Qed.

(* ------------------------------------------------------------------------------------- *)
(* mi_arenas_try_purge                                                                     *)
(* ------------------------------------------------------------------------------------- *)
Lemma arenas_loop_idle_prefix pre : forall o a post now cnt, Forall (fun x => arena_idle x now) pre ->
  exists pp, arenas_loop cfg oracle o (pre ++ a :: post) now false cnt =
    (let '(o1, l1, v, p) := arenas_loop cfg oracle o (a :: post) now false cnt in (o1, pre ++ l1, v, pp || p)).
Proof.
  induction pre as [|x pre IH]; intros o a post now cnt H.
  - exists false. cbn [app]. destruct (arenas_loop cfg oracle o (a :: post) now false cnt) as [[[o1 l1] v] p]. reflexivity.
  - inversion H as [|x' pre' Hx Hpre]; subst.
    destruct (IH o a post now cnt Hpre) as [pp IHe].
    remember (arenas_loop cfg oracle o (a :: post) now false cnt) as R eqn:HR.
    exists (negb (a_expire x =? 0)%Z || pp).
    cbn [app]. change (arenas_loop cfg oracle o (x :: pre ++ a :: post) now false cnt) with
      (let '(o1, a1, purged) := arena_try_purge cfg oracle o x now false in
       let pending := negb (a_expire a1 =? 0)%Z in
       if purged then
         if cnt <=? 1 then (o1, a1 :: (pre ++ a :: post), false, pending)
         else let '(o2, rest', v, p) := arenas_loop cfg oracle o1 (pre ++ a :: post) now false (cnt - 1) in (o2, a1 :: rest', v, pending || p)
       else let '(o2, rest', v, p) := arenas_loop cfg oracle o1 (pre ++ a :: post) now false cnt in (o2, a1 :: rest', v, pending || p)).
    rewrite (arena_try_purge_idle o x now Hx). cbv zeta.
    rewrite IHe.
    destruct R as [[[o1 l1] v] p]. rewrite orb_assoc. reflexivity.
Qed.

(* C18 arena_purge_after_delay (one pass): the global expiry has passed and arena `a` (the first arena of the list
   that is not idle) has expired: a NON-forced mi_arenas_try_purge purges exactly its scheduled blocks that are not
   in use *)
Lemma arena_purge_after_delay o g pre a post now visit_all :
  (0 < arena_purge_delay cfg)%Z -> g <> 0%Z -> (g <= now)%Z ->
  Forall (fun x => arena_idle x now) pre ->
  a_pinned a = false -> a_expire a <> 0%Z -> (a_expire a <= now)%Z ->
  exists a' post',
    snd (arenas_try_purge cfg oracle o g (pre ++ a :: post) now false visit_all) = pre ++ a' :: post' /\
    a' = snd (fst (arena_try_purge cfg oracle o a now false)) /\
    a_inuse a' = a_inuse a /\ a_expire a' = 0%Z /\
    (forall b, b < a_field_count a * 64 -> N.testbit (a_purge a') b = N.testbit (a_purge a) b && N.testbit (a_inuse a) b).
Proof.
  intros Hd Hg Hgn Hpre Hp He Hen. unfold arenas_try_purge.
  assert (E1 : (arena_purge_delay cfg <=? 0)%Z = false) by (apply Z.leb_gt; assumption). rewrite E1.
  assert (E2 : negb false && ((g =? 0)%Z || (now <? g)%Z) = false).
  { cbn [negb andb]. apply orb_false_intro; [apply Z.eqb_neq|apply Z.ltb_ge]; assumption. }
  rewrite E2.
  destruct (pre ++ a :: post) eqn:L; [destruct pre; discriminate|]. rewrite <- L.
  destruct (arenas_loop_idle_prefix pre o a post now (if visit_all then N.of_nat (length (pre ++ a :: post)) else 2) Hpre) as [pp ->].
  cbn [arenas_loop].
  destruct (arena_try_purge_spec o a now false Hp (or_intror (conj He Hen))) as (S1 & S2 & S3 & S4 & _). cbv zeta in *.
  destruct (arena_try_purge cfg oracle o a now false) as [[o1 a1] purged]. cbn [fst snd] in *.
  destruct purged.
  - destruct ((if visit_all then N.of_nat (length (pre ++ a :: post)) else 2) <=? 1).
    + exists a1, post. cbn. repeat split; assumption.
    + destruct (arenas_loop cfg oracle o1 post now false ((if visit_all then N.of_nat (length (pre ++ a :: post)) else 2) - 1)) as [[[o2 post'] v] p].
      exists a1, post'. cbn. repeat split; assumption.
  - destruct (arenas_loop cfg oracle o1 post now false (if visit_all then N.of_nat (length (pre ++ a :: post)) else 2)) as [[[o2 post'] v] p].
    exists a1, post'. cbn. repeat split; assumption.
Qed.

(* C18 delay_neg_never / delay 0, arenas *)
Lemma arena_schedule_neg o g a idx blocks now : (arena_purge_delay cfg < 0)%Z ->
  arena_schedule_purge cfg oracle o g a idx blocks now = (o, g, a).
Proof. intros H. unfold arena_schedule_purge. apply Z.ltb_lt in H. rewrite H. reflexivity. Qed.

Lemma arena_schedule_delay0 o g a idx blocks now : arena_purge_delay cfg = 0%Z ->
  arena_schedule_purge cfg oracle o g a idx blocks now =
    (fst (arena_purge cfg oracle o a idx blocks), g, snd (arena_purge cfg oracle o a idx blocks)).
Proof.
  intros H. unfold arena_schedule_purge. rewrite H. cbn.
  destruct (arena_purge cfg oracle o a idx blocks). reflexivity.
Qed.

Lemma arenas_try_purge_nonpos o g l now force visit_all : (arena_purge_delay cfg <= 0)%Z ->
  arenas_try_purge cfg oracle o g l now force visit_all = (o, g, l).
Proof. intros H. unfold arenas_try_purge. apply Z.leb_le in H. rewrite H. reflexivity. Qed.

(* with a global expiry of 0 a non-forced pass does nothing: an arena whose own expiry is still set is then
   never purged by non-forced activity *)
Lemma arenas_try_purge_g0 o l now visit_all : arenas_try_purge cfg oracle o 0%Z l now false visit_all = (o, 0%Z, l).
Proof. unfold arenas_try_purge. destruct (arena_purge_delay cfg <=? 0)%Z; reflexivity. Qed.

Lemma collects_g0 : forall (ts : list Z) st, p_g st = 0%Z ->
  prun cfg oracle st (map (fun t => (PCollect false, t)) ts) = st.
Proof.
  induction ts as [|t ts IH]; intros st Hg; [reflexivity|].
  cbn [map prun fold_left]. unfold pstep at 2. cbn [fst snd]. unfold arenas_collect.
  destruct st as [o g l]. cbn in Hg. subst g. cbn [p_os p_g p_arenas]. rewrite arenas_try_purge_g0.
  apply (IH {| p_os := o; p_g := 0%Z; p_arenas := l |}). reflexivity.
Qed.

End WithOracle3.

(* ------------------------------------------------------------------------------------- *)
(* the expiry fields: global mi_arenas_purge_expire vs per-arena purge_expire               *)
(* ------------------------------------------------------------------------------------- *)
(* whenever some arena has a pending expiry, the global expiry is set *)
Definition expiry_consistent_gl (g : Z) (l : list arena) : Prop := forall a, In a l -> a_expire a <> 0%Z -> g <> 0%Z.
Definition expiry_consistent (st : pstate_) : Prop := expiry_consistent_gl (p_g st) (p_arenas st).

Definition times_nonneg (h : list (pop * Z)) : bool := forallb (fun x => (0 <=? snd x)%Z) h.

Lemma prun_app cfg oracle st h1 h2 : prun cfg oracle st (h1 ++ h2) = prun cfg oracle (prun cfg oracle st h1) h2.
Proof. unfold prun. apply fold_left_app. Qed.

Lemma Forall2_in_r {A B} (R : A -> B -> Prop) l l' y : Forall2 R l l' -> In y l' -> exists x, In x l /\ R x y.
Proof.
  intros F. induction F as [|x y' l l' Hxy F IH]; intros I; [destruct I|].
  destruct I as [<-|I]; [exists x; split; [left; reflexivity|assumption]|].
  destruct (IH I) as (x0 & X1 & X2). exists x0. split; [right; assumption|assumption].
Qed.
Lemma Forall2_in_l {A B} (R : A -> B -> Prop) l l' x : Forall2 R l l' -> In x l -> exists y, In y l' /\ R x y.
Proof.
  intros F. induction F as [|x' y l l' Hxy F IH]; intros I; [destruct I|].
  destruct I as [<-|I]; [exists y; split; [left; reflexivity|assumption]|].
  destruct (IH I) as (y0 & X1 & X2). exists y0. split; [right; assumption|assumption].
Qed.

Lemma update_nth_in {A} n (l : list A) x y : In y (update_nth n l x) -> y = x \/ In y l.
Proof.
  revert n. induction l as [|h t IH]; intros n I; [destruct n; destruct I|].
  destruct n as [|n]; cbn in I.
  - destruct I as [<-|I]; [left; reflexivity|right; right; assumption].
  - destruct I as [<-|I]; [right; left; reflexivity|]. destruct (IH n I) as [->|I2]; [left; reflexivity|right; right; assumption].
Qed.

Section WithOracle5.
Variable cfg : oscfg.
Variable oracle : nat -> answer.

(* what one visit of mi_arena_try_purge leaves behind *)
Definition visited (force : bool) (now : Z) (a a' : arena) : Prop :=
  (a' = a /\ (a_pinned a = true \/ (force = false /\ (a_expire a = 0%Z \/ (now < a_expire a)%Z)))) \/
  (a_pinned a = false /\ (force = true \/ (a_expire a <> 0%Z /\ (a_expire a <= now)%Z)) /\
   aframe a a' /\ a_inuse a' = a_inuse a /\ a_expire a' = 0%Z /\
   (forall b, b < a_field_count a * 64 -> N.testbit (a_purge a') b = N.testbit (a_purge a) b && N.testbit (a_inuse a) b) /\
   (forall b, a_field_count a * 64 <= b -> N.testbit (a_purge a') b = N.testbit (a_purge a) b)).

Lemma arena_try_purge_visited o a now force : visited force now a (snd (fst (arena_try_purge cfg oracle o a now force))).
Proof.
  destruct (a_pinned a) eqn:P.
  - left. unfold arena_try_purge. rewrite P. cbn. auto.
  - destruct force.
    + right. destruct (arena_try_purge_spec cfg oracle o a now true P (or_introl eq_refl)) as (S1 & S2 & S3 & S4 & S5 & _).
      cbv zeta in *. exact (conj P (conj (or_introl eq_refl) (conj S1 (conj S2 (conj S3 (conj S4 S5)))))).
    + destruct (Z.eq_dec (a_expire a) 0) as [Z|NZ].
      { left. rewrite arena_try_purge_idle by (right; left; assumption). cbn. auto. }
      destruct (Z.lt_ge_cases now (a_expire a)) as [L|G].
      { left. rewrite arena_try_purge_idle by (right; right; assumption). cbn. auto. }
      right. destruct (arena_try_purge_spec cfg oracle o a now false P (or_intror (conj NZ G))) as (S1 & S2 & S3 & S4 & S5 & _).
      cbv zeta in *. exact (conj P (conj (or_intror (conj NZ G)) (conj S1 (conj S2 (conj S3 (conj S4 S5)))))).
Qed.

(* the loop: a prefix of the list is visited, the rest is untouched; all_visited = true means all were visited;
   any_pending = false means no visited arena has an expiry left *)
Lemma arenas_loop_visited : forall l o now force cnt,
  let r := arenas_loop cfg oracle o l now force cnt in
  exists l1 l2 l1', l = l1 ++ l2 /\ snd (fst (fst r)) = l1' ++ l2 /\ Forall2 (visited force now) l1 l1' /\
                    (snd (fst r) = true -> l2 = []) /\ (N.of_nat (length l) <= cnt -> l2 = []) /\
                    (snd r = false -> forall a', In a' l1' -> a_expire a' = 0%Z).
Proof.
  induction l as [|a l IH]; intros o now force cnt; cbn [arenas_loop].
  - cbv zeta. exists [], [], []. cbn. repeat split; auto. intros _ a' [].
  - pose proof (arena_try_purge_visited o a now force) as V.
    destruct (arena_try_purge cfg oracle o a now force) as [[o1 a1] purged]. cbn [fst snd] in V. cbv zeta.
    assert (PE : forall q, negb (a_expire a1 =? 0)%Z || q = false -> a_expire a1 = 0%Z /\ q = false).
    { intros q H. apply orb_false_elim in H as [H1 H2]. apply negb_false_iff in H1. apply Z.eqb_eq in H1. auto. }
    destruct purged.
    + destruct (cnt <=? 1) eqn:C.
      * apply N.leb_le in C. cbn [fst snd]. exists [a], l, [a1]. cbn [app]. split; [reflexivity|]. split; [reflexivity|].
        split; [constructor; [assumption|constructor]|]. split; [discriminate|]. split.
        -- intros Hl. cbn [length] in Hl. destruct l; [reflexivity|]. cbn [length] in Hl. lia.
        -- intros H a' [<-|[]]. apply negb_false_iff in H. apply Z.eqb_eq in H. exact H.
      * apply N.leb_gt in C. destruct (IH o1 now force (cnt - 1)) as (l1 & l2 & l1' & E1 & E2 & F & V1 & V2 & V3). cbv zeta in *.
        destruct (arenas_loop cfg oracle o1 l now force (cnt - 1)) as [[[o2 rest'] v] p]. cbn [fst snd] in *.
        exists (a :: l1), l2, (a1 :: l1'). cbn [app]. split; [congruence|]. split; [congruence|].
        split; [constructor; assumption|]. split; [assumption|]. split; [intros Hl; apply V2; cbn [length] in Hl; lia|].
        intros H a' Ha'. destruct (PE p H) as [X1 X2]. destruct Ha' as [<-|Ha']; [exact X1|apply V3; assumption].
    + destruct (IH o1 now force cnt) as (l1 & l2 & l1' & E1 & E2 & F & V1 & V2 & V3). cbv zeta in *.
      destruct (arenas_loop cfg oracle o1 l now force cnt) as [[[o2 rest'] v] p]. cbn [fst snd] in *.
      exists (a :: l1), l2, (a1 :: l1'). cbn [app]. split; [congruence|]. split; [congruence|].
      split; [constructor; assumption|]. split; [assumption|]. split; [intros Hl; apply V2; cbn [length] in Hl; lia|].
      intros H a' Ha'. destruct (PE p H) as [X1 X2]. destruct Ha' as [<-|Ha']; [exact X1|apply V3; assumption].
Qed.

(* C11 forced_collect_purges_arena: after a forced mi_arenas_try_purge (purge delay > 0) every arena has been
   visited: in every arena that can be purged no scheduled block remains unless it is in use *)
Lemma forced_collect_purges_arena o g l now :
  (0 < arena_purge_delay cfg)%Z ->
  let l' := snd (arenas_try_purge cfg oracle o g l now true true) in
  Forall2 (visited true now) l l' /\
  forall a', In a' l' -> a_pinned a' = false ->
             forall b, b < a_field_count a' * 64 -> N.testbit (a_purge a') b = true -> N.testbit (a_inuse a') b = true.
Proof.
  intros Hd. cbv zeta. unfold arenas_try_purge.
  assert (E1 : (arena_purge_delay cfg <=? 0)%Z = false) by (apply Z.leb_gt; assumption). rewrite E1. cbn [negb andb].
  assert (F : Forall2 (visited true now) l
                (snd (match l with
                      | [] => (o, g, l)
                      | _ :: _ => let '(o1, l1, all_visited, any_pending) := arenas_loop cfg oracle o l now true (N.of_nat (length l)) in
                                  (o1, if all_visited && negb any_pending then 0%Z else (now + arena_purge_delay cfg)%Z, l1)
                      end))).
  { destruct l as [|a l]; [constructor|].
    destruct (arenas_loop_visited (a :: l) o now true (N.of_nat (length (a :: l)))) as (l1 & l2 & l1' & E & E2 & F & _ & V2 & _).
    cbv zeta in *. specialize (V2 (N.le_refl _)). subst l2. rewrite app_nil_r in E, E2.
    destruct (arenas_loop cfg oracle o (a :: l) now true (N.of_nat (length (a :: l)))) as [[[o1 l1''] v] p]. cbn [fst snd] in *.
    subst. exact F. }
  split; [exact F|].
  intros a' Ha' Hp b Hb Hpu.
  destruct (Forall2_in_r _ _ _ _ F Ha') as (a & Ha & [(-> & [P|(Fa & _)])|(P & _ & (_ & _ & Fc & _) & Iu & _ & Pu & _)]).
  - congruence.
  - discriminate.
  - rewrite <- Fc in Pu. rewrite (Pu b Hb) in Hpu. apply andb_prop in Hpu as [_ H]. rewrite Iu. exact H.
Qed.

(* ---- C18 expiry_fields_consistent (repaired code): an invariant of every history ---- *)
Lemma arena_alloc_at_expire o a idx blocks commit :
  let a' := snd (fst (arena_alloc_at oracle o a idx blocks commit)) in a_expire a' = a_expire a /\ a_pinned a' = a_pinned a.
Proof.
  cbv zeta. unfold arena_alloc_at. destruct (a_pinned a) eqn:P; [cbn; auto|].
  destruct commit.
  - destruct (negb (bm_all_set _ idx blocks)); [|cbn; auto].
    destruct (os_commit oracle o (arena_block_start a idx) (wmul blocks BLOCK)) as [o1 ok]; destruct ok; cbn; auto.
  - destruct (negb (bm_all_set _ idx blocks) && (0 <? bm_count _ idx blocks)); cbn; auto.
Qed.

Lemma arenas_try_purge_consistent o g l now force visit_all :
  (0 <= now)%Z -> expiry_consistent_gl g l ->
  let r := arenas_try_purge cfg oracle o g l now force visit_all in
  expiry_consistent_gl (snd (fst r)) (snd r).
Proof.
  intros Hn Hc. cbv zeta. unfold arenas_try_purge.
  destruct (arena_purge_delay cfg <=? 0)%Z eqn:D; [exact Hc|]. apply Z.leb_gt in D.
  destruct (negb force && ((g =? 0)%Z || (now <? g)%Z)); [exact Hc|].
  destruct l as [|a0 l]; [exact Hc|].
  destruct (arenas_loop_visited (a0 :: l) o now force (if visit_all then N.of_nat (length (a0 :: l)) else 2))
    as (l1 & l2 & l1' & E & E2 & F & V1 & _ & V3). cbv zeta in *.
  destruct (arenas_loop cfg oracle o (a0 :: l) now force (if visit_all then N.of_nat (length (a0 :: l)) else 2)) as [[[o1 l'] v] p].
  cbn [fst snd] in *.
  destruct (v && negb p) eqn:R; [|intros a _ _; lia].
  apply andb_prop in R as [R1 R2]. apply negb_true_iff in R2. subst v p.
  rewrite (V1 eq_refl), app_nil_r in E2. subst l'.
  intros a' Ha' Hx. exfalso. apply Hx. apply V3; [reflexivity|assumption].
Qed.

Lemma arena_free_consistent o g l ai idx blocks ac now :
  (0 <= now)%Z -> expiry_consistent_gl g l ->
  let r := arena_free cfg oracle o g l ai idx blocks ac now in
  expiry_consistent_gl (snd (fst r)) (snd r).
Proof.
  intros Hn Hc. cbv zeta. unfold arena_free. destruct (nth_error l ai) as [a|] eqn:N; [|exact Hc].
  assert (Hin : In a l) by (eapply nth_error_In; eassumption).
  set (a0 := if negb ac then set_committed a (bm_clear (a_committed a) idx blocks) else a).
  assert (A0 : a_expire a0 = a_expire a) by (unfold a0; destruct ac; reflexivity).
  (* the state after the scheduling step *)
  assert (S : forall o1 g1 a1, (if a_pinned a then (o, g, a) else arena_schedule_purge cfg oracle o g a0 idx blocks now) = (o1, g1, a1) ->
              (a_expire a1 <> 0%Z -> g1 <> 0%Z) /\ (g <> 0%Z -> g1 <> 0%Z)).
  { intros o1 g1 a1 E. destruct (a_pinned a).
    - injection E as <- <- <-. split; [apply Hc; assumption|auto].
    - unfold arena_schedule_purge in E. destruct (arena_purge_delay cfg <? 0)%Z eqn:D1.
      + injection E as <- <- <-. rewrite A0. split; [apply Hc; assumption|auto].
      + apply Z.ltb_ge in D1. destruct (arena_purge_delay cfg =? 0)%Z eqn:D2.
        * destruct (arena_purge_eff cfg oracle o a0 idx blocks) as (_ & _ & X & _). cbv zeta in X.
          destruct (arena_purge cfg oracle o a0 idx blocks) as [o2 a2]. injection E as <- <- <-. cbn [snd] in X.
          rewrite X, A0. split; [apply Hc; assumption|auto].
        * apply Z.eqb_neq in D2. destruct (a_expire a0 =? 0)%Z eqn:Z0.
          -- destruct (g =? 0)%Z eqn:G0; injection E as <- <- <-; cbn; [split; intros; lia|].
             apply Z.eqb_neq in G0. split; auto.
          -- apply Z.eqb_neq in Z0. injection E as <- <- <-. cbn. rewrite A0 in *. split; [intros _; apply (Hc a Hin Z0)|auto]. }
  destruct (if a_pinned a then (o, g, a) else arena_schedule_purge cfg oracle o g a0 idx blocks now) as [[o1 g1] a1] eqn:E.
  destruct (S o1 g1 a1 eq_refl) as [S1 S2].
  set (a2 := set_inuse a1 (bm_clear (a_inuse a1) idx blocks)).
  assert (C2 : expiry_consistent_gl g1 (update_nth ai l a2)).
  { intros x Hx Hxe. apply update_nth_in in Hx as [->|Hx]; [apply S1; exact Hxe|]. apply S2. apply (Hc x Hx Hxe). }
  destruct (negb (bm_all_set (a_inuse a1) idx blocks)); [exact C2|].
  apply arenas_try_purge_consistent; assumption.
Qed.

Lemma pstep_consistent st op t : (0 <= t)%Z -> expiry_consistent st -> expiry_consistent (pstep cfg oracle st op t).
Proof.
  intros Ht Hc. destruct st as [o g l]. unfold expiry_consistent in *. cbn [p_g p_arenas] in Hc.
  destruct op as [ai idx blocks ac|ai idx blocks commit|force]; unfold pstep; cbn [p_os p_g p_arenas].
  - pose proof (arena_free_consistent o g l ai idx blocks ac t Ht Hc) as X. cbv zeta in X.
    destruct (arena_free cfg oracle o g l ai idx blocks ac t) as [[o1 g1] l1]. exact X.
  - destruct (nth_error l ai) as [a|] eqn:N; [|exact Hc].
    destruct (bm_none_set (a_inuse a) idx blocks); [|exact Hc].
    destruct (arena_alloc_at_expire o a idx blocks commit) as [X1 _]. cbv zeta in X1.
    destruct (arena_alloc_at oracle o a idx blocks commit) as [[o1 a1] ic]. cbn [fst snd p_g p_arenas] in *.
    intros x Hx Hxe. apply update_nth_in in Hx as [->|Hx]; [|apply (Hc x Hx Hxe)].
    rewrite X1 in Hxe. apply (Hc a (nth_error_In _ _ N) Hxe).
  - unfold arenas_collect. pose proof (arenas_try_purge_consistent o g l t force force Ht Hc) as X. cbv zeta in X.
    destruct (arenas_try_purge cfg oracle o g l t force force) as [[o1 g1] l1]. exact X.
Qed.

(* C18 expiry_fields_consistent: for every history of frees, allocations, forced and non-forced collects *)
Lemma expiry_fields_consistent : forall h st, times_nonneg h = true -> expiry_consistent st -> expiry_consistent (prun cfg oracle st h).
Proof.
  induction h as [|[op t] h IH]; intros st Ht Hc; [exact Hc|].
  cbn [times_nonneg forallb snd] in Ht. apply andb_prop in Ht as [Ht1 Ht2]. apply Z.leb_le in Ht1.
  cbn [prun fold_left fst snd]. apply IH; [exact Ht2|]. apply pstep_consistent; assumption.
Qed.

(* a non-forced pass that runs either visits every arena (every expired one is purged) or leaves the global expiry armed *)
Lemma pass_visits_all_or_rearms o g l now visit_all :
  (0 < arena_purge_delay cfg)%Z -> g <> 0%Z -> (g <= now)%Z ->
  let r := arenas_try_purge cfg oracle o g l now false visit_all in
  Forall2 (visited false now) l (snd r) \/ snd (fst r) = (now + arena_purge_delay cfg)%Z.
Proof.
  intros Hd Hg Hgn. cbv zeta. unfold arenas_try_purge.
  assert (E1 : (arena_purge_delay cfg <=? 0)%Z = false) by (apply Z.leb_gt; assumption). rewrite E1.
  assert (E2 : negb false && ((g =? 0)%Z || (now <? g)%Z) = false).
  { cbn [negb andb]. apply orb_false_intro; [apply Z.eqb_neq|apply Z.ltb_ge]; assumption. }
  rewrite E2. destruct l as [|a0 l]; [left; constructor|].
  destruct (arenas_loop_visited (a0 :: l) o now false (if visit_all then N.of_nat (length (a0 :: l)) else 2))
    as (l1 & l2 & l1' & E & E3 & F & V1 & _ & _). cbv zeta in *.
  destruct (arenas_loop cfg oracle o (a0 :: l) now false (if visit_all then N.of_nat (length (a0 :: l)) else 2)) as [[[o1 l'] v] p].
  cbn [fst snd] in *. destruct v; [|right; reflexivity].
  left. rewrite (V1 eq_refl), app_nil_r in E, E3. subst. exact F.
Qed.

(* the "one extra delay period" clause: an arena whose own expiry has not passed when the pass runs stays scheduled,
   the global expiry is re-armed to now+delay, and (the arena having been scheduled no later than now) its own expiry
   will have passed when the global one passes again *)
Lemma pass_keeps_armed o g l now visit_all a :
  (0 < arena_purge_delay cfg)%Z -> g <> 0%Z -> (g <= now)%Z ->
  In a l -> a_expire a <> 0%Z -> (now < a_expire a)%Z ->
  let r := arenas_try_purge cfg oracle o g l now false visit_all in
  snd (fst r) = (now + arena_purge_delay cfg)%Z /\ In a (snd r) /\
  ((a_expire a <= now + arena_purge_delay cfg)%Z -> (a_expire a <= snd (fst r))%Z).
Proof.
  intros Hd Hg Hgn Hin He Hl. cbv zeta. unfold arenas_try_purge.
  assert (E1 : (arena_purge_delay cfg <=? 0)%Z = false) by (apply Z.leb_gt; assumption). rewrite E1.
  assert (E2 : negb false && ((g =? 0)%Z || (now <? g)%Z) = false).
  { cbn [negb andb]. apply orb_false_intro; [apply Z.eqb_neq|apply Z.ltb_ge]; assumption. }
  rewrite E2. destruct l as [|a0 l]; [destruct Hin|].
  destruct (arenas_loop_visited (a0 :: l) o now false (if visit_all then N.of_nat (length (a0 :: l)) else 2))
    as (l1 & l2 & l1' & E & E3 & F & V1 & _ & V3). cbv zeta in *.
  destruct (arenas_loop cfg oracle o (a0 :: l) now false (if visit_all then N.of_nat (length (a0 :: l)) else 2)) as [[[o1 l'] v] p].
  cbn [fst snd] in *. subst l'. rewrite E in Hin. apply in_app_or in Hin.
  assert (G : (if v && negb p then 0%Z else (now + arena_purge_delay cfg)%Z) = (now + arena_purge_delay cfg)%Z /\ In a (l1' ++ l2)).
  { destruct Hin as [Hin|Hin].
    - destruct (Forall2_in_l _ _ _ _ F Hin) as (a' & Ha' & [(-> & _)|(_ & [X|(_ & X)] & _)]); [|discriminate|lia].
      split; [|apply in_or_app; left; assumption].
      destruct p; [rewrite andb_false_r; reflexivity|]. exfalso. apply He. apply V3; [reflexivity|assumption].
    - split; [|apply in_or_app; right; assumption].
      destruct v; [|reflexivity]. rewrite (V1 eq_refl) in Hin. destruct Hin. }
  destruct G as [G1 G2]. rewrite G1. split; [reflexivity|]. split; [assumption|auto].
Qed.

End WithOracle5.

(* ---- regression scenarios (the two histories that defeated the code before repair c59c73f) ---- *)
Definition wit_oracle (n : nat) : answer := {| a_ok := true; a_addr := 0 |}.
Definition wit_arena (start : N) : arena :=
  {| a_start := start; a_block_count := 4; a_field_count := 1; a_inuse := N.ones 64 - 14; a_committed := N.ones 64;
     a_purge := 0; a_expire := 0%Z; a_pinned := false |}.       (* block 0 in use, blocks 1-3 free, left-over bits claimed *)
Definition wit_os : os :=
  {| os_k := {| k_maps := [ {| m_base := 2 ^ 40; m_len := 4 * BLOCK |}; {| m_base := 2 ^ 41; m_len := 4 * BLOCK |} ];
                k_at := fun _ => {| pg_rw := true; pg_purged := false |} |};
     os_seq := O; os_log := []; os_hint := 0 |}.
Definition wit2_state : pstate_ := {| p_os := wit_os; p_g := 0%Z; p_arenas := [wit_arena (2 ^ 40); wit_arena (2 ^ 41)] |}.
(* two arenas: free the segment of arena A at t0, of arena B at t0+50ms, non-forced collects at t0+120ms and t0+220ms *)
Definition wit2_hist : list (pop * Z) :=
  [(PFree 0 0 1 true, 1000000%Z); (PFree 1 0 1 true, 1000050%Z); (PCollect false, 1000120%Z); (PCollect false, 1000220%Z)].

Lemma wit2_result :
  let st1 := prun default_cfg wit_oracle wit2_state (firstn 3 wit2_hist) in
  let st := prun default_cfg wit_oracle wit2_state wit2_hist in
  (p_g st1 = 1000220%Z /\ map a_expire (p_arenas st1) = [0%Z; 1000150%Z] /\ map a_purge (p_arenas st1) = [0; 1]) /\
  (p_g st = 0%Z /\ map a_expire (p_arenas st) = [0%Z; 0%Z] /\ map a_purge (p_arenas st) = [0; 0] /\
   calls (p_os st) = [(KMadvise, 2 ^ 40, BLOCK, MADV_DONTNEED_); (KMadvise, 2 ^ 41, BLOCK, MADV_DONTNEED_)]).
Proof. vm_compute. repeat split. Qed.

Definition wit1_arena : arena :=
  {| a_start := 2 ^ 40; a_block_count := 32; a_field_count := 1; a_inuse := N.ones 64 - N.ones 32 + 3; a_committed := N.ones 64;
     a_purge := 0; a_expire := 0%Z; a_pinned := false |}.       (* blocks 0 and 1 in use *)
Definition wit1_os : os :=
  {| os_k := {| k_maps := [ {| m_base := 2 ^ 40; m_len := 32 * BLOCK |} ]; k_at := fun _ => {| pg_rw := true; pg_purged := false |} |};
     os_seq := O; os_log := []; os_hint := 0 |}.
Definition wit1_state : pstate_ := {| p_os := wit1_os; p_g := 0%Z; p_arenas := [wit1_arena] |}.
(* one arena: t0 free block 0; t0+10 mi_collect(true); t0+50 free block 1; non-forced collects at t0+120 and t0+220 *)
Definition wit1_hist : list (pop * Z) :=
  [(PFree 0 0 1 true, 1000000%Z); (PCollect true, 1000010%Z); (PFree 0 1 1 true, 1000050%Z); (PCollect false, 1000120%Z);
   (PCollect false, 1000220%Z)].

Lemma wit1_result :
  let st1 := prun default_cfg wit_oracle wit1_state (firstn 4 wit1_hist) in
  let st := prun default_cfg wit_oracle wit1_state wit1_hist in
  (p_g st1 = 1000220%Z /\ map a_expire (p_arenas st1) = [1000150%Z] /\ map a_purge (p_arenas st1) = [2]) /\
  (p_g st = 0%Z /\ map a_expire (p_arenas st) = [0%Z] /\ map a_purge (p_arenas st) = [0] /\
   calls (p_os st) = [(KMadvise, 2 ^ 40, BLOCK, MADV_DONTNEED_); (KMadvise, 2 ^ 40 + BLOCK, BLOCK, MADV_DONTNEED_)]).
Proof. vm_compute. repeat split. Qed.
