(* Composition layer (C01): what the composition needs from the span and page layers in the form it is
   used -- all derived from the layer theorems of SpanProofs / PageProofs (nothing is re-proved). *)
From Coq Require Import NArith ZArith Lia Bool List.
From Coq Require Import ZifyN ZifyBool.
From MiV Require Import Gen.Consts Gen.Bins Model.Arith Model.Page Model.Span Model.Compose
  Proofs.Base Proofs.ArithProofs Proofs.BitsProofs Proofs.PageProofs Proofs.SpanBase Proofs.SpanInv Proofs.SpanOps Proofs.SpanRaw Proofs.SpanProofs.
Import ListNotations.
Local Open Scope N_scope.

(* the segment-info span is in use and not empty *)
Lemma info_span_used st : span_Inv st ->
  In (0, info_slices (fst st)) (used_spans (fst st)) /\ 0 < info_slices (fst st).
Proof.
  intros (sps & m & Hinv). pose proof Hinv as (Ht & _ & _ & _ & (r & Hr) & _ & Hb0 & _).
  assert (Hin : In (0, info_slices (fst st)) sps) by (rewrite Hr; left; reflexivity).
  split; [apply (In_used_spans _ _ _ _ _ _ Hinv); split; assumption|].
  destruct (tiles_In _ _ _ _ _ Ht Hin) as (_ & _ & H). exact H.
Qed.

Lemma used_span_pos st i c : span_Inv st -> In (i, c) (used_spans (fst st)) -> 0 < c.
Proof. intros Hinv Hin. destruct (used_spans_disjoint st Hinv) as (_ & R). apply (R i c Hin). Qed.

(* a used span that is not the info span starts behind it *)
Lemma used_span_behind_info st i c : span_Inv st -> In (i, c) (used_spans (fst st)) -> 0 < i ->
  info_slices (fst st) <= i.
Proof.
  intros Hinv Hin Hi. destruct (used_spans_disjoint st Hinv) as (_ & R).
  destruct (R i c Hin) as (_ & _ & [(E & _)|H] & _); lia.
Qed.

(* mi_page_init / mi_segment_huge_page_alloc: page->block_size = bs in a span in use *)
Lemma set_block_size_facts st i c bs : span_Inv st -> In (i, c) (used_spans (fst st)) -> 0 < bs ->
  let st' := set_block_size st i bs in
  span_Inv st' /\
  (forall sp, In sp (used_spans (fst st')) <-> In sp (used_spans (fst st))) /\
  (forall j, j <> i -> get (entries (fst st')) j = get (entries (fst st)) j) /\
  get (entries (fst st')) i =
    mkSlice (slice_count (get (entries (fst st)) i)) (slice_offset (get (entries (fst st)) i)) bs /\
  kind (fst st') = kind (fst st) /\ info_slices (fst st') = info_slices (fst st) /\
  slice_entries (fst st') = slice_entries (fst st) /\ used (fst st') = used (fst st).
Proof.
  intros (sps & m & Hinv) Hin Hbs. destruct st as [sg qs]. cbn [fst] in *. cbv zeta.
  apply (In_used_spans _ _ _ _ _ _ Hinv) in Hin as (Hin & Hbz). cbn [fst] in Hbz.
  pose proof (set_block_size_inv _ _ _ _ _ _ _ bs Hinv Hin Hbz Hbs) as Hinv'.
  pose proof Hinv as (_ & _ & Hf & _ & _ & _ & _ & _ & Hl & _). cbn [fst snd] in Hf, Hl.
  rewrite Forall_forall in Hf. destruct (Hf _ Hin) as (Hi & _). cbn [fst] in Hi.
  assert (Hgo : forall j, j <> i -> get (entries (fst (set_block_size (sg, qs) i bs))) j = get (entries sg) j).
  { intros j Hj. cbn [set_block_size fst set_entries entries]. apply get_set_bsz_other. assumption. }
  assert (Hgi : get (entries (fst (set_block_size (sg, qs) i bs))) i =
                mkSlice (slice_count (get (entries sg) i)) (slice_offset (get (entries sg) i)) bs).
  { cbn [set_block_size fst set_entries entries]. apply get_set_bsz_same. lia. }
  split; [exists sps, m; exact Hinv'|].
  split.
  { intros [j cj]. rewrite (In_used_spans _ _ _ _ _ _ Hinv'), (In_used_spans _ _ _ _ _ _ Hinv). cbn [fst].
    destruct (N.eq_dec j i) as [->|Hne].
    - change (entries (set_entries sg (set_bsz (entries sg) i bs))) with (entries (fst (set_block_size (sg, qs) i bs))).
      rewrite Hgi. cbn [bsz]. tauto.
    - change (entries (set_entries sg (set_bsz (entries sg) i bs))) with (entries (fst (set_block_size (sg, qs) i bs))).
      rewrite Hgo by assumption. tauto. }
  split; [assumption|]. split; [assumption|]. repeat split.
Qed.

(* mi_segment_page_clear leaves the first entry of every span that stays in use alone *)
Theorem free_frame_get sg qs idx c : span_Inv (sg, qs) -> In (idx, c) (used_spans sg) -> idx <> 0 ->
  let st' := fst (page_clear (sg, qs) idx) in
  forall j cj, In (j, cj) (used_spans (fst st')) -> get (entries (fst st')) j = get (entries sg) j.
Proof.
  intros (sps & m & Hinv) Hin Hi0. cbv zeta. cbn [fst] in Hinv.
  apply (In_used_spans _ _ _ _ _ _ Hinv) in Hin as (Hin & Hb). cbn [fst] in Hb.
  assert (Hkk : kind sg = SegNormal \/ kind sg = SegHuge) by (destruct (kind sg); auto).
  destruct Hkk as [Ek|Ek].
  - destruct (page_clear_normal (used sg) sg qs sps m idx c Hinv eq_refl Ek Hin Hi0 Hb)
      as (l1 & l2 & l1' & l2' & a' & w' & Es & Hres). cbv zeta in Hres.
    destruct Hres as (_ & Hinv' & _ & _ & _ & _ & _ & _ & Hfr & Hbz' & _).
    set (st' := fst (page_clear (sg, qs) idx)) in *.
    pose proof Hinv' as (Ht' & _).
    assert (T' : tiles 0 a' l1' /\ tiles (a' + w') m l2').
    { apply tiles_app in Ht' as (x & T1' & T2'). cbn [tiles] in T2'. destruct T2' as (-> & _ & T2'). auto. }
    destruct T' as (T1' & T2').
    intros j cj Hj. apply (In_used_spans _ _ _ _ _ _ Hinv') in Hj as (Hj & Hbz).
    apply In_app_mid in Hj as [E|Hj]; [inversion E; subst; lia|].
    apply in_app_or in Hj as [Hj|Hj].
    + destruct (raw_left _ _ _ _ T1' Hj). apply Hfr. lia.
    + destruct (raw_right _ _ _ _ _ T2' Hj). apply Hfr. lia.
  - destruct (page_clear_huge (used sg) sg qs sps m idx c Hinv eq_refl Ek Hin Hi0 Hb) as (Hinv' & _ & _ & Hfr & Hbz').
    intros j cj Hj. apply (In_used_spans _ _ _ _ _ _ Hinv') in Hj as (Hj & Hbz).
    destruct (N.eq_dec j idx) as [->|Hne]; [lia|]. apply Hfr. assumption.
Qed.

(* mi_page_init *)
Lemma page_init_facts bs psize z : 0 < bs -> psize / bs < 65536 ->
  page_Inv (page_init bs psize z) /\ bsize (page_init bs psize z) = bs /\
  reserved (page_init bs psize z) = psize / bs /\ (forall i, ~ is_live (page_init bs psize z) i) /\
  Page.used (page_init bs psize z) = 0.
Proof.
  intros Hb Hr. unfold page_init. rewrite wrap16_small by exact Hr.
  set (p0 := mkPage bs (psize / bs) 0 0 [] [] [] z z false 0).
  assert (H0 : page_Inv p0).
  { apply Inv_intro; cbn [p0 bsize reserved capacity Page.used free local_free thread_free app length]; try assumption; try lia.
    - apply N.le_0_l.
    - constructor.
    - intros i []. }
  assert (Hr0 : reserved p0 < 65536) by exact Hr.
  split; [apply extend_inv; assumption|].
  split; [destruct (extend_spec p0 Hr0) as [->|(e & _ & _ & _ & ->)]; reflexivity|].
  split; [destruct (extend_spec p0 Hr0) as [->|(e & _ & _ & _ & ->)]; reflexivity|].
  split.
  - intros i Hl. apply (page_extend_live p0 H0) in Hl. destruct Hl as (Hc & _). cbn [p0 capacity] in Hc. lia.
  - destruct (extend_spec p0 Hr0) as [->|(e & _ & _ & _ & ->)]; reflexivity.
Qed.

(* mi_page_init leaves a non-empty free list *)
Lemma page_init_free bs psize z : 0 < bs -> bs <= psize -> psize / bs < 65536 -> free (page_init bs psize z) <> [].
Proof.
  intros Hb Hle Hr. unfold page_init. rewrite wrap16_small by exact Hr.
  assert (H1 : 1 <= psize / bs) by (apply N.div_le_lower_bound; lia).
  unfold page_extend. cbn [free reserved capacity].
  destruct (psize / bs <=? 0) eqn:E; [apply N.leb_le in E; lia|].
  unfold set_capacity, set_free. cbn [free].
  set (p0 := {| bsize := bs; reserved := psize / bs; capacity := 0; Page.used := 0; free := []; local_free := [];
                thread_free := []; free_is_zero := z; is_zero_init := z; has_aligned := false; retire_expire := 0 |}).
  assert (He : 1 <= extend_count p0).
  { unfold extend_count. cbn [p0 reserved capacity bsize]. rewrite N.sub_0_r. unfold MI_MIN_EXTEND, MI_MAX_EXTEND_SIZE.
    set (mx0 := if 4096 <=? bs then 4 else 4096 / bs).
    set (mx := if mx0 <? 4 then 4 else mx0).
    assert (Hmx : 4 <= mx) by (unfold mx; destruct (mx0 <? 4) eqn:E4; [lia|apply N.ltb_ge in E4; assumption]).
    destruct (mx <? psize / bs); lia. }
  destruct (N.to_nat (extend_count p0)) as [|n] eqn:En; [lia|]. cbn [nseq app]. discriminate.
Qed.

(* mi_segments_page_alloc: a page of a normal segment has at most MI_MAX_SLICE_OFFSET_COUNT + 1 slices,
   so every slice of it carries a back-offset to the first one *)
Lemma slices_needed_le bs : bs <= MI_LARGE_OBJ_SIZE_MAX -> slices_needed bs <= MI_MAX_SLICE_OFFSET_COUNT + 1.
Proof.
  unfold slices_needed, MI_LARGE_OBJ_SIZE_MAX, MI_MAX_SLICE_OFFSET_COUNT, MI_SMALL_OBJ_SIZE_MAX,
         MI_MEDIUM_OBJ_SIZE_MAX, MI_MEDIUM_PAGE_SIZE, MI_SEGMENT_SLICE_SIZE.
  intros Hb.
  destruct (bs <=? 8192) eqn:E1.
  - apply N.leb_le in E1. assert (E : (524288 <? bs) = false) by (apply N.ltb_ge; lia). rewrite E.
    destruct (align_up_props bs 65536) as (A1 & A2 & A3); [lia|rewrite W64_val; lia|rewrite W64_val; lia|].
    assert (align_up bs 65536 / 65536 <= 1); [|lia].
    apply N.div_le_upper_bound; lia.
  - apply N.leb_gt in E1. destruct (bs <=? 65536) eqn:E2.
    + vm_compute. discriminate.
    + apply N.leb_gt in E2. destruct (524288 <? bs) eqn:E3.
      * apply N.ltb_lt in E3.
        destruct (align_up_props bs 524288) as (A1 & A2 & A3); [lia|rewrite W64_val; lia|rewrite W64_val; lia|].
        assert (align_up bs 524288 <= 16777216).
        { assert (H := N.div_mod (align_up bs 524288) 524288 ltac:(lia)). rewrite A3 in H.
          assert (align_up bs 524288 / 524288 <= 32); [|lia].
          apply N.lt_succ_r. apply N.div_lt_upper_bound; lia. }
        apply N.div_le_upper_bound; lia.
      * apply N.ltb_ge in E3.
        destruct (align_up_props bs 65536) as (A1 & A2 & A3); [lia|rewrite W64_val; lia|rewrite W64_val; lia|].
        apply N.div_le_upper_bound; lia.
Qed.

(* mi_segment_alloc for a huge block: the layout *)
Lemma huge_seg_init bs al ss a' off st :
  segment_request bs al = (ss, 1, a', off) -> bs <> 0 -> 2 <= ss -> ss < 4294967296 ->
  segment_init bs al empty_queues = Some st ->
  span_Inv_with 1 st [(0, 1); (1, ss - 1)] ss /\ used (fst st) = 1 /\ kind (fst st) = SegHuge /\
  info_slices (fst st) = 1 /\ slice_entries (fst st) = N.min ss MI_SLICES_PER_SEGMENT /\
  get (entries (fst st)) 1 = mkSlice (ss - 1) 0 ((ss - 1) * MI_SEGMENT_SLICE_SIZE).
Proof.
  intros Er Hb H2 H32 Hi. rewrite (segment_init_huge bs al ss a' off Hb Er) in Hi.
  destruct (huge_init_inv ss H2 H32) as (st0 & Hi0 & A1 & A2 & A3 & A4 & A5 & A6 & _).
  rewrite Hi in Hi0. inversion Hi0; subst st0. tauto.
Qed.
