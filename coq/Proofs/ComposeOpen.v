(* Composition layer (C01): statements that are NOT theorems of this development, kept as type-checked
   definitions so that nobody mistakes them for theorems.  Everything in Properties/C01compose.v is proved;
   what follows is what the composition does not (yet) show. *)
From Coq Require Import NArith List Bool.
From MiV Require Import Gen.Consts Gen.Bins Model.Arith Model.Page Model.Span Model.Compose
  Proofs.ComposeInv Proofs.ComposeProofs.
Import ListNotations.
Local Open Scope N_scope.

(* PROGRESS is proved: Model/Compose.v turns the assertions of the C code (block_size <= page_size,
   page_size / block_size < 2^16 in mi_page_init; block_size >= size in _mi_malloc_generic; reserved = 1 for a
   huge page; slice_count fits 32 bits) into dynamic checks (None when one fails), and
   Proofs/ComposeProgress.v shows that they never fail, both for requests up to MI_LARGE_OBJ_SIZE_MAX served
   from a fresh segment (malloc_fresh_seg_progress) and for huge blocks below 2^47 bytes in their own segment
   (malloc_huge_progress).  Not covered: requests between 2^47 and MI_MAX_ALLOC_SIZE (within 4 MiB of
   MI_MAX_ALLOC_SIZE the rounded size needs 2^32 or more slices, which the model's check `ss < 2^32` --
   slice_count is a uint32_t -- refuses; no OS maps such a range). *)

(* (1) CONTENTS.  abs maps every live block to unknown bytes (`dirty`): the composite model has no byte
   contents, so "a live block keeps the bytes the program wrote" is not a theorem of this layer.  It is a
   consequence of disjointness (C01_compose_live_disjoint: a write through one live block cannot touch
   another) together with "the allocator writes only dead blocks", which is stated per layer
   (Page: the lists only hold dead blocks, C01_page_*; API: Properties/C04, C05) and observed by the
   byte-pattern oracle of harness/t_api.c.  The statement over a model with a byte store would be: *)
Definition compose_contents_stmt (store : Type) (read : store -> N -> N)
    (mstep_store : mem -> store -> mop -> option (mem * store)) : Prop :=
  forall m s o m' s' q u r a, mem_inv m -> mstep_store m s o = Some (m', s') ->
    In (q, u, r) (live_blocks m) -> In (q, u, r) (live_blocks m') -> q <= a -> a < q + u ->
    read s' a = read s a.
