(* Preservation, part 5: an idle thread starts an operation. *)
From Coq Require Import NArith List Bool Lia Arith.
From MiV Require Import Model.TFree Proofs.TFreeBase Proofs.TFreeInv Proofs.TFreeGen Proofs.TFreeTop Proofs.TFreeStep
  Proofs.TFreeStep2 Proofs.TFreeStep3 Proofs.TFreeKill Proofs.TFreeStep4.
Import ListNotations.
Local Open Scope N_scope.

(* pushing frames that hold no block and are outside every window on an idle thread *)
Lemma start_push c t nf :
  Inv c -> th_stk (gett c t) = [] ->
  stk_blocks nf = [] ->
  (forall p, sum_fr (win_fr p) nf = 0%nat) ->
  stk_ok nf = true ->
  forallb (fr_ok c t (gett c t)) nf = true ->
  hd_okP c (th_set (gett c t) nf (th_ret (gett c t))) ->
  Inv (sett c t (th_set (gett c t) nf (th_ret (gett c t)))).
Proof.
  intros I E Hb Hw Hs Hf Hh.
  apply step_stack_only; auto; rewrite ?E.
  - intros P. rewrite Hb. reflexivity.
  - intros p. rewrite Hw. reflexivity.
  - intros p. cbn. pose proof (sum_fr_le (pw_fr p) (win_fr p) nf (mPw_le_mWin_fr p)). rewrite Hw in H. lia.
  - intros p. left. cbn [d1_stk]. rewrite cnt_nil. lia.
  - intros p h. cbn. discriminate.
  - intros h. cbn. discriminate.
Qed.

Lemma own_hown_heap c t q h : Inv c -> pg_alive (getp c q) = true -> pg_heap (getp c q) = Some h -> hown (geth c h) t = true ->
  own (getp c q) t = true.
Proof.
  intros I Ha Hh Ho. destruct (s_pheap _ (i_S _ I) q Ha) as [h' [H1 H2]]. rewrite Hh in H1. inversion H1; subst h'.
  apply hown_true in H2 as [_ H2]. apply hown_true in Ho as [_ Ho]. unfold own. rewrite Ha, <- H2, Ho, N.eqb_refl. reflexivity.
Qed.

Lemma in_del_W c h b : In b (hp_del (geth c h)) -> (1 <= mW c (bid_eqb b))%nat.
Proof. intros H. pose proof (mW_ge_del c h (bid_eqb b)) as G. apply cnt_In in H. lia. Qed.

Ltac push_goals :=
  lazymatch goal with
  | |- stk_ok _ = true => cbn; rewrite ?N.eqb_refl; try reflexivity;
                          try (match goal with b : bool |- _ => destruct b; reflexivity end)
  | |- forallb (fr_ok _ _ _) _ = true => cbn [forallb fr_ok]
  | |- hd_okP _ _ => intros ?f ?Hin; cbn [th_stk th_set In] in *;
                     repeat match goal with H : _ \/ _ |- _ => destruct H end; subst; try contradiction; try exact Logic.I
  | |- forall p, sum_fr _ _ = _ => intros; reflexivity
  | _ => idtac
  end.

Lemma start_simple c t o : Inv c -> th_stk (gett c t) = [] ->
  match o with
  | OpCollect _ _ | OpPartial _ | OpDelayedAll _ | OpPageFree _ | OpHeapCollect _ _ | OpHeapDelete _ | OpNever _ => True
  | _ => False
  end ->
  good (start c t (gett c t) o).
Proof.
  intros I E Ho. pose proof (i_wf _ I) as Hwf.
  destruct o; try contradiction; cbn [start].
  - (* OpCollect *)
    destruct (own (getp c p) t) eqn:Eo; cbn [negb]; [|exact Logic.I]. unfold ok_s, ok_t, good.
    apply start_push; auto; push_goals. rewrite Eo. reflexivity.
  - (* OpPartial *)
    destruct (hown (geth c h) t) eqn:Eo; cbn [negb]; [|exact Logic.I]. unfold ok_s, ok_t, good.
    apply start_push; auto; push_goals. rewrite Eo. reflexivity.
  - (* OpDelayedAll *)
    destruct (hown (geth c h) t) eqn:Eo; cbn [negb]; [|exact Logic.I]. unfold ok_s, ok_t, good.
    apply start_push; auto; push_goals. rewrite Eo. reflexivity.
  - (* OpPageFree *)
    destruct (own (getp c p) t) eqn:Eo; cbn [negb orb]; [|exact Logic.I].
    destruct (pg_used (getp c p) =? 0) eqn:Eu; cbn [negb]; [|exact Logic.I]. unfold ok_s, ok_t, good.
    apply start_push; auto; push_goals. rewrite Eo, Eu. reflexivity.
  - (* OpHeapCollect *)
    destruct (hown (geth c h) t) eqn:Eo; cbn [negb]; [|exact Logic.I]. unfold ok_s, ok_t, good.
    apply start_push; auto; push_goals. rewrite Eo. reflexivity.
  - (* OpHeapDelete *)
    destruct (hown (geth c h) t) eqn:Eo; cbn [negb orb]; [|exact Logic.I].
    destruct (hp_backing (geth c h)) eqn:Eb; [exact Logic.I|].
    destruct (th_backing (gett c t)) as [bk|] eqn:Ebk; [|exact Logic.I].
    destruct (isnil (pages_of c t h)) eqn:En; unfold ok_s, ok_t, good.
    + apply isnil_true in En.
      assert (Hnop : forall q, pg_alive (getp c q) = true -> pg_heap (getp c q) <> Some h).
      { intros q Ha Hh. assert (In q (pages_of c t h)); [|rewrite En in H; exact H].
        apply (pages_of_In c t h q Hwf). split; [|assumption]. apply (own_hown_heap c t q h I Ha Hh Eo). }
      apply start_push; auto; push_goals.
      * rewrite Eo, Eb. reflexivity.
      * cbn [hd_fr_okP]. split; [exact Hnop|]. intros _.
        destruct (hp_del (geth c h)) as [|b l] eqn:Ed; [reflexivity|]. exfalso.
        pose proof (s_del _ (i_S _ I) h) as D. rewrite Ed in D. cbn [forallb] in D. apply andb_prop in D as [D _].
        unfold del_ok in D. apply andb_prop in D as [D1 D2]. apply andb_prop in D1 as [_ D1]. apply N.eqb_eq in D1.
        destruct (a_range _ (i_A _ I) b) as [Ha _].
        { pose proof (in_del_W c h b). rewrite Ed in H. specialize (H (or_introl eq_refl)). lia. }
        apply orb_prop in D2 as [D2|D2]; [apply oN_eqb_eq in D2; apply (Hnop _ Ha D2)|].
        apply hown_true in Eo as [_ Eo]. rewrite Eo, E in D2. discriminate.
    + apply start_push; auto; push_goals.
      rewrite Eo, Eb, Ebk, oN_eqb_refl. reflexivity.
  - (* OpNever *)
    destruct (own (getp c p) t) eqn:Eo; cbn [negb]; [|exact Logic.I]. unfold ok_s, ok_t, good.
    apply start_push; auto; push_goals. rewrite Eo. reflexivity.
Qed.

(* an idle owner updates the private part of one of its pages, its held blocks, and pushes plain frames *)
Lemma start_priv c t p pg' th' :
  Inv c -> th_stk (gett c t) = [] ->
  own (getp c p) t = true ->
  pview pg' = pview (getp c p) -> pg_flag pg' = pg_flag (getp c p) -> pg_tf pg' = pg_tf (getp c p) ->
  th_backing th' = th_backing (gett c t) ->
  InvA (sett (setp c p pg') t th') ->
  (forall q, sum_fr (win_fr q) (th_stk th') = 0%nat) ->
  stk_ok (th_stk th') = true ->
  (forall f, In f (th_stk th') -> match f with
                        | PF q => own (getp c q) t = true /\ pg_used (if q =? p then pg' else getp c q) = 0
                        | _ => fr_ok c t (gett c t) f = true
                        end) ->
  (forall f, In f (th_stk th') -> noabs f) ->
  (forall f, In f (th_stk th') -> plain f) ->
  Inv (sett (setp c p pg') t th').
Proof.
  intros I E Hown Hpv Hfl Htf Hbk HA Hw Hs Hf Hna Hpl.
  set (c1 := setp c p pg'). set (c' := sett c1 t th').
  pose proof (i_wf _ I) as Hwf. assert (Hwf1 : wf c1) by (apply wf_setp; assumption).
  assert (A1 : agree t c c1) by (apply agree_setp; [assumption|right; assumption]).
  assert (A2 : agree t c1 c').
  { apply agree_sett; change (gett c1 t) with (gett c t); rewrite E; cbn; discriminate. }
  assert (A : agree t c c') by (eapply agree_trans; [eassumption|reflexivity|eassumption]).
  assert (Gt : gett c' t = th') by (unfold c'; rewrite gett_sett, N.eqb_refl; reflexivity).
  assert (Gp : forall q, getp c' q = if q =? p then pg' else getp c q).
  { intros q. unfold c', c1. rewrite getp_sett, getp_setp. reflexivity. }
  constructor.
  - apply wf_sett; assumption.
  - exact HA.
  - apply (invB_same c); [assumption| | | |].
    + intros q. rewrite Gp. destruct (q =? p) eqn:Eq; [apply N.eqb_eq in Eq; subst q; assumption|reflexivity].
    + intros q. pose proof (mWin_sett c1 Hwf1 t th' q) as E1. change (gett c1 t) with (gett c t) in E1.
      rewrite E, Hw in E1. cbn in E1. change (mWin c1 q) with (mWin c q) in E1. unfold c'. lia.
    + intros q. pose proof (mPw_sett c1 Hwf1 t th' q) as E1. change (gett c1 t) with (gett c t) in E1.
      rewrite E in E1. cbn in E1. change (mPw c1 q) with (mPw c q) in E1.
      pose proof (sum_fr_le (pw_fr q) (win_fr q) (th_stk th') (mPw_le_mWin_fr q)). rewrite Hw in H. unfold c'. lia.
    + intros q. left. pose proof (mD_sett c1 Hwf1 t th' (onp q)) as E1. change (gett c1 t) with (gett c t) in E1.
      rewrite E in E1. cbn [d1_stk] in E1. rewrite cnt_nil in E1. change (mD c1 (onp q)) with (mD c (onp q)) in E1. unfold c'. lia.
  - apply (invS_step c c' t); auto.
    + intros t' Hne. unfold c'. rewrite gett_sett. apply N.eqb_neq in Hne. rewrite Hne. reflexivity.
    + rewrite Gt. assumption.
    + intros q. rewrite Gp. destruct (q =? p) eqn:Eq; [|apply (s_dead _ (i_S _ I))].
      apply own_true in Hown as [Hal _]. apply pview_eq in Hpv as (E1 & _). congruence.
    + rewrite Gt. assumption.
    + rewrite Gt. apply forallb_forall. intros x Hin. rewrite (fr_ok_th c' t (gett c t)) by assumption.
      specialize (Hf x Hin).
      destruct x; try (apply (fr_ok_agree t c); [assumption|discriminate|apply noabs_win_ok, Hna; assumption|exact Hf]).
      destruct Hf as [Hf1 Hf2]. cbn [fr_ok]. rewrite (own_view _ _ _ (ag_p _ _ _ A p0)), Hf1, Gp, Hf2. reflexivity.
    + rewrite Gt. intros f Hin. apply plain_hd_ok. apply Hpl. assumption.
Qed.

Lemma held_W c t b : In b (th_held (gett c t)) -> (1 <= mW c (bid_eqb b))%nat.
Proof. intros H. pose proof (mW_ge_th c t (bid_eqb b)) as G. unfold th_W in G. apply cnt_In in H. lia. Qed.

Lemma start_ToFull c t p : Inv c -> th_stk (gett c t) = [] -> good (start c t (gett c t) (OpToFull p)).
Proof.
  intros I E. cbn [start]. pose proof (i_wf _ I) as Hwf.
  destruct (own (getp c p) t) eqn:Eo; cbn [negb orb]; [|exact Logic.I].
  destruct (pg_full (getp c p)) eqn:Ef; [exact Logic.I|]. unfold ok_s, ok_t, good.
  set (pg' := pg_set_full (getp c p) true). set (th' := th_set (gett c t) [FC1 p false] (th_ret (gett c t))).
  apply (start_priv c t p pg' th'); auto.
  - (* InvA *)
    assert (EWF : forall P, (mW (sett (setp c p pg') t th') P = mW c P /\ mF (sett (setp c p pg') t th') P = mF c P)%nat).
    { intros P. destruct (mWF_sett_setp c t th' p pg' P Hwf) as [E1 E2]. unfold th_W in E1. rewrite E in E1.
      cbn [th_held th_stk th' th_set pg_tf pg_free pg_lfree pg' pg_set_full stk_blocks flat_map fr_blocks app] in E1, E2. split; lia. }
    apply (invA_conserve c); auto.
    + intros P. destruct (EWF P) as [-> ->]. reflexivity.
    + intros q. rewrite getp_sett, getp_setp. destruct (q =? p) eqn:Eq; [apply N.eqb_eq in Eq; subst q|]; reflexivity.
    + intros q. destruct (EWF (onp q)) as [-> _]. rewrite getp_sett, getp_setp.
      destruct (a_count _ (i_A _ I) q) as [C1 _]. rewrite <- C1. destruct (q =? p) eqn:Eq; [apply N.eqb_eq in Eq; subst q|]; reflexivity.
    + intros q. rewrite getp_sett, getp_setp. destruct (q =? p) eqn:Eq; [apply N.eqb_eq in Eq; subst q|]; apply (a_local _ (i_A _ I)).
  - intros f [<-|[]]. cbn [fr_ok]. exact Eo.
  - intros f [<-|[]]. exact Logic.I.
  - intros f [<-|[]]. exact Logic.I.
Qed.

Lemma start_Pop c t p : Inv c -> th_stk (gett c t) = [] -> good (start c t (gett c t) (OpPop p)).
Proof.
  intros I E. cbn [start]. pose proof (i_wf _ I) as Hwf.
  destruct (own (getp c p) t) eqn:Eo; cbn [negb orb]; [|exact Logic.I].
  destruct (pg_full (getp c p)) eqn:Ef; [exact Logic.I|].
  destruct (pg_free (getp c p)) as [|b r] eqn:Efr; [exact Logic.I|]. unfold good.
  set (pg' := pg_set_lists (getp c p) r (pg_lfree (getp c p)) (inc16 (pg_used (getp c p)))).
  set (th' := th_set_held (gett c t) [] (b :: th_held (gett c t))).
  assert (Hbp : fst b = p).
  { pose proof (a_local _ (i_A _ I) p) as L. unfold pg_blocks in L. rewrite Efr, !forallb_app in L.
    apply andb_prop in L as [_ L]. apply andb_prop in L as [L _]. cbn [forallb] in L. apply andb_prop in L as [L _].
    unfold onp in L. apply N.eqb_eq in L. exact L. }
  apply (start_priv c t p pg' th'); auto.
  - (* InvA *)
    assert (EWF : forall P, (mW (sett (setp c p pg') t th') P = mW c P + cnt P [b]
                             /\ mF (sett (setp c p pg') t th') P + cnt P [b] = mF c P)%nat).
    { intros P. destruct (mWF_sett_setp c t th' p pg' P Hwf) as [E1 E2]. unfold th_W in E1. rewrite E, Efr in *.
      cbn [th_held th_stk th' th_set_held pg_tf pg_free pg_lfree pg' pg_set_lists stk_blocks flat_map] in E1, E2.
      rewrite !cnt_cons, ?cnt_nil in *. split; lia. }
    destruct (a_count _ (i_A _ I) p) as (C1 & C2 & C3 & C4).
    assert (Hf1 : (1 <= mF c (onp p))%nat).
    { pose proof (mF_ge c p (onp p)) as G. rewrite Efr, cnt_cons in G. unfold onp at 1 in G. rewrite Hbp, N.eqb_refl in G. lia. }
    apply (invA_conserve c); auto.
    + intros P. destruct (EWF P) as [E1 E2]. lia.
    + intros q. rewrite getp_sett, getp_setp. destruct (q =? p) eqn:Eq; [apply N.eqb_eq in Eq; subst q|]; reflexivity.
    + intros q. destruct (EWF (onp q)) as [E1 _]. rewrite E1, getp_sett, getp_setp, cnt_cons, cnt_nil.
      change (onp q b) with (fst b =? q). rewrite Hbp. destruct (q =? p) eqn:Eq.
      * apply N.eqb_eq in Eq. subst q. rewrite N.eqb_refl. cbn [pg_used pg' pg_set_lists]. rewrite inc16_small; lia.
      * rewrite N.eqb_sym, Eq. destruct (a_count _ (i_A _ I) q) as [Cq _]. rewrite Cq. f_equal. lia.
    + intros q. rewrite getp_sett, getp_setp. destruct (q =? p) eqn:Eq; [apply N.eqb_eq in Eq; subst q|apply (a_local _ (i_A _ I))].
      pose proof (a_local _ (i_A _ I) p) as L. unfold pg_blocks in *. rewrite Efr in L.
      cbn [pg_tf pg_free pg_lfree pg' pg_set_lists]. rewrite !forallb_app in *. cbn [forallb] in L.
      apply andb_prop in L as [L1 L2]. apply andb_prop in L2 as [L2 L3]. apply andb_prop in L2 as [_ L2].
      rewrite L1, L2, L3. reflexivity.
  - intros f [].
  - intros f [].
  - intros f [].
Qed.

Lemma start_Free c t b keep : Inv c -> th_stk (gett c t) = [] -> good (start c t (gett c t) (OpFree b keep)).
Proof.
  intros I E. cbn [start]. pose proof (i_wf _ I) as Hwf.
  destruct (mem_bid b (th_held (gett c t))) eqn:Em; cbn [negb]; [|exact Logic.I].
  apply mem_bid_In in Em.
  destruct (a_range _ (i_A _ I) b) as [Ha Hidx]; [pose proof (held_W c t b Em); lia|].
  rewrite Ha. cbn [negb]. set (p := fst b) in *.
  destruct (pg_tid (getp c p) =? t) eqn:Et.
  - (* local free *)
    unfold free_local. cbn [th_stk th_held th_ret th_backing th_set_held]. fold p.
    assert (Hown : own (getp c p) t = true) by (unfold own; rewrite Ha, Et; reflexivity).
    rewrite Hown. cbn [negb].
    set (pg1 := pg_set_lists (getp c p) (pg_free (getp c p)) (b :: pg_lfree (getp c p)) (sub16 (pg_used (getp c p)) 1)).
    set (th1 := th_set_held (gett c t) [] (remove_bid b (th_held (gett c t)))).
    assert (HA : forall nf pg', (pg' = pg1 \/ pg' = pg_set_full pg1 false) -> stk_blocks nf = [] ->
              InvA (sett (setp c p pg') t (th_set th1 nf (th_ret th1)))).
    { intros nf pg' Hpg Hnf.
      assert (EWF : forall P, (mW (sett (setp c p pg') t (th_set th1 nf (th_ret th1))) P + cnt P [b] = mW c P
                               /\ mF (sett (setp c p pg') t (th_set th1 nf (th_ret th1))) P = mF c P + cnt P [b])%nat).
      { intros P. destruct (mWF_sett_setp c t (th_set th1 nf (th_ret th1)) p pg' P Hwf) as [E1 E2].
        unfold th_W in E1. rewrite E in E1. cbn [th_held th_stk th_set th1 th_set_held] in E1. rewrite Hnf in E1.
        pose proof (cnt_remove_bid P b _ Em) as Er.
        destruct Hpg as [-> | ->]; cbn [pg_tf pg_free pg_lfree pg1 pg_set_lists pg_set_full stk_blocks flat_map] in E1, E2;
          rewrite ?cnt_app, ?cnt_cons, ?cnt_nil in *; split; lia. }
      apply (invA_transfer c _ p [b]); auto.
      - intros P. apply EWF.
      - intros P. apply EWF.
      - cbn. unfold onp, p. rewrite N.eqb_refl. reflexivity.
      - intros q. rewrite getp_sett, getp_setp. destruct (q =? p) eqn:Eq; [apply N.eqb_eq in Eq; subst q|reflexivity].
        destruct Hpg as [-> | ->]; reflexivity.
      - intros q. rewrite getp_sett, getp_setp. destruct (q =? p) eqn:Eq; [|reflexivity].
        destruct Hpg as [-> | ->]; reflexivity.
      - intros q. rewrite getp_sett, getp_setp. destruct (q =? p) eqn:Eq; [apply N.eqb_eq in Eq; subst q|apply (a_local _ (i_A _ I))].
        pose proof (a_local _ (i_A _ I) p) as L. unfold pg_blocks in *.
        assert (forallb (onp p) (pg_tf (getp c p) ++ pg_free (getp c p) ++ b :: pg_lfree (getp c p)) = true).
        { rewrite !forallb_app in *. cbn [forallb]. apply andb_prop in L as [L1 L2]. apply andb_prop in L2 as [L2 L3].
          rewrite L1, L2, L3. unfold onp at 1, p. rewrite N.eqb_refl. reflexivity. }
        destruct Hpg as [-> | ->]; exact H. }
    destruct (sub16 (pg_used (getp c p)) 1 =? 0) eqn:Eu.
    + destruct (keep && negb (pg_full (getp c p))); unfold ok_s, ok_t, good.
      * apply (start_priv c t p pg1 (th_set th1 [] (th_ret th1))); auto;
          try (apply HA; auto); try (intros f []).
      * apply (start_priv c t p pg1 (th_set th1 [PF p] (th_ret th1))); auto;
          try (apply HA; auto); try (intros f [<-|[]]; exact Logic.I).
        intros f [<-|[]]. split; [assumption|]. rewrite N.eqb_refl. cbn [pg_used pg1 pg_set_lists]. apply N.eqb_eq. assumption.
    + destruct (pg_full (getp c p)); unfold ok_s, ok_t, good.
      * apply (start_priv c t p (pg_set_full pg1 false) (th_set th1 [] (th_ret th1))); auto;
          try (apply HA; auto); try (intros f []).
      * apply (start_priv c t p pg1 (th_set th1 [] (th_ret th1))); auto;
          try (apply HA; auto); try (intros f []).
  - (* remote free: the block moves from the program's hands into the frame *)
    unfold good. apply step_thread_only; auto; rewrite ?E.
    + intros P. unfold th_W. rewrite E. cbn [th_held th_stk th_set_held stk_blocks flat_map fr_blocks app].
      pose proof (cnt_remove_bid P b _ Em). rewrite !cnt_cons, !cnt_nil. lia.
    + intros q. reflexivity.
    + intros q. reflexivity.
    + intros q. left. cbn. lia.
    + intros q h. cbn. discriminate.
    + intros h. cbn. discriminate.
    + intros f [<-|[]]. exact Logic.I.
Qed.

(* handing a live block to another thread *)
Lemma start_Give c t b t' : Inv c -> th_stk (gett c t) = [] -> good (start c t (gett c t) (OpGive b t')).
Proof.
  intros I E. cbn [start]. pose proof (i_wf _ I) as Hwf.
  destruct (mem_bid b (th_held (gett c t))) eqn:Em; cbn [negb orb]; [|exact Logic.I].
  apply mem_bid_In in Em.
  destruct (t' =? t) eqn:Et; [exact Logic.I|]. unfold good.
  set (th1 := th_set_held (gett c t) [] (remove_bid b (th_held (gett c t)))).
  set (c1 := sett c t th1).
  assert (G1 : gett c1 t' = gett c t') by (unfold c1; rewrite gett_sett, Et; reflexivity).
  rewrite G1.
  set (th2 := mkTh (th_stk (gett c t')) (b :: th_held (gett c t')) (th_ret (gett c t')) (th_backing (gett c t'))).
  (* first the giver (a non-conservative intermediate state), then the receiver: prove it directly *)
  set (c' := sett c1 t' th2).
  assert (Hwf1 : wf c1) by (apply wf_sett; assumption).
  assert (Gt : forall u, gett c' u = if u =? t' then th2 else if u =? t then th1 else gett c u).
  { intros u. unfold c', c1. rewrite !gett_sett. reflexivity. }
  assert (Gstk : forall u, th_stk (gett c' u) = th_stk (gett c u) /\ th_ret (gett c' u) = th_ret (gett c u)
                           /\ th_backing (gett c' u) = th_backing (gett c u)).
  { intros u. rewrite Gt. destruct (u =? t') eqn:E1; [apply N.eqb_eq in E1; subst u; auto|].
    destruct (u =? t) eqn:E2; [apply N.eqb_eq in E2; subst u; cbn; rewrite E; auto|auto]. }
  assert (EW : forall P, mW c' P = mW c P).
  { intros P. pose proof (mW_sett c1 Hwf1 t' th2 P) as E1. pose proof (mW_sett c Hwf t th1 P) as E2.
    rewrite G1 in E1. unfold th_W in *. rewrite E in E2. cbn [th_held th_stk th1 th2 th_set_held] in E1, E2.
    pose proof (cnt_remove_bid P b _ Em). rewrite cnt_cons in E1. unfold c', c1 in *. lia. }
  assert (A : agree t c c').
  { constructor; intros; try reflexivity.
    - left. reflexivity.
    - destruct (Gstk t0) as (-> & _). left. assumption.
    - destruct (Gstk t0) as (-> & _). assumption. }
  constructor.
  - apply wf_sett. assumption.
  - apply (invA_conserve c); [assumption| | | |].
    + intros P. rewrite EW. reflexivity.
    + intros q. reflexivity.
    + intros q. rewrite EW. change (getp c' q) with (getp c q). destruct (a_count _ (i_A _ I) q) as [C1 _]. exact C1.
    + intros q. apply (a_local _ (i_A _ I)).
  - apply (invB_same c); auto.
    + intros q. pose proof (mWin_sett c1 Hwf1 t' th2 q) as E1. pose proof (mWin_sett c Hwf t th1 q) as E2.
      rewrite G1 in E1. rewrite E in E2. cbn in E1, E2. unfold c', c1 in *. lia.
    + intros q. pose proof (mPw_sett c1 Hwf1 t' th2 q) as E1. pose proof (mPw_sett c Hwf t th1 q) as E2.
      rewrite G1 in E1. rewrite E in E2. cbn in E1, E2. unfold c', c1 in *. lia.
    + intros q. left. pose proof (mD_sett c1 Hwf1 t' th2 (onp q)) as E1. pose proof (mD_sett c Hwf t th1 (onp q)) as E2.
      rewrite G1 in E1. rewrite E in E2. cbn [th_stk th_ret th1 th2 th_set_held d1_stk] in E1, E2. unfold c', c1 in *. lia.
  - destruct (i_S _ I) as [D1 D2 D3 D4 D5 D6 D7 D8 D9]. constructor; auto.
    + intros u bk. destruct (Gstk u) as (_ & _ & ->). apply D3.
    + intros h. destruct (Gstk (hp_owner (geth c h))) as (_ & _ & Hb). change (geth c' h) with (geth c h). rewrite Hb. apply D4.
    + intros h. change (geth c' h) with (geth c h). specialize (D6 h). revert D6. apply forallb_impl. intros x.
      apply (del_ok_agree t). assumption.
    + intros u. destruct (Gstk u) as (-> & _). apply D7.
    + intros u. destruct (Gstk u) as (Es & _ & Eb). rewrite Es. specialize (D8 u). rewrite forallb_forall in D8.
      apply forallb_forall. intros f Hf. rewrite (fr_ok_th c' u (gett c u)) by assumption.
      apply (agree_used_same t c); [assumption|reflexivity|apply (stack_win_ok c u); assumption|apply D8; assumption].
    + intros u f. destruct (Gstk u) as (Es & Er & _). rewrite Es. intros Hf. specialize (D9 u f Hf).
      destruct f; cbn [hd_fr_okP] in *; auto. rewrite Es, Er. exact D9.
Qed.

(* mi_page_extend_free: fresh blocks above the capacity *)
Lemma start_Extend c t p n : Inv c -> th_stk (gett c t) = [] -> good (start c t (gett c t) (OpExtend p n)).
Proof.
  intros I E. cbn [start]. pose proof (i_wf _ I) as Hwf.
  destruct (own (getp c p) t) eqn:Eo; cbn [negb orb]; [|exact Logic.I].
  destruct (isnil (pg_free (getp c p))) eqn:Ef; cbn [negb orb]; [|exact Logic.I]. apply isnil_true in Ef.
  destruct (n =? 0) eqn:En; cbn [orb]; [exact Logic.I|]. apply N.eqb_neq in En.
  destruct (pg_res (getp c p) <? pg_cap (getp c p) + n) eqn:Er; [exact Logic.I|]. apply N.ltb_ge in Er.
  unfold good.
  set (new := mkblocks p (pg_cap (getp c p)) (N.to_nat n)).
  set (pg' := pg_set_cap (pg_set_lists (getp c p) new (pg_lfree (getp c p)) (pg_used (getp c p))) (pg_cap (getp c p) + n)).
  set (c' := setp c p pg').
  destruct (own_true _ _ Eo) as [Hal Htid].
  destruct (a_count _ (i_A _ I) p) as (C1 & C2 & C3 & C4).
  assert (Gp : forall q, getp c' q = if q =? p then pg' else getp c q) by (intros; apply getp_setp).
  assert (EW : forall P, mW c' P = mW c P).
  { intros P. pose proof (mW_setp c Hwf p pg' P) as E1. cbn [pg_tf pg' pg_set_cap pg_set_lists] in E1. unfold c'. lia. }
  assert (EF : forall P, (mF c' P = mF c P + cnt P new)%nat).
  { intros P. pose proof (mF_setp c Hwf p pg' P) as E1. rewrite Ef in E1.
    cbn [pg_free pg_lfree pg' pg_set_cap pg_set_lists] in E1. rewrite cnt_nil in E1. unfold c'. lia. }
  assert (Hnew : forall b, In b new -> fst b = p /\ pg_cap (getp c p) <= snd b < pg_cap (getp c p) + n).
  { intros b Hb. apply mkblocks_In in Hb. rewrite N2Nat.id in Hb. exact Hb. }
  assert (Hfresh : forall b, In b new -> (mW c (bid_eqb b) + mF c (bid_eqb b) = 0)%nat).
  { intros b Hb. destruct (Hnew b Hb) as [Hp Hi].
    destruct (Nat.eq_dec (mW c (bid_eqb b) + mF c (bid_eqb b)) 0) as [Z|Z]; [exact Z|].
    destruct (a_range _ (i_A _ I) b) as [_ R]; [lia|]. rewrite Hp in R. lia. }
  assert (A : agree t c c') by (apply agree_setp; [reflexivity|left; reflexivity]).
  constructor.
  - apply wf_setp. assumption.
  - constructor.
    + intros b. rewrite EW, EF. pose proof (a_uniq _ (i_A _ I) b). pose proof (mkblocks_cnt_eqb p (pg_cap (getp c p)) (N.to_nat n) b).
      fold new in H0. destruct (Nat.eq_dec (cnt (bid_eqb b) new) 0) as [Z|Z]; [lia|].
      assert (In b new) by (apply cnt_In; lia). pose proof (Hfresh b H1). lia.
    + intros b Hb. rewrite EW, EF in Hb. rewrite Gp.
      destruct (Nat.eq_dec (cnt (bid_eqb b) new) 0) as [Z|Z].
      * destruct (a_range _ (i_A _ I) b) as [R1 R2]; [lia|]. destruct (fst b =? p) eqn:Eb; [|auto].
        apply N.eqb_eq in Eb. rewrite Eb in *. cbn [pg_alive pg_cap pg' pg_set_cap pg_set_lists]. split; [assumption|lia].
      * assert (Hin : In b new) by (apply cnt_In; lia). destruct (Hnew b Hin) as [Hp Hi]. rewrite Hp, N.eqb_refl.
        cbn [pg_alive pg_cap pg' pg_set_cap pg_set_lists]. split; [assumption|lia].
    + intros q. rewrite Gp, EW, EF. destruct (q =? p) eqn:Eq.
      * apply N.eqb_eq in Eq. subst q. cbn [pg_used pg_cap pg_res pg' pg_set_cap pg_set_lists].
        unfold new. rewrite (cnt_all _ _ (mkblocks_onp p _ _)), mkblocks_length. repeat split; try lia.
      * rewrite cnt_none; [rewrite Nat.add_0_r; apply (a_count _ (i_A _ I))|].
        intros x Hx. destruct (Hnew x Hx) as [Hp _]. unfold onp. rewrite Hp, N.eqb_sym. exact Eq.
    + intros q. rewrite Gp. destruct (q =? p) eqn:Eq; [apply N.eqb_eq in Eq; subst q|apply (a_local _ (i_A _ I))].
      pose proof (a_local _ (i_A _ I) p) as L. unfold pg_blocks in *. cbn [pg_tf pg_free pg_lfree pg' pg_set_cap pg_set_lists].
      rewrite !forallb_app in *. apply andb_prop in L as [L1 L2]. apply andb_prop in L2 as [_ L3].
      rewrite L1, L3. unfold new. rewrite mkblocks_onp. reflexivity.
  - apply (invB_same c); auto.
    intros q. rewrite Gp. destruct (q =? p) eqn:Eq; [apply N.eqb_eq in Eq; subst q|]; reflexivity.
  - apply (invS_step c c' t); auto.
    + intros q. rewrite Gp. destruct (q =? p); [cbn; congruence|apply (s_dead _ (i_S _ I))].
    + apply (s_shape _ (i_S _ I)).
    + change (gett c' t) with (gett c t). rewrite E. reflexivity.
    + change (gett c' t) with (gett c t). intros f Hf. rewrite E in Hf. destruct Hf.
Qed.

(* mi_page_fresh_alloc + mi_page_init *)
Lemma start_Fresh c t p h res n : Inv c -> th_stk (gett c t) = [] -> good (start c t (gett c t) (OpFresh p h res n)).
Proof.
  intros I E. cbn [start]. pose proof (i_wf _ I) as Hwf.
  destruct (pg_alive (getp c p)) eqn:Ea; cbn [orb]; [exact Logic.I|].
  destruct (hown (geth c h) t) eqn:Eo; cbn [negb orb]; [|exact Logic.I].
  destruct (n =? 0) eqn:En; cbn [orb]; [exact Logic.I|]. apply N.eqb_neq in En.
  destruct (res <? n) eqn:Er; cbn [orb]; [exact Logic.I|]. apply N.ltb_ge in Er.
  destruct (65536 <=? res) eqn:Er2; [exact Logic.I|]. apply N.leb_gt in Er2.
  unfold good.
  pose proof (s_dead _ (i_S _ I) p Ea) as Hp0.
  set (new := mkblocks p 0 (N.to_nat n)).
  set (pg' := mkPg true t UseD [] (Some h) new [] 0 n res false).
  set (c' := setp c p pg').
  assert (Gp : forall q, getp c' q = if q =? p then pg' else getp c q) by (intros; apply getp_setp).
  assert (EW : forall P, mW c' P = mW c P).
  { intros P. pose proof (mW_setp c Hwf p pg' P) as E1. rewrite Hp0 in E1. cbn [pg_tf pg' pg0] in E1. unfold c'. lia. }
  assert (EF : forall P, (mF c' P = mF c P + cnt P new)%nat).
  { intros P. pose proof (mF_setp c Hwf p pg' P) as E1. rewrite Hp0 in E1.
    cbn [pg_free pg_lfree pg' pg0] in E1. rewrite !cnt_nil in E1. unfold c'. lia. }
  assert (Hnew : forall b, In b new -> fst b = p /\ snd b < n).
  { intros b Hb. apply mkblocks_In in Hb. rewrite N2Nat.id in Hb. split; [tauto|lia]. }
  assert (Hdeadp : forall b, fst b = p -> (mW c (bid_eqb b) + mF c (bid_eqb b) = 0)%nat).
  { intros b Hb. destruct (Nat.eq_dec (mW c (bid_eqb b) + mF c (bid_eqb b)) 0) as [Z|Z]; [exact Z|].
    destruct (a_range _ (i_A _ I) b) as [R _]; [lia|]. rewrite Hb in R. congruence. }
  destruct (a_count _ (i_A _ I) p) as (C1 & C2 & C3 & C4). rewrite Hp0 in C1, C2. cbn [pg_used pg_cap pg0] in C1, C2.
  assert (Halive_ne : forall q, pg_alive (getp c q) = true -> (q =? p) = false).
  { intros q Hq. apply N.eqb_neq. intros ->. congruence. }
  destruct (hown_true _ _ Eo) as [Hhal Hhown].
  (* nobody is deleting h: its owner is idle *)
  assert (Hnohd : forall u f, In f (th_stk (gett c u)) -> forall x y, f <> HD3 h x y /\ f <> HD4 h).
  { intros u f Hf x y. pose proof (s_frames _ (i_S _ I) u) as F. rewrite forallb_forall in F. specialize (F f Hf).
    split; intros ->; cbn [fr_ok] in F; rewrite ?andb_true_iff in F;
      repeat match goal with H : _ /\ _ |- _ => destruct H end;
      match goal with H : hown (geth c h) u = true |- _ => apply hown_true in H as [_ H]; rewrite Hhown in H; rewrite <- H in Hf end;
      rewrite E in Hf; destruct Hf. }
  constructor.
  - apply wf_setp. assumption.
  - constructor.
    + intros b. rewrite EW, EF. pose proof (a_uniq _ (i_A _ I) b). pose proof (mkblocks_cnt_eqb p 0 (N.to_nat n) b).
      fold new in H0. destruct (Nat.eq_dec (cnt (bid_eqb b) new) 0) as [Z|Z]; [lia|].
      assert (Hin : In b new) by (apply cnt_In; lia). destruct (Hnew b Hin) as [Hb _]. pose proof (Hdeadp b Hb). lia.
    + intros b Hb. rewrite EW, EF in Hb. rewrite Gp.
      destruct (Nat.eq_dec (cnt (bid_eqb b) new) 0) as [Z|Z].
      * destruct (a_range _ (i_A _ I) b) as [R1 R2]; [lia|]. rewrite (Halive_ne _ R1). auto.
      * assert (Hin : In b new) by (apply cnt_In; lia). destruct (Hnew b Hin) as [Hp Hi]. rewrite Hp, N.eqb_refl.
        cbn [pg_alive pg_cap pg']. auto.
    + intros q. rewrite Gp, EW, EF. destruct (q =? p) eqn:Eq.
      * apply N.eqb_eq in Eq. subst q. cbn [pg_used pg_cap pg_res pg'].
        unfold new. rewrite (cnt_all _ _ (mkblocks_onp p _ _)), mkblocks_length. repeat split; try lia.
      * rewrite cnt_none; [rewrite Nat.add_0_r; apply (a_count _ (i_A _ I))|].
        intros x Hx. destruct (Hnew x Hx) as [Hp _]. unfold onp. rewrite Hp, N.eqb_sym. exact Eq.
    + intros q. rewrite Gp. destruct (q =? p) eqn:Eq; [apply N.eqb_eq in Eq; subst q|apply (a_local _ (i_A _ I))].
      unfold pg_blocks. cbn [pg_tf pg_free pg_lfree pg' app]. rewrite app_nil_r. unfold new. apply mkblocks_onp.
  - apply (invB_same c); auto.
    intros q. rewrite Gp. destruct (q =? p) eqn:Eq; [apply N.eqb_eq in Eq; subst q; rewrite Hp0|]; reflexivity.
  - destruct (i_S _ I) as [D1 D2 D3 D4 D5 D6 D7 D8 D9].
    assert (Hdel : forall h' b, del_ok c h' b = true -> del_ok c' h' b = true).
    { intros h' b. unfold del_ok. change (geth c' h') with (geth c h'). change (gett c' (hp_owner (geth c h'))) with (gett c (hp_owner (geth c h'))).
      rewrite Gp. intros H. destruct (fst b =? p) eqn:Eb; [|exact H]. apply N.eqb_eq in Eb. rewrite Eb, Ea in H.
      rewrite andb_false_r in H. discriminate. }
    constructor; auto.
    + intros q. rewrite Gp. destruct (q =? p); [cbn; discriminate|apply D1].
    + intros q. rewrite Gp. destruct (q =? p) eqn:Eq; [|apply D2]. intros _. exists h. cbn [pg_heap pg_tid pg']. auto.
    + intros h'. change (geth c' h') with (geth c h'). specialize (D6 h'). revert D6. apply forallb_impl. intros x. apply Hdel.
    + intros u. change (gett c' u) with (gett c u). specialize (D8 u). revert D8. apply forallb_impl. intros f. apply fr_ok_mono.
      * intros q Hq. destruct (own_true _ _ Hq) as [Hq1 _]. rewrite Gp, (Halive_ne q Hq1). auto.
      * intros h' Hh'. auto.
      * intros h' b _. apply Hdel.
      * intros b h'. unfold rf_cond. change (geth c' h') with (geth c h'). rewrite Gp.
        destruct (fst b =? p) eqn:Eb; [apply N.eqb_eq in Eb; rewrite Eb, Ea; discriminate|auto].
      * intros h' bk q _. unfold hd3_cond. intros H. assert (H' := H). apply andb_prop in H' as [H' _].
        destruct (own_true _ _ H') as [Hq1 _]. rewrite Gp, (Halive_ne q Hq1). exact H.
    + intros u f Hf. change (gett c' u) with (gett c u) in *. specialize (D9 u f Hf).
      destruct f; cbn [hd_fr_okP] in *; auto.
      * intros q. rewrite Gp. destruct (q =? p) eqn:Eq; [|apply D9]. cbn [pg_alive pg_heap pg']. intros _ Hh. inversion Hh. subst h0.
        exfalso. destruct (Hnohd u _ Hf bk ps) as [X _]. apply X. reflexivity.
      * destruct D9 as [H1 H2]. split; [|exact H2]. intros q. rewrite Gp. destruct (q =? p) eqn:Eq; [|apply H1].
        cbn [pg_alive pg_heap pg']. intros _ Hh. inversion Hh. subst h0.
        destruct (Hnohd u _ Hf 0 []) as [_ X]. apply X. reflexivity.
Qed.

(* mi_heap_new / the first heap of a thread *)
Lemma new_heap_ext c c' t h bf :
  Inv c -> wf c' -> hp_st (geth c h) = HVirgin -> th_stk (gett c t) = [] ->
  (forall q, getp c' q = getp c q) ->
  (forall q, geth c' q = if q =? h then mkHp HAlive t bf [] else geth c q) ->
  (forall u, th_stk (gett c' u) = th_stk (gett c u) /\ th_ret (gett c' u) = th_ret (gett c u)) ->
  (forall u, th_backing (gett c' u) = if bf && (u =? t) then Some h else th_backing (gett c u)) ->
  (if bf then th_backing (gett c t) = None else True) ->
  (forall P, mW c' P = mW c P) -> (forall P, mF c' P = mF c P) ->
  (forall p, mWin c' p = mWin c p) -> (forall p, mPw c' p = mPw c p) -> (forall P, mD c' P = mD c P) ->
  Inv c'.
Proof.
  intros I Hwf' Hv E Gp Gh Gs Gb Hbf EW EF EWin EPw ED.
  assert (Hna : hp_alive (geth c h) = false) by (unfold hp_alive; rewrite Hv; reflexivity).
  assert (Hno : forall u, hown (geth c h) u = false) by (intros u; unfold hown; rewrite Hna; reflexivity).
  assert (Ghn : forall h0 u, hown (geth c h0) u = true -> geth c' h0 = geth c h0).
  { intros h0 u Hu. rewrite Gh. destruct (h0 =? h) eqn:Eq; [|reflexivity]. apply N.eqb_eq in Eq. subst h0. rewrite Hno in Hu. discriminate. }
  assert (Hdelh : hp_del (geth c h) = []) by (apply (s_hdead _ (i_S _ I)); assumption).
  destruct (i_S _ I) as [D1 D2 D3 D4 D5 D6 D7 D8 D9].
  assert (Hdel : forall h0 b, del_ok c h0 b = true -> del_ok c' h0 b = true).
  { intros h0 b. unfold del_ok. rewrite Gp. intros H. assert (H' := H). rewrite !andb_true_iff in H'. destruct H' as [[[H1 _] _] _].
    assert (Eh : geth c' h0 = geth c h0).
    { rewrite Gh. destruct (h0 =? h) eqn:Eq; [|reflexivity]. apply N.eqb_eq in Eq. subst h0. congruence. }
    rewrite Eh. destruct (Gs (hp_owner (geth c h0))) as [-> _]. exact H. }
  constructor.
  - exact Hwf'.
  - apply (invA_conserve c); [assumption| | | |].
    + intros P. rewrite EW, EF. reflexivity.
    + intros q. rewrite Gp. reflexivity.
    + intros q. rewrite Gp, EW. destruct (a_count _ (i_A _ I) q) as [C1 _]. exact C1.
    + intros q. rewrite Gp. apply (a_local _ (i_A _ I)).
  - apply (invB_same c); [assumption| | | |]; auto.
    + intros q. rewrite Gp. reflexivity.
    + intros q. left. rewrite ED. lia.
  - constructor.
    + intros q. rewrite Gp. apply D1.
    + intros q. rewrite Gp. intros Hq. destruct (D2 q Hq) as [h0 [Q1 Q2]]. exists h0. rewrite (Ghn h0 _ Q2). auto.
    + intros u bk. rewrite Gb. destruct (bf && (u =? t)) eqn:Eb.
      * intros Hs. inversion Hs. subst bk. apply andb_prop in Eb as [Eb1 Eb2]. apply N.eqb_eq in Eb2. subst u bf.
        rewrite Gh, N.eqb_refl. cbn. rewrite N.eqb_refl. auto.
      * intros Hs. destruct (D3 u bk Hs) as [Q1 Q2]. rewrite (Ghn bk _ Q1). auto.
    + intros h0. rewrite Gh. destruct (h0 =? h) eqn:Eq.
      * apply N.eqb_eq in Eq. subst h0. cbn [hp_alive hp_st hstate_alive hp_backing hp_owner]. intros _ ->. rewrite Gb, N.eqb_refl. reflexivity.
      * intros H1 H2. specialize (D4 h0 H1 H2). rewrite Gb. destruct (bf && (hp_owner (geth c h0) =? t)) eqn:Eb; [|exact D4].
        apply andb_prop in Eb as [Eb1 Eb2]. apply N.eqb_eq in Eb2. subst bf. rewrite Eb2, Hbf in D4. discriminate.
    + intros h0. rewrite Gh. destruct (h0 =? h) eqn:Eq; [reflexivity|apply D5].
    + intros h0. rewrite Gh. destruct (h0 =? h) eqn:Eq; [reflexivity|].
      specialize (D6 h0). revert D6. apply forallb_impl. intros x. apply Hdel.
    + intros u. destruct (Gs u) as [-> _]. apply D7.
    + intros u. destruct (Gs u) as [Es _]. rewrite Es. destruct (N.eq_dec u t) as [->|Hne]; [rewrite E; reflexivity|].
      rewrite (forallb_ext_in _ (fr_ok c' u (gett c u))).
      * specialize (D8 u). revert D8. apply forallb_impl. intros f. apply fr_ok_mono.
        -- intros q Hq. rewrite Gp. auto.
        -- intros h0 Hh0. rewrite (Ghn h0 _ Hh0). auto.
        -- intros h0 b _. apply Hdel.
        -- intros b h0. unfold rf_cond. rewrite !Gp. intros H. assert (H' := H). rewrite !andb_true_iff in H'.
           destruct H' as [[_ H1] _]. rewrite (Ghn h0 _ H1). destruct (Gs (pg_tid (getp c (fst b)))) as [-> _]. exact H.
        -- intros h0 bk q _. unfold hd3_cond. rewrite Gp. auto.
      * intros f _. apply fr_ok_th. rewrite Gb. apply N.eqb_neq in Hne. rewrite Hne, andb_false_r. reflexivity.
    + intros u f. destruct (Gs u) as [Es Er]. rewrite Es. intros Hf. specialize (D9 u f Hf).
      pose proof (D8 u) as F. rewrite forallb_forall in F. specialize (F f Hf).
      destruct f; cbn [hd_fr_okP] in *; auto.
      * intros q. rewrite Gp. apply D9.
      * destruct D9 as [H1 H2]. split; [intros q; rewrite Gp; apply H1|]. rewrite Es, Er.
        cbn [fr_ok] in F. apply andb_prop in F as [F _]. rewrite (Ghn h0 _ F). exact H2.
Qed.

Lemma start_HeapNew c t h : Inv c -> th_stk (gett c t) = [] -> good (start c t (gett c t) (OpHeapNew h)).
Proof.
  intros I E. cbn [start]. pose proof (i_wf _ I) as Hwf.
  destruct (hp_st (geth c h)) eqn:Ev; try exact Logic.I.
  assert (Hna : hp_alive (geth c h) = false) by (unfold hp_alive; rewrite Ev; reflexivity).
  pose proof (s_hdead _ (i_S _ I) h Hna) as Hdel.
  destruct (th_backing (gett c t)) as [bk|] eqn:Eb; unfold good.
  - (* a further heap *)
    set (hp' := mkHp HAlive t false []). set (c' := seth c h hp').
    apply (new_heap_ext c c' t h false); auto.
    + apply wf_seth. assumption.
    + intros q. unfold c'. apply geth_seth.
    + intros P. pose proof (mW_seth c Hwf h hp' P) as E1. rewrite Hdel in E1. cbn in E1. unfold c'. lia.
    + intros P. pose proof (mD_seth c Hwf h hp' P) as E1. rewrite Hdel in E1. cbn in E1. unfold c'. lia.
  - (* the backing heap *)
    set (hp' := mkHp HAlive t true []). set (th' := mkTh [] (th_held (gett c t)) (th_ret (gett c t)) (Some h)).
    set (c1 := seth c h hp'). set (c' := sett c1 t th').
    assert (Hwf1 : wf c1) by (apply wf_seth; assumption).
    apply (new_heap_ext c c' t h true); auto.
    + apply wf_sett. assumption.
    + intros q. unfold c', c1. rewrite geth_sett. apply geth_seth.
    + intros u. unfold c'. rewrite gett_sett. destruct (u =? t) eqn:Eu; [apply N.eqb_eq in Eu; subst u; cbn; rewrite E|]; auto.
    + intros u. unfold c'. rewrite gett_sett. cbn [andb]. destruct (u =? t); reflexivity.
    + intros P. pose proof (mW_sett c1 Hwf1 t th' P) as E1. pose proof (mW_seth c Hwf h hp' P) as E2.
      rewrite Hdel in E2. change (gett c1 t) with (gett c t) in E1. unfold th_W in E1. rewrite E in E1. cbn in E1, E2.
      unfold c', c1 in *. lia.
    + intros p. pose proof (mWin_sett c1 Hwf1 t th' p) as E1. change (gett c1 t) with (gett c t) in E1. rewrite E in E1.
      cbn in E1. unfold c', c1 in *. change (mWin (seth c h hp') p) with (mWin c p) in E1. lia.
    + intros p. pose proof (mPw_sett c1 Hwf1 t th' p) as E1. change (gett c1 t) with (gett c t) in E1. rewrite E in E1.
      cbn in E1. unfold c', c1 in *. change (mPw (seth c h hp') p) with (mPw c p) in E1. lia.
    + intros P. pose proof (mD_sett c1 Hwf1 t th' P) as E1. pose proof (mD_seth c Hwf h hp' P) as E2.
      rewrite Hdel in E2. change (gett c1 t) with (gett c t) in E1. rewrite E in E1. cbn in E1, E2.
      unfold c', c1 in *. lia.
Qed.

(* ------------------------------------------------------------------------------------------ *)
(* every transition preserves the invariant and never reaches an error                        *)
(* ------------------------------------------------------------------------------------------ *)
Theorem cstep_good c t ch : Inv c -> good (cstep c t ch).
Proof.
  intros I. unfold cstep.
  destruct (th_stk (gett c t)) as [|fr rest] eqn:E.
  - destruct ch as [| |o]; try exact Logic.I.
    destruct o.
    + apply start_HeapNew; assumption.
    + apply start_Fresh; assumption.
    + apply start_Extend; assumption.
    + apply start_Pop; assumption.
    + apply start_Free; assumption.
    + apply start_Give; assumption.
    + apply start_simple; auto.
    + apply start_ToFull; assumption.
    + apply start_simple; auto.
    + apply start_simple; auto.
    + apply start_simple; auto.
    + apply start_simple; auto.
    + apply start_simple; auto.
    + apply start_simple; auto.
  - assert (Hfr : forall alt, good (fstep c t (gett c t) fr rest alt)).
    { intros alt. destruct fr.
      - apply step_RF1; assumption.
      - apply step_RF2; assumption.
      - apply step_RF3; assumption.
      - apply step_RF4; assumption.
      - apply step_RF5; assumption.
      - apply step_RF6; assumption.
      - apply step_RF7; assumption.
      - apply step_TU1; assumption.
      - apply step_TU2; assumption.
      - apply step_TC1; assumption.
      - apply step_TC2; assumption.
      - apply step_TC3; assumption.
      - apply step_FC1; assumption.
      - apply step_FC2; assumption.
      - apply step_DP1; assumption.
      - apply step_DP2; assumption.
      - apply step_DP3; assumption.
      - apply step_DP4; assumption.
      - apply step_DP5; assumption.
      - apply step_DP6; assumption.
      - apply step_DA; assumption.
      - apply step_PF; assumption.
      - apply step_HC2; assumption.
      - apply step_HC3; assumption.
      - apply step_HC4; assumption.
      - apply step_HD2; assumption.
      - destruct ps; [apply step_HD3_nil|apply step_HD3_cons]; assumption.
      - apply step_HD4; assumption. }
    destruct ch; [apply Hfr|apply Hfr|exact Logic.I].
Qed.
