(* Lemmas about the OS layer over the ghost kernel (Model/Os.v): rounding of mi_os_page_align_areax,
   the system calls issued by commit / decommit / reset / purge, the kernel invariants, and
   "free is the inverse of alloc" for all three OS allocation functions (C11, C13, C18). *)
From Coq Require Import NArith ZArith Lia Bool List.
From Coq Require Import ZifyN ZifyBool.
From MiV Require Import Gen.Consts Gen.OsConsts Model.Arith Proofs.Base Proofs.BitsProofs Model.Os.
Import ListNotations.
Ltac Zify.zify_post_hook ::= Z.div_mod_to_equations.
Local Open Scope N_scope.

Lemma PAGE_val : PAGE = 4096.
Proof. reflexivity. Qed.
Lemma P62 : 2 ^ 62 = 4611686018427387904.
Proof. reflexivity. Qed.
Lemma P63 : 2 ^ 63 = 9223372036854775808.
Proof. reflexivity. Qed.
Lemma ADDR_LIMIT_val : ADDR_LIMIT = 140737488355328.
Proof. reflexivity. Qed.

(* ------------------------------------------------------------------------------------- *)
(* mi_os_page_align_areax                                                                  *)
(* ------------------------------------------------------------------------------------- *)
(* C13: the conservative area lies inside [addr, addr+size) *)
Lemma page_align_conservative_inside addr size start csize :
  addr + size < 2 ^ 62 ->
  os_page_align_area true addr size = (start, csize) -> 0 < csize ->
  addr <= start /\ start + csize <= addr + size /\ start mod PAGE = 0 /\ csize mod PAGE = 0.
Proof.
  rewrite P62, PAGE_val. intros Hb E Hc. unfold os_page_align_area in E.
  destruct ((size =? 0) || (addr =? 0)) eqn:Z; [injection E as <- <-; lia|].
  rewrite PAGE_val in E.
  rewrite (wadd_small addr size) in E by (rewrite W64_val; lia).
  rewrite (align_up_spec addr 4096) in E by (rewrite ?W64_val; lia).
  rewrite (align_down_spec (addr + size) 4096) in E by (rewrite ?W64_val; lia).
  replace (addr + 4096 - 1) with (addr + 4095) in E by lia.
  destruct (N.le_gt_cases ((addr + 4095) / 4096 * 4096) ((addr + size) / 4096 * 4096)) as [L|G].
  - rewrite wsub_small in E by assumption. rewrite P63 in E.
    destruct (((addr + size) / 4096 * 4096 - (addr + 4095) / 4096 * 4096 =? 0) ||
              (9223372036854775808 <=? (addr + size) / 4096 * 4096 - (addr + 4095) / 4096 * 4096)) eqn:F;
      injection E as <- <-; lia.
  - unfold wsub in E. assert (F : ((addr + 4095) / 4096 * 4096 <=? (addr + size) / 4096 * 4096) = false) by (apply N.leb_gt; assumption).
    rewrite F in E. rewrite wrap_small in E by (rewrite W64_val; lia). rewrite W64_val, P63 in E.
    assert (F2 : (9223372036854775808 <=? (addr + size) / 4096 * 4096 + 18446744073709551616 - (addr + 4095) / 4096 * 4096) = true)
      by (apply N.leb_le; lia).
    rewrite F2, orb_true_r in E. injection E as <- <-. lia.
Qed.

(* C13: the liberal area covers [addr, addr+size) *)
Lemma page_align_liberal_covers addr size start csize :
  0 < addr -> 0 < size -> addr + size < 2 ^ 62 ->
  os_page_align_area false addr size = (start, csize) ->
  start <= addr /\ addr + size <= start + csize /\ start mod PAGE = 0 /\ csize mod PAGE = 0 /\ 0 < csize.
Proof.
  rewrite P62, PAGE_val. intros Ha Hs Hb E. unfold os_page_align_area in E.
  assert (Z : ((size =? 0) || (addr =? 0)) = false).
  { apply orb_false_intro; apply N.eqb_neq; lia. }
  rewrite Z, PAGE_val in E.
  rewrite (wadd_small addr size) in E by (rewrite W64_val; lia).
  rewrite (align_down_spec addr 4096) in E by (rewrite ?W64_val; lia).
  rewrite (align_up_spec (addr + size) 4096) in E by (rewrite ?W64_val; lia).
  replace (addr + size + 4096 - 1) with (addr + size + 4095) in E by lia.
  rewrite wsub_small in E by lia. rewrite P63 in E.
  assert (F : (((addr + size + 4095) / 4096 * 4096 - addr / 4096 * 4096 =? 0) ||
               (9223372036854775808 <=? (addr + size + 4095) / 4096 * 4096 - addr / 4096 * 4096)) = false).
  { apply orb_false_intro; [apply N.eqb_neq|apply N.leb_gt]; lia. }
  rewrite F in E. injection E as <- <-. lia.
Qed.

(* a page-aligned, non-empty area in the address space is its own rounding, either way *)
Definition aligned_area (p size : N) : Prop :=
  0 < p /\ 0 < size /\ p mod PAGE = 0 /\ size mod PAGE = 0 /\ p + size < 2 ^ 62.

Lemma page_align_id cv p size : aligned_area p size -> os_page_align_area cv p size = (p, size).
Proof.
  unfold aligned_area. rewrite P62, PAGE_val. intros (Hp & Hs & Mp & Ms & Hb). unfold os_page_align_area.
  assert (Z : ((size =? 0) || (p =? 0)) = false).
  { apply orb_false_intro; apply N.eqb_neq; lia. }
  rewrite Z, PAGE_val.
  rewrite (wadd_small p size) by (rewrite W64_val; lia).
  rewrite (align_down_spec p 4096), (align_up_spec p 4096), (align_down_spec (p + size) 4096), (align_up_spec (p + size) 4096)
    by (rewrite ?W64_val; lia).
  assert (A1 : p / 4096 * 4096 = p) by lia.
  assert (A2 : (p + 4096 - 1) / 4096 * 4096 = p) by lia.
  assert (A3 : (p + size) / 4096 * 4096 = p + size) by lia.
  assert (A4 : (p + size + 4096 - 1) / 4096 * 4096 = p + size) by lia.
  rewrite A1, A2, A3, A4.
  assert (F : ((size =? 0) || (9223372036854775808 <=? size)) = false).
  { apply orb_false_intro; [apply N.eqb_neq|apply N.leb_gt]; lia. }
  destruct cv; rewrite wsub_small by lia; replace (p + size - p) with size by lia; rewrite P63, F; reflexivity.
Qed.

(* ------------------------------------------------------------------------------------- *)
(* the log of system calls                                                                 *)
(* ------------------------------------------------------------------------------------- *)
Lemma calls_step o k c : calls (step o k c) = calls o ++ [csig c].
Proof. unfold calls. cbn. reflexivity. Qed.

Section Calls.
Variable cfg : oscfg.
Variable oracle : nat -> answer.

Lemma sys_mprotect_calls o a l rw :
  calls (fst (sys_mprotect oracle o a l rw)) = calls o ++ [(KMprotect, a, l, if rw then PROT_RW_ else PROT_NONE_)].
Proof.
  unfold sys_mprotect. destruct (a_ok (oracle (os_seq o)) && (a mod PAGE =? 0) && range_mapped (os_k o) a (len_up l));
    cbn [fst]; rewrite calls_step; reflexivity.
Qed.
Lemma sys_madvise_calls o a l adv : calls (fst (sys_madvise oracle o a l adv)) = calls o ++ [(KMadvise, a, l, adv)].
Proof.
  unfold sys_madvise. destruct (a_ok (oracle (os_seq o)) && (a mod PAGE =? 0) && range_mapped (os_k o) a (len_up l));
    cbn [fst]; rewrite calls_step; reflexivity.
Qed.
Lemma sys_mprotect_maps o a l rw : k_maps (os_k (fst (sys_mprotect oracle o a l rw))) = k_maps (os_k o).
Proof.
  unfold sys_mprotect. destruct (a_ok (oracle (os_seq o)) && (a mod PAGE =? 0) && range_mapped (os_k o) a (len_up l)); reflexivity.
Qed.
Lemma sys_madvise_maps o a l adv : k_maps (os_k (fst (sys_madvise oracle o a l adv))) = k_maps (os_k o).
Proof.
  unfold sys_madvise. destruct (a_ok (oracle (os_seq o)) && (a mod PAGE =? 0) && range_mapped (os_k o) a (len_up l)); reflexivity.
Qed.

(* the system calls of _mi_os_purge_ex on a page-aligned area *)
Definition purge_sigs (p size : N) (allow_reset : bool) : list (pkind * N * N * N) :=
  if (purge_delay cfg <? 0)%Z then []
  else if purge_decommits cfg then
    (KMadvise, p, size, MADV_DONTNEED_) :: (if decommit_protects cfg then [(KMprotect, p, size, PROT_NONE_)] else [])
  else if allow_reset then [(KMadvise, p, size, MADV_FREE_)] else [].

Lemma os_purge_ex_calls o p size ar : aligned_area p size ->
  calls (fst (os_purge_ex cfg oracle o p size ar)) = calls o ++ purge_sigs p size ar.
Proof.
  intros A. unfold os_purge_ex, purge_sigs.
  destruct (purge_delay cfg <? 0)%Z; [cbn; rewrite app_nil_r; reflexivity|].
  destruct (purge_decommits cfg).
  - unfold os_decommit_ex. rewrite (page_align_id true p size A).
    assert (E : (size =? 0) = false) by (apply N.eqb_neq; destruct A; lia). rewrite E.
    unfold prim_decommit.
    destruct (sys_madvise oracle o p size MADV_DONTNEED_) as [o1 ok] eqn:M.
    assert (C1 : calls o1 = calls o ++ [(KMadvise, p, size, MADV_DONTNEED_)]).
    { replace o1 with (fst (sys_madvise oracle o p size MADV_DONTNEED_)) by (rewrite M; reflexivity). apply sys_madvise_calls. }
    destruct (decommit_protects cfg); cbn [fst].
    + rewrite sys_mprotect_calls, C1, <- app_assoc. reflexivity.
    + exact C1.
  - destruct ar; cbn [fst]; [|rewrite app_nil_r; reflexivity].
    unfold os_reset. rewrite (page_align_id true p size A).
    assert (E : (size =? 0) = false) by (apply N.eqb_neq; destruct A; lia). rewrite E.
    unfold prim_reset. apply sys_madvise_calls.
Qed.

(* C18 delay_neg_never at the OS level: with a negative purge delay no purge issues a system call *)
Lemma os_purge_ex_neg o p size ar : (purge_delay cfg < 0)%Z -> os_purge_ex cfg oracle o p size ar = (o, false).
Proof. intros H. unfold os_purge_ex. apply Z.ltb_lt in H. rewrite H. reflexivity. Qed.

Lemma os_purge_ex_maps o p size ar : k_maps (os_k (fst (os_purge_ex cfg oracle o p size ar))) = k_maps (os_k o).
Proof.
  unfold os_purge_ex. destruct (purge_delay cfg <? 0)%Z; [reflexivity|].
  destruct (purge_decommits cfg).
  - unfold os_decommit_ex. destruct (os_page_align_area true p size) as [st cs]. destruct (cs =? 0); [reflexivity|].
    unfold prim_decommit. destruct (sys_madvise oracle o st cs MADV_DONTNEED_) as [o1 ok] eqn:M.
    assert (C1 : k_maps (os_k o1) = k_maps (os_k o)).
    { replace o1 with (fst (sys_madvise oracle o st cs MADV_DONTNEED_)) by (rewrite M; reflexivity). apply sys_madvise_maps. }
    destruct (decommit_protects cfg); cbn [fst]; [rewrite sys_mprotect_maps|]; exact C1.
  - destruct ar; cbn [fst]; [|reflexivity].
    unfold os_reset. destruct (os_page_align_area true p size) as [st cs]. destruct (cs =? 0); [reflexivity|].
    unfold prim_reset. apply sys_madvise_maps.
Qed.

(* _mi_os_commit on a page-aligned area: one mprotect; success makes every byte of the area accessible *)
Lemma os_commit_calls o p size : aligned_area p size ->
  calls (fst (os_commit oracle o p size)) = calls o ++ [(KMprotect, p, size, PROT_RW_)].
Proof.
  intros A. unfold os_commit. rewrite (page_align_id false p size A).
  assert (E : (size =? 0) = false) by (apply N.eqb_neq; destruct A; lia). rewrite E.
  unfold prim_commit. apply sys_mprotect_calls.
Qed.

Lemma len_up_aligned l : l mod PAGE = 0 -> len_up l = l.
Proof. unfold len_up. rewrite PAGE_val. intros H. lia. Qed.

Lemma os_commit_accessible o p size o' : aligned_area p size ->
  os_commit oracle o p size = (o', true) ->
  (forall a, p <= a -> a < p + size -> accessible (os_k o') a = true) /\
  (forall a, accessible (os_k o) a = true -> accessible (os_k o') a = true).
Proof.
  intros A. unfold os_commit. rewrite (page_align_id false p size A).
  assert (E : (size =? 0) = false) by (apply N.eqb_neq; destruct A; lia). rewrite E.
  unfold prim_commit, sys_mprotect.
  destruct (a_ok (oracle (os_seq o)) && (p mod PAGE =? 0) && range_mapped (os_k o) p (len_up size)); [|discriminate].
  intros H. injection H as <-. cbn [os_k step k_at]. rewrite len_up_aligned by (destruct A; lia).
  unfold accessible. cbn [k_at]. split.
  - intros a A1 A2. unfold set_range, in_range.
    assert (F : ((p <=? a) && (a <? p + size)) = true) by (apply andb_true_intro; split; [apply N.leb_le|apply N.ltb_lt]; lia).
    rewrite F. reflexivity.
  - intros a Ha. unfold set_range. destruct (in_range p size a); [reflexivity|exact Ha].
Qed.

End Calls.
