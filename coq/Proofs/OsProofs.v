(* Lemmas about the OS layer over the ghost kernel (Model/Os.v): rounding of mi_os_page_align_areax,
   the system calls issued by commit / decommit / reset / purge, the kernel invariants, and
   "free is the inverse of alloc" for all three OS allocation functions (C11, C13, C18). *)
From Coq Require Import NArith ZArith Lia Bool List.
From Coq Require Import ZifyN ZifyBool.
From MiV Require Import Gen.Consts Gen.OsConsts Model.Arith Proofs.Base Proofs.BitsProofs Model.Os.
Import ListNotations.
Ltac Zify.zify_post_hook ::= Z.div_mod_to_equations.
Local Open Scope N_scope.

Lemma PAGE_val : PAGE = 4096.
Proof. reflexivity. Qed.
Lemma P62 : 2 ^ 62 = 4611686018427387904.
Proof. reflexivity. Qed.
Lemma P63 : 2 ^ 63 = 9223372036854775808.
Proof. reflexivity. Qed.
Lemma ADDR_LIMIT_val : ADDR_LIMIT = 140737488355328.
Proof. reflexivity. Qed.

(* ------------------------------------------------------------------------------------- *)
(* mi_os_page_align_areax                                                                  *)
(* ------------------------------------------------------------------------------------- *)
(* C13: the conservative area lies inside [addr, addr+size) *)
Lemma page_align_conservative_inside addr size start csize :
  addr + size < 2 ^ 62 ->
  os_page_align_area true addr size = (start, csize) -> 0 < csize ->
  addr <= start /\ start + csize <= addr + size /\ start mod PAGE = 0 /\ csize mod PAGE = 0.
Proof.
  rewrite P62, PAGE_val. intros Hb E Hc. unfold os_page_align_area in E.
  destruct ((size =? 0) || (addr =? 0)) eqn:Z; [injection E as <- <-; lia|].
  rewrite PAGE_val in E.
  rewrite (wadd_small addr size) in E by (rewrite W64_val; lia).
  rewrite (align_up_spec addr 4096) in E by (rewrite ?W64_val; lia).
  rewrite (align_down_spec (addr + size) 4096) in E by (rewrite ?W64_val; lia).
  replace (addr + 4096 - 1) with (addr + 4095) in E by lia.
  destruct (N.le_gt_cases ((addr + 4095) / 4096 * 4096) ((addr + size) / 4096 * 4096)) as [L|G].
  - rewrite wsub_small in E by assumption. rewrite P63 in E.
    destruct (((addr + size) / 4096 * 4096 - (addr + 4095) / 4096 * 4096 =? 0) ||
              (9223372036854775808 <=? (addr + size) / 4096 * 4096 - (addr + 4095) / 4096 * 4096)) eqn:F;
      injection E as <- <-; lia.
  - unfold wsub in E. assert (F : ((addr + 4095) / 4096 * 4096 <=? (addr + size) / 4096 * 4096) = false) by (apply N.leb_gt; assumption).
    rewrite F in E. rewrite wrap_small in E by (rewrite W64_val; lia). rewrite W64_val, P63 in E.
    assert (F2 : (9223372036854775808 <=? (addr + size) / 4096 * 4096 + 18446744073709551616 - (addr + 4095) / 4096 * 4096) = true)
      by (apply N.leb_le; lia).
    rewrite F2, orb_true_r in E. injection E as <- <-. lia.
Qed.

(* C13: the liberal area covers [addr, addr+size) *)
Lemma page_align_liberal_covers addr size start csize :
  0 < addr -> 0 < size -> addr + size < 2 ^ 62 ->
  os_page_align_area false addr size = (start, csize) ->
  start <= addr /\ addr + size <= start + csize /\ start mod PAGE = 0 /\ csize mod PAGE = 0 /\ 0 < csize.
Proof.
  rewrite P62, PAGE_val. intros Ha Hs Hb E. unfold os_page_align_area in E.
  assert (Z : ((size =? 0) || (addr =? 0)) = false).
  { apply orb_false_intro; apply N.eqb_neq; lia. }
  rewrite Z, PAGE_val in E.
  rewrite (wadd_small addr size) in E by (rewrite W64_val; lia).
  rewrite (align_down_spec addr 4096) in E by (rewrite ?W64_val; lia).
  rewrite (align_up_spec (addr + size) 4096) in E by (rewrite ?W64_val; lia).
  replace (addr + size + 4096 - 1) with (addr + size + 4095) in E by lia.
  rewrite wsub_small in E by lia. rewrite P63 in E.
  assert (F : (((addr + size + 4095) / 4096 * 4096 - addr / 4096 * 4096 =? 0) ||
               (9223372036854775808 <=? (addr + size + 4095) / 4096 * 4096 - addr / 4096 * 4096)) = false).
  { apply orb_false_intro; [apply N.eqb_neq|apply N.leb_gt]; lia. }
  rewrite F in E. injection E as <- <-. lia.
Qed.

(* a page-aligned, non-empty area in the address space is its own rounding, either way *)
Definition aligned_area (p size : N) : Prop :=
  0 < p /\ 0 < size /\ p mod PAGE = 0 /\ size mod PAGE = 0 /\ p + size < 2 ^ 62.

Lemma page_align_id cv p size : aligned_area p size -> os_page_align_area cv p size = (p, size).
Proof.
  unfold aligned_area. rewrite P62, PAGE_val. intros (Hp & Hs & Mp & Ms & Hb). unfold os_page_align_area.
  assert (Z : ((size =? 0) || (p =? 0)) = false).
  { apply orb_false_intro; apply N.eqb_neq; lia. }
  rewrite Z, PAGE_val.
  rewrite (wadd_small p size) by (rewrite W64_val; lia).
  rewrite (align_down_spec p 4096), (align_up_spec p 4096), (align_down_spec (p + size) 4096), (align_up_spec (p + size) 4096)
    by (rewrite ?W64_val; lia).
  assert (A1 : p / 4096 * 4096 = p) by lia.
  assert (A2 : (p + 4096 - 1) / 4096 * 4096 = p) by lia.
  assert (A3 : (p + size) / 4096 * 4096 = p + size) by lia.
  assert (A4 : (p + size + 4096 - 1) / 4096 * 4096 = p + size) by lia.
  rewrite A1, A2, A3, A4.
  assert (F : ((size =? 0) || (9223372036854775808 <=? size)) = false).
  { apply orb_false_intro; [apply N.eqb_neq|apply N.leb_gt]; lia. }
  destruct cv; rewrite wsub_small by lia; replace (p + size - p) with size by lia; rewrite P63, F; reflexivity.
Qed.

(* ------------------------------------------------------------------------------------- *)
(* the log of system calls                                                                 *)
(* ------------------------------------------------------------------------------------- *)
Lemma calls_step o k c : calls (step o k c) = calls o ++ [csig c].
Proof. unfold calls. cbn. reflexivity. Qed.

Section Calls.
Variable cfg : oscfg.
Variable oracle : nat -> answer.

Lemma sys_mprotect_calls o a l rw :
  calls (fst (sys_mprotect oracle o a l rw)) = calls o ++ [(KMprotect, a, l, if rw then PROT_RW_ else PROT_NONE_)].
Proof.
  unfold sys_mprotect. destruct (a_ok (oracle (os_seq o)) && (a mod PAGE =? 0) && range_mapped (os_k o) a (len_up l));
    cbn [fst]; rewrite calls_step; reflexivity.
Qed.
Lemma sys_madvise_calls o a l adv : calls (fst (sys_madvise oracle o a l adv)) = calls o ++ [(KMadvise, a, l, adv)].
Proof.
  unfold sys_madvise. destruct (a_ok (oracle (os_seq o)) && (a mod PAGE =? 0) && range_mapped (os_k o) a (len_up l));
    cbn [fst]; rewrite calls_step; reflexivity.
Qed.
Lemma sys_mprotect_maps o a l rw : k_maps (os_k (fst (sys_mprotect oracle o a l rw))) = k_maps (os_k o).
Proof.
  unfold sys_mprotect. destruct (a_ok (oracle (os_seq o)) && (a mod PAGE =? 0) && range_mapped (os_k o) a (len_up l)); reflexivity.
Qed.
Lemma sys_madvise_maps o a l adv : k_maps (os_k (fst (sys_madvise oracle o a l adv))) = k_maps (os_k o).
Proof.
  unfold sys_madvise. destruct (a_ok (oracle (os_seq o)) && (a mod PAGE =? 0) && range_mapped (os_k o) a (len_up l)); reflexivity.
Qed.

(* the system calls of _mi_os_purge_ex on a page-aligned area *)
Definition purge_sigs (p size : N) (allow_reset : bool) : list (pkind * N * N * N) :=
  if (purge_delay cfg <? 0)%Z then []
  else if purge_decommits cfg then
    (KMadvise, p, size, MADV_DONTNEED_) :: (if decommit_protects cfg then [(KMprotect, p, size, PROT_NONE_)] else [])
  else if allow_reset then [(KMadvise, p, size, MADV_FREE_)] else [].

Lemma os_purge_ex_calls o p size ar : aligned_area p size ->
  calls (fst (os_purge_ex cfg oracle o p size ar)) = calls o ++ purge_sigs p size ar.
Proof.
  intros A. unfold os_purge_ex, purge_sigs.
  destruct (purge_delay cfg <? 0)%Z; [cbn; rewrite app_nil_r; reflexivity|].
  destruct (purge_decommits cfg).
  - unfold os_decommit_ex. rewrite (page_align_id true p size A).
    assert (E : (size =? 0) = false) by (apply N.eqb_neq; destruct A; lia). rewrite E.
    unfold prim_decommit.
    destruct (sys_madvise oracle o p size MADV_DONTNEED_) as [o1 ok] eqn:M.
    assert (C1 : calls o1 = calls o ++ [(KMadvise, p, size, MADV_DONTNEED_)]).
    { replace o1 with (fst (sys_madvise oracle o p size MADV_DONTNEED_)) by (rewrite M; reflexivity). apply sys_madvise_calls. }
    destruct (decommit_protects cfg); cbn [fst].
    + rewrite sys_mprotect_calls, C1, <- app_assoc. reflexivity.
    + exact C1.
  - destruct ar; cbn [fst]; [|rewrite app_nil_r; reflexivity].
    unfold os_reset. rewrite (page_align_id true p size A).
    assert (E : (size =? 0) = false) by (apply N.eqb_neq; destruct A; lia). rewrite E.
    unfold prim_reset. apply sys_madvise_calls.
Qed.

(* C18 delay_neg_never at the OS level: with a negative purge delay no purge issues a system call *)
Lemma os_purge_ex_neg o p size ar : (purge_delay cfg < 0)%Z -> os_purge_ex cfg oracle o p size ar = (o, false).
Proof. intros H. unfold os_purge_ex. apply Z.ltb_lt in H. rewrite H. reflexivity. Qed.

Lemma os_purge_ex_maps o p size ar : k_maps (os_k (fst (os_purge_ex cfg oracle o p size ar))) = k_maps (os_k o).
Proof.
  unfold os_purge_ex. destruct (purge_delay cfg <? 0)%Z; [reflexivity|].
  destruct (purge_decommits cfg).
  - unfold os_decommit_ex. destruct (os_page_align_area true p size) as [st cs]. destruct (cs =? 0); [reflexivity|].
    unfold prim_decommit. destruct (sys_madvise oracle o st cs MADV_DONTNEED_) as [o1 ok] eqn:M.
    assert (C1 : k_maps (os_k o1) = k_maps (os_k o)).
    { replace o1 with (fst (sys_madvise oracle o st cs MADV_DONTNEED_)) by (rewrite M; reflexivity). apply sys_madvise_maps. }
    destruct (decommit_protects cfg); cbn [fst]; [rewrite sys_mprotect_maps|]; exact C1.
  - destruct ar; cbn [fst]; [|reflexivity].
    unfold os_reset. destruct (os_page_align_area true p size) as [st cs]. destruct (cs =? 0); [reflexivity|].
    unfold prim_reset. apply sys_madvise_maps.
Qed.

(* _mi_os_commit on a page-aligned area: one mprotect; success makes every byte of the area accessible *)
Lemma os_commit_calls o p size : aligned_area p size ->
  calls (fst (os_commit oracle o p size)) = calls o ++ [(KMprotect, p, size, PROT_RW_)].
Proof.
  intros A. unfold os_commit. rewrite (page_align_id false p size A).
  assert (E : (size =? 0) = false) by (apply N.eqb_neq; destruct A; lia). rewrite E.
  unfold prim_commit. apply sys_mprotect_calls.
Qed.

Lemma len_up_aligned l : l mod PAGE = 0 -> len_up l = l.
Proof. unfold len_up. rewrite PAGE_val. intros H. lia. Qed.

Lemma os_commit_accessible o p size o' : aligned_area p size ->
  os_commit oracle o p size = (o', true) ->
  (forall a, p <= a -> a < p + size -> accessible (os_k o') a = true) /\
  (forall a, accessible (os_k o) a = true -> accessible (os_k o') a = true).
Proof.
  intros A. unfold os_commit. rewrite (page_align_id false p size A).
  assert (E : (size =? 0) = false) by (apply N.eqb_neq; destruct A; lia). rewrite E.
  unfold prim_commit, sys_mprotect.
  destruct (a_ok (oracle (os_seq o)) && (p mod PAGE =? 0) && range_mapped (os_k o) p (len_up size)); [|discriminate].
  intros H. injection H as <-. cbn [os_k step k_at]. rewrite len_up_aligned by (destruct A; lia).
  unfold accessible. cbn [k_at]. split.
  - intros a A1 A2. unfold set_range, in_range.
    assert (F : ((p <=? a) && (a <? p + size)) = true) by (apply andb_true_intro; split; [apply N.leb_le|apply N.ltb_lt]; lia).
    rewrite F. reflexivity.
  - intros a Ha. unfold set_range. destruct (in_range p size a); [reflexivity|exact Ha].
Qed.

End Calls.

(* ------------------------------------------------------------------------------------- *)
(* kernel invariant and the four system calls                                              *)
(* ------------------------------------------------------------------------------------- *)
(* pages outside every mapping are in the default state *)
Definition k_wf (k : kernel) : Prop := forall a, addr_mapped k a = false -> k_at k a = pg0.
(* same mappings, same page states *)
Definition k_eq (k k' : kernel) : Prop := k_maps k' = k_maps k /\ forall a, k_at k' a = k_at k a.

Lemma kernel0_wf : k_wf kernel0.
Proof. intros a _. reflexivity. Qed.

Lemma in_range_true lo len a : lo <= a -> a < lo + len -> in_range lo len a = true.
Proof. intros H1 H2. unfold in_range. apply andb_true_intro. split; [apply N.leb_le|apply N.ltb_lt]; assumption. Qed.
Lemma in_range_false lo len a : a < lo \/ lo + len <= a -> in_range lo len a = false.
Proof. intros H. unfold in_range. apply andb_false_iff. destruct H; [left; apply N.leb_gt|right; apply N.ltb_ge]; assumption. Qed.
Lemma in_range_spec lo len a : in_range lo len a = true -> lo <= a /\ a < lo + len.
Proof. unfold in_range. intros H. apply andb_prop in H as [H1 H2]. apply N.leb_le in H1. apply N.ltb_lt in H2. auto. Qed.
Lemma in_range_nspec lo len a : in_range lo len a = false -> a < lo \/ lo + len <= a.
Proof. unfold in_range. intros H. apply andb_false_iff in H as [H|H]; [left; apply N.leb_gt|right; apply N.ltb_ge]; assumption. Qed.

Lemma overlaps_spec m lo len : overlaps m lo len = true <-> m_base m < lo + len /\ lo < m_base m + m_len m.
Proof. unfold overlaps. rewrite andb_true_iff, !N.ltb_lt. reflexivity. Qed.

Definition fresh (l : list mapping) (p len : N) : Prop := forall m, In m l -> overlaps m p len = false.

Lemma fresh_forallb l p len : forallb (fun m => negb (overlaps m p len)) l = true -> fresh l p len.
Proof. intros H m Hm. rewrite forallb_forall in H. specialize (H m Hm). apply negb_true_iff in H. exact H. Qed.

Lemma fresh_sub l p len p' len' : fresh l p len -> p <= p' -> p' + len' <= p + len -> fresh l p' len'.
Proof.
  intros H H1 H2 m Hm. specialize (H m Hm). apply not_true_is_false. intros C. apply overlaps_spec in C.
  assert (overlaps m p len = true) by (apply overlaps_spec; lia). congruence.
Qed.

Lemma cut_fresh lo len m : overlaps m lo len = false -> cut lo len m = [m].
Proof. intros H. unfold cut. rewrite H. reflexivity. Qed.

Lemma flat_map_cut_fresh l lo len : fresh l lo len -> flat_map (cut lo len) l = l.
Proof.
  induction l as [|m l IH]; intros H; [reflexivity|]. cbn [flat_map].
  rewrite cut_fresh by (apply H; left; reflexivity). rewrite IH by (intros x Hx; apply H; right; assumption). reflexivity.
Qed.

Lemma fresh_unmapped l p len a : fresh l p len -> p <= a -> a < p + len ->
  existsb (fun m => in_range (m_base m) (m_len m) a) l = false.
Proof.
  intros H A1 A2. apply not_true_is_false. intros C. apply existsb_exists in C as (m & Hm & R).
  apply in_range_spec in R. specialize (H m Hm).
  assert (overlaps m p len = true) by (apply overlaps_spec; lia). congruence.
Qed.

(* cutting a mapping: whole, a prefix, a suffix *)
Lemma cut_whole b l : 0 < l -> cut b l {| m_base := b; m_len := l |} = [].
Proof.
  intros H. unfold cut, overlaps. cbn [m_base m_len].
  assert (E1 : (b <? b + l) = true) by (apply N.ltb_lt; lia). rewrite E1. cbn [andb negb].
  assert (E2 : (b <? b) = false) by (apply N.ltb_irrefl). rewrite E2.
  assert (E3 : (b + l <? b + l) = false) by (apply N.ltb_irrefl). rewrite E3. reflexivity.
Qed.
Lemma cut_prefix b l pre : 0 < pre -> pre < l -> cut b pre {| m_base := b; m_len := l |} = [{| m_base := b + pre; m_len := l - pre |}].
Proof.
  intros H1 H2. unfold cut, overlaps. cbn [m_base m_len].
  assert (E1 : (b <? b + pre) = true) by (apply N.ltb_lt; lia).
  assert (E1' : (b <? b + l) = true) by (apply N.ltb_lt; lia). rewrite E1, E1'. cbn [andb negb].
  assert (E2 : (b <? b) = false) by (apply N.ltb_irrefl). rewrite E2.
  assert (E3 : (b + pre <? b + l) = true) by (apply N.ltb_lt; lia). rewrite E3. cbn [app]. f_equal. f_equal. lia.
Qed.
Lemma cut_suffix b mid post : 0 < mid -> 0 < post ->
  cut (b + mid) post {| m_base := b; m_len := mid + post |} = [{| m_base := b; m_len := mid |}].
Proof.
  intros H1 H2. unfold cut, overlaps. cbn [m_base m_len].
  assert (E1 : (b <? b + mid + post) = true) by (apply N.ltb_lt; lia).
  assert (E1' : (b + mid <? b + (mid + post)) = true) by (apply N.ltb_lt; lia). rewrite E1, E1'. cbn [andb negb].
  assert (E2 : (b <? b + mid) = true) by (apply N.ltb_lt; lia). rewrite E2.
  assert (E3 : (b + mid + post <? b + (mid + post)) = false) by (apply N.ltb_ge; lia). rewrite E3. cbn [app]. f_equal. f_equal. lia.
Qed.

Lemma len_up_ge l : l <= len_up l /\ len_up l < l + PAGE /\ len_up l mod PAGE = 0.
Proof. unfold len_up. rewrite PAGE_val. lia. Qed.
Lemma len_up_idem l : len_up (len_up l) = len_up l.
Proof. apply len_up_aligned. apply len_up_ge. Qed.
Lemma len_up_pos l : 0 < l -> 0 < len_up l.
Proof. pose proof (len_up_ge l). lia. Qed.

Section Sys.
Variable oracle : nat -> answer.

(* mmap: either nothing changes, or a fresh page-aligned mapping is added in front *)
Lemma sys_mmap_spec o hint len rw o1 r : sys_mmap oracle o hint len rw = (o1, r) ->
  os_hint o1 = os_hint o /\
  match r with
  | None => os_k o1 = os_k o /\ exists c, os_log o1 = c :: os_log o /\ c_kind c = KMmap
  | Some p =>
    0 < p /\ p mod PAGE = 0 /\ 0 < len /\ p + len_up len <= ADDR_LIMIT /\ fresh (k_maps (os_k o)) p (len_up len) /\
    k_maps (os_k o1) = {| m_base := p; m_len := len_up len |} :: k_maps (os_k o) /\
    k_at (os_k o1) = set_range (k_at (os_k o)) p (len_up len) (fun _ => {| pg_rw := rw; pg_purged := false |}) /\
    exists c, os_log o1 = c :: os_log o /\ c_kind c = KMmap
  end.
Proof.
  unfold sys_mmap.
  destruct (a_ok (oracle (os_seq o)) && (0 <? a_addr (oracle (os_seq o))) && (a_addr (oracle (os_seq o)) mod PAGE =? 0) &&
            (0 <? len) && (a_addr (oracle (os_seq o)) + len_up len <=? ADDR_LIMIT) &&
            forallb (fun m => negb (overlaps m (a_addr (oracle (os_seq o))) (len_up len))) (k_maps (os_k o))) eqn:V;
    intros E; injection E as <- <-; (split; [reflexivity|]).
  - repeat (apply andb_prop in V as [V ?]).
    repeat split; try reflexivity.
    + apply N.ltb_lt; assumption.
    + apply N.eqb_eq; assumption.
    + apply N.ltb_lt; assumption.
    + apply N.leb_le; assumption.
    + apply fresh_forallb; assumption.
    + eexists. split; reflexivity.
  - split; [reflexivity|]. eexists. split; reflexivity.
Qed.

Lemma sys_munmap_spec o addr len o1 b : sys_munmap oracle o addr len = (o1, b) ->
  os_hint o1 = os_hint o /\
  os_log o1 = {| c_kind := KMunmap; c_addr := addr; c_len := len; c_arg := 0; c_ok := b; c_res := 0 |} :: os_log o /\
  (b = false -> os_k o1 = os_k o) /\
  (b = true -> k_maps (os_k o1) = flat_map (cut addr (len_up len)) (k_maps (os_k o)) /\
               k_at (os_k o1) = set_range (k_at (os_k o)) addr (len_up len) (fun _ => pg0)).
Proof.
  unfold sys_munmap. destruct (a_ok (oracle (os_seq o)) && (addr mod PAGE =? 0) && (0 <? len));
    intros E; injection E as <- <-; repeat split; try reflexivity; try discriminate.
Qed.

(* mprotect / madvise never change the mappings and touch only pages inside one mapping *)
Lemma sys_mprotect_spec o addr len rw o1 b : sys_mprotect oracle o addr len rw = (o1, b) ->
  os_hint o1 = os_hint o /\ k_maps (os_k o1) = k_maps (os_k o) /\
  (exists c, os_log o1 = c :: os_log o /\ c_kind c = KMprotect) /\
  (forall a, in_range addr (len_up len) a = false -> k_at (os_k o1) a = k_at (os_k o) a) /\
  (forall a, addr_mapped (os_k o) a = false -> k_at (os_k o1) a = k_at (os_k o) a).
Proof.
  unfold sys_mprotect. destruct (a_ok (oracle (os_seq o)) && (addr mod PAGE =? 0) && range_mapped (os_k o) addr (len_up len)) eqn:V;
    intros E; injection E as <- <-; cbn [os_hint os_k os_log step k_maps k_at].
  - apply andb_prop in V as [_ M]. split; [reflexivity|]. split; [reflexivity|]. split; [eexists; split; reflexivity|]. split.
    + intros a Ha. unfold set_range. rewrite Ha. reflexivity.
    + intros a Ha. unfold set_range. destruct (in_range addr (len_up len) a) eqn:R; [|reflexivity].
      exfalso. apply in_range_spec in R. unfold range_mapped in M. apply existsb_exists in M as (m & Hm & I).
      unfold inside in I. apply andb_prop in I as [I1 I2]. apply N.leb_le in I1, I2.
      unfold addr_mapped in Ha. assert (C : existsb (fun m0 => in_range (m_base m0) (m_len m0) a) (k_maps (os_k o)) = true).
      { apply existsb_exists. exists m. split; [assumption|]. apply in_range_true; lia. }
      congruence.
  - split; [reflexivity|]. split; [reflexivity|]. split; [eexists; split; reflexivity|]. split; reflexivity.
Qed.

Lemma sys_madvise_spec o addr len adv o1 b : sys_madvise oracle o addr len adv = (o1, b) ->
  os_hint o1 = os_hint o /\ k_maps (os_k o1) = k_maps (os_k o) /\
  (exists c, os_log o1 = c :: os_log o /\ c_kind c = KMadvise) /\
  (forall a, in_range addr (len_up len) a = false -> k_at (os_k o1) a = k_at (os_k o) a) /\
  (forall a, addr_mapped (os_k o) a = false -> k_at (os_k o1) a = k_at (os_k o) a).
Proof.
  unfold sys_madvise. destruct (a_ok (oracle (os_seq o)) && (addr mod PAGE =? 0) && range_mapped (os_k o) addr (len_up len)) eqn:V;
    intros E; injection E as <- <-; cbn [os_hint os_k os_log step k_maps k_at].
  - apply andb_prop in V as [_ M]. split; [reflexivity|]. split; [reflexivity|]. split; [eexists; split; reflexivity|]. split.
    + intros a Ha. unfold set_range. rewrite Ha. reflexivity.
    + intros a Ha. unfold set_range. destruct (in_range addr (len_up len) a) eqn:R; [|reflexivity].
      exfalso. apply in_range_spec in R. unfold range_mapped in M. apply existsb_exists in M as (m & Hm & I).
      unfold inside in I. apply andb_prop in I as [I1 I2]. apply N.leb_le in I1, I2.
      unfold addr_mapped in Ha. assert (C : existsb (fun m0 => in_range (m_base m0) (m_len m0) a) (k_maps (os_k o)) = true).
      { apply existsb_exists. exists m. split; [assumption|]. apply in_range_true; lia. }
      congruence.
  - split; [reflexivity|]. split; [reflexivity|]. split; [eexists; split; reflexivity|]. split; reflexivity.
Qed.

End Sys.

(* ------------------------------------------------------------------------------------- *)
(* allocation and free as steps on the ghost kernel                                        *)
(* ------------------------------------------------------------------------------------- *)
Lemma k_eq_refl k : k_eq k k.
Proof. split; reflexivity. Qed.
Lemma k_eq_trans a b c : k_eq a b -> k_eq b c -> k_eq a c.
Proof. intros [A1 A2] [B1 B2]. split; [congruence|]. intros x. rewrite B2. apply A2. Qed.

(* o1 is o plus ONE fresh mapping [p, p+sz); pages outside it are as in o *)
Definition holds_fresh (o o1 : os) (p sz : N) : Prop :=
  0 < sz /\ fresh (k_maps (os_k o)) p sz /\
  k_maps (os_k o1) = {| m_base := p; m_len := sz |} :: k_maps (os_k o) /\
  (forall a, in_range p sz a = false -> k_at (os_k o1) a = k_at (os_k o) a).

(* log extension; nm: no munmap among the new entries *)
Definition log_ext (o o1 : os) : Prop := exists l, os_log o1 = l ++ os_log o.
Definition log_ext_nm (o o1 : os) : Prop := exists l, os_log o1 = l ++ os_log o /\ forallb (fun c => negb (is_munmap c)) l = true.
Lemma log_ext_refl o : log_ext o o.
Proof. exists []. reflexivity. Qed.
Lemma log_ext_nm_refl o : log_ext_nm o o.
Proof. exists []. split; reflexivity. Qed.
Lemma log_ext_trans a b c : log_ext a b -> log_ext b c -> log_ext a c.
Proof. intros [l1 E1] [l2 E2]. exists (l2 ++ l1). rewrite E2, E1, app_assoc. reflexivity. Qed.
Lemma log_ext_nm_trans a b c : log_ext_nm a b -> log_ext_nm b c -> log_ext_nm a c.
Proof.
  intros (l1 & E1 & F1) (l2 & E2 & F2). exists (l2 ++ l1). split; [rewrite E2, E1, app_assoc; reflexivity|].
  rewrite forallb_app, F1, F2. reflexivity.
Qed.
Lemma log_ext_nm_weak a b : log_ext_nm a b -> log_ext a b.
Proof. intros (l & E & _). exists l. exact E. Qed.
Lemma log_ext_cons o o1 c : os_log o1 = c :: os_log o -> log_ext o o1.
Proof. intros E. exists [c]. exact E. Qed.
Lemma munmaps_ok_ext o o1 : log_ext o o1 -> munmaps_ok (os_log o1) = true -> munmaps_ok (os_log o) = true.
Proof. intros [l E] H. rewrite E in H. unfold munmaps_ok in *. rewrite forallb_app in H. apply andb_prop in H. tauto. Qed.

Section Alloc.
Variable cfg : oscfg.
Variable oracle : nat -> answer.

Lemma mmap_aligned_spec o size ta commit o1 r : mmap_aligned cfg oracle o size ta commit = (o1, r) ->
  log_ext_nm o o1 /\
  match r with
  | None => os_k o1 = os_k o
  | Some p => 0 < p /\ p mod PAGE = 0 /\ 0 < size /\ p + len_up size <= ADDR_LIMIT /\ holds_fresh o o1 p (len_up size)
  end.
Proof.
  unfold mmap_aligned. destruct (os_get_aligned_hint cfg o ta size) as [oh hint] eqn:H.
  assert (Hk : os_k oh = os_k o /\ os_log oh = os_log o).
  { unfold os_get_aligned_hint in H.
    destruct ((ta <=? 1) || (MI_SEGMENT_SIZE <? ta)); [injection H as <- _; auto|].
    destruct (MI_VIRTUAL_ADDRESS_BITS_ <? 46); [injection H as <- _; auto|].
    destruct (GiB <? align_up size MI_SEGMENT_SIZE); [injection H as <- _; auto|].
    destruct ((os_hint o =? 0) || (MI_HINT_MAX_ <? os_hint o));
      match type of H with (if ?c then _ else _) = _ => destruct c end; injection H as <- _; auto. }
  destruct Hk as [Hk Hl].
  assert (G : forall oa ob hint0 r0, os_k oa = os_k o -> log_ext_nm o oa -> sys_mmap oracle oa hint0 size commit = (ob, r0) ->
              log_ext_nm o ob /\ match r0 with None => os_k ob = os_k o
                                 | Some p => 0 < p /\ p mod PAGE = 0 /\ 0 < size /\ p + len_up size <= ADDR_LIMIT /\ holds_fresh o ob p (len_up size) end).
  { intros oa ob hint0 r0 Ka La M. apply sys_mmap_spec in M as (_ & M). destruct r0 as [p|].
    - destruct M as (M1 & M2 & M3 & M4 & M5 & M6 & M7 & c & M8 & M9). split.
      + eapply log_ext_nm_trans; [exact La|]. exists [c]. split; [exact M8|]. cbn. unfold is_munmap. rewrite M9. reflexivity.
      + repeat split; try assumption.
        * apply len_up_pos; assumption.
        * rewrite <- Ka. exact M5.
        * rewrite M6, Ka. reflexivity.
        * intros a Ha. rewrite M7. unfold set_range. rewrite Ha, Ka. reflexivity.
    - destruct M as (M1 & c & M2 & M3). split.
      + eapply log_ext_nm_trans; [exact La|]. exists [c]. split; [exact M2|]. cbn. unfold is_munmap. rewrite M3. reflexivity.
      + congruence. }
  assert (Lh : log_ext_nm o oh) by (exists []; split; [rewrite Hl; reflexivity|reflexivity]).
  destruct (0 <? hint).
  - destruct (sys_mmap oracle oh hint size commit) as [o2 r2] eqn:M2.
    destruct (G oh o2 hint r2 Hk Lh M2) as [L2 R2]. destruct r2 as [p|].
    + intros E. injection E as <- <-. split; assumption.
    + intros E. apply (G o2 o1 0 r R2 L2 E).
  - intros E. apply (G oh o1 0 r Hk Lh E).
Qed.

Lemma os_prim_alloc_spec o size ta commit al o1 r : os_prim_alloc cfg oracle o size ta commit al = (o1, r) ->
  log_ext_nm o o1 /\
  match r with
  | None => os_k o1 = os_k o
  | Some p => 0 < p /\ p mod PAGE = 0 /\ 0 < size /\ p + len_up size <= ADDR_LIMIT /\ holds_fresh o o1 p (len_up size)
  end.
Proof.
  unfold os_prim_alloc. destruct (size =? 0); [intros E; injection E as <- <-; split; [apply log_ext_nm_refl|reflexivity]|].
  unfold prim_alloc. destruct (mmap_aligned cfg oracle o size (if ta =? 0 then 1 else ta) commit) as [o2 r2] eqn:M.
  apply mmap_aligned_spec in M as [L M]. destruct r2 as [p|]; [|intros E; injection E as <- <-; split; assumption].
  destruct (commit && al && os_use_large_page cfg size (if ta =? 0 then 1 else ta)); [|intros E; injection E as <- <-; split; assumption].
  destruct (sys_madvise oracle o2 p size MADV_HUGEPAGE_) as [o3 b] eqn:A. cbn [fst]. intros E. injection E as <- <-.
  apply sys_madvise_spec in A as (_ & A1 & (c & A2 & A3) & A4 & _).
  destruct M as (M1 & M2 & M3 & M4 & (H1 & H2 & H3 & H4)). split.
  - eapply log_ext_nm_trans; [exact L|]. exists [c]. split; [exact A2|]. cbn. unfold is_munmap. rewrite A3. reflexivity.
  - repeat split; try assumption.
    + rewrite A1. exact H3.
    + intros a Ha. rewrite A4 by exact Ha. apply H4. exact Ha.
Qed.

(* munmap of a whole fresh mapping restores the kernel *)
Lemma unmap_holds o o1 p sz len o2 :
  k_wf (os_k o) -> holds_fresh o o1 p sz -> len_up len = sz ->
  sys_munmap oracle o1 p len = (o2, true) -> k_eq (os_k o) (os_k o2).
Proof.
  intros W (H0 & H1 & H2 & H3) Hl M. apply sys_munmap_spec in M as (_ & _ & _ & M). destruct (M eq_refl) as [M1 M2].
  rewrite Hl in *. split.
  - rewrite M1, H2. cbn [flat_map]. rewrite cut_whole by assumption. rewrite flat_map_cut_fresh by assumption. reflexivity.
  - intros a. rewrite M2. unfold set_range. destruct (in_range p sz a) eqn:R.
    + apply in_range_spec in R. symmetry. apply W. unfold addr_mapped. apply (fresh_unmapped _ p sz); tauto.
    + apply H3. exact R.
Qed.

(* unmapping a prefix / a suffix of the fresh mapping leaves a smaller fresh mapping *)
Lemma trim_prefix o o1 p sz pre o2 :
  k_wf (os_k o) -> holds_fresh o o1 p sz -> 0 < pre -> pre < sz -> pre mod PAGE = 0 ->
  sys_munmap oracle o1 p pre = (o2, true) -> holds_fresh o o2 (p + pre) (sz - pre).
Proof.
  intros W (H0 & H1 & H2 & H3) P1 P2 P3 M. apply sys_munmap_spec in M as (_ & _ & _ & M). destruct (M eq_refl) as [M1 M2].
  rewrite (len_up_aligned pre P3) in *. split; [lia|]. split; [eapply fresh_sub; [exact H1|lia|lia]|]. split.
  - rewrite M1, H2. cbn [flat_map]. rewrite cut_prefix by assumption.
    rewrite flat_map_cut_fresh by (eapply fresh_sub; [exact H1|lia|lia]). reflexivity.
  - intros a Ha. apply in_range_nspec in Ha. rewrite M2. unfold set_range. destruct (in_range p pre a) eqn:R.
    + apply in_range_spec in R. symmetry. apply W. unfold addr_mapped. apply (fresh_unmapped _ p sz); [assumption|lia|lia].
    + apply in_range_nspec in R. apply H3. apply in_range_false. lia.
Qed.

Lemma trim_suffix o o1 p mid post o2 :
  k_wf (os_k o) -> holds_fresh o o1 p (mid + post) -> 0 < mid -> 0 < post -> post mod PAGE = 0 ->
  sys_munmap oracle o1 (p + mid) post = (o2, true) -> holds_fresh o o2 p mid.
Proof.
  intros W (H0 & H1 & H2 & H3) P1 P2 P3 M. apply sys_munmap_spec in M as (_ & _ & _ & M). destruct (M eq_refl) as [M1 M2].
  rewrite (len_up_aligned post P3) in *. split; [lia|]. split; [eapply fresh_sub; [exact H1|lia|lia]|]. split.
  - rewrite M1, H2. cbn [flat_map]. rewrite cut_suffix by assumption.
    rewrite flat_map_cut_fresh by (eapply fresh_sub; [exact H1|lia|lia]). reflexivity.
  - intros a Ha. apply in_range_nspec in Ha. rewrite M2. unfold set_range. destruct (in_range (p + mid) post a) eqn:R.
    + apply in_range_spec in R. symmetry. apply W. unfold addr_mapped. apply (fresh_unmapped _ p (mid + post)); [assumption|lia|lia].
    + apply in_range_nspec in R. apply H3. apply in_range_false. lia.
Qed.

(* a new fresh mapping on top of a kernel that equals the original one *)
Lemma holds_fresh_eq o o' o1 p sz : k_eq (os_k o) (os_k o') -> holds_fresh o' o1 p sz -> holds_fresh o o1 p sz.
Proof.
  intros [E1 E2] (H0 & H1 & H2 & H3). split; [assumption|]. split; [rewrite <- E1; exact H1|]. split; [rewrite H2, E1; reflexivity|].
  intros a Ha. rewrite H3 by exact Ha. apply E2.
Qed.

End Alloc.

(* ------------------------------------------------------------------------------------- *)
(* mi_os_prim_alloc_aligned: direct path and over-allocate-and-trim path                   *)
(* ------------------------------------------------------------------------------------- *)
Lemma align_up_page size : size < W64 ->
  (size + 4095 < W64 /\ align_up size PAGE = len_up size) \/ align_up size PAGE = 0.
Proof.
  intros H. destruct (N.lt_ge_cases (size + 4095) W64) as [L|G].
  - left. split; [assumption|]. rewrite PAGE_val. rewrite align_up_spec by (rewrite ?W64_val in *; lia).
    unfold len_up. rewrite PAGE_val. f_equal. f_equal. lia.
  - right. rewrite PAGE_val. unfold align_up.
    assert (E : (N.land 4096 (wsub 4096 1) =? 0) = true) by reflexivity. rewrite E.
    assert (M : wsub 4096 1 = 2 ^ 12 - 1) by reflexivity. rewrite M.
    rewrite land_wnot_mask by (try apply wrap_lt; lia).
    unfold wadd. rewrite wrap_mod. rewrite W64_val in *.
    assert (X : (size + (2 ^ 12 - 1)) mod 18446744073709551616 < 4096).
    { change (2 ^ 12 - 1) with 4095. lia. }
    change (2 ^ 12) with 4096. rewrite N.div_small by exact X. reflexivity.
Qed.

Lemma pow2_align_page a : PAGE <= a -> a < W64 -> N.land a (wsub a 1) = 0 -> a mod PAGE = 0.
Proof.
  rewrite PAGE_val. intros H1 H2 H3.
  destruct (land_pred_pow2_dec a ltac:(lia) H2) as (k & Hk & ->); [apply N.eqb_eq; exact H3|].
  assert (12 <= k).
  { destruct (N.le_gt_cases 12 k) as [L|G]; [assumption|]. exfalso.
    assert (2 ^ k < 2 ^ 12) by (apply N.pow_lt_mono_r; lia). change (2 ^ 12) with 4096 in *. lia. }
  replace k with (12 + (k - 12)) by lia. rewrite N.pow_add_r. change (2 ^ 12) with 4096.
  rewrite N.mul_comm. apply N.mod_mul. lia.
Qed.

Definition hide (P : Prop) : Prop := P.

(* mi_align_up_ptr(q, alignment) for a page-multiple alignment *)
Lemma align_up_var Q a : 0 < a -> Q + a - 1 < W64 -> a < W64 -> a mod 4096 = 0 ->
  Q <= align_up Q a /\ align_up Q a < Q + a /\ hide (align_up Q a mod a = 0) /\ align_up Q a mod 4096 = 0.
Proof.
  intros H0 H1 H2 H3. destruct (align_up_props Q a H0 H1 H2) as (P1 & P2 & P3).
  split; [exact P1|]. split; [exact P2|]. split; [exact P3|].
  apply N.mod_divide; [discriminate|]. apply N.mod_divide in H3; [|discriminate]. apply N.mod_divide in P3; [|lia].
  eapply N.divide_trans; eassumption.
Qed.

Section Aligned.
Variable cfg : oscfg.
Variable oracle : nat -> answer.

(* the effect of mi_os_prim_free when the munmap was not refused *)
Lemma os_prim_free_ok o addr size o2 :
  0 < addr -> 0 < size -> os_prim_free oracle o addr size = o2 -> munmaps_ok (os_log o2) = true ->
  sys_munmap oracle o addr size = (o2, true) /\ log_ext o o2.
Proof.
  intros Ha Hs E Hm. unfold os_prim_free in E.
  assert (Z : ((addr =? 0) || (size =? 0)) = false) by (apply orb_false_intro; apply N.eqb_neq; lia).
  rewrite Z in E. unfold prim_free in E. destruct (sys_munmap oracle o addr size) as [ox b] eqn:M. cbn [fst] in E. subst ox.
  pose proof (sys_munmap_spec oracle o addr size o2 b M) as (_ & L & _).
  rewrite L in Hm. cbn in Hm. apply andb_prop in Hm as [Hb _]. cbn in Hb. subst b.
  split; [reflexivity|]. eapply log_ext_cons. exact L.
Qed.

Lemma os_prim_alloc_aligned_spec o size alignment commit al o1 p base :
  k_wf (os_k o) -> size < W64 -> alignment < W64 ->
  os_prim_alloc_aligned cfg oracle o size alignment commit al = (o1, Some (p, base)) ->
  munmaps_ok (os_log o1) = true ->
  base = p /\ p mod alignment = 0 /\ 0 < p /\ p mod PAGE = 0 /\ 0 < size /\ size + 4095 < W64 /\
  p + len_up size <= ADDR_LIMIT /\ holds_fresh o o1 p (len_up size) /\ log_ext o o1 /\ PAGE <= alignment.
Proof.
  intros W Hs Ha E Hm. unfold os_prim_alloc_aligned in E.
  destruct ((PAGE <=? alignment) && (N.land alignment (wsub alignment 1) =? 0)) eqn:C; cbn [negb] in E; [|discriminate].
  apply andb_prop in C as [C1 C2]. apply N.leb_le in C1. apply N.eqb_eq in C2.
  pose proof (pow2_align_page alignment C1 Ha C2) as Hap.
  destruct (align_up_page size Hs) as [[Hnw Hau]|Hz].
  2:{ rewrite Hz in E. unfold os_prim_alloc in E at 1. cbn in E. discriminate. }
  rewrite Hau in E. set (s1 := len_up size) in *.
  pose proof (len_up_ge size) as (G1 & G2 & G3). fold s1 in G1, G2, G3.
  destruct (os_prim_alloc cfg oracle o s1 alignment commit al) as [oa r] eqn:A1.
  apply os_prim_alloc_spec in A1 as [L1 A1]. destruct r as [P|]; [|discriminate].
  destruct A1 as (P1 & P2 & P3 & P4 & HF). rewrite (len_up_aligned s1 G3) in P4, HF.
  assert (Hsz : 0 < size) by (destruct (N.eq_dec size 0) as [->|]; [cbn in P3; lia|lia]).
  destruct (P mod alignment =? 0) eqn:Al.
  - (* aligned directly *)
    injection E as <- <- <-. apply N.eqb_eq in Al.
    repeat split; try assumption; try (destruct HF as (F0 & F1 & F2 & F3); assumption).
    apply log_ext_nm_weak. exact L1.
  - (* free it, over-allocate, trim *)
    apply N.eqb_neq in Al.
    set (o2 := os_prim_free oracle oa P s1) in *.
    destruct (SIZE_MAX_ - alignment <=? s1) eqn:Ov; [discriminate|]. apply N.leb_gt in Ov.
    assert (SM : SIZE_MAX_ = 18446744073709551615) by reflexivity. rewrite SM in Ov. rewrite W64_val, PAGE_val in *.
    rewrite (wadd_small s1 alignment) in E by (rewrite W64_val; lia).
    destruct (os_prim_alloc cfg oracle o2 (s1 + alignment) 1 commit false) as [o3 r3] eqn:A3.
    destruct r3 as [Q|]; [|discriminate].
    apply os_prim_alloc_spec in A3 as [L3 (Q1 & Q2 & Q3 & Q4 & HQ)].
    assert (Hov : len_up (s1 + alignment) = s1 + alignment) by (apply len_up_aligned; rewrite PAGE_val; lia).
    rewrite Hov in Q4, HQ. rewrite ADDR_LIMIT_val in *. rewrite PAGE_val in Q2.
    assert (Hal : hide (P mod alignment <> 0)) by exact Al. clear Al.
    destruct (align_up_var Q alignment ltac:(lia) ltac:(rewrite W64_val; lia) ltac:(rewrite W64_val; lia) Hap) as (B1 & B2 & B3 & B4).
    remember (align_up Q alignment) as ap eqn:Hapdef. clear Hapdef.
    rewrite (wsub_small ap Q) in E by lia.
    assert (Hmid : align_up s1 4096 = s1) by (rewrite align_up_spec by (rewrite ?W64_val; lia); lia).
    rewrite Hmid in E.
    rewrite (wsub_small (s1 + alignment) (ap - Q)) in E by lia.
    rewrite (wsub_small (s1 + alignment - (ap - Q)) s1) in E by lia.
    rewrite (wadd_small ap s1) in E by (rewrite W64_val; lia).
    assert (Hpost : (0 <? s1 + alignment - (ap - Q) - s1) = true) by (apply N.ltb_lt; lia). rewrite Hpost in E.
    set (post := s1 + alignment - (ap - Q) - s1) in *.
    set (o4 := if 0 <? ap - Q then os_prim_free oracle o3 Q (ap - Q) else o3) in *.
    set (o5 := os_prim_free oracle o4 (ap + s1) post) in *.
    injection E as <- <- <-.
    (* backwards through the log: no munmap was refused *)
    destruct (os_prim_free_ok o4 (ap + s1) post o5 ltac:(lia) ltac:(unfold post; lia) eq_refl Hm) as [M5 L5].
    pose proof (munmaps_ok_ext o4 o5 L5 Hm) as Hm4.
    assert (S4 : log_ext o3 o4 /\ (0 < ap - Q -> sys_munmap oracle o3 Q (ap - Q) = (o4, true)) /\ (ap - Q = 0 -> o4 = o3)).
    { unfold o4 in *. destruct (0 <? ap - Q) eqn:Pre.
      - apply N.ltb_lt in Pre. destruct (os_prim_free_ok o3 Q (ap - Q) _ ltac:(lia) Pre eq_refl Hm4) as [M4 L4].
        split; [exact L4|]. split; [intros _; exact M4|lia].
      - apply N.ltb_ge in Pre. split; [apply log_ext_refl|]. split; [lia|reflexivity]. }
    destruct S4 as (L4 & M4 & Z4).
    pose proof (munmaps_ok_ext o3 o4 L4 Hm4) as Hm3.
    pose proof (munmaps_ok_ext o2 o3 (log_ext_nm_weak _ _ L3) Hm3) as Hm2.
    destruct (os_prim_free_ok oa P s1 o2 ltac:(lia) ltac:(lia) eq_refl Hm2) as [M2 L2].
    (* forwards through the kernel *)
    pose proof (unmap_holds oracle o oa P s1 s1 o2 W HF (len_up_aligned s1 ltac:(rewrite PAGE_val; exact G3)) M2) as K2.
    pose proof (holds_fresh_eq o o2 o3 Q (s1 + alignment) K2 HQ) as HQ'.
    assert (S4 : holds_fresh o o4 ap (s1 + post)).
    { destruct (N.eq_dec (ap - Q) 0) as [Z|NZ].
      - rewrite (Z4 Z). assert (ap = Q) by lia. replace (s1 + post) with (s1 + alignment) by (unfold post; lia). subst ap. congruence.
      - pose proof (trim_prefix oracle o o3 Q (s1 + alignment) (ap - Q) o4 W HQ' ltac:(lia) ltac:(lia)) as T.
        replace (Q + (ap - Q)) with ap in T by lia.
        replace (s1 + alignment - (ap - Q)) with (s1 + post) in T by (unfold post; lia).
        apply T; [rewrite PAGE_val; lia|]. apply M4. lia. }
    pose proof (trim_suffix oracle o o4 ap s1 post o5 W S4 ltac:(lia) ltac:(unfold post; lia) ltac:(rewrite PAGE_val; unfold post; lia) M5) as S5.
    repeat split; try assumption; try lia.
    + destruct S5 as (F0 & F1 & F2 & F3); assumption.
    + destruct S5 as (F0 & F1 & F2 & F3); assumption.
    + destruct S5 as (F0 & F1 & F2 & F3); assumption.
    + eapply log_ext_trans; [apply log_ext_nm_weak; exact L1|]. eapply log_ext_trans; [exact L2|].
      eapply log_ext_trans; [apply log_ext_nm_weak; exact L3|]. eapply log_ext_trans; [exact L4|exact L5].
Qed.
End Aligned.

(* ------------------------------------------------------------------------------------- *)
(* C11: os_alloc_aligned_spec and os_free_inverse                                          *)
(* ------------------------------------------------------------------------------------- *)
Lemma land_lt_W64 a b : a < W64 -> N.land a b < W64.
Proof.
  intros H. destruct (N.eq_dec (N.land a b) 0) as [->|NZ]; [rewrite W64_val; lia|].
  rewrite W64_pow. apply N.log2_lt_pow2; [lia|].
  pose proof (N.log2_land a b) as L.
  assert (a <> 0) by (intros ->; rewrite N.land_0_l in NZ; congruence).
  assert (N.log2 a < 64) by (apply N.log2_lt_pow2; [lia|rewrite <- W64_pow; assumption]). lia.
Qed.

Lemma align_up_lt sz a : align_up sz a < W64.
Proof.
  unfold align_up. destruct (N.land a (wsub a 1) =? 0); [apply land_lt_W64; apply wrap_lt|apply wrap_lt].
Qed.

Lemma good_size_lt size : size < W64 -> os_good_alloc_size size < W64.
Proof.
  intros H. unfold os_good_alloc_size.
  match goal with |- (if ?c then _ else _) < _ => destruct c end; [assumption|apply align_up_lt].
Qed.

Lemma good_size_ge size : size < W64 -> size <= os_good_alloc_size size.
Proof.
  intros H. unfold os_good_alloc_size.
  set (asz := if size <? 512 * 1024 then os_page_size_default else if size <? 2 * 1024 * 1024 then 64 * 1024
              else if size <? 8 * 1024 * 1024 then 256 * 1024 else if size <? 32 * 1024 * 1024 then 1024 * 1024 else 4 * 1024 * 1024).
  assert (A : 0 < asz /\ asz <= 4 * 1024 * 1024).
  { unfold asz. change os_page_size_default with 4096.
    destruct (size <? 512 * 1024); [lia|]. destruct (size <? 2 * 1024 * 1024); [lia|].
    destruct (size <? 8 * 1024 * 1024); [lia|]. destruct (size <? 32 * 1024 * 1024); lia. }
  destruct (SIZE_MAX_ - asz <=? size) eqn:E; [lia|]. apply N.leb_gt in E.
  assert (SM : SIZE_MAX_ = 18446744073709551615) by reflexivity. rewrite SM in E.
  apply align_up_props; rewrite ?W64_val; lia.
Qed.

(* a madvise / mprotect that starts inside the fresh mapping touches nothing outside it *)
Lemma touch_madvise oracle o o1 p sz addr len adv o2 b :
  holds_fresh o o1 p sz -> p <= addr -> addr < p + sz ->
  sys_madvise oracle o1 addr len adv = (o2, b) -> holds_fresh o o2 p sz /\ log_ext_nm o1 o2.
Proof.
  intros (H0 & H1 & H2 & H3) A1 A2 M. unfold sys_madvise in M.
  assert (LN : forall c, c_kind c = KMadvise -> log_ext_nm o1 (step o1 (os_k o2) c)).
  { intros c Hc. exists [c]. split; [reflexivity|]. cbn. unfold is_munmap. rewrite Hc. reflexivity. }
  destruct (a_ok (oracle (os_seq o1)) && (addr mod PAGE =? 0) && range_mapped (os_k o1) addr (len_up len)) eqn:V;
    injection M as <- <-; cbn [os_k step k_maps k_at].
  - apply andb_prop in V as [_ R]. unfold range_mapped in R. apply existsb_exists in R as (m & Hm & I).
    unfold inside in I. apply andb_prop in I as [I1 I2]. apply N.leb_le in I1, I2.
    split; [|eexists (cons _ nil); split; [reflexivity|reflexivity]].
    split; [assumption|]. split; [assumption|]. split; [cbn [os_k step k_maps]; assumption|].
    intros a Ha. cbn [os_k step k_at]. unfold set_range. destruct (in_range addr (len_up len) a) eqn:R2; [|apply H3; exact Ha].
    exfalso. apply in_range_spec in R2. apply in_range_nspec in Ha.
    rewrite H2 in Hm. destruct Hm as [<-|Hm]; cbn [m_base m_len] in *; [lia|].
    specialize (H1 m Hm). assert (overlaps m p sz = true) by (apply overlaps_spec; lia). congruence.
  - split; [|eexists (cons _ nil); split; [reflexivity|reflexivity]]. split; [assumption|]. split; [assumption|]. split; assumption.
Qed.

Lemma touch_mprotect oracle o o1 p sz addr len rw o2 b :
  holds_fresh o o1 p sz -> p <= addr -> addr < p + sz ->
  sys_mprotect oracle o1 addr len rw = (o2, b) -> holds_fresh o o2 p sz /\ log_ext_nm o1 o2.
Proof.
  intros (H0 & H1 & H2 & H3) A1 A2 M. unfold sys_mprotect in M.
  destruct (a_ok (oracle (os_seq o1)) && (addr mod PAGE =? 0) && range_mapped (os_k o1) addr (len_up len)) eqn:V;
    injection M as <- <-; cbn [os_k step k_maps k_at].
  - apply andb_prop in V as [_ R]. unfold range_mapped in R. apply existsb_exists in R as (m & Hm & I).
    unfold inside in I. apply andb_prop in I as [I1 I2]. apply N.leb_le in I1, I2.
    split; [|eexists (cons _ nil); split; [reflexivity|reflexivity]].
    split; [assumption|]. split; [assumption|]. split; [cbn [os_k step k_maps]; assumption|].
    intros a Ha. cbn [os_k step k_at]. unfold set_range. destruct (in_range addr (len_up len) a) eqn:R2; [|apply H3; exact Ha].
    exfalso. apply in_range_spec in R2. apply in_range_nspec in Ha.
    rewrite H2 in Hm. destruct Hm as [<-|Hm]; cbn [m_base m_len] in *; [lia|].
    specialize (H1 m Hm). assert (overlaps m p sz = true) by (apply overlaps_spec; lia). congruence.
  - split; [|eexists (cons _ nil); split; [reflexivity|reflexivity]]. split; [assumption|]. split; [assumption|]. split; assumption.
Qed.

Section Inverse.
Variable cfg : oscfg.
Variable oracle : nat -> answer.

(* C11 os_alloc_aligned_spec: the address is aligned, [p, p+size) lies inside ONE fresh mapping [p, p+len_up good),
   and the memid records the base and the size of that mapping *)
Lemma os_alloc_aligned_spec o size alignment commit al o1 p m :
  k_wf (os_k o) -> size < W64 -> alignment < W64 ->
  os_alloc_aligned cfg oracle o size alignment commit al = (o1, Some (p, m)) ->
  munmaps_ok (os_log o1) = true ->
  let good := os_good_alloc_size size in
  p mod (align_up alignment PAGE) = 0 /\ 0 < p /\ 0 < size /\ size <= good /\ good <= len_up good /\
  p + len_up good <= ADDR_LIMIT /\
  m = memid_create_os commit true false p good /\
  holds_fresh o o1 p (len_up good) /\ log_ext o o1.
Proof.
  intros W Hs Ha E Hm. cbv zeta. unfold os_alloc_aligned in E.
  destruct (size =? 0) eqn:Z; [discriminate|]. apply N.eqb_neq in Z.
  destruct (os_prim_alloc_aligned cfg oracle o (os_good_alloc_size size) (align_up alignment PAGE) commit al) as [ox r] eqn:A.
  destruct r as [[p' base]|]; [|discriminate]. injection E as <- <- <-.
  pose proof (os_prim_alloc_aligned_spec cfg oracle o _ _ commit al ox p' base W (good_size_lt size Hs) (align_up_lt _ _) A Hm)
    as (-> & S2 & S3 & S4 & S5 & S6 & S7 & S8 & S9 & _).
  pose proof (good_size_ge size Hs) as G. pose proof (len_up_ge (os_good_alloc_size size)) as (G2 & _).
  split; [assumption|]. split; [assumption|]. split; [lia|]. split; [assumption|]. split; [assumption|]. split; [assumption|].
  split; [|split; assumption].
  rewrite wsub_small by lia. rewrite N.sub_diag. rewrite wadd_small by (pose proof (good_size_lt size Hs); lia).
  rewrite N.add_0_r. reflexivity.
Qed.

(* freeing a whole fresh mapping through _mi_os_free_ex *)
Lemma os_free_ex_fresh o o1 p good addr fsize sc o2 commit :
  k_wf (os_k o) -> holds_fresh o o1 p (len_up good) -> 0 < p -> 0 < good -> good < W64 ->
  addr < W64 -> p <= addr ->
  os_free_ex oracle o1 addr fsize sc (memid_create_os commit true false p good) = o2 ->
  munmaps_ok (os_log o2) = true -> k_eq (os_k o) (os_k o2).
Proof.
  intros W HF Hp Hg Hgw Haw Hpa E Hm. unfold os_free_ex, memid_create_os in E. cbn [mem_kind memkind_is_os mem_size mem_base] in E.
  assert (Z : (good =? 0) = false) by (apply N.eqb_neq; lia). rewrite Z in E.
  assert (B : (if negb (p =? 0) && negb (p =? addr) then (p, good) else (addr, good)) = (p, good)).
  { destruct (N.eq_dec p addr) as [<-|Hne].
    - rewrite N.eqb_refl. rewrite andb_false_r. reflexivity.
    - assert (X1 : (p =? 0) = false) by (apply N.eqb_neq; lia). assert (X2 : (p =? addr) = false) by (apply N.eqb_neq; assumption).
      rewrite X1, X2. reflexivity. }
  rewrite B in E.
  destruct (os_prim_free_ok oracle o1 p good o2 Hp Hg E Hm) as [M _].
  eapply unmap_holds; [exact W|exact HF|reflexivity|exact M].
Qed.

(* C11 os_free_inverse, _mi_os_alloc_aligned *)
Lemma os_free_inverse_aligned o size alignment commit al o1 p m fsize sc o2 :
  k_wf (os_k o) -> size < W64 -> alignment < W64 ->
  os_alloc_aligned cfg oracle o size alignment commit al = (o1, Some (p, m)) ->
  os_free_ex oracle o1 p fsize sc m = o2 -> munmaps_ok (os_log o2) = true ->
  k_eq (os_k o) (os_k o2).
Proof.
  intros W Hs Ha A F Hm.
  assert (L12 : log_ext o1 o2).
  { unfold os_free_ex in F. destruct (memkind_is_os (mem_kind m)); [|subst; apply log_ext_refl].
    destruct (if negb (mem_base m =? 0) && negb (mem_base m =? p) then _ else _) as [b c]. unfold os_prim_free in F.
    destruct ((b =? 0) || (c =? 0)); [subst; apply log_ext_refl|]. unfold prim_free in F.
    destruct (sys_munmap oracle o1 b c) as [ox bb] eqn:M. cbn in F. subst ox.
    apply sys_munmap_spec in M as (_ & L & _). eapply log_ext_cons. exact L. }
  pose proof (munmaps_ok_ext o1 o2 L12 Hm) as Hm1.
  pose proof (os_alloc_aligned_spec o size alignment commit al o1 p m W Hs Ha A Hm1) as (S1 & S2 & S3 & S4 & S5 & S6 & -> & S8 & S9).
  cbv zeta in *. pose proof (good_size_lt size Hs) as GL.
  eapply (os_free_ex_fresh o o1 p (os_good_alloc_size size) p fsize sc o2 commit); try eassumption; try lia.
  rewrite ADDR_LIMIT_val in S6. rewrite W64_val. lia.
Qed.

(* C11 os_free_inverse, _mi_os_alloc *)
Lemma os_free_inverse_alloc o size o1 p m fsize sc o2 :
  k_wf (os_k o) -> size < W64 ->
  os_alloc cfg oracle o size = (o1, Some (p, m)) ->
  os_free_ex oracle o1 p fsize sc m = o2 -> munmaps_ok (os_log o2) = true ->
  k_eq (os_k o) (os_k o2).
Proof.
  intros W Hs A F Hm. unfold os_alloc in A. destruct (size =? 0); [discriminate|].
  destruct (os_prim_alloc cfg oracle o (os_good_alloc_size size) 0 true false) as [ox r] eqn:PA.
  destruct r as [p'|]; [|discriminate]. injection A as <- <- <-.
  apply os_prim_alloc_spec in PA as [_ (P1 & P2 & P3 & P4 & HF)].
  pose proof (good_size_lt size Hs) as GL.
  eapply (os_free_ex_fresh o ox p' (os_good_alloc_size size) p' fsize sc o2 true); try eassumption; try lia.
  rewrite ADDR_LIMIT_val in P4. rewrite W64_val. pose proof (len_up_ge (os_good_alloc_size size)). lia.
Qed.

(* C11 os_free_inverse, _mi_os_alloc_aligned_at_offset (sizes and alignment within the address space, the
   preconditions asserted by the C) *)
Lemma os_free_inverse_at_offset o size alignment offset commit al o1 p m fsize sc o2 :
  k_wf (os_k o) -> size < 2 ^ 62 -> alignment < 2 ^ 62 -> offset <= MI_SEGMENT_SIZE ->
  os_alloc_aligned_at_offset cfg oracle o size alignment offset commit al = (o1, Some (p, m)) ->
  os_free_ex oracle o1 p fsize sc m = o2 -> munmaps_ok (os_log o2) = true ->
  k_eq (os_k o) (os_k o2).
Proof.
  intros W Hs Ha Ho A F Hm. rewrite P62 in Hs, Ha.
  unfold os_alloc_aligned_at_offset in A.
  destruct (MI_SEGMENT_SIZE <? offset); [discriminate|].
  destruct (offset =? 0) eqn:Z0.
  { eapply os_free_inverse_aligned; try eassumption; rewrite W64_val; lia. }
  apply N.eqb_neq in Z0.
  set (extra := wsub (align_up offset alignment) offset) in *.
  destruct (os_alloc_aligned cfg oracle o (wadd size extra) alignment commit al) as [oa r] eqn:AA.
  destruct r as [[start m']|]; [|discriminate]. injection A as E1 E2 E3. subst p m.
  set (od := if commit && (PAGE <? extra) then fst (os_decommit cfg oracle oa start extra) else oa) in *.
  subst o1.
  (* the log: oa -> od (decommit) -> o2 (free) *)
  assert (L12 : log_ext od o2).
  { unfold os_free_ex in F. destruct (memkind_is_os (mem_kind m')); [|subst; apply log_ext_refl].
    destruct (if negb (mem_base m' =? 0) && negb (mem_base m' =? wadd start extra) then _ else _) as [b c]. unfold os_prim_free in F.
    destruct ((b =? 0) || (c =? 0)); [subst; apply log_ext_refl|]. unfold prim_free in F.
    destruct (sys_munmap oracle od b c) as [ox bb] eqn:M. cbn in F. subst ox.
    apply sys_munmap_spec in M as (_ & L & _). eapply log_ext_cons. exact L. }
  pose proof (munmaps_ok_ext od o2 L12 Hm) as Hm1.
  (* extra < alignment *)
  assert (SEG : MI_SEGMENT_SIZE = 33554432) by reflexivity. rewrite SEG in Ho.
  assert (Hex : extra < W64) by (apply wsub_lt; apply align_up_lt).
  assert (Hsw : wadd size extra < W64) by apply wrap_lt.
  (* decommit: madvise (+ mprotect) at `start`, inside the fresh mapping *)
  assert (D : forall sz, holds_fresh o oa start sz -> start mod PAGE = 0 -> 0 < start -> start + sz <= ADDR_LIMIT ->
              holds_fresh o od start sz /\ log_ext oa od).
  { intros sz HF Hsm Hs0 Hlim. unfold od. destruct (commit && (PAGE <? extra)); [|split; [assumption|apply log_ext_refl]].
    unfold os_decommit, os_decommit_ex.
    destruct (os_page_align_area true start extra) as [st cs] eqn:PA.
    destruct (cs =? 0) eqn:C0; [cbn; split; [assumption|apply log_ext_refl]|]. apply N.eqb_neq in C0.
    assert (Hst : st = start /\ start < start + sz).
    { destruct HF as (F0 & _). split; [|lia]. unfold os_page_align_area in PA.
      destruct ((extra =? 0) || (start =? 0)); [injection PA as <- <-; congruence|].
      rewrite ADDR_LIMIT_val, PAGE_val in *.
      rewrite (align_up_spec start 4096) in PA by (rewrite ?W64_val; lia).
      match type of PA with (if ?c then _ else _) = _ => destruct c end; injection PA as <- <-; [congruence|]. lia. }
    destruct Hst as [-> Hlt].
    unfold prim_decommit. destruct (sys_madvise oracle oa start cs MADV_DONTNEED_) as [o3 b3] eqn:M3.
    destruct (touch_madvise oracle o oa start sz start cs MADV_DONTNEED_ o3 b3 HF (N.le_refl _) Hlt M3) as [HF3 L3].
    destruct (decommit_protects cfg); cbn [fst].
    - destruct (sys_mprotect oracle o3 start cs false) as [o4 b4] eqn:M4. cbn [fst].
      destruct (touch_mprotect oracle o o3 start sz start cs false o4 b4 HF3 (N.le_refl _) Hlt M4) as [HF4 L4].
      split; [assumption|]. eapply log_ext_trans; apply log_ext_nm_weak; eassumption.
    - split; [assumption|apply log_ext_nm_weak; assumption]. }
  assert (Hma : munmaps_ok (os_log oa) = true -> True) by auto.
  (* the allocation *)
  assert (Hmoa : munmaps_ok (os_log oa) = true).
  { (* oa's log is a prefix of od's = o1's *)
    unfold od in Hm1. destruct (commit && (PAGE <? extra)); [|exact Hm1].
    unfold os_decommit, os_decommit_ex in Hm1. destruct (os_page_align_area true start extra) as [st cs].
    destruct (cs =? 0); [exact Hm1|]. unfold prim_decommit in Hm1.
    destruct (sys_madvise oracle oa st cs MADV_DONTNEED_) as [o3 b3] eqn:M3.
    apply sys_madvise_spec in M3 as (_ & _ & (c3 & L3 & _) & _).
    destruct (decommit_protects cfg); cbn [fst] in Hm1.
    - destruct (sys_mprotect oracle o3 st cs false) as [o4 b4] eqn:M4. cbn [fst] in Hm1.
      apply sys_mprotect_spec in M4 as (_ & _ & (c4 & L4 & _) & _).
      eapply munmaps_ok_ext; [|exact Hm1]. eapply log_ext_trans; eapply log_ext_cons; eassumption.
    - eapply munmaps_ok_ext; [|exact Hm1]. eapply log_ext_cons; eassumption. }
  pose proof (os_alloc_aligned_spec o (wadd size extra) alignment commit al oa start m' W Hsw ltac:(rewrite W64_val; lia) AA Hmoa)
    as (S1 & S2 & S3 & S4 & S5 & S6 & -> & S8 & S9).
  cbv zeta in *.
  assert (Hsp : start mod PAGE = 0).
  { pose proof (os_prim_alloc_aligned_spec cfg oracle o (os_good_alloc_size (wadd size extra)) (align_up alignment PAGE) commit al) as X.
    unfold os_alloc_aligned in AA. destruct (wadd size extra =? 0); [discriminate|].
    destruct (os_prim_alloc_aligned cfg oracle o (os_good_alloc_size (wadd size extra)) (align_up alignment PAGE) commit al) as [ox r] eqn:PA.
    destruct r as [[p' base]|]; [|discriminate]. injection AA as Ea Eb Ec. subst ox p'.
    destruct (X oa start base W (good_size_lt _ Hsw) (align_up_lt _ _) eq_refl Hmoa) as (_ & _ & _ & X4 & _). exact X4. }
  destruct (D (len_up (os_good_alloc_size (wadd size extra))) S8 Hsp S2 S6) as [HFd Ld].
  pose proof (good_size_lt _ Hsw) as GL.
  eapply (os_free_ex_fresh o od start (os_good_alloc_size (wadd size extra)) (wadd start extra) fsize sc o2 commit);
    try eassumption; try lia.
  - apply wrap_lt.
  - (* start <= start + extra (no wrap) *)
    rewrite ADDR_LIMIT_val in S6. pose proof (len_up_ge (os_good_alloc_size (wadd size extra))) as (G1 & _).
    assert (Hea : extra < alignment \/ alignment = 0).
    { destruct (N.eq_dec alignment 0) as [->|NZ]; [right; reflexivity|left].
      unfold extra. destruct (align_up_props offset alignment ltac:(lia) ltac:(rewrite W64_val; lia) ltac:(rewrite W64_val; lia)) as (Q1 & Q2 & _).
      rewrite wsub_small by lia. lia. }
    destruct Hea as [Hea | ->].
    + rewrite wadd_small by (rewrite W64_val; lia). lia.
    + exfalso. (* alignment 0: align_up 0 PAGE = 0 < PAGE: the aligned allocation is refused *)
      unfold os_alloc_aligned in AA. destruct (wadd size extra =? 0); [discriminate|].
      unfold os_prim_alloc_aligned in AA. change (align_up 0 PAGE) with 0 in AA. cbn in AA. discriminate.
Qed.

End Inverse.

(* ------------------------------------------------------------------------------------- *)
(* C11 thread_data_released: the thread-metadata cache                                     *)
(* ------------------------------------------------------------------------------------- *)
Section ThreadData.
Variable oracle : nat -> answer.

Lemma sys_munmap_calls o a l : calls (fst (sys_munmap oracle o a l)) = calls o ++ [(KMunmap, a, l, 0)].
Proof.
  unfold sys_munmap. destruct (a_ok (oracle (os_seq o)) && (a mod PAGE =? 0) && (0 <? l)); cbn [fst]; rewrite calls_step; reflexivity.
Qed.

(* a cached block as mi_thread_data_zalloc stores it: obtained from _mi_os_alloc *)
Definition td_entry_ok (e : N * memid) : Prop :=
  0 < fst e /\ 0 < mem_size (snd e) /\ mem_kind (snd e) = MemOs /\ mem_base (snd e) = fst e.

Definition td_cached (c : td_cache) : list (N * memid) :=
  flat_map (fun x => match x with Some e => [e] | None => [] end) c.

(* after _mi_thread_data_collect every slot is empty and exactly one munmap(base, size) was issued for every
   cached block, in slot order *)
Lemma thread_data_collect_spec : forall c o,
  (forall e, In e (td_cached c) -> td_entry_ok e) ->
  let r := thread_data_collect oracle o c in
  snd r = map (fun _ => None) c /\
  calls (fst r) = calls o ++ map (fun e => (KMunmap, fst e, mem_size (snd e), 0)) (td_cached c).
Proof.
  induction c as [|x c IH]; intros o H; cbn [thread_data_collect].
  - cbv zeta. cbn. rewrite app_nil_r. split; reflexivity.
  - destruct x as [[td m]|].
    + assert (Hok : td_entry_ok (td, m)) by (apply H; cbn; left; reflexivity).
      destruct Hok as (T1 & T2 & T3 & T4). cbn [fst snd] in *.
      set (o1 := os_free oracle o td sizeof_mi_thread_data_t m).
      assert (C1 : calls o1 = calls o ++ [(KMunmap, td, mem_size m, 0)]).
      { unfold o1, os_free, os_free_ex. rewrite T3. cbn [memkind_is_os].
        assert (Z : (mem_size m =? 0) = false) by (apply N.eqb_neq; lia). rewrite Z, T4, N.eqb_refl, andb_false_r.
        unfold os_prim_free. assert (Z2 : ((td =? 0) || (mem_size m =? 0)) = false) by (apply orb_false_intro; apply N.eqb_neq; lia).
        rewrite Z2. unfold prim_free. apply sys_munmap_calls. }
      destruct (IH o1) as [I1 I2]; [intros e He; apply H; cbn; right; exact He|]. cbv zeta in *.
      destruct (thread_data_collect oracle o1 c) as [o' rest']. cbn [fst snd] in *.
      split; [cbn; rewrite I1; reflexivity|]. rewrite I2, C1, <- app_assoc. reflexivity.
    + destruct (IH o) as [I1 I2]; [intros e He; apply H; exact He|]. cbv zeta in *.
      destruct (thread_data_collect oracle o c) as [o' rest']. cbn [fst snd] in *.
      split; [cbn; rewrite I1; reflexivity|exact I2].
Qed.

End ThreadData.
