(* Tie 1 for functions: every definition c_<fn> of Gen/Funcs.v (regenerated from /repo's C source by
   tools/c2gallina.py on every run) is equal to the hand-written model of Model/Arith.v on the whole
   64-bit range, and evaluates no undefined C operation (c_<fn>_ok) on the domain the allocator uses.
   When the C source changes, Gen/Funcs.v changes and these lemmas are re-checked against it.

   Proof style (chosen to survive behaviour-preserving rewrites of the C code where possible):
   finite domains by complete enumeration (forallN, vm_compute), which only looks at input/output
   behaviour; the unbounded remainder by unfolding to if-trees over N arithmetic, case analysis on
   every condition and lia (tactic c_cases); plain convertibility (reflexivity) is tried first. *)
From Coq Require Import NArith ZArith Lia Bool List.
From Coq Require Import ZifyN ZifyBool.
From MiV Require Import Gen.Consts Gen.Bins Model.Arith Model.CSem Gen.Funcs Proofs.Base Proofs.ArithSweeps Proofs.ArithProofs Proofs.BitsProofs Proofs.GenSweeps Proofs.GenSweepsB.
From MiV Require Model.Span Model.Bitmap Model.Bind.
From MiV Require Gen.FuncsCheck.   (* the constants folded by the translator, recomputed by Coq *)
Import ListNotations.
Local Open Scope N_scope.
Local Open Scope bool_scope.
Ltac Zify.zify_post_hook ::= Z.div_mod_to_equations.

(* ------------------------------------------------------------------------------------------ *)
(* semantics helpers                                                                            *)
(* ------------------------------------------------------------------------------------------ *)
Lemma pow64 : 2 ^ 64 = W64.
Proof. reflexivity. Qed.

Lemma cast_su_of_N n : n < W64 -> cast_su 64 (Z.of_N n) = n.
Proof.
  intros H. unfold cast_su. change (Z.of_N 64) with 64%Z.
  rewrite Z.mod_small; [apply N2Z.id|]. rewrite W64_val in H. lia.
Qed.

Lemma cast_us_small x : x < 2 ^ 63 -> cast_us 64 x = Z.of_N x.
Proof.
  intros H. unfold cast_us. change (2 ^ 64) with W64. change (64 - 1) with 63.
  rewrite N.mod_small by (rewrite W64_val; change (2 ^ 63) with 9223372036854775808 in H; lia).
  apply N.ltb_lt in H. rewrite H. reflexivity.
Qed.

Lemma cast_us_big x : 2 ^ 63 <= x -> x < W64 -> (cast_us 64 x < 0)%Z.
Proof.
  intros H1 H2. unfold cast_us. change (2 ^ 64) with W64. change (64 - 1) with 63.
  rewrite N.mod_small by assumption.
  destruct (x <? 2 ^ 63) eqn:E; [apply N.ltb_lt in E; lia|].
  change (2 ^ Z.of_N 64)%Z with 18446744073709551616%Z. rewrite W64_val in H2. lia.
Qed.

Lemma wshl_small a n : a * 2 ^ n < W64 -> wshl a n = N.shiftl a n.
Proof. intros H. unfold wshl. rewrite N.shiftl_mul_pow2. apply wrap_small; assumption. Qed.

(* conditions of if-trees as propositions; then linear arithmetic *)
Ltac bool2prop :=
  repeat match goal with
  | H : (_ <=? _) = true |- _ => apply N.leb_le in H
  | H : (_ <=? _) = false |- _ => apply N.leb_gt in H
  | H : (_ <? _) = true |- _ => apply N.ltb_lt in H
  | H : (_ <? _) = false |- _ => apply N.ltb_ge in H
  | H : (_ =? _) = true |- _ => apply N.eqb_eq in H
  | H : (_ =? _) = false |- _ => apply N.eqb_neq in H
  | H : negb _ = true |- _ => apply negb_true_iff in H
  | H : negb _ = false |- _ => apply negb_false_iff in H
  | H : (_ && _) = true |- _ => apply andb_true_iff in H; destruct H
  end.
Ltac split_ifs :=
  repeat match goal with
  | |- context [if ?c then _ else _] =>
      lazymatch c with context [if _ then _ else _] => fail | _ => idtac end;
      let E := fresh "E" in destruct c eqn:E
  end.
(* unfold the 64-bit operations to N arithmetic, split every condition, decide by lia *)
Ltac pow_consts :=
  repeat match goal with
  | |- context [2 ^ ?k] =>
      lazymatch k with
      | N0 => idtac | Npos _ => idtac
      end;
      let v := eval vm_compute in (2 ^ k) in change (2 ^ k) with v
  end.
Ltac c_cases :=
  unfold wadd, wsub, wmul, wnot, wshl, wrap in *;
  rewrite ?N.shiftr_div_pow2, ?N.shiftl_mul_pow2 in *; pow_consts; rewrite ?W64_val in *;
  split_ifs; bool2prop; try reflexivity; try lia.

(* ------------------------------------------------------------------------------------------ *)
(* internal.h                                                                                   *)
(* ------------------------------------------------------------------------------------------ *)
Lemma c__mi_wsize_from_size_eq size : c__mi_wsize_from_size size = wsize_from_size size.
Proof. first [reflexivity | unfold c__mi_wsize_from_size, wsize_from_size, MI_INTPTR_SIZE; c_cases]. Qed.

Lemma c_mi_clz_eq x : x < W64 -> c_mi_clz x = clz x.
Proof.
  intros H. unfold c_mi_clz, clz, builtin_clzl. destruct (x =? 0); [reflexivity|].
  apply cast_su_of_N. rewrite W64_val. lia.
Qed.

Lemma ctz_le_64 x : x < W64 -> ctz x <= 64.
Proof.
  intros H. destruct x as [|p]; [cbn; lia|]. cbn [ctz].
  assert (G : forall q, 2 ^ ctz_pos q <= N.pos q).
  { induction q; cbn [ctz_pos]; try (cbn; lia). rewrite N.pow_succ_r'. change (N.pos q~0) with (2 * N.pos q). lia. }
  specialize (G p). destruct (N.le_gt_cases (ctz_pos p) 64) as [L|L]; [exact L|].
  assert (2 ^ 65 <= 2 ^ ctz_pos p) by (apply N.pow_le_mono_r; lia).
  change (2 ^ 65) with (2 * W64) in *. lia.
Qed.

Lemma c_mi_ctz_eq x : x < W64 -> c_mi_ctz x = ctz x.
Proof.
  intros H. unfold c_mi_ctz, builtin_ctzl. destruct (x =? 0) eqn:E.
  - apply N.eqb_eq in E. subst. reflexivity.
  - apply cast_su_of_N. pose proof (ctz_le_64 x H). rewrite W64_val. lia.
Qed.

Lemma c_mi_bsr_eq x : x < W64 -> c_mi_bsr x = bsr x.
Proof.
  intros H. unfold c_mi_bsr, bsr. destruct (x =? 0) eqn:E; [reflexivity|].
  apply N.eqb_neq in E. rewrite c_mi_clz_eq by assumption. rewrite clz_pos by lia.
  pose proof (log2_lt_64 x H ltac:(lia)). c_cases.
Qed.

Lemma c__mi_is_power_of_two_eq x : c__mi_is_power_of_two x = is_power_of_two x.
Proof. first [reflexivity | unfold c__mi_is_power_of_two, is_power_of_two; f_equal; f_equal; c_cases]. Qed.

(* structural comparison of two terms built from the same operations: descend through equal heads,
   compare conditions, close arithmetic leaves by c_cases *)
Ltac c_congr :=
  try reflexivity;
  lazymatch goal with
  | |- (if ?c then _ else _) = (if ?c' then _ else _) =>
      first [ constr_eq c c'
            | let H := fresh "Hc" in assert (H : c = c') by c_congr; rewrite H; clear H ];
      destruct c'; c_congr
  | |- _ => first [ solve [c_cases] | (progress f_equal; c_congr) ]
  end.

(* goals of the form  <bool> = true  left by the _ok twins *)
Ltac ok_leaf :=
  repeat match goal with
  | |- (_ && _) = true => apply andb_true_iff; split
  | |- negb _ = true => apply negb_true_iff
  | |- (_ =? _) = false => apply N.eqb_neq
  | |- (_ <? _) = true => apply N.ltb_lt
  | |- (_ <=? _) = true => apply N.leb_le
  end; try reflexivity; try lia.

Lemma c__mi_align_up_eq sz alignment : sz < W64 -> alignment < W64 -> c__mi_align_up sz alignment = align_up sz alignment.
Proof. intros Hs Ha. first [reflexivity | unfold c__mi_align_up, align_up; cbv zeta; c_congr]. Qed.

Lemma c__mi_align_up_ok_all sz alignment : alignment <> 0 -> c__mi_align_up_ok sz alignment = true.
Proof. intros H. unfold c__mi_align_up_ok. cbv zeta. split_ifs; ok_leaf. Qed.

Lemma c__mi_align_down_eq sz alignment : sz < W64 -> alignment < W64 -> c__mi_align_down sz alignment = align_down sz alignment.
Proof. intros Hs Ha. first [reflexivity | unfold c__mi_align_down, align_down; cbv zeta; c_congr]. Qed.

Lemma c__mi_align_down_ok_all sz alignment : alignment <> 0 -> c__mi_align_down_ok sz alignment = true.
Proof. intros H. unfold c__mi_align_down_ok. cbv zeta. split_ifs; ok_leaf. Qed.

Lemma c__mi_divide_up_eq size divider : size < W64 -> divider < W64 -> c__mi_divide_up size divider = divide_up size divider.
Proof. intros Hs Hd. first [reflexivity | unfold c__mi_divide_up, divide_up; c_congr]. Qed.

Lemma c__mi_divide_up_ok_all size divider : c__mi_divide_up_ok size divider = true.
Proof. unfold c__mi_divide_up_ok. split_ifs; bool2prop; ok_leaf. Qed.

(* no hand model: the law itself *)
Lemma c__mi_clamp_spec sz lo hi : lo <= hi ->
  lo <= c__mi_clamp sz lo hi <= hi /\ (lo <= sz <= hi -> c__mi_clamp sz lo hi = sz).
Proof. intros H. unfold c__mi_clamp. split_ifs; bool2prop; lia. Qed.

Lemma c_mi_mul_overflow_eq count size : c_mi_mul_overflow count size = mul_overflow count size.
Proof.
  first [reflexivity |
    unfold c_mi_mul_overflow, mul_overflow, builtin_umull_overflow;
    repeat match goal with |- context [let '(_, _) := ?p in _] => destruct p end; reflexivity].
Qed.

Lemma c_mi_count_size_overflow_eq count size : c_mi_count_size_overflow count size = count_size_overflow count size.
Proof.
  unfold c_mi_count_size_overflow, count_size_overflow. rewrite c_mi_mul_overflow_eq.
  destruct (count =? 1); [reflexivity|].
  destruct (mul_overflow count size) as [o t]. destruct o; reflexivity.
Qed.

(* ------------------------------------------------------------------------------------------ *)
(* page-queue.c: mi_bin, _mi_bin_size, mi_good_size                                            *)
(* ------------------------------------------------------------------------------------------ *)
(* decide the conditions of an if-tree one at a time by linear arithmetic (no case explosion) *)
Ltac b_true :=
  repeat match goal with
  | |- (_ && _) = true => apply andb_true_iff; split
  | |- negb _ = true => apply negb_true_iff
  | |- (_ <=? _) = true => apply N.leb_le
  | |- (_ <? _) = true => apply N.ltb_lt
  | |- (_ =? _) = true => apply N.eqb_eq
  | |- (_ <=? _) = false => apply N.leb_gt
  | |- (_ <? _) = false => apply N.ltb_ge
  | |- (_ =? _) = false => apply N.eqb_neq
  end; lia.
Ltac b_false :=
  repeat match goal with
  | |- negb _ = false => apply negb_false_iff
  | |- (_ <=? _) = false => apply N.leb_gt
  | |- (_ <? _) = false => apply N.ltb_ge
  | |- (_ =? _) = false => apply N.eqb_neq
  | |- (_ <=? _) = true => apply N.leb_le
  | |- (_ <? _) = true => apply N.ltb_lt
  | |- (_ =? _) = true => apply N.eqb_eq
  end; lia.
Ltac eval_ifs :=
  repeat match goal with
  | |- context [if ?c then _ else _] =>
      first [ let H := fresh in assert (H : c = true) by b_true; rewrite H; clear H
            | let H := fresh in assert (H : c = false) by b_false; rewrite H; clear H ]
  end.

(* above the swept range and below the sizes where size+7 comes near 2^64 the generated function
   answers MI_BIN_HUGE without evaluating anything undefined *)
Lemma c_mi_bin_huge s : 2 * MI_MEDIUM_OBJ_SIZE_MAX < s -> s + 16 <= W64 ->
  c_mi_bin s = MI_BIN_HUGE /\ c_mi_bin_ok s = true.
Proof.
  intros H1 H2. unfold MI_MEDIUM_OBJ_SIZE_MAX, MI_BIN_HUGE in *.
  assert (Hw : c__mi_wsize_from_size s = (s + 7) / 8).
  { rewrite c__mi_wsize_from_size_eq. apply wsize_from_size_eq. lia. }
  rewrite W64_val in H2.
  unfold c_mi_bin, c_mi_bin_ok. cbv zeta. rewrite Hw. split; eval_ifs; reflexivity.
Qed.

Lemma c_mi_bin_eq_ok s : s < W64 -> c_mi_bin s = mi_bin s /\ c_mi_bin_ok s = true.
Proof.
  intros H.
  destruct (N.le_gt_cases s (2 * MI_MEDIUM_OBJ_SIZE_MAX)) as [L|G].
  - pose proof (forallN_spec _ _ sweep_c_bin_low s ltac:(unfold sweep_limit; lia)) as E.
    cbv beta in E. apply andb_true_iff in E as [E1 E2]. apply N.eqb_eq in E1. split; assumption.
  - destruct (N.le_gt_cases (s + 16) W64) as [L2|G2].
    + destruct (c_mi_bin_huge s G L2) as [E1 E2]. split; [|exact E2].
      rewrite E1. symmetry. apply mi_bin_huge; unfold MI_MEDIUM_OBJ_SIZE_MAX in *; lia.
    + pose proof (forallN_spec _ _ sweep_c_bin_top (s - (W64 - 16)) ltac:(rewrite W64_val in *; lia)) as E.
      cbv beta in E. replace (W64 - 16 + (s - (W64 - 16))) with s in E by (rewrite W64_val in *; lia).
      apply andb_true_iff in E as [E1 E2]. apply N.eqb_eq in E1. split; assumption.
Qed.

Lemma c_mi_bin_eq s : s < W64 -> c_mi_bin s = mi_bin s.
Proof. intros H. apply c_mi_bin_eq_ok; assumption. Qed.

Lemma c_mi_bin_ok_all s : s < W64 -> c_mi_bin_ok s = true.
Proof. intros H. apply c_mi_bin_eq_ok; assumption. Qed.

Lemma c__mi_bin_size_eq b : c__mi_bin_size b = bin_size b.
Proof. reflexivity. Qed.

Lemma c__mi_bin_size_ok_dom b : b <= MI_BIN_FULL -> c__mi_bin_size_ok b = true.
Proof.
  intros H. pose proof (forallN_spec _ _ sweep_c_bin_size b ltac:(lia)) as E.
  cbv beta in E. apply andb_true_iff in E as [_ E]. exact E.
Qed.

(* mi_good_size: swept up to 2*MI_MEDIUM_OBJ_SIZE_MAX; above, it is _mi_align_up (size + padding) page_size *)
Lemma c_mi_good_size_large s : MI_MEDIUM_OBJ_SIZE_MAX < s -> s < W64 ->
  c_mi_good_size s = good_size s /\ c_mi_good_size_ok s = true.
Proof.
  intros H1 H2. unfold c_mi_good_size, c_mi_good_size_ok, good_size.
  change MI_PADDING_SIZE with 0. unfold MI_MEDIUM_OBJ_SIZE_MAX in *.
  assert (E : (s <=? 65536) = false) by (apply N.leb_gt; lia). rewrite E.
  split.
  - apply c__mi_align_up_eq; [apply wrap_lt | reflexivity].
  - apply c__mi_align_up_ok_all. discriminate.
Qed.

Lemma c_mi_good_size_eq_ok s : s < W64 -> c_mi_good_size s = good_size s /\ c_mi_good_size_ok s = true.
Proof.
  intros H. destruct (N.le_gt_cases s (2 * MI_MEDIUM_OBJ_SIZE_MAX)) as [L|G].
  - pose proof (forallN_spec _ _ sweep_c_good_size s ltac:(unfold sweep_limit; lia)) as E.
    cbv beta in E. apply andb_true_iff in E as [E1 E2]. apply andb_true_iff in E1 as [E1 _]. apply N.eqb_eq in E1. split; assumption.
  - apply c_mi_good_size_large; [unfold MI_MEDIUM_OBJ_SIZE_MAX in *; lia | assumption].
Qed.

Lemma c_mi_good_size_eq s : s < W64 -> c_mi_good_size s = good_size s.
Proof. intros H. apply c_mi_good_size_eq_ok; assumption. Qed.

(* ------------------------------------------------------------------------------------------ *)
(* os.c: _mi_os_good_alloc_size                                                                *)
(* ------------------------------------------------------------------------------------------ *)
Lemma c__mi_os_good_alloc_size_eq size : size < W64 -> c__mi_os_good_alloc_size size = os_good_alloc_size size.
Proof.
  intros H. unfold c__mi_os_good_alloc_size, os_good_alloc_size, SIZE_MAX_, os_page_size_default. cbv zeta.
  change (512 * 1024) with 524288. change (2 * 1024 * 1024) with 2097152. change (8 * 1024 * 1024) with 8388608.
  change (32 * 1024 * 1024) with 33554432. change (64 * 1024) with 65536. change (256 * 1024) with 262144.
  change (1024 * 1024) with 1048576. change (4 * 1024 * 1024) with 4194304.
  destruct (size <? 524288); [|destruct (size <? 2097152); [|destruct (size <? 8388608); [|destruct (size <? 33554432)]]];
    (match goal with |- (if ?c then _ else _) = (if ?c' then _ else _) =>
       let Hc := fresh in assert (Hc : c = c') by (first [reflexivity | c_cases]); rewrite Hc; destruct c' end;
     [reflexivity | apply c__mi_align_up_eq; [assumption | reflexivity]]).
Qed.

Lemma c__mi_os_good_alloc_size_ok_all size : c__mi_os_good_alloc_size_ok size = true.
Proof.
  unfold c__mi_os_good_alloc_size_ok, os_page_size_default. cbv zeta.
  destruct (size <? 524288); [|destruct (size <? 2097152); [|destruct (size <? 8388608); [|destruct (size <? 33554432)]]];
    (match goal with |- (if ?c then _ else _) = _ => destruct c end; [reflexivity | apply c__mi_align_up_ok_all; discriminate]).
Qed.

(* ------------------------------------------------------------------------------------------ *)
(* segment.c: mi_slice_bin8, mi_slice_bin                                                      *)
(* ------------------------------------------------------------------------------------------ *)
Lemma c_mi_slice_bin8_dom c : c < slice_sweep_limit ->
  c_mi_slice_bin8 c = slice_bin8 c /\ c_mi_slice_bin c = slice_bin8 c /\ c_mi_slice_bin8_ok c = true /\ c_mi_slice_bin_ok c = true.
Proof.
  intros H. pose proof (forallN_spec _ _ sweep_c_slice_bin c H) as E. cbv beta in E.
  apply andb_true_iff in E as [E E4]. apply andb_true_iff in E as [E E3]. apply andb_true_iff in E as [E1 E2].
  apply N.eqb_eq in E1, E2. repeat split; assumption.
Qed.

(* the whole 64-bit range (depends on the shape of the generated definition) *)
Lemma c_mi_slice_bin8_eq c : c < W64 -> c_mi_slice_bin8 c = slice_bin8 c.
Proof.
  intros H. unfold c_mi_slice_bin8, slice_bin8. cbv zeta.
  destruct (c <=? 1) eqn:E1; [reflexivity|]. apply N.leb_gt in E1.
  rewrite (wsub_small c 1) by lia.
  rewrite c_mi_bsr_eq by lia.
  assert (Hb : bsr (c - 1) < 64).
  { unfold bsr. destruct (c - 1 =? 0) eqn:E0; [apply N.eqb_eq in E0; lia|]. apply log2_lt_64; lia. }
  destruct (bsr (c - 1) <=? 2) eqn:E2; [apply wadd_small; lia|]. apply N.leb_gt in E2.
  rewrite (wsub_small (bsr (c - 1)) 2) by lia.
  rewrite wshl_small; [reflexivity|]. change (2 ^ 2) with 4. rewrite W64_val. lia.
Qed.

Lemma c_mi_slice_bin_eq c : c < W64 -> c_mi_slice_bin c = slice_bin8 c.
Proof. intros H. unfold c_mi_slice_bin. apply c_mi_slice_bin8_eq; assumption. Qed.

(* ------------------------------------------------------------------------------------------ *)
(* internal.h: _mi_ptr_segment                                                                  *)
(* ------------------------------------------------------------------------------------------ *)
Lemma land_lt_W64 a b : b < W64 -> N.land a b < W64.
Proof.
  intros H. destruct (N.eq_dec (N.land a b) 0) as [E|E]; [rewrite E; reflexivity|].
  rewrite W64_pow. apply N.log2_lt_pow2; [lia|].
  pose proof (N.log2_land a b). pose proof (log2_lt_64' b H). lia.
Qed.

Lemma c__mi_ptr_segment_eq p : p < W64 -> c__mi_ptr_segment p = ptr_segment p.
Proof.
  intros H. unfold c__mi_ptr_segment, ptr_segment. cbv zeta.
  change (wnot MI_SEGMENT_MASK) with 18446744073675997184.
  set (seg := N.land (wsub p 1) 18446744073675997184).
  assert (Hs : seg < W64) by (apply land_lt_W64; reflexivity).
  destruct (seg =? 0) eqn:E0.
  - apply N.eqb_eq in E0. rewrite E0. reflexivity.
  - apply N.eqb_neq in E0. cbn [orb].
    destruct (2 ^ 63 <=? seg) eqn:E1.
    + apply N.leb_le in E1. pose proof (cast_us_big seg E1 Hs).
      destruct (Z.leb (cast_us 64 seg) 0) eqn:E2; [reflexivity|]. apply Z.leb_gt in E2. lia.
    + apply N.leb_gt in E1. rewrite cast_us_small by assumption.
      destruct (Z.leb (Z.of_N seg) 0) eqn:E2; [apply Z.leb_le in E2; lia | reflexivity].
Qed.

(* ------------------------------------------------------------------------------------------ *)
(* heap.c: mi_get_fast_divisor, mi_fast_divide                                                  *)
(* ------------------------------------------------------------------------------------------ *)
Lemma clz_le_64 x : clz x <= 64.
Proof. unfold clz. destruct (x =? 0); lia. Qed.

Lemma c_mi_get_fast_divisor_eq d : d < W64 -> c_mi_get_fast_divisor d = fast_divisor d.
Proof.
  intros H. unfold c_mi_get_fast_divisor, fast_divisor, MI_SIZE_BITS. cbv zeta.
  rewrite c_mi_clz_eq by (apply wsub_lt; assumption).
  rewrite (wsub_small 64 (clz (wsub d 1))) by apply clz_le_64.
  reflexivity.
Qed.

(* on the domain of the assertion in the C code (0 < divisor <= UINT32_MAX) nothing undefined is evaluated *)
Lemma c_mi_get_fast_divisor_ok_dom d : 0 < d -> d <= UINT32_MAX_ -> c_mi_get_fast_divisor_ok d = true.
Proof.
  intros H1 H2. unfold UINT32_MAX_ in H2. unfold c_mi_get_fast_divisor_ok. cbv zeta.
  assert (Hd : wsub d 1 = d - 1) by (apply wsub_small; lia). rewrite Hd.
  assert (Hlt : d - 1 < W64) by (rewrite W64_val; lia).
  rewrite c_mi_clz_eq by assumption.
  assert (Hc : 32 <= clz (d - 1) <= 64).
  { split; [|apply clz_le_64]. unfold clz. destruct (d - 1 =? 0) eqn:E; [lia|]. apply N.eqb_neq in E.
    assert (N.log2 (d - 1) < 32) by (apply N.log2_lt_pow2; [lia|]; change (2 ^ 32) with 4294967296; lia). lia. }
  rewrite (wsub_small 64 _) by lia.
  apply andb_true_iff; split.
  - unfold c_mi_clz_ok. destruct (d - 1 =? 0); reflexivity.
  - ok_leaf.
Qed.

Lemma c_mi_fast_divide_eq n magic shift : c_mi_fast_divide n magic shift = fast_divide n magic shift.
Proof. first [reflexivity | unfold c_mi_fast_divide, fast_divide; cbv zeta; c_congr]. Qed.

(* ------------------------------------------------------------------------------------------ *)
(* free.c: _mi_page_ptr_unalign (page->page_start, page->block_size_shift and                  *)
(* mi_page_block_size(page) are arguments of the generated function)                            *)
(* ------------------------------------------------------------------------------------------ *)
Lemma cast_su_sub p q : p < W64 -> q < W64 -> cast_su 64 (Z.of_N p - Z.of_N q) = wsub p q.
Proof.
  intros Hp Hq. unfold cast_su, wsub. change (Z.of_N 64) with 64%Z. rewrite W64_val in *.
  destruct (q <=? p) eqn:E.
  - apply N.leb_le in E. rewrite Z.mod_small by lia. lia.
  - apply N.leb_gt in E. unfold wrap. rewrite W64_val.
    assert (L : (p + 18446744073709551616 - q <? 18446744073709551616) = true) by (apply N.ltb_lt; lia). rewrite L.
    replace (Z.of_N p - Z.of_N q)%Z with ((Z.of_N p - Z.of_N q + 2 ^ 64) + (-1) * 2 ^ 64)%Z by lia.
    rewrite Z.mod_add by lia. rewrite Z.mod_small by lia. lia.
Qed.

Lemma c__mi_page_ptr_unalign_eq p page_start bs : p < W64 -> page_start < W64 ->
  c__mi_page_ptr_unalign p page_start (block_size_shift bs) bs = ptr_unalign page_start bs p.
Proof.
  intros Hp Hq. unfold c__mi_page_ptr_unalign, ptr_unalign. cbv zeta.
  rewrite cast_su_sub by assumption. rewrite N2Z.id.
  assert (E : Z.eqb (Z.of_N (block_size_shift bs)) 0 = (block_size_shift bs =? 0)).
  { destruct (block_size_shift bs =? 0) eqn:E0.
    - apply N.eqb_eq in E0. rewrite E0. reflexivity.
    - apply N.eqb_neq in E0. apply Z.eqb_neq. lia. }
  rewrite E. reflexivity.
Qed.

(* no undefined operation for a page of the allocator: p inside the page area, block size > 0,
   the stored shift is the one computed by mi_page_init *)
Lemma block_size_shift_lt_64 bs : block_size_shift bs < 256.
Proof.
  unfold block_size_shift. destruct (is_power_of_two bs && (0 <? bs)); [|lia].
  change 255 with (N.ones 8). rewrite N.land_ones. apply N.mod_lt. discriminate.
Qed.

Lemma c__mi_page_ptr_unalign_ok_dom p page_start bs : page_start <= p -> p < 2 ^ 63 -> 0 < bs -> bs < W64 ->
  c__mi_page_ptr_unalign_ok p page_start (block_size_shift bs) bs = true.
Proof.
  intros H1 H2 H3 H4. change (2 ^ 63) with 9223372036854775808 in H2.
  unfold c__mi_page_ptr_unalign_ok. cbv zeta.
  apply andb_true_iff; split.
  - unfold sfits. change (Z.of_N 64 - 1)%Z with 63%Z. apply andb_true_iff; split; [apply Z.leb_le | apply Z.ltb_lt]; lia.
  - destruct (negb (Z.eqb (Z.of_N (block_size_shift bs)) 0)) eqn:E.
    + apply andb_true_iff; split; [apply Z.leb_le; lia | apply Z.ltb_lt].
      apply negb_true_iff, Z.eqb_neq in E.
      destruct (block_size_shift_cases bs H3 H4) as [[k [Hk [Hb Hs]]] | E0]; [rewrite Hs; lia | rewrite E0 in E; lia].
    + apply negb_true_iff, N.eqb_neq. lia.
Qed.

(* ------------------------------------------------------------------------------------------ *)
(* bitmap.h / bitmap.c: index helpers and mi_bitmap_mask_  (hand models in Model/Bitmap.v)     *)
(* ------------------------------------------------------------------------------------------ *)
Lemma c_mi_bitmap_index_create_ex_eq idx bitidx : idx * 64 + bitidx < W64 ->
  c_mi_bitmap_index_create_ex idx bitidx = Bitmap.index_create idx bitidx.
Proof.
  intros H. unfold c_mi_bitmap_index_create_ex, Bitmap.index_create.
  rewrite wmul_small by lia. apply wadd_small; assumption.
Qed.

Lemma c_mi_bitmap_index_create_eq idx bitidx : idx * 64 + bitidx < W64 ->
  c_mi_bitmap_index_create idx bitidx = Bitmap.index_create idx bitidx.
Proof. intros H. unfold c_mi_bitmap_index_create. apply c_mi_bitmap_index_create_ex_eq; assumption. Qed.

Lemma c_mi_bitmap_index_field_eq i : c_mi_bitmap_index_field i = Bitmap.index_field i.
Proof. reflexivity. Qed.

Lemma c_mi_bitmap_index_bit_in_field_eq i : c_mi_bitmap_index_bit_in_field i = Bitmap.index_bit_in_field i.
Proof. reflexivity. Qed.

Lemma c_mi_bitmap_index_bit_eq i : c_mi_bitmap_index_bit i = Bitmap.index_bit i.
Proof. reflexivity. Qed.

Lemma c_mi_bitmap_index_create_from_bit_eq i : i < W64 ->
  c_mi_bitmap_index_create_from_bit i = Bitmap.index_create_from_bit i /\ c_mi_bitmap_index_create_from_bit i = i.
Proof.
  intros H. unfold c_mi_bitmap_index_create_from_bit, Bitmap.index_create_from_bit.
  assert (E : i / 64 * 64 + i mod 64 = i) by (pose proof (N.div_mod i 64 ltac:(discriminate)); lia).
  rewrite c_mi_bitmap_index_create_eq by (rewrite E; assumption).
  split; [reflexivity | exact E].
Qed.

(* the index laws on the generated functions: field/bit are the inverse of create *)
Lemma c_bitmap_index_roundtrip idx bitidx : bitidx < 64 -> idx * 64 + bitidx < W64 ->
  c_mi_bitmap_index_field (c_mi_bitmap_index_create idx bitidx) = idx /\
  c_mi_bitmap_index_bit_in_field (c_mi_bitmap_index_create idx bitidx) = bitidx.
Proof.
  intros H1 H2. rewrite c_mi_bitmap_index_create_eq by assumption.
  unfold c_mi_bitmap_index_field, c_mi_bitmap_index_bit_in_field, Bitmap.index_create. split; lia.
Qed.

Lemma c_mi_bitmap_mask__eq count bitidx : c_mi_bitmap_mask_ count bitidx = Bitmap.mask_ count bitidx.
Proof.
  unfold c_mi_bitmap_mask_, Bitmap.mask_, Bitmap.FULL, MI_BITMAP_FIELD_FULL.
  destruct (64 <=? count) eqn:E1; [reflexivity|]. apply N.leb_gt in E1.
  destruct (count =? 0) eqn:E0; [reflexivity|].
  assert (P : 2 ^ count < W64) by (apply pow2_lt_W64; assumption).
  assert (Q : 0 < 2 ^ count) by apply pow2_pos.
  rewrite (wshl_small 1 count) by lia. rewrite N.shiftl_1_l.
  rewrite wsub_small by lia. rewrite ones_eq. reflexivity.
Qed.

(* the mask has exactly the bits bitidx .. bitidx+count-1, and building it shifts by less than 64 *)
Lemma c_mi_bitmap_mask__spec count bitidx : 0 < count -> count + bitidx <= 64 ->
  c_mi_bitmap_mask_ count bitidx = (2 ^ count - 1) * 2 ^ bitidx /\ c_mi_bitmap_mask__ok count bitidx = true.
Proof.
  intros H1 H2.
  pose proof (forallN_spec _ _ sweep_c_bitmap_mask (count * 65 + bitidx) ltac:(nia)) as E.
  unfold chk_mask in E. cbv zeta in E.
  replace ((count * 65 + bitidx) / 65) with count in E by (apply N.div_unique with bitidx; lia).
  replace ((count * 65 + bitidx) mod 65) with bitidx in E by (apply N.mod_unique with count; lia).
  assert (C : ((count + bitidx <=? 64) && (0 <? count)) = true) by (apply andb_true_iff; split; [apply N.leb_le | apply N.ltb_lt]; lia).
  rewrite C in E. apply andb_true_iff in E as [E1 E2]. apply N.eqb_eq in E1. split; assumption.
Qed.

(* ------------------------------------------------------------------------------------------ *)
(* segment.c: mi_segment_calculate_slices (hand model in Model/Span.v)                          *)
(* ------------------------------------------------------------------------------------------ *)
Lemma wadd_0_r x : x < W64 -> wadd x 0 = x.
Proof. intros H. unfold wadd. rewrite N.add_0_r. apply wrap_small; assumption. Qed.

Lemma c_mi_segment_calculate_slices_eq required : required < W64 ->
  c_mi_segment_calculate_slices required = Span.calculate_slices required.
Proof.
  intros H. unfold c_mi_segment_calculate_slices, Span.calculate_slices. cbv zeta.
  assert (I1 : c__mi_align_up sizeof_mi_segment_t os_page_size_default = align_up sizeof_mi_segment_t os_page_size_default)
    by (vm_compute; reflexivity).
  rewrite I1.
  set (i1 := align_up sizeof_mi_segment_t os_page_size_default).
  assert (I2 : c__mi_align_up (wadd i1 0) 65536 = align_up i1 MI_SEGMENT_SLICE_SIZE) by (vm_compute; reflexivity).
  rewrite I2.
  set (i2 := align_up i1 MI_SEGMENT_SLICE_SIZE).
  change MI_SEGMENT_SLICE_SIZE with 65536. change MI_SEGMENT_SIZE with 33554432.
  destruct (required =? 0); [reflexivity|].
  rewrite wadd_0_r by apply wrap_lt.
  rewrite c__mi_align_up_eq; [reflexivity | apply wrap_lt | reflexivity].
Qed.

Lemma c_mi_segment_calculate_slices_ok_all required : c_mi_segment_calculate_slices_ok required = true.
Proof.
  unfold c_mi_segment_calculate_slices_ok. cbv zeta.
  repeat (apply andb_true_iff; split); try (apply c__mi_align_up_ok_all; discriminate).
  destruct (required =? 0); [reflexivity | apply c__mi_align_up_ok_all; discriminate].
Qed.

(* ------------------------------------------------------------------------------------------ *)
(* arena.c: arena ids (`int`, so Z with side condition "fits in 32 bits") and block arithmetic   *)
(* (hand models in Model/Bind.v, properties C14/C15)                                            *)
(* ------------------------------------------------------------------------------------------ *)
Lemma c__mi_arena_id_none_eq : c__mi_arena_id_none = Bind.arena_id_none.
Proof. reflexivity. Qed.

Lemma cast_su_nonneg z : (0 <= z < 2 ^ 64)%Z -> cast_su 64 z = Z.to_N z.
Proof. intros H. unfold cast_su. change (Z.of_N 64) with 64%Z. rewrite Z.mod_small by lia. reflexivity. Qed.

Lemma c_mi_arena_id_index_eq id : (- 2 ^ 31 <= id < 2 ^ 31)%Z ->
  c_mi_arena_id_index id = Bind.arena_id_index id /\ c_mi_arena_id_index_ok id = true.
Proof.
  intros H. unfold c_mi_arena_id_index, c_mi_arena_id_index_ok, Bind.arena_id_index, MI_MAX_ARENAS.
  destruct (Z.leb id 0) eqn:E.
  - split; reflexivity.
  - apply Z.leb_gt in E. split; [apply cast_su_nonneg; lia|].
    unfold sfits. change (Z.of_N 32 - 1)%Z with 31%Z. apply andb_true_iff; split; [apply Z.leb_le | apply Z.ltb_lt]; lia.
Qed.

Lemma c_mi_arena_id_create_eq idx : idx < MI_MAX_ARENAS ->
  c_mi_arena_id_create idx = Bind.arena_id_create idx /\ c_mi_arena_id_create_ok idx = true.
Proof.
  intros H. unfold MI_MAX_ARENAS in H. unfold c_mi_arena_id_create, c_mi_arena_id_create_ok, Bind.arena_id_create.
  assert (E : cast_us 32 idx = Z.of_N idx).
  { unfold cast_us. change (2 ^ 32) with 4294967296. change (2 ^ (32 - 1)) with 2147483648.
    rewrite N.mod_small by lia. assert (L : (idx <? 2147483648) = true) by (apply N.ltb_lt; lia). rewrite L. reflexivity. }
  rewrite E. split; [reflexivity|].
  unfold sfits. change (Z.of_N 32 - 1)%Z with 31%Z. apply andb_true_iff; split; [apply Z.leb_le | apply Z.ltb_lt]; lia.
Qed.

Lemma c_mi_arena_id_is_suitable_eq aid ex req :
  c_mi_arena_id_is_suitable aid ex req = Bind.arena_id_is_suitable aid ex req.
Proof. first [reflexivity | unfold c_mi_arena_id_is_suitable, Bind.arena_id_is_suitable; rewrite c__mi_arena_id_none_eq; reflexivity]. Qed.

Lemma c_mi_block_count_of_size_eq size : size < W64 ->
  c_mi_block_count_of_size size = Bind.block_count_of_size size /\ c_mi_block_count_of_size_ok size = true.
Proof.
  intros H. unfold c_mi_block_count_of_size, c_mi_block_count_of_size_ok, Bind.block_count_of_size.
  split; [apply c__mi_divide_up_eq; [assumption | reflexivity] | apply c__mi_divide_up_ok_all].
Qed.

Lemma c_mi_arena_block_size_spec bcount : bcount * MI_ARENA_BLOCK_SIZE < W64 ->
  c_mi_arena_block_size bcount = bcount * MI_ARENA_BLOCK_SIZE.
Proof. intros H. unfold c_mi_arena_block_size. apply wmul_small. exact H. Qed.

(* ------------------------------------------------------------------------------------------ *)
(* the C16 laws, stated directly about the generated functions                                  *)
(* ------------------------------------------------------------------------------------------ *)
Lemma medium_lt_W64 s : s <= 2 * MI_MEDIUM_OBJ_SIZE_MAX -> s < W64.
Proof. unfold MI_MEDIUM_OBJ_SIZE_MAX. rewrite W64_val. lia. Qed.

Lemma gen_bin_size_ge s : s <= MI_MEDIUM_OBJ_SIZE_MAX ->
  s <= c__mi_bin_size (c_mi_bin s) /\ 1 <= c_mi_bin s < MI_BIN_HUGE.
Proof.
  intros H. rewrite c_mi_bin_eq by (apply medium_lt_W64; lia). rewrite c__mi_bin_size_eq. apply bin_size_ge; assumption.
Qed.

Lemma gen_bin_size_ge_all s : s + 7 < W64 ->
  (s <= MI_MEDIUM_OBJ_SIZE_MAX /\ s <= c__mi_bin_size (c_mi_bin s)) \/
  (MI_MEDIUM_OBJ_SIZE_MAX < s /\ c_mi_bin s = MI_BIN_HUGE).
Proof. intros H. rewrite c_mi_bin_eq by lia. rewrite c__mi_bin_size_eq. apply bin_size_ge_all; assumption. Qed.

Lemma gen_bin_monotone s1 s2 : s1 <= s2 -> s2 + 7 < W64 -> c_mi_bin s1 <= c_mi_bin s2.
Proof. intros H1 H2. rewrite !c_mi_bin_eq by lia. apply bin_monotone; assumption. Qed.

Lemma gen_bin_tight s : 64 < s -> s <= MI_MEDIUM_OBJ_SIZE_MAX -> c__mi_bin_size (c_mi_bin s - 1) < s.
Proof. intros H1 H2. rewrite c_mi_bin_eq by (apply medium_lt_W64; lia). rewrite c__mi_bin_size_eq. apply bin_tight; assumption. Qed.

Lemma gen_fragmentation_le_25 s : 64 < s -> s <= MI_MEDIUM_OBJ_SIZE_MAX ->
  4 * (c__mi_bin_size (c_mi_bin s) - s) <= s.
Proof. intros H1 H2. rewrite c_mi_bin_eq by (apply medium_lt_W64; lia). rewrite c__mi_bin_size_eq. apply fragmentation_le_25; assumption. Qed.

Lemma gen_good_size s : s <= 2 * MI_MEDIUM_OBJ_SIZE_MAX ->
  s <= c_mi_good_size s /\ c_mi_good_size (c_mi_good_size s) = c_mi_good_size s /\
  (s <= MI_MEDIUM_OBJ_SIZE_MAX -> c_mi_good_size s = c__mi_bin_size (c_mi_bin s)).
Proof.
  intros H. pose proof (medium_lt_W64 s H) as Hs.
  destruct (good_size_small s H) as [A [B C]].
  rewrite (c_mi_good_size_eq s Hs).
  assert (Hg : good_size s < W64).
  { pose proof (forallN_spec _ _ sweep_c_good_size s ltac:(unfold sweep_limit; lia)) as E. cbv beta in E.
    apply andb_true_iff in E as [E _]. apply andb_true_iff in E as [_ E]. apply N.ltb_lt in E. exact E. }
  rewrite (c_mi_good_size_eq _ Hg).
  split; [exact A|]. split; [exact B|].
  intros L. rewrite c_mi_bin_eq by assumption. rewrite c__mi_bin_size_eq. apply C; assumption.
Qed.

Lemma gen_slice_bin c : c <= MI_SLICES_PER_SEGMENT ->
  c_mi_slice_bin c <= MI_SEGMENT_BIN_MAX /\ c_mi_slice_bin c <= c_mi_slice_bin (c + 1) /\
  (1 <= c -> c <= span_bin_count (c_mi_slice_bin c)) /\
  (1 < c -> span_bin_count (c_mi_slice_bin c - 1) < c).
Proof.
  intros H. unfold MI_SLICES_PER_SEGMENT in H.
  destruct (c_mi_slice_bin8_dom c ltac:(unfold slice_sweep_limit; lia)) as [_ [E1 _]].
  destruct (c_mi_slice_bin8_dom (c + 1) ltac:(unfold slice_sweep_limit; lia)) as [_ [E2 _]].
  rewrite E1, E2. apply slice_bin_spec. unfold MI_SLICES_PER_SEGMENT. assumption.
Qed.

Lemma gen_slice_bin_ok c : c <= MI_SLICES_PER_SEGMENT -> c_mi_slice_bin_ok c = true.
Proof. intros H. unfold MI_SLICES_PER_SEGMENT in H. apply c_mi_slice_bin8_dom. unfold slice_sweep_limit. lia. Qed.

Lemma gen_fast_divide d n : 0 < d -> d < 2 ^ 32 -> n < 2 ^ 32 ->
  c_mi_fast_divide n (fst (c_mi_get_fast_divisor d)) (snd (c_mi_get_fast_divisor d)) = n / d.
Proof.
  intros H1 H2 H3. change (2 ^ 32) with 4294967296 in *.
  rewrite c_mi_get_fast_divisor_eq by (rewrite W64_val; lia). rewrite c_mi_fast_divide_eq.
  apply fast_divide_correct; assumption.
Qed.

Lemma gen_fast_divide_ok d n : 0 < d -> d < 2 ^ 32 -> n < 2 ^ 32 ->
  c_mi_get_fast_divisor_ok d = true /\
  c_mi_fast_divide_ok n (fst (c_mi_get_fast_divisor d)) (snd (c_mi_get_fast_divisor d)) = true.
Proof.
  intros H1 H2 H3. change (2 ^ 32) with 4294967296 in *. split.
  - apply c_mi_get_fast_divisor_ok_dom; [assumption | unfold UINT32_MAX_; lia].
  - rewrite c_mi_get_fast_divisor_eq by (rewrite W64_val; lia).
    unfold c_mi_fast_divide_ok, fast_divisor, MI_SIZE_BITS. cbv zeta. cbn [snd].
    apply N.ltb_lt. unfold clz. assert (wsub d 1 = d - 1) as -> by (apply wsub_small; lia).
    destruct (d - 1 =? 0) eqn:E; [lia|]. apply N.eqb_neq in E.
    assert (N.log2 (d - 1) < 32) by (apply N.log2_lt_pow2; [lia|]; change (2 ^ 32) with 4294967296; lia). lia.
Qed.

Lemma gen_unalign_correct page_start bs i off :
  0 < bs -> bs < W64 -> off < bs -> page_start + i * bs + off < W64 ->
  c__mi_page_ptr_unalign (page_start + i * bs + off) page_start (block_size_shift bs) bs = page_start + i * bs.
Proof.
  intros H1 H2 H3 H4. rewrite c__mi_page_ptr_unalign_eq by lia. apply unalign_correct; assumption.
Qed.

Lemma gen_ptr_segment seg p :
  seg mod MI_SEGMENT_SIZE = 0 -> 0 < seg -> seg + MI_SEGMENT_SIZE < 2 ^ 63 ->
  seg < p -> p <= seg + MI_SEGMENT_SIZE -> c__mi_ptr_segment p = seg.
Proof.
  intros H1 H2 H3 H4 H5. rewrite c__mi_ptr_segment_eq.
  - apply ptr_segment_spec; assumption.
  - change (2 ^ 63) with 9223372036854775808 in H3. rewrite W64_val. lia.
Qed.

Lemma gen_align_up sz a : 0 < a -> sz + a - 1 < W64 -> a < W64 ->
  sz <= c__mi_align_up sz a /\ c__mi_align_up sz a < sz + a /\ c__mi_align_up sz a mod a = 0 /\ c__mi_align_up_ok sz a = true.
Proof.
  intros H1 H2 H3. rewrite c__mi_align_up_eq by lia.
  destruct (align_up_props sz a H1 H2 H3) as [A [B C]]. repeat split; try assumption.
  apply c__mi_align_up_ok_all. lia.
Qed.

Lemma gen_align_down sz a : 0 < a -> sz < W64 -> a < W64 ->
  c__mi_align_down sz a <= sz /\ sz < c__mi_align_down sz a + a /\ c__mi_align_down sz a mod a = 0 /\ c__mi_align_down_ok sz a = true.
Proof.
  intros H1 H2 H3. rewrite c__mi_align_down_eq by lia.
  destruct (align_down_props sz a H1 H2 H3) as [A [B C]]. repeat split; try assumption.
  apply c__mi_align_down_ok_all. lia.
Qed.

Lemma gen_divide_up s d : 0 < d -> d < W64 -> s + d - 1 < W64 ->
  s <= c__mi_divide_up s d * d /\ c__mi_divide_up s d * d < s + d.
Proof. intros H1 H3 H2. rewrite c__mi_divide_up_eq by lia. apply divide_up_spec; assumption. Qed.
