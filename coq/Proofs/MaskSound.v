(* The commit mask of a segment stays sound under mi_segment_purge (property C13, models Model/Mask.v, Model/Os.v): a slice
   whose commit bit is set afterwards is accessible in the ghost kernel afterwards -- also in builds where a decommit revokes
   access (decommit_protects).  For every p and size (no range hypothesis: the conservative commit mask of an arbitrary
   (p, size), wrapped pointer arithmetic included, names whole slices of the segment and the byte range handed to
   _mi_os_purge is exactly those slices). *)
From Coq Require Import NArith ZArith List Bool Lia.
From MiV Require Import Gen.Consts Gen.OsConsts Model.Arith Model.Os Model.Mask Model.Purge
  Proofs.Base Proofs.OsProofs Proofs.MaskProofs.
Import ListNotations.
Local Open Scope N_scope.

(* alignment to the commit size under wrap-around *)
Lemma land_himask_mod y : N.land y 18446744073709486080 mod 65536 = 0.
Proof.
  change 65536 with (2 ^ 16). rewrite <- N.land_ones, <- N.land_assoc.
  change (N.land 18446744073709486080 (N.ones 16)) with 0. apply N.land_0_r.
Qed.

Lemma align_up_cs_mod x : align_up x 65536 mod 65536 = 0.
Proof. unfold align_up. change (N.land 65536 (wsub 65536 1) =? 0) with true. cbv iota. change (wnot (wsub 65536 1)) with 18446744073709486080. apply land_himask_mod. Qed.

Lemma align_down_cs_mod x : align_down x 65536 mod 65536 = 0.
Proof. unfold align_down. change (N.land 65536 (wsub 65536 1) =? 0) with true. cbv iota. change (wnot (wsub 65536 1)) with 18446744073709486080. apply land_himask_mod. Qed.

(* the conservative commit mask of ANY (p, size): empty, or whole slices [i, i+c) of the segment and exactly their bytes *)
Lemma scm_conservative_shape s p size start full mask :
  seg_ok s -> segment_commit_mask s true p size = (start, full, mask) ->
  full = 0 \/
  exists i c, start = s_base s + i * CS /\ full = c * CS /\ 0 < c /\ i + c <= MASK_BITS /\ (i + c) * CS <= s_size s /\
              forall k, N.testbit mask k = (i <=? k) && (k <? i + c).
Proof.
  intros (Hsz & Hbb & Hm1 & Hm2) E. unfold segment_commit_mask in E.
  destruct ((size =? 0) || (MI_SEGMENT_SIZE <? size) || is_huge s); [injection E as <- <- <-; left; reflexivity|].
  destruct (wadd (s_base s) (s_size s) <=? p); [injection E as <- <- <-; left; reflexivity|].
  unfold CS in *. rewrite COMMIT_SIZE_val, ?SEGSIZE_val, ?MASK_BITS_val in *. rewrite P62 in Hbb.
  set (pstart := wsub p (s_base s)) in *.
  set (start0 := align_up pstart 65536) in *.
  set (end0 := align_down (wadd pstart size) 65536) in *.
  assert (A1 : start0 mod 65536 = 0) by apply align_up_cs_mod.
  assert (A2 : end0 mod 65536 = 0) by apply align_down_cs_mod.
  set (st := if (s_info_size s <=? pstart) && (start0 <? s_info_size s) then s_info_size s else start0) in *.
  set (en := if s_size s <? end0 then s_size s else end0) in *.
  assert (B1 : st mod 65536 = 0) by (unfold st; destruct ((s_info_size s <=? pstart) && (start0 <? s_info_size s)); assumption).
  assert (B2 : en mod 65536 = 0 /\ en <= s_size s).
  { unfold en. destruct (s_size s <? end0) eqn:F; [split; [assumption|lia]|]. apply N.ltb_ge in F. auto. }
  destruct B2 as [B2 B3]. clearbody st en. clear A1 A2. clearbody start0 end0 pstart.
  destruct (st <? en) eqn:Flt.
  2:{ cbn in E. injection E as <- <- <-. left. reflexivity. }
  apply N.ltb_lt in Flt.
  assert (Ene : (en - st =? 0) = false) by (apply N.eqb_neq; lia). rewrite Ene in E.
  rewrite (wadd_small (s_base s) st) in E by (rewrite W64_val; lia).
  injection E as <- <- <-. right.
  exists (st / 65536), ((en - st) / 65536).
  assert (C1 : st = st / 65536 * 65536) by (pose proof (N.div_mod st 65536 ltac:(lia)); lia).
  assert (C2 : en = en / 65536 * 65536) by (pose proof (N.div_mod en 65536 ltac:(lia)); lia).
  assert (C3 : (en - st) / 65536 = en / 65536 - st / 65536).
  { rewrite C1 at 1. rewrite C2 at 1. rewrite <- N.mul_sub_distr_r. apply N.div_mul. lia. }
  assert (C4 : st / 65536 < en / 65536).
  { apply N.nle_gt. intros L. assert (en / 65536 * 65536 <= st / 65536 * 65536) by (apply N.mul_le_mono_r; exact L). lia. }
  assert (C5 : en / 65536 <= 512).
  { apply N.div_le_upper_bound; lia. }
  split; [lia|]. split; [rewrite C3; lia|]. split; [lia|]. split; [lia|]. split; [rewrite C3; lia|].
  intros k. apply create_bit. rewrite MASK_BITS_val. lia.
Qed.

Section WithOracle.
Variable cfg : oscfg.
Variable oracle : nat -> answer.

(* madvise never changes the protection *)
Lemma sys_madvise_rw o addr len adv a :
  pg_rw (k_at (os_k (fst (sys_madvise oracle o addr len adv))) a) = pg_rw (k_at (os_k o) a).
Proof.
  unfold sys_madvise. destruct (a_ok (oracle (os_seq o)) && (addr mod PAGE =? 0) && range_mapped (os_k o) addr (len_up len));
    cbn [fst os_k step k_at]; [|reflexivity].
  unfold set_range. destruct (in_range addr (len_up len) a); reflexivity.
Qed.

(* _mi_os_purge_ex: a byte that was accessible stays accessible unless the call reports needs_recommit and the byte lies in
   the range *)
Lemma os_purge_ex_access o p size ar o1 nr a :
  p + size < 2 ^ 62 -> os_purge_ex cfg oracle o p size ar = (o1, nr) -> accessible (os_k o) a = true ->
  accessible (os_k o1) a = true \/ (nr = true /\ p <= a /\ a < p + size).
Proof.
  intros Hb E Ha. unfold os_purge_ex in E.
  destruct (purge_delay cfg <? 0)%Z; [injection E as <- <-; left; exact Ha|].
  destruct (purge_decommits cfg).
  - unfold os_decommit_ex in E. destruct (os_page_align_area true p size) as [st cs] eqn:EA.
    destruct (cs =? 0) eqn:Z; [injection E as <- <-; left; exact Ha|]. apply N.eqb_neq in Z.
    destruct (page_align_conservative_inside p size st cs Hb EA ltac:(lia)) as (I1 & I2 & I3 & I4).
    unfold prim_decommit in E. destruct (sys_madvise oracle o st cs MADV_DONTNEED_) as [o' ok] eqn:EM.
    assert (Ha' : accessible (os_k o') a = true).
    { unfold accessible in *. pose proof (sys_madvise_rw o st cs MADV_DONTNEED_ a) as R. rewrite EM in R. cbn [fst] in R. congruence. }
    destruct (decommit_protects cfg).
    + destruct (sys_mprotect oracle o' st cs false) as [o'' b] eqn:EP. cbn [fst] in E. injection E as <- <-.
      destruct (sys_mprotect_spec oracle o' st cs false o'' b EP) as (_ & _ & _ & S4 & _).
      destruct (in_range st (len_up cs) a) eqn:R.
      * right. apply in_range_spec in R. rewrite (len_up_aligned cs I4) in R. split; [reflexivity|lia].
      * left. unfold accessible in *. rewrite (S4 a R). exact Ha'.
    + injection E as <- <-. left. exact Ha'.
  - injection E as <- <-. left. destruct ar; [|exact Ha].
    unfold os_reset. destruct (os_page_align_area true p size) as [st cs]. destruct (cs =? 0); [exact Ha|].
    unfold prim_reset, accessible in *. rewrite sys_madvise_rw. exact Ha.
Qed.

(* mask_sound_purge (the statement that was open in Proofs/OsOpen.v, unchanged) *)
Theorem mask_sound_purge o s p size :
  seg_ok2 s -> is_huge s = false -> mask_sound o s ->
  mask_sound (fst (segment_purge cfg oracle o s p size)) (snd (segment_purge cfg oracle o s p size)).
Proof.
  intros (Hok & Hb0 & Hbm) _ Hs. unfold segment_purge.
  destruct (negb (s_allow_purge s)); [exact Hs|].
  destruct (segment_commit_mask s true p size) as [[start full] mask] eqn:EM.
  destruct (commit_mask_is_empty mask || (full =? 0)) eqn:Z; [exact Hs|].
  apply orb_false_elim in Z as [_ Z]. apply N.eqb_neq in Z.
  destruct (scm_conservative_shape s p size start full mask Hok EM) as [F0|(i & c & E1 & E2 & Hc & Hic & Hsz & Hbits)]; [contradiction|].
  destruct (commit_mask_any_set (s_commit s) mask).
  2:{ cbn [fst snd]. intros k a Hk. apply Hs. exact Hk. }
  destruct (os_purge cfg oracle o start full) as [o1 dec] eqn:EP. cbn [fst snd].
  pose proof Hok as (Hsz' & Hbb & _ & _). rewrite P62 in Hbb.
  assert (Hrange : start + full < 2 ^ 62).
  { rewrite P62. subst start full. unfold CS in *. rewrite COMMIT_SIZE_val in *. lia. }
  unfold os_purge in EP.
  assert (Hbase : forall s1 m, s_base (set_purge s1 m) = s_base s1) by reflexivity.
  intros k a. rewrite Hbase.
  assert (Hcm : forall s1 m, s_commit (set_purge s1 m) = s_commit s1) by reflexivity. rewrite Hcm. clear Hbase Hcm.
  destruct dec; cbn [s_base s_commit set_commit]; intros Hk A1 A2.
  - unfold commit_mask_clear in Hk. rewrite N.ldiff_spec, Hbits in Hk. apply andb_prop in Hk as [Hk0 Hk]. apply negb_true_iff in Hk.
    pose proof (Hs k a Hk0 A1 A2) as Hacc.
    destruct (os_purge_ex_access o start full true o1 true a Hrange EP Hacc) as [R|(_ & R1 & R2)]; [exact R|].
    exfalso.
    assert (Hin : (i <=? k) && (k <? i + c) = true).
    { apply andb_true_intro. subst start full. unfold CS in *. rewrite COMMIT_SIZE_val in *. split; [apply N.leb_le|apply N.ltb_lt]; nia. }
    congruence.
  - pose proof (Hs k a Hk A1 A2) as Hacc.
    destruct (os_purge_ex_access o start full true o1 false a Hrange EP Hacc) as [R|(Hd & _)]; [exact R|discriminate].
Qed.

(* the masks of set_purge / set_expire do not matter for soundness *)
Lemma mask_sound_same_commit o s s' : s_base s' = s_base s -> s_commit s' = s_commit s -> mask_sound o s -> mask_sound o s'.
Proof. intros E1 E2 H k a. rewrite E1, E2. apply H. Qed.

Lemma seg_ok2_frame s s' : same_frame s s' -> seg_ok2 s -> seg_ok2 s'.
Proof.
  intros F (A & B & C). split; [exact (same_frame_ok _ _ F A)|]. destruct F as (E & _). rewrite E. auto.
Qed.

(* the loop of mi_segment_try_purge *)
Lemma mask_sound_runs b : forall rs o s,
  seg_ok2 s -> is_huge s = false -> mask_sound o s ->
  mask_sound (fst (fold_left (run_step cfg oracle b) rs (o, s))) (snd (fold_left (run_step cfg oracle b) rs (o, s))).
Proof.
  induction rs as [|[idx cnt] rs IH]; intros o s Hok Hh Hs; [exact Hs|].
  cbn [fold_left]. unfold run_step at 2 4. cbn [fst snd].
  pose proof (segment_purge_frame cfg oracle o s (wadd b (wmul idx MI_COMMIT_SIZE)) (wmul cnt MI_COMMIT_SIZE)) as F.
  pose proof (mask_sound_purge o s (wadd b (wmul idx MI_COMMIT_SIZE)) (wmul cnt MI_COMMIT_SIZE) Hok Hh Hs) as M.
  destruct (segment_purge cfg oracle o s (wadd b (wmul idx MI_COMMIT_SIZE)) (wmul cnt MI_COMMIT_SIZE)) as [o1 s1]. cbn [fst snd] in *.
  apply IH; [exact (seg_ok2_frame _ _ F Hok)|rewrite (same_frame_huge _ _ F); exact Hh|exact M].
Qed.

(* mi_segment_try_purge *)
Theorem mask_sound_try_purge o s force now :
  seg_ok2 s -> is_huge s = false -> mask_sound o s ->
  mask_sound (fst (segment_try_purge cfg oracle o s force now)) (snd (segment_try_purge cfg oracle o s force now)).
Proof.
  intros Hok Hh Hs. unfold segment_try_purge.
  destruct (negb (s_allow_purge s) || (s_expire s =? 0)%Z || commit_mask_is_empty (s_purge s)); [exact Hs|].
  destruct (negb force && (now <? s_expire s)%Z); [exact Hs|].
  rewrite purge_runs_unfold. apply mask_sound_runs; [exact Hok|exact Hh|].
  apply (mask_sound_same_commit o s); [reflexivity|reflexivity|exact Hs].
Qed.

(* mi_segment_schedule_purge *)
Theorem mask_sound_schedule_purge o s p size now :
  seg_ok2 s -> is_huge s = false -> mask_sound o s ->
  mask_sound (fst (segment_schedule_purge cfg oracle o s p size now)) (snd (segment_schedule_purge cfg oracle o s p size now)).
Proof.
  intros Hok Hh Hs. unfold segment_schedule_purge.
  destruct (negb (s_allow_purge s)); [exact Hs|].
  destruct (purge_delay cfg =? 0)%Z; [apply mask_sound_purge; assumption|].
  destruct (segment_commit_mask s true p size) as [[start full] mask].
  destruct (commit_mask_is_empty mask || (full =? 0)); [exact Hs|].
  set (s1 := set_purge s (commit_mask_set (s_purge s) (commit_mask_create_intersect (s_commit s) mask))).
  assert (Hs1 : mask_sound o s1) by (apply (mask_sound_same_commit o s); [reflexivity|reflexivity|exact Hs]).
  assert (Hse : forall e, mask_sound o (set_expire s1 e)).
  { intros e. apply (mask_sound_same_commit o s1); [reflexivity|reflexivity|exact Hs1]. }
  destruct (s_expire s1 =? 0)%Z; [apply Hse|].
  destruct (s_expire s1 <=? now)%Z; [|apply Hse].
  destruct (s_expire s1 + purge_extend_delay cfg <=? now)%Z; [|apply Hse].
  apply mask_sound_try_purge; [|exact Hh|exact Hs1].
  apply (seg_ok2_frame s); [|exact Hok]. repeat split.
Qed.
End WithOracle.
